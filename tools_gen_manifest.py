#!/usr/bin/env python3
"""Regenerates MANIFEST.json from manifest_src.json (per-property texts) + checks.json; validates against the schema."""
import json, os, sys
V = os.path.dirname(os.path.abspath(__file__))
src = json.load(open(os.path.join(V, "manifest_src.json")))
cfg = json.load(open(os.path.join(V, "checks.json")))
props = [json.loads(l) for l in open(os.path.join(V, "properties.jsonl"))]
checks, na = [], []
for p in props:
    pid = p["id"]
    if pid in cfg and pid in src["checks"]:
        s = src["checks"][pid]
        checks.append({
            "property_id": pid,
            "quick_cmd": "./check %s quick" % pid,
            "thorough_cmd": "./check %s thorough" % pid,
            "evidence_file": "/verif/evidence/%s.json" % pid,
            "replay_cmd_template": "./check %s replay {path}" % pid,
            "engine": "check",
            "level_claimed": {"category": "exploration", "text": s["text"], "design_ref": s.get("design_ref", "DESIGN.md section 4, " + pid)},
            "level_note": s["note"],
            "technique": s["technique"],
        })
    else:
        na.append({"property_id": pid, "reason": src.get("not_applicable", {}).get(pid, "check not built yet in this session; see DESIGN.md section 4 for the planned generator and oracle")})
m = {
    "version": 1,
    "setup_cmd": "./check setup",
    "hooks": src["hooks"],
    "engines": [{"name": "check", "path": "/verif/check", "serves_properties": [c["property_id"] for c in checks],
                 "kind_free_text": "Python driver that rebuilds one Go test binary per property from /repo (module replace), runs rapid (pgregory.net/rapid v1.3.0) property shards / exhaustive enumerations / isolated workers in parallel, replays committed regression inputs, merges evidence"}],
    "checks": checks,
    "not_applicable": na,
    "notes": src.get("notes", ""),
}
json.dump(m, open(os.path.join(V, "MANIFEST.json"), "w"), indent=1)
try:
    import jsonschema
    jsonschema.validate(m, json.load(open("/root/.vp/MANIFEST.schema.json")))
    print("MANIFEST.json valid:", len(checks), "checks,", len(na), "not_applicable")
except ImportError:
    print("jsonschema not available; not validated")
