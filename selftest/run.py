#!/usr/bin/env python3
"""Mutation self-test (not part of any registered command).
   selftest/run.py [-k] [ID|name ...]   apply each mutant of selftest/mutants.json to a scratch copy of /repo
   (under /tmp, removed afterwards), run `./check <ID> quick` against the copy (VERIF_REPO) and expect exit 1.
   Results are appended to selftest/results.jsonl."""
import json, os, shutil, subprocess, sys, time
V = os.path.dirname(os.path.dirname(os.path.abspath(__file__)))
muts = json.load(open(os.path.join(V, "selftest", "mutants.json")))
args = [a for a in sys.argv[1:] if not a.startswith("-")]
keep = "-k" in sys.argv
sel = [m for m in muts if not args or m["property"] in args or m["name"] in args]
env = dict(os.environ, GOFLAGS="-mod=mod", GOPROXY="off", GOSUMDB="off", GOTOOLCHAIN="local")
ok = True
for m in sel:
    scratch = "/tmp/vmut-%s-%s" % (m["property"], m["name"])
    shutil.rmtree(scratch, ignore_errors=True)
    shutil.copytree("/repo", scratch, ignore=shutil.ignore_patterns(".git"))
    if "patch" in m:
        p = subprocess.run(["patch", "-p1", "-d", scratch, "-i", os.path.join(V, m["patch"])], capture_output=True, text=True)
        if p.returncode != 0:
            print("MUTANT %s: patch does not apply\n%s" % (m["name"], p.stdout + p.stderr)); ok = False; continue
    else:
        path = os.path.join(scratch, m["file"])
        src = open(path).read()
        if src.count(m["find"]) < 1:
            print("MUTANT %s: pattern not found in %s" % (m["name"], m["file"])); ok = False; continue
        idx = m.get("nth", 0)
        parts = src.split(m["find"])
        src2 = m["find"].join(parts[: idx + 1]) + m["replace"] + m["find"].join(parts[idx + 1:])
        open(path, "w").write(src2)
    b = subprocess.run(["go", "build", "./..."], cwd=scratch, env=dict(env, GOFLAGS="-mod=mod"), capture_output=True, text=True)
    if b.returncode != 0:
        print("MUTANT %s: does not compile\n%s" % (m["name"], b.stderr[-2000:])); ok = False
        shutil.rmtree(scratch, ignore_errors=True); continue
    t0 = time.time()
    tier = m.get("tier", "quick")
    r = subprocess.run([os.path.join(V, "check"), m["property"], tier], cwd=V, env=dict(env, VERIF_REPO=scratch), capture_output=True, text=True)
    viol = [l for l in r.stdout.splitlines() if l.startswith("VIOLATION") or l.startswith("[driver] violation key")]
    res = {"property": m["property"], "name": m["name"], "rc": r.returncode, "caught": r.returncode == 1, "wall_s": round(time.time() - t0, 1),
           "keys": [l for l in viol if "key=" in l][:5], "what": m.get("what", "")}
    print(("CAUGHT " if res["caught"] else "MISSED ") + json.dumps(res))
    if not res["caught"]:
        ok = False
        print(r.stdout[-3000:])
    with open(os.path.join(V, "selftest", "results.jsonl"), "a") as fh:
        fh.write(json.dumps(res) + "\n")
    if not keep:
        shutil.rmtree(scratch, ignore_errors=True)
        import hashlib
        shutil.rmtree(os.path.join(V, "out", "alt-" + hashlib.sha1(scratch.encode()).hexdigest()[:8]), ignore_errors=True)
sys.exit(0 if ok else 1)
