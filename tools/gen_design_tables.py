#!/usr/bin/env python3
"""Regenerates the generated tables of DESIGN.md (between <!-- BEGIN x --> / <!-- END x --> markers) from
git log of /repo, known_findings.json, seeded/*/meta.json and selftest/results.json. Development tool."""
import json, os, re, subprocess, glob

V = os.path.dirname(os.path.dirname(os.path.abspath(__file__)))


def sh(*a):
    return subprocess.run(a, capture_output=True, text=True).stdout


def fixes():
    kf = json.load(open(os.path.join(V, "known_findings.json")))
    by = {}
    for f in kf:
        if f["status"] == "fixed":
            by.setdefault(f["commit"][:7], set()).add(f["property"])
    rows = ["| commit | found by | defect |", "|---|---|---|"]
    log = sh("git", "-C", "/repo", "log", "--reverse", "--format=%h %s").splitlines()
    n = 0
    for l in log:
        h, s = l.split(" ", 1)
        if not s.startswith("fix:"):
            continue
        n += 1
        rows.append("| %s | %s | %s |" % (h[:7], ", ".join(sorted(by.get(h[:7], []))) or "-", s[4:].strip().replace("|", "/")))
    rows.append("")
    rows.append("%d `fix:` commits." % n)
    return "\n".join(rows)


def known():
    kf = json.load(open(os.path.join(V, "known_findings.json")))
    rows = ["| property | key | what |", "|---|---|---|"]
    for f in kf:
        if f["status"] == "known":
            rows.append("| %s | `%s` | %s |" % (f["property"], f["key"].replace("|", "/"), f["what"].replace("|", "/")))
    return "\n".join(rows)


def seeded():
    rows = ["| seed | site | needs | valid | caught by (key of the first violation) | missed by |", "|---|---|---|---|---|---|"]
    tot = caught = 0
    for d in sorted(glob.glob(os.path.join(V, "seeded", "C*-*"))):
        mp = os.path.join(d, "meta.json")
        if not os.path.exists(mp):
            continue
        m = json.load(open(mp))
        patch = open(os.path.join(d, "patch.diff")).read()
        files = re.findall(r"^\+\+\+ b/(\S+)", patch, re.M)
        hunks = re.findall(r"^@@ .*?@@ (?:func )?(.*)$", patch, re.M)
        site = ", ".join(files)
        if hunks:
            fn = re.sub(r"\{\s*$", "", hunks[0]).strip()
            site += " `" + fn[:70].replace("|", "/") + "`"
        needs = m.get("summary", "")
        if m.get("note"):
            needs += " — *" + m["note"] + "*"
        c, miss = [], []
        for cid, r in sorted(m.get("checks", {}).items()):
            if r.get("caught"):
                k = (r.get("keys") or [""])[0].replace("[driver] violation key=", "").replace("|", "/")
                c.append("%s %s (`%s`, %ss)" % (cid, r.get("tier", "quick"), k[:90], r.get("wall_s")))
            else:
                miss.append(cid)
        own = m["property"]
        tot += 1
        if any(x.startswith(own + " ") for x in c):
            caught += 1
        rows.append("| %s | %s | %s | %s | %s | %s |" % (os.path.basename(d), site, needs, "yes" if m.get("valid_seed") else "no", "; ".join(c) or "-", ", ".join(miss) or "-"))
    rows.append("")
    rows.append("%d seeded changes filed, %d caught by their own property's check (tier given in each row; see the notes of the others)." % (tot, caught))
    return "\n".join(rows)


def mutants():
    p = os.path.join(V, "selftest", "results.jsonl")
    if not os.path.exists(p):
        return "(no results yet)"
    last = {}
    for l in open(p):
        l = l.strip()
        if l:
            r = json.loads(l)
            last[(r["property"], r["name"])] = r
    files = {(m["property"], m["name"]): m.get("file", "") for m in json.load(open(os.path.join(V, "selftest", "mutants.json")))}
    rows = ["| property | mutant | file | what | result | key of the violation |", "|---|---|---|---|---|---|"]
    n = c = 0
    for (pid, name), r in sorted(last.items()):
        if (pid, name) not in files:
            continue
        n += 1
        c += 1 if r.get("caught") else 0
        k = (r.get("keys") or [""])[0].replace("[driver] violation key=", "").replace("|", "/")
        rows.append("| %s | %s | %s | %s | %s | `%s` |" % (pid, name, files[(pid, name)], r.get("what", "").replace("|", "/"), "CAUGHT (%ss)" % r.get("wall_s") if r.get("caught") else "missed", k[:90]))
    rows.append("")
    rows.append("%d mutants, %d caught by the quick tier." % (n, c))
    return "\n".join(rows)


def main():
    p = os.path.join(V, "DESIGN.md")
    s = open(p).read()
    for name, fn in (("fixes", fixes), ("known", known), ("seeded", seeded), ("mutants", mutants)):
        b, e = "<!-- BEGIN %s -->" % name, "<!-- END %s -->" % name
        if b in s and e in s:
            s = s[:s.index(b) + len(b)] + "\n" + fn() + "\n" + s[s.index(e):]
        else:
            print("marker missing:", name)
    open(p, "w").write(s)


if __name__ == "__main__":
    main()
