import json,sys
# usage: addkf.py property status commit key repro what [scope]
p='/verif/known_findings.json'
d=json.load(open(p))
e={"property":sys.argv[1],"status":sys.argv[2],"commit":sys.argv[3],"key":sys.argv[4],"repro":sys.argv[5],"what":sys.argv[6]}
if len(sys.argv)>7: e["scope"]=sys.argv[7]
if e["status"]=="known": e.pop("commit")
d.append(e)
json.dump(d,open(p,'w'),indent=1)
print(len(d))
