// dbg: development aid. Prints input, decoded Info and re-encoded output of a C01-C03 replay file.
package main

import (
	"bytes"
	"encoding/json"
	"fmt"
	"os"

	"verif/internal/boxprop"
	"verif/internal/boxwalk"
	"verif/internal/harness"
)

func main() {
	b, err := os.ReadFile(os.Args[1])
	if err != nil {
		panic(err)
	}
	var rf harness.ReplayFile
	_ = json.Unmarshal(b, &rf)
	var c boxprop.Case
	_ = json.Unmarshal(rf.Case, &c)
	in := c.Bytes()
	if len(c.Data) > 0 && !bytes.Equal(in, c.Data) {
		fmt.Printf("NOTE: recipe gives %d bytes, stored data %d bytes; using the recipe\n", len(in), len(c.Data))
	}
	if len(in) == 0 {
		in = c.Data
	}
	fmt.Printf("key %s\nlevel %s path %s\nin  (%d) %s\n", rf.Key, c.Level, c.Path, len(in), harness.HexTrunc(in, 400))
	d, err := boxprop.Decode(in, c.Level, c.Path)
	fmt.Println("decode err:", err)
	if err != nil {
		return
	}
	if d.File != nil {
		_ = d.File.Info(os.Stdout, "all:1", "", "  ")
	} else {
		_ = d.Box.Info(os.Stdout, "all:1", "", "  ")
	}
	out, err := boxprop.EncodeW(d, true, false)
	fmt.Printf("encode err: %v\nout (%d) %s\n", err, len(out), harness.HexTrunc(out, 400))
	for _, x := range [][]byte{in, out} {
		tree, werr := boxwalk.WalkAll(x)
		fmt.Print("walk:")
		for _, b := range boxwalk.Flatten(tree) {
			fmt.Printf(" %d:%s@%d+%d", b.Depth, b.Type, b.Start, b.Size)
		}
		fmt.Println(" err:", werr)
	}
}
