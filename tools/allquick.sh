#!/bin/sh
# Development aid: run every quick check (optionally with VERIF_SEED) and print one line per property.
cd "$(dirname "$0")/.." || exit 2
mkdir -p out
bad=0
for id in C01 C02 C03 C04 C05 C06 C07 C08 C09 C10 C11 C12 C13 C14 C15 C16 C17 C18 C19 C20; do
  ./check $id quick > out/allquick-$id.log 2>&1; rc=$?
  [ $rc -ne 0 ] && bad=1
  echo "$id rc=$rc viol=$(grep -a -c '^VIOLATION' out/allquick-$id.log) $(grep -a 'driver.*seed=' out/allquick-$id.log | tail -1 | cut -c1-110)"
done
exit $bad
