// Package boxprop is the shared engine of C01 (round trip), C02 (sizes) and C03 (two decoders / two
// encoders): case type, generator, decoding/encoding through every path of the library, the independent
// normaliser + don't-care masks (spec/c01_dontcare.json) and a reflect-based structural comparison.
package boxprop

import (
	"bytes"
	"encoding/binary"
	"encoding/json"
	"errors"
	"fmt"
	"os"
	"path/filepath"
	"reflect"
	"sort"
	"strings"
	"sync"

	"github.com/Eyevinn/mp4ff/bits"
	"github.com/Eyevinn/mp4ff/mp4"
	"pgregory.net/rapid"

	"verif/internal/boxgen"
	"verif/internal/boxmut"
	"verif/internal/boxwalk"
	"verif/internal/harness"
	"verif/internal/seeds"
)

// Case is one input of the box-layer properties.
type Case struct {
	Seed    string           `json:"seed"`              // name in the seed pool ("" = Data)
	Box     int              `json:"box"`               // box level: index (depth-first) of the box of the seed to take; -1 = whole seed
	Muts    []boxmut.Mut     `json:"muts,omitempty"`    // mutation recipe (applied to the extracted box / the file)
	Data    harness.HexBytes `json:"data,omitempty"`    // explicit bytes (filled in for reports)
	Level   string           `json:"level"`             // "box" | "file"
	Path    string           `json:"path"`              // "reader" | "sr"
	Opt     bool             `json:"opt,omitempty"`     // C02/C03: encode with OptimizeTrun
	Info    bool             `json:"info,omitempty"`    // C02: call Info between encodes
	SWFirst bool             `json:"swfirst,omitempty"` // C02: the first encoding of each structure goes through EncodeSW
	// C02, with Info: InfoFirst calls Info before the first encode as well (a structure that Info has looked at, e.g.
	// a lazily parsed senc, must encode to the same bytes); InfoLevel is the specificBoxLevels argument
	// ("" stands for "all:1", the level every case used before the field existed).
	InfoFirst bool   `json:"infofirst,omitempty"`
	InfoLevel string `json:"infolevel,omitempty"`
	// Synth: bytes written by the grammar generator internal/boxgen (legal by construction); Origin names what
	// was asked of it ("box:stsc", "file:frag"). Muts apply on top. Seed is "" for such cases.
	Synth  harness.HexBytes `json:"synth,omitempty"`
	Origin string           `json:"origin,omitempty"`
}

// Bytes materialises the input.
func (c Case) Bytes() []byte {
	if c.Seed == "" && c.Synth != nil {
		if len(c.Muts) == 0 {
			return c.Synth
		}
		return boxmut.Apply(c.Synth, c.Muts)
	}
	if c.Seed == "" {
		return c.Data
	}
	s := seeds.Get(harness.E.RepoDir, c.Seed)
	if s == nil {
		return c.Data
	}
	if c.Level == "box" && c.Box >= 0 {
		tree, _ := boxwalk.WalkAll(s)
		flat := boxwalk.Flatten(tree)
		if len(flat) == 0 {
			return nil
		}
		b := flat[c.Box%len(flat)]
		s = s[b.Start:b.End()]
	}
	if len(c.Muts) == 0 {
		return s
	}
	return boxmut.Apply(s, c.Muts)
}

// Pristine reports whether the input is an unmodified harvested box / file.
func (c Case) Pristine() bool { return (c.Seed != "" || c.Synth != nil) && len(c.Muts) == 0 }

// ---------------------------------------------------------------------------------------------
// generator

type GenConfig struct {
	MaxSeed   int  // max seed size in bytes
	Mutate    bool // allow mutations
	FieldOnly bool // only size-preserving field mutations (bytes/payload/zero/verflags/count)
	SynthPct  int  // percentage of cases whose input comes from the grammar generator instead of the seed pool
}

// synthTypes: the box types the synth legs draw from (uniformly, see boxmut.Uniform). The containers and tables with
// the most decoder logic come first and four times (weight 4); every other type boxgen can write follows once.
var synthTypes []string

var synthWeighted = []string{"moov", "trak", "stbl", "stsd", "moof", "traf", "stsc", "trun", "tfhd", "sgpd", "sbgp", "senc", "saiz", "saio", "sidx", "tfra", "elst", "ctts", "pssh", "emsg", "subs", "meta", "udta"}

var synthFileKinds = []string{"prog", "init", "media", "frag", "frag", "any"}

func init() {
	heavy := map[string]bool{}
	for _, ty := range synthWeighted {
		heavy[ty] = true
		for i := 0; i < 4; i++ {
			synthTypes = append(synthTypes, ty)
		}
	}
	for _, ty := range append(boxgen.LeafTypes(), boxgen.ContainerTypes()...) {
		if !heavy[ty] {
			synthTypes = append(synthTypes, ty)
		}
	}
}

// genSynth draws a grammar-generated input.
func genSynth(t *rapid.T, c *Case) {
	c.Seed, c.Box = "", -1
	if c.Level == "file" {
		kind := synthFileKinds[boxmut.Uniform(t, "synthKind", len(synthFileKinds))]
		c.Origin = "file:" + kind
		c.Synth = boxgen.File(t, kind, boxgen.Opt{})
		return
	}
	typ := synthTypes[boxmut.Uniform(t, "synthType", len(synthTypes))]
	c.Origin = "box:" + typ
	c.Synth = boxgen.Box(t, typ, boxgen.Opt{})
}

// InfoLevels: the specificBoxLevels arguments C02 draws from ("none" = empty string: top level of detail only).
var InfoLevels = []string{"all:1", "none", "trun:1,senc:1"}

// SeedKind classifies where the input of a case comes from: frag | prog | repo | synth (| data).
func (c Case) SeedKind() string {
	switch {
	case c.Seed == "" && c.Synth != nil:
		return "synth"
	case c.Seed == "":
		return "data"
	}
	if i := strings.IndexByte(c.Seed, ':'); i > 0 {
		return c.Seed[:i]
	}
	return "other"
}

var fieldOps = map[string]bool{"bytes": true, "payload": true, "zero": true, "verflags": true, "count": true}

func Gen(t *rapid.T, cfg GenConfig) Case {
	repo := harness.E.RepoDir
	names := seeds.Names(repo, cfg.MaxSeed)
	c := Case{Seed: names[boxmut.Uniform(t, "seed", len(names))], Box: -1}
	c.Level = rapid.SampledFrom([]string{"box", "box", "file"}).Draw(t, "level")
	c.Path = rapid.SampledFrom([]string{"reader", "sr"}).Draw(t, "path")
	c.Opt = rapid.Bool().Draw(t, "opt")
	c.Info = rapid.Bool().Draw(t, "info")
	c.SWFirst = rapid.Bool().Draw(t, "swfirst")
	if c.Info {
		c.InfoFirst = rapid.Bool().Draw(t, "infoFirst")
		c.InfoLevel = rapid.SampledFrom(InfoLevels).Draw(t, "infoLevel")
	}
	if c.Level == "box" {
		c.Box = rapid.IntRange(0, 600).Draw(t, "box")
	}
	if cfg.SynthPct > 0 && rapid.IntRange(0, 99).Draw(t, "synth") < cfg.SynthPct {
		genSynth(t, &c)
	}
	if cfg.Mutate && rapid.IntRange(0, 9).Draw(t, "mutate") > 0 {
		muts := boxmut.Gen(t, 3)
		if cfg.FieldOnly {
			var keep []boxmut.Mut
			for _, m := range muts {
				if fieldOps[m.Op] {
					keep = append(keep, m)
				}
			}
			muts = keep
		}
		c.Muts = muts
	}
	return c
}

// ---------------------------------------------------------------------------------------------
// the library's registries (verif hook)

var (
	regOnce sync.Once
	regSet  map[string]bool
)

func Registered() map[string]bool {
	regOnce.Do(func() {
		r, _ := mp4.VerifRegisteredBoxTypes()
		regSet = map[string]bool{}
		for _, k := range r {
			regSet[k] = true
		}
	})
	return regSet
}

// ---------------------------------------------------------------------------------------------
// decoding / encoding through the library

type Decoded struct {
	Box  mp4.Box
	File *mp4.File
}

func (d Decoded) Nil() bool { return d.Box == nil && d.File == nil }

// Decode decodes data at the given level through the given path. Box level requires that the box
// covers the input exactly.
func Decode(data []byte, level, path string) (Decoded, error) {
	switch {
	case level == "file" && path == "reader":
		f, err := mp4.DecodeFile(bytes.NewReader(data))
		return Decoded{File: f}, err
	case level == "file":
		f, err := mp4.DecodeFileSR(bits.NewFixedSliceReader(data))
		return Decoded{File: f}, err
	case path == "reader":
		r := bytes.NewReader(data)
		b, err := mp4.DecodeBox(0, r)
		if err == nil && r.Len() != 0 {
			return Decoded{}, fmt.Errorf("box does not cover the input (%d bytes left)", r.Len())
		}
		return Decoded{Box: b}, err
	default:
		sr := bits.NewFixedSliceReader(data)
		b, err := mp4.DecodeBoxSR(0, sr)
		if err == nil && sr.NrRemainingBytes() != 0 {
			return Decoded{}, fmt.Errorf("box does not cover the input (%d bytes left)", sr.NrRemainingBytes())
		}
		return Decoded{Box: b}, err
	}
}

type countWriter struct{ buf bytes.Buffer }

func (w *countWriter) Write(p []byte) (int, error) { return w.buf.Write(p) }

// EncodeW encodes through the io.Writer path. mode: file FragEncMode box-tree when true.
func EncodeW(d Decoded, boxTree bool, opt bool) ([]byte, error) {
	var buf bytes.Buffer
	if d.File != nil {
		setModes(d.File, boxTree, opt)
		err := d.File.Encode(&buf)
		return buf.Bytes(), err
	}
	err := d.Box.Encode(&buf)
	return buf.Bytes(), err
}

func setModes(f *mp4.File, boxTree, opt bool) {
	f.FragEncMode = mp4.EncModeSegment
	if boxTree {
		f.FragEncMode = mp4.EncModeBoxTree
	}
	f.EncOptimize = mp4.OptimizeNone
	if opt {
		f.EncOptimize = mp4.OptimizeTrun
	}
}

// EncodeSW encodes through the SliceWriter path into a buffer of exactly size bytes (size<0: Size()).
// DirtySW returns a fixed slice writer over a caller-provided buffer of n bytes that is NOT zeroed (as a buffer
// taken from a pool would be): an encoder that relies on the buffer's previous content shows up as a difference
// from the io.Writer path.
func DirtySW(n int) *bits.FixedSliceWriter {
	buf := make([]byte, n)
	for i := range buf {
		buf[i] = 0xa5
	}
	return bits.NewFixedSliceWriterFromSlice(buf)
}

// IsOverflow reports whether err is the slice writer's "buffer too small" error. The library's encoders allocate
// exactly Size() bytes (or are handed them): an overflow means that Size() announced less than the encoder writes.
func IsOverflow(err error) bool {
	return err != nil && (errors.Is(err, bits.ErrSliceWrite) || strings.Contains(err.Error(), bits.ErrSliceWrite.Error()))
}

func EncodeSW(d Decoded, boxTree bool, opt bool, size int) ([]byte, error) {
	if d.File != nil {
		setModes(d.File, boxTree, opt)
		if size < 0 {
			size = int(d.File.Size())
		}
		sw := DirtySW(size)
		err := d.File.EncodeSW(sw)
		if err == nil {
			err = sw.AccError()
		}
		return sw.Bytes(), err
	}
	if size < 0 {
		size = int(d.Box.Size())
	}
	sw := DirtySW(size)
	err := d.Box.EncodeSW(sw)
	if err == nil {
		err = sw.AccError()
	}
	return sw.Bytes(), err
}

func (d Decoded) Size() uint64 {
	if d.File != nil {
		return d.File.Size()
	}
	return d.Box.Size()
}

// ---------------------------------------------------------------------------------------------
// don't-care spec

type dcEntry struct {
	Type     string   `json:"type"`
	Versions []int    `json:"versions"`        // nil = any / not a full box
	Except   []int    `json:"except_versions"` // applies to every version but these
	Ranges   [][2]int `json:"ranges"`          // [offset, length] relative to the payload start
	Bits     [][2]int `json:"bits"`            // [payload offset, bit mask] single bytes where only some bits are don't-care
	Why      string   `json:"why"`
}

type dcSpec struct {
	Entries []dcEntry `json:"entries"`
}

var (
	dcOnce sync.Once
	dcByT  map[string][]dcEntry
	dcErr  error
)

func loadSpec() {
	dcOnce.Do(func() {
		b, err := os.ReadFile(filepath.Join(harness.E.VerifDir, "spec", "c01_dontcare.json"))
		if err != nil {
			dcErr = err
			return
		}
		var s dcSpec
		if err := json.Unmarshal(b, &s); err != nil {
			dcErr = err
			return
		}
		dcByT = map[string][]dcEntry{}
		for _, e := range s.Entries {
			dcByT[e.Type] = append(dcByT[e.Type], e)
		}
	})
}

// maskFor returns the don't-care mask (one byte per payload byte, bit set = don't care) of a box payload.
func maskFor(typ string, payload []byte) []byte {
	loadSpec()
	es := dcByT[typ]
	if len(es) == 0 && !visualEntries[typ] && !computedTypes[typ] {
		return nil
	}
	m := make([]byte, len(payload))
	ver := -1
	if len(payload) > 0 {
		ver = int(payload[0])
	}
	for _, e := range es {
		ok := e.Versions == nil
		for _, v := range e.Versions {
			if v == ver {
				ok = true
			}
		}
		for _, v := range e.Except {
			if v == ver {
				ok = false
			}
		}
		if !ok {
			continue
		}
		for _, r := range e.Ranges {
			for i := r[0]; i < r[0]+r[1] && i < len(m); i++ {
				m[i] = 0xff
			}
		}
		for _, b := range e.Bits {
			if b[0] < len(m) {
				m[b[0]] |= byte(b[1])
			}
		}
	}
	computedMask(typ, payload, m)
	return m
}

// computedTypes: box types with position-dependent masks (computedMask) and possibly no table entry.
var computedTypes = map[string]bool{"colr": true, "sgpd": true, "avcC": true, "tlou": true, "alou": true, "dec3": true, "silb": true}

var visualEntries = map[string]bool{"avc1": true, "avc3": true, "hvc1": true, "hev1": true, "encv": true, "av01": true, "vp08": true, "vp09": true}

// computedMask adds the position-dependent don't-care bits listed under "computed" in the spec.
func computedMask(typ string, p, m []byte) {
	switch {
	case typ == "avcC":
		if len(p) < 7 {
			return
		}
		pos := 6
		for i := 0; i < int(p[5]&31); i++ {
			if pos+2 > len(p) {
				return
			}
			pos += 2 + int(p[pos])<<8 + int(p[pos+1])
		}
		if pos >= len(p) {
			return
		}
		n := int(p[pos])
		pos++
		for i := 0; i < n; i++ {
			if pos+2 > len(p) {
				return
			}
			pos += 2 + int(p[pos])<<8 + int(p[pos+1])
		}
		for i, bits := range []byte{0xfc, 0xf8, 0xf8} {
			if pos+i < len(m) {
				m[pos+i] |= bits
			}
		}
	case typ == "sgpd":
		// seig entries (CencSampleEncryptionInformationGroupEntry): first byte reserved(8)=0
		if len(p) >= 20 && p[0] >= 1 && string(p[4:8]) == "seig" {
			dl := int(p[8])<<24 | int(p[9])<<16 | int(p[10])<<8 | int(p[11])
			base := 16 // version 1: version+flags, grouping_type, default_length, entry_count
			if p[0] >= 2 {
				base = 20 // version 2: default_group_description_index in front of entry_count
			}
			n := int(p[base-4])<<24 | int(p[base-3])<<16 | int(p[base-2])<<8 | int(p[base-1])
			if dl >= 20 {
				for i := 0; i < n && base+i*dl < len(m); i++ {
					m[base+i*dl] = 0xff
				}
			} else if dl == 0 {
				// every entry is preceded by its own description_length
				pos := base
				for i := 0; i < n && pos+5 <= len(p); i++ {
					el := int(p[pos])<<24 | int(p[pos+1])<<16 | int(p[pos+2])<<8 | int(p[pos+3])
					if el >= 20 {
						m[pos+4] = 0xff
					}
					pos += 4 + el
				}
			}
		}
	case typ == "silb":
		// SchemeIdListBox: the flag bytes (at_least_one_flag per scheme, other_schemes_flag) are read as "== 1";
		// values above 1 have no defined reading and come back as 0: no claim on such a byte
		if len(p) < 8 {
			return
		}
		n := int(p[4])<<24 | int(p[5])<<16 | int(p[6])<<8 | int(p[7])
		pos := 8
		flagAt := func() {
			if pos < len(p) && p[pos] > 1 {
				m[pos] = 0xff
			}
			pos++
		}
		for i := 0; i < n && pos < len(p); i++ {
			for k := 0; k < 2; k++ {
				for pos < len(p) && p[pos] != 0 {
					pos++
				}
				pos++
			}
			flagAt()
		}
		flagAt()
	case typ == "dec3":
		// EC3SpecificBox (ETSI TS 102 366 F.6): per independent substream reserved(1) after bsid, reserved(3) after
		// lfeon, and reserved(1) instead of chan_loc when num_dep_sub == 0
		if len(p) < 2 {
			return
		}
		pos := 2
		for i := 0; i <= int(p[1]&7); i++ {
			if pos+3 > len(p) {
				return
			}
			m[pos] |= 0x01
			m[pos+2] |= 0xe0
			if p[pos+2]&0x1e == 0 {
				m[pos+2] |= 0x01
				pos += 3
			} else {
				pos += 4
			}
		}
	case typ == "tlou" || typ == "alou":
		// LoudnessBaseBox (14496-12 12.2.7.2): per loudness base, version>=1: reserved(2) in front of EQ_set_ID;
		// then reserved(3) in front of downmix_ID
		if len(p) < 4 {
			return
		}
		pos, n := 4, 1
		if p[0] >= 1 {
			if len(p) < 5 {
				return
			}
			n = int(p[4] & 0x3f)
			pos = 5
		}
		for i := 0; i < n; i++ {
			if p[0] >= 1 {
				if pos >= len(p) {
					return
				}
				m[pos] |= 0xc0
				pos++
			}
			if pos+7 > len(p) {
				return
			}
			m[pos] |= 0xe0
			pos += 7 + 3*int(p[pos+6])
		}
	case typ == "colr":
		if len(p) >= 11 && string(p[0:4]) == "nclx" {
			m[10] |= 0x7f // full_range_flag(1) + reserved(7)
		}
	case visualEntries[typ]:
		if len(p) >= 74 && p[42] <= 31 {
			for i := 43 + int(p[42]); i < 74; i++ {
				m[i] = 0xff
			}
		}
	}
}

// ---------------------------------------------------------------------------------------------
// normalised comparison of input and re-encoded output

// libContainer: boxes that both the walker and the library treat as containers of boxes.
func libContainer(typ string) bool { return boxwalk.IsContainer(typ) && Registered()[typ] }

type Diff struct {
	Key string
	Msg string
}

type CmpStats struct {
	Surplus      int // boxes whose re-encoding dropped bytes after the last syntax element
	LargeToSmall int // 64-bit size headers rewritten as 32-bit
	MoovReorder  int
	MaskedBytes  int
	Malformed    int // inputs whose size fields the independent walker rejects (no byte-level claim)
	NotCovered   int // inputs the independent walker does not cover to the last byte (no byte-level claim)
	MoovOrderChk int // moov boxes with traks and other children on which the relative-order clause was judged
}

func boxPayload(data []byte, b *boxwalk.Box) []byte { return data[b.PayloadStart():b.End()] }

// moovOrder emulates the documented re-ordering of MoovBox.AddChild: a trak that is not adjacent to the
// previous traks is moved next to the last previous trak.
func moovOrder(kids []*boxwalk.Box) ([]*boxwalk.Box, bool) {
	var out []*boxwalk.Box
	changed := false
	for _, k := range kids {
		if k.Type == "trak" {
			last := 0
			for i, o := range out {
				if o.Type == "trak" {
					last = i
				}
			}
			if last != 0 && last != len(out)-1 {
				out = append(out[:last+2], out[last+1:]...)
				out[last+1] = k
				changed = true
				continue
			}
		}
		out = append(out, k)
	}
	return out, changed
}

// moovRelativeOrder states the order clause of the don't-care list ("moov trak adjacency") without the algorithm of
// MoovBox.AddChild: whatever the re-ordering does, the traks keep their relative input order and so do all the other
// children (the two subsequences are compared pairwise, box by box, like any other child list).
func moovRelativeOrder(in, out []byte, a, b *boxwalk.Box, path string, pristine bool, st *CmpStats) *Diff {
	split := func(kids []*boxwalk.Box) (traks, others []*boxwalk.Box) {
		for _, k := range kids {
			if k.Type == "trak" {
				traks = append(traks, k)
			} else {
				others = append(others, k)
			}
		}
		return
	}
	ti, oi := split(a.Children)
	to, oo := split(b.Children)
	if len(ti) > 0 && len(oi) > 0 {
		st.MoovOrderChk++
	}
	var scratch CmpStats // the pairs were counted once already
	for _, p := range [][2][]*boxwalk.Box{{ti, to}, {oi, oo}} {
		what := "traks"
		if len(p[0]) > 0 && p[0][0].Type != "trak" {
			what = "non-trak children"
		}
		if d := cmpLists(in, out, p[0], p[1], path, pristine, &scratch); d != nil {
			return &Diff{"C01|moov|relative order of the " + what + " changed", fmt.Sprintf("%s: input %s, output %s (%s)", path, types(a.Children), types(b.Children), d.Msg)}
		}
	}
	return nil
}

// CompareRoundTrip compares the input with the re-encoded output box by box. pristine inputs are compared
// strictly; for mutated inputs a leaf box whose output is a (masked) prefix of the input is counted as
// "surplus bytes dropped" (spec entry "surplus").
func CompareRoundTrip(in, out []byte, pristine bool, st *CmpStats) *Diff {
	ti, errI := boxwalk.WalkAll(in)
	if errI != nil {
		// The independent walker finds inconsistent size fields in the input (a child that claims more bytes
		// than its parent holds; the io.Reader decoders accept such containers at the end of the input).
		// No byte-level claim for such inputs; checks (2) and (3) still apply.
		st.Malformed++
		return nil
	}
	to, errO := boxwalk.WalkAll(out)
	if errO != nil {
		return &Diff{"C01|output|not a well-formed box sequence", errO.Error()}
	}
	covered := 0
	for _, b := range ti {
		covered = b.End()
	}
	if covered != len(in) {
		// the decoder accepted an input that the independent walker does not fully understand: no claim
		st.NotCovered++
		return nil
	}
	return cmpLists(in, out, ti, to, "", pristine, st)
}

func cmpLists(in, out []byte, bi, bo []*boxwalk.Box, path string, pristine bool, st *CmpStats) *Diff {
	if len(bi) != len(bo) {
		return &Diff{"C01|" + leaf(path) + "|number of child boxes differs", fmt.Sprintf("%s: input has %d boxes %s, output %d %s", path, len(bi), types(bi), len(bo), types(bo))}
	}
	for i := range bi {
		if d := cmpBox(in, out, bi[i], bo[i], path+"/"+bi[i].Type, pristine, st); d != nil {
			return d
		}
	}
	return nil
}

func leaf(path string) string {
	if path == "" {
		return "file"
	}
	out := []byte(path[strings.LastIndex(path, "/")+1:])
	for i, b := range out {
		if b < 0x20 || b > 0x7e {
			out[i] = '?'
		}
	}
	return string(out)
}

func types(bs []*boxwalk.Box) string {
	s := "["
	for i, b := range bs {
		if i > 0 {
			s += " "
		}
		s += b.Type
	}
	return s + "]"
}

func cmpBox(in, out []byte, a, b *boxwalk.Box, path string, pristine bool, st *CmpStats) *Diff {
	if a.Type != b.Type {
		return &Diff{"C01|" + leaf(path) + "|box type or order differs", fmt.Sprintf("%s: input %s at %d, output %s at %d", path, a.Type, a.Start, b.Type, b.Start)}
	}
	if a.Large && !b.Large && a.Type != "mdat" {
		st.LargeToSmall++
	} else if a.Large != b.Large {
		return &Diff{"C01|" + a.Type + "|size header form (32/64 bit) differs", fmt.Sprintf("%s: input large=%v output large=%v", path, a.Large, b.Large)}
	}
	if a.Type == "uuid" {
		if !bytes.Equal(in[a.PayloadStart()-16:a.PayloadStart()], out[b.PayloadStart()-16:b.PayloadStart()]) {
			return &Diff{"C01|uuid|usertype differs", path}
		}
	}
	pa, pb := boxPayload(in, a), boxPayload(out, b)
	if libContainer(a.Type) && len(a.Children)+len(b.Children) > 0 || (libContainer(a.Type) && a.Skip == b.Skip && len(pa) == a.Skip) {
		// header prefix (full box header, entry count, sample entry fields) compared under the mask
		if a.Skip != b.Skip {
			return &Diff{"C01|" + a.Type + "|container prefix length differs", fmt.Sprintf("%s: %d vs %d", path, a.Skip, b.Skip)}
		}
		if d := cmpBytes(a.Type, pa[:a.Skip], pb[:b.Skip], path, st); d != nil {
			return d
		}
		ka := a.Children
		if a.Type == "moov" {
			var ch bool
			ka, ch = moovOrder(a.Children)
			if ch {
				st.MoovReorder++
			}
		}
		if d := cmpLists(in, out, ka, b.Children, path, pristine, st); d != nil {
			return d
		}
		if a.Type == "moov" {
			return moovRelativeOrder(in, out, a, b, path, pristine, st)
		}
		return nil
	}
	if len(pa) == len(pb) {
		return cmpBytes(a.Type, pa, pb, path, st)
	}
	if len(pb) < len(pa) && !pristine {
		if d := cmpBytes(a.Type, pa[:len(pb)], pb, path, st); d == nil {
			st.Surplus++
			return nil
		}
	}
	return &Diff{"C01|" + a.Type + "|re-encoded box length differs", fmt.Sprintf("%s: input payload %d bytes, output %d bytes\n in  %s\n out %s", path, len(pa), len(pb), harness.HexTrunc(pa, 120), harness.HexTrunc(pb, 120))}
}

var audioEntries = map[string]bool{"mp4a": true, "enca": true, "ac-3": true, "ec-3": true}

// unrepresentedField names ISO template fields that the library neither stores nor reproduces (they are NOT
// don't-care: a difference there is reported under a key of its own).
func unrepresentedField(typ string, off int) string {
	switch {
	case visualEntries[typ] && (off == 74 || off == 75):
		return "VisualSampleEntry.depth|not represented (always written as 0x0018)"
	case audioEntries[typ] && (off == 26 || off == 27):
		return "AudioSampleEntry.samplerate|fractional 16 bits not represented (written as 0)"
	case typ == "data" && off < 8:
		return "DataBox(ilst).type_indicator+locale|not represented (always written as 1 and 0)"
	}
	return ""
}

func cmpBytes(typ string, pa, pb []byte, path string, st *CmpStats) *Diff {
	if bytes.Equal(pa, pb) {
		return nil
	}
	m := maskFor(typ, pa)
	for i := range pa {
		x := pa[i] ^ pb[i]
		if m != nil {
			if m[i] != 0 {
				st.MaskedBytes++
			}
			x &^= m[i]
		}
		if x != 0 {
			ver := -1
			if len(pa) > 0 {
				ver = int(pa[0])
			}
			lo := i - 8
			if lo < 0 {
				lo = 0
			}
			key := "C01|" + typ + "|re-encoded bytes differ"
			if f := unrepresentedField(typ, i); f != "" {
				key = "C01|" + f
			}
			return &Diff{key, fmt.Sprintf("%s (first payload byte/version %d, payload length %d): payload offset %d: input %02x output %02x\n in  ...%s\n out ...%s",
				path, ver, len(pa), i, pa[i], pb[i], harness.HexTrunc(pa[lo:], 48), harness.HexTrunc(pb[lo:], 48))}
		}
	}
	return nil
}

// ---------------------------------------------------------------------------------------------
// structural comparison (reflect; nil == empty; unexported fields included)

type EqOpt struct {
	IgnorePositions bool // ignore fields named StartPos / AnchorPoint (used when lengths changed)
}

// fields that record where the bytes came from (positions, remembered sizes, raw payload caches); they
// legitimately differ as soon as the output is not byte-identical to the input
var posFields = map[string]bool{"StartPos": true, "AnchorPoint": true, "readBoxSize": true, "rawData": true}

// DeepDiff returns "" when a and b are structurally equal, else a description of the first difference.
func DeepDiff(a, b interface{}, opt EqOpt) string {
	seen := map[[2]uintptr]bool{}
	return deep(reflect.ValueOf(a), reflect.ValueOf(b), "", opt, seen, 0)
}

func deep(a, b reflect.Value, path string, opt EqOpt, seen map[[2]uintptr]bool, depth int) string {
	if depth > 200 {
		return ""
	}
	if !a.IsValid() || !b.IsValid() {
		if a.IsValid() != b.IsValid() {
			return path + ": one side invalid"
		}
		return ""
	}
	if a.Type() != b.Type() {
		return fmt.Sprintf("%s: type %s vs %s", path, a.Type(), b.Type())
	}
	switch a.Kind() {
	case reflect.Ptr, reflect.Interface:
		if a.IsNil() || b.IsNil() {
			if a.IsNil() != b.IsNil() {
				return fmt.Sprintf("%s: nil vs non-nil", path)
			}
			return ""
		}
		if a.Kind() == reflect.Ptr {
			k := [2]uintptr{a.Pointer(), b.Pointer()}
			if seen[k] {
				return ""
			}
			seen[k] = true
		}
		return deep(a.Elem(), b.Elem(), path, opt, seen, depth+1)
	case reflect.Struct:
		for i := 0; i < a.NumField(); i++ {
			name := a.Type().Field(i).Name
			if opt.IgnorePositions && posFields[name] {
				continue
			}
			if d := deep(a.Field(i), b.Field(i), path+"."+name, opt, seen, depth+1); d != "" {
				return d
			}
		}
		return ""
	case reflect.Slice, reflect.Array:
		if a.Len() != b.Len() {
			return fmt.Sprintf("%s: length %d vs %d", path, a.Len(), b.Len())
		}
		if a.Kind() == reflect.Slice && a.Type().Elem().Kind() == reflect.Uint8 {
			if !bytes.Equal(a.Bytes(), b.Bytes()) {
				return fmt.Sprintf("%s: bytes differ (%s vs %s)", path, harness.HexTrunc(a.Bytes(), 24), harness.HexTrunc(b.Bytes(), 24))
			}
			return ""
		}
		for i := 0; i < a.Len(); i++ {
			if d := deep(a.Index(i), b.Index(i), fmt.Sprintf("%s[%d]", path, i), opt, seen, depth+1); d != "" {
				return d
			}
		}
		return ""
	case reflect.Map:
		if a.Len() != b.Len() {
			return fmt.Sprintf("%s: map size %d vs %d", path, a.Len(), b.Len())
		}
		keys := a.MapKeys()
		sort.Slice(keys, func(i, j int) bool { return fmt.Sprint(keys[i]) < fmt.Sprint(keys[j]) })
		for _, k := range keys {
			bv := b.MapIndex(k)
			if !bv.IsValid() {
				return fmt.Sprintf("%s: key %v missing", path, k)
			}
			if d := deep(a.MapIndex(k), bv, fmt.Sprintf("%s[%v]", path, k), opt, seen, depth+1); d != "" {
				return d
			}
		}
		return ""
	case reflect.Bool:
		if a.Bool() != b.Bool() {
			return fmt.Sprintf("%s: %v vs %v", path, a.Bool(), b.Bool())
		}
	case reflect.Int, reflect.Int8, reflect.Int16, reflect.Int32, reflect.Int64:
		if a.Int() != b.Int() {
			return fmt.Sprintf("%s: %d vs %d", path, a.Int(), b.Int())
		}
	case reflect.Uint, reflect.Uint8, reflect.Uint16, reflect.Uint32, reflect.Uint64, reflect.Uintptr:
		if a.Uint() != b.Uint() {
			return fmt.Sprintf("%s: %d vs %d", path, a.Uint(), b.Uint())
		}
	case reflect.Float32, reflect.Float64:
		if a.Float() != b.Float() {
			return fmt.Sprintf("%s: %v vs %v", path, a.Float(), b.Float())
		}
	case reflect.String:
		if a.String() != b.String() {
			return fmt.Sprintf("%s: %q vs %q", path, a.String(), b.String())
		}
	case reflect.Func, reflect.Chan, reflect.UnsafePointer:
		// not data
	}
	return ""
}

// ---------------------------------------------------------------------------------------------
// lock-step size walk (C02): the tree of the library against the independent walker over the output

// Children returns the child boxes of a library box, if it exposes them.
func Children(b mp4.Box) ([]mp4.Box, bool) {
	if c, ok := b.(mp4.ContainerBox); ok {
		return c.GetChildren(), true
	}
	v := reflect.ValueOf(b)
	if v.Kind() == reflect.Ptr && !v.IsNil() && v.Elem().Kind() == reflect.Struct {
		f := v.Elem().FieldByName("Children")
		if f.IsValid() && f.Kind() == reflect.Slice && f.CanInterface() {
			if kids, ok := f.Interface().([]mp4.Box); ok {
				return kids, true
			}
		}
	}
	return nil, false
}

// SizeWalk checks, for every node of the library tree, that Size() equals the length of the corresponding
// box found by the independent walker in out, and that the written size field equals that length.
func SizeWalk(out []byte, top []mp4.Box) *Diff {
	tree, err := boxwalk.WalkAll(out)
	if err != nil {
		return &Diff{"C02|output|size fields inconsistent (independent walker)", err.Error()}
	}
	return sizeLists(out, tree, top, "")
}

func sizeLists(out []byte, ws []*boxwalk.Box, bs []mp4.Box, path string) *Diff {
	if len(ws) != len(bs) {
		var lt []string
		for _, b := range bs {
			lt = append(lt, b.Type())
		}
		return &Diff{"C02|" + leaf(path) + "|number of written boxes differs from the tree", fmt.Sprintf("%s: walker %s, tree %v", path, types(ws), lt)}
	}
	for i, w := range ws {
		b := bs[i]
		p := path + "/" + w.Type
		if w.Type != b.Type() {
			return &Diff{"C02|" + leaf(p) + "|written box type differs from the tree", fmt.Sprintf("%s vs %s", w.Type, b.Type())}
		}
		if uint64(w.Size) != b.Size() {
			return &Diff{"C02|" + w.Type + "|Size() differs from the written box length", fmt.Sprintf("%s: Size() %d, written %d bytes (at %d)", p, b.Size(), w.Size, w.Start)}
		}
		if kids, ok := Children(b); ok && libContainer(w.Type) {
			sum := w.HdrSize + w.Skip
			for _, k := range w.Children {
				sum += k.Size
			}
			if sum != w.Size {
				return &Diff{"C02|" + w.Type + "|container size is not header + sum of children", fmt.Sprintf("%s: size field %d, header+prefix+children %d", p, w.Size, sum)}
			}
			if d := sizeLists(out, w.Children, kids, p); d != nil {
				return d
			}
		}
	}
	return nil
}

// TopBoxes returns the top-level boxes a Decoded writes in box-tree / progressive mode.
func (d Decoded) TopBoxes() []mp4.Box {
	if d.File != nil {
		return d.File.Children
	}
	return []mp4.Box{d.Box}
}

// BE32 reads a big-endian uint32.
func BE32(b []byte) uint32 { return binary.BigEndian.Uint32(b) }
