// HEVC half: value-tree generators for VPS / SPS / PPS / slice segment headers / hvcC inputs (ranges follow the
// semantics of H.265 7.4.3, 7.4.7 and E.3 and the widths of the parser's struct fields). The trees are
// serialised by verif/internal/nalgen.
package esgen

import (
	"fmt"
	"sort"

	"github.com/Eyevinn/mp4ff/hevc"
	"pgregory.net/rapid"

	"verif/internal/nalgen"
)

// HEVCAvoidKnown: one switch per CONFIRMED defect of the unchanged library (each verified by decoding the
// bits by hand; minimal reproducers are /verif/replay/C15/kf-<name>.json). While a switch is true the
// generators do not produce the feature (every avoided draw is counted with exclude(name)), so
// the suite is silent on the unchanged tree; set a switch to false (or C15_HEVC_UNAVOID=<name>) and the
// defect is found within a few hundred cases.
var HEVCAvoidKnown = map[string]bool{
	// hevc.parseVUI: aspect_ratio_idc = 0 ("Unspecified", Table E.1, a legal value) makes ParseSPSNALUnit fail
	// with "GetSARFromIDC: SAR bad index 0" (avc.GetSARfromIDC rejects index 0).
	"hevc-vui-aspect-ratio-idc-0": false, // repaired in /repo (fix: commit), see known_findings.json
	// hevc.SubLayerOrderingInfo.MaxLatencyIncreasePlus1 is a byte, but sps_max_latency_increase_plus1 is ue(v)
	// with range 0..2^32-2 (7.4.3.2.1): values > 255 are truncated (256 -> 0).
	"hevc-sps-max-latency-increase-byte": true,
	// hevc.parseShortTermRPS: for inter_ref_pic_set_prediction_flag = 1 the derived set (7-61, 7-62) is not
	// computed: NumNegativePics/NumPositivePics/DeltaPocS0/S1/UsedByCurrPicS0/S1 stay empty, only NumDeltaPocs
	// is counted. While avoided, the comparison of inter-predicted sets is restricted to NumDeltaPocs (flag
	// RelaxInterRPS in the case) and slices do not combine an inter-predicted active RPS with
	// ref_pic_lists_modification (where the wrong NumPicTotalCurr = 0 misparses the header).
	"hevc-strps-interpred-not-derived": true,
	// hevc.ParseSliceHeader: short_term_ref_pic_set_sps_flag = 1 with num_short_term_ref_pic_sets = 1:
	// short_term_ref_pic_set_idx is not present and inferred 0 (7.4.7.1), i.e. the slice uses RPS 0 of the SPS.
	// The library leaves ShortTermRefPicSet empty (so NumPicTotalCurr misses the short-term pictures).
	"hevc-slice-strps-idx-inferred": false, // repaired in /repo (fix: commit), see known_findings.json
	// hevc.ParseSliceHeader: num_long_term_ref_pics_sps = 1 and num_long_term_sps = 1: lt_idx_sps[i] is not
	// present and inferred 0; the library leaves the entry empty (PocLsbLt 0, UsedByCurrPicLtFlag false) and
	// does not count it in NumPicTotalCurr.
	"hevc-slice-lt-idx-inferred": false, // repaired in /repo (fix: commit), see known_findings.json
	// hevc.ParseSliceHeader: slice_deblocking_filter_disabled_flag, when not present, is inferred equal to
	// pps_deblocking_filter_disabled_flag (7.4.7.1); the library uses false, so with
	// pps_deblocking_filter_disabled_flag = 1, no override, SAO flags 0 and
	// pps_loop_filter_across_slices_enabled_flag = 1 it reads slice_loop_filter_across_slices_enabled_flag,
	// which is not in the bitstream (everything after is shifted by one bit).
	"hevc-slice-deblocking-disabled-inferred": false, // repaired in /repo (fix: commit), see known_findings.json
	// hevc.parsePredWeightTable ("Not implemented" in the source): with pps_curr_pic_ref_enabled_flag = 1 an
	// entry of RefPicListX that is the current picture has no luma_weight_lX_flag / chroma_weight_lX_flag
	// (7.3.6.3); the library reads one flag per entry regardless.
	"hevc-slice-pwt-currpic-entry": true,
}

func HEVCAvoid(name string) bool {
	v, ok := HEVCAvoidKnown[name]
	if !ok {
		panic("unknown hevc avoid switch " + name)
	}
	return v
}

// HEVCPct: true with probability pct/100. rapid's integer generators are deliberately biased towards small
// values (IntRange(0,99) < 4 holds in ~30 % of the draws), so the decision is made from fair coin flips
// (rapid.Bool draws one bit): compare a uniform binary fraction with pct/100 bit by bit (2 flips on average).
func HEVCPct(t *rapid.T, pct int, label string) bool {
	p := uint32(pct) * 65536 / 100 // 16-bit binary fraction
	for i := 15; i >= 0; i-- {
		pb := p>>uint(i)&1 == 1
		if rapid.Bool().Draw(t, label) != pb {
			return pb
		}
	}
	return false
}

// HEVCInt draws from [lo,hi], boundary heavy: the ends, their neighbours and powers of two +-1 get extra weight.
func HEVCInt(t *rapid.T, lo, hi int64, label string) int64 {
	if hi <= lo {
		return lo
	}
	if hi-lo < 8 {
		return rapid.Int64Range(lo, hi).Draw(t, label)
	}
	switch rapid.IntRange(0, 9).Draw(t, label+"?") {
	case 0:
		return lo
	case 1:
		return hi
	case 2:
		return lo + 1
	case 3:
		return hi - 1
	case 4:
		// a power of two (or neighbour) inside the range
		span := uint64(hi - lo)
		k := rapid.IntRange(0, 63).Draw(t, label+"k")
		for uint64(1)<<uint(k) > span {
			k--
		}
		v := lo + int64(uint64(1)<<uint(k)) + int64(rapid.IntRange(-1, 1).Draw(t, label+"d"))
		if v < lo {
			v = lo
		}
		if v > hi {
			v = hi
		}
		return v
	case 5, 6:
		// small values
		h := lo + 16
		if h > hi {
			h = hi
		}
		return rapid.Int64Range(lo, h).Draw(t, label)
	default:
		return rapid.Int64Range(lo, hi).Draw(t, label)
	}
}

// HEVCUni draws from 0..n-1 (n <= 256) nearly uniformly from fair coin flips (see HEVCPct).
func HEVCUni(t *rapid.T, n int, label string) int {
	v := 0
	for k := 1; k < 4*n; k <<= 1 {
		v <<= 1
		if rapid.Bool().Draw(t, label) {
			v |= 1
		}
	}
	return v % n
}

func HEVCU(t *rapid.T, lo, hi uint64, label string) uint64 {
	if hi > 1<<62 {
		hi = 1 << 62
	}
	return uint64(HEVCInt(t, int64(lo), int64(hi), label))
}

// HEVCBits draws an n-bit pattern: all zero, all one, single bit or random.
func HEVCBits(t *rapid.T, n int, label string) uint64 {
	mask := uint64(1)<<uint(n) - 1
	if n >= 64 {
		mask = ^uint64(0)
	}
	switch rapid.IntRange(0, 5).Draw(t, label+"?") {
	case 0:
		return 0
	case 1:
		return mask
	case 2:
		return uint64(1) << uint(rapid.IntRange(0, n-1).Draw(t, label+"b"))
	default:
		return rapid.Uint64().Draw(t, label) & mask
	}
}

// HEVCBytes draws exactly n bytes in one draw.
func HEVCBytes(t *rapid.T, n int, label string) []byte {
	if n == 0 {
		return nil
	}
	return rapid.SliceOfN(rapid.Byte(), n, n).Draw(t, label)
}

func HEVCBucket(n int) string {
	switch {
	case n == 0:
		return "0"
	case n == 1:
		return "1"
	case n <= 4:
		return "2-4"
	case n <= 16:
		return "5-16"
	default:
		return "17+"
	}
}

var HEVCLevels = []byte{30, 60, 63, 90, 93, 120, 123, 150, 153, 156, 180, 183, 186, 0, 255}

func HEVCGenProfile(t *rapid.T, l string) (space byte, tier bool, idc byte, compat uint32, f [4]bool, low44 uint64) {
	if HEVCPct(t, 20, l+"sp?") {
		space = byte(rapid.IntRange(0, 3).Draw(t, l+"sp"))
	}
	tier = rapid.Bool().Draw(t, l+"tier")
	if HEVCPct(t, 60, l+"idc?") {
		idc = byte(rapid.IntRange(1, 11).Draw(t, l+"idc"))
	} else {
		idc = byte(rapid.IntRange(0, 31).Draw(t, l+"idc"))
	}
	switch rapid.IntRange(0, 4).Draw(t, l+"compat?") {
	case 0:
		compat = 0x60000000
	case 1:
		compat = uint32(1) << (31 - uint(idc))
	default:
		compat = uint32(HEVCBits(t, 32, l+"compat"))
	}
	for i := range f {
		f[i] = rapid.Bool().Draw(t, l+"srcflag")
	}
	if HEVCPct(t, 50, l+"c44?") {
		low44 = HEVCBits(t, 44, l+"c44")
		if HEVCPct(t, 30, l+"c44hi") {
			low44 &^= (1<<36 - 1) // only bits of the first two constraint bytes: trailing zero bytes in the codec string
		}
	}
	return
}

func HEVCGenPTL(t *rapid.T, maxSub int, l string) hevc.ProfileTierLevel {
	var p hevc.ProfileTierLevel
	var f [4]bool
	var low uint64
	p.GeneralProfileSpace, p.GeneralTierFlag, p.GeneralProfileIDC, p.GeneralProfileCompatibilityFlags, f, low = HEVCGenProfile(t, l+"g")
	p.GeneralProgressiveSourceFlag, p.GeneralInterlacedSourceFlag, p.GeneralNonPackedConstraintFlag, p.GeneralFrameOnlyConstraintFlag = f[0], f[1], f[2], f[3]
	p.GeneralConstraintIndicatorFlags = HEVCCif(f, low)
	p.GeneralLevelIDC = rapid.SampledFrom(HEVCLevels).Draw(t, l+"lvl")
	if HEVCPct(t, 20, l+"lvlr") {
		p.GeneralLevelIDC = rapid.Byte().Draw(t, l+"lvlb")
	}
	if maxSub > 0 {
		p.SubLayers = make([]hevc.SubLayer, maxSub)
		for i := range p.SubLayers {
			s := &p.SubLayers[i]
			s.ProfilePresentFlag = rapid.Bool().Draw(t, l+"slp")
			s.LevelPresentFlag = rapid.Bool().Draw(t, l+"sll")
			if s.ProfilePresentFlag {
				s.ProfileSpace, s.TierFlag, s.ProfileIDC, s.ProfileCompatibilityFlags, f, low = HEVCGenProfile(t, l+"s")
				s.ProgressiveSourceFlag, s.InterlacedSourceFlag, s.NonPackedConstraintFlag, s.FrameOnlyConstraintFlag = f[0], f[1], f[2], f[3]
				s.ConstraintFlags = HEVCCif(f, low)
			}
			if s.LevelPresentFlag {
				s.LayerIDC = rapid.Byte().Draw(t, l+"sllvl")
			}
		}
	}
	return p
}

// HEVCCif assembles the 48 bits general_progressive_source_flag .. general_inbld_flag.
func HEVCCif(f [4]bool, low44 uint64) uint64 {
	v := low44 & (1<<44 - 1)
	for i, b := range f {
		if b {
			v |= 1 << uint(47-i)
		}
	}
	return v
}

func HEVCGenScalingList(t *rapid.T, l string) *nalgen.HEVCScalingListData {
	d := &nalgen.HEVCScalingListData{}
	heavy := HEVCPct(t, 25, l+"heavy")
	for sizeID := 0; sizeID < 4; sizeID++ {
		step := 1
		if sizeID == 3 {
			step = 3
		}
		for m := 0; m < 6; m += step {
			p := 12
			if heavy {
				p = 70
			}
			d.PredModeFlag[sizeID][m] = HEVCPct(t, p, l+"pm")
			if !d.PredModeFlag[sizeID][m] {
				// scaling_list_pred_matrix_id_delta: 0..matrixId (sizeId 3: 0..matrixId/3)
				mx := m
				if sizeID == 3 {
					mx = m / 3
				}
				d.PredMatrixIDDelta[sizeID][m] = uint32(rapid.IntRange(0, mx).Draw(t, l+"pd"))
				continue
			}
			if sizeID > 1 {
				d.DcCoefMinus8[sizeID][m] = int32(HEVCInt(t, -7, 247, l+"dc"))
			}
			n := nalgen.HEVCScalingCoefNum(sizeID)
			bs := HEVCBytes(t, n, l+"coef")
			cs := make([]int32, n)
			small := HEVCPct(t, 50, l+"small")
			for i, b := range bs {
				v := int32(int8(b)) // scaling_list_delta_coef: -128..127
				if small {
					v = v % 4
				}
				cs[i] = v
			}
			d.DeltaCoef[sizeID][m] = cs
		}
	}
	return d
}

func HEVCDrawDeltaMinus1(t *rapid.T, l string) uint32 {
	if HEVCPct(t, 85, l+"?") {
		return uint32(rapid.IntRange(0, 3).Draw(t, l))
	}
	return uint32(HEVCInt(t, 0, 32767, l))
}

// HEVCGenRPS draws one st_ref_pic_set( stRpsIdx ). prev are the derived sets 0..num-1 of the SPS (for an SPS
// set only prev[stRpsIdx-1] is used; for a slice header any of them via delta_idx_minus1).
func HEVCGenRPS(t *rapid.T, stRpsIdx, num int, prev []nalgen.HEVCRPSVars, maxDpb int, l string) (nalgen.HEVCStRPS, nalgen.HEVCRPSVars) {
	var c nalgen.HEVCStRPS
	if stRpsIdx > 0 && HEVCPct(t, 40, l+"inter") {
		c.InterRPSPred = true
		refIdx := stRpsIdx - 1
		if stRpsIdx == num { // slice header
			c.DeltaIdxMinus1 = uint32(HEVCInt(t, 0, int64(stRpsIdx-1), l+"didx"))
			refIdx = stRpsIdx - (int(c.DeltaIdxMinus1) + 1)
		}
		ref := &prev[refIdx]
		c.DeltaRpsSign = rapid.Bool().Draw(t, l+"sign")
		c.AbsDeltaRpsMinus1 = HEVCDrawDeltaMinus1(t, l+"abs")
		dr := c.HEVCDeltaRps()
		n := ref.NumDeltaPocs()
		c.UsedByCurrPicFlag = make([]bool, n+1)
		c.UseDeltaFlag = make([]bool, n+1)
		nNeg := ref.NumNegativePics()
		for j := 0; j <= n; j++ {
			var dPoc int64
			switch {
			case j < nNeg:
				dPoc = ref.DeltaPocS0[j] + dr
			case j < n:
				dPoc = ref.DeltaPocS1[j-nNeg] + dr
			default:
				dPoc = dr
			}
			u := rapid.Bool().Draw(t, l+"u")
			ud := u || HEVCPct(t, 70, l+"ud")
			if dPoc == 0 && ud {
				// an entry with dPoc == 0 is dropped by (7-61)/(7-62) but kept by the HM reference decoder; no
				// encoder codes it. Excluded by construction (grey area of the standard, not a library finding).
				exclude("hevc-strps-dpoc-zero-entry")
				u, ud = false, false
			}
			c.UsedByCurrPicFlag[j], c.UseDeltaFlag[j] = u, ud
		}
		v := nalgen.HEVCDeriveRPS(&c, ref)
		for j := n; j >= 0 && v.NumDeltaPocs() > maxDpb; j-- { // num_negative_pics + num_positive_pics <= sps_max_dec_pic_buffering_minus1
			if c.UseDeltaFlag[j] {
				c.UsedByCurrPicFlag[j], c.UseDeltaFlag[j] = false, false
				v = nalgen.HEVCDeriveRPS(&c, ref)
			}
		}
		return c, v
	}
	mx := maxDpb
	if !HEVCPct(t, 15, l+"big") && mx > 3 {
		mx = 3
	}
	nNeg := int(HEVCInt(t, 0, int64(mx), l+"nneg"))
	nPos := int(HEVCInt(t, 0, int64(mx-nNeg), l+"npos"))
	if HEVCPct(t, 5, l+"full") {
		nNeg = rapid.IntRange(0, maxDpb).Draw(t, l+"nnegf")
		nPos = maxDpb - nNeg
	}
	for i := 0; i < nNeg; i++ {
		c.DeltaPocS0Minus1 = append(c.DeltaPocS0Minus1, HEVCDrawDeltaMinus1(t, l+"d0"))
		c.UsedByCurrPicS0 = append(c.UsedByCurrPicS0, rapid.Bool().Draw(t, l+"u0"))
	}
	for i := 0; i < nPos; i++ {
		c.DeltaPocS1Minus1 = append(c.DeltaPocS1Minus1, HEVCDrawDeltaMinus1(t, l+"d1"))
		c.UsedByCurrPicS1 = append(c.UsedByCurrPicS1, rapid.Bool().Draw(t, l+"u1"))
	}
	return c, nalgen.HEVCDeriveRPS(&c, nil)
}

func HEVCGenSubLayerHrdParams(t *rapid.T, n int, subPic bool, l string) []hevc.SubLayerHrdParameters {
	ps := make([]hevc.SubLayerHrdParameters, n)
	// bit_rate_value_minus1[i] > [i-1], cpb_size_value_minus1[i] <= [i-1]; 0..2^32-2
	br := HEVCU(t, 0, 1<<32-2-uint64(n), l+"br")
	cpb := HEVCU(t, 0, 1<<32-2, l+"cpb")
	for i := range ps {
		ps[i].BitRateValueMinus1 = uint32(br)
		ps[i].CpbSizeValueMinus1 = uint32(cpb)
		if subPic {
			ps[i].CpbSizeDuValueMinus1 = uint32(HEVCU(t, 0, 1<<32-2, l+"cpbdu"))
			ps[i].BitRateDuValueMinus1 = uint32(HEVCU(t, 0, 1<<32-2, l+"brdu"))
		}
		ps[i].CbrFlag = rapid.Bool().Draw(t, l+"cbr")
		br += 1 + uint64(rapid.IntRange(0, 3).Draw(t, l+"brinc"))
		if br > 1<<32-2 {
			br = 1<<32 - 2
		}
		cpb -= cpb / 3
	}
	return ps
}

func HEVCGenHRD(t *rapid.T, maxSub int, l string) *hevc.HrdParameters {
	h := &hevc.HrdParameters{}
	h.NalHrdParametersPresentFlag = rapid.Bool().Draw(t, l+"nal")
	h.VclHrdParametersPresentFlag = rapid.Bool().Draw(t, l+"vcl")
	if h.NalHrdParametersPresentFlag || h.VclHrdParametersPresentFlag {
		h.SubPicHrdParamsPresentFlag = rapid.Bool().Draw(t, l+"subpic")
		if h.SubPicHrdParamsPresentFlag {
			h.TickDivisorMinus2 = rapid.Byte().Draw(t, l+"tick")
			h.DuCpbRemovalDelayIncrementLengthMinus1 = uint8(rapid.IntRange(0, 31).Draw(t, l+"du"))
			h.SubPicCpbParamsInPicTimingSeiFlag = rapid.Bool().Draw(t, l+"sei")
			h.DpbOutputDelayDuLengthMinus1 = uint8(rapid.IntRange(0, 31).Draw(t, l+"dpbdu"))
		}
		h.BitRateScale = uint8(rapid.IntRange(0, 15).Draw(t, l+"brs"))
		h.CpbSizeScale = uint8(rapid.IntRange(0, 15).Draw(t, l+"cpbs"))
		if h.SubPicHrdParamsPresentFlag {
			h.CpbSizeDuScale = uint8(rapid.IntRange(0, 15).Draw(t, l+"cpbdus"))
		}
		h.InitialCpbRemovalDelayLengthMinus1 = uint8(rapid.IntRange(0, 31).Draw(t, l+"icpb"))
		h.AuCpbRemovalDelayLengthMinus1 = uint8(rapid.IntRange(0, 31).Draw(t, l+"aucpb"))
		h.DpbOutputDelayLengthMinus1 = uint8(rapid.IntRange(0, 31).Draw(t, l+"dpbo"))
	}
	h.SubLayerHrd = make([]hevc.SubLayerHrd, maxSub+1)
	for i := range h.SubLayerHrd {
		s := &h.SubLayerHrd[i]
		s.FixedPicRateGeneralFlag = rapid.Bool().Draw(t, l+"fixg")
		if !s.FixedPicRateGeneralFlag {
			s.FixedPicRateWithinCvsFlag = rapid.Bool().Draw(t, l+"fixc")
		} else {
			s.FixedPicRateWithinCvsFlag = true // inferred (E.3.2)
		}
		if s.FixedPicRateWithinCvsFlag {
			s.ElementalDurationInTcMinus1 = uint16(HEVCInt(t, 0, 2047, l+"eldur"))
		} else {
			s.LowDelayHrdFlag = rapid.Bool().Draw(t, l+"lowd")
		}
		if !s.LowDelayHrdFlag {
			if HEVCPct(t, 80, l+"cpbcnt?") {
				s.CpbCntMinus1 = uint8(rapid.IntRange(0, 2).Draw(t, l+"cpbcnt"))
			} else {
				s.CpbCntMinus1 = uint8(HEVCInt(t, 0, 31, l+"cpbcnt"))
			}
		}
		n := int(s.CpbCntMinus1) + 1
		if h.NalHrdParametersPresentFlag {
			s.NalHrdParameters = HEVCGenSubLayerHrdParams(t, n, h.SubPicHrdParamsPresentFlag, l+"n")
		}
		if h.VclHrdParametersPresentFlag {
			s.VclHrdParameters = HEVCGenSubLayerHrdParams(t, n, h.SubPicHrdParamsPresentFlag, l+"v")
		}
	}
	return h
}

func HEVCGenVUI(t *rapid.T, tr *nalgen.HEVCSPSTree, l string) {
	v := &hevc.VUIParameters{}
	x := &tr.VUIExtra
	x.AspectRatioInfoPresentFlag = rapid.Bool().Draw(t, l+"ar")
	if x.AspectRatioInfoPresentFlag {
		idc := HEVCUni(t, 18, l+"idc") // 17 stands for EXTENDED_SAR
		if idc == 0 && HEVCAvoid("hevc-vui-aspect-ratio-idc-0") {
			exclude("hevc-vui-aspect-ratio-idc-0")
			idc = 1
		}
		if idc == 17 {
			x.AspectRatioIDC = 255
			v.SampleAspectRatioWidth = uint(HEVCInt(t, 0, 65535, l+"sarw"))
			v.SampleAspectRatioHeight = uint(HEVCInt(t, 0, 65535, l+"sarh"))
		} else {
			x.AspectRatioIDC = uint8(idc)
			v.SampleAspectRatioWidth, v.SampleAspectRatioHeight = nalgen.HEVCSarTable[idc][0], nalgen.HEVCSarTable[idc][1]
		}
	}
	v.OverscanInfoPresentFlag = rapid.Bool().Draw(t, l+"ovs")
	if v.OverscanInfoPresentFlag {
		v.OverscanAppropriateFlag = rapid.Bool().Draw(t, l+"ovsa")
	}
	v.VideoSignalTypePresentFlag = rapid.Bool().Draw(t, l+"vst")
	if v.VideoSignalTypePresentFlag {
		v.VideoFormat = byte(rapid.IntRange(0, 7).Draw(t, l+"vf"))
		v.VideoFullRangeFlag = rapid.Bool().Draw(t, l+"fr")
		v.ColourDescriptionFlag = rapid.Bool().Draw(t, l+"cd")
		if v.ColourDescriptionFlag {
			v.ColourPrimaries = rapid.Byte().Draw(t, l+"cp")
			v.TransferCharacteristics = rapid.Byte().Draw(t, l+"tc")
			v.MatrixCoefficients = rapid.Byte().Draw(t, l+"mc")
		}
	}
	v.ChromaLocInfoPresentFlag = rapid.Bool().Draw(t, l+"cl")
	if v.ChromaLocInfoPresentFlag {
		v.ChromaSampleLocTypeTopField = uint(rapid.IntRange(0, 5).Draw(t, l+"clt"))
		v.ChromaSampleLocTypeBottomField = uint(rapid.IntRange(0, 5).Draw(t, l+"clb"))
	}
	v.NeutralChromaIndicationFlag = rapid.Bool().Draw(t, l+"nc")
	v.FieldSeqFlag = rapid.Bool().Draw(t, l+"fs")
	v.FrameFieldInfoPresentFlag = rapid.Bool().Draw(t, l+"ffi")
	v.DefaultDisplayWindowFlag = rapid.Bool().Draw(t, l+"ddw")
	if v.DefaultDisplayWindowFlag {
		v.DefDispWinLeftOffset = uint(HEVCInt(t, 0, 8191, l+"ddl"))
		v.DefDispWinRightOffset = uint(HEVCInt(t, 0, 8191, l+"ddr"))
		v.DefDispWinTopOffset = uint(HEVCInt(t, 0, 8191, l+"ddt"))
		v.DefDispWinBottomOffset = uint(HEVCInt(t, 0, 8191, l+"ddb"))
	}
	v.TimingInfoPresentFlag = rapid.Bool().Draw(t, l+"ti")
	if v.TimingInfoPresentFlag {
		v.NumUnitsInTick = uint(HEVCInt(t, 1, 1<<32-1, l+"nut"))
		v.TimeScale = uint(HEVCInt(t, 1, 1<<32-1, l+"ts"))
		v.PocProportionalToTimingFlag = rapid.Bool().Draw(t, l+"ppt")
		if v.PocProportionalToTimingFlag {
			v.NumTicksPocDiffOneMinus1 = uint(HEVCInt(t, 0, 1<<32-2, l+"ntp"))
		}
		v.HrdParametersPresentFlag = rapid.Bool().Draw(t, l+"hrd")
		if v.HrdParametersPresentFlag {
			v.HrdParameters = HEVCGenHRD(t, int(tr.SPS.MaxSubLayersMinus1), l+"h")
		}
	}
	v.BitstreamRestrictionFlag = rapid.Bool().Draw(t, l+"bsr")
	if v.BitstreamRestrictionFlag {
		v.BitstreamResctrictions = &hevc.BitstreamRestrictions{
			TilesFixedStructureFlag:     rapid.Bool().Draw(t, l+"tfs"),
			MVOverPicBoundariesFlag:     rapid.Bool().Draw(t, l+"mvo"),
			RestrictedRefsPicsListsFlag: rapid.Bool().Draw(t, l+"rrl"),
			MinSpatialSegmentationIDC:   uint(HEVCInt(t, 0, 4095, l+"mss")),
			MaxBytesPerPicDenom:         uint(rapid.IntRange(0, 16).Draw(t, l+"mbp")),
			MaxBitsPerMinCuDenom:        uint(rapid.IntRange(0, 16).Draw(t, l+"mbc")),
			Log2MaxMvLengthHorizontal:   uint(rapid.IntRange(0, 15).Draw(t, l+"mvh")),
			Log2MaxMvLengthVertical:     uint(rapid.IntRange(0, 15).Draw(t, l+"mvv")),
		}
	}
	tr.SPS.VUI = v
}

type HEVCSPSOpts struct {
	ID      int  // sps_seq_parameter_set_id, -1: draw
	Lean    bool // for the PPS / slice tests: VUI, scaling lists, sub-layers and many RPSs are rare
	Log2Poc int  // log2_max_pic_order_cnt_lsb_minus4, -1: draw
	SAO     int  // sample_adaptive_offset_enabled_flag, -1: draw
	MaxDim  int  // maximum pic width/height in luma samples (<= 65535)
}

func HEVCSubWH(chromaFormatIDC byte, separate bool) (uint32, uint32) {
	// Table 6-1
	switch {
	case chromaFormatIDC == 1:
		return 2, 2
	case chromaFormatIDC == 2:
		return 2, 1
	default: // monochrome, 4:4:4 (also with separate_colour_plane_flag)
		return 1, 1
	}
}

var HEVCTypicalDims = [][2]int{{64, 64}, {176, 144}, {352, 288}, {416, 240}, {640, 360}, {832, 480}, {1024, 768}, {1280, 720},
	{1920, 1080}, {1920, 1088}, {2560, 1600}, {3840, 2160}, {4096, 2304}, {7680, 4320}, {8192, 4320}}

func HEVCGenSPS(t *rapid.T, o HEVCSPSOpts, l string) *nalgen.HEVCSPSTree {
	tr := &nalgen.HEVCSPSTree{TemporalIDPlus1: 1}
	s := &tr.SPS
	rare := func(full, lean int, lab string) bool {
		if o.Lean {
			return HEVCPct(t, lean, l+lab)
		}
		return HEVCPct(t, full, l+lab)
	}
	s.VpsID = byte(rapid.IntRange(0, 15).Draw(t, l+"vps"))
	if rare(40, 8, "sub?") {
		s.MaxSubLayersMinus1 = byte(rapid.IntRange(1, 6).Draw(t, l+"sub"))
	}
	s.TemporalIDNestingFlag = s.MaxSubLayersMinus1 == 0 || rapid.Bool().Draw(t, l+"nest")
	maxSub := int(s.MaxSubLayersMinus1)
	s.ProfileTierLevel = HEVCGenPTL(t, maxSub, l+"ptl")
	if o.ID >= 0 {
		s.SpsID = byte(o.ID)
	} else {
		s.SpsID = byte(rapid.IntRange(0, 15).Draw(t, l+"id"))
	}
	s.ChromaFormatIDC = byte(HEVCUni(t, 4, l+"chroma"))
	if HEVCPct(t, 40, l+"420") {
		s.ChromaFormatIDC = 1
	}
	if s.ChromaFormatIDC == 3 {
		s.SeparateColourPlaneFlag = rapid.Bool().Draw(t, l+"sep")
	}
	// coding block sizes first: picture dimensions are multiples of MinCbSizeY
	minCbLog2 := 3 + rapid.IntRange(0, 3).Draw(t, l+"mincb")
	ctbLog2 := rapid.IntRange(minCbLog2, 6).Draw(t, l+"ctb")
	if ctbLog2 < 4 && HEVCPct(t, 80, l+"ctb4") {
		ctbLog2 = 4
	}
	s.Log2MinLumaCodingBlockSizeMinus3 = byte(minCbLog2 - 3)
	s.Log2DiffMaxMinLumaCodingBlockSize = byte(ctbLog2 - minCbLog2)
	minCb := 1 << uint(minCbLog2)
	maxDim := o.MaxDim
	if maxDim == 0 {
		maxDim = 65535
	}
	dim := func(lab string, typical int) uint32 {
		if typical > 0 && typical <= maxDim {
			return uint32((typical + minCb - 1) / minCb * minCb)
		}
		return uint32(HEVCInt(t, 1, int64(maxDim/minCb), l+lab)) * uint32(minCb)
	}
	if HEVCPct(t, 35, l+"typ") {
		d := rapid.SampledFrom(HEVCTypicalDims).Draw(t, l+"dims")
		s.PicWidthInLumaSamples, s.PicHeightInLumaSamples = dim("w", d[0]), dim("h", d[1])
	} else {
		s.PicWidthInLumaSamples, s.PicHeightInLumaSamples = dim("w", 0), dim("h", 0)
	}
	s.ConformanceWindowFlag = HEVCPct(t, 50, l+"cw")
	if s.ConformanceWindowFlag {
		sw, sh := HEVCSubWH(s.ChromaFormatIDC, s.SeparateColourPlaneFlag)
		// SubWidthC * ( left + right ) < pic_width_in_luma_samples
		mw := int64((s.PicWidthInLumaSamples - 1) / sw)
		mh := int64((s.PicHeightInLumaSamples - 1) / sh)
		le := HEVCInt(t, 0, mw, l+"cwl")
		ri := HEVCInt(t, 0, mw-le, l+"cwr")
		to := HEVCInt(t, 0, mh, l+"cwt")
		bo := HEVCInt(t, 0, mh-to, l+"cwb")
		s.ConformanceWindow = hevc.ConformanceWindow{LeftOffset: uint32(le), RightOffset: uint32(ri), TopOffset: uint32(to), BottomOffset: uint32(bo)}
	}
	s.BitDepthLumaMinus8 = byte(HEVCInt(t, 0, 8, l+"bdl"))
	s.BitDepthChromaMinus8 = byte(HEVCInt(t, 0, 8, l+"bdc"))
	if HEVCPct(t, 40, l+"bd8") {
		s.BitDepthLumaMinus8, s.BitDepthChromaMinus8 = 0, 0
	}
	if o.Log2Poc >= 0 {
		s.Log2MaxPicOrderCntLsbMinus4 = byte(o.Log2Poc)
	} else {
		s.Log2MaxPicOrderCntLsbMinus4 = byte(HEVCInt(t, 0, 12, l+"poc"))
	}
	pocBits := int(s.Log2MaxPicOrderCntLsbMinus4) + 4
	s.SubLayerOrderingInfoPresentFlag = rapid.Bool().Draw(t, l+"slo")
	{
		n := 1
		if s.SubLayerOrderingInfoPresentFlag {
			n = maxSub + 1
		}
		dpb, reo := 0, 0
		for i := 0; i < n; i++ {
			// sps_max_dec_pic_buffering_minus1: 0..MaxDpbSize-1 (<= 15), non-decreasing; reorder <= dpb, non-decreasing
			dpb = int(HEVCInt(t, int64(dpb), 15, l+"dpb"))
			reo = rapid.IntRange(reo, dpb).Draw(t, l+"reo")
			lat := HEVCInt(t, 0, 1<<32-2, l+"lat") // sps_max_latency_increase_plus1: 0..2^32-2
			if lat > 255 && HEVCAvoid("hevc-sps-max-latency-increase-byte") {
				exclude("hevc-sps-max-latency-increase-byte")
				lat = 200 + lat%56
			}
			s.SubLayeringOrderingInfos = append(s.SubLayeringOrderingInfos, hevc.SubLayerOrderingInfo{
				MaxDecPicBufferingMinus1: byte(dpb), MaxNumReorderPics: byte(reo), MaxLatencyIncreasePlus1: byte(lat)})
			// the full ue(v) value (the struct field is only a byte) is kept beside the struct
			tr.MaxLatencyIncreasePlus1 = append(tr.MaxLatencyIncreasePlus1, uint32(lat))
		}
	}
	maxDpb := int(s.SubLayeringOrderingInfos[len(s.SubLayeringOrderingInfos)-1].MaxDecPicBufferingMinus1)
	// transform block sizes: MinTbLog2SizeY < MinCbLog2SizeY, MaxTbLog2SizeY <= Min( CtbLog2SizeY, 5 )
	minTbLog2 := rapid.IntRange(2, HEVCMin(minCbLog2-1, 5)).Draw(t, l+"mintb")
	maxTbLog2 := rapid.IntRange(minTbLog2, HEVCMin(ctbLog2, 5)).Draw(t, l+"maxtb")
	s.Log2MinLumaTransformBlockSizeMinus2 = byte(minTbLog2 - 2)
	s.Log2DiffMaxMinLumaTransformBlockSize = byte(maxTbLog2 - minTbLog2)
	s.MaxTransformHierarchyDepthInter = byte(rapid.IntRange(0, ctbLog2-minTbLog2).Draw(t, l+"thi"))
	s.MaxTransformHierarchyDepthIntra = byte(rapid.IntRange(0, ctbLog2-minTbLog2).Draw(t, l+"tha"))
	s.ScalingListEnabledFlag = rare(30, 6, "sl")
	if s.ScalingListEnabledFlag {
		s.ScalingListDataPresentFlag = rapid.Bool().Draw(t, l+"sld")
		if s.ScalingListDataPresentFlag {
			tr.ScalingList = HEVCGenScalingList(t, l+"sl")
		}
	}
	s.AmpEnabledFlag = rapid.Bool().Draw(t, l+"amp")
	if o.SAO >= 0 {
		s.SampleAdaptiveOffsetEnabledFlag = o.SAO == 1
	} else {
		s.SampleAdaptiveOffsetEnabledFlag = rapid.Bool().Draw(t, l+"sao")
	}
	s.PCMEnabledFlag = HEVCPct(t, 30, l+"pcm")
	if s.PCMEnabledFlag {
		// PcmBitDepthY <= BitDepthY, PcmBitDepthC <= BitDepthC (u(4))
		s.PcmSampleBitDepthLumaMinus1 = byte(rapid.IntRange(0, HEVCMin(15, int(s.BitDepthLumaMinus8)+7)).Draw(t, l+"pcml"))
		s.PcmSampleBitDepthChromaMinus1 = byte(rapid.IntRange(0, HEVCMin(15, int(s.BitDepthChromaMinus8)+7)).Draw(t, l+"pcmc"))
		lo := HEVCMin(minCbLog2, 5)
		hi := HEVCMin(ctbLog2, 5)
		mn := rapid.IntRange(lo, hi).Draw(t, l+"pcmmin")
		mxp := rapid.IntRange(mn, hi).Draw(t, l+"pcmmax")
		s.Log2MinPcmLumaCodingBlockSize = uint16(mn - 3)
		s.Log2DiffMaxMinPcmLumaCodingBlockSize = uint16(mxp - mn)
		s.PcmLoopFilterDisabledFlag = rapid.Bool().Draw(t, l+"pcmlf")
	}
	// short-term RPSs
	var num int
	switch k := HEVCUni(t, 20, l+"nrps?"); {
	case k < 3:
		num = 0
	case k < 7:
		num = 1
	case k < 17:
		num = rapid.IntRange(2, 6).Draw(t, l+"nrps")
	case k < 19 || o.Lean:
		num = rapid.IntRange(7, 17).Draw(t, l+"nrps")
	default:
		num = int(HEVCInt(t, 18, 64, l+"nrps"))
	}
	s.NumShortTermRefPicSets = byte(num)
	if num > 0 {
		tr.StRPS = make([]nalgen.HEVCStRPS, num)
		vars := make([]nalgen.HEVCRPSVars, num)
		for i := 0; i < num; i++ {
			tr.StRPS[i], vars[i] = HEVCGenRPS(t, i, num+1, vars[:i], maxDpb, l+"rps")
		}
	}
	s.LongTermRefPicsPresentFlag = HEVCPct(t, 50, l+"lt")
	if s.LongTermRefPicsPresentFlag {
		var n int
		switch k := HEVCUni(t, 10, l+"nlt?"); {
		case k < 2:
			n = 0
		case k < 4:
			n = 1
		case k < 9:
			n = rapid.IntRange(2, 5).Draw(t, l+"nlt")
		default:
			n = int(HEVCInt(t, 6, 32, l+"nlt"))
		}
		s.NumLongTermRefPics = uint8(n)
		for i := 0; i < n; i++ {
			s.LongTermRefPicSets = append(s.LongTermRefPicSets, hevc.LongTermRPS{
				PocLsbLt:            uint16(HEVCBits(t, pocBits, l+"ltpoc")),
				UsedByCurrPicLtFlag: rapid.Bool().Draw(t, l+"ltu"),
			})
		}
	}
	s.SpsTemporalMvpEnabledFlag = rapid.Bool().Draw(t, l+"tmvp")
	s.StrongIntraSmoothingEnabledFlag = rapid.Bool().Draw(t, l+"sis")
	s.VUIParametersPresentFlag = rare(45, 5, "vui")
	if s.VUIParametersPresentFlag {
		HEVCGenVUI(t, tr, l+"v")
	}
	s.ExtensionPresentFlag = HEVCPct(t, 45, l+"ext")
	if s.ExtensionPresentFlag {
		s.RangeExtensionFlag = rapid.Bool().Draw(t, l+"rext")
		s.SccExtensionFlag = rapid.Bool().Draw(t, l+"scc")
		if HEVCPct(t, 6, l+"e4?") {
			s.Extension4bits = uint8(rapid.IntRange(1, 15).Draw(t, l+"e4"))
		}
		s.MultilayerExtensionFlag = HEVCPct(t, 20, l+"mlext")
		s.D3ExtensionFlag = HEVCPct(t, 20, l+"3dext")
	}
	if s.MultilayerExtensionFlag {
		s.MultilayerExtension = &hevc.SPSMultilayerExtension{InterViewMvVertConstraintFlag: rapid.Bool().Draw(t, l+"mlivmv")}
	}
	if s.D3ExtensionFlag {
		s.D3Extension = HEVCGenSPS3dExt(t, int(s.Log2MinLumaCodingBlockSizeMinus3), ctbLog2-3, l+"3d")
	}
	if s.RangeExtensionFlag {
		b := HEVCBits(t, 9, l+"rextbits")
		s.RangeExtension = &hevc.SPSRangeExtension{
			TransformSkipRotationEnabledFlag: b&1 != 0, TransformSkipContextEnabledFlag: b&2 != 0, ImplicitRdpcmEnabledFlag: b&4 != 0,
			ExplicitRdpcmEnabledFlag: b&8 != 0, ExtendedPrecisionProcessingFlag: b&16 != 0, IntraSmoothingDisabledFlag: b&32 != 0,
			HighPrecisionOffsetsEnabledFlag: b&64 != 0, PersistentRiceAdaptationEnabledFlag: b&128 != 0, CabacBypassAlignmentEnabledFlag: b&256 != 0,
		}
	}
	if s.SccExtensionFlag {
		e := &hevc.SPSSccExtension{}
		e.CurrPicRefEnabledFlag = rapid.Bool().Draw(t, l+"cpr")
		e.PaletteModeEnabledFlag = rapid.Bool().Draw(t, l+"pal")
		if e.PaletteModeEnabledFlag {
			e.PaletteMaxSize = uint(HEVCInt(t, 0, 64, l+"palmax"))
			if e.PaletteMaxSize > 0 { // PaletteMaxPredictorSize = palette_max_size + delta <= 128; delta 0 when palette_max_size 0
				e.DeltaPaletteMaxPredictorSize = uint(HEVCInt(t, 0, 128-int64(e.PaletteMaxSize), l+"paldelta"))
			}
			maxPred := int(e.PaletteMaxSize + e.DeltaPaletteMaxPredictorSize)
			if maxPred > 0 {
				e.PalettePredictorInitializersPresentFlag = rapid.Bool().Draw(t, l+"palinit")
			}
			if e.PalettePredictorInitializersPresentFlag {
				n := 1 + rapid.IntRange(0, HEVCMin(maxPred-1, 5)).Draw(t, l+"palinitn")
				if HEVCPct(t, 5, l+"palinitbig") {
					n = maxPred
				}
				e.NumPalettePredictorInitializersMinus1 = uint(n - 1)
				numComps := 3
				if s.ChromaFormatIDC == 0 {
					numComps = 1
				}
				e.PalettePredictorInitializer = make([][]uint, numComps)
				for c := 0; c < numComps; c++ {
					bd := int(s.BitDepthChromaMinus8) + 8
					if c == 0 {
						bd = int(s.BitDepthLumaMinus8) + 8
					}
					bs := HEVCBytes(t, 2*n, l+"palv")
					for i := 0; i < n; i++ {
						e.PalettePredictorInitializer[c] = append(e.PalettePredictorInitializer[c], (uint(bs[2*i])<<8|uint(bs[2*i+1]))&(1<<uint(bd)-1))
					}
				}
			}
		}
		e.MotionVectorResolutionControlIdc = uint8(rapid.IntRange(0, 2).Draw(t, l+"mvres"))
		e.IntraBoundaryFilteringDisabledFlag = rapid.Bool().Draw(t, l+"ibf")
		s.SccExtension = e
	}
	if s.Extension4bits != 0 {
		n := rapid.IntRange(0, 20).Draw(t, l+"e4n")
		b := HEVCBits(t, 20, l+"e4bits")
		for i := 0; i < n; i++ {
			s.ExtensionDataFlag = append(s.ExtensionDataFlag, b>>uint(i)&1 != 0)
		}
	}
	return tr
}

// HEVCGenSPS3dExt draws sps_3d_extension(): 14 flags and the two log2 sub-block sizes (I.7.4.3.2.5: in the range
// MinCbLog2SizeY − 3 .. CtbLog2SizeY − 3; now and then any small ue(v) value).
func HEVCGenSPS3dExt(t *rapid.T, lo, hi int, l string) *hevc.SPS3dExtension {
	b := HEVCBits(t, 14, l+"bits")
	size := func(lab string) uint {
		if HEVCPct(t, 15, l+lab+"?") {
			return uint(HEVCInt(t, 0, 40, l+lab))
		}
		return uint(rapid.IntRange(lo, HEVCMax(lo, hi)).Draw(t, l+lab))
	}
	return &hevc.SPS3dExtension{
		IvDiMcEnabledFlag0: b&1 != 0, IvMvScalEnabledFlag0: b&2 != 0, Og2IvmcSubPbSizeMinus3: size("ivmc"),
		IvResPredEnabledFlag: b&4 != 0, DepthRefEnabledFlag: b&8 != 0, VspMcEnabledFlag: b&16 != 0, DbbpEnabledFlag: b&32 != 0,
		IvDiMcEnabledFlag1: b&64 != 0, IvMvScalEnabledFlag1: b&128 != 0, TexMcEnabledFlag: b&256 != 0, Log2TexmcSubPbSizeMinus3: size("texmc"),
		IntraContourEnabledFlag: b&512 != 0, IntraDcOnlyWedgeEnabledFlag: b&1024 != 0, CqtCuPartPredEnabledFlag: b&2048 != 0,
		InterDcOnlyEnabledFlag: b&4096 != 0, SkipIntraEnabledFlag: b&8192 != 0,
	}
}

func HEVCMin(a, b int) int {
	if a < b {
		return a
	}
	return b
}

func HEVCMax(a, b int) int {
	if a > b {
		return a
	}
	return b
}

// HEVCSPSClasses labels the conditional syntax branches an SPS tree takes.
func HEVCSPSClasses(tr *nalgen.HEVCSPSTree) []string {
	s := &tr.SPS
	var c []string
	add := func(b bool, name string) {
		if b {
			c = append(c, name)
		}
	}
	add(s.MaxSubLayersMinus1 > 0, "hevc-sps-sublayers")
	for _, sl := range s.ProfileTierLevel.SubLayers {
		add(sl.ProfilePresentFlag, "hevc-sps-sublayer-profile")
		add(sl.LevelPresentFlag, "hevc-sps-sublayer-level")
	}
	add(s.ProfileTierLevel.GeneralProfileSpace != 0, "hevc-sps-profile-space-nonzero")
	c = append(c, fmt.Sprintf("hevc-sps-chroma-%d", s.ChromaFormatIDC))
	add(s.SeparateColourPlaneFlag, "hevc-sps-separate-colour-plane")
	add(s.ConformanceWindowFlag, "hevc-sps-conf-window")
	add(s.SubLayerOrderingInfoPresentFlag && s.MaxSubLayersMinus1 > 0, "hevc-sps-sublayer-ordering-all")
	add(s.ScalingListEnabledFlag, "hevc-sps-scaling-list-enabled")
	add(s.ScalingListDataPresentFlag, "hevc-sps-scaling-list-data")
	add(s.PCMEnabledFlag, "hevc-sps-pcm")
	c = append(c, "hevc-sps-num-strps-"+HEVCBucket(int(s.NumShortTermRefPicSets)))
	inter, explicit := false, false
	for _, r := range tr.StRPS {
		if r.InterRPSPred {
			inter = true
		} else if len(r.DeltaPocS0Minus1)+len(r.DeltaPocS1Minus1) > 0 {
			explicit = true
		}
	}
	add(inter, "hevc-sps-strps-interpred")
	add(explicit, "hevc-sps-strps-explicit")
	add(s.LongTermRefPicsPresentFlag, "hevc-sps-longterm")
	add(s.NumLongTermRefPics > 0, "hevc-sps-longterm-entries")
	add(s.VUIParametersPresentFlag, "hevc-sps-vui")
	if v := s.VUI; v != nil {
		add(tr.VUIExtra.AspectRatioInfoPresentFlag && tr.VUIExtra.AspectRatioIDC == 255, "hevc-sps-vui-extended-sar")
		add(tr.VUIExtra.AspectRatioInfoPresentFlag && tr.VUIExtra.AspectRatioIDC != 255, "hevc-sps-vui-sar-idc")
		add(v.ColourDescriptionFlag, "hevc-sps-vui-colour-description")
		add(v.ChromaLocInfoPresentFlag, "hevc-sps-vui-chroma-loc")
		add(v.DefaultDisplayWindowFlag, "hevc-sps-vui-default-display-window")
		add(v.TimingInfoPresentFlag, "hevc-sps-vui-timing")
		add(v.HrdParametersPresentFlag, "hevc-sps-vui-hrd")
		if h := v.HrdParameters; h != nil {
			add(h.NalHrdParametersPresentFlag, "hevc-sps-vui-hrd-nal")
			add(h.VclHrdParametersPresentFlag, "hevc-sps-vui-hrd-vcl")
			add(h.SubPicHrdParamsPresentFlag, "hevc-sps-vui-hrd-subpic")
			for _, sl := range h.SubLayerHrd {
				add(sl.LowDelayHrdFlag, "hevc-sps-vui-hrd-low-delay")
				add(sl.CpbCntMinus1 > 0, "hevc-sps-vui-hrd-multi-cpb")
			}
		}
		add(v.BitstreamRestrictionFlag, "hevc-sps-vui-bitstream-restriction")
	}
	add(s.ExtensionPresentFlag, "hevc-sps-extension")
	add(s.RangeExtensionFlag, "hevc-sps-range-ext")
	add(s.MultilayerExtensionFlag, "hevc-sps-multilayer-ext")
	add(s.D3ExtensionFlag, "hevc-sps-3d-ext")
	add(s.SccExtensionFlag, "hevc-sps-scc-ext")
	if e := s.SccExtension; e != nil {
		add(e.PaletteModeEnabledFlag, "hevc-sps-scc-palette")
		add(e.PalettePredictorInitializersPresentFlag, "hevc-sps-scc-palette-initializers")
	}
	add(s.Extension4bits != 0, "hevc-sps-extension-4bits-data")
	return c
}

// HEVCNontrivial: at least one conditional branch beyond the baseline path (labels listed in baseline are
// the baseline path itself).
func HEVCNontrivial(classes []string, baselinePrefixes ...string) bool {
outer:
	for _, c := range classes {
		for _, b := range baselinePrefixes {
			if len(c) >= len(b) && c[:len(b)] == b {
				continue outer
			}
		}
		return true
	}
	return false
}

func HEVCGenPPS(t *rapid.T, spsT *nalgen.HEVCSPSTree, id int, l string) *nalgen.HEVCPPSTree {
	sps := &spsT.SPS
	tr := &nalgen.HEVCPPSTree{TemporalIDPlus1: 1}
	p := &tr.PPS
	if id >= 0 {
		p.PicParameterSetID = uint32(id)
	} else {
		p.PicParameterSetID = uint32(HEVCInt(t, 0, 63, l+"id"))
	}
	p.SeqParameterSetID = uint32(sps.SpsID)
	chromaArrayType := nalgen.HEVCChromaArrayType(sps)
	ctbLog2 := int(sps.Log2MinLumaCodingBlockSizeMinus3) + 3 + int(sps.Log2DiffMaxMinLumaCodingBlockSize)
	maxTbLog2 := int(sps.Log2MinLumaTransformBlockSizeMinus2) + 2 + int(sps.Log2DiffMaxMinLumaTransformBlockSize)
	p.DependentSliceSegmentsEnabledFlag = rapid.Bool().Draw(t, l+"dep")
	p.OutputFlagPresentFlag = rapid.Bool().Draw(t, l+"out")
	if HEVCPct(t, 40, l+"xb?") {
		p.NumExtraSliceHeaderBits = uint8(rapid.IntRange(0, 7).Draw(t, l+"xb"))
	}
	p.SignDataHidingEnabledFlag = rapid.Bool().Draw(t, l+"sdh")
	p.CabacInitPresentFlag = rapid.Bool().Draw(t, l+"cabac")
	p.NumRefIdxL0DefaultActiveMinus1 = uint8(HEVCInt(t, 0, 14, l+"l0"))
	p.NumRefIdxL1DefaultActiveMinus1 = uint8(HEVCInt(t, 0, 14, l+"l1"))
	qpBdOffsetY := 6 * int64(sps.BitDepthLumaMinus8)
	p.InitQpMinus26 = int8(HEVCInt(t, -(26 + qpBdOffsetY), 25, l+"qp"))
	p.ConstrainedIntraPredFlag = rapid.Bool().Draw(t, l+"cip")
	p.TransformSkipEnabledFlag = rapid.Bool().Draw(t, l+"tsk")
	p.CuQpDeltaEnabledFlag = rapid.Bool().Draw(t, l+"cuqp")
	if p.CuQpDeltaEnabledFlag {
		p.DiffCuQpDeltaDepth = uint(rapid.IntRange(0, int(sps.Log2DiffMaxMinLumaCodingBlockSize)).Draw(t, l+"cuqpd"))
	}
	p.CbQpOffset = int8(HEVCInt(t, -12, 12, l+"cb"))
	p.CrQpOffset = int8(HEVCInt(t, -12, 12, l+"cr"))
	p.SliceChromaQpOffsetsPresentFlag = rapid.Bool().Draw(t, l+"scq")
	p.WeightedPredFlag = rapid.Bool().Draw(t, l+"wp")
	p.WeightedBipredFlag = rapid.Bool().Draw(t, l+"wbp")
	p.TransquantBypassEnabledFlag = rapid.Bool().Draw(t, l+"tqb")
	wCtbs, hCtbs := nalgen.HEVCPicSizeInCtbs(sps)
	p.TilesEnabledFlag = HEVCPct(t, 40, l+"tiles") && wCtbs*hCtbs > 1
	p.EntropyCodingSyncEnabledFlag = HEVCPct(t, 40, l+"wpp")
	if p.TilesEnabledFlag {
		// num_tile_columns_minus1 0..PicWidthInCtbsY-1 (level limit 20 columns, 22 rows); not both 0
		cols := int(HEVCInt(t, 0, int64(HEVCMin(int(wCtbs)-1, 19)), l+"tc"))
		rows := int(HEVCInt(t, 0, int64(HEVCMin(int(hCtbs)-1, 21)), l+"tr"))
		if cols == 0 && rows == 0 {
			if wCtbs > 1 {
				cols = 1
			} else {
				rows = 1
			}
		}
		p.NumTileColumnsMinus1, p.NumTileRowsMinus1 = uint(cols), uint(rows)
		p.UniformSpacingFlag = rapid.Bool().Draw(t, l+"tu")
		if !p.UniformSpacingFlag {
			split := func(n, total int, lab string) []uint {
				// n explicit sizes (each >= 1) whose sum is < total (the last column/row takes the rest, >= 1)
				var out []uint
				spare := total - (n + 1)
				for i := 0; i < n; i++ {
					x := 0
					if spare > 0 {
						x = int(HEVCInt(t, 0, int64(spare), l+lab))
					}
					spare -= x
					out = append(out, uint(x))
				}
				return out
			}
			p.ColumnWidthMinus1 = split(cols, int(wCtbs), "tcw")
			p.RowHeightMinus1 = split(rows, int(hCtbs), "trh")
		}
		p.LoopFilterAcrossTilesEnabledFlag = rapid.Bool().Draw(t, l+"tlf")
	}
	p.LoopFilterAcrossSlicesEnabledFlag = rapid.Bool().Draw(t, l+"slf")
	p.DeblockingFilterControlPresentFlag = HEVCPct(t, 60, l+"dbc")
	if p.DeblockingFilterControlPresentFlag {
		p.DeblockingFilterOverrideEnabledFlag = rapid.Bool().Draw(t, l+"dbo")
		p.DeblockingFilterDisabledFlag = rapid.Bool().Draw(t, l+"dbd")
		if !p.DeblockingFilterDisabledFlag {
			p.BetaOffsetDiv2 = int8(HEVCInt(t, -6, 6, l+"beta"))
			p.TcOffsetDiv2 = int8(HEVCInt(t, -6, 6, l+"tc"))
		}
	}
	p.ScalingListDataPresentFlag = HEVCPct(t, 8, l+"sl")
	if p.ScalingListDataPresentFlag {
		tr.ScalingList = HEVCGenScalingList(t, l+"sl")
	}
	p.ListsModificationPresentFlag = rapid.Bool().Draw(t, l+"lm")
	p.Log2ParallelMergeLevelMinus2 = uint(rapid.IntRange(0, ctbLog2-2).Draw(t, l+"pml"))
	p.SliceSegmentHeaderExtensionPresentFlag = HEVCPct(t, 35, l+"she")
	p.ExtensionPresentFlag = HEVCPct(t, 45, l+"ext")
	if p.ExtensionPresentFlag {
		p.RangeExtensionFlag = rapid.Bool().Draw(t, l+"rext")
		p.SccExtensionFlag = rapid.Bool().Draw(t, l+"scc")
		if HEVCPct(t, 6, l+"e4?") {
			p.Extension4bits = uint8(rapid.IntRange(1, 15).Draw(t, l+"e4"))
		}
		p.MultilayerExtensionFlag = HEVCPct(t, 20, l+"mlext")
		p.D3ExtensionFlag = HEVCPct(t, 20, l+"3dext")
	}
	if p.MultilayerExtensionFlag {
		p.MultilayerExtension, tr.CmOctants = HEVCGenPPSMultilayerExt(t, l+"ml")
	}
	if p.D3ExtensionFlag {
		p.D3Extension = HEVCGenPPS3dExt(t, l+"3d")
	}
	if p.RangeExtensionFlag {
		e := &hevc.RangeExtension{}
		if p.TransformSkipEnabledFlag {
			e.Log2MaxTransformSkipBlockSizeMinus2 = uint(rapid.IntRange(0, maxTbLog2-2).Draw(t, l+"tsb"))
		}
		e.CrossComponentPredictionEnabledFlag = chromaArrayType == 3 && rapid.Bool().Draw(t, l+"ccp")
		e.ChromaQpOffsetListEnabledFlag = chromaArrayType != 0 && rapid.Bool().Draw(t, l+"cql")
		if e.ChromaQpOffsetListEnabledFlag {
			e.DiffCuChromaQpOffsetDepth = uint(rapid.IntRange(0, int(sps.Log2DiffMaxMinLumaCodingBlockSize)).Draw(t, l+"cqd"))
			e.ChromaQpOffsetListLenMinus1 = uint(rapid.IntRange(0, 5).Draw(t, l+"cqn"))
			for i := 0; i <= int(e.ChromaQpOffsetListLenMinus1); i++ {
				e.CbQpOffsetList = append(e.CbQpOffsetList, int8(HEVCInt(t, -12, 12, l+"cqcb")))
				e.CrQpOffsetList = append(e.CrQpOffsetList, int8(HEVCInt(t, -12, 12, l+"cqcr")))
			}
		}
		e.Log2SaoOffsetScaleLuma = uint(rapid.IntRange(0, HEVCMax(0, int(sps.BitDepthLumaMinus8)-2)).Draw(t, l+"sol"))
		e.Log2SaoOffsetScaleChroma = uint(rapid.IntRange(0, HEVCMax(0, int(sps.BitDepthChromaMinus8)-2)).Draw(t, l+"soc"))
		p.RangeExtension = e
	}
	if p.SccExtensionFlag {
		e := &hevc.SccExtension{}
		// pps_curr_pic_ref_enabled_flag requires sps_curr_pic_ref_enabled_flag
		e.CurrPicRefEnabledFlag = sps.SccExtension != nil && sps.SccExtension.CurrPicRefEnabledFlag && rapid.Bool().Draw(t, l+"cpr")
		e.ResidualAdaptiveColourTransformEnabledFlag = chromaArrayType == 3 && rapid.Bool().Draw(t, l+"act")
		if e.ResidualAdaptiveColourTransformEnabledFlag {
			e.SliceActQpOffsetsPresentFlag = rapid.Bool().Draw(t, l+"actq")
			e.ActYQpOffsetPlus5 = int(HEVCInt(t, -7, 17, l+"acty"))
			e.ActCbQpOffsetPlus5 = int(HEVCInt(t, -7, 17, l+"actcb"))
			e.ActCrQpOffsetPlus3 = int(HEVCInt(t, -9, 15, l+"actcr"))
		}
		e.PalettePredictorInitializersPresentFlag = rapid.Bool().Draw(t, l+"pal")
		if e.PalettePredictorInitializersPresentFlag {
			maxPred := 128
			if se := sps.SccExtension; se != nil && se.PaletteModeEnabledFlag {
				maxPred = int(se.PaletteMaxSize + se.DeltaPaletteMaxPredictorSize)
			}
			n := rapid.IntRange(0, HEVCMin(maxPred, 5)).Draw(t, l+"paln")
			if HEVCPct(t, 5, l+"palbig") {
				n = maxPred
			}
			e.NumPalettePredictorInitializers = uint(n)
			if n > 0 {
				e.MonochromePaletteFlag = sps.ChromaFormatIDC == 0
				e.LumaBitDepthEntryMinus8 = uint(sps.BitDepthLumaMinus8)
				numComps := 1
				if !e.MonochromePaletteFlag {
					e.ChromaBitDepthEntryMinus8 = uint(sps.BitDepthChromaMinus8)
					numComps = 3
				}
				e.PalettePredictorInitializer = make([][]uint, numComps)
				for c := 0; c < numComps; c++ {
					bd := int(e.ChromaBitDepthEntryMinus8) + 8
					if c == 0 {
						bd = int(e.LumaBitDepthEntryMinus8) + 8
					}
					bs := HEVCBytes(t, 2*n, l+"palv")
					for i := 0; i < n; i++ {
						e.PalettePredictorInitializer[c] = append(e.PalettePredictorInitializer[c], (uint(bs[2*i])<<8|uint(bs[2*i+1]))&(1<<uint(bd)-1))
					}
				}
			}
		}
		p.SccExtension = e
	}
	if p.Extension4bits != 0 {
		n := rapid.IntRange(0, 20).Draw(t, l+"e4n")
		b := HEVCBits(t, 20, l+"e4bits")
		for i := 0; i < n; i++ {
			p.ExtensionDataFlag = append(p.ExtensionDataFlag, b>>uint(i)&1 != 0)
		}
	}
	return tr
}

// ---------------------------------------------------------------------------------------------
// pps_multilayer_extension (F.7.3.2.3.4), colour_mapping_table / colour_mapping_octants (F.7.3.2.3.5/6)

// HEVCGenPPSMultilayerExt draws pps_multilayer_extension() and, when colour mapping is enabled, the coding tree of
// colour_mapping_octants(). ColourMappingTable.Octants is filled with the flattened tree (nalgen.HEVCCmOctantMap).
func HEVCGenPPSMultilayerExt(t *rapid.T, l string) (*hevc.MultilayerExtension, *nalgen.HEVCCmOctant) {
	e := &hevc.MultilayerExtension{}
	e.PocResetInfoPresentFlag = rapid.Bool().Draw(t, l+"poc")
	e.InferScalingListFlag = rapid.Bool().Draw(t, l+"isl")
	if e.InferScalingListFlag {
		e.ScalingListRefLayerId = uint8(HEVCInt(t, 0, 62, l+"islid")) // nuh_layer_id of the reference layer: 0..62
	}
	// num_ref_loc_offsets: 0..vps_max_layers_minus1 (<= 62)
	var n int
	switch k := HEVCUni(t, 10, l+"nrlo?"); {
	case k < 3:
		n = 0
	case k < 5:
		n = 1
	case k < 9:
		n = rapid.IntRange(2, 4).Draw(t, l+"nrlo")
	default:
		n = int(HEVCInt(t, 5, 62, l+"nrlo"))
	}
	e.NumRefLocOffsets = uint(n)
	e.RefLocOffsets = map[uint8]hevc.RefLocOffset{}
	off := func(lab string) int16 { return int16(HEVCInt(t, -16384, 16383, l+lab)) } // −2^14 .. 2^14 − 1
	for _, id := range HEVCDistinct(t, n, 62, l+"rloid") {
		e.RefLocOffsetLayerIds = append(e.RefLocOffsetLayerIds, uint8(id))
		var o hevc.RefLocOffset
		o.ScaledRefLayerOffsetPresentFlag = rapid.Bool().Draw(t, l+"srl")
		if o.ScaledRefLayerOffsetPresentFlag {
			o.ScaledRefLayerLeftOffset, o.ScaledRefLayerTopOffset = off("srll"), off("srlt")
			o.ScaledRefLayerRightOffset, o.ScaledRefLayerBottomOffset = off("srlr"), off("srlb")
		}
		o.RefRegionOffsetPresentFlag = rapid.Bool().Draw(t, l+"rr")
		if o.RefRegionOffsetPresentFlag {
			o.RefRegionLeftOffset, o.RefRegionTopOffset = off("rrl"), off("rrt")
			o.RefRegionRightOffset, o.RefRegionBottomOffset = off("rrr"), off("rrb")
		}
		o.ResamplePhaseSetPresentFlag = rapid.Bool().Draw(t, l+"rps")
		if o.ResamplePhaseSetPresentFlag {
			o.PhaseHorLuma = uint8(HEVCInt(t, 0, 31, l+"phl"))
			o.PhaseVerLuma = uint8(HEVCInt(t, 0, 31, l+"pvl"))
			o.PhaseHorChromaPlus8 = uint8(HEVCInt(t, 0, 63, l+"phc"))
			o.PhaseVerChromaPlus8 = uint8(HEVCInt(t, 0, 63, l+"pvc"))
		}
		e.RefLocOffsets[uint8(id)] = o
	}
	e.ColourMappingEnabledFlag = HEVCPct(t, 55, l+"cm")
	if !e.ColourMappingEnabledFlag {
		return e, nil
	}
	cm := &hevc.ColourMappingTable{}
	// num_cm_ref_layers_minus1: 0..61
	if HEVCPct(t, 80, l+"cmnrl?") {
		cm.NumCmRefLayersMinus1 = uint8(rapid.IntRange(0, 2).Draw(t, l+"cmnrl"))
	} else {
		cm.NumCmRefLayersMinus1 = uint8(HEVCInt(t, 0, 61, l+"cmnrl"))
	}
	for i := 0; i <= int(cm.NumCmRefLayersMinus1); i++ {
		cm.RefLayerId = append(cm.RefLayerId, uint8(HEVCInt(t, 0, 62, l+"cmrl")))
	}
	// cm_octant_depth: u(2), 0..1 in conforming bitstreams; 2 and 3 rarely (the syntax is defined for them)
	cm.OctantDepth = uint8(rapid.IntRange(0, 1).Draw(t, l+"cmdepth"))
	if HEVCPct(t, 6, l+"cmdeep") {
		cm.OctantDepth = uint8(rapid.IntRange(2, 3).Draw(t, l+"cmdepth23"))
	}
	cm.YPartNumLog2 = uint8(rapid.IntRange(0, 3).Draw(t, l+"cmypart"))
	if cm.OctantDepth >= 2 && cm.YPartNumLog2 > 1 { // keeps the number of leaves bounded
		cm.YPartNumLog2 &= 1
	}
	bd := func(lab string) uint { return uint(HEVCInt(t, 0, 8, l+lab)) }
	cm.LumaBitDepthCmInputMinus8, cm.ChromaBitDepthCmInputMinus8 = bd("cmbdli"), bd("cmbdci")
	cm.LumaBitDepthCmOutputMinus8, cm.ChromaBitDepthCmOutputMinus8 = bd("cmbdlo"), bd("cmbdco")
	cm.ResQuantBits = uint8(rapid.IntRange(0, 3).Draw(t, l+"cmrq"))
	cm.DeltaFlcBitsMinus1 = uint8(rapid.IntRange(0, 3).Draw(t, l+"cmflc"))
	if cm.OctantDepth == 1 {
		// CMThreshU = ( 1 << ( BitDepthCmInputC − 1 ) ) + cm_adapt_threshold_u_delta stays inside the chroma range
		h := int64(1) << (7 + cm.ChromaBitDepthCmInputMinus8)
		cm.AdaptThresholdUDelta = int(HEVCInt(t, -h, h-1, l+"cmthu"))
		cm.AdaptThresholdVDelta = int(HEVCInt(t, -h, h-1, l+"cmthv"))
	}
	resLsBits := nalgen.HEVCCmResLsBits(cm)
	partNumY := 1 << cm.YPartNumLog2
	style := rapid.IntRange(0, 3).Draw(t, l+"cmstyle") // 0: no residual coded, 1: all vertices, 2, 3: mixed
	budget := 700                                      // coded vertices
	var gen func(depth int) nalgen.HEVCCmOctant
	gen = func(depth int) nalgen.HEVCCmOctant {
		var o nalgen.HEVCCmOctant
		if depth < int(cm.OctantDepth) {
			o.Split = depth == 0 && HEVCPct(t, 60, l+"cmsplit") || depth > 0 && HEVCPct(t, 40, l+"cmsplit")
		}
		if o.Split {
			for q := 0; q < 8; q++ {
				o.Sub = append(o.Sub, gen(depth+1))
			}
			return o
		}
		o.Leaves = make([][4]hevc.Octant, partNumY)
		for i := range o.Leaves {
			// per vertex j: 1 control byte, per component c: 1 byte for res_coeff_q, 3 bytes for res_coeff_r
			bs := HEVCBytes(t, 4*13, l+"cmleaf")
			for j := 0; j < 4; j++ {
				ctl := bs[13*j]
				coded := style == 1 || style >= 2 && ctl&1 != 0
				if !coded || budget <= 0 {
					continue
				}
				budget--
				v := &o.Leaves[i][j]
				v.CodedResFlag = true
				for c := 0; c < 3; c++ {
					x := bs[13*j+1+4*c:]
					var q uint
					switch qb := x[0]; {
					case qb < 100:
						q = 0
					case qb < 160:
						q = 1
					case qb < 230:
						q = uint(qb % 8)
					case qb < 250:
						q = uint(1)<<(qb%16) - uint(qb>>4&1)
					default:
						q = 65535
					}
					r := uint(x[1])<<16 | uint(x[2])<<8 | uint(x[3])
					switch {
					case x[1] < 80:
						r = 0
					case x[1] >= 240:
						r = 1<<24 - 1
					}
					r &= uint(1)<<uint(resLsBits) - 1
					v.CodedRes[c].ResCoeffQ, v.CodedRes[c].ResCoeffR = q, r
					if q != 0 || r != 0 {
						v.CodedRes[c].ResCoeffS = ctl>>(1+uint(c))&1 != 0
					}
				}
			}
		}
		return o
	}
	root := gen(0)
	cm.Octants = nalgen.HEVCCmOctantMap(cm, &root)
	e.ColourMappingTable = cm
	return e, &root
}

// ---------------------------------------------------------------------------------------------
// pps_3d_extension (I.7.3.2.3.7), delta_dlt (I.7.3.2.3.8)

// hevc3dListBits bounds the bits of all dlt_value_flag / delta_val_diff_minus_min lists of one PPS (the NAL
// unit has to fit the 16-bit length field of an hvcC array entry).
const hevc3dListBits = 1 << 17

// HEVCGenDeltaDlt draws delta_dlt() for depth values of depthBits bits. budget is the number of list bits left.
func HEVCGenDeltaDlt(t *rapid.T, depthBits int, wide bool, budget *int, l string) *hevc.DeltaDlt {
	d := &hevc.DeltaDlt{}
	maxV := int64(1)<<uint(depthBits) - 1
	// num_val_delta_dlt: 0, 1, 2, 3, small, large up to 2^depthBits − 1
	k := HEVCUni(t, 8, l+"n?")
	if wide && k >= 2 && HEVCPct(t, 60, l+"nbig") {
		k = 7
	}
	var num int64
	switch k {
	case 0, 1, 2, 3:
		num = int64(k)
	case 4:
		num = int64(rapid.IntRange(4, 16).Draw(t, l+"n"))
	case 5:
		num = HEVCInt(t, 4, HEVCMin64(maxV, 300), l+"n")
	case 6:
		num = HEVCInt(t, 0, maxV, l+"n")
	default:
		num = maxV - int64(rapid.IntRange(0, 3).Draw(t, l+"nmax"))
	}
	d.NumValDeltaDlt = uint(num)
	if num == 0 {
		return d
	}
	if num > 1 {
		// max_diff: 0, 1, 2, 3, anything
		switch m := HEVCUni(t, 8, l+"md?"); {
		case m < 4:
			d.MaxDiff = uint(m)
		case m < 6:
			d.MaxDiff = uint(HEVCInt(t, 2, HEVCMin64(maxV, 40), l+"md"))
		default:
			d.MaxDiff = uint(HEVCInt(t, 0, maxV, l+"md"))
		}
	}
	// min_diff_minus1 (0..max_diff − 1) is coded for num_val_delta_dlt > 2 && max_diff > 0, else inferred max_diff − 1
	// (for max_diff = 0 the inferred value −1 is what an unsigned field holds after wrapping: all ones)
	d.MinDiffMinus1 = d.MaxDiff - 1
	if num > 2 && d.MaxDiff > 0 {
		switch m := HEVCUni(t, 6, l+"mn?"); {
		case m < 2 || wide && m < 4: // minDiff = max_diff: delta_val_diff_minus_min has zero width, nothing is coded
		case m < 4:
			d.MinDiffMinus1 = 0
		default:
			d.MinDiffMinus1 = uint(HEVCInt(t, 0, int64(d.MaxDiff)-1, l+"mn"))
		}
	}
	d.DeltaDltVal0 = uint(HEVCInt(t, 0, maxV, l+"v0"))
	_, elemBits, _, numElems := nalgen.HEVCDeltaDltWidths(uint64(d.NumValDeltaDlt), uint64(d.MaxDiff), uint64(d.MinDiffMinus1))
	if numElems == 0 {
		return d
	}
	if need := numElems * uint64(elemBits); need > uint64(*budget) {
		// fewer values, or (with less than two elements' worth of budget) the zero-width form
		fit := uint64(*budget) / uint64(elemBits)
		if fit < 2 {
			d.MinDiffMinus1 = d.MaxDiff - 1
			return d
		}
		numElems = fit
		d.NumValDeltaDlt = uint(fit + 1)
	}
	*budget -= int(numElems) * elemBits
	span := int64(d.MaxDiff - (d.MinDiffMinus1 + 1)) // delta_val_diff_minus_min: 0..max_diff − minDiff
	nd := int(numElems)
	if nd > 24 {
		nd = 24
	}
	seed := make([]uint, nd)
	for i := range seed {
		seed[i] = uint(HEVCInt(t, 0, span, l+"dv"))
	}
	d.DeltaValDiffMinusMin = make([]uint, numElems)
	for i := range d.DeltaValDiffMinusMin {
		d.DeltaValDiffMinusMin[i] = seed[i%nd]
	}
	return d
}

func HEVCMin64(a, b int64) int64 {
	if a < b {
		return a
	}
	return b
}

// HEVCGenPPS3dExt draws pps_3d_extension().
func HEVCGenPPS3dExt(t *rapid.T, l string) *hevc.D3Extension {
	e := &hevc.D3Extension{}
	e.DltsPresentFlag = HEVCPct(t, 85, l+"dlts")
	if !e.DltsPresentFlag {
		return e
	}
	// pps_depth_layers_minus1 u(6): small mostly, sometimes up to 63
	switch k := HEVCUni(t, 10, l+"nl?"); {
	case k < 4:
		e.NumDepthLayersMinus1 = 0
	case k < 8:
		e.NumDepthLayersMinus1 = uint8(rapid.IntRange(1, 3).Draw(t, l+"nl"))
	default:
		e.NumDepthLayersMinus1 = uint8(HEVCInt(t, 0, 63, l+"nl"))
	}
	// pps_bit_depth_for_depth_layers_minus8 u(4): 8-bit depth mostly; "wide" (>= 16 bits) in a fifth of the cases
	wide := false
	switch k := HEVCUni(t, 10, l+"bd?"); {
	case k < 4:
		e.BitDepthForDepthLayersMinus8 = 0
	case k < 6:
		e.BitDepthForDepthLayersMinus8 = uint8(rapid.IntRange(1, 4).Draw(t, l+"bd"))
	case k < 8:
		e.BitDepthForDepthLayersMinus8 = uint8(HEVCInt(t, 0, 15, l+"bd"))
	default:
		e.BitDepthForDepthLayersMinus8 = uint8(rapid.IntRange(8, 15).Draw(t, l+"bd"))
		wide = true
	}
	depthBits := int(e.BitDepthForDepthLayersMinus8) + 8
	budget := hevc3dListBits
	for i := 0; i <= int(e.NumDepthLayersMinus1); i++ {
		var ly hevc.DepthLayer
		ly.DltFlag = HEVCPct(t, 75, l+"dlt")
		if ly.DltFlag {
			ly.DltPredFlag = HEVCPct(t, 35, l+"pred")
			if !ly.DltPredFlag {
				// dlt_value_flag[ i ][ j ] for j = 0..depthMaxValue: 2^depthBits flags
				ly.DltValFlagsPresentFlag = depthBits <= 17 && 1<<uint(depthBits) <= budget && HEVCPct(t, 45, l+"vf")
			}
			if ly.DltValFlagsPresentFlag {
				n := 1 << uint(depthBits)
				budget -= n
				pat := HEVCBytes(t, 1+rapid.IntRange(0, 32).Draw(t, l+"vfn"), l+"vfpat")
				switch rapid.IntRange(0, 3).Draw(t, l+"vfstyle") {
				case 0:
					pat = []byte{0}
				case 1:
					pat = []byte{0xff}
				}
				ly.DltValueFlag = make([]bool, n)
				for j := range ly.DltValueFlag {
					ly.DltValueFlag[j] = pat[j/8%len(pat)]>>uint(7-j%8)&1 != 0
				}
			} else {
				ly.DeltaDlt = HEVCGenDeltaDlt(t, depthBits, wide, &budget, l+"dd")
			}
		}
		e.DepthLayers = append(e.DepthLayers, ly)
	}
	return e
}

func HEVCPPSClasses(tr *nalgen.HEVCPPSTree) []string {
	p := &tr.PPS
	var c []string
	add := func(b bool, name string) {
		if b {
			c = append(c, name)
		}
	}
	add(p.PicParameterSetID != p.SeqParameterSetID, "hevc-pps-id-differs-from-sps-id")
	add(p.CuQpDeltaEnabledFlag, "hevc-pps-cu-qp-delta")
	add(p.TilesEnabledFlag, "hevc-pps-tiles")
	add(p.TilesEnabledFlag && !p.UniformSpacingFlag, "hevc-pps-tiles-explicit-sizes")
	add(p.EntropyCodingSyncEnabledFlag, "hevc-pps-wpp")
	add(p.DeblockingFilterControlPresentFlag, "hevc-pps-deblocking-control")
	add(p.DeblockingFilterControlPresentFlag && !p.DeblockingFilterDisabledFlag, "hevc-pps-deblocking-offsets")
	add(p.ScalingListDataPresentFlag, "hevc-pps-scaling-list-data")
	add(p.NumExtraSliceHeaderBits > 0, "hevc-pps-extra-slice-header-bits")
	add(p.ExtensionPresentFlag, "hevc-pps-extension")
	add(p.RangeExtensionFlag, "hevc-pps-range-ext")
	if e := p.RangeExtension; e != nil {
		add(p.TransformSkipEnabledFlag, "hevc-pps-range-ext-transform-skip-size")
		add(e.ChromaQpOffsetListEnabledFlag, "hevc-pps-range-ext-chroma-qp-offset-list")
	}
	add(p.MultilayerExtensionFlag, "hevc-pps-multilayer-ext")
	if e := p.MultilayerExtension; e != nil {
		add(e.InferScalingListFlag, "hevc-pps-multilayer-infer-scaling-list")
		add(e.NumRefLocOffsets > 0, "hevc-pps-multilayer-ref-loc-offsets")
		add(e.NumRefLocOffsets > 4, "hevc-pps-multilayer-ref-loc-offsets-5+")
		add(e.ColourMappingEnabledFlag, "hevc-pps-cm-table")
		if cm := e.ColourMappingTable; cm != nil {
			c = append(c, fmt.Sprintf("hevc-pps-cm-depth-%d", cm.OctantDepth))
			add(cm.OctantDepth > 0 && !nalgen.HEVCCmOctantHasSplit(cm, tr.CmOctants), "hevc-pps-cm-nosplit-at-depth")
			add(nalgen.HEVCCmOctantHasSplit(cm, tr.CmOctants), "hevc-pps-cm-split")
			add(cm.YPartNumLog2 > 0, "hevc-pps-cm-y-parts")
			add(nalgen.HEVCCmResLsBits(cm) == 0, "hevc-pps-cm-res-ls-bits-0")
			coded, sign := false, false
			for _, k := range hevcSortedKeys(cm.Octants) {
				for _, v := range cm.Octants[k] {
					coded = coded || v.CodedResFlag
					for _, r := range v.CodedRes {
						sign = sign || r.ResCoeffS
					}
				}
			}
			add(coded, "hevc-pps-cm-coded-res")
			add(sign, "hevc-pps-cm-res-sign")
		}
	}
	add(p.D3ExtensionFlag, "hevc-pps-3d-ext")
	if e := p.D3Extension; e != nil {
		add(e.DltsPresentFlag, "hevc-pps-3d-dlts")
		add(e.NumDepthLayersMinus1 > 3, "hevc-pps-3d-layers-5+")
		add(e.BitDepthForDepthLayersMinus8 >= 8, "hevc-pps-3d-bitdepth-16+")
		// one label per PPS, whatever the number of depth layers that take the branch
		var pred, valFlags, dd, num0, num12, minCoded, zeroWidth, zeroWidthBig, list, list17 bool
		for i := range e.DepthLayers {
			ly := &e.DepthLayers[i]
			pred = pred || ly.DltFlag && ly.DltPredFlag
			valFlags = valFlags || ly.DltValFlagsPresentFlag
			if d := ly.DeltaDlt; d != nil {
				dd = true
				num0 = num0 || d.NumValDeltaDlt == 0
				num12 = num12 || d.NumValDeltaDlt == 1 || d.NumValDeltaDlt == 2
				_, _, coded, numElems := nalgen.HEVCDeltaDltWidths(uint64(d.NumValDeltaDlt), uint64(d.MaxDiff), uint64(d.MinDiffMinus1))
				minCoded = minCoded || coded
				zeroWidth = zeroWidth || coded && numElems == 0
				zeroWidthBig = zeroWidthBig || numElems == 0 && d.NumValDeltaDlt >= 1<<15 // min_diff_minus1 coded or max_diff = 0
				list = list || numElems > 0
				list17 = list17 || numElems > 16
			}
		}
		add(pred, "hevc-pps-3d-dlt-pred")
		add(valFlags, "hevc-pps-3d-dlt-value-flags")
		add(dd, "hevc-pps-3d-deltadlt")
		add(num0, "hevc-pps-3d-deltadlt-num-0")
		add(num12, "hevc-pps-3d-deltadlt-num-1-2")
		add(minCoded, "hevc-pps-3d-deltadlt-min-diff-coded")
		add(zeroWidth, "hevc-pps-3d-deltadlt-zero-width")
		add(zeroWidthBig, "hevc-pps-3d-deltadlt-zero-width-num-32768+")
		add(list, "hevc-pps-3d-deltadlt-list")
		add(list17, "hevc-pps-3d-deltadlt-list-17+")
	}
	add(p.SccExtensionFlag, "hevc-pps-scc-ext")
	if e := p.SccExtension; e != nil {
		add(e.CurrPicRefEnabledFlag, "hevc-pps-scc-curr-pic-ref")
		add(e.ResidualAdaptiveColourTransformEnabledFlag, "hevc-pps-scc-act")
		add(e.PalettePredictorInitializersPresentFlag, "hevc-pps-scc-palette-present")
		add(e.NumPalettePredictorInitializers > 0, "hevc-pps-scc-palette-initializers")
		add(e.NumPalettePredictorInitializers > 0 && e.MonochromePaletteFlag, "hevc-pps-scc-palette-monochrome")
	}
	add(p.Extension4bits != 0, "hevc-pps-extension-4bits-data")
	return c
}

func hevcSortedKeys(m map[string][4]hevc.Octant) []string {
	ks := make([]string, 0, len(m))
	for k := range m {
		ks = append(ks, k)
	}
	sort.Strings(ks)
	return ks
}

func HEVCGenVPS(t *rapid.T, sps *hevc.SPS, l string) *nalgen.HEVCVPSTree {
	v := &nalgen.HEVCVPSTree{
		VpsID:                  sps.VpsID,
		BaseLayerInternalFlag:  true,
		BaseLayerAvailableFlag: true,
		MaxSubLayersMinus1:     sps.MaxSubLayersMinus1,
		TemporalIDNestingFlag:  sps.TemporalIDNestingFlag,
		PTL:                    sps.ProfileTierLevel,
	}
	v.SubLayerOrderingInfoPresent = sps.SubLayerOrderingInfoPresentFlag
	v.OrderingInfos = sps.SubLayeringOrderingInfos
	v.TimingInfoPresentFlag = rapid.Bool().Draw(t, l+"ti")
	if v.TimingInfoPresentFlag {
		v.NumUnitsInTick = uint32(HEVCInt(t, 1, 1<<32-1, l+"nut"))
		v.TimeScale = uint32(HEVCInt(t, 1, 1<<32-1, l+"ts"))
		v.PocProportionalToTimingFlag = rapid.Bool().Draw(t, l+"ppt")
		if v.PocProportionalToTimingFlag {
			v.NumTicksPocDiffOneMinus1 = uint32(HEVCInt(t, 0, 1<<32-2, l+"ntp"))
		}
	}
	return v
}

// HEVCDistinct draws n distinct values from 0..max.
func HEVCDistinct(t *rapid.T, n, max int, l string) []int {
	seen := map[int]bool{}
	var out []int
	for len(out) < n {
		v := int(HEVCInt(t, 0, int64(max), l))
		for seen[v] {
			v = (v + 1) % (max + 1)
		}
		seen[v] = true
		out = append(out, v)
	}
	return out
}

// HEVCGenSPSSet draws n lean SPS trees with distinct ids that differ in the fields a slice header depends on.
func HEVCGenSPSSet(t *rapid.T, n int, maxDim int) []nalgen.HEVCSPSTree {
	ids := HEVCDistinct(t, n, 15, "spsid")
	poc0 := rapid.IntRange(0, 12).Draw(t, "poc0")
	sao0 := rapid.IntRange(0, 1).Draw(t, "sao0")
	var out []nalgen.HEVCSPSTree
	for i := 0; i < n; i++ {
		o := HEVCSPSOpts{ID: ids[i], Lean: true, Log2Poc: (poc0 + 5*i) % 13, SAO: (sao0 + i) % 2, MaxDim: maxDim}
		out = append(out, *HEVCGenSPS(t, o, fmt.Sprintf("s%d", i)))
	}
	return out
}

var HEVCSliceNalTypes = []byte{0, 1, 2, 3, 4, 5, 6, 7, 8, 9, 16, 17, 18, 19, 20, 21}

func HEVCSmallOr(t *rapid.T, small, hi int64, l string) int64 {
	if small > hi {
		small = hi
	}
	if HEVCPct(t, 80, l+"?") {
		return rapid.Int64Range(0, small).Draw(t, l)
	}
	return HEVCInt(t, 0, hi, l)
}

// HEVCCurrPicEntries: which entries of RefPicListX are the current picture (pps_curr_pic_ref_enabled_flag = 1),
// 8.3.4: RefPicListTempX is the cyclic repetition of the NumPicTotalCurr candidates with the current picture
// last; without list modification RefPicListX[i] = RefPicListTempX[i] and, for list 0, when
// NumRpsCurrTempList0 > num_ref_idx_l0_active_minus1 + 1 the last active entry is replaced by the current picture.
func HEVCCurrPicEntries(nptc, numActive int, modFlag bool, entries []uint8, isL0 bool) []bool {
	out := make([]bool, numActive)
	for i := range out {
		if modFlag {
			out[i] = int(entries[i]) == nptc-1
		} else {
			out[i] = i%nptc == nptc-1
		}
	}
	if isL0 && !modFlag && HEVCMax(numActive, nptc) > numActive {
		out[numActive-1] = true
	}
	return out
}

func HEVCGenWeights(t *rapid.T, n int, curr []bool, chroma bool, budget *int, halfY, halfC int64, l string) []hevc.WeightingFactors {
	ws := make([]hevc.WeightingFactors, n)
	for i := range ws {
		if i < len(curr) && curr[i] {
			continue // flags not present, inferred 0
		}
		if *budget >= 1 && rapid.Bool().Draw(t, l+"lf") {
			ws[i].LumaWeightFlag = true
			*budget--
		}
	}
	if chroma {
		for i := range ws {
			if i < len(curr) && curr[i] {
				continue
			}
			if *budget >= 2 && rapid.Bool().Draw(t, l+"cf") {
				ws[i].ChromaWeightFlag = true
				*budget -= 2
			}
		}
	}
	for i := range ws {
		if ws[i].LumaWeightFlag {
			ws[i].DeltaLumaWeight = int8(HEVCInt(t, -128, 127, l+"lw"))
			ws[i].LumaOffset = int(HEVCInt(t, -halfY, halfY-1, l+"lo"))
		}
		if ws[i].ChromaWeightFlag {
			for j := 0; j < 2; j++ {
				ws[i].DeltaChromaWeight[j] = int8(HEVCInt(t, -128, 127, l+"cw"))
				ws[i].DeltaChromaOffset[j] = int(HEVCInt(t, -4*halfC, 4*halfC-1, l+"co"))
			}
		}
	}
	return ws
}

// HEVCSliceOpts steers the slice segment header generator; the zero value is the draw sequence of HEVCGenSlice.
type HEVCSliceOpts struct {
	// PBBias: P and B slices about as often as I slices. Without it two thirds of the independent slice segments
	// end as I: an IRAP NAL unit type (31 %) forces slice_type 2, so does an empty reference picture set
	// (NumPicTotalCurr 0), and 22 % are drawn as I anyway. With it the NAL unit type is a non-IRAP one in 88 %
	// of the draws, a reference picture set coded in the header without a used picture gets one used picture in
	// 90 % (instead of 60 %) of the draws, short_term_ref_pic_set_idx prefers (90 %) a set of the SPS with a used
	// picture, and slice_type is drawn as P/B in 94 % (instead of 78 %); HEVCGenSliceSetOpt prefers (95 %) an
	// active PPS whose SPS has sps_max_dec_pic_buffering_minus1 > 0.
	PBBias bool
}

// HEVCGenSlice draws a slice segment value tree for the active parameter sets.
func HEVCGenSlice(t *rapid.T, spsT *nalgen.HEVCSPSTree, ppsT *nalgen.HEVCPPSTree) nalgen.HEVCSliceTree {
	return HEVCGenSliceOpt(t, spsT, ppsT, HEVCSliceOpts{})
}

// HEVCGenSliceOpt is HEVCGenSlice with options.
func HEVCGenSliceOpt(t *rapid.T, spsT *nalgen.HEVCSPSTree, ppsT *nalgen.HEVCPPSTree, o HEVCSliceOpts) nalgen.HEVCSliceTree {
	sps, pps := &spsT.SPS, &ppsT.PPS
	var tr nalgen.HEVCSliceTree
	sh, x := &tr.SH, &tr.Extra
	pctVcl, pctWantRef, pctPB := 72, 60, 78
	if o.PBBias {
		pctVcl, pctWantRef, pctPB = 88, 90, 94
	}
	if HEVCPct(t, pctVcl, "ntvcl") {
		tr.NalType = HEVCSliceNalTypes[HEVCUni(t, 10, "nt")] // TRAIL_N .. RASL_R
	} else {
		tr.NalType = HEVCSliceNalTypes[10+HEVCUni(t, 6, "nt")] // BLA_W_LP .. CRA_NUT
	}
	if HEVCPct(t, 4, "ntrsv") {
		tr.NalType = byte(rapid.IntRange(22, 23).Draw(t, "ntr")) // RSV_IRAP_VCL22..23: the parser treats them as IRAP
	}
	nt := int(tr.NalType)
	irap := nt >= 16 && nt <= 23
	idr := nt == 19 || nt == 20
	tr.TemporalIDPlus1 = 1
	if !irap {
		tr.TemporalIDPlus1 = byte(rapid.IntRange(1, int(sps.MaxSubLayersMinus1)+1).Draw(t, "tid"))
	}
	sh.PicParameterSetId = pps.PicParameterSetID
	wc, hc := nalgen.HEVCPicSizeInCtbs(sps)
	picSize := wc * hc
	sh.FirstSliceSegmentInPicFlag = picSize < 2 || HEVCPct(t, 55, "first")
	if irap {
		sh.NoOutputOfPriorPicsFlag = rapid.Bool().Draw(t, "noout")
	}
	if !sh.FirstSliceSegmentInPicFlag {
		if pps.DependentSliceSegmentsEnabledFlag {
			sh.DependentSliceSegmentFlag = rapid.Bool().Draw(t, "dep")
		}
		sh.SegmentAddress = uint(HEVCInt(t, 1, int64(picSize-1), "addr"))
	}
	currPicRef := pps.SccExtension != nil && pps.SccExtension.CurrPicRefEnabledFlag
	chromaArrayType := nalgen.HEVCChromaArrayType(sps)
	sliceDeblockingDisabled := pps.DeblockingFilterDisabledFlag
	if !sh.DependentSliceSegmentFlag {
		sh.CollocatedFromL0Flag = true // inferred 1 when not present
		if pps.NumExtraSliceHeaderBits > 0 {
			b := HEVCBits(t, int(pps.NumExtraSliceHeaderBits), "rsv")
			for i := 0; i < int(pps.NumExtraSliceHeaderBits); i++ {
				x.SliceReservedFlag = append(x.SliceReservedFlag, b>>uint(i)&1 != 0)
			}
		}
		var cur nalgen.HEVCRPSVars
		activeInter := false
		usedLt := 0
		if !idr {
			pocBits := int(sps.Log2MaxPicOrderCntLsbMinus4) + 4
			sh.PicOrderCntLsb = uint16(HEVCBits(t, pocBits, "poc"))
			num := int(sps.NumShortTermRefPicSets)
			var vars []nalgen.HEVCRPSVars
			if num > 0 {
				vars = nalgen.HEVCDeriveAllRPS(spsT.StRPS)
			}
			maxDpb := int(sps.SubLayeringOrderingInfos[len(sps.SubLayeringOrderingInfos)-1].MaxDecPicBufferingMinus1)
			spsFlag := num > 0 && HEVCPct(t, 55, "spsrps")
			if spsFlag && num == 1 && HEVCAvoid("hevc-slice-strps-idx-inferred") {
				exclude("hevc-slice-strps-idx-inferred")
				spsFlag = false
			}
			sh.ShortTermRefPicSetSpsFlag = spsFlag
			if spsFlag {
				idx := 0
				if num > 1 {
					idx = int(HEVCInt(t, 0, int64(num-1), "rpsidx"))
				}
				if o.PBBias && vars[idx].NumUsed() == 0 && HEVCPct(t, 90, "rpsidxused") {
					// prefer a candidate set of the SPS that has a picture used by the current picture
					for k := 1; k < num; k++ {
						if j := (idx + k) % num; vars[j].NumUsed() > 0 {
							idx = j
							break
						}
					}
				}
				sh.ShortTermRefPicSetIdx = byte(idx)
				cur = vars[idx]
				activeInter = spsT.StRPS[idx].InterRPSPred
			} else {
				c, v := HEVCGenRPS(t, num, num, vars, maxDpb, "hr")
				if !c.InterRPSPred && v.NumUsed() == 0 && v.NumDeltaPocs() < maxDpb && HEVCPct(t, pctWantRef, "wantref") {
					// make P/B slices possible more often: one more (used) negative picture
					c.DeltaPocS0Minus1 = append(c.DeltaPocS0Minus1, HEVCDrawDeltaMinus1(t, "hrd0"))
					c.UsedByCurrPicS0 = append(c.UsedByCurrPicS0, true)
					v = nalgen.HEVCDeriveRPS(&c, nil)
				}
				x.StRPS = &c
				cur = v
				activeInter = c.InterRPSPred
			}
			if sps.LongTermRefPicsPresentFlag {
				budget := HEVCMax(0, maxDpb-cur.NumDeltaPocs())
				nsps := 0
				if sps.NumLongTermRefPics > 0 {
					nsps = int(HEVCSmallOr(t, 3, int64(HEVCMin(budget, int(sps.NumLongTermRefPics))), "nltsps"))
				}
				if nsps > 0 && sps.NumLongTermRefPics == 1 && HEVCAvoid("hevc-slice-lt-idx-inferred") {
					exclude("hevc-slice-lt-idx-inferred")
					nsps = 0
				}
				npics := int(HEVCSmallOr(t, 3, int64(budget-nsps), "nltpics"))
				sh.NumLongTermSps, sh.NumLongTermPics = uint8(nsps), uint(npics)
				for i := 0; i < nsps+npics; i++ {
					var lt hevc.LongTermRPS
					if i < nsps {
						idx := 0
						if sps.NumLongTermRefPics > 1 {
							idx = int(HEVCInt(t, 0, int64(sps.NumLongTermRefPics)-1, "ltidx"))
						}
						x.LtIdxSps = append(x.LtIdxSps, uint32(idx))
						lt.PocLsbLt = sps.LongTermRefPicSets[idx].PocLsbLt                       // PocLsbLt[ i ] = lt_ref_pic_poc_lsb_sps[ lt_idx_sps[ i ] ]
						lt.UsedByCurrPicLtFlag = sps.LongTermRefPicSets[idx].UsedByCurrPicLtFlag // UsedByCurrPicLt[ i ]
					} else {
						lt.PocLsbLt = uint16(HEVCBits(t, pocBits, "ltpoc"))
						lt.UsedByCurrPicLtFlag = rapid.Bool().Draw(t, "ltused")
					}
					if lt.UsedByCurrPicLtFlag {
						usedLt++
					}
					lt.DeltaPocMsbPresentFlag = rapid.Bool().Draw(t, "ltmsb")
					if lt.DeltaPocMsbPresentFlag {
						lt.DeltaPocMsbCycleLt = uint(HEVCInt(t, 0, int64(1)<<uint(31-pocBits)-1, "ltcyc"))
					}
					sh.LongTermRefPicSets = append(sh.LongTermRefPicSets, lt)
				}
			}
			if sps.SpsTemporalMvpEnabledFlag {
				sh.TemporalMvpEnabledFlag = rapid.Bool().Draw(t, "tmvp")
			}
		}
		nptc := 0 // NumPicTotalCurr (7-55)
		if !idr {
			nptc = cur.NumUsed() + usedLt
		}
		if currPicRef {
			nptc++
		}
		st := 2
		if HEVCPct(t, pctPB, "pb") {
			st = HEVCUni(t, 2, "type")
		}
		if irap && !currPicRef {
			if st != 2 {
				noteClass("hevc-gen-slice-type-forced-I-irap")
			}
			st = 2 // IRAP picture without current-picture referencing: slice_type shall be 2
		}
		if nptc == 0 {
			if st != 2 {
				noteClass("hevc-gen-slice-type-forced-I-no-reference")
			}
			st = 2
		}
		if st != 2 && activeInter && pps.ListsModificationPresentFlag && nptc > 1 && cur.NumUsed() > 0 && HEVCAvoid("hevc-strps-interpred-not-derived") {
			exclude("hevc-strps-interpred-not-derived")
			st = 2
		}
		pwtApplies := func(st int) bool {
			return (pps.WeightedPredFlag && st == 1) || (pps.WeightedBipredFlag && st == 0)
		}
		if currPicRef && pwtApplies(st) && HEVCAvoid("hevc-slice-pwt-currpic-entry") {
			exclude("hevc-slice-pwt-currpic-entry")
			st = 2
		}
		sh.SliceType = hevc.SliceType(st)
		if pps.OutputFlagPresentFlag {
			sh.PicOutputFlag = rapid.Bool().Draw(t, "picout")
		}
		if sps.SeparateColourPlaneFlag {
			sh.ColourPlaneId = uint8(rapid.IntRange(0, 2).Draw(t, "cplane"))
		}
		if sps.SampleAdaptiveOffsetEnabledFlag {
			sh.SaoLumaFlag = rapid.Bool().Draw(t, "saol")
			if chromaArrayType != 0 {
				sh.SaoChromaFlag = rapid.Bool().Draw(t, "saoc")
			}
		}
		isP, isB := st == 1, st == 0
		if isP || isB {
			sh.NumRefIdxActiveOverrideFlag = rapid.Bool().Draw(t, "ovr")
			l0, l1 := int(pps.NumRefIdxL0DefaultActiveMinus1), int(pps.NumRefIdxL1DefaultActiveMinus1)
			if sh.NumRefIdxActiveOverrideFlag {
				l0 = int(HEVCSmallOr(t, 3, 14, "l0"))
				if isB {
					l1 = int(HEVCSmallOr(t, 3, 14, "l1"))
				}
			}
			sh.NumRefIdxL0ActiveMinus1 = uint8(l0)
			if isB {
				sh.NumRefIdxL1ActiveMinus1 = uint8(l1)
			}
			if pps.ListsModificationPresentFlag && nptc > 1 {
				m := &hevc.RefPicListsModification{}
				m.RefPicListModificationFlagL0 = rapid.Bool().Draw(t, "lm0")
				if m.RefPicListModificationFlagL0 {
					for i := 0; i <= l0; i++ {
						m.ListEntryL0 = append(m.ListEntryL0, uint8(rapid.IntRange(0, nptc-1).Draw(t, "le0")))
					}
				}
				if isB {
					m.RefPicListModificationFlagL1 = rapid.Bool().Draw(t, "lm1")
					if m.RefPicListModificationFlagL1 {
						for i := 0; i <= l1; i++ {
							m.ListEntryL1 = append(m.ListEntryL1, uint8(rapid.IntRange(0, nptc-1).Draw(t, "le1")))
						}
					}
				}
				sh.RefPicListsModification = m
			}
			if isB {
				sh.MvdL1ZeroFlag = rapid.Bool().Draw(t, "mvdl1")
			}
			if pps.CabacInitPresentFlag {
				sh.CabacInitFlag = rapid.Bool().Draw(t, "cabac")
			}
			if sh.TemporalMvpEnabledFlag {
				if isB {
					sh.CollocatedFromL0Flag = rapid.Bool().Draw(t, "coll0")
				}
				n := l1
				if sh.CollocatedFromL0Flag {
					n = l0
				}
				if n > 0 {
					sh.CollocatedRefIdx = uint8(rapid.IntRange(0, n).Draw(t, "collidx"))
				}
			}
			if pwtApplies(st) {
				p := &hevc.PredWeightTable{}
				p.LumaLog2WeightDenom = uint8(rapid.IntRange(0, 7).Draw(t, "wld"))
				if chromaArrayType != 0 {
					p.DeltaChromaLog2WeightDenom = int8(rapid.IntRange(-int(p.LumaLog2WeightDenom), 7-int(p.LumaLog2WeightDenom)).Draw(t, "wcd"))
				}
				if currPicRef { // only reachable with the avoid switch off
					var e0, e1 []uint8
					m0, m1 := false, false
					if m := sh.RefPicListsModification; m != nil {
						m0, m1, e0, e1 = m.RefPicListModificationFlagL0, m.RefPicListModificationFlagL1, m.ListEntryL0, m.ListEntryL1
					}
					x.PwtCurrPicL0 = HEVCCurrPicEntries(nptc, l0+1, m0, e0, true)
					if isB {
						x.PwtCurrPicL1 = HEVCCurrPicEntries(nptc, l1+1, m1, e1, false)
					}
				}
				high := sps.RangeExtension != nil && sps.RangeExtension.HighPrecisionOffsetsEnabledFlag
				halfY, halfC := int64(128), int64(128)
				if high {
					halfY = 1 << uint(int(sps.BitDepthLumaMinus8)+7)
					halfC = 1 << uint(int(sps.BitDepthChromaMinus8)+7)
				}
				budget := 24 // sum of luma_weight_lX_flag + 2 * chroma_weight_lX_flag <= 24
				p.WeightsL0 = HEVCGenWeights(t, l0+1, x.PwtCurrPicL0, chromaArrayType != 0, &budget, halfY, halfC, "w0")
				if isB {
					p.WeightsL1 = HEVCGenWeights(t, l1+1, x.PwtCurrPicL1, chromaArrayType != 0, &budget, halfY, halfC, "w1")
				}
				sh.PredWeightTable = p
			}
			sh.FiveMinusMaxNumMergeCand = uint8(rapid.IntRange(0, 4).Draw(t, "merge"))
			if sps.SccExtension != nil && sps.SccExtension.MotionVectorResolutionControlIdc == 2 {
				sh.UseIntegerMvFlag = rapid.Bool().Draw(t, "intmv")
			}
		}
		// SliceQpY = 26 + init_qp_minus26 + slice_qp_delta in -QpBdOffsetY..51
		qpBd := 6 * int64(sps.BitDepthLumaMinus8)
		sh.QpDelta = int(HEVCInt(t, -qpBd-26-int64(pps.InitQpMinus26), 51-26-int64(pps.InitQpMinus26), "qpd"))
		off := func(ppsOff int64, l string) int64 { // slice offset in -12..12 and pps + slice in -12..12
			lo, hi := int64(-12), int64(12)
			if -12-ppsOff > lo {
				lo = -12 - ppsOff
			}
			if 12-ppsOff < hi {
				hi = 12 - ppsOff
			}
			return HEVCInt(t, lo, hi, l)
		}
		if pps.SliceChromaQpOffsetsPresentFlag {
			sh.CbQpOffset = int8(off(int64(pps.CbQpOffset), "cbq"))
			sh.CrQpOffset = int8(off(int64(pps.CrQpOffset), "crq"))
		}
		if e := pps.SccExtension; e != nil && e.SliceActQpOffsetsPresentFlag {
			sh.ActYQpOffset = int8(off(int64(e.ActYQpOffsetPlus5-5), "acty"))
			sh.ActCbQpOffset = int8(off(int64(e.ActCbQpOffsetPlus5-5), "actcb"))
			sh.ActCrQpOffset = int8(off(int64(e.ActCrQpOffsetPlus3-3), "actcr"))
		}
		if e := pps.RangeExtension; e != nil && e.ChromaQpOffsetListEnabledFlag {
			sh.CuChromaQpOffsetEnabledFlag = rapid.Bool().Draw(t, "cuq")
		}
		if pps.DeblockingFilterOverrideEnabledFlag {
			sh.DeblockingFilterOverrideFlag = rapid.Bool().Draw(t, "dbo")
		}
		if sh.DeblockingFilterOverrideFlag {
			sh.DeblockingFilterDisabledFlag = rapid.Bool().Draw(t, "dbd")
			sliceDeblockingDisabled = sh.DeblockingFilterDisabledFlag
			if !sh.DeblockingFilterDisabledFlag {
				sh.BetaOffsetDiv2 = int8(HEVCInt(t, -6, 6, "beta"))
				sh.TcOffsetDiv2 = int8(HEVCInt(t, -6, 6, "tc"))
			}
		}
		if pps.LoopFilterAcrossSlicesEnabledFlag && (sh.SaoLumaFlag || sh.SaoChromaFlag || !sliceDeblockingDisabled) {
			sh.LoopFilterAcrossSlicesEnabledFlag = rapid.Bool().Draw(t, "slf")
		}
	}
	if pps.TilesEnabledFlag || pps.EntropyCodingSyncEnabledFlag {
		cols, rows := int64(1), int64(1)
		if pps.TilesEnabledFlag {
			cols, rows = int64(pps.NumTileColumnsMinus1)+1, int64(pps.NumTileRowsMinus1)+1
		}
		var mx int64
		switch {
		case !pps.TilesEnabledFlag:
			mx = int64(hc) - 1
		case !pps.EntropyCodingSyncEnabledFlag:
			mx = cols*rows - 1
		default:
			mx = cols*int64(hc) - 1
		}
		n := int64(0)
		if mx > 0 && HEVCPct(t, 70, "nep?") {
			if HEVCPct(t, 90, "nepsmall") {
				n = HEVCInt(t, 0, int64(HEVCMin(int(mx), 12)), "nep")
			} else {
				n = HEVCInt(t, 0, int64(HEVCMin(int(mx), 440)), "nep")
			}
		}
		sh.NumEntryPointOffsets = uint(n)
		if n > 0 {
			sh.OffsetLenMinus1 = uint8(HEVCInt(t, 0, 31, "eplen"))
			bs := HEVCBytes(t, 4*int(n), "epv")
			zeroish := HEVCPct(t, 30, "epzero")
			for i := 0; i < int(n); i++ {
				v := uint32(bs[4*i])<<24 | uint32(bs[4*i+1])<<16 | uint32(bs[4*i+2])<<8 | uint32(bs[4*i+3])
				if zeroish {
					v &= 0x00030001
				}
				v &= uint32(uint64(1)<<(uint(sh.OffsetLenMinus1)+1) - 1)
				sh.EntryPointOffsetMinus1 = append(sh.EntryPointOffsetMinus1, v)
			}
		}
	}
	if pps.SliceSegmentHeaderExtensionPresentFlag {
		n := 0
		switch k := HEVCUni(t, 10, "extn?"); {
		case k < 4:
			n = 0
		case k < 9:
			n = rapid.IntRange(1, 8).Draw(t, "extn")
		default:
			n = int(HEVCInt(t, 9, 256, "extn"))
		}
		sh.SegmentHeaderExtensionLength = uint16(n)
		if n > 0 {
			bs := HEVCBytes(t, n, "extv")
			if HEVCPct(t, 50, "extzero") {
				for i := range bs {
					bs[i] &= 3 // zero-heavy: emulation prevention inside the header
				}
			}
			sh.SegmentHeaderExtensionDataByte = bs
		}
	}
	np := rapid.IntRange(0, 6).Draw(t, "npay")
	if np > 0 {
		tr.Payload = HEVCBytes(t, np, "pay")
		if HEVCPct(t, 60, "payzero") {
			for i := range tr.Payload {
				tr.Payload[i] &= 3
			}
		}
	}
	return tr
}

// ---------------------------------------------------------------------------------------------
// parameter-set collections (the draw sequences of C15's TestHEVCPPS / TestHEVCSlice / TestHEVCConf)

// HEVCGenPPSSet draws 1..3 lean SPS with distinct ids and one PPS referring to spss[ref]; the PPS id often is
// the id of ANOTHER SPS (a parser that confuses the two ids picks the wrong SPS).
func HEVCGenPPSSet(rt *rapid.T) (spss []nalgen.HEVCSPSTree, pps *nalgen.HEVCPPSTree, ref int) {
	nSPS := rapid.IntRange(1, 3).Draw(rt, "nsps")
	spss = HEVCGenSPSSet(rt, nSPS, 16888)
	ref = rapid.IntRange(0, nSPS-1).Draw(rt, "ref")
	id := -1
	if nSPS > 1 && HEVCPct(rt, 50, "idtrap") {
		id = int(spss[(ref+1)%nSPS].SPS.SpsID)
	}
	pps = HEVCGenPPS(rt, &spss[ref], id, "p")
	return spss, pps, ref
}

// HEVCGenSliceSet draws the parameter sets (2..3 SPS, 2..4 PPS, ids crossing) and a slice segment header that
// uses ppss[usePPS], which refers to spss[useSPS].
func HEVCGenSliceSet(rt *rapid.T) (spss []nalgen.HEVCSPSTree, ppss []nalgen.HEVCPPSTree, slice nalgen.HEVCSliceTree, useSPS, usePPS int) {
	return HEVCGenSliceSetOpt(rt, HEVCSliceOpts{})
}

// HEVCGenSliceSetOpt is HEVCGenSliceSet with options for the slice segment header (the parameter sets are drawn alike).
func HEVCGenSliceSetOpt(rt *rapid.T, o HEVCSliceOpts) (spss []nalgen.HEVCSPSTree, ppss []nalgen.HEVCPPSTree, slice nalgen.HEVCSliceTree, useSPS, usePPS int) {
	nSPS := rapid.IntRange(2, 3).Draw(rt, "nsps")
	spss = HEVCGenSPSSet(rt, nSPS, 8192)
	nPPS := rapid.IntRange(2, 4).Draw(rt, "npps")
	// pps ids: distinct; the first ones reuse ids of SPSs (of ANOTHER SPS than the one they refer to)
	ids := HEVCDistinct(rt, nPPS, 63, "ppsid")
	refs := make([]int, nPPS)
	for i := 0; i < nPPS; i++ {
		ref := rapid.IntRange(0, nSPS-1).Draw(rt, "ppsref")
		refs[i] = ref
		id := ids[i]
		if i < nSPS && HEVCPct(rt, 60, "idtrap") {
			cand := int(spss[(ref+1)%nSPS].SPS.SpsID)
			clash := false
			for j := range ids {
				if j != i && ids[j] == cand {
					clash = true
				}
			}
			if !clash {
				id = cand
				ids[i] = cand
			}
		}
		pps := HEVCGenPPS(rt, &spss[ref], id, fmt.Sprintf("p%d", i))
		p := &pps.PPS
		if p.LoopFilterAcrossSlicesEnabledFlag && p.DeblockingFilterDisabledFlag && !p.DeblockingFilterOverrideEnabledFlag &&
			!spss[ref].SPS.SampleAdaptiveOffsetEnabledFlag && HEVCAvoid("hevc-slice-deblocking-disabled-inferred") {
			// no slice of this PPS/SPS pair can avoid the defect: change the PPS
			exclude("hevc-slice-deblocking-disabled-inferred")
			p.LoopFilterAcrossSlicesEnabledFlag = false
		}
		ppss = append(ppss, *pps)
	}
	act := rapid.IntRange(0, nPPS-1).Draw(rt, "act")
	if o.PBBias {
		// an SPS with sps_max_dec_pic_buffering_minus1 = 0 allows no reference picture at all (every slice is I):
		// prefer (95 %) a PPS whose SPS has room for one
		dpb := func(i int) byte {
			oi := spss[refs[i]].SPS.SubLayeringOrderingInfos
			return oi[len(oi)-1].MaxDecPicBufferingMinus1
		}
		if dpb(act) == 0 && HEVCPct(rt, 95, "actdpb") {
			for k := 1; k < nPPS; k++ {
				if j := (act + k) % nPPS; dpb(j) > 0 {
					act = j
					break
				}
			}
		}
	}
	spsT, ppsT := &spss[refs[act]], &ppss[act]
	slice = HEVCGenSliceOpt(rt, spsT, ppsT, o)
	if HEVCAvoid("hevc-slice-deblocking-disabled-inferred") {
		sh, p := &slice.SH, &ppsT.PPS
		if !sh.DependentSliceSegmentFlag && p.LoopFilterAcrossSlicesEnabledFlag && p.DeblockingFilterDisabledFlag &&
			!sh.DeblockingFilterOverrideFlag && !sh.SaoLumaFlag && !sh.SaoChromaFlag {
			// slice_deblocking_filter_disabled_flag inferred 1 from the PPS, no SAO: steer the slice away
			exclude("hevc-slice-deblocking-disabled-inferred")
			if spsT.SPS.SampleAdaptiveOffsetEnabledFlag {
				sh.SaoLumaFlag = true
				sh.LoopFilterAcrossSlicesEnabledFlag = rapid.Bool().Draw(rt, "slf2")
			} else { // override is enabled in this PPS (see above)
				sh.DeblockingFilterOverrideFlag = true
				sh.DeblockingFilterDisabledFlag = true
			}
		}
	}
	return spss, ppss, slice, refs[act], act
}

// HEVCGenConfSets draws the inputs of a HEVCDecoderConfigurationRecord: one SPS (full generator), a VPS that
// matches it and 1..2 PPS.
func HEVCGenConfSets(rt *rapid.T) (vps *nalgen.HEVCVPSTree, sps *nalgen.HEVCSPSTree, ppss []nalgen.HEVCPPSTree) {
	sps = HEVCGenSPS(rt, HEVCSPSOpts{ID: -1, Log2Poc: -1, SAO: -1, MaxDim: 16888}, "")
	vps = HEVCGenVPS(rt, &sps.SPS, "v")
	n := rapid.IntRange(1, 2).Draw(rt, "npps")
	ids := HEVCDistinct(rt, n, 63, "ppsid")
	for i := 0; i < n; i++ {
		ppss = append(ppss, *HEVCGenPPS(rt, sps, ids[i], fmt.Sprintf("p%d", i)))
	}
	return vps, sps, ppss
}

// HEVCGenConfSetsMulti draws the inputs of a HEVCDecoderConfigurationRecord with several parameter sets of a kind:
// 1..2 VPS, 1..2 SPS (the first one from the full generator) and 1..3 PPS, each referring to one of the SPSs.
// The second SPS has another sps_seq_parameter_set_id and other general_* profile_tier_level fields
// (general_level_idc always differs); it is either a copy of the first SPS in everything else (one coded picture
// format in the record, as ISO/IEC 14496-15 8.3.3.1.3 demands for chroma format and bit depths) or an independent
// lean SPS. With two VPSs the second one has another vps_video_parameter_set_id and belongs to the second SPS if
// there is one.
func HEVCGenConfSetsMulti(rt *rapid.T) (vpss []nalgen.HEVCVPSTree, spss []nalgen.HEVCSPSTree, ppss []nalgen.HEVCPPSTree) {
	sps := HEVCGenSPS(rt, HEVCSPSOpts{ID: -1, Log2Poc: -1, SAO: -1, MaxDim: 16888}, "")
	vpss = append(vpss, *HEVCGenVPS(rt, &sps.SPS, "v"))
	spss = append(spss, *sps)
	twoSPS := HEVCPct(rt, 50, "sps2?")
	twoVPS := HEVCPct(rt, 40, "vps2?")
	vpsID2 := (sps.SPS.VpsID + 1 + byte(HEVCUni(rt, 15, "vps2id"))) % 16
	if twoSPS {
		var s2 nalgen.HEVCSPSTree
		id2 := (int(sps.SPS.SpsID) + 1 + HEVCUni(rt, 15, "sps2id")) % 16
		if HEVCPct(rt, 50, "sps2copy") {
			s2 = *sps // the slices inside are shared and never written to
			s2.SPS.SpsID = byte(id2)
			ptl := HEVCGenPTL(rt, 0, "s2ptl")
			ptl.SubLayers = sps.SPS.ProfileTierLevel.SubLayers
			s2.SPS.ProfileTierLevel = ptl
		} else {
			s2 = *HEVCGenSPS(rt, HEVCSPSOpts{ID: id2, Lean: true, Log2Poc: -1, SAO: -1, MaxDim: 16888}, "s2")
		}
		if s2.SPS.ProfileTierLevel.GeneralLevelIDC == sps.SPS.ProfileTierLevel.GeneralLevelIDC {
			s2.SPS.ProfileTierLevel.GeneralLevelIDC += 3
		}
		s2.SPS.VpsID = sps.SPS.VpsID
		if twoVPS {
			s2.SPS.VpsID = vpsID2
		}
		spss = append(spss, s2)
	}
	if twoVPS {
		v2 := HEVCGenVPS(rt, &spss[len(spss)-1].SPS, "w")
		v2.VpsID = vpsID2
		vpss = append(vpss, *v2)
	}
	n := rapid.IntRange(1, 3).Draw(rt, "npps")
	ids := HEVCDistinct(rt, n, 63, "ppsid")
	for i := 0; i < n; i++ {
		ref := 0
		if twoSPS {
			ref = HEVCUni(rt, 2, "ppsref")
		}
		ppss = append(ppss, *HEVCGenPPS(rt, &spss[ref], ids[i], fmt.Sprintf("p%d", i)))
	}
	return vpss, spss, ppss
}
