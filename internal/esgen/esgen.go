// Package esgen holds rapid generators for VALID elementary-stream syntax trees (AVC SPS / PPS / slice header,
// HEVC VPS / SPS / PPS / slice segment header, and the parameter-set collections that go into avcC / hvcC
// configuration records), covering every optional syntax branch (VUI, HRD, scaling lists, slice groups,
// extensions, range and SCC extensions, short/long-term RPS, pred weight tables ...). The trees are the types of
// verif/internal/nalgen, whose independent bit-exact writers serialise them.
//
// Users: props/c15 (parser output == tree; the oracles live there) and props/c16 (the serialised trees, with
// hostile values spliced in by nalgen.Hostile, as robustness inputs). All randomness comes from rapid draws; the
// draw sequences are those of the C15 generators before they were moved here.
//
// Known-defect avoidance: AVCAvoidKnown / HEVCAvoidKnown name confirmed defects of the unchanged library that
// matter to C15's value oracles. While a switch is true the generators do not produce the triggering shape and
// count the avoided draw with harness.Rec.Exclude(name). A user for which these value defects are irrelevant
// calls DisableAvoidance() (all shapes are generated) and may set Quiet (nothing is counted).
package esgen

import "verif/internal/harness"

// Quiet suppresses the evidence counters (harness.Rec.Exclude / Class) the generators write.
var Quiet bool

func exclude(name string) {
	if !Quiet {
		harness.Rec.Exclude(name)
	}
}

func noteClass(name string) {
	if !Quiet {
		harness.Rec.Class(name)
	}
}

// DisableAvoidance switches every known-defect avoidance switch off.
func DisableAvoidance() {
	for k := range AVCAvoidKnown {
		AVCAvoidKnown[k] = false
	}
	for k := range HEVCAvoidKnown {
		HEVCAvoidKnown[k] = false
	}
}
