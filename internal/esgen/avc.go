// AVC half: value-tree generators for SPS / PPS / slice headers / configuration record inputs (H.264 7.3.2.1,
// 7.3.2.2, 7.3.3, E.1). The trees are serialised by verif/internal/nalgen.
package esgen

import (
	"fmt"
	"strings"

	"github.com/Eyevinn/mp4ff/avc"
	"pgregory.net/rapid"

	"verif/internal/nalgen"
)

// AVCAvoidKnown: each entry names a defect of the unchanged library that was confirmed by decoding the
// bits by hand (see the reproducer under /verif/replay/C15/kf-<name>.json). While a switch is true the
// generators do not produce the feature that triggers the defect (every avoided draw is counted with
// exclude(name)); the oracles are never weakened. Set a switch to false (after the library
// has been repaired) and the corresponding check finds the defect within a few hundred cases.
var AVCAvoidKnown = map[string]bool{
	// avc/sps.go reads offset_for_non_ref_pic, offset_for_top_to_bottom_field and offset_for_ref_frame[i]
	// (all se(v), 7.3.2.1.1) with ReadExpGolomb into uint fields: the caller gets the ue code number
	// (value k>0 -> 2k-1, k<=0 -> -2k). Only the values 0 and 1 survive. Avoidance: offsets in {0,1}.
	"avc-sps-poc1-offsets-unsigned": true,
	// avc/sps.go parseVUI: aspect_ratio_idc 0 ("Unspecified", a legal value of Table E-1) makes
	// GetSARfromIDC fail and ParseSPSNALUnit return an error for a valid SPS. Avoidance: idc in 1..16, 255.
	"avc-sps-aspect-ratio-idc0": false, // repaired in /repo (fix: commit), see known_findings.json
	// avc/pps.go slice_group_map_type 2: the loop over top_left/bottom_right runs iGroup <= num_slice_groups_minus1,
	// the standard (7.3.2.2) codes iGroup < num_slice_groups_minus1 pairs: one pair too many is read and
	// everything after it is shifted. Avoidance: map type 2 not generated.
	"avc-pps-slicegroup-type2-extra-pair": false, // repaired in /repo (fix: commit), see known_findings.json
	// avc/pps.go slice_group_map_type 6: pic_size_in_map_units_minus1 ue(v) is not read at all and
	// num_slice_groups_minus1+1 slice_group_id values are read instead of pic_size_in_map_units_minus1+1.
	// Avoidance: map type 6 not generated.
	"avc-pps-slicegroup-type6": false, // repaired in /repo (fix: commit), see known_findings.json
	// avc/pps.go: with pic_scaling_matrix_present_flag=1 and transform_8x8_mode_flag=0 the six 4x4 lists
	// (6 + ((chroma_format_idc != 3) ? 2 : 6) * transform_8x8_mode_flag) are not read.
	// Avoidance: the scaling matrix is only generated together with transform_8x8_mode_flag=1.
	"avc-pps-scalinglists-without-8x8": false, // repaired in /repo (fix: commit), see known_findings.json
	// avc/slice.go: `spsID := pps.PicParameterSetID` - the SPS is looked up with the PPS's own id instead of
	// its seq_parameter_set_id. Avoidance: the PPS used by the slice gets pic_parameter_set_id == seq_parameter_set_id.
	"avc-slice-spsid-via-ppsid": false, // repaired in /repo (fix: commit), see known_findings.json
	// avc/slice.go never sets SliceHeader.SeqParamID (always 0). Avoidance: the SPS used by the slice gets id 0.
	"avc-slice-seqparamid-unset": false, // repaired in /repo (fix: commit), see known_findings.json
	// avc/slice.go: the width of slice_group_change_cycle is computed from pps.PicSizeInMapUnitsMinus1 (never
	// parsed for map types 3..5, so 0) with integer division: 1 bit if SliceGroupChangeRate==1, else 0 bits;
	// the standard (7-35) says Ceil(Log2(PicSizeInMapUnits / SliceGroupChangeRate + 1)) with PicSizeInMapUnits of the SPS.
	// Avoidance: slices do not refer to a PPS with map type 3..5 (unless both widths coincide).
	"avc-slice-group-change-cycle-bits": true,
	// avc.CreateAVCDecConfRec hard-codes ChromaFormat=1, BitDepthLumaMinus1(=minus8)=0, BitDepthChromaMinus1=0.
	// Avoidance: the first SPS of a configuration record is 4:2:0 8 bit.
	"avc-conf-chroma-bitdepth-hardcoded": false, // repaired in /repo (fix: commit), see known_findings.json
	// (a finding of C01/C02, seen here through C15's init-segment round trip) avc.DecConfRec.Size counts the four
	// trailing bytes chroma_format.. for every profile except 66/77/88, EncodeSW writes them only for 100/110/122/144:
	// for the other profiles (244, 44, 83, 86, 118, 128, 134, 135, 138, 139) the avcC box says size+4 but is 4 bytes
	// short, and the enclosing init segment cannot be decoded ("moov: expected N bytes, got N-4").
	// Avoidance: for those profiles the box/init-segment encode+decode step of the conf check is not requested.
	"avc-conf-avcc-size-encode-mismatch": false, // repaired in /repo (fix: commit), see known_findings.json
}

// AVCAvoid reports whether the switch is on; when the drawn feature `hit` would trigger the defect
// and the switch is on, the avoidance is counted.
func AVCAvoid(name string, hit bool) bool {
	if !hit {
		return false
	}
	if AVCAvoidKnown[name] {
		exclude(name)
		return true
	}
	return false
}

// AVCDrawInt draws a boundary-heavy integer in [lo, hi].
func AVCDrawInt(t *rapid.T, lo, hi int64, label string) int64 {
	if lo >= hi {
		return lo
	}
	switch rapid.IntRange(0, 9).Draw(t, label+"?") {
	case 0:
		return lo
	case 1:
		return hi
	case 2:
		return lo + 1
	case 3:
		return hi - 1
	case 4, 5:
		// around a power of two (of the magnitude), both signs
		k := rapid.IntRange(0, 32).Draw(t, label+"^")
		v := int64(1)<<uint(k) + int64(rapid.IntRange(-1, 1).Draw(t, label+"±"))
		if lo < 0 && rapid.Bool().Draw(t, label+"-") {
			v = -v
		}
		if v < lo || v > hi {
			return rapid.Int64Range(lo, hi).Draw(t, label)
		}
		return v
	case 6, 7:
		// small
		h := lo + 8
		if h > hi {
			h = hi
		}
		if lo < 0 && hi > 0 {
			l := int64(-4)
			if l < lo {
				l = lo
			}
			h = 4
			if h > hi {
				h = hi
			}
			return rapid.Int64Range(l, h).Draw(t, label)
		}
		return rapid.Int64Range(lo, h).Draw(t, label)
	}
	return rapid.Int64Range(lo, hi).Draw(t, label)
}

func AVCDrawUint(t *rapid.T, lo, hi uint64, label string) uint {
	return uint(AVCDrawInt(t, int64(lo), int64(hi), label))
}

// AVCChance is true with a probability of roughly num/den. rapid's integer generators favour small values, so
// the real frequency is somewhat above num/den (measured over 30k cases: nominal 1/4 -> 28 %, 1/2 -> 49 %,
// 2/3 -> 69 %); the optional branches guarded by it are therefore reached a little more often than nominal,
// never less. The frequencies that matter are the class counters in the evidence, not these nominal values.
func AVCChance(t *rapid.T, num, den int, label string) bool {
	return rapid.IntRange(1, den).Draw(t, label) <= num
}

func AVCNontrivial(classes []string, baseline ...string) bool {
	for _, c := range classes {
		base := false
		for _, b := range baseline {
			if c == b || strings.HasPrefix(c, b) {
				base = true
			}
		}
		if !base {
			return true
		}
	}
	return false
}

var AVCProfiles = []uint32{66, 77, 88, 100, 110, 122, 244, 44, 83, 86, 118, 128, 138, 139, 134, 135}

var AVCLevels = []uint32{9, 10, 11, 12, 13, 20, 21, 22, 30, 31, 32, 40, 41, 42, 50, 51, 52, 60, 61, 62}

// AVCSPSOpts steers the SPS generator.
type AVCSPSOpts struct {
	ID    uint32
	Light bool // fewer/lighter scaling lists, VUI, poc cycles (slice and conf contexts)
	Conf  bool // first SPS of a configuration record (known-defect avoidance of the conf checks applies)
	// Profiles: the profile_idc values to draw from (nil: AVCProfiles, the draw sequence is unchanged).
	Profiles []uint32
	// PocCycleAny: num_ref_frames_in_pic_order_cnt_cycle is also drawn from the whole range 0..255 (boundary
	// heavy) instead of only from the fixed set {0, 1, 2, 3, 7, 255}; false: the draw sequence is unchanged.
	PocCycleAny bool
}

func GenAVCScalingList(t *rapid.T, size int, label string) nalgen.ScalingListSyntax {
	l := nalgen.ScalingListSyntax{Present: true}
	mode := rapid.IntRange(0, 5).Draw(t, label+"-mode")
	if mode == 0 {
		l.Deltas = []int{-8} // nextScale 0 at j==0: useDefaultScalingMatrixFlag
		return l
	}
	stopAt := -1
	if mode == 1 {
		stopAt = rapid.IntRange(1, size-1).Draw(t, label+"-stop")
	}
	last := 8
	for j := 0; j < size; j++ {
		var d int
		switch {
		case j == stopAt:
			d = (256 - last) % 256 // makes nextScale 0: the rest of the list repeats lastScale
			if d > 127 {
				d -= 256
			}
		case mode == 2:
			d = rapid.IntRange(-2, 2).Draw(t, label)
		case mode == 3:
			d = rapid.SampledFrom([]int{-128, 127, -127, 126, 0, 1, -1}).Draw(t, label)
		default:
			d = rapid.IntRange(-128, 127).Draw(t, label)
		}
		l.Deltas = append(l.Deltas, d)
		next := (last + d + 256) % 256
		if next == 0 {
			break
		}
		last = next
	}
	return l
}

func GenAVCScalingLists(t *rapid.T, n int, light bool, label string) []nalgen.ScalingListSyntax {
	out := make([]nalgen.ScalingListSyntax, n)
	for i := range out {
		den := 2
		if light || i >= 6 {
			den = 4
		}
		if AVCChance(t, 1, den, label+"-present") {
			size := 16
			if i >= 6 {
				size = 64
			}
			out[i] = GenAVCScalingList(t, size, label)
		}
	}
	return out
}

func GenAVCHRD(t *rapid.T, label string) *avc.HrdParameters {
	h := &avc.HrdParameters{}
	h.CpbCountMinus1 = uint(rapid.SampledFrom([]int{0, 0, 0, 1, 2, 31}).Draw(t, label+"-cpbcnt"))
	h.BitRateScale = uint(rapid.IntRange(0, 15).Draw(t, label+"-brs"))
	h.CpbSizeScale = uint(rapid.IntRange(0, 15).Draw(t, label+"-css"))
	n := int(h.CpbCountMinus1) + 1
	// bit_rate_value_minus1 strictly increasing, cpb_size_value_minus1 non-increasing with SchedSelIdx (E.2.2)
	br := AVCDrawUint(t, 0, 1<<32-2-uint64(n-1), label+"-br0")
	cs := AVCDrawUint(t, 0, 1<<32-2, label+"-cs0")
	for i := 0; i < n; i++ {
		h.CpbEntries = append(h.CpbEntries, avc.CpbEntry{BitRateValueMinus1: br, CpbSizeValueMinus1: cs, CbrFlag: rapid.Bool().Draw(t, label+"-cbr")})
		if i+1 < n {
			room := uint64(1<<32-2) - uint64(br) - uint64(n-i-2)
			step := uint64(1)
			if room > 1 && AVCChance(t, 1, 2, label+"-brstep") {
				step = uint64(AVCDrawUint(t, 1, room, label+"-brinc"))
			}
			br += uint(step)
			if cs > 0 && AVCChance(t, 1, 2, label+"-csstep") {
				cs = AVCDrawUint(t, 0, uint64(cs), label+"-csdec")
			}
		}
	}
	h.InitialCpbRemovalDelayLengthMinus1 = uint(rapid.IntRange(0, 31).Draw(t, label+"-icrd"))
	h.CpbRemovalDelayLengthMinus1 = uint(rapid.IntRange(0, 31).Draw(t, label+"-crd"))
	h.DpbOutputDelayLengthMinus1 = uint(rapid.IntRange(0, 31).Draw(t, label+"-dod"))
	h.TimeOffsetLength = uint(rapid.IntRange(0, 31).Draw(t, label+"-tol"))
	return h
}

func GenAVCVUI(t *rapid.T, tr *nalgen.AVCSPSTree, light bool) {
	v := &avc.VUIParameters{}
	tr.S.VUI = v
	tr.AspectRatioInfoPresent = rapid.Bool().Draw(t, "aspect_ratio_info_present_flag")
	if tr.AspectRatioInfoPresent {
		idc := rapid.SampledFrom([]int{0, 1, 2, 13, 16, 255, 255, -1}).Draw(t, "aspect_ratio_idc")
		if idc < 0 {
			idc = rapid.IntRange(1, 16).Draw(t, "aspect_ratio_idc-table")
		}
		if AVCAvoid("avc-sps-aspect-ratio-idc0", idc == 0) {
			idc = 1
		}
		tr.AspectRatioIDC = uint8(idc)
		if idc == 255 {
			v.SampleAspectRatioWidth = AVCDrawUint(t, 0, 65535, "sar_width")
			v.SampleAspectRatioHeight = AVCDrawUint(t, 0, 65535, "sar_height")
		}
	}
	v.OverscanInfoPresentFlag = rapid.Bool().Draw(t, "overscan_info_present_flag")
	if v.OverscanInfoPresentFlag {
		v.OverscanAppropriateFlag = rapid.Bool().Draw(t, "overscan_appropriate_flag")
	}
	v.VideoSignalTypePresentFlag = rapid.Bool().Draw(t, "video_signal_type_present_flag")
	if v.VideoSignalTypePresentFlag {
		v.VideoFormat = uint(rapid.IntRange(0, 5).Draw(t, "video_format"))
		v.VideoFullRangeFlag = rapid.Bool().Draw(t, "video_full_range_flag")
		v.ColourDescriptionFlag = rapid.Bool().Draw(t, "colour_description_present_flag")
		if v.ColourDescriptionFlag {
			v.ColourPrimaries = AVCDrawUint(t, 0, 255, "colour_primaries")
			v.TransferCharacteristics = AVCDrawUint(t, 0, 255, "transfer_characteristics")
			v.MatrixCoefficients = AVCDrawUint(t, 0, 255, "matrix_coefficients")
		}
	}
	v.ChromaLocInfoPresentFlag = rapid.Bool().Draw(t, "chroma_loc_info_present_flag")
	if v.ChromaLocInfoPresentFlag {
		v.ChromaSampleLocTypeTopField = uint(rapid.IntRange(0, 5).Draw(t, "chroma_sample_loc_type_top_field"))
		v.ChromaSampleLocTypeBottomField = uint(rapid.IntRange(0, 5).Draw(t, "chroma_sample_loc_type_bottom_field"))
	}
	v.TimingInfoPresentFlag = rapid.Bool().Draw(t, "timing_info_present_flag")
	if v.TimingInfoPresentFlag {
		v.NumUnitsInTick = AVCDrawUint(t, 1, 1<<32-1, "num_units_in_tick")
		v.TimeScale = AVCDrawUint(t, 1, 1<<32-1, "time_scale")
		v.FixedFrameRateFlag = rapid.Bool().Draw(t, "fixed_frame_rate_flag")
	}
	hrdDen := 3
	if light {
		hrdDen = 8
	}
	v.NalHrdParametersPresentFlag = AVCChance(t, 1, hrdDen, "nal_hrd_parameters_present_flag")
	if v.NalHrdParametersPresentFlag {
		v.NalHrdParameters = GenAVCHRD(t, "nalhrd")
	}
	v.VclHrdParametersPresentFlag = AVCChance(t, 1, hrdDen, "vcl_hrd_parameters_present_flag")
	if v.VclHrdParametersPresentFlag {
		v.VclHrdParameters = GenAVCHRD(t, "vclhrd")
	}
	if v.NalHrdParametersPresentFlag || v.VclHrdParametersPresentFlag {
		v.LowDelayHrdFlag = rapid.Bool().Draw(t, "low_delay_hrd_flag")
	}
	v.PicStructPresentFlag = rapid.Bool().Draw(t, "pic_struct_present_flag")
	v.BitstreamRestrictionFlag = rapid.Bool().Draw(t, "bitstream_restriction_flag")
	if v.BitstreamRestrictionFlag {
		v.MotionVectorsOverPicBoundariesFlag = rapid.Bool().Draw(t, "motion_vectors_over_pic_boundaries_flag")
		v.MaxBytesPerPicDenom = uint(rapid.IntRange(0, 16).Draw(t, "max_bytes_per_pic_denom"))
		v.MaxBitsPerMbDenom = uint(rapid.IntRange(0, 16).Draw(t, "max_bits_per_mb_denom"))
		v.Log2MaxMvLengthHorizontal = uint(rapid.IntRange(0, 16).Draw(t, "log2_max_mv_length_horizontal"))
		v.Log2MaxMvLengthVertical = uint(rapid.IntRange(0, 16).Draw(t, "log2_max_mv_length_vertical"))
		lo := tr.S.NumRefFrames
		if lo > 16 {
			lo = 16
		}
		v.MaxDecFrameBuffering = uint(rapid.IntRange(int(lo), 16).Draw(t, "max_dec_frame_buffering"))
		v.MaxNumReorderFrames = uint(rapid.IntRange(0, int(v.MaxDecFrameBuffering)).Draw(t, "max_num_reorder_frames"))
	}
}

// AVCDims draws PicWidthInMbs and PicHeightInMapUnits (frame height in MBs <= 1055, frame size <= 139264 MBs: level 6.2).
func AVCDims(t *rapid.T, frameMbsOnly bool) (uint, uint) {
	var w, h int
	switch rapid.IntRange(0, 9).Draw(t, "dims-mode") {
	case 0, 1, 2, 3:
		w = rapid.IntRange(1, 8).Draw(t, "PicWidthInMbs")
		h = rapid.IntRange(1, 8).Draw(t, "PicHeightInMapUnits")
	case 4:
		d := rapid.SampledFrom([][2]int{{120, 68}, {80, 45}, {45, 36}, {22, 18}, {11, 9}, {240, 135}, {256, 135}, {40, 30}, {480, 270}}).Draw(t, "dims-real")
		w, h = d[0], d[1]
	case 5:
		w = 1055
		h = rapid.IntRange(1, 132).Draw(t, "PicHeightInMapUnits")
	case 6:
		h = 1055
		w = rapid.IntRange(1, 132).Draw(t, "PicWidthInMbs")
	default:
		w = int(AVCDrawInt(t, 1, 1055, "PicWidthInMbs"))
		h = int(AVCDrawInt(t, 1, 139264/int64(w), "PicHeightInMapUnits"))
		if h > 1055 {
			h = 1055
		}
	}
	if !frameMbsOnly {
		// h is FrameHeightInMbs/2
		h = (h + 1) / 2
	}
	return uint(w), uint(h)
}

func GenAVCSPS(t *rapid.T, o AVCSPSOpts) nalgen.AVCSPSTree {
	var tr nalgen.AVCSPSTree
	s := &tr.S
	tr.NalRefIdc = uint8(rapid.IntRange(1, 3).Draw(t, "sps-nal_ref_idc"))
	profiles := AVCProfiles
	if o.Profiles != nil {
		profiles = o.Profiles
	}
	s.Profile = rapid.SampledFrom(profiles).Draw(t, "profile_idc")
	s.ProfileCompatibility = uint32(rapid.IntRange(0, 63).Draw(t, "constraint_set_flags")) << 2
	s.Level = rapid.SampledFrom(AVCLevels).Draw(t, "level_idc")
	s.ParameterID = o.ID
	s.ChromaFormatIDC = 1
	if nalgen.AVCHighProfileFields(s.Profile) {
		s.ChromaFormatIDC = byte(rapid.SampledFrom([]int{1, 1, 0, 2, 3, 3}).Draw(t, "chroma_format_idc"))
		s.BitDepthLumaMinus8 = uint(rapid.SampledFrom([]int{0, 0, 1, 2, 4, 6}).Draw(t, "bit_depth_luma_minus8"))
		s.BitDepthChromaMinus8 = uint(rapid.SampledFrom([]int{0, 0, 1, 2, 4, 6}).Draw(t, "bit_depth_chroma_minus8"))
		if o.Conf && AVCAvoid("avc-conf-chroma-bitdepth-hardcoded", s.ChromaFormatIDC != 1 || s.BitDepthLumaMinus8 != 0 || s.BitDepthChromaMinus8 != 0) {
			s.ChromaFormatIDC, s.BitDepthLumaMinus8, s.BitDepthChromaMinus8 = 1, 0, 0
		}
		if s.ChromaFormatIDC == 3 {
			s.SeparateColourPlaneFlag = rapid.Bool().Draw(t, "separate_colour_plane_flag")
		}
		s.QPPrimeYZeroTransformBypassFlag = rapid.Bool().Draw(t, "qpprime_y_zero_transform_bypass_flag")
		den := 4
		if o.Light {
			den = 12
		}
		s.SeqScalingMatrixPresentFlag = AVCChance(t, 1, den, "seq_scaling_matrix_present_flag")
		if s.SeqScalingMatrixPresentFlag {
			n := 8
			if s.ChromaFormatIDC == 3 {
				n = 12
			}
			tr.ScalingLists = GenAVCScalingLists(t, n, o.Light, "seq_scaling_list")
		}
	}
	s.Log2MaxFrameNumMinus4 = uint(rapid.IntRange(0, 12).Draw(t, "log2_max_frame_num_minus4"))
	s.PicOrderCntType = uint(rapid.IntRange(0, 2).Draw(t, "pic_order_cnt_type"))
	switch s.PicOrderCntType {
	case 0:
		s.Log2MaxPicOrderCntLsbMinus4 = uint(rapid.IntRange(0, 12).Draw(t, "log2_max_pic_order_cnt_lsb_minus4"))
	case 1:
		s.DeltaPicOrderAlwaysZeroFlag = rapid.Bool().Draw(t, "delta_pic_order_always_zero_flag")
		const m = 1<<31 - 1
		drawOff := func(label string) int64 {
			v := AVCDrawInt(t, -m, m, label)
			if AVCAvoid("avc-sps-poc1-offsets-unsigned", v != 0 && v != 1) {
				v &= 1
			}
			return v
		}
		tr.OffsetForNonRefPic = drawOff("offset_for_non_ref_pic")
		tr.OffsetForTopToBottomField = drawOff("offset_for_top_to_bottom_field")
		var n int
		if o.PocCycleAny && AVCChance(t, 1, 3, "num_ref_frames_in_pic_order_cnt_cycle-any") {
			n = int(AVCDrawInt(t, 0, 255, "num_ref_frames_in_pic_order_cnt_cycle"))
		} else {
			n = rapid.SampledFrom([]int{0, 1, 1, 2, 3, 7, 255}).Draw(t, "num_ref_frames_in_pic_order_cnt_cycle")
		}
		if o.Light && n > 7 {
			n = 4
		}
		for i := 0; i < n; i++ {
			tr.OffsetForRefFrame = append(tr.OffsetForRefFrame, drawOff("offset_for_ref_frame"))
		}
	}
	s.NumRefFrames = uint(rapid.SampledFrom([]int{0, 1, 1, 2, 3, 4, 15, 16}).Draw(t, "max_num_ref_frames"))
	s.GapsInFrameNumValueAllowedFlag = rapid.Bool().Draw(t, "gaps_in_frame_num_value_allowed_flag")
	s.FrameMbsOnlyFlag = AVCChance(t, 2, 3, "frame_mbs_only_flag")
	w, h := AVCDims(t, s.FrameMbsOnlyFlag)
	tr.PicWidthInMbsMinus1, tr.PicHeightInMapUnitsMinus1 = w-1, h-1
	if !s.FrameMbsOnlyFlag {
		s.MbAdaptiveFrameFieldFlag = rapid.Bool().Draw(t, "mb_adaptive_frame_field_flag")
	}
	s.Direct8x8InferenceFlag = !s.FrameMbsOnlyFlag || rapid.Bool().Draw(t, "direct_8x8_inference_flag") // shall be 1 when frame_mbs_only_flag is 0
	s.FrameCroppingFlag = rapid.Bool().Draw(t, "frame_cropping_flag")
	if s.FrameCroppingFlag {
		cx, cy := nalgen.AVCCropUnits(s)
		fw := w * 16
		fh := h * 16
		if !s.FrameMbsOnlyFlag {
			fh *= 2
		}
		// CropUnitX*(left+right) < width, CropUnitY*(top+bottom) < height (7.4.2.1.1)
		maxX := (fw - 1) / cx
		maxY := (fh - 1) / cy
		hor := AVCDrawUint(t, 0, uint64(maxX), "crop-hor")
		ver := AVCDrawUint(t, 0, uint64(maxY), "crop-ver")
		s.FrameCropLeftOffset = uint(rapid.IntRange(0, int(hor)).Draw(t, "frame_crop_left_offset"))
		s.FrameCropRightOffset = hor - s.FrameCropLeftOffset
		s.FrameCropTopOffset = uint(rapid.IntRange(0, int(ver)).Draw(t, "frame_crop_top_offset"))
		s.FrameCropBottomOffset = ver - s.FrameCropTopOffset
	}
	den := 2
	if o.Light {
		den = 5
	}
	if AVCChance(t, 1, den, "vui_parameters_present_flag") {
		GenAVCVUI(t, &tr, o.Light)
	}
	return tr
}

func AVCSPSClasses(tr *nalgen.AVCSPSTree) []string {
	s := &tr.S
	cl := []string{fmt.Sprintf("avc-sps-profile-%d", s.Profile), fmt.Sprintf("avc-sps-poc%d", s.PicOrderCntType)}
	if nalgen.AVCHighProfileFields(s.Profile) {
		cl = append(cl, "avc-sps-high-profile", fmt.Sprintf("avc-sps-chroma%d", s.ChromaFormatIDC))
		if s.SeparateColourPlaneFlag {
			cl = append(cl, "avc-sps-separate-colour-plane")
		}
		if s.BitDepthLumaMinus8 != 0 || s.BitDepthChromaMinus8 != 0 {
			cl = append(cl, "avc-sps-highbitdepth")
		}
		if s.SeqScalingMatrixPresentFlag {
			cl = append(cl, "avc-sps-scaling-lists")
			for i, l := range tr.ScalingLists {
				if !l.Present {
					continue
				}
				size := 16
				if i >= 6 {
					size = 64
					cl = append(cl, "avc-sps-scaling-list-8x8")
				}
				if _, _, def, _ := nalgen.ScalingListValues(l.Deltas, size); def {
					cl = append(cl, "avc-sps-scaling-list-usedefault")
				} else if len(l.Deltas) < size {
					cl = append(cl, "avc-sps-scaling-list-earlystop")
				}
			}
		}
	} else {
		cl = append(cl, "avc-sps-baseline-main-extended")
	}
	if s.PicOrderCntType == 1 {
		cl = append(cl, fmt.Sprintf("avc-sps-poc1-cycle-%d", AVCBucket(len(tr.OffsetForRefFrame))))
		if tr.OffsetForNonRefPic < 0 || tr.OffsetForTopToBottomField < 0 {
			cl = append(cl, "avc-sps-poc1-negative-offset")
		}
	}
	if !s.FrameMbsOnlyFlag {
		cl = append(cl, "avc-sps-fieldcoding")
		if s.MbAdaptiveFrameFieldFlag {
			cl = append(cl, "avc-sps-mbaff")
		}
	}
	if s.FrameCroppingFlag {
		cl = append(cl, "avc-sps-cropping")
	}
	if v := s.VUI; v != nil {
		cl = append(cl, "avc-sps-vui")
		if tr.AspectRatioInfoPresent {
			if tr.AspectRatioIDC == 255 {
				cl = append(cl, "avc-sps-vui-extended-sar")
			} else {
				cl = append(cl, "avc-sps-vui-sar-table")
			}
		}
		if v.VideoSignalTypePresentFlag {
			cl = append(cl, "avc-sps-vui-videosignal")
			if v.ColourDescriptionFlag {
				cl = append(cl, "avc-sps-vui-colourdesc")
			}
		}
		if v.ChromaLocInfoPresentFlag {
			cl = append(cl, "avc-sps-vui-chromaloc")
		}
		if v.TimingInfoPresentFlag {
			cl = append(cl, "avc-sps-vui-timing")
		}
		if v.NalHrdParametersPresentFlag {
			cl = append(cl, "avc-sps-vui-nalhrd")
		}
		if v.VclHrdParametersPresentFlag {
			cl = append(cl, "avc-sps-vui-vclhrd")
		}
		if v.BitstreamRestrictionFlag {
			cl = append(cl, "avc-sps-vui-bitstream-restriction")
		}
	}
	return cl
}

func AVCBucket(n int) int {
	switch {
	case n <= 2:
		return n
	case n < 8:
		return 3
	case n < 255:
		return 8
	}
	return 255
}

type AVCPPSOpts struct {
	ID                 uint32
	NoChangeCycleTypes bool // the PPS will be used by a slice and avc-slice-group-change-cycle-bits is avoided
}

// GenAVCPPS draws a PPS referring to sps.
func GenAVCPPS(t *rapid.T, o AVCPPSOpts, sps *nalgen.AVCSPSTree) nalgen.AVCPPSTree {
	var tr nalgen.AVCPPSTree
	p := &tr.P
	tr.NalRefIdc = uint8(rapid.IntRange(1, 3).Draw(t, "pps-nal_ref_idc"))
	p.PicParameterSetID = o.ID
	p.SeqParameterSetID = sps.S.ParameterID
	p.EntropyCodingModeFlag = rapid.Bool().Draw(t, "entropy_coding_mode_flag")
	p.BottomFieldPicOrderInFramePresentFlag = rapid.Bool().Draw(t, "bottom_field_pic_order_in_frame_present_flag")
	picSize := nalgen.AVCPicSizeInMapUnits(sps)
	picW := uint64(sps.PicWidthInMbsMinus1) + 1
	if picSize >= 2 && AVCChance(t, 2, 5, "slice-groups") {
		p.NumSliceGroupsMinus1 = uint(rapid.IntRange(1, 7).Draw(t, "num_slice_groups_minus1"))
		mt := uint(rapid.IntRange(0, 6).Draw(t, "slice_group_map_type"))
		if mt == 6 && picSize > 300 {
			mt = uint(rapid.IntRange(0, 5).Draw(t, "slice_group_map_type-small"))
		}
		if AVCAvoid("avc-pps-slicegroup-type2-extra-pair", mt == 2) {
			mt = 1
		}
		if AVCAvoid("avc-pps-slicegroup-type6", mt == 6) {
			mt = 0
		}
		if o.NoChangeCycleTypes && mt >= 3 && mt <= 5 {
			rate := AVCDrawUint(t, 0, picSize-1, "slice_group_change_rate_minus1") + 1
			libBits := 0
			if rate == 1 {
				libBits = 1
			}
			if AVCAvoid("avc-slice-group-change-cycle-bits", nalgen.AVCSliceGroupChangeCycleBits(picSize, uint64(rate)) != libBits) {
				mt = 1
			} else {
				p.SliceGroupChangeDirectionFlag = rapid.Bool().Draw(t, "slice_group_change_direction_flag")
				p.SliceGroupChangeRateMinus1 = rate - 1
			}
		} else if mt >= 3 && mt <= 5 {
			p.SliceGroupChangeDirectionFlag = rapid.Bool().Draw(t, "slice_group_change_direction_flag")
			p.SliceGroupChangeRateMinus1 = AVCDrawUint(t, 0, picSize-1, "slice_group_change_rate_minus1")
		}
		p.SliceGroupMapType = mt
		switch mt {
		case 0:
			for i := uint(0); i <= p.NumSliceGroupsMinus1; i++ {
				p.RunLengthMinus1 = append(p.RunLengthMinus1, AVCDrawUint(t, 0, picSize-1, "run_length_minus1"))
			}
		case 2:
			picH := picSize / picW
			for i := uint(0); i < p.NumSliceGroupsMinus1; i++ {
				x1 := uint64(rapid.IntRange(0, int(picW-1)).Draw(t, "tl-x-max"))
				x0 := uint64(rapid.IntRange(0, int(x1)).Draw(t, "tl-x"))
				y1 := uint64(rapid.IntRange(0, int(picH-1)).Draw(t, "br-y"))
				y0 := uint64(rapid.IntRange(0, int(y1)).Draw(t, "tl-y"))
				p.TopLeft = append(p.TopLeft, uint(y0*picW+x0))
				p.BottomRight = append(p.BottomRight, uint(y1*picW+x1))
			}
		case 6:
			p.PicSizeInMapUnitsMinus1 = uint(picSize - 1)
			for i := uint64(0); i < picSize; i++ {
				p.SliceGroupID = append(p.SliceGroupID, uint(rapid.IntRange(0, int(p.NumSliceGroupsMinus1)).Draw(t, "slice_group_id")))
			}
		}
	}
	p.NumRefIdxI0DefaultActiveMinus1 = uint(rapid.SampledFrom([]int{0, 0, 1, 2, 3, 15, 16, 31}).Draw(t, "num_ref_idx_l0_default_active_minus1"))
	p.NumRefIdxI1DefaultActiveMinus1 = uint(rapid.SampledFrom([]int{0, 0, 1, 2, 3, 15, 16, 31}).Draw(t, "num_ref_idx_l1_default_active_minus1"))
	p.WeightedPredFlag = rapid.Bool().Draw(t, "weighted_pred_flag")
	p.WeightedBipredIDC = uint(rapid.IntRange(0, 2).Draw(t, "weighted_bipred_idc"))
	qpBdOffsetY := 6 * int64(sps.S.BitDepthLumaMinus8)
	p.PicInitQpMinus26 = int(AVCDrawInt(t, -(26 + qpBdOffsetY), 25, "pic_init_qp_minus26"))
	p.PicInitQsMinus26 = int(AVCDrawInt(t, -26, 25, "pic_init_qs_minus26"))
	p.ChromaQpIndexOffset = int(AVCDrawInt(t, -12, 12, "chroma_qp_index_offset"))
	p.DeblockingFilterControlPresentFlag = rapid.Bool().Draw(t, "deblocking_filter_control_present_flag")
	p.ConstrainedIntraPredFlag = rapid.Bool().Draw(t, "constrained_intra_pred_flag")
	p.RedundantPicCntPresentFlag = rapid.Bool().Draw(t, "redundant_pic_cnt_present_flag")
	tr.TailPresent = AVCChance(t, 3, 5, "pps-tail")
	if tr.TailPresent {
		p.Transform8x8ModeFlag = rapid.Bool().Draw(t, "transform_8x8_mode_flag")
		p.PicScalingMatrixPresentFlag = AVCChance(t, 1, 3, "pic_scaling_matrix_present_flag")
		if AVCAvoid("avc-pps-scalinglists-without-8x8", p.PicScalingMatrixPresentFlag && !p.Transform8x8ModeFlag) {
			p.Transform8x8ModeFlag = true
		}
		if p.PicScalingMatrixPresentFlag {
			tr.ScalingLists = GenAVCScalingLists(t, nalgen.AVCNumPicScalingLists(AVCChromaFormatIDC(&sps.S), p.Transform8x8ModeFlag), false, "pic_scaling_list")
		}
		p.SecondChromaQpIndexOffset = int(AVCDrawInt(t, -12, 12, "second_chroma_qp_index_offset"))
	}
	return tr
}

// AVCChromaFormatIDC is chroma_format_idc, inferred to be 1 when not coded.
func AVCChromaFormatIDC(s *avc.SPS) byte {
	if !nalgen.AVCHighProfileFields(s.Profile) {
		return 1
	}
	return s.ChromaFormatIDC
}

func AVCPPSClasses(tr *nalgen.AVCPPSTree) []string {
	p := &tr.P
	var cl []string
	if p.NumSliceGroupsMinus1 > 0 {
		cl = append(cl, fmt.Sprintf("avc-pps-slicegroups-type%d", p.SliceGroupMapType))
	} else {
		cl = append(cl, "avc-pps-one-slice-group")
	}
	if tr.TailPresent {
		cl = append(cl, "avc-pps-tail")
		if p.Transform8x8ModeFlag {
			cl = append(cl, "avc-pps-transform8x8")
		}
		if p.PicScalingMatrixPresentFlag {
			cl = append(cl, fmt.Sprintf("avc-pps-scaling-lists-%d", len(tr.ScalingLists)))
		}
	}
	if p.PicParameterSetID != p.SeqParameterSetID {
		cl = append(cl, "avc-pps-id-differs-from-sps-id")
	}
	return cl
}

// AVCDistinct draws n distinct ids; small ids are frequent so that SPS ids and PPS ids collide across the two maps.
func AVCDistinct(t *rapid.T, n int, max int, label string) []uint32 {
	seen := map[uint32]bool{}
	var out []uint32
	for len(out) < n {
		var v int
		if AVCChance(t, 3, 4, label+"-small") {
			v = rapid.IntRange(0, 4).Draw(t, label)
		} else {
			v = int(AVCDrawInt(t, 0, int64(max), label))
		}
		for seen[uint32(v)] {
			v = (v + 1) % (max + 1)
		}
		seen[uint32(v)] = true
		out = append(out, uint32(v))
	}
	return out
}

func GenAVCRefPicListMod(t *rapid.T, maxOps int, maxPicNum uint64, label string) []nalgen.RefPicListMod {
	n := rapid.IntRange(1, maxOps).Draw(t, label+"-n")
	if n > 4 && !AVCChance(t, 1, 4, label+"-many") {
		n = 1 + n%4
	}
	var out []nalgen.RefPicListMod
	for i := 0; i < n; i++ {
		idc := uint32(rapid.IntRange(0, 2).Draw(t, label+"-modification_of_pic_nums_idc"))
		var v uint32
		if idc == 2 {
			v = uint32(AVCDrawUint(t, 0, 31, label+"-long_term_pic_num"))
		} else {
			v = uint32(AVCDrawUint(t, 0, maxPicNum-1, label+"-abs_diff_pic_num_minus1"))
		}
		out = append(out, nalgen.RefPicListMod{IDC: idc, Value: v})
	}
	return out
}

func GenAVCPredWeights(t *rapid.T, n uint32, chroma bool, label string) []nalgen.PredWeight {
	out := make([]nalgen.PredWeight, n+1)
	for i := range out {
		e := &out[i]
		e.LumaFlag = rapid.Bool().Draw(t, label+"-luma_weight_flag")
		if e.LumaFlag {
			e.LumaWeight = int32(AVCDrawInt(t, -128, 127, label+"-luma_weight"))
			e.LumaOffset = int32(AVCDrawInt(t, -128, 127, label+"-luma_offset"))
		}
		if chroma {
			e.ChromaFlag = rapid.Bool().Draw(t, label+"-chroma_weight_flag")
			if e.ChromaFlag {
				for j := 0; j < 2; j++ {
					e.ChromaWeight[j] = int32(AVCDrawInt(t, -128, 127, label+"-chroma_weight"))
					e.ChromaOffset[j] = int32(AVCDrawInt(t, -128, 127, label+"-chroma_offset"))
				}
			}
		}
	}
	return out
}

// AVCSliceOpts steers the slice header generator; the zero value is the draw sequence of GenAVCSlice.
type AVCSliceOpts struct {
	// PBBias: the NAL unit type is a non-IDR slice in 80 % of the draws and slice_type comes from the weighted
	// table AVCSliceTypesPB, so that P, B and I slices (and with them ref_pic_list_modification, pred_weight_table,
	// num_ref_idx override, cabac_init_idc) are reached about equally often. Without it an IDR picture (1/3)
	// forces I/SI and the uniform slice_type draw gives another 40 % I/SI: 58 % of the slices have no inter syntax.
	PBBias bool
}

// AVCSliceTypesPB: slice_type of a non-IDR slice under AVCSliceOpts.PBBias (P 5/16, B 5/16, I, SP, SI 2/16 each).
var AVCSliceTypesPB = []int{0, 5, 0, 5, 0, 1, 6, 1, 6, 1, 2, 7, 3, 8, 4, 9}

// GenAVCSlice draws a slice header that refers to pps (-> sps).
func GenAVCSlice(t *rapid.T, sps *nalgen.AVCSPSTree, pps *nalgen.AVCPPSTree) nalgen.AVCSliceTree {
	return GenAVCSliceOpt(t, sps, pps, AVCSliceOpts{})
}

// GenAVCSliceOpt is GenAVCSlice with options.
func GenAVCSliceOpt(t *rapid.T, sps *nalgen.AVCSPSTree, pps *nalgen.AVCPPSTree, o AVCSliceOpts) nalgen.AVCSliceTree {
	var tr nalgen.AVCSliceTree
	h := &tr.H
	s := &sps.S
	p := &pps.P
	var idr bool
	if o.PBBias {
		idr = HEVCPct(t, 20, "idr") // fair coin flips, see HEVCPct
	} else {
		idr = AVCChance(t, 1, 3, "idr")
	}
	tr.NalUnitType = 1
	switch {
	case idr && o.PBBias:
		tr.NalUnitType = 5
		tr.NalRefIdc = uint8(rapid.IntRange(1, 3).Draw(t, "nal_ref_idc"))
		h.SliceType = avc.SliceType([]int{2, 7, 2, 7, 4, 9}[HEVCUni(t, 6, "slice_type")])
	case idr:
		tr.NalUnitType = 5
		tr.NalRefIdc = uint8(rapid.IntRange(1, 3).Draw(t, "nal_ref_idc"))
		h.SliceType = avc.SliceType(rapid.SampledFrom([]int{2, 7, 4, 9}).Draw(t, "slice_type"))
	case o.PBBias:
		tr.NalRefIdc = uint8(rapid.IntRange(0, 3).Draw(t, "nal_ref_idc"))
		h.SliceType = avc.SliceType(AVCSliceTypesPB[HEVCUni(t, len(AVCSliceTypesPB), "slice_type")])
	default:
		tr.NalRefIdc = uint8(rapid.IntRange(0, 3).Draw(t, "nal_ref_idc"))
		h.SliceType = avc.SliceType(rapid.IntRange(0, 9).Draw(t, "slice_type"))
	}
	st := uint32(h.SliceType) % 5
	isP, isB, isI, isSP, isSI := st == 0, st == 1, st == 2, st == 3, st == 4
	h.PicParamID = p.PicParameterSetID
	chromaArrayType := AVCChromaFormatIDC(s)
	if s.SeparateColourPlaneFlag {
		chromaArrayType = 0
		h.ColorPlaneID = uint32(rapid.IntRange(0, 2).Draw(t, "colour_plane_id"))
	}
	maxFrameNum := uint64(1) << (s.Log2MaxFrameNumMinus4 + 4)
	if !idr {
		h.FrameNum = uint32(AVCDrawUint(t, 0, maxFrameNum-1, "frame_num"))
	}
	if !s.FrameMbsOnlyFlag {
		h.FieldPicFlag = rapid.Bool().Draw(t, "field_pic_flag")
		if h.FieldPicFlag {
			h.BottomFieldFlag = rapid.Bool().Draw(t, "bottom_field_flag")
		}
	}
	// first_mb_in_slice: 0..PicSizeInMbs-1 (PicSizeInMbs/2-1 in MBAFF frames)
	frameHeightInMbs := uint64(sps.PicHeightInMapUnitsMinus1 + 1)
	if !s.FrameMbsOnlyFlag {
		frameHeightInMbs *= 2
	}
	picHeightInMbs := frameHeightInMbs
	if h.FieldPicFlag {
		picHeightInMbs /= 2
	}
	picSizeInMbs := uint64(sps.PicWidthInMbsMinus1+1) * picHeightInMbs
	if s.MbAdaptiveFrameFieldFlag && !h.FieldPicFlag {
		picSizeInMbs /= 2
	}
	h.FirstMBInSlice = uint32(AVCDrawUint(t, 0, picSizeInMbs-1, "first_mb_in_slice"))
	if idr {
		h.IDRPicID = uint32(AVCDrawUint(t, 0, 65535, "idr_pic_id"))
	}
	const m31 = 1<<31 - 1
	if s.PicOrderCntType == 0 {
		h.PicOrderCntLsb = uint32(AVCDrawUint(t, 0, uint64(1)<<(s.Log2MaxPicOrderCntLsbMinus4+4)-1, "pic_order_cnt_lsb"))
		if p.BottomFieldPicOrderInFramePresentFlag && !h.FieldPicFlag {
			h.DeltaPicOrderCntBottom = int32(AVCDrawInt(t, -m31, m31, "delta_pic_order_cnt_bottom"))
		}
	}
	if s.PicOrderCntType == 1 && !s.DeltaPicOrderAlwaysZeroFlag {
		h.DeltaPicOrderCnt[0] = int32(AVCDrawInt(t, -m31, m31, "delta_pic_order_cnt[0]"))
		if p.BottomFieldPicOrderInFramePresentFlag && !h.FieldPicFlag {
			h.DeltaPicOrderCnt[1] = int32(AVCDrawInt(t, -m31, m31, "delta_pic_order_cnt[1]"))
		}
	}
	if p.RedundantPicCntPresentFlag {
		h.RedundantPicCnt = uint32(AVCDrawUint(t, 0, 127, "redundant_pic_cnt"))
	}
	if isB {
		h.DirectSpatialMvPredFlag = rapid.Bool().Draw(t, "direct_spatial_mv_pred_flag")
	}
	maxIdx := uint64(15)
	if h.FieldPicFlag {
		maxIdx = 31
	}
	if isP || isSP || isB {
		needOverride := uint64(p.NumRefIdxI0DefaultActiveMinus1) > maxIdx || (isB && uint64(p.NumRefIdxI1DefaultActiveMinus1) > maxIdx)
		h.NumRefIdxActiveOverrideFlag = needOverride || rapid.Bool().Draw(t, "num_ref_idx_active_override_flag")
		if h.NumRefIdxActiveOverrideFlag {
			h.NumRefIdxL0ActiveMinus1 = uint32(AVCDrawUint(t, 0, maxIdx, "num_ref_idx_l0_active_minus1"))
			if isB {
				h.NumRefIdxL1ActiveMinus1 = uint32(AVCDrawUint(t, 0, maxIdx, "num_ref_idx_l1_active_minus1"))
			}
		} else {
			// inferred from the PPS (7.4.3)
			h.NumRefIdxL0ActiveMinus1 = uint32(p.NumRefIdxI0DefaultActiveMinus1)
			if isB {
				h.NumRefIdxL1ActiveMinus1 = uint32(p.NumRefIdxI1DefaultActiveMinus1)
			}
		}
	}
	maxPicNum := maxFrameNum
	if h.FieldPicFlag {
		maxPicNum *= 2
	}
	if !isI && !isSI {
		h.RefPicListModificationL0Flag = AVCChance(t, 1, 3, "ref_pic_list_modification_flag_l0")
		if h.RefPicListModificationL0Flag {
			tr.ModL0 = GenAVCRefPicListMod(t, int(h.NumRefIdxL0ActiveMinus1)+1, maxPicNum, "l0")
		}
	}
	if isB {
		h.RefPicListModificationL1Flag = AVCChance(t, 1, 3, "ref_pic_list_modification_flag_l1")
		if h.RefPicListModificationL1Flag {
			tr.ModL1 = GenAVCRefPicListMod(t, int(h.NumRefIdxL1ActiveMinus1)+1, maxPicNum, "l1")
		}
	}
	if (p.WeightedPredFlag && (isP || isSP)) || (p.WeightedBipredIDC == 1 && isB) {
		h.LumaLog2WeightDenom = uint32(rapid.IntRange(0, 7).Draw(t, "luma_log2_weight_denom"))
		if chromaArrayType != 0 {
			h.ChromaLog2WeightDenom = uint32(rapid.IntRange(0, 7).Draw(t, "chroma_log2_weight_denom"))
		}
		tr.PredWeightL0 = GenAVCPredWeights(t, h.NumRefIdxL0ActiveMinus1, chromaArrayType != 0, "pwt-l0")
		if isB {
			tr.PredWeightL1 = GenAVCPredWeights(t, h.NumRefIdxL1ActiveMinus1, chromaArrayType != 0, "pwt-l1")
		}
	}
	if tr.NalRefIdc != 0 {
		if idr {
			h.NoOutputOfPriorPicsFlag = rapid.Bool().Draw(t, "no_output_of_prior_pics_flag")
			h.LongTermReferenceFlag = rapid.Bool().Draw(t, "long_term_reference_flag")
		} else {
			h.AdaptiveRefPicMarkingModeFlag = AVCChance(t, 1, 3, "adaptive_ref_pic_marking_mode_flag")
			if h.AdaptiveRefPicMarkingModeFlag {
				n := rapid.IntRange(1, 6).Draw(t, "mmco-n")
				seen4, seen5 := false, false
				for i := 0; i < n; i++ {
					op := uint32(rapid.IntRange(1, 6).Draw(t, "memory_management_control_operation"))
					if (op == 4 && seen4) || (op == 5 && seen5) {
						op = 1
					}
					seen4 = seen4 || op == 4
					seen5 = seen5 || op == 5
					mm := nalgen.MMCO{Op: op}
					if op == 1 || op == 3 {
						mm.DifferenceOfPicNumsMinus1 = uint32(AVCDrawUint(t, 0, maxPicNum-1, "difference_of_pic_nums_minus1"))
					}
					if op == 2 {
						mm.LongTermPicNum = uint32(AVCDrawUint(t, 0, 31, "mmco-long_term_pic_num"))
					}
					if op == 3 || op == 6 {
						mm.LongTermFrameIdx = uint32(AVCDrawUint(t, 0, 15, "long_term_frame_idx"))
					}
					if op == 4 {
						mm.MaxLongTermFrameIdxPlus1 = uint32(AVCDrawUint(t, 0, 16, "max_long_term_frame_idx_plus1"))
					}
					tr.MMCOs = append(tr.MMCOs, mm)
				}
			}
		}
	}
	if p.EntropyCodingModeFlag && !isI && !isSI {
		h.CabacInitIDC = uint32(rapid.IntRange(0, 2).Draw(t, "cabac_init_idc"))
	}
	// SliceQPY = 26 + pic_init_qp_minus26 + slice_qp_delta in -QpBdOffsetY..51
	qpBd := 6 * int64(s.BitDepthLumaMinus8)
	base := 26 + int64(p.PicInitQpMinus26)
	h.SliceQPDelta = int32(AVCDrawInt(t, -qpBd-base, 51-base, "slice_qp_delta"))
	if isSP || isSI {
		if isSP {
			h.SPForSwitchFlag = rapid.Bool().Draw(t, "sp_for_switch_flag")
		}
		qsBase := 26 + int64(p.PicInitQsMinus26)
		h.SliceQSDelta = int32(AVCDrawInt(t, -qsBase, 51-qsBase, "slice_qs_delta"))
	}
	if p.DeblockingFilterControlPresentFlag {
		h.DisableDeblockingFilterIDC = uint32(rapid.IntRange(0, 2).Draw(t, "disable_deblocking_filter_idc"))
		if h.DisableDeblockingFilterIDC != 1 {
			h.SliceAlphaC0OffsetDiv2 = int32(rapid.IntRange(-6, 6).Draw(t, "slice_alpha_c0_offset_div2"))
			h.SliceBetaOffsetDiv2 = int32(rapid.IntRange(-6, 6).Draw(t, "slice_beta_offset_div2"))
		}
	}
	if p.NumSliceGroupsMinus1 > 0 && p.SliceGroupMapType >= 3 && p.SliceGroupMapType <= 5 {
		ps := nalgen.AVCPicSizeInMapUnits(sps)
		rate := uint64(p.SliceGroupChangeRateMinus1) + 1
		h.SliceGroupChangeCycle = uint32(AVCDrawUint(t, 0, (ps+rate-1)/rate, "slice_group_change_cycle"))
	}
	// opaque slice data; zero-heavy so that emulation prevention happens right behind (and inside) the header
	tr.SliceData = rapid.SliceOfN(rapid.SampledFrom([]byte{0, 0, 0, 1, 2, 3, 4, 0x80, 0xff}), 0, 6).Draw(t, "slice_data")
	return tr
}

// ---------------------------------------------------------------------------------------------
// parameter-set collections (the draw sequences of C15's TestAVCPPS / TestAVCSlice / TestAVCConf)

// GenAVCPPSSet draws 1..3 SPS with distinct ids and 1..3 PPS with distinct ids, each referring to one of the SPS.
func GenAVCPPSSet(rt *rapid.T) (sps []nalgen.AVCSPSTree, pps []nalgen.AVCPPSTree) {
	nSPS := rapid.IntRange(1, 3).Draw(rt, "nSPS")
	nPPS := rapid.IntRange(1, 3).Draw(rt, "nPPS")
	spsIDs := AVCDistinct(rt, nSPS, 31, "seq_parameter_set_id")
	ppsIDs := AVCDistinct(rt, nPPS, 255, "pic_parameter_set_id")
	for i := 0; i < nSPS; i++ {
		sps = append(sps, GenAVCSPS(rt, AVCSPSOpts{ID: spsIDs[i], Light: true}))
	}
	for i := 0; i < nPPS; i++ {
		ref := rapid.IntRange(0, nSPS-1).Draw(rt, "pps-refers-to")
		pps = append(pps, GenAVCPPS(rt, AVCPPSOpts{ID: ppsIDs[i]}, &sps[ref]))
	}
	return sps, pps
}

// GenAVCSliceSet draws 1..3 SPS, 1..4 PPS (ids crossing between the two id spaces) and a slice header that uses
// pps[usePPS], which refers to sps[useSPS].
func GenAVCSliceSet(rt *rapid.T) (sps []nalgen.AVCSPSTree, pps []nalgen.AVCPPSTree, slice nalgen.AVCSliceTree, useSPS, usePPS int) {
	return GenAVCSliceSetOpt(rt, AVCSliceOpts{})
}

// GenAVCSliceSetOpt is GenAVCSliceSet with options for the slice header (the parameter sets are drawn alike).
func GenAVCSliceSetOpt(rt *rapid.T, o AVCSliceOpts) (sps []nalgen.AVCSPSTree, pps []nalgen.AVCPPSTree, slice nalgen.AVCSliceTree, useSPS, usePPS int) {
	nSPS := rapid.IntRange(1, 3).Draw(rt, "nSPS")
	nPPS := rapid.IntRange(1, 4).Draw(rt, "nPPS")
	spsIDs := AVCDistinct(rt, nSPS, 31, "seq_parameter_set_id")
	ppsIDs := AVCDistinct(rt, nPPS, 255, "pic_parameter_set_id")
	refs := make([]int, nPPS)
	for i := range refs {
		refs[i] = rapid.IntRange(0, nSPS-1).Draw(rt, "pps-refers-to")
	}
	use := rapid.IntRange(0, nPPS-1).Draw(rt, "slice-uses-pps")
	// known-defect avoidance on the ids of the pair the slice uses
	if AVCAvoid("avc-slice-seqparamid-unset", spsIDs[refs[use]] != 0) {
		for i := range spsIDs {
			if spsIDs[i] == 0 {
				spsIDs[i] = spsIDs[refs[use]]
			}
		}
		spsIDs[refs[use]] = 0
	}
	if AVCAvoid("avc-slice-spsid-via-ppsid", ppsIDs[use] != spsIDs[refs[use]]) {
		for i := range ppsIDs {
			if ppsIDs[i] == spsIDs[refs[use]] {
				ppsIDs[i] = ppsIDs[use]
			}
		}
		ppsIDs[use] = spsIDs[refs[use]]
	}
	for i := 0; i < nSPS; i++ {
		sps = append(sps, GenAVCSPS(rt, AVCSPSOpts{ID: spsIDs[i], Light: true}))
	}
	for i := 0; i < nPPS; i++ {
		pps = append(pps, GenAVCPPS(rt, AVCPPSOpts{ID: ppsIDs[i], NoChangeCycleTypes: i == use}, &sps[refs[i]]))
	}
	slice = GenAVCSliceOpt(rt, &sps[refs[use]], &pps[use], o)
	return sps, pps, slice, refs[use], use
}

// GenAVCConfSets draws the parameter sets of an AVCDecoderConfigurationRecord: 1..3 SPS (the first one
// determines the record's profile / level / chroma fields) and 0..3 PPS; one record in twelve has up to 31 SPS
// and 31..255 PPS (the limits of the two count fields).
func GenAVCConfSets(rt *rapid.T) (sps []nalgen.AVCSPSTree, pps []nalgen.AVCPPSTree) {
	return GenAVCConfSetsOpt(rt, nil)
}

// AVCConfProfiles: profile_idc of the first SPS of a configuration record in C15's conf check. The profiles for
// which ISO/IEC 14496-15 5.3.3.1.2 puts chroma_format, bit_depth_luma_minus8, bit_depth_chroma_minus8 and
// numOfSequenceParameterSetExt behind the parameter sets (100, 110, 122, 144 in every edition; 244 and the other
// profiles with chroma_format_idc in the SPS in the newer ones) get extra weight. profile_idc 144 (the High 4:4:4
// profile removed in 2006) is not in the list of H.264 7.3.2.1.1: its SPS has no chroma_format_idc (4:2:0, 8 bit inferred).
var AVCConfProfiles = []uint32{66, 77, 88, 100, 110, 122, 244, 144, 100, 110, 122, 244, 144, 44, 83, 86, 118, 128, 138, 139, 134, 135}

// GenAVCConfSetsOpt is GenAVCConfSets with the profile_idc values of the FIRST SPS drawn from firstProfiles
// (nil: AVCProfiles, the draw sequence of GenAVCConfSets).
func GenAVCConfSetsOpt(rt *rapid.T, firstProfiles []uint32) (sps []nalgen.AVCSPSTree, pps []nalgen.AVCPPSTree) {
	nSPS := rapid.SampledFrom([]int{1, 1, 1, 2, 3}).Draw(rt, "nSPS")
	nPPS := rapid.SampledFrom([]int{1, 1, 2, 3, 0}).Draw(rt, "nPPS")
	// one record in twelve carries many parameter sets: numOfSequenceParameterSets is a 5-bit field (at most 31),
	// numOfPictureParameterSets an 8-bit one (pic_parameter_set_id runs from 0 to 255)
	if rapid.IntRange(0, 11).Draw(rt, "manySets") == 0 {
		nSPS = rapid.SampledFrom([]int{1, 1, 2, 15, 16, 31}).Draw(rt, "nSPSMany")
		nPPS = rapid.SampledFrom([]int{31, 32, 33, 40, 64, 128, 255}).Draw(rt, "nPPSMany")
	}
	spsIDs := AVCDistinct(rt, nSPS, 31, "seq_parameter_set_id")
	ppsIDs := AVCDistinct(rt, nPPS, 255, "pic_parameter_set_id")
	for i := 0; i < nSPS; i++ {
		o := AVCSPSOpts{ID: spsIDs[i], Light: i > 0, Conf: i == 0}
		if i == 0 {
			o.Profiles = firstProfiles
		}
		sps = append(sps, GenAVCSPS(rt, o))
	}
	for i := 0; i < nPPS; i++ {
		ref := rapid.IntRange(0, nSPS-1).Draw(rt, "pps-refers-to")
		pps = append(pps, GenAVCPPS(rt, AVCPPSOpts{ID: ppsIDs[i]}, &sps[ref]))
	}
	return sps, pps
}
