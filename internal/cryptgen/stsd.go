package cryptgen

import (
	"encoding/binary"

	"verif/internal/boxwalk"
)

// Byte-wise writers of the sample description and of the protection signalling boxes (ISO/IEC
// 14496-12 8.5.2 / 12.1.3, 14496-15 5.3.3 / 8.3.3, 23001-7 8). None of this calls the library.

func be16(b []byte, v uint16) []byte { return binary.BigEndian.AppendUint16(b, v) }
func be32(b []byte, v uint32) []byte { return binary.BigEndian.AppendUint32(b, v) }

// visualEntry builds a visual sample entry: 8-byte header, the 78 fixed bytes, child boxes.
func visualEntry(typ string, width, height uint16, children ...[]byte) []byte {
	p := make([]byte, 0, 78)
	p = append(p, 0, 0, 0, 0, 0, 0) // reserved
	p = be16(p, 1)                  // data_reference_index
	p = append(p, make([]byte, 16)...)
	p = be16(p, width)
	p = be16(p, height)
	p = be32(p, 0x00480000)
	p = be32(p, 0x00480000)
	p = be32(p, 0)
	p = be16(p, 1) // frame_count
	name := "verif"
	p = append(p, byte(len(name)))
	p = append(p, name...)
	p = append(p, make([]byte, 31-len(name))...)
	p = be16(p, 0x0018)
	p = be16(p, 0xffff)
	for _, c := range children {
		p = append(p, c...)
	}
	return boxwalk.Make(typ, p)
}

func stsdOf(entry []byte) []byte {
	p := []byte{0, 0, 0, 0, 0, 0, 0, 1}
	return boxwalk.Make("stsd", append(p, entry...))
}

// AvcC builds an avcC box. For profiles other than 66/77/88 the four trailing bytes are written.
func AvcC(profile, compat, level byte, spss, ppss [][]byte, chromaFormat, bitDepthLumaMinus8, bitDepthChromaMinus8 byte) []byte {
	p := []byte{1, profile, compat, level, 0xff, 0xe0 | byte(len(spss))}
	for _, s := range spss {
		p = be16(p, uint16(len(s)))
		p = append(p, s...)
	}
	p = append(p, byte(len(ppss)))
	for _, s := range ppss {
		p = be16(p, uint16(len(s)))
		p = append(p, s...)
	}
	switch profile {
	case 66, 77, 88:
	default:
		p = append(p, 0xfc|chromaFormat, 0xf8|bitDepthLumaMinus8, 0xf8|bitDepthChromaMinus8, 0)
	}
	return boxwalk.Make("avcC", p)
}

// HvcCParams are the fixed fields of the HEVCDecoderConfigurationRecord.
type HvcCParams struct {
	ProfileSpace, ProfileIDC byte
	Tier                     bool
	Compat                   uint32
	Constraint48             uint64
	Level                    byte
	ChromaFormat             byte
	BitDepthLumaMinus8       byte
	BitDepthChromaMinus8     byte
	NumTemporalLayers        byte
	TemporalIDNested         bool
}

// HvcC builds an hvcC box with one array per non-empty NAL unit list (VPS, SPS, PPS).
func HvcC(h HvcCParams, vps, sps, pps [][]byte, complete bool) []byte {
	p := []byte{1}
	b := h.ProfileSpace<<6 | h.ProfileIDC&0x1f
	if h.Tier {
		b |= 0x20
	}
	p = append(p, b)
	p = be32(p, h.Compat)
	p = append(p, byte(h.Constraint48>>40), byte(h.Constraint48>>32), byte(h.Constraint48>>24), byte(h.Constraint48>>16),
		byte(h.Constraint48>>8), byte(h.Constraint48))
	p = append(p, h.Level)
	p = be16(p, 0xf000)
	p = append(p, 0xfc, 0xfc|h.ChromaFormat, 0xf8|h.BitDepthLumaMinus8, 0xf8|h.BitDepthChromaMinus8)
	p = be16(p, 0) // avgFrameRate
	nested := byte(0)
	if h.TemporalIDNested {
		nested = 1
	}
	p = append(p, 0<<6|h.NumTemporalLayers<<3|nested<<2|3)
	type arr struct {
		typ   byte
		nalus [][]byte
	}
	var arrays []arr
	for _, a := range []arr{{32, vps}, {33, sps}, {34, pps}} {
		if len(a.nalus) > 0 {
			arrays = append(arrays, a)
		}
	}
	p = append(p, byte(len(arrays)))
	for _, a := range arrays {
		t := a.typ
		if complete {
			t |= 0x80
		}
		p = append(p, t)
		p = be16(p, uint16(len(a.nalus)))
		for _, n := range a.nalus {
			p = be16(p, uint16(len(n)))
			p = append(p, n...)
		}
	}
	return boxwalk.Make("hvcC", p)
}

// VideoStsd builds the stsd of a video track.
func VideoStsd(typ string, conf []byte, extra ...[]byte) []byte {
	return stsdOf(visualEntry(typ, 320, 240, append([][]byte{conf}, extra...)...))
}

// ---------------------------------------------------------------------------------------------
// protection signalling (writer side, used for files encrypted by the harness)

func fullBox(typ string, version byte, flags uint32, payload []byte) []byte {
	p := be32(nil, uint32(version)<<24|flags&0xffffff)
	return boxwalk.Make(typ, append(p, payload...))
}

// TencParams describes a tenc box.
type TencParams struct {
	Version     byte
	Crypt, Skip byte
	IVSize      byte
	KID         []byte
	ConstIV     []byte // written when IVSize == 0
}

func tencBox(t TencParams) []byte {
	p := []byte{0}
	if t.Version == 0 {
		p = append(p, 0)
	} else {
		p = append(p, t.Crypt<<4|t.Skip&15)
	}
	p = append(p, 1, t.IVSize)
	p = append(p, t.KID...)
	if t.IVSize == 0 {
		p = append(p, byte(len(t.ConstIV)))
		p = append(p, t.ConstIV...)
	}
	return fullBox("tenc", t.Version, 0, p)
}

// Sinf builds sinf { frma, schm, schi { tenc } }.
func Sinf(original, scheme string, t TencParams) []byte {
	frma := boxwalk.Make("frma", []byte(original))
	schm := fullBox("schm", 0, 0, be32([]byte(scheme), 0x00010000))
	schi := boxwalk.Make("schi", tencBox(t))
	return boxwalk.Make("sinf", append(append(frma, schm...), schi...))
}

// ProtectStsd turns a clear stsd (one sample entry) into its protected form: entry type encv/enca and
// a sinf appended to the entry's children.
func ProtectStsd(stsd []byte, scheme string, t TencParams) []byte {
	return ProtectStsdAt(stsd, scheme, t, -1)
}

// ProtectStsdAt is ProtectStsd with the place of the sinf box among the children of the sample entry: -1 behind the
// last child (what mp4ff's InitProtect writes), 0 in front of the first child, k > 0 behind the k-th child (or last
// when there are fewer). Other packagers put sinf first.
func ProtectStsdAt(stsd []byte, scheme string, t TencParams, pos int) []byte {
	if pos >= 0 {
		entry := stsd[16:]
		orig := string(entry[4:8])
		fixed := 8 + 78 // visual sample entry
		enc := "encv"
		if orig == "mp4a" {
			fixed, enc = 8+28, "enca"
		}
		at := fixed
		for k := 0; k < pos && at+8 <= len(entry); k++ {
			at += int(binary.BigEndian.Uint32(entry[at:]))
		}
		if at > len(entry) {
			at = len(entry)
		}
		ne := append([]byte(nil), entry[:at]...)
		ne = append(ne, Sinf(orig, scheme, t)...)
		ne = append(ne, entry[at:]...)
		copy(ne[4:8], enc)
		binary.BigEndian.PutUint32(ne, uint32(len(ne)))
		return stsdOf(ne)
	}
	entry := stsd[16:]
	orig := string(entry[4:8])
	enc := "encv"
	if orig == "mp4a" {
		enc = "enca"
	}
	ne := append([]byte(nil), entry...)
	copy(ne[4:8], enc)
	ne = append(ne, Sinf(orig, scheme, t)...)
	binary.BigEndian.PutUint32(ne, uint32(len(ne)))
	return stsdOf(ne)
}

// SencEntry is one sample of a senc box.
type SencEntry struct {
	IV   []byte
	Subs [][2]uint32 // (clear, protected); nil = no sub-sample map
}

// SencBox builds a senc box; subsample flag as given (all entries carry a map then).
func SencBox(entries []SencEntry, useSubs bool) []byte {
	p := be32(nil, uint32(len(entries)))
	for _, e := range entries {
		p = append(p, e.IV...)
		if useSubs {
			p = be16(p, uint16(len(e.Subs)))
			for _, s := range e.Subs {
				p = be16(p, uint16(s[0]))
				p = be32(p, s[1])
			}
		}
	}
	fl := uint32(0)
	if useSubs {
		fl = 2
	}
	return fullBox("senc", 0, fl, p)
}

// SaizBox builds a saiz box for the entry sizes (default size when all are equal and withType selects
// the aux_info_type 'cenc' form).
func SaizBox(sizes []int, withType bool) []byte {
	var p []byte
	fl := uint32(0)
	if withType {
		fl = 1
		p = append(p, "cenc"...)
		p = be32(p, 0)
	}
	same := len(sizes) > 0 && sizes[0] != 0 // a default size of 0 means "table follows"
	for _, s := range sizes {
		if s != sizes[0] {
			same = false
		}
	}
	if same {
		p = append(p, byte(sizes[0]))
		p = be32(p, uint32(len(sizes)))
	} else {
		p = append(p, 0)
		p = be32(p, uint32(len(sizes)))
		for _, s := range sizes {
			p = append(p, byte(s))
		}
	}
	return fullBox("saiz", 0, fl, p)
}

// SaioBox builds a saio box with one offset.
func SaioBox(offset uint64, version byte, withType bool) []byte {
	var p []byte
	fl := uint32(0)
	if withType {
		fl = 1
		p = append(p, "cenc"...)
		p = be32(p, 0)
	}
	p = be32(p, 1)
	if version == 0 {
		p = be32(p, uint32(offset))
	} else {
		p = binary.BigEndian.AppendUint64(p, offset)
	}
	return fullBox("saio", version, fl, p)
}

// SeigBoxes builds sbgp + sgpd of grouping type 'seig' mapping all n samples to one fragment-local entry.
func SeigBoxes(n int, t TencParams) (sbgp, sgpd []byte) {
	p := append([]byte("seig"), 0, 0, 0, 1)
	p = be32(p, uint32(n))
	p = be32(p, 0x10001)
	sbgp = fullBox("sbgp", 0, 0, p)
	e := []byte{0, t.Crypt<<4 | t.Skip&15, 1, t.IVSize}
	e = append(e, t.KID...)
	if t.IVSize == 0 {
		e = append(e, byte(len(t.ConstIV)))
		e = append(e, t.ConstIV...)
	}
	q := []byte("seig")
	q = be32(q, uint32(len(e))) // default_length
	q = be32(q, 1)              // entry_count
	q = append(q, e...)
	sgpd = fullBox("sgpd", 1, 0, q)
	return
}

// PsshBox builds a pssh box (version 0, or 1 with key ids).
func PsshBox(systemID []byte, kids [][]byte, data []byte) []byte {
	p := append([]byte(nil), systemID...)
	v := byte(0)
	if len(kids) > 0 {
		v = 1
		p = be32(p, uint32(len(kids)))
		for _, k := range kids {
			p = append(p, k...)
		}
	}
	p = be32(p, uint32(len(data)))
	p = append(p, data...)
	return fullBox("pssh", v, 0, p)
}
