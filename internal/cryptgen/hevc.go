package cryptgen

import (
	"github.com/Eyevinn/mp4ff/hevc"
	"pgregory.net/rapid"

	"verif/internal/nalgen"
)

// HEVC side of the generator: VPS/SPS/PPS and slice segment NAL units with valid headers (nalgen).
// Features behind recorded, unrepaired parser defects of the library (C15: inter-predicted short-term RPS,
// current-picture referencing in pred_weight_table) are not used: the RPSs are coded explicitly and the
// parameter sets carry no SCC extension and no weighted prediction.

type hevcCtx struct {
	sps                    nalgen.HEVCSPSTree
	pps                    []nalgen.HEVCPPSTree
	vpsNal, spsNal, ppsNal [][]byte
	rps                    []nalgen.HEVCRPSVars // derived RPSs of the SPS
}

func genExplicitRPS(t *rapid.T, l string) nalgen.HEVCStRPS {
	var c nalgen.HEVCStRPS
	nNeg := small(t, 0, 2, l+"neg")
	nPos := small(t, 0, 2, l+"pos")
	for i := 0; i < nNeg; i++ {
		c.DeltaPocS0Minus1 = append(c.DeltaPocS0Minus1, uint32(small(t, 0, 3, l+"d0")))
		c.UsedByCurrPicS0 = append(c.UsedByCurrPicS0, rapid.Bool().Draw(t, l+"u0"))
	}
	for i := 0; i < nPos; i++ {
		c.DeltaPocS1Minus1 = append(c.DeltaPocS1Minus1, uint32(small(t, 0, 3, l+"d1")))
		c.UsedByCurrPicS1 = append(c.UsedByCurrPicS1, rapid.Bool().Draw(t, l+"u1"))
	}
	return c
}

func genHEVCSets(t *rapid.T) *hevcCtx {
	c := &hevcCtx{}
	tr := &c.sps
	s := &tr.SPS
	tr.TemporalIDPlus1 = 1
	s.VpsID = byte(pick(t, "vpsid", 0, 0, 3, 15))
	s.TemporalIDNestingFlag = true
	s.ProfileTierLevel = hevc.ProfileTierLevel{GeneralProfileIDC: 1, GeneralProfileCompatibilityFlags: 0x60000000,
		GeneralProgressiveSourceFlag: true, GeneralFrameOnlyConstraintFlag: true, GeneralLevelIDC: 93}
	s.SpsID = byte(pick(t, "spsid", 0, 0, 1, 7, 15))
	s.ChromaFormatIDC = 1
	if pct(t, 15, "444") {
		s.ChromaFormatIDC = 3
		s.SeparateColourPlaneFlag = rapid.Bool().Draw(t, "sepplane")
	}
	s.PicWidthInLumaSamples, s.PicHeightInLumaSamples = 320, 240
	s.Log2MaxPicOrderCntLsbMinus4 = byte(pick(t, "l2poc", 0, 4, 12))
	s.SubLayerOrderingInfoPresentFlag = true
	s.SubLayeringOrderingInfos = []hevc.SubLayerOrderingInfo{{MaxDecPicBufferingMinus1: 6, MaxNumReorderPics: 2, MaxLatencyIncreasePlus1: 0}}
	s.Log2MinLumaCodingBlockSizeMinus3 = 0
	s.Log2DiffMaxMinLumaCodingBlockSize = 1 // CTB 16x16: 20 x 15 CTBs
	s.Log2MinLumaTransformBlockSizeMinus2 = 0
	s.Log2DiffMaxMinLumaTransformBlockSize = 2
	s.MaxTransformHierarchyDepthInter = 1
	s.MaxTransformHierarchyDepthIntra = 1
	s.AmpEnabledFlag = rapid.Bool().Draw(t, "amp")
	s.SampleAdaptiveOffsetEnabledFlag = rapid.Bool().Draw(t, "sao")
	nRPS := uni(t, 3, "nrps")
	s.NumShortTermRefPicSets = byte(nRPS)
	for i := 0; i < nRPS; i++ {
		tr.StRPS = append(tr.StRPS, genExplicitRPS(t, "srps-"))
	}
	c.rps = nalgen.HEVCDeriveAllRPS(tr.StRPS)
	s.LongTermRefPicsPresentFlag = pct(t, 35, "ltpresent")
	if s.LongTermRefPicsPresentFlag {
		n := uni(t, 3, "nltsps")
		s.NumLongTermRefPics = uint8(n)
		for i := 0; i < n; i++ {
			s.LongTermRefPicSets = append(s.LongTermRefPicSets, hevc.LongTermRPS{
				PocLsbLt:            uint16(bitsVal(t, int(s.Log2MaxPicOrderCntLsbMinus4)+4, "ltpocsps")),
				UsedByCurrPicLtFlag: rapid.Bool().Draw(t, "ltusedsps")})
		}
	}
	s.SpsTemporalMvpEnabledFlag = rapid.Bool().Draw(t, "tmvp")
	s.StrongIntraSmoothingEnabledFlag = rapid.Bool().Draw(t, "sis")

	nPPS := 1
	if pct(t, 30, "twopps") {
		nPPS = 2
	}
	used := map[uint32]bool{}
	for i := 0; i < nPPS; i++ {
		var pt nalgen.HEVCPPSTree
		p := &pt.PPS
		pt.TemporalIDPlus1 = 1
		p.PicParameterSetID = pick(t, "ppsid", uint32(0), 0, 1, 7, 63)
		for used[p.PicParameterSetID] {
			p.PicParameterSetID = (p.PicParameterSetID + 1) % 64
		}
		used[p.PicParameterSetID] = true
		p.SeqParameterSetID = uint32(s.SpsID)
		p.DependentSliceSegmentsEnabledFlag = rapid.Bool().Draw(t, "dep")
		p.OutputFlagPresentFlag = rapid.Bool().Draw(t, "outflag")
		p.NumExtraSliceHeaderBits = uint8(small(t, 0, 2, "extrabits"))
		p.SignDataHidingEnabledFlag = rapid.Bool().Draw(t, "sdh")
		p.CabacInitPresentFlag = rapid.Bool().Draw(t, "cabacinit")
		p.NumRefIdxL0DefaultActiveMinus1 = uint8(small(t, 0, 2, "nri0"))
		p.NumRefIdxL1DefaultActiveMinus1 = uint8(small(t, 0, 2, "nri1"))
		p.CuQpDeltaEnabledFlag = rapid.Bool().Draw(t, "cuqp")
		p.SliceChromaQpOffsetsPresentFlag = rapid.Bool().Draw(t, "scqp")
		p.TransquantBypassEnabledFlag = rapid.Bool().Draw(t, "tqb")
		p.TilesEnabledFlag = pct(t, 30, "tiles")
		p.EntropyCodingSyncEnabledFlag = pct(t, 30, "wpp")
		if p.TilesEnabledFlag {
			p.NumTileColumnsMinus1 = uint(1 + uni(t, 2, "tilecols"))
			p.NumTileRowsMinus1 = uint(uni(t, 2, "tilerows"))
			p.UniformSpacingFlag = true
			p.LoopFilterAcrossTilesEnabledFlag = rapid.Bool().Draw(t, "lfat")
		}
		p.LoopFilterAcrossSlicesEnabledFlag = rapid.Bool().Draw(t, "lfas")
		p.DeblockingFilterControlPresentFlag = rapid.Bool().Draw(t, "dbc")
		if p.DeblockingFilterControlPresentFlag {
			p.DeblockingFilterOverrideEnabledFlag = rapid.Bool().Draw(t, "dboe")
			p.DeblockingFilterDisabledFlag = rapid.Bool().Draw(t, "dbd")
			if !p.DeblockingFilterDisabledFlag {
				p.BetaOffsetDiv2 = int8(rapid.IntRange(-6, 6).Draw(t, "beta"))
				p.TcOffsetDiv2 = int8(rapid.IntRange(-6, 6).Draw(t, "tc"))
			}
		}
		p.ListsModificationPresentFlag = rapid.Bool().Draw(t, "lmp")
		p.SliceSegmentHeaderExtensionPresentFlag = pct(t, 35, "shext")
		c.pps = append(c.pps, pt)
	}
	vps := nalgen.HEVCVPSTree{VpsID: s.VpsID, BaseLayerInternalFlag: true, BaseLayerAvailableFlag: true, TemporalIDNestingFlag: true,
		PTL: s.ProfileTierLevel, SubLayerOrderingInfoPresent: true, OrderingInfos: s.SubLayeringOrderingInfos}
	c.vpsNal = [][]byte{nalgen.HEVCWriteVPS(&vps)}
	n, _ := nalgen.HEVCWriteSPS(tr)
	c.spsNal = [][]byte{n}
	for i := range c.pps {
		n, _ := nalgen.HEVCWritePPS(&c.pps[i])
		c.ppsNal = append(c.ppsNal, n)
	}
	return c
}

func (c *hevcCtx) stsd(typ string, complete bool, extra ...[]byte) []byte {
	s := &c.sps.SPS
	h := HvcCParams{ProfileIDC: s.ProfileTierLevel.GeneralProfileIDC, Compat: s.ProfileTierLevel.GeneralProfileCompatibilityFlags,
		Constraint48: 0x9 << 44, Level: s.ProfileTierLevel.GeneralLevelIDC, ChromaFormat: s.ChromaFormatIDC,
		NumTemporalLayers: 1, TemporalIDNested: true}
	return VideoStsd(typ, HvcC(h, c.vpsNal, c.spsNal, c.ppsNal, complete), extra...)
}

var hevcVclTypes = []byte{0, 1, 0, 1, 6, 7, 8, 9, 16, 17, 18, 19, 20, 21}

// sliceTree draws a slice segment header (7.3.6.1) valid for the parameter sets.
func (c *hevcCtx) sliceTree(t *rapid.T, irapWanted bool) (nalgen.HEVCSliceTree, *nalgen.HEVCPPSTree) {
	spsT := &c.sps
	sps := &spsT.SPS
	ppsT := &c.pps[uni(t, len(c.pps), "whichpps")]
	pps := &ppsT.PPS
	var tr nalgen.HEVCSliceTree
	sh, x := &tr.SH, &tr.Extra
	if irapWanted {
		tr.NalType = byte(16 + uni(t, 6, "irapnt"))
	} else {
		tr.NalType = hevcVclTypes[uni(t, 8, "nt")]
	}
	nt := int(tr.NalType)
	irap := nt >= 16 && nt <= 23
	idr := nt == 19 || nt == 20
	tr.TemporalIDPlus1 = 1
	sh.PicParameterSetId = pps.PicParameterSetID
	wc, hc := nalgen.HEVCPicSizeInCtbs(sps)
	picSize := wc * hc
	sh.FirstSliceSegmentInPicFlag = pct(t, 55, "first")
	if irap {
		sh.NoOutputOfPriorPicsFlag = rapid.Bool().Draw(t, "noout")
	}
	if !sh.FirstSliceSegmentInPicFlag {
		if pps.DependentSliceSegmentsEnabledFlag {
			sh.DependentSliceSegmentFlag = rapid.Bool().Draw(t, "dependent")
		}
		sh.SegmentAddress = uint(rapid.Uint64Range(1, picSize-1).Draw(t, "addr"))
	}
	chromaArrayType := nalgen.HEVCChromaArrayType(sps)
	sliceDeblockingDisabled := pps.DeblockingFilterDisabledFlag
	if !sh.DependentSliceSegmentFlag {
		sh.CollocatedFromL0Flag = true
		for i := 0; i < int(pps.NumExtraSliceHeaderBits); i++ {
			x.SliceReservedFlag = append(x.SliceReservedFlag, rapid.Bool().Draw(t, "rsv"))
		}
		var cur nalgen.HEVCRPSVars
		usedLt := 0
		if !idr {
			pocBits := int(sps.Log2MaxPicOrderCntLsbMinus4) + 4
			sh.PicOrderCntLsb = uint16(bitsVal(t, pocBits, "poc"))
			num := int(sps.NumShortTermRefPicSets)
			sh.ShortTermRefPicSetSpsFlag = num > 0 && rapid.Bool().Draw(t, "spsrps")
			if sh.ShortTermRefPicSetSpsFlag {
				idx := uni(t, num, "rpsidx")
				sh.ShortTermRefPicSetIdx = byte(idx)
				cur = c.rps[idx]
			} else {
				e := genExplicitRPS(t, "hrps-")
				x.StRPS = &e
				cur = nalgen.HEVCDeriveRPS(&e, nil)
			}
			if sps.LongTermRefPicsPresentFlag {
				nsps := 0
				if sps.NumLongTermRefPics > 0 {
					nsps = small(t, 0, int(sps.NumLongTermRefPics), "nltsps")
				}
				npics := small(t, 0, 2, "nltpics")
				sh.NumLongTermSps, sh.NumLongTermPics = uint8(nsps), uint(npics)
				for i := 0; i < nsps+npics; i++ {
					var lt hevc.LongTermRPS
					if i < nsps {
						idx := 0
						if sps.NumLongTermRefPics > 1 {
							idx = uni(t, int(sps.NumLongTermRefPics), "ltidx")
						}
						x.LtIdxSps = append(x.LtIdxSps, uint32(idx))
						lt.PocLsbLt = sps.LongTermRefPicSets[idx].PocLsbLt
						lt.UsedByCurrPicLtFlag = sps.LongTermRefPicSets[idx].UsedByCurrPicLtFlag
					} else {
						lt.PocLsbLt = uint16(bitsVal(t, pocBits, "ltpoc"))
						lt.UsedByCurrPicLtFlag = rapid.Bool().Draw(t, "ltused")
					}
					if lt.UsedByCurrPicLtFlag {
						usedLt++
					}
					lt.DeltaPocMsbPresentFlag = rapid.Bool().Draw(t, "ltmsb")
					if lt.DeltaPocMsbPresentFlag {
						lt.DeltaPocMsbCycleLt = uint(small(t, 0, 5, "ltcyc"))
					}
					sh.LongTermRefPicSets = append(sh.LongTermRefPicSets, lt)
				}
			}
			if sps.SpsTemporalMvpEnabledFlag {
				sh.TemporalMvpEnabledFlag = rapid.Bool().Draw(t, "stmvp")
			}
		}
		nptc := 0
		if !idr {
			nptc = cur.NumUsed() + usedLt
		}
		st := 2
		if !irap && nptc > 0 && pct(t, 75, "pb") {
			st = uni(t, 2, "type")
		}
		sh.SliceType = hevc.SliceType(st)
		if pps.OutputFlagPresentFlag {
			sh.PicOutputFlag = rapid.Bool().Draw(t, "picout")
		}
		if sps.SeparateColourPlaneFlag {
			sh.ColourPlaneId = uint8(uni(t, 3, "cplane"))
		}
		if sps.SampleAdaptiveOffsetEnabledFlag {
			sh.SaoLumaFlag = rapid.Bool().Draw(t, "saol")
			if chromaArrayType != 0 {
				sh.SaoChromaFlag = rapid.Bool().Draw(t, "saoc")
			}
		}
		isP, isB := st == 1, st == 0
		if isP || isB {
			sh.NumRefIdxActiveOverrideFlag = rapid.Bool().Draw(t, "ovr")
			l0, l1 := int(pps.NumRefIdxL0DefaultActiveMinus1), int(pps.NumRefIdxL1DefaultActiveMinus1)
			if sh.NumRefIdxActiveOverrideFlag {
				l0 = small(t, 0, 14, "l0")
				if isB {
					l1 = small(t, 0, 14, "l1")
				}
			}
			sh.NumRefIdxL0ActiveMinus1 = uint8(l0)
			if isB {
				sh.NumRefIdxL1ActiveMinus1 = uint8(l1)
			}
			if pps.ListsModificationPresentFlag && nptc > 1 {
				m := &hevc.RefPicListsModification{}
				m.RefPicListModificationFlagL0 = rapid.Bool().Draw(t, "lm0")
				if m.RefPicListModificationFlagL0 {
					for i := 0; i <= l0; i++ {
						m.ListEntryL0 = append(m.ListEntryL0, uint8(uni(t, nptc, "le0")))
					}
				}
				if isB {
					m.RefPicListModificationFlagL1 = rapid.Bool().Draw(t, "lm1")
					if m.RefPicListModificationFlagL1 {
						for i := 0; i <= l1; i++ {
							m.ListEntryL1 = append(m.ListEntryL1, uint8(uni(t, nptc, "le1")))
						}
					}
				}
				sh.RefPicListsModification = m
			}
			if isB {
				sh.MvdL1ZeroFlag = rapid.Bool().Draw(t, "mvdl1")
			}
			if pps.CabacInitPresentFlag {
				sh.CabacInitFlag = rapid.Bool().Draw(t, "cabac")
			}
			if sh.TemporalMvpEnabledFlag {
				if isB {
					sh.CollocatedFromL0Flag = rapid.Bool().Draw(t, "coll0")
				}
				n := l1
				if sh.CollocatedFromL0Flag {
					n = l0
				}
				if n > 0 {
					sh.CollocatedRefIdx = uint8(small(t, 0, n, "collidx"))
				}
			}
			sh.FiveMinusMaxNumMergeCand = uint8(uni(t, 5, "merge"))
		}
		sh.QpDelta = rapid.IntRange(-26, 25).Draw(t, "qpd")
		if pps.SliceChromaQpOffsetsPresentFlag {
			sh.CbQpOffset = int8(rapid.IntRange(-12, 12).Draw(t, "cbq"))
			sh.CrQpOffset = int8(rapid.IntRange(-12, 12).Draw(t, "crq"))
		}
		if pps.DeblockingFilterOverrideEnabledFlag {
			sh.DeblockingFilterOverrideFlag = rapid.Bool().Draw(t, "dbo")
		}
		if sh.DeblockingFilterOverrideFlag {
			sh.DeblockingFilterDisabledFlag = rapid.Bool().Draw(t, "sdbd")
			sliceDeblockingDisabled = sh.DeblockingFilterDisabledFlag
			if !sh.DeblockingFilterDisabledFlag {
				sh.BetaOffsetDiv2 = int8(rapid.IntRange(-6, 6).Draw(t, "sbeta"))
				sh.TcOffsetDiv2 = int8(rapid.IntRange(-6, 6).Draw(t, "stc"))
			}
		}
		if pps.LoopFilterAcrossSlicesEnabledFlag && (sh.SaoLumaFlag || sh.SaoChromaFlag || !sliceDeblockingDisabled) {
			sh.LoopFilterAcrossSlicesEnabledFlag = rapid.Bool().Draw(t, "slf")
		}
	}
	if pps.TilesEnabledFlag || pps.EntropyCodingSyncEnabledFlag {
		cols, rows := 1, 1
		if pps.TilesEnabledFlag {
			cols, rows = int(pps.NumTileColumnsMinus1)+1, int(pps.NumTileRowsMinus1)+1
		}
		var mx int
		switch {
		case !pps.TilesEnabledFlag:
			mx = int(hc) - 1
		case !pps.EntropyCodingSyncEnabledFlag:
			mx = cols*rows - 1
		default:
			mx = cols*int(hc) - 1
		}
		n := 0
		if mx > 0 && pct(t, 70, "nep?") {
			if mx > 10 {
				mx = 10
			}
			n = small(t, 0, mx, "nep")
		}
		sh.NumEntryPointOffsets = uint(n)
		if n > 0 {
			sh.OffsetLenMinus1 = uint8(pick(t, "eplen", 0, 7, 15, 31))
			for i := 0; i < n; i++ {
				sh.EntryPointOffsetMinus1 = append(sh.EntryPointOffsetMinus1, uint32(bitsVal(t, int(sh.OffsetLenMinus1)+1, "epv")))
			}
		}
	}
	if pps.SliceSegmentHeaderExtensionPresentFlag {
		n := 0
		if pct(t, 70, "ext?") {
			n = small(t, 1, 12, "extn")
		}
		sh.SegmentHeaderExtensionLength = uint16(n)
		for i := 0; i < n; i++ {
			sh.SegmentHeaderExtensionDataByte = append(sh.SegmentHeaderExtensionDataByte, byte(pick(t, "extv", 0, 0, 0, 1, 3, 0x80, 0xff)))
		}
	}
	return tr, ppsT
}

func (c *hevcCtx) slice(t *rapid.T, target int, irap bool, seed uint64) Nal {
	tr, ppsT := c.sliceTree(t, irap)
	build := func(n int) ([]byte, nalgen.HEVCSliceDerived) {
		tr.Payload = fill(seed, n)
		return nalgen.HEVCWriteSlice(&tr, &c.sps, &ppsT.PPS)
	}
	nal, d := build(0)
	n := target - len(nal)
	for iter := 0; iter < 4 && n > 0; iter++ {
		nal, d = build(n)
		df := len(nal) - target
		if df == 0 {
			break
		}
		n -= df
		if n < 0 {
			n = 0
		}
	}
	hdr := nalgen.HEVCHeaderSizeInNal(nal, d.HeaderBits)
	return Nal{Kind: "slice", VCL: true, Data: nal, Hdr: hdr, Esc: hdr > d.HeaderBits/8}
}

func (c *hevcCtx) nonVCL(kind string, size int, which int) Nal {
	hdr := func(t byte) []byte { return nalgen.HEVCNalHeader(t, 0, 1) }
	switch kind {
	case "aud":
		return Nal{Kind: kind, Data: append(hdr(35), 0x10|byte(which%3)<<5)}
	case "vps":
		return Nal{Kind: kind, Data: c.vpsNal[0]}
	case "sps":
		return Nal{Kind: kind, Data: c.spsNal[0]}
	case "pps":
		return Nal{Kind: kind, Data: c.ppsNal[which%len(c.ppsNal)]}
	case "eos":
		return Nal{Kind: kind, Data: hdr(36)}
	case "sei", "seisuffix":
		if size < 26 {
			size = 26
		}
		ps := size - 2 - 2 - 1
		if ps < 16 {
			ps = 16
		}
		prefix, pad := seiParts(ps)
		nt := byte(39)
		if kind == "seisuffix" {
			nt = 40
		}
		return Nal{Kind: "sei", Data: append(hdr(nt), prefix...), Pad: pad, PadByte: 0x55, Tail: []byte{0x80}}
	default:
		if size < 3 {
			size = 3
		}
		return Nal{Kind: "filler", Data: hdr(38), Pad: size - 3, PadByte: 0xff, Tail: []byte{0x80}}
	}
}
