// Package cryptgen holds the input model shared by the Common Encryption checks C06 and C07: a clear,
// single-track fragmented file (AVC, HEVC or AAC) described down to its NAL units, together with key,
// IV and scheme. The file bytes are produced by fragbuild (never by the library); the NAL units come
// from nalgen's serialisers, so the position and length of every slice header is known from the value
// tree and not from the library's parsers. The library's structs avc.SPS etc. are used as plain
// containers (as in nalgen); no mp4ff function is called in this package.
package cryptgen

import (
	"encoding/binary"
	"fmt"

	"verif/internal/fragbuild"
	"verif/internal/harness"
)

// Nal is one NAL unit of a video sample: Data ++ PadByte x Pad ++ Tail (without the length field).
type Nal struct {
	Kind string           `json:"kind"` // slice | aud | sei | filler | sps | pps | vps | eos
	VCL  bool             `json:"vcl,omitempty"`
	Data harness.HexBytes `json:"data"`
	// Pad/PadByte/Tail describe long constant runs compactly (big filler or SEI payloads).
	Pad     int              `json:"pad,omitempty"`
	PadByte byte             `json:"padByte,omitempty"`
	Tail    harness.HexBytes `json:"tail,omitempty"`
	// Hdr (VCL only): number of NAL unit bytes occupied by the NAL header and the slice (segment)
	// header, emulation prevention bytes in front of the last header byte included (from nalgen).
	Hdr int `json:"hdr,omitempty"`
	// Esc (VCL only): the header bytes contain an emulation prevention byte.
	Esc bool `json:"esc,omitempty"`
}

// Len is the NAL unit length.
func (n *Nal) Len() int { return len(n.Data) + n.Pad + len(n.Tail) }

// Bytes returns the NAL unit.
func (n *Nal) Bytes() []byte {
	out := make([]byte, 0, n.Len())
	out = append(out, n.Data...)
	for i := 0; i < n.Pad; i++ {
		out = append(out, n.PadByte)
	}
	return append(out, n.Tail...)
}

// Sample is one sample: NAL units (video) or raw bytes (audio).
type Sample struct {
	Nals  []Nal            `json:"nals,omitempty"`
	Raw   harness.HexBytes `json:"raw,omitempty"`
	Dur   uint32           `json:"dur"`
	Cto   int32            `json:"cto,omitempty"`
	Flags uint32           `json:"flags"`
}

// Bytes returns the sample data: 4-byte length fields + NAL units, or the raw bytes.
func (s *Sample) Bytes() []byte {
	if len(s.Nals) == 0 {
		return append([]byte(nil), s.Raw...)
	}
	n := 0
	for i := range s.Nals {
		n += 4 + s.Nals[i].Len()
	}
	out := make([]byte, 0, n)
	for i := range s.Nals {
		out = binary.BigEndian.AppendUint32(out, uint32(s.Nals[i].Len()))
		out = append(out, s.Nals[i].Bytes()...)
	}
	return out
}

// NalSpan locates a NAL unit in its sample.
type NalSpan struct {
	LenOff int // offset of the 4-byte length field
	Off    int // offset of the NAL unit (= LenOff + 4)
	Len    int
	VCL    bool
	Hdr    int // see Nal.Hdr
	NalHdr int // NAL header size: 1 (AVC) or 2 (HEVC)
	Kind   string
}

// Extra is a box written verbatim (see fragbuild.ExtraBox).
type Extra struct {
	Type    string           `json:"type"`
	UUID    harness.HexBytes `json:"uuid,omitempty"`
	Payload harness.HexBytes `json:"payload,omitempty"`
	Label   string           `json:"label,omitempty"` // tfxd | tfrf | vendor | unknown | free | emsg | prft
}

func (e Extra) box() fragbuild.ExtraBox {
	return fragbuild.ExtraBox{Type: e.Type, UUID: e.UUID, Payload: e.Payload}
}

// FragSpec is one movie fragment: the next N samples in one traf with one trun.
type FragSpec struct {
	N         int                `json:"n"`
	Pre       []Extra            `json:"pre,omitempty"`    // before moof
	InMoof    []Extra            `json:"inMoof,omitempty"` // after mfhd
	InTraf    []Extra            `json:"inTraf,omitempty"` // after the trun
	Opts      fragbuild.FragOpts `json:"opts"`
	MdatLarge bool               `json:"mdatLarge,omitempty"`
}

// Case is a clear input plus the encryption parameters.
type Case struct {
	Codec     string                 `json:"codec"` // avc1 | avc3 | hvc1 | mp4a
	Stsd      harness.HexBytes       `json:"stsd"`  // complete stsd box
	TrackID   uint32                 `json:"trackID"`
	Timescale uint32                 `json:"timescale"`
	StartTime uint64                 `json:"startTime"`
	Trex      fragbuild.TrexDefaults `json:"trex"`
	Samples   []Sample               `json:"samples"`
	Frags     []FragSpec             `json:"frags"`
	Styp      bool                   `json:"styp,omitempty"` // every fragment is a segment of its own that starts with styp
	// Sidx: every segment starts (behind styp) with a sidx box of one reference; TopSidx: one sidx behind moov
	// with a reference per segment
	Sidx    bool `json:"sidx,omitempty"`
	TopSidx bool `json:"topSidx,omitempty"`
	// MoovExtra are appended to the children of moov (after mvex). Not combined with FragOpts.Base == 1
	// (absolute offsets are not adjusted).
	MoovExtra []Extra `json:"moovExtra,omitempty"`
	SeqStart  uint32  `json:"seqStart"`

	Scheme string           `json:"scheme"` // cenc | cbcs
	Key    harness.HexBytes `json:"key"`
	IV     harness.HexBytes `json:"iv"` // 8 or 16 bytes
	KID    harness.HexBytes `json:"kid"`
	Pssh   harness.HexBytes `json:"pssh,omitempty"` // complete pssh box(es) handed to InitProtect

	NoAvoid bool `json:"noAvoid,omitempty"` // reproducer of a known finding: the generator switches do not apply
	// RotateKeys (used by C07 only; set by the caller, never drawn by Gen): every fragment is encrypted with a key of
	// its own (KeyOf), handed to EncryptFragment with the same InitProtectData.
	RotateKeys bool `json:"rotateKeys,omitempty"`
}

// KeyOf is the key of the frag-th fragment (0-based): Key itself unless RotateKeys.
func (c *Case) KeyOf(frag int) []byte {
	if !c.RotateKeys || frag == 0 {
		return c.Key
	}
	k := append([]byte(nil), c.Key...)
	k[15] ^= byte(frag*37 + 1)
	k[0] ^= byte(frag)
	return k
}

// Video reports whether the track is a video track.
func (c *Case) Video() bool { return c.Codec != "mp4a" }

// MaxEntries is an upper bound of the sub-sample entries a sample of the case needs when every VCL NAL unit
// gets an entry of its own: one more for clear bytes behind the last VCL NAL unit and one per 65535 bytes of
// sample data (a 16-bit clear counter that overflows is continued in a further entry).
func (c *Case) MaxEntries() int {
	m := 0
	for i := range c.Samples {
		n, size, trailing := 0, 0, false
		for k := range c.Samples[i].Nals {
			nal := &c.Samples[i].Nals[k]
			size += 4 + nal.Len()
			trailing = !nal.VCL
			if nal.VCL {
				n++
			}
		}
		if trailing {
			n++
		}
		n += size / 65535
		if n > m {
			m = n
		}
	}
	return m
}

// SaizLimit reports that a sample of the case may need more sub-sample entries than the 8-bit
// sample_info_size of saiz can describe (ISO/IEC 14496-12 8.7.8: unsigned int(8)); 6 bytes per entry behind
// a 16-bit count and (cenc, as the library signals it) a 16-byte IV. For such a case a refusal by the
// encryptor is a correct outcome; an output, if there is one, is judged as always.
func (c *Case) SaizLimit() bool {
	iv := 0
	if c.Scheme == "cenc" {
		iv = 16
	}
	return c.Video() && iv+2+6*c.MaxEntries() > 255
}

// NalHdrLen is the NAL unit header size of the codec.
func (c *Case) NalHdrLen() int {
	if c.Codec == "hvc1" || c.Codec == "hev1" {
		return 2
	}
	return 1
}

// Spans returns the NAL layout of sample i (nil for audio).
func (c *Case) Spans(i int) []NalSpan {
	s := &c.Samples[i]
	var out []NalSpan
	pos := 0
	for k := range s.Nals {
		n := &s.Nals[k]
		out = append(out, NalSpan{LenOff: pos, Off: pos + 4, Len: n.Len(), VCL: n.VCL, Hdr: n.Hdr, NalHdr: c.NalHdrLen(), Kind: n.Kind})
		pos += 4 + n.Len()
	}
	return out
}

// IV16 is the IV as the 16-byte block the library is documented to use (8-byte IVs are followed by zeros).
func (c *Case) IV16() []byte {
	iv := make([]byte, 16)
	copy(iv, c.IV)
	return iv
}

// Built is the clear file and what is known about it.
type Built struct {
	Tracks []fragbuild.Track
	Layout fragbuild.FileLayout
	Init   []byte
	Segs   [][]byte
	File   []byte           // init ++ segments
	Truth  *fragbuild.Truth // nil when MoovExtra shifted the offsets
	Data   [][]byte         // sample data
	// FragOf[i] = fragment index of sample i; FirstOf[f] = first sample of fragment f
	FragOf  []int
	FirstOf []int
}

// Tracks builds the fragbuild model with the given stsd and sample data.
func (c *Case) tracks(stsd []byte, data [][]byte) []fragbuild.Track {
	tr := fragbuild.Track{ID: c.TrackID, Timescale: c.Timescale, StsdRaw: stsd, Trex: c.Trex, StartTime: c.StartTime}
	if c.Video() {
		tr.Handler, tr.Width, tr.Height = "vide", 320, 240
	} else {
		tr.Handler = "soun"
	}
	for i := range c.Samples {
		s := &c.Samples[i]
		tr.Samples = append(tr.Samples, fragbuild.Sample{Data: data[i], Dur: s.Dur, Cto: s.Cto, Flags: s.Flags})
	}
	return []fragbuild.Track{tr}
}

// layout builds the fragbuild layout; inTraf, when not nil, replaces the in-traf boxes per fragment.
func (c *Case) layout(inTraf func(f int, own []fragbuild.ExtraBox) []fragbuild.ExtraBox) fragbuild.FileLayout {
	lay := fragbuild.FileLayout{SeqStart: c.SeqStart, TopSidx: c.TopSidx}
	conv := func(xs []Extra) []fragbuild.ExtraBox {
		var out []fragbuild.ExtraBox
		for _, x := range xs {
			out = append(out, x.box())
		}
		return out
	}
	var cur *fragbuild.Segment
	for f := range c.Frags {
		fs := &c.Frags[f]
		fr := fragbuild.Frag{Runs: []fragbuild.Run{{Track: 0, N: fs.N}}, PreBoxes: conv(fs.Pre), InMoofBoxes: conv(fs.InMoof),
			InTrafBoxes: conv(fs.InTraf), MdatLarge: fs.MdatLarge, Opts: fs.Opts}
		if inTraf != nil {
			fr.InTrafBoxes = inTraf(f, fr.InTrafBoxes)
		}
		if c.Styp || cur == nil {
			lay.Segments = append(lay.Segments, fragbuild.Segment{Styp: c.Styp, Sidx: c.Sidx})
			cur = &lay.Segments[len(lay.Segments)-1]
		}
		cur.Frags = append(cur.Frags, fr)
	}
	return lay
}

// Validate checks the internal consistency of a case (replay files are hand-editable).
func (c *Case) Validate() error {
	n := 0
	for _, f := range c.Frags {
		if f.N < 1 {
			return fmt.Errorf("cryptgen: fragment without samples")
		}
		n += f.N
	}
	if n != len(c.Samples) || n == 0 {
		return fmt.Errorf("cryptgen: fragments place %d samples, the case has %d", n, len(c.Samples))
	}
	if len(c.Key) != 16 || (len(c.IV) != 8 && len(c.IV) != 16) || len(c.KID) != 16 {
		return fmt.Errorf("cryptgen: key/iv/kid length")
	}
	if c.Scheme != "cenc" && c.Scheme != "cbcs" {
		return fmt.Errorf("cryptgen: scheme %q", c.Scheme)
	}
	for i := range c.Samples {
		if c.Video() != (len(c.Samples[i].Nals) > 0) {
			return fmt.Errorf("cryptgen: sample %d does not fit the codec", i)
		}
	}
	return nil
}

// Build writes the clear file.
func (c *Case) Build() (*Built, error) {
	if err := c.Validate(); err != nil {
		return nil, err
	}
	data := make([][]byte, len(c.Samples))
	for i := range c.Samples {
		data[i] = c.Samples[i].Bytes()
	}
	return c.BuildWith(c.Stsd, data, nil)
}

// BuildWith writes a file with the layout of the case but another stsd / other sample data of the same
// sizes / other in-traf boxes (used to write encrypted files with the harness' own cipher).
func (c *Case) BuildWith(stsd []byte, data [][]byte, inTraf func(f int, own []fragbuild.ExtraBox) []fragbuild.ExtraBox) (*Built, error) {
	b := &Built{Data: data}
	b.Tracks = c.tracks(stsd, data)
	b.Layout = c.layout(inTraf)
	var err error
	b.Init, b.Segs, b.Truth, err = fragbuild.Build(b.Tracks, b.Layout)
	if err != nil {
		return nil, err
	}
	if len(c.MoovExtra) > 0 {
		for _, f := range c.Frags {
			if f.Opts.Base == 1 {
				return nil, fmt.Errorf("cryptgen: MoovExtra together with an explicit base_data_offset")
			}
		}
		// moov is the last box of the init segment: append the boxes and patch its size
		pos := 0
		for pos+8 <= len(b.Init) && string(b.Init[pos+4:pos+8]) != "moov" {
			pos += int(binary.BigEndian.Uint32(b.Init[pos:]))
		}
		if pos+8 > len(b.Init) || pos+int(binary.BigEndian.Uint32(b.Init[pos:])) != len(b.Init) {
			return nil, fmt.Errorf("cryptgen: moov is not the last box of the init segment")
		}
		init := append([]byte(nil), b.Init...)
		for _, x := range c.MoovExtra {
			body := append(append([]byte(nil), x.UUID...), x.Payload...)
			init = binary.BigEndian.AppendUint32(init, uint32(8+len(body)))
			init = append(init, (x.Type + "    ")[:4]...)
			init = append(init, body...)
		}
		binary.BigEndian.PutUint32(init[pos:], uint32(len(init)-pos))
		b.Init, b.Truth = init, nil // the offsets of Truth no longer apply
	}
	b.File = fragbuild.Concat(b.Init, b.Segs, nil)
	for f, fs := range c.Frags {
		b.FirstOf = append(b.FirstOf, len(b.FragOf))
		for k := 0; k < fs.N; k++ {
			b.FragOf = append(b.FragOf, f)
		}
	}
	return b, nil
}
