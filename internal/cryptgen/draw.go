package cryptgen

import "pgregory.net/rapid"

// Draw helpers. rapid's integer generators are biased towards small values, so probabilities are made
// from fair coin flips (rapid.Bool draws one bit).

// pct is true with probability p/100.
func pct(t *rapid.T, p int, label string) bool {
	f := uint32(p) * 65536 / 100
	for i := 15; i >= 0; i-- {
		pb := f>>uint(i)&1 == 1
		if rapid.Bool().Draw(t, label) != pb {
			return pb
		}
	}
	return false
}

// uni draws nearly uniformly from 0..n-1.
func uni(t *rapid.T, n int, label string) int {
	if n <= 1 {
		return 0
	}
	v := 0
	for k := 1; k < 4*n; k <<= 1 {
		v <<= 1
		if rapid.Bool().Draw(t, label) {
			v |= 1
		}
	}
	return v % n
}

// pick draws uniformly from the values.
func pick[T any](t *rapid.T, label string, vals ...T) T { return vals[uni(t, len(vals), label)] }

// bitsVal draws an n-bit pattern: zero, all ones, a single bit, or random (zero heavy: long zero runs in a
// slice header are what makes emulation prevention bytes appear inside it).
func bitsVal(t *rapid.T, n int, label string) uint64 {
	if n <= 0 {
		return 0
	}
	mask := uint64(1)<<uint(n) - 1
	switch uni(t, 6, label+"?") {
	case 0, 1:
		return 0
	case 2:
		return mask
	case 3:
		return uint64(1) << uint(uni(t, n, label+"b"))
	default:
		return rapid.Uint64().Draw(t, label) & mask
	}
}

// small draws from lo..hi with a preference for lo.
func small(t *rapid.T, lo, hi int, label string) int {
	if hi <= lo {
		return lo
	}
	return rapid.IntRange(lo, hi).Draw(t, label)
}

// fill returns n deterministic pseudo-random bytes for a seed (xorshift64*); a pure function of the case.
func fill(seed uint64, n int) []byte {
	x := seed*0x9e3779b97f4a7c15 + 0x1234567
	if x == 0 {
		x = 1
	}
	out := make([]byte, n)
	for i := range out {
		x ^= x >> 12
		x ^= x << 25
		x ^= x >> 27
		out[i] = byte((x * 0x2545f4914f6cdd1d) >> 56)
	}
	return out
}
