package cryptgen

import (
	"fmt"
	"sync"

	"pgregory.net/rapid"

	"verif/internal/boxwalk"
	"verif/internal/fragbuild"
	"verif/internal/harness"
)

// GenOpt steers the generator. Avoid names features that are not generated because a confirmed library
// defect sits behind them (the property packages own the list); every avoided draw is counted with
// harness.Rec.Exclude(name).
type GenOpt struct {
	Avoid map[string]bool
	// Codecs restricts the codec choice (default: all).
	Codecs []string
}

func (o GenOpt) avoid(name string) bool {
	if o.Avoid[name] {
		harness.Rec.Exclude(name)
		return true
	}
	return false
}

// Feature names that can be avoided.
const (
	FeatExplicitBase   = "explicit-base-data-offset" // tfhd with base_data_offset (absolute moof position)
	FeatPrftBeforeMoof = "prft-before-moof"
	FeatUUIDInTraf     = "uuid-in-traf" // tfxd / tfrf / vendor uuid boxes as children of traf
	FeatSidx           = "sidx"         // sidx boxes (one per segment, or one behind moov)
)

var (
	aacOnce sync.Once
	aacStsd []byte
	aacErr  error
)

// AacStsd returns a real mp4a stsd harvested from the repository's test data.
func AacStsd() ([]byte, error) {
	aacOnce.Do(func() { _, aacStsd, aacErr = fragbuild.HarvestStsd(harness.E.RepoDir) })
	if aacStsd == nil {
		return nil, fmt.Errorf("cryptgen: no mp4a stsd: %v", aacErr)
	}
	return aacStsd, nil
}

var nalSizeEdges = []int{107, 108, 109, 111, 112, 113, 123, 124, 127, 128, 129}

// nalSize draws a NAL unit size, boundary heavy.
func nalSize(t *rapid.T, l string) int {
	switch uni(t, 10, l+"class") {
	case 0:
		return rapid.IntRange(1, 15).Draw(t, l+"tiny")
	case 1, 2:
		return rapid.IntRange(16, 106).Draw(t, l+"short")
	case 3, 4:
		return nalSizeEdges[uni(t, len(nalSizeEdges), l+"edge")]
	case 5:
		return 127 + uni(t, 3, l+"edge127")
	case 6, 7, 8:
		return 130 + uni(t, 800, l+"mid")
	default:
		if pct(t, 30, l+"large?") {
			return 1000 + uni(t, 3000, l+"large")
		}
		return 130 + uni(t, 400, l+"mid2")
	}
}

func audioSize(t *rapid.T) int {
	switch uni(t, 8, "aclass") {
	case 0:
		return rapid.IntRange(0, 15).Draw(t, "atiny")
	case 1:
		return 16 * rapid.IntRange(1, 40).Draw(t, "amul16")
	case 2:
		return pick(t, "aedge", 15, 16, 17, 31, 32, 33, 160, 161, 175, 176)
	default:
		return uni(t, 2001, "asize")
	}
}

type videoCtx interface {
	slice(t *rapid.T, target int, key bool, seed uint64) Nal
	nonVCL(kind string, size int, which int) Nal
}

func genExtra(t *rapid.T, kinds []string, trackID uint32, l string) Extra {
	k := kinds[uni(t, len(kinds), l+"kind")]
	data := rapid.SliceOfN(rapid.Byte(), 0, 12).Draw(t, l+"data")
	b32 := func(v uint32) []byte { return be32(nil, v) }
	b64 := func(v uint64) []byte { return append(be32(nil, uint32(v>>32)), be32(nil, uint32(v))...) }
	cat := func(parts ...[]byte) []byte {
		var out []byte
		for _, p := range parts {
			out = append(out, p...)
		}
		return out
	}
	switch k {
	case "tfxd":
		u := []byte{0x6d, 0x1d, 0x9b, 0x05, 0x42, 0xd5, 0x44, 0xe6, 0x80, 0xe2, 0x14, 0x1d, 0xaf, 0xf7, 0x57, 0xb2}
		if rapid.Bool().Draw(t, l+"v1") {
			return Extra{Type: "uuid", UUID: u, Label: k, Payload: cat([]byte{1, 0, 0, 0}, b64(1<<33+7), b64(90000))}
		}
		return Extra{Type: "uuid", UUID: u, Label: k, Payload: cat([]byte{0, 0, 0, 0}, b32(123456), b32(3000))}
	case "tfrf":
		u := []byte{0xd4, 0x80, 0x7e, 0xf2, 0xca, 0x39, 0x46, 0x95, 0x8e, 0x54, 0x26, 0xcb, 0x9e, 0x46, 0xa7, 0x9f}
		n := 1 + uni(t, 2, l+"n")
		if rapid.Bool().Draw(t, l+"v1") {
			p := []byte{1, 0, 0, 0, byte(n)}
			for i := 0; i < n; i++ {
				p = cat(p, b64(uint64(1<<33+i)), b64(180000))
			}
			return Extra{Type: "uuid", UUID: u, Label: k, Payload: p}
		}
		p := []byte{0, 0, 0, 0, byte(n)}
		for i := 0; i < n; i++ {
			p = cat(p, b32(uint32(1000*i)), b32(2000))
		}
		return Extra{Type: "uuid", UUID: u, Label: k, Payload: p}
	case "vendor":
		u := make([]byte, 16)
		for i := range u {
			u[i] = byte(0xf0 + i)
		}
		return Extra{Type: "uuid", UUID: u, Label: k, Payload: data}
	case "unknown":
		return Extra{Type: pick(t, l+"4cc", "abcd", "zzzz", "xyz1"), Label: k, Payload: data}
	case "free":
		return Extra{Type: "free", Label: k, Payload: data}
	case "udta":
		return Extra{Type: "udta", Label: k, Payload: boxwalk.Make("vndr", data)}
	case "emsg0":
		return Extra{Type: "emsg", Label: "emsg", Payload: cat([]byte{0, 0, 0, 0}, []byte("urn:verif\x00"), []byte("v\x00"),
			b32(1000), b32(5), b32(7), b32(42), data)}
	case "emsg1":
		return Extra{Type: "emsg", Label: "emsg", Payload: cat([]byte{1, 0, 0, 0}, b32(1000), b64(1<<33), b32(7), b32(43),
			[]byte("urn:verif\x00"), []byte("\x00"), data)}
	case "prft0":
		return Extra{Type: "prft", Label: "prft", Payload: cat([]byte{0, 0, 0, 0}, b32(trackID), b64(0xe000000000000000), b32(1234))}
	default: // prft1
		return Extra{Type: "prft", Label: "prft", Payload: cat([]byte{1, 0, 0, 0}, b32(trackID), b64(0xe000000000000000), b64(1<<33))}
	}
}

func genExtras(t *rapid.T, kinds []string, trackID uint32, l string) []Extra {
	n := pick(t, l+"n", 0, 0, 0, 1, 1, 2)
	var out []Extra
	for i := 0; i < n; i++ {
		out = append(out, genExtra(t, kinds, trackID, l))
	}
	return out
}

// dropAvoided removes the boxes of an avoided feature (counting each).
func dropAvoided(o GenOpt, feat string, xs []Extra, is func(Extra) bool) []Extra {
	if !o.Avoid[feat] {
		return xs
	}
	var out []Extra
	for _, x := range xs {
		if is(x) {
			harness.Rec.Exclude(feat)
			continue
		}
		out = append(out, x)
	}
	return out
}

func genIV(t *rapid.T) []byte {
	r8 := func(l string) []byte { return rapid.SliceOfN(rapid.Byte(), 8, 8).Draw(t, l) }
	ff := func(n int) []byte {
		b := make([]byte, n)
		for i := range b {
			b[i] = 0xff
		}
		return b
	}
	switch uni(t, 11, "ivkind") {
	case 8: // leading zero bytes: 8-byte counter values as a packager that starts at 0 or 1 produces them
		b := make([]byte, 8)
		b[7] = byte(uni(t, 4, "ivsmall"))
		return b
	case 9:
		b := make([]byte, 16)
		b[15] = byte(uni(t, 4, "ivsmall"))
		return b
	case 10: // a few zero bytes in front
		b := r8("iv8")
		for i := 0; i < 1+uni(t, 6, "ivzeros"); i++ {
			b[i] = 0
		}
		return b
	case 0, 1:
		return r8("iv8")
	case 2:
		return ff(8)
	case 3, 4:
		return append(r8("ivhi"), r8("ivlo")...)
	case 5:
		return ff(16)
	case 6:
		return append(r8("ivhi"), ff(8)...)
	default:
		// low 64 bits a few blocks before the wrap
		lo := ff(8)
		lo[7] = byte(0xff - uni(t, 40, "ivback"))
		hi := r8("ivhi")
		if rapid.Bool().Draw(t, "ivhiff") {
			hi = ff(8)
		}
		return append(hi, lo...)
	}
}

// Gen draws a clear input with encryption parameters.
func Gen(t *rapid.T, o GenOpt) Case {
	codecs := o.Codecs
	if len(codecs) == 0 {
		codecs = []string{"avc1", "avc1", "avc3", "hvc1", "hvc1", "hev1", "mp4a", "mp4a"}
	}
	c := Case{Codec: codecs[uni(t, len(codecs), "codec")]}
	c.Scheme = pick(t, "scheme", "cenc", "cbcs")
	c.Key = rapid.SliceOfN(rapid.Byte(), 16, 16).Draw(t, "key")
	c.KID = rapid.SliceOfN(rapid.Byte(), 16, 16).Draw(t, "kid")
	c.IV = genIV(t)
	c.TrackID = pick(t, "trackID", uint32(1), 1, 2, 7, 100, 65537)
	c.Timescale = pick(t, "timescale", uint32(1000), 12800, 48000, 90000)
	c.StartTime = pick(t, "start", uint64(0), 0, 1, 1000, 0xfffffff0, 1<<32+12345)
	c.SeqStart = pick(t, "seq", uint32(0), 1, 1, 100)
	c.Styp = pct(t, 30, "styp")
	if pct(t, 15, "sidx") {
		c.Sidx = true
	} else if pct(t, 8, "topSidx") {
		c.TopSidx = true
	}
	if o.avoid(FeatSidx) {
		c.Sidx, c.TopSidx = false, false
	}
	if pct(t, 50, "pssh") {
		sys := []byte{0xed, 0xef, 0x8b, 0xa9, 0x79, 0xd6, 0x4a, 0xce, 0xa3, 0xc8, 0x27, 0xdc, 0xd5, 0x1d, 0x21, 0xed}
		data := rapid.SliceOfN(rapid.Byte(), 0, 20).Draw(t, "psshdata")
		var kids [][]byte
		if rapid.Bool().Draw(t, "psshv1") {
			kids = [][]byte{c.KID}
		}
		c.Pssh = PsshBox(sys, kids, data)
		if pct(t, 25, "pssh2") {
			sys2 := append([]byte(nil), sys...)
			sys2[0] = 0x10
			c.Pssh = append(c.Pssh, PsshBox(sys2, nil, []byte{1, 2, 3})...)
		}
	}

	// further children of the visual sample entry behind the decoder configuration
	var entryExtra [][]byte
	if c.Video() {
		for i, n := 0, pick(t, "nEntryExtra", 0, 0, 1, 2); i < n; i++ {
			switch uni(t, 3, "entryExtra") {
			case 0:
				entryExtra = append(entryExtra, boxwalk.Make("btrt", []byte{0, 0, 0x10, 0, 0, 0x0f, 0x42, 0x40, 0, 0x07, 0xa1, 0x20}))
			case 1:
				entryExtra = append(entryExtra, boxwalk.Make("pasp", []byte{0, 0, 0, 1, 0, 0, 0, 1}))
			default:
				entryExtra = append(entryExtra, boxwalk.Make("vndr", rapid.SliceOfN(rapid.Byte(), 0, 8).Draw(t, "vndr")))
			}
		}
	}
	var vc videoCtx
	switch c.Codec {
	case "avc1", "avc3":
		a := genAVCSets(t)
		c.Stsd = a.stsd(c.Codec, entryExtra...)
		vc = a
	case "hvc1", "hev1":
		h := genHEVCSets(t)
		c.Stsd = h.stsd(c.Codec, rapid.Bool().Draw(t, "complete"), entryExtra...)
		vc = h
	default:
		s, err := AacStsd()
		if err != nil {
			t.Fatalf("%v", err)
		}
		c.Stsd = s
	}

	// fragments
	nFrags := pick(t, "nfrags", 1, 1, 2, 2, 3, 4)
	extraKinds := []string{"tfxd", "tfrf", "vendor", "unknown", "free"}
	preKinds := []string{"emsg0", "emsg1", "prft0", "prft1"}
	total := 0
	for f := 0; f < nFrags; f++ {
		fs := FragSpec{N: pick(t, "nsamples", 1, 1, 2, 2, 3, 4, 5, 8)}
		total += fs.N
		op := &fs.Opts
		op.TfhdDefaults = rapid.Bool().Draw(t, "tfhdDefaults")
		op.UseTrex = rapid.Bool().Draw(t, "useTrex")
		op.FirstSampleFlags = rapid.Bool().Draw(t, "firstSampleFlags")
		op.Base = pick(t, "base", 0, 0, 0, 2, 1)
		if op.Base == 1 && o.avoid(FeatExplicitBase) {
			op.Base = 0
		}
		op.TrunVersion = uni(t, 2, "trunVersion")
		op.TfdtVersion = uni(t, 2, "tfdtVersion")
		op.ForceAllPerSample = pct(t, 15, "forceAll")
		op.TfhdDescIdx = pct(t, 25, "descIdx")
		fs.MdatLarge = pct(t, 15, "mdatLarge")
		fs.Pre = dropAvoided(o, FeatPrftBeforeMoof, genExtras(t, preKinds, c.TrackID, "pre-"), func(x Extra) bool { return x.Type == "prft" })
		fs.InMoof = genExtras(t, extraKinds, c.TrackID, "inmoof-")
		fs.InTraf = dropAvoided(o, FeatUUIDInTraf, genExtras(t, extraKinds, c.TrackID, "intraf-"), func(x Extra) bool { return x.Type == "uuid" })
		if pct(t, 12, "rollGroup") {
			// a sample-group pair that is not protection signalling (audio pre-roll / video recovery point):
			// sbgp 'roll' mapping all samples of the fragment to entry 1 of a fragment-local sgpd 'roll'
			be := func(v uint32) []byte { return []byte{byte(v >> 24), byte(v >> 16), byte(v >> 8), byte(v)} }
			sgpd := append(append([]byte{1, 0, 0, 0}, []byte("roll")...), append(append(be(2), be(1)...), 0xff, 0xfe)...)
			sbgp := append(append([]byte{0, 0, 0, 0}, []byte("roll")...), append(append(be(1), be(uint32(fs.N))...), be(0x10001)...)...)
			fs.InTraf = append(fs.InTraf, Extra{Type: "sgpd", Payload: sgpd, Label: "rollgroup"}, Extra{Type: "sbgp", Payload: sbgp, Label: "rollgroup"})
		}
		c.Frags = append(c.Frags, fs)
	}

	// vendor boxes at the end of moov
	base1 := false
	for _, f := range c.Frags {
		base1 = base1 || f.Opts.Base == 1
	}
	if !base1 {
		c.MoovExtra = genExtras(t, []string{"vendor", "unknown", "free", "udta"}, c.TrackID, "moov-")
	}
	if len(c.MoovExtra) > 0 {
		c.TopSidx = false // Build appends MoovExtra to a moov that ends the init segment
	}

	// samples
	baseDur := pick(t, "baseDur", uint32(1), 512, 1024, 3000, 3003)
	durMode := uni(t, 3, "durMode")
	sizeSame := !c.Video() && pct(t, 25, "sizeSame")
	ctoMode := uni(t, 4, "ctoMode")
	flagMode := uni(t, 3, "flagMode")
	sameSize := audioSize(t)
	bigAt := -1
	if c.Video() && pct(t, 4, "big") {
		bigAt = uni(t, total, "bigAt")
	}
	// one sample with so many slices that its sub-sample table reaches the limit of saiz' 8-bit size
	// (16+2+6n > 255 from n = 40 with 16-byte IVs, 8+2+6n from n = 41, 2+6n from n = 43)
	manyAt, manyN := -1, 0
	if c.Video() && pct(t, 3, "manySlices") {
		manyAt = uni(t, total, "manyAt")
		manyN = pick(t, "manyN", 36, 38, 39, 40, 41, 42, 43, 44, 48)
	}
	fragStart := map[int]bool{}
	{
		k := 0
		for _, f := range c.Frags {
			fragStart[k] = true
			k += f.N
		}
	}
	for i := 0; i < total; i++ {
		var s Sample
		s.Dur = baseDur
		if durMode == 1 && pct(t, 25, "durOdd") || durMode == 2 {
			s.Dur = pick(t, "dur", uint32(0), 1, 512, 1024, 3000, 90000)
		}
		key := fragStart[i] && pct(t, 70, "keyframe")
		switch flagMode {
		case 0:
			s.Flags = fragbuild.FlagsSync
		case 1:
			s.Flags = fragbuild.FlagsNonSync
			if key {
				s.Flags = fragbuild.FlagsSync
			}
		default:
			s.Flags = pick(t, "flags", uint32(fragbuild.FlagsSync), fragbuild.FlagsNonSync, fragbuild.FlagsNonSync|0x1234, 0x00a50000, 0)
		}
		switch ctoMode {
		case 1:
			s.Cto = int32(baseDur)
		case 2:
			s.Cto = int32(uni(t, 4, "cto")) * int32(baseDur)
		case 3:
			s.Cto = int32(pick(t, "ctoneg", -2, -1, 0, 1, 3)) * int32(baseDur)
		}
		if !c.Video() {
			n := sameSize
			if !sizeSame {
				n = audioSize(t)
			}
			s.Raw = fill(rapid.Uint64().Draw(t, "aseed"), n)
			c.Samples = append(c.Samples, s)
			continue
		}
		hev := c.Codec == "hvc1" || c.Codec == "hev1"
		// leading non-VCL NAL units
		if pct(t, 40, "aud") {
			s.Nals = append(s.Nals, vc.nonVCL("aud", 0, uni(t, 3, "audtype")))
		}
		if key && pct(t, 35, "inbandps") {
			if hev {
				s.Nals = append(s.Nals, vc.nonVCL("vps", 0, 0))
			}
			s.Nals = append(s.Nals, vc.nonVCL("sps", 0, 0), vc.nonVCL("pps", 0, uni(t, 2, "ppswhich")))
		}
		if pct(t, 40, "sei") {
			s.Nals = append(s.Nals, vc.nonVCL("sei", nalSize(t, "sei-"), 0))
		}
		if pct(t, 15, "filler") {
			s.Nals = append(s.Nals, vc.nonVCL("filler", nalSize(t, "fil-"), 0))
		}
		bigIdx := -1
		if i == bigAt {
			bigIdx = len(s.Nals)
			kind := pick(t, "bigkind", "sei", "filler")
			s.Nals = append(s.Nals, vc.nonVCL(kind, 65536+uni(t, 3000, "bigsize"), 0))
			if pct(t, 25, "big2") { // more than two 65535-byte entries
				s.Nals = append(s.Nals, vc.nonVCL("filler", 66000+uni(t, 70000, "bigsize2"), 0))
			}
		}
		nSlices := pick(t, "nslices", 1, 1, 1, 2, 2, 3)
		if i == manyAt {
			nSlices = manyN
		}
		firstSlice := len(s.Nals)
		for k := 0; k < nSlices; k++ {
			size := nalSize(t, "slice-")
			if i == manyAt && (size < 130 || size > 400) {
				size = 130 + size%200 // every slice long enough to need an entry of its own
			}
			s.Nals = append(s.Nals, vc.slice(t, size, key, rapid.Uint64().Draw(t, "sliceseed")))
			if k+1 < nSlices && pct(t, 10, "mid") {
				s.Nals = append(s.Nals, vc.nonVCL("filler", nalSize(t, "midfil-"), 0)) // non-VCL between slices
			}
		}
		if pct(t, 20, "trail") {
			kind := pick(t, "trailkind", "filler", "eos", "seisuffix")
			if !hev && kind == "seisuffix" {
				kind = "sei"
			}
			s.Nals = append(s.Nals, vc.nonVCL(kind, nalSize(t, "trail-"), 0))
		}
		if bigIdx >= 0 && pct(t, 60, "bigexact") {
			// steer the clear run in front of the first protected byte onto the 65535/65536 boundary of the
			// 16-bit clear counter (assuming the usual 96..111 clear bytes at the start of a long slice; this
			// only steers sizes, no oracle depends on it)
			run := 0
			for k := 0; k < firstSlice; k++ {
				run += 4 + s.Nals[k].Len()
			}
			sl := &s.Nals[firstSlice]
			lead := 96 + (sl.Len()+4-96)&15
			if c.Scheme == "cbcs" {
				lead = 4 + sl.Hdr
			}
			want := pick(t, "bigtarget", 65535, 65536, 65537, 65534, 131070, 131071)
			d := want - (run + lead)
			b := &s.Nals[bigIdx]
			if b.Pad+d > 300 {
				b.Pad += d
				if b.Kind == "sei" {
					// keep the SEI payload size field consistent: rebuild with the new total size
					*b = vc.nonVCL("sei", b.Len(), 0)
				}
			}
		}
		c.Samples = append(c.Samples, s)
	}
	// trex defaults
	c.Trex = fragbuild.TrexDefaults{DescIdx: 1}
	if rapid.Bool().Draw(t, "trexDur") {
		c.Trex.Dur = baseDur
	}
	if rapid.Bool().Draw(t, "trexSize") {
		c.Trex.Size = uint32(sameSize)
	}
	c.Trex.Flags = pick(t, "trexFlags", uint32(0), fragbuild.FlagsSync, fragbuild.FlagsNonSync)
	return c
}

// Classes returns the evidence labels of a case.
func Classes(c *Case) []string {
	ivl := len(c.IV)
	cl := []string{fmt.Sprintf("%s/%s/iv%d", c.Codec, c.Scheme, ivl)}
	add := func(cond bool, s string) {
		if cond {
			cl = append(cl, s)
		}
	}
	add(len(c.Frags) >= 2, ">=2 fragments")
	add(c.MaxEntries() >= 30, ">=30 sub-sample entries in a sample")
	add(c.SaizLimit(), "sub-sample table beyond the saiz size limit")
	add(c.Styp, "styp-segments")
	add(c.Sidx, "sidx-per-segment")
	add(c.TopSidx, "sidx-behind-moov")
	add(len(c.Pssh) > 0, "pssh-given")
	add(len(c.MoovExtra) > 0, "extra-box-in-moov")
	if e := c.Stsd; len(e) > 24 && c.Video() {
		n := 0
		for p := 16 + 86; p+8 <= len(e); p += int(uint32(e[p])<<24 | uint32(e[p+1])<<16 | uint32(e[p+2])<<8 | uint32(e[p+3])) {
			n++
			if e[p] == 0 && e[p+1] == 0 && e[p+2] == 0 && e[p+3] == 0 {
				break
			}
		}
		add(n > 1, "extra-box-in-sample-entry")
	}
	var inTraf, inMoof, pre, uuidTraf, big, thr, esc, mdl, base1, base2 bool
	for _, f := range c.Frags {
		inTraf = inTraf || len(f.InTraf) > 0
		inMoof = inMoof || len(f.InMoof) > 0
		pre = pre || len(f.Pre) > 0
		mdl = mdl || f.MdatLarge
		base1 = base1 || f.Opts.Base == 1
		base2 = base2 || f.Opts.Base == 2
		for _, x := range f.InTraf {
			uuidTraf = uuidTraf || x.Type == "uuid"
		}
	}
	add(inTraf, "extra-box-in-traf")
	add(uuidTraf, "uuid-box-in-traf")
	add(inMoof, "extra-box-in-moof")
	add(pre, "box-before-moof")
	add(mdl, "mdat-largesize")
	add(base1, "tfhd-base-data-offset")
	add(base2, "tfhd-no-base-flag")
	multi := false
	for i := range c.Samples {
		s := &c.Samples[i]
		run, nv := 0, 0
		for k := range s.Nals {
			n := &s.Nals[k]
			if !n.VCL {
				run += 4 + n.Len()
				continue
			}
			nv++
			// clear bytes of this NAL unit in front of its protected part (cenc: as the usual 96..111 byte
			// lead; labelling only, the oracles do not use this)
			lead := 4 + n.Hdr
			if c.Scheme == "cenc" {
				lead = 4 + n.Len()
				if n.Len()+4 >= 112 {
					lead = 96 + (n.Len()+4-96)&15
				}
			}
			if lead < 4+n.Len() {
				big = big || run+lead > 65535
				run = 0
			} else {
				run += 4 + n.Len()
			}
			for _, e := range nalSizeEdges {
				thr = thr || n.Len() == e
			}
			esc = esc || n.Esc
		}
		multi = multi || nv > 1
	}
	add(big, "clear-run>65535")
	add(thr, "nal-at-threshold")
	add(esc, "slice-header-with-escape")
	add(multi, "several-slices-in-sample")
	if c.Scheme == "cenc" && ivl == 16 {
		// the low 64 bits of the counter certainly overflow inside a fragment: lower bound of the cipher blocks
		// used (audio: whole sample; video: a NAL unit longer than 127 bytes is protected from byte 127 at the latest)
		lo := uint64(0)
		for _, b := range c.IV[8:] {
			lo = lo<<8 | uint64(b)
		}
		i, wrap := 0, false
		for _, f := range c.Frags {
			blocks := uint64(0)
			for k := 0; k < f.N; k, i = k+1, i+1 {
				s := &c.Samples[i]
				blocks += uint64(len(s.Raw)+15) / 16
				for n := range s.Nals {
					if s.Nals[n].VCL && s.Nals[n].Len() > 127 {
						blocks += uint64(s.Nals[n].Len()-127) / 16
					}
				}
			}
			wrap = wrap || (blocks >= 2 && ^lo < blocks-1)
		}
		add(wrap, "iv-counter-wrap")
	}
	return cl
}

// ExpectProtected predicts from the model whether some sample gets protected bytes under the property:
// a video NAL unit longer than 127 bytes, or an audio sample with at least one byte (cenc) / one block (cbcs).
func ExpectProtected(c *Case) bool {
	for i := range c.Samples {
		s := &c.Samples[i]
		for k := range s.Nals {
			if s.Nals[k].VCL && s.Nals[k].Len() > 127 {
				return true
			}
		}
		if !c.Video() && (len(s.Raw) >= 16 || (c.Scheme == "cenc" && len(s.Raw) > 0)) {
			return true
		}
	}
	return false
}
