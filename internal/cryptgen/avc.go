package cryptgen

import (
	"github.com/Eyevinn/mp4ff/avc"
	"pgregory.net/rapid"

	"verif/internal/nalgen"
)

// AVC side of the generator: parameter sets and slice NAL units with valid headers, serialised by nalgen.

type avcCtx struct {
	sps            []nalgen.AVCSPSTree
	pps            []nalgen.AVCPPSTree // every PPS refers to sps[0]
	spsNal, ppsNal [][]byte
}

func chromaArrayTypeAVC(s *avc.SPS) byte {
	if !nalgen.AVCHighProfileFields(s.Profile) {
		return 1
	}
	if s.SeparateColourPlaneFlag {
		return 0
	}
	return s.ChromaFormatIDC
}

func genAVCSPS(t *rapid.T, id uint32, l string) nalgen.AVCSPSTree {
	var tr nalgen.AVCSPSTree
	s := &tr.S
	tr.NalRefIdc = 3
	s.Profile = pick(t, l+"profile", uint32(66), 77, 100, 100)
	s.Level = 30
	s.ParameterID = id
	if nalgen.AVCHighProfileFields(s.Profile) {
		s.ChromaFormatIDC = 1
		if pct(t, 15, l+"444") {
			s.ChromaFormatIDC = 3
			s.SeparateColourPlaneFlag = rapid.Bool().Draw(t, l+"sepplane")
		}
	}
	s.Log2MaxFrameNumMinus4 = pick(t, l+"l2fn", uint(0), 4, 12)
	s.PicOrderCntType = pick(t, l+"poctype", uint(0), 0, 1, 2)
	switch s.PicOrderCntType {
	case 0:
		s.Log2MaxPicOrderCntLsbMinus4 = pick(t, l+"l2poc", uint(0), 4, 12)
	case 1:
		s.DeltaPicOrderAlwaysZeroFlag = rapid.Bool().Draw(t, l+"dpoaz")
	}
	s.NumRefFrames = uint(small(t, 1, 4, l+"numref"))
	s.FrameMbsOnlyFlag = !pct(t, 25, l+"fields")
	tr.PicWidthInMbsMinus1 = 19
	tr.PicHeightInMapUnitsMinus1 = 14
	if !s.FrameMbsOnlyFlag {
		tr.PicHeightInMapUnitsMinus1 = 7
		s.MbAdaptiveFrameFieldFlag = rapid.Bool().Draw(t, l+"mbaff")
	}
	s.Direct8x8InferenceFlag = true
	return tr
}

func genAVCSets(t *rapid.T) *avcCtx {
	c := &avcCtx{}
	spsID := pick(t, "spsid", uint32(0), 0, 1, 5, 31)
	c.sps = append(c.sps, genAVCSPS(t, spsID, "sps-"))
	nPPS := 1
	if pct(t, 30, "twopps") {
		nPPS = 2
	}
	used := map[uint32]bool{}
	for i := 0; i < nPPS; i++ {
		var tr nalgen.AVCPPSTree
		p := &tr.P
		tr.NalRefIdc = 3
		p.PicParameterSetID = pick(t, "ppsid", uint32(0), 0, 1, 2, 7, 31, 255)
		for used[p.PicParameterSetID] {
			p.PicParameterSetID = (p.PicParameterSetID + 1) % 256
		}
		used[p.PicParameterSetID] = true
		p.SeqParameterSetID = spsID
		p.EntropyCodingModeFlag = rapid.Bool().Draw(t, "cabac")
		p.BottomFieldPicOrderInFramePresentFlag = rapid.Bool().Draw(t, "bfpoc")
		p.NumRefIdxI0DefaultActiveMinus1 = uint(small(t, 0, 2, "nri0"))
		p.NumRefIdxI1DefaultActiveMinus1 = uint(small(t, 0, 2, "nri1"))
		p.WeightedPredFlag = pct(t, 25, "wp")
		p.WeightedBipredIDC = uint(uni(t, 3, "wbp"))
		p.DeblockingFilterControlPresentFlag = rapid.Bool().Draw(t, "dbf")
		p.ConstrainedIntraPredFlag = rapid.Bool().Draw(t, "cip")
		p.RedundantPicCntPresentFlag = pct(t, 25, "rpc")
		if c.sps[0].S.Profile == 100 && rapid.Bool().Draw(t, "tail") {
			tr.TailPresent = true
			p.Transform8x8ModeFlag = rapid.Bool().Draw(t, "t8x8")
		}
		c.pps = append(c.pps, tr)
	}
	// decoy: a second SPS whose id equals the id of a PPS (and differs from the real SPS id) and whose
	// frame_num / POC field widths differ: a parser that looks the SPS up with the PPS id misreads the header
	if pid := c.pps[0].P.PicParameterSetID; pid != spsID && pid <= 31 && pct(t, 60, "decoy") {
		d := genAVCSPS(t, pid, "decoy-")
		d.S.Log2MaxFrameNumMinus4 = (c.sps[0].S.Log2MaxFrameNumMinus4 + 5) % 13
		c.sps = append(c.sps, d)
	}
	for i := range c.sps {
		n, _ := nalgen.SerializeAVCSPS(&c.sps[i])
		c.spsNal = append(c.spsNal, n)
	}
	for i := range c.pps {
		n, _ := nalgen.SerializeAVCPPS(&c.pps[i], c.sps[0].S.ChromaFormatIDC)
		c.ppsNal = append(c.ppsNal, n)
	}
	return c
}

func (c *avcCtx) stsd(typ string, extra ...[]byte) []byte {
	s := &c.sps[0].S
	conf := AvcC(byte(s.Profile), byte(s.ProfileCompatibility), byte(s.Level), c.spsNal, c.ppsNal,
		s.ChromaFormatIDC, byte(s.BitDepthLumaMinus8), byte(s.BitDepthChromaMinus8))
	return VideoStsd(typ, conf, extra...)
}

func genAVCPredWeights(t *rapid.T, n uint32, chroma bool, l string) []nalgen.PredWeight {
	out := make([]nalgen.PredWeight, n+1)
	for i := range out {
		e := &out[i]
		e.LumaFlag = rapid.Bool().Draw(t, l+"lf")
		if e.LumaFlag {
			e.LumaWeight = int32(rapid.IntRange(-128, 127).Draw(t, l+"lw"))
			e.LumaOffset = int32(rapid.IntRange(-128, 127).Draw(t, l+"lo"))
		}
		if chroma {
			e.ChromaFlag = rapid.Bool().Draw(t, l+"cf")
			if e.ChromaFlag {
				for j := 0; j < 2; j++ {
					e.ChromaWeight[j] = int32(rapid.IntRange(-128, 127).Draw(t, l+"cw"))
					e.ChromaOffset[j] = int32(rapid.IntRange(-128, 127).Draw(t, l+"co"))
				}
			}
		}
	}
	return out
}

func genAVCMods(t *rapid.T, maxPicNum uint64, l string) []nalgen.RefPicListMod {
	n := small(t, 1, 3, l+"n")
	var out []nalgen.RefPicListMod
	for i := 0; i < n; i++ {
		idc := uint32(uni(t, 3, l+"idc"))
		v := uint32(small(t, 0, 31, l+"v"))
		if idc != 2 && uint64(v) >= maxPicNum {
			v = uint32(maxPicNum - 1)
		}
		out = append(out, nalgen.RefPicListMod{IDC: idc, Value: v})
	}
	return out
}

// sliceTree draws a slice header (7.3.3) that is valid for the parameter sets.
func (c *avcCtx) sliceTree(t *rapid.T, idr bool) (nalgen.AVCSliceTree, *nalgen.AVCPPSTree) {
	sps := &c.sps[0]
	pps := &c.pps[uni(t, len(c.pps), "whichpps")]
	var tr nalgen.AVCSliceTree
	h, s, p := &tr.H, &sps.S, &pps.P
	tr.NalUnitType = 1
	if idr {
		tr.NalUnitType = 5
		tr.NalRefIdc = uint8(1 + uni(t, 3, "refidc"))
		h.SliceType = avc.SliceType(pick(t, "stype", 2, 7, 4, 9))
	} else {
		tr.NalRefIdc = uint8(uni(t, 4, "refidc"))
		h.SliceType = avc.SliceType(uni(t, 10, "stype"))
	}
	st := uint32(h.SliceType) % 5
	isP, isB, isI, isSP, isSI := st == 0, st == 1, st == 2, st == 3, st == 4
	h.PicParamID = p.PicParameterSetID
	cat := chromaArrayTypeAVC(s)
	if nalgen.AVCHighProfileFields(s.Profile) && s.ChromaFormatIDC == 3 && s.SeparateColourPlaneFlag {
		h.ColorPlaneID = uint32(uni(t, 3, "cplane"))
	}
	maxFrameNum := uint64(1) << (s.Log2MaxFrameNumMinus4 + 4)
	if !idr {
		h.FrameNum = uint32(bitsVal(t, int(s.Log2MaxFrameNumMinus4)+4, "frame_num"))
	}
	if !s.FrameMbsOnlyFlag {
		h.FieldPicFlag = rapid.Bool().Draw(t, "field")
		if h.FieldPicFlag {
			h.BottomFieldFlag = rapid.Bool().Draw(t, "bottom")
		}
	}
	frameH := uint64(sps.PicHeightInMapUnitsMinus1 + 1)
	if !s.FrameMbsOnlyFlag {
		frameH *= 2
	}
	picH := frameH
	if h.FieldPicFlag {
		picH /= 2
	}
	picSize := uint64(sps.PicWidthInMbsMinus1+1) * picH
	if s.MbAdaptiveFrameFieldFlag && !h.FieldPicFlag {
		picSize /= 2
	}
	h.FirstMBInSlice = uint32(rapid.Uint64Range(0, picSize-1).Draw(t, "first_mb"))
	if idr {
		h.IDRPicID = uint32(pick(t, "idrid", 0, 0, 1, 255, 65535))
	}
	if s.PicOrderCntType == 0 {
		h.PicOrderCntLsb = uint32(bitsVal(t, int(s.Log2MaxPicOrderCntLsbMinus4)+4, "poc_lsb"))
		if p.BottomFieldPicOrderInFramePresentFlag && !h.FieldPicFlag {
			h.DeltaPicOrderCntBottom = int32(rapid.IntRange(-40, 40).Draw(t, "dpocb"))
		}
	}
	if s.PicOrderCntType == 1 && !s.DeltaPicOrderAlwaysZeroFlag {
		h.DeltaPicOrderCnt[0] = int32(rapid.IntRange(-40, 40).Draw(t, "dpoc0"))
		if p.BottomFieldPicOrderInFramePresentFlag && !h.FieldPicFlag {
			h.DeltaPicOrderCnt[1] = int32(rapid.IntRange(-40, 40).Draw(t, "dpoc1"))
		}
	}
	if p.RedundantPicCntPresentFlag {
		h.RedundantPicCnt = uint32(small(t, 0, 127, "rpc"))
	}
	if isB {
		h.DirectSpatialMvPredFlag = rapid.Bool().Draw(t, "dsmv")
	}
	if isP || isSP || isB {
		h.NumRefIdxActiveOverrideFlag = rapid.Bool().Draw(t, "ovr")
		if h.NumRefIdxActiveOverrideFlag {
			h.NumRefIdxL0ActiveMinus1 = uint32(small(t, 0, 15, "l0"))
			if isB {
				h.NumRefIdxL1ActiveMinus1 = uint32(small(t, 0, 15, "l1"))
			}
		} else {
			h.NumRefIdxL0ActiveMinus1 = uint32(p.NumRefIdxI0DefaultActiveMinus1)
			if isB {
				h.NumRefIdxL1ActiveMinus1 = uint32(p.NumRefIdxI1DefaultActiveMinus1)
			}
		}
	}
	maxPicNum := maxFrameNum
	if h.FieldPicFlag {
		maxPicNum *= 2
	}
	if !isI && !isSI {
		h.RefPicListModificationL0Flag = pct(t, 30, "rplm0")
		if h.RefPicListModificationL0Flag {
			tr.ModL0 = genAVCMods(t, maxPicNum, "m0")
		}
	}
	if isB {
		h.RefPicListModificationL1Flag = pct(t, 30, "rplm1")
		if h.RefPicListModificationL1Flag {
			tr.ModL1 = genAVCMods(t, maxPicNum, "m1")
		}
	}
	if (p.WeightedPredFlag && (isP || isSP)) || (p.WeightedBipredIDC == 1 && isB) {
		h.LumaLog2WeightDenom = uint32(uni(t, 8, "lwd"))
		if cat != 0 {
			h.ChromaLog2WeightDenom = uint32(uni(t, 8, "cwd"))
		}
		tr.PredWeightL0 = genAVCPredWeights(t, h.NumRefIdxL0ActiveMinus1, cat != 0, "pw0")
		if isB {
			tr.PredWeightL1 = genAVCPredWeights(t, h.NumRefIdxL1ActiveMinus1, cat != 0, "pw1")
		}
	}
	if tr.NalRefIdc != 0 {
		if idr {
			h.NoOutputOfPriorPicsFlag = rapid.Bool().Draw(t, "noout")
			h.LongTermReferenceFlag = rapid.Bool().Draw(t, "ltref")
		} else {
			h.AdaptiveRefPicMarkingModeFlag = pct(t, 30, "armm")
			if h.AdaptiveRefPicMarkingModeFlag {
				n := small(t, 1, 4, "mmco-n")
				seen4, seen5 := false, false
				for i := 0; i < n; i++ {
					op := uint32(1 + uni(t, 6, "mmco"))
					if (op == 4 && seen4) || (op == 5 && seen5) {
						op = 1
					}
					seen4, seen5 = seen4 || op == 4, seen5 || op == 5
					mm := nalgen.MMCO{Op: op}
					switch op {
					case 1:
						mm.DifferenceOfPicNumsMinus1 = uint32(small(t, 0, 15, "dpn"))
					case 2:
						mm.LongTermPicNum = uint32(small(t, 0, 31, "ltpn"))
					case 3:
						mm.DifferenceOfPicNumsMinus1 = uint32(small(t, 0, 15, "dpn"))
						mm.LongTermFrameIdx = uint32(small(t, 0, 15, "ltfi"))
					case 4:
						mm.MaxLongTermFrameIdxPlus1 = uint32(small(t, 0, 16, "mltfi"))
					case 6:
						mm.LongTermFrameIdx = uint32(small(t, 0, 15, "ltfi"))
					}
					tr.MMCOs = append(tr.MMCOs, mm)
				}
			}
		}
	}
	if p.EntropyCodingModeFlag && !isI && !isSI {
		h.CabacInitIDC = uint32(uni(t, 3, "cabacidc"))
	}
	h.SliceQPDelta = int32(rapid.IntRange(-26, 25).Draw(t, "qpd"))
	if isSP || isSI {
		if isSP {
			h.SPForSwitchFlag = rapid.Bool().Draw(t, "spsw")
		}
		h.SliceQSDelta = int32(rapid.IntRange(-26, 25).Draw(t, "qsd"))
	}
	if p.DeblockingFilterControlPresentFlag {
		h.DisableDeblockingFilterIDC = uint32(uni(t, 3, "ddf"))
		if h.DisableDeblockingFilterIDC != 1 {
			h.SliceAlphaC0OffsetDiv2 = int32(rapid.IntRange(-6, 6).Draw(t, "alpha"))
			h.SliceBetaOffsetDiv2 = int32(rapid.IntRange(-6, 6).Draw(t, "beta"))
		}
	}
	return tr, pps
}

// slice builds a slice NAL unit of (about) the target size.
func (c *avcCtx) slice(t *rapid.T, target int, idr bool, seed uint64) Nal {
	tr, pps := c.sliceTree(t, idr)
	build := func(n int) ([]byte, nalgen.AVCSliceBits) {
		tr.SliceData = fill(seed, n)
		return nalgen.SerializeAVCSlice(&tr, &c.sps[0], pps)
	}
	nal, info := build(0)
	n := target - len(nal)
	for iter := 0; iter < 4 && n > 0; iter++ {
		nal, info = build(n)
		d := len(nal) - target
		if d == 0 {
			break
		}
		n -= d
		if n < 0 {
			n = 0
		}
	}
	hdrBytesUnescaped := (info.HeaderBits + 7) / 8
	esc := info.HeaderBytes > 1+hdrBytesUnescaped
	return Nal{Kind: "slice", VCL: true, Data: nal, Hdr: info.HeaderBytes, Esc: esc}
}

// seiPayload builds sei_rbsp with one user_data_unregistered message of the given payload size (>= 16):
// returns prefix (payload type, size bytes, uuid), and the count of 0x55 filler bytes that follow, then 0x80.
func seiParts(size int) (prefix []byte, pad int) {
	prefix = []byte{5}
	for v := size; ; v -= 255 {
		if v < 255 {
			prefix = append(prefix, byte(v))
			break
		}
		prefix = append(prefix, 0xff)
	}
	for i := 0; i < 16; i++ {
		prefix = append(prefix, byte(0xa0+i))
	}
	return prefix, size - 16
}

// nonVCL builds a non-VCL NAL unit of the given kind and (about) the given total size.
func (c *avcCtx) nonVCL(kind string, size int, which int) Nal {
	switch kind {
	case "aud":
		return Nal{Kind: kind, Data: []byte{0x09, 0x10 | byte(which&7)<<5}}
	case "sps":
		return Nal{Kind: kind, Data: c.spsNal[0]}
	case "pps":
		return Nal{Kind: kind, Data: c.ppsNal[which%len(c.ppsNal)]}
	case "eos":
		return Nal{Kind: kind, Data: []byte{0x0a}}
	case "sei":
		if size < 24 {
			size = 24
		}
		ps := size - 1 - 2 - 1 // header, type+size (approx.), trailing
		if ps < 16 {
			ps = 16
		}
		prefix, pad := seiParts(ps)
		return Nal{Kind: kind, Data: append([]byte{0x06}, prefix...), Pad: pad, PadByte: 0x55, Tail: []byte{0x80}}
	default: // filler
		if size < 2 {
			size = 2
		}
		return Nal{Kind: "filler", Data: []byte{0x0c}, Pad: size - 2, PadByte: 0xff, Tail: []byte{0x80}}
	}
}
