package cryptgen

import (
	"bytes"
	"encoding/binary"
	"fmt"

	"verif/internal/boxwalk"
	"verif/internal/refcrypto"
)

// Byte-level readers of the protection signalling (ISO/IEC 23001-7 section 7 and 8, 14496-12 8.7.8/8.7.9,
// 8.12). Boxes are located with boxwalk; nothing here calls the library.

// Tenc is a parsed tenc box.
type Tenc struct {
	Version     byte
	Flags       uint32
	Reserved    byte
	Crypt, Skip byte
	IsProtected byte
	IVSize      byte
	KID         []byte
	ConstIV     []byte
}

// Protection is the protection signalling of one sample entry.
type Protection struct {
	EntryType     string // encv | enca | ...
	Original      string // frma data_format
	Scheme        string
	SchemeVersion uint32
	SchmFlags     uint32
	Tenc          *Tenc
	SinfOrder     []string // child types of sinf
	NSinf         int
}

func u32(b []byte) uint32 { return binary.BigEndian.Uint32(b) }
func u16(b []byte) uint16 { return binary.BigEndian.Uint16(b) }

func payload(file []byte, b *boxwalk.Box) []byte { return file[b.PayloadStart():b.End()] }

func child(b *boxwalk.Box, typ string) *boxwalk.Box {
	for _, c := range b.Children {
		if c.Type == typ {
			return c
		}
	}
	return nil
}

// ParseTenc parses a tenc box.
func ParseTenc(file []byte, b *boxwalk.Box) (*Tenc, error) {
	p := payload(file, b)
	if len(p) < 24 {
		return nil, fmt.Errorf("tenc: %d payload bytes", len(p))
	}
	t := &Tenc{Version: p[0], Flags: u32(p) & 0xffffff, Reserved: p[4]}
	if t.Version == 0 {
		if p[5] != 0 {
			return nil, fmt.Errorf("tenc version 0: reserved byte %#x", p[5])
		}
	} else {
		t.Crypt, t.Skip = p[5]>>4, p[5]&15
	}
	t.IsProtected, t.IVSize = p[6], p[7]
	t.KID = p[8:24]
	rest := p[24:]
	if t.IsProtected == 1 && t.IVSize == 0 {
		if len(rest) < 1 || len(rest) != 1+int(rest[0]) {
			return nil, fmt.Errorf("tenc: constant IV does not fill the box (%d bytes left)", len(rest))
		}
		t.ConstIV = rest[1:]
	} else if len(rest) != 0 {
		return nil, fmt.Errorf("tenc: %d surplus bytes", len(rest))
	}
	return t, nil
}

// EntryOf returns the first sample entry of the stsd below the given trak (or moov with one trak).
func EntryOf(top []*boxwalk.Box) *boxwalk.Box {
	stsd := boxwalk.Path(top, "moov", "trak", "mdia", "minf", "stbl", "stsd")
	if stsd == nil || len(stsd.Children) == 0 {
		return nil
	}
	return stsd.Children[0]
}

// ParseProtection reads sinf/frma/schm/schi/tenc of a sample entry (nil, nil when it has no sinf).
func ParseProtection(file []byte, entry *boxwalk.Box) (*Protection, error) {
	p := &Protection{EntryType: entry.Type}
	var sinf *boxwalk.Box
	for _, c := range entry.Children {
		if c.Type == "sinf" {
			p.NSinf++
			if sinf == nil {
				sinf = c
			}
		}
	}
	if sinf == nil {
		return nil, nil
	}
	for _, c := range sinf.Children {
		p.SinfOrder = append(p.SinfOrder, c.Type)
	}
	if f := child(sinf, "frma"); f != nil {
		if f.Size != 12 {
			return nil, fmt.Errorf("frma: size %d", f.Size)
		}
		p.Original = string(payload(file, f))
	} else {
		return nil, fmt.Errorf("sinf without frma")
	}
	if s := child(sinf, "schm"); s != nil {
		q := payload(file, s)
		if len(q) < 12 {
			return nil, fmt.Errorf("schm: %d payload bytes", len(q))
		}
		p.SchmFlags = u32(q) & 0xffffff
		p.Scheme, p.SchemeVersion = string(q[4:8]), u32(q[8:])
		if (p.SchmFlags&1 == 0) != (len(q) == 12) {
			return nil, fmt.Errorf("schm: flags %#x with %d payload bytes", p.SchmFlags, len(q))
		}
	}
	if s := child(sinf, "schi"); s != nil {
		if t := child(s, "tenc"); t != nil {
			var err error
			if p.Tenc, err = ParseTenc(file, t); err != nil {
				return nil, err
			}
		}
	}
	return p, nil
}

// SencSample is one parsed senc entry.
type SencSample struct {
	IV   []byte
	Subs []refcrypto.SubSample
	Off  int // absolute offset of the entry
	Size int // bytes of the entry
}

// Senc is a parsed senc box.
type Senc struct {
	Flags     uint32
	Count     int
	DataStart int // absolute offset of the first entry
	Samples   []SencSample
}

// ParseSenc parses the senc box given the per-sample IV size; the entries must fill the box exactly.
func ParseSenc(file []byte, b *boxwalk.Box, ivSize int) (*Senc, error) {
	p := payload(file, b)
	if len(p) < 8 {
		return nil, fmt.Errorf("senc: %d payload bytes", len(p))
	}
	if p[0] != 0 {
		return nil, fmt.Errorf("senc: version %d", p[0])
	}
	s := &Senc{Flags: u32(p) & 0xffffff, Count: int(u32(p[4:])), DataStart: b.PayloadStart() + 8}
	pos := 8
	for i := 0; i < s.Count; i++ {
		e := SencSample{Off: b.PayloadStart() + pos}
		if len(p)-pos < ivSize {
			return nil, fmt.Errorf("senc: entry %d: IV runs out of the box", i)
		}
		e.IV = p[pos : pos+ivSize]
		pos += ivSize
		if s.Flags&2 != 0 {
			if len(p)-pos < 2 {
				return nil, fmt.Errorf("senc: entry %d: subsample_count runs out of the box", i)
			}
			n := int(u16(p[pos:]))
			pos += 2
			if len(p)-pos < 6*n {
				return nil, fmt.Errorf("senc: entry %d: %d sub-samples run out of the box", i, n)
			}
			for k := 0; k < n; k++ {
				e.Subs = append(e.Subs, refcrypto.SubSample{Clear: u16(p[pos:]), Protected: u32(p[pos+2:])})
				pos += 6
			}
		}
		e.Size = b.PayloadStart() + pos - e.Off
		s.Samples = append(s.Samples, e)
	}
	if pos != len(p) {
		return nil, fmt.Errorf("senc: %d bytes after the last of %d entries (IV size %d, flags %#x)", len(p)-pos, s.Count, ivSize, s.Flags)
	}
	return s, nil
}

// Saiz is a parsed saiz box.
type Saiz struct {
	Flags   uint32
	AuxType string
	AuxParm uint32
	Default byte
	Count   int
	Sizes   []byte // Count entries (filled with Default when a default size is given)
}

func ParseSaiz(file []byte, b *boxwalk.Box) (*Saiz, error) {
	p := payload(file, b)
	if len(p) < 4 {
		return nil, fmt.Errorf("saiz: short")
	}
	s := &Saiz{Flags: u32(p) & 0xffffff}
	if p[0] != 0 {
		return nil, fmt.Errorf("saiz: version %d", p[0])
	}
	pos := 4
	if s.Flags&1 != 0 {
		if len(p) < pos+8 {
			return nil, fmt.Errorf("saiz: short")
		}
		s.AuxType, s.AuxParm = string(p[pos:pos+4]), u32(p[pos+4:])
		pos += 8
	}
	if len(p) < pos+5 {
		return nil, fmt.Errorf("saiz: short")
	}
	s.Default, s.Count = p[pos], int(u32(p[pos+1:]))
	pos += 5
	if s.Default == 0 {
		if len(p)-pos != s.Count {
			return nil, fmt.Errorf("saiz: %d size bytes for sample_count %d", len(p)-pos, s.Count)
		}
		s.Sizes = p[pos:]
	} else {
		if len(p) != pos {
			return nil, fmt.Errorf("saiz: %d surplus bytes", len(p)-pos)
		}
		s.Sizes = bytes.Repeat([]byte{s.Default}, s.Count)
	}
	return s, nil
}

// Saio is a parsed saio box.
type Saio struct {
	Version byte
	Flags   uint32
	AuxType string
	Offsets []int64
}

func ParseSaio(file []byte, b *boxwalk.Box) (*Saio, error) {
	p := payload(file, b)
	if len(p) < 8 {
		return nil, fmt.Errorf("saio: short")
	}
	s := &Saio{Version: p[0], Flags: u32(p) & 0xffffff}
	pos := 4
	if s.Flags&1 != 0 {
		if len(p) < pos+12 {
			return nil, fmt.Errorf("saio: short")
		}
		s.AuxType = string(p[pos : pos+4])
		pos += 8
	}
	n := int(u32(p[pos:]))
	pos += 4
	w := 4
	if s.Version == 1 {
		w = 8
	} else if s.Version != 0 {
		return nil, fmt.Errorf("saio: version %d", s.Version)
	}
	if len(p)-pos != n*w {
		return nil, fmt.Errorf("saio: %d bytes for %d offsets", len(p)-pos, n)
	}
	for i := 0; i < n; i++ {
		if w == 4 {
			s.Offsets = append(s.Offsets, int64(int32(u32(p[pos:]))))
		} else {
			s.Offsets = append(s.Offsets, int64(binary.BigEndian.Uint64(p[pos:])))
		}
		pos += w
	}
	return s, nil
}

// ---------------------------------------------------------------------------------------------
// box tree comparison

// Diff is the first difference between two box sequences.
type Diff struct {
	Path string // e.g. "moof/traf"
	Type string // box type concerned
	What string // missing | extra | changed | prefix-changed
	Msg  string
}

func (d *Diff) String() string {
	p := d.Path
	if p == "" {
		p = "top level"
	}
	return fmt.Sprintf("%s: box %q %s (%s)", p, d.Type, d.What, d.Msg)
}

// DiffOpts tunes DiffBoxes.
type DiffOpts struct {
	// Added[parent type] lists child types that other may have in addition (they are skipped in other).
	Added map[string][]string
	// Rename maps a type in ref to the type accepted in other (sample entry -> encv/enca).
	Rename map[string]string
	// MaskOffsets ignores trun.data_offset and tfhd.base_data_offset (judged separately by resolving them).
	MaskOffsets bool
}

func contains(l []string, s string) bool {
	for _, x := range l {
		if x == s {
			return true
		}
	}
	return false
}

func maskedLeaf(b []byte, typ string) []byte {
	switch typ {
	case "trun":
		if len(b) >= 20 && b[11]&1 != 0 {
			c := append([]byte(nil), b...)
			copy(c[16:20], []byte{0, 0, 0, 0})
			return c
		}
	case "tfhd":
		if len(b) >= 24 && b[11]&1 != 0 {
			c := append([]byte(nil), b...)
			copy(c[16:24], make([]byte, 8))
			return c
		}
	}
	return b
}

// DiffBoxes compares the sibling lists ref (in file a) and other (in file b): same types in the same
// order; leaves byte-identical; containers with identical fixed parts and (recursively) identical children.
// Size fields of containers are not compared (their children are).
func DiffBoxes(a []byte, ref []*boxwalk.Box, b []byte, other []*boxwalk.Box, parent, path string, o *DiffOpts) *Diff {
	var flt []*boxwalk.Box
	for _, x := range other {
		if o != nil && contains(o.Added[parent], x.Type) {
			continue
		}
		flt = append(flt, x)
	}
	for i, r := range ref {
		if i >= len(flt) {
			return &Diff{Path: path, Type: r.Type, What: "missing", Msg: fmt.Sprintf("reference has %s, output has %s", types(ref), types(flt))}
		}
		x := flt[i]
		want := r.Type
		if o != nil && o.Rename[r.Type] != "" {
			want = o.Rename[r.Type]
		}
		if x.Type != want {
			// decide between missing and extra for the message
			what := "missing"
			for _, y := range ref[i:] {
				if y.Type == x.Type {
					what = "missing"
					break
				}
				what = "extra"
			}
			if what == "extra" {
				return &Diff{Path: path, Type: x.Type, What: "extra", Msg: fmt.Sprintf("reference has %s, output has %s", types(ref), types(flt))}
			}
			return &Diff{Path: path, Type: r.Type, What: "missing", Msg: fmt.Sprintf("reference has %s, output has %s", types(ref), types(flt))}
		}
		if boxwalk.IsContainer(r.Type) && (len(r.Children) > 0 || len(x.Children) > 0 || r.Skip > 0) {
			// fixed part: header form and the bytes before the first child
			if r.HdrSize != x.HdrSize || r.Skip != x.Skip ||
				!bytes.Equal(a[r.PayloadStart():r.PayloadStart()+r.Skip], b[x.PayloadStart():x.PayloadStart()+x.Skip]) {
				return &Diff{Path: path, Type: r.Type, What: "prefix-changed", Msg: "fixed fields of the container differ"}
			}
			if d := DiffBoxes(a, r.Children, b, x.Children, r.Type, path+"/"+r.Type, o); d != nil {
				return d
			}
			continue
		}
		ra, xb := a[r.Start:r.End()], b[x.Start:x.End()]
		if o != nil && o.MaskOffsets {
			ra, xb = maskedLeaf(ra, r.Type), maskedLeaf(xb, x.Type)
		}
		if want != r.Type { // renamed leaf: ignore the type field
			ra = append(append([]byte(nil), ra[:4]...), ra[8:]...)
			xb = append(append([]byte(nil), xb[:4]...), xb[8:]...)
		}
		if !bytes.Equal(ra, xb) {
			return &Diff{Path: path, Type: r.Type, What: "changed", Msg: fmt.Sprintf("reference %s, output %s", hexTrunc(ra, 64), hexTrunc(xb, 64))}
		}
	}
	if len(flt) > len(ref) {
		return &Diff{Path: path, Type: flt[len(ref)].Type, What: "extra", Msg: fmt.Sprintf("reference has %s, output has %s", types(ref), types(flt))}
	}
	return nil
}

func types(bs []*boxwalk.Box) string {
	s := "["
	for i, b := range bs {
		if i > 0 {
			s += " "
		}
		s += b.Type
	}
	return s + "]"
}

func hexTrunc(b []byte, n int) string {
	if len(b) > n {
		return fmt.Sprintf("%x...(%d bytes)", b[:n], len(b))
	}
	return fmt.Sprintf("%x", b)
}
