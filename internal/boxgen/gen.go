// Package boxgen is a grammar-based generator of ISOBMFF boxes (ISO/IEC 14496-12, -14, -15, -30, CENC
// 23001-7, DASH emsg/prft, PIFF/MSS uuid boxes). It is an independent byte-level writer: it does not import
// mp4ff. All randomness comes from the *rapid.T handed in, so every output shrinks.
//
// Layout of the package:
//
//	gen.go       writer, draw helpers, Box/LeafTypes/ContainerTypes, child arrangement
//	grammar.go   the container grammar table (type -> child rules) and container prefixes
//	tables.go    sample tables and fragment tables (stts ... tfra, sidx, senc, ...)
//	misc.go      header boxes, strings, DRM, metadata, uuid, descriptors
//	entries.go   sample entries and codec configuration boxes
//	file.go      File(): mutually consistent progressive / init / media / fragmented files
package boxgen

import (
	"encoding/binary"
	"sort"
	"strconv"
	"strings"

	"pgregory.net/rapid"

	"verif/internal/boxwalk"
)

// Opt selects the generation mode.
type Opt struct {
	Hostile bool // well-framed boxes with boundary / mutually inconsistent field values
}

// QuickTimeMetaPercent is the probability (percent) that a meta box is written QuickTime style, i.e. without
// the full-box header and with hdlr as its first child. boxwalk assumes the ISO form; set to 0 to avoid it.
var QuickTimeMetaPercent = 5

// LargeSizePercent is the probability (percent) that the box returned by Box gets the 64-bit size header
// form (mdat boxes anywhere: 10 times this value); LargeSizeNestedPer10k is the probability (per 10000) for
// every other box, i.e. children and the top-level boxes of File. ISO/IEC 14496-12 4.2 allows largesize for
// every box; mp4ff (at the pinned revision) rejects a container that has a largesize child other than mdat,
// so the nested probability is kept low in order not to lose most of the deep structures to this one reason.
var (
	LargeSizePercent      = 1
	LargeSizeNestedPer10k = 60
)

// ---------------------------------------------------------------------------------------------
// byte writer

type wr struct{ b []byte }

func (w *wr) u8(v int) *wr      { w.b = append(w.b, byte(v)); return w }
func (w *wr) u16(v int) *wr     { w.b = append(w.b, byte(v>>8), byte(v)); return w }
func (w *wr) u24(v int) *wr     { w.b = append(w.b, byte(v>>16), byte(v>>8), byte(v)); return w }
func (w *wr) u32(v uint32) *wr  { w.b = binary.BigEndian.AppendUint32(w.b, v); return w }
func (w *wr) u64(v uint64) *wr  { w.b = binary.BigEndian.AppendUint64(w.b, v); return w }
func (w *wr) i32(v int64) *wr   { return w.u32(uint32(int32(v))) }
func (w *wr) raw(p []byte) *wr  { w.b = append(w.b, p...); return w }
func (w *wr) str(s string) *wr  { w.b = append(w.b, s...); return w }
func (w *wr) cstr(s string) *wr { w.b = append(w.b, s...); w.b = append(w.b, 0); return w }
func (w *wr) zeros(n int) *wr   { w.b = append(w.b, make([]byte, n)...); return w }
func (w *wr) uN(v uint64, n int) *wr { // n bytes, big endian
	for i := n - 1; i >= 0; i-- {
		w.b = append(w.b, byte(v>>(8*uint(i))))
	}
	return w
}

// full starts a full-box payload (version + 24-bit flags).
func full(version int, flags uint32) *wr {
	w := &wr{}
	return w.u32(uint32(version)<<24 | flags&0xffffff)
}

// bitw packs bit fields MSB first.
type bitw struct {
	b    []byte
	nbit uint
}

func (w *bitw) put(v uint64, n uint) {
	for i := int(n) - 1; i >= 0; i-- {
		if w.nbit%8 == 0 {
			w.b = append(w.b, 0)
		}
		if v>>uint(i)&1 == 1 {
			w.b[len(w.b)-1] |= 1 << (7 - w.nbit%8)
		}
		w.nbit++
	}
}

// ---------------------------------------------------------------------------------------------
// generator state and draw helpers

type gen struct {
	t     *rapid.T
	o     Opt
	depth int
	// hooks replace the generator of a box type (used by File to keep boxes mutually consistent);
	// a hook returns a complete box.
	hooks   map[string]func(g *gen) []byte
	trk     *track // current track (File builders)
	movieTS uint32 // movie timescale (File builders)
	top     bool   // the next box to be wrapped is the one Box returns
	// ambient facts that boxes further down must agree with
	origFormat string   // inside encv/enca: the sample entry type the configuration box belongs to (frma)
	enc        *encSpec // inside sinf: protection scheme and track encryption defaults (schm, tenc)
	allEnc     bool     // File builders: a protected presentation (every audio/video track is encv/enca)
}

func (g *gen) rng(label string, lo, hi int) int {
	if hi <= lo {
		return lo
	}
	return rapid.IntRange(lo, hi).Draw(g.t, label)
}

// pct is true with probability p percent; it shrinks towards false.
func (g *gen) pct(label string, p int) bool { return g.chance(label, p*100) }

// chance is true with probability n/10000 (resolution 1/65536). rapid's integer generators are biased
// towards small values and the ends of the range, its Bool is not: the decision compares a uniform 16-bit
// number x, drawn bit by bit from the top, with a threshold and stops at the first bit that decides (two
// draws on average). All bits false means x = 0 and the answer false, which is where rapid shrinks to.
func (g *gen) chance(label string, n int) bool {
	if n <= 0 {
		return false
	}
	if n >= 10000 {
		return true
	}
	th := 65536 - (n*65536+5000)/10000 // true iff x >= th
	if th > 65535 {
		th = 65535
	}
	if th < 1 {
		th = 1
	}
	for bit := 15; bit >= 0; bit-- {
		xb := rapid.Bool().Draw(g.t, label)
		if tb := th>>uint(bit)&1 == 1; xb != tb {
			return xb
		}
	}
	return true
}

// hostile is true with probability p percent, and only in hostile mode.
func (g *gen) hostile(label string, p int) bool {
	return g.o.Hostile && g.pct("hostile:"+label, p)
}

func (g *gen) pick(label string, opts ...string) string {
	return opts[g.rng(label, 0, len(opts)-1)]
}

func (g *gen) pickInt(label string, opts ...int) int {
	return opts[g.rng(label, 0, len(opts)-1)]
}

// count draws an entry count: mostly 0..6, occasionally up to 40.
func (g *gen) count(label string) int {
	if g.pct(label+":many", 6) {
		return g.rng(label+":n", 7, 40)
	}
	return g.rng(label+":n", 0, 6)
}

// count1 is count but at least 1.
func (g *gen) count1(label string) int {
	if n := g.count(label); n > 0 {
		return n
	}
	return 1
}

func (g *gen) bytes(label string, lo, hi int) []byte {
	n := g.rng(label+":len", lo, hi)
	if n == 0 {
		return nil
	}
	return rapid.SliceOfN(rapid.Byte(), n, n).Draw(g.t, label)
}

var edge32 = []uint32{0, 1, 0x7fffffff, 0x80000000, 0xfffffffe, 0xffffffff, 0x10000, 0xffff}
var edge64 = []uint64{0, 1, 0x7fffffff, 0x80000000, 0xffffffff, 0x100000000, 0x7fffffffffffffff, 0x8000000000000000, 0xffffffffffffffff}

// u32 draws a 32-bit unsigned field value that is legal over its whole range: mostly small.
func (g *gen) u32(label string) uint32 {
	switch c := g.rng(label+":class", 0, 19); {
	case c < 12:
		return uint32(g.rng(label, 0, 20))
	case c < 18:
		return uint32(g.rng(label, 0, 100000))
	case c < 19:
		return rapid.Uint32().Draw(g.t, label)
	default:
		return edge32[g.rng(label+":edge", 0, len(edge32)-1)]
	}
}

// u64 is the 64-bit variant of u32.
func (g *gen) u64(label string) uint64 {
	switch c := g.rng(label+":class", 0, 19); {
	case c < 10:
		return uint64(g.rng(label, 0, 20))
	case c < 16:
		return uint64(g.rng(label, 0, 100000))
	case c < 18:
		return uint64(g.rng(label, 0, 1<<31)) << 8 // beyond 32 bits
	case c < 19:
		return rapid.Uint64().Draw(g.t, label)
	default:
		return edge64[g.rng(label+":edge", 0, len(edge64)-1)]
	}
}

// time32/time64 draw a duration or a time stamp; in hostile mode boundary values are more likely.
func (g *gen) time32(label string) uint32 {
	if g.hostile(label, 15) {
		return edge32[g.rng(label+":edge", 0, len(edge32)-1)]
	}
	return g.u32(label)
}

func (g *gen) time64(label string) uint64 {
	if g.hostile(label, 15) {
		return edge64[g.rng(label+":edge", 0, len(edge64)-1)]
	}
	return g.u64(label)
}

// s32 draws a signed 32-bit value, returned as two's complement.
func (g *gen) s32(label string) uint32 {
	if g.pct(label+":edge", 4) {
		return g.pickU32(label+":edgeval", 0x80000000, 0x7fffffff, 0xffffffff)
	}
	return uint32(int32(g.rng(label, -3000, 3000)))
}

func (g *gen) s64(label string) uint64 {
	if g.pct(label+":edge", 4) {
		return edge64[g.rng(label+":edgeval", 0, len(edge64)-1)]
	}
	return uint64(int64(g.rng(label, -3000, 3000)))
}

func (g *gen) pickU32(label string, opts ...uint32) uint32 {
	return opts[g.rng(label, 0, len(opts)-1)]
}

func (g *gen) timescale(label string) uint32 {
	if g.hostile(label, 10) {
		return g.pickU32(label+":bad", 0, 0xffffffff, 0x80000000)
	}
	return g.pickU32(label, 1, 25, 600, 1000, 12800, 44100, 48000, 90000, 10000000)
}

var textPool = []string{"", "a", "und", "eng", "urn:mpeg:dash:event:2012", "http://example.com/s", "1",
	"VideoHandler", "caption", "\xc3\xa9t\xc3\xa9", "urn:scte:scte35:2013:bin", "application/ttml+xml", "x y"}

// text draws a string without NUL bytes.
func (g *gen) text(label string) string {
	if g.pct(label+":rnd", 30) {
		n := g.rng(label+":len", 0, 12)
		b := make([]byte, n)
		for i := range b {
			b[i] = byte(g.rng(label, 0x20, 0x7e))
		}
		return string(b)
	}
	return textPool[g.rng(label, 0, len(textPool)-1)]
}

// fourcc draws a printable four-character code.
func (g *gen) fourcc(label string) string {
	b := make([]byte, 4)
	for i := range b {
		b[i] = byte(g.rng(label, 0x61, 0x7a))
	}
	return string(b)
}

func (g *gen) lang(label string) int {
	s := g.pick(label, "und", "eng", "swe", "fra", "zho", "zzz", "mul")
	if g.hostile(label, 10) {
		return g.pickInt(label+":bad", 0, 0x7fff, 0xffff, 0x8000, 0x0400) // 0: three characters 0x60
	}
	return int(s[0]-0x60)<<10 | int(s[1]-0x60)<<5 | int(s[2]-0x60)
}

// ---------------------------------------------------------------------------------------------
// box assembly

type kid struct {
	typ string
	b   []byte
}

func mk(typ string, payload []byte) []byte { return boxwalk.Make(typ, payload) }

func mkLarge(typ string, payload []byte) []byte {
	return append(boxwalk.Header(typ, len(payload), true), payload...)
}

// wrap puts a header in front of a payload; occasionally the 64-bit size form.
func (g *gen) wrap(typ string, payload []byte) []byte { return g.wrapTop(typ, payload, false) }

func (g *gen) wrapTop(typ string, payload []byte, top bool) []byte {
	p := LargeSizeNestedPer10k
	switch {
	case typ == "mdat":
		p = LargeSizePercent * 1000
	case top:
		p = LargeSizePercent * 100
	}
	if g.chance("largesize", p) {
		return mkLarge(typ, payload)
	}
	return mk(typ, payload)
}

const maxDepth = 14

// box generates one box of the given type.
func (g *gen) box(typ string) []byte {
	if h, ok := g.hooks[typ]; ok {
		return h(g)
	}
	return g.plainBox(typ)
}

// plainBox is box without the hooks.
func (g *gen) plainBox(typ string) []byte {
	top := g.top
	g.top = false
	if _, ok := grammar[typ]; ok {
		g.depth++
		defer func() { g.depth-- }()
		switch typ {
		case "encv", "enca":
			defer func(old string) { g.origFormat = old }(g.origFormat)
		case "sinf":
			if g.enc == nil {
				g.enc = g.drawEnc()
				defer func() { g.enc = nil }()
			}
		}
		kids := g.drawKids(typ)
		return g.wrapTop(typ, g.containerPayload(typ, kids), top)
	}
	if f, ok := leaves[typ]; ok {
		return g.wrapTop(typ, f(g), top)
	}
	return g.wrapTop(typ, g.bytes("unknown:"+typ, 0, 24), top)
}

// containerPayload puts the prefix of a container type in front of its arranged children.
func (g *gen) containerPayload(typ string, kids []kid) []byte {
	switch typ {
	case "stsd", "dref":
		return g.countedContainer(typ, kids)
	case "meta":
		if len(kids) > 0 && kids[0].typ == "hdlr" && g.pct("meta:quicktime", QuickTimeMetaPercent) {
			// QuickTime form: no version/flags, hdlr first
			return append(append([]byte{}, kids[0].b...), g.arrange(typ, kids[1:])...)
		}
		return append(full(0, 0).b, g.arrange(typ, kids)...)
	}
	return append(g.prefix(typ), g.arrange(typ, kids)...)
}

// drawKids draws the children of a container from the grammar table.
func (g *gen) drawKids(parent string) []kid {
	var kids []kid
	for ri, r := range grammar[parent] {
		n := r.Min
		label := parent + ">" + r.Type
		if g.depth < maxDepth {
			for n < r.Max && g.pct(label+":more", r.Weight) {
				n++
			}
		}
		if n == 0 && r.Min == 0 && g.hostile(label+":force", 5) {
			n = 1
		}
		if n > 0 && r.Min > 0 && g.hostile(label+":drop", 4) {
			n-- // a mandatory child is missing
		}
		for i := 0; i < n; i++ {
			typ := g.alt(label+"#"+strconv.Itoa(ri), r.Type)
			if parent == "encv" || parent == "enca" {
				if f, ok := origFormats[typ]; ok {
					g.origFormat = g.pick(parent+":format", f...)
				}
			}
			b := g.box(typ)
			kids = append(kids, kid{string(b[4:8]), b})
		}
	}
	return kids
}

// origFormats: configuration box -> sample entry types it occurs in (for frma in encv/enca).
var origFormats = map[string][]string{"avcC": {"avc1", "avc3"}, "hvcC": {"hvc1", "hev1"}, "esds": {"mp4a"}, "dac3": {"ac-3"}, "dec3": {"ec-3"}}

// alt resolves "a*3|b*1|c" to one of the alternatives.
func (g *gen) alt(label, spec string) string {
	if !strings.Contains(spec, "|") {
		return spec
	}
	var names []string
	var cum []int
	total := 0
	for _, p := range strings.Split(spec, "|") {
		w := 1
		if i := strings.LastIndex(p, "*"); i > 0 {
			if v, err := strconv.Atoi(p[i+1:]); err == nil {
				w, p = v, p[:i]
			}
		}
		total += w
		names = append(names, p)
		cum = append(cum, total)
	}
	x := g.rng(label, 0, total-1)
	for i, c := range cum {
		if x < c {
			return names[i]
		}
	}
	return names[len(names)-1]
}

// arrange orders the children of a container and concatenates them. Most of the time the order is the
// canonical one of the grammar table; with probability 1/4 a random permutation in which boxes of the same
// type keep their relative order (so that the n-th trun/trak/traf stays the n-th). With small probability
// free/skip/uuid/unknown boxes are put in between.
func (g *gen) arrange(parent string, kids []kid) []byte {
	if len(kids) > 1 && g.pct(parent+":permute", 25) {
		perm := rapid.Permutation(idx(len(kids))).Draw(g.t, parent+":perm")
		shuffled := make([]kid, len(kids))
		for i, p := range perm {
			shuffled[i] = kids[p]
		}
		// restore the relative order of boxes of the same type
		next := map[string][]kid{}
		for _, k := range kids {
			next[k.typ] = append(next[k.typ], k)
		}
		for i, k := range shuffled {
			shuffled[i] = next[k.typ][0]
			next[k.typ] = next[k.typ][1:]
		}
		kids = shuffled
	}
	var out []byte
	junk := !noJunkIn[parent] && g.pct(parent+":junk", 6)
	for i, k := range kids {
		if junk && g.pct(parent+":junk@"+strconv.Itoa(i), 40) {
			out = append(out, g.junk()...)
		}
		out = append(out, k.b...)
	}
	if junk && (len(kids) == 0 || g.pct(parent+":junk@end", 40)) {
		out = append(out, g.junk()...)
	}
	return out
}

// noJunkIn lists containers whose children are counted by a field in front of them, so that an extra
// box would make the count wrong.
var noJunkIn = map[string]bool{"stsd": true, "dref": true}

func idx(n int) []int {
	s := make([]int, n)
	for i := range s {
		s[i] = i
	}
	return s
}

// junk is a box every reader has to skip: free, skip, an unknown type, or a uuid box with a random id.
func (g *gen) junk() []byte {
	switch g.rng("junk:kind", 0, 3) {
	case 0:
		return mk("free", g.bytes("junk:free", 0, 12))
	case 1:
		return mk("skip", g.bytes("junk:skip", 0, 12))
	case 2:
		return mk("zzzz", g.bytes("junk:zzzz", 0, 12))
	default:
		return mk("uuid", append(g.bytes("junk:uuid", 16, 16), g.bytes("junk:uuidpl", 0, 12)...))
	}
}

// ---------------------------------------------------------------------------------------------
// public API

// LeafTypes returns the sorted list of leaf box types Box can generate.
func LeafTypes() []string {
	var out []string
	for k := range leaves {
		out = append(out, k)
	}
	sort.Strings(out)
	return out
}

// ContainerTypes returns the sorted list of container box types Box can generate.
func ContainerTypes() []string {
	var out []string
	for k := range grammar {
		out = append(out, k)
	}
	sort.Strings(out)
	return out
}

// Box returns one complete box (header+payload) of the given type. For a container type it generates
// children from the grammar (recursively, depth-bounded). Unknown typ gives a box with a random payload of
// 0..24 bytes.
func Box(t *rapid.T, typ string, o Opt) []byte {
	g := &gen{t: t, o: o, top: true}
	if len(typ) != 4 {
		typ = (typ + "    ")[:4]
	}
	return g.box(typ)
}
