package boxgen

import (
	"encoding/binary"
	"strconv"

	"pgregory.net/rapid"
)

// File builders. The moov, mvex, stbl, moof, traf and mfra children are listed explicitly here (the lists
// follow the grammar table and take the optional-child probabilities from it); everything else comes from
// the grammar with hooks that make tkhd/mdhd/hdlr/media header agree with the track. Values that depend on
// the final layout (chunk offsets, trun data offsets, tfhd base data offset, saio offset, mfro size) are
// written as placeholders and patched once the positions are known.

// track is what the boxes of one track have to agree on.
type track struct {
	id        uint32
	handler   string // vide, soun, subt, text, meta
	timescale uint32
	entries   []string // sample entry types in stsd
	enc       *encSpec // set if one of the sample entries is encv/enca
	groups    []group  // sample group descriptions in stbl

	// progressive files
	n        int
	sizes    []uint32
	chunks   []chunk
	chunkOff []uint64 // relative to the start of the mdat payload until patched
	stts     []byte   // stts payload (drawn with the track because tkhd and mdhd need the duration)
	dur      uint64   // in media timescale

	// fragmented files
	trexDur, trexSize, trexFlags uint32
	time                         uint64 // decode time of the next fragment
	tfra                         []tfraEntry
}

type group struct {
	grouping string
	nDesc    int
}

func (g *gen) drawTrack(id uint32, fragmented, first bool) *track {
	l := "track" + strconv.Itoa(int(id))
	t := &track{id: id, timescale: g.timescale(l + ":timescale")}
	t.handler = g.alt(l+":handler", "vide*4|soun*3|subt|text|meta")
	var kinds string
	switch t.handler {
	case "vide":
		kinds = "avc1*3|avc3|hvc1*2|hev1|encv*3|av01|vp08|vp09"
	case "soun":
		kinds = "mp4a*3|ac-3|ec-3|enca*2"
	case "subt":
		kinds = "stpp"
	case "text":
		kinds = "wvtt"
	default:
		kinds = "evte"
	}
	if g.allEnc && t.handler == "vide" {
		kinds = "encv"
	} else if g.allEnc && t.handler == "soun" {
		kinds = "enca"
	}
	for i, n := 0, 1+b2i(g.pct(l+":twoentries", 15)); i < n; i++ {
		e := g.alt(l+":entry", kinds)
		t.entries = append(t.entries, e)
		if (e == "encv" || e == "enca") && t.enc == nil {
			t.enc = g.drawEnc()
		}
	}
	for i, n := 0, g.ruleCount("stbl", "sgpd"); i < n; i++ {
		gt := g.groupingType(l + ":grouping")
		if gt == "seig" && t.enc == nil {
			gt = "roll"
		}
		t.groups = append(t.groups, group{gt, g.rng(l+":ndesc", 1, 3)})
	}
	if fragmented {
		t.trexDur = g.pickU32(l+":trexdur", 0, 1024, 3000)
		t.trexSize = uint32(g.rng(l+":trexsize", 0, 24))
		t.trexFlags = g.sampleFlags(l + ":trexflags")
		t.time = g.pickU64(l+":start", 0, 0, 90000, 1<<32+5)
		t.stts, _ = g.sttsPayload(0)
		return t
	}
	t.n = g.count(l + ":samples")
	if first && t.n == 0 && !g.pct(l+":empty", 3) {
		t.n = 1
	}
	t.sizes = g.drawSizes(l+":sizes", t.n)
	t.chunks = g.drawChunks(t.n, len(t.entries))
	t.stts, t.dur = g.sttsPayload(t.n)
	return t
}

// rescale converts a duration between timescales.
func rescale(d uint64, from, to uint32) uint64 {
	if from == 0 || from == to || d > 1<<40 {
		return d
	}
	return d * uint64(to) / uint64(from)
}

func b2i(b bool) int {
	if b {
		return 1
	}
	return 0
}

// ruleCount draws the number of children of the given type from the grammar rule of the parent.
func (g *gen) ruleCount(parent, typ string) int {
	for _, r := range grammar[parent] {
		if r.Type == typ {
			n := r.Min
			for n < r.Max && g.pct(parent+">"+typ+":more", r.Weight) {
				n++
			}
			return n
		}
	}
	return 0
}

// optKids generates the optional children of the given types according to the grammar.
func (g *gen) optKids(parent string, types ...string) []kid {
	var out []kid
	for _, typ := range types {
		for i, n := 0, g.ruleCount(parent, typ); i < n; i++ {
			out = append(out, kid{typ, g.box(typ)})
		}
	}
	return out
}

func (g *gen) installHooks() {
	mediaHeader := func(g *gen) []byte {
		switch g.trk.handler {
		case "vide":
			return g.plainBox("vmhd")
		case "soun":
			return g.plainBox("smhd")
		case "subt":
			return g.plainBox("sthd")
		}
		return g.plainBox("nmhd")
	}
	g.hooks = map[string]func(g *gen) []byte{
		"tkhd": func(g *gen) []byte {
			t := g.trk
			return g.wrap("tkhd", g.tkhdPayload(t.id, rescale(t.dur, t.timescale, g.movieTS), t.handler == "vide", t.handler == "soun"))
		},
		"mdhd": func(g *gen) []byte { return g.wrap("mdhd", g.mdhdPayload(g.trk.timescale, g.trk.dur)) },
		"hdlr": func(g *gen) []byte { return g.wrap("hdlr", g.hdlrPayload(g.trk.handler)) },
		"vmhd": mediaHeader, "smhd": mediaHeader, "sthd": mediaHeader, "nmhd": mediaHeader,
		"meta": func(g *gen) []byte { // the handler of a meta box is not the handler of the track
			h := g.hooks["hdlr"]
			delete(g.hooks, "hdlr")
			b := g.plainBox("meta")
			g.hooks["hdlr"] = h
			return b
		},
		"stbl": (*gen).stblBox,
	}
}

// stblBox: sample table of the current track; for a fragmented file all tables are empty.
func (g *gen) stblBox() []byte {
	t := g.trk
	var kids []kid
	add := func(typ string, payload []byte) { kids = append(kids, kid{typ, g.wrap(typ, payload)}) }

	var entries []kid
	for _, e := range t.entries {
		entries = append(entries, kid{e, g.box(e)})
	}
	add("stsd", g.countedContainer("stsd", entries))
	add("stts", t.stts)
	if t.handler == "vide" && g.ruleCount("stbl", "ctts") > 0 {
		add("ctts", g.cttsPayload(t.n))
		if g.ruleCount("stbl", "cslg") > 0 {
			add("cslg", g.cslgPayload())
		}
	}
	add("stsc", g.stscPayload(t.chunks))
	if g.alt("stbl>sizes", "stsz*12|stz2*1") == "stz2" {
		add("stz2", g.stz2Payload(t.sizes))
	} else {
		add("stsz", g.stszPayload(t.sizes))
	}
	off := append([]uint64{}, t.chunkOff...)
	if len(off) > 0 && g.hostile("stbl:offsets", 15) {
		off[g.rng("stbl:whichoffset", 0, len(off)-1)] += g.pickU64("stbl:badoffset", 100000, 0x7fffffff, 0xfffffff0)
	}
	if g.pct("stbl:co64", 30) {
		add("co64", g.co64Payload(off))
	} else {
		add("stco", g.stcoPayload(off))
	}
	if t.handler == "vide" && g.ruleCount("stbl", "stss") > 0 {
		add("stss", g.stssPayload(t.n))
	}
	if g.ruleCount("stbl", "sdtp") > 0 {
		add("sdtp", g.sdtpPayload(t.n))
	}
	for _, gr := range t.groups {
		add("sgpd", g.sgpdPayload(gr.grouping, gr.nDesc))
		if t.n > 0 && g.pct("stbl:sbgp", 80) {
			add("sbgp", g.sbgpPayload(gr.grouping, t.n, gr.nDesc, false))
		}
	}
	if t.n > 0 && g.ruleCount("stbl", "subs") > 0 {
		add("subs", g.subsPayload())
	}
	return g.wrap("stbl", g.arrange("stbl", kids))
}

// moovBox builds the movie box for the tracks.
func (g *gen) moovBox(tracks []*track, fragmented bool) []byte {
	var kids []kid
	var traks []kid
	var maxDur uint64
	g.movieTS = tracks[0].timescale
	for _, t := range tracks {
		g.trk, g.enc = t, t.enc
		traks = append(traks, kid{"trak", g.box("trak")})
		if d := rescale(t.dur, t.timescale, g.movieTS); d > maxDur {
			maxDur = d
		}
	}
	g.trk, g.enc = nil, nil
	hooks := g.hooks
	g.hooks = nil // below the track level nothing depends on a track
	defer func() { g.hooks = hooks }()
	next := uint32(len(tracks) + 1)
	if g.pct("mvhd:nextmax", 10) {
		next = 0xffffffff // "all ones": search for an unused track ID
	}
	kids = append(kids, kid{"mvhd", g.wrap("mvhd", g.mvhdPayload(g.movieTS, maxDur, next))})
	kids = append(kids, traks...)
	if fragmented {
		var mk []kid
		if g.ruleCount("mvex", "mehd") > 0 {
			mk = append(mk, kid{"mehd", g.wrap("mehd", g.mehdPayload(g.time64("mehd:dur")))})
		}
		for _, t := range tracks {
			id := t.id
			if g.hostile("trex:track", 10) {
				id = g.pickU32("trex:badtrack", 0, 99, 0xffffffff)
			}
			p := full(0, 0).u32(id).u32(1).u32(t.trexDur).u32(t.trexSize).u32(t.trexFlags).b
			mk = append(mk, kid{"trex", g.wrap("trex", p)})
		}
		mk = append(mk, g.optKids("mvex", "leva", "trep")...)
		kids = append(kids, kid{"mvex", g.wrap("mvex", g.arrange("mvex", mk))})
	}
	kids = append(kids, g.optKids("moov", "pssh", "udta", "meta")...)
	return g.wrap("moov", g.arrange("moov", kids))
}

// ---------------------------------------------------------------------------------------------
// finding boxes again in generated bytes

type ref struct {
	typ              string
	start, body, end int
}

// scan lists the boxes in b[start:end].
func scan(b []byte, start, end int) []ref {
	var out []ref
	for pos := start; pos+8 <= end; {
		size, hdr := int(binary.BigEndian.Uint32(b[pos:])), 8
		if size == 1 && pos+16 <= end {
			size, hdr = int(binary.BigEndian.Uint64(b[pos+8:])), 16
		}
		if size < hdr || pos+size > end {
			break
		}
		out = append(out, ref{string(b[pos+4 : pos+8]), pos, pos + hdr, pos + size})
		pos += size
	}
	return out
}

func pickRefs(rs []ref, typ string) []ref {
	var out []ref
	for _, r := range rs {
		if r.typ == typ {
			out = append(out, r)
		}
	}
	return out
}

// descend follows a path of box types starting in the list rs, returning all boxes at the end of the path.
func descend(b []byte, rs []ref, path ...string) []ref {
	cur := rs
	for i, p := range path {
		cur = pickRefs(cur, p)
		if i == len(path)-1 {
			break
		}
		var kids []ref
		for _, r := range cur {
			kids = append(kids, scan(b, r.body, r.end)...)
		}
		cur = kids
	}
	return cur
}

// addChunkOffsets adds delta to every entry of every stco/co64 below the moov box r.
func addChunkOffsets(b []byte, r ref, delta uint64) {
	stbls := descend(b, scan(b, r.body, r.end), "trak", "mdia", "minf", "stbl")
	for _, st := range stbls {
		for _, c := range scan(b, st.body, st.end) {
			if c.typ != "stco" && c.typ != "co64" || c.end-c.body < 8 {
				continue
			}
			w := 4
			if c.typ == "co64" {
				w = 8
			}
			for p := c.body + 8; p+w <= c.end; p += w {
				if w == 4 {
					binary.BigEndian.PutUint32(b[p:], binary.BigEndian.Uint32(b[p:])+uint32(delta))
				} else {
					binary.BigEndian.PutUint64(b[p:], binary.BigEndian.Uint64(b[p:])+delta)
				}
			}
		}
	}
}

// ---------------------------------------------------------------------------------------------
// progressive file

func (g *gen) trackCount() int { return g.ruleCount("moov", "trak") }

func (g *gen) fileProg() []byte {
	g.installHooks()
	var tracks []*track
	for i, n := 0, g.trackCount(); i < n; i++ {
		tracks = append(tracks, g.drawTrack(uint32(i+1), false, i == 0))
	}
	// interleave the chunks of the tracks in the media data
	var media []byte
	for ci, more := 0, true; more; ci++ {
		more = false
		for _, t := range tracks {
			if ci >= len(t.chunks) {
				continue
			}
			more = true
			t.chunkOff = append(t.chunkOff, uint64(len(media)))
			first := 0
			for _, c := range t.chunks[:ci] {
				first += c.samples
			}
			for s := first; s < first+t.chunks[ci].samples; s++ {
				for k := uint32(0); k < t.sizes[s]; k++ {
					media = append(media, byte(t.id<<4)|byte(s&15))
				}
			}
		}
	}
	if g.pct("prog:padding", 15) {
		media = append(media, g.bytes("prog:pad", 1, 8)...) // unreferenced bytes at the end of mdat
	}
	moov := g.moovBox(tracks, false)
	g.hooks = nil
	mdat := g.wrap("mdat", media)
	parts := [][]byte{g.box("ftyp")}
	if g.pct("prog:mdatfirst", 30) {
		parts = append(parts, mdat, moov)
	} else {
		parts = append(parts, moov, mdat)
	}
	parts = g.topJunk("prog", parts)
	// an extra EMPTY mdat box (8- or 16-byte header) next to the real one is legal and accepted by the library
	if len(media) > 0 && g.pct("prog:emptymdat", 12) {
		empty := []byte{0, 0, 0, 8, 'm', 'd', 'a', 't'}
		if g.pct("prog:emptymdat-large", 50) {
			empty = []byte{0, 0, 0, 1, 'm', 'd', 'a', 't', 0, 0, 0, 0, 0, 0, 0, 16}
		}
		at := g.rng("prog:emptymdat-at", 1, len(parts))
		parts = append(parts[:at], append([][]byte{empty}, parts[at:]...)...)
	}
	var out []byte
	moovAt, mdatAt := -1, -1
	for _, p := range parts {
		switch string(p[4:8]) {
		case "moov":
			moovAt = len(out)
		case "mdat":
			if &p[0] == &mdat[0] { // the real one, not an extra empty box
				mdatAt = len(out)
			}
		}
		out = append(out, p...)
	}
	mdatBody := mdatAt + len(mdat) - len(media)
	addChunkOffsets(out, ref{"moov", moovAt, moovAt + hdrLen(moov), moovAt + len(moov)}, uint64(mdatBody))
	return out
}

func hdrLen(box []byte) int {
	if binary.BigEndian.Uint32(box) == 1 {
		return 16
	}
	return 8
}

// topJunk occasionally puts free/skip/unknown/uuid boxes between top-level boxes (never in front of the first).
func (g *gen) topJunk(label string, parts [][]byte) [][]byte {
	if !g.pct(label+":junk", 8) {
		return parts
	}
	var out [][]byte
	for i, p := range parts {
		// mp4ff does not accept a box between moof and mdat; do it rarely
		afterMoof := i > 0 && string(parts[i-1][4:8]) == "moof"
		if i > 0 && g.pct(label+":junk@"+strconv.Itoa(i), 40) && (!afterMoof || g.pct(label+":aftermoof", 10)) {
			out = append(out, g.junk())
		}
		out = append(out, p)
	}
	if g.pct(label+":junk@end", 30) {
		out = append(out, g.junk())
	}
	return out
}

// ---------------------------------------------------------------------------------------------
// fragmented files

func (g *gen) initSegment(tracks []*track) []byte {
	g.installHooks()
	moov := g.moovBox(tracks, true)
	g.hooks = nil
	parts := g.topJunk("init", [][]byte{g.box("ftyp"), moov})
	var out []byte
	for _, p := range parts {
		out = append(out, p...)
	}
	return out
}

const (
	baseMoofFlag     = iota // default-base-is-moof
	baseExplicitMoof        // base-data-offset = position of the moof
	baseExplicitMdat        // base-data-offset = position of the mdat payload
	baseDefault             // neither: moof for the first traf, end of the previous traf's data for the others
)

type trafPlan struct {
	t        *track
	mode     int
	truns    []trunSpec
	sizes    [][]uint32 // per trun: sample sizes
	dataLen  int        // media bytes of this traf
	hasSenc  bool
	hasSaio  bool
	duration uint64
}

// trafBox builds one track fragment; haveMoov tells whether trex defaults exist.
func (g *gen) trafBox(t *track, j int, haveMoov bool) (kid, *trafPlan) {
	l := "traf" + strconv.Itoa(j)
	p := &trafPlan{t: t}
	nTruns := g.ruleCount("traf", "trun")
	encrypted := t.enc != nil || !haveMoov && g.pct(l+":encrypted", 30)
	p.hasSenc = encrypted && nTruns > 0 && g.pct(l+":senc", 90)
	piff := p.hasSenc && g.pct(l+":piff", 20)
	saioPct := 85 // CENC requires saiz/saio next to senc, PIFF does not have them
	if piff {
		saioPct = 20
	}
	p.hasSaio = p.hasSenc && g.pct(l+":saio", saioPct)

	switch g.rng(l+":basemode", 0, 9) {
	case 0, 1, 2, 3, 4:
		p.mode = baseMoofFlag
	case 5:
		p.mode = baseExplicitMoof
	case 6:
		p.mode = baseExplicitMdat
	default:
		p.mode = baseDefault
	}
	if p.hasSaio && (p.mode == baseExplicitMdat || p.mode == baseDefault && j > 0) {
		p.mode = baseMoofFlag // keep the saio offset (relative to the base data offset) non-negative
	}

	tf := tfhdSpec{trackID: t.id, sdi: uint32(g.rng(l+":sdi", 1, len(t.entries))), dur: g.sampleDelta(l + ":defdur"),
		size: uint32(g.rng(l+":defsize", 0, 24)), sampleFlags: g.sampleFlags(l + ":defflags")}
	tf.flags = g.drawFlags(l+":tfhdflags", tfhdSampleDescIndex, tfhdDefaultDuration, tfhdDefaultSize, tfhdDefaultFlags)
	switch p.mode {
	case baseMoofFlag:
		tf.flags |= tfhdDefaultBaseMoof
	case baseExplicitMoof, baseExplicitMdat:
		tf.flags |= tfhdBaseDataOffset
		if g.pct(l+":bothbase", 20) {
			tf.flags |= tfhdDefaultBaseMoof // ignored when base-data-offset is present
		}
	}
	if nTruns == 0 && g.pct(l+":empty", 50) {
		tf.flags |= tfhdDurationIsEmpty
	}
	if g.hostile(l+":tfhd", 10) {
		tf.trackID = g.pickU32(l+":badtrack", 0, 99, 0xffffffff)
		tf.sdi = g.pickU32(l+":badsdi", 0, 99)
	}

	total := 0
	var allSizes []uint32
	for k := 0; k < nTruns; k++ {
		lk := l + ":trun" + strconv.Itoa(k)
		n := g.count(lk + ":samples")
		if total+n > 40 {
			n = 40 - total
		}
		total += n
		tr := g.drawTrun(n)
		mayOmit := k > 0 || p.mode == baseDefault && j > 0 || p.mode == baseExplicitMdat && j == 0
		tr.flags |= trunDataOffset
		if mayOmit && g.pct(lk+":nooffset", 50) {
			tr.flags &^= trunDataOffset
		}
		if !haveMoov { // no trex: the defaults have to come from tfhd
			if tr.flags&trunSize == 0 {
				tf.flags |= tfhdDefaultSize
			}
			if tr.flags&trunDuration == 0 {
				tf.flags |= tfhdDefaultDuration
			}
			if tr.flags&(trunFlags) == 0 {
				tf.flags |= tfhdDefaultFlags
			}
		}
		p.truns = append(p.truns, tr)
	}
	for k := range p.truns {
		tr := &p.truns[k]
		sizes := make([]uint32, len(tr.samples))
		for i, s := range tr.samples {
			switch {
			case tr.flags&trunSize != 0:
				sizes[i] = s.size
			case tf.flags&tfhdDefaultSize != 0:
				sizes[i] = tf.size
			default:
				sizes[i] = t.trexSize
			}
			if sizes[i] > 4096 { // hostile sizes do not get media bytes
				sizes[i] = 0
			}
			p.dataLen += int(sizes[i])
			switch {
			case tr.flags&trunDuration != 0:
				p.duration += uint64(s.dur)
			case tf.flags&tfhdDefaultDuration != 0:
				p.duration += uint64(tf.dur)
			default:
				p.duration += uint64(t.trexDur)
			}
		}
		p.sizes = append(p.sizes, sizes)
		allSizes = append(allSizes, sizes...)
	}

	var kids []kid
	add := func(typ string, payload []byte) { kids = append(kids, kid{typ, g.wrap(typ, payload)}) }
	add("tfhd", tf.payload())
	if g.ruleCount("traf", "tfdt") > 0 {
		add("tfdt", g.tfdtPayload(t.time))
	}
	for k, tr := range p.truns {
		tr.dataOffset = uint32(k) // placeholder
		add("trun", tr.payload(g.trunCount(len(tr.samples))))
	}
	// sample groups: fragment-local description (indices from 0x10001) or the description in the moov
	ivSize, clear := -1, false
	if p.hasSenc && g.pct(l+":seig", 20) {
		// one seig description for all samples of the fragment (key rotation / clear lead)
		e := g.sampleGroupEntry("seig", l+":seig")
		ivSize, clear = 8, e[2] != 1
		if iv := int(e[3]); iv == 0 || iv == 8 || iv == 16 {
			ivSize = iv
		}
		v := g.pickInt(l+":seigversion", 1, 2)
		w := full(v, 0).str("seig").u32(uint32(len(e)))
		if v == 2 {
			w.u32(0)
		}
		add("sgpd", w.u32(1).raw(e).b)
		index := uint32(0x10001)
		if g.hostile(l+":seigindex", 30) {
			// the fragment-local description has exactly one entry: everything around 0x10001 is out of range
			index = g.pickU32(l+":badseigindex", 0x10002, 0x10000, 0x10003, 0, 1, 2, 0xffffffff, 0x20001)
		}
		add("sbgp", full(0, 0).str("seig").u32(1).u32(uint32(total)).u32(index).b)
	}
	if ivSize < 0 && total > 0 && g.ruleCount("traf", "sgpd") > 0 {
		gt := g.groupingType(l + ":grouping")
		if gt == "seig" {
			gt = "rap "
		}
		if haveMoov && len(t.groups) > 0 && g.pct(l+":globalgroup", 40) {
			gr := t.groups[g.rng(l+":whichgroup", 0, len(t.groups)-1)]
			if gr.grouping != "seig" {
				add("sbgp", g.sbgpPayload(gr.grouping, total, gr.nDesc, false))
			}
		} else {
			nd := g.rng(l+":ndesc", 1, 3)
			add("sgpd", g.sgpdPayload(gt, nd))
			add("sbgp", g.sbgpPayload(gt, total, nd, true))
		}
	}
	if total > 0 && g.ruleCount("traf", "subs") > 0 {
		add("subs", g.subsPayload())
	}
	if p.hasSenc {
		spec := sencSpec{n: total, subsamples: g.pct(l+":subsamples", 50)}
		switch {
		case clear: // not protected according to seig: no IV, no subsamples
			spec.subsamples = false
		case ivSize >= 0:
			spec.ivSize = ivSize
		case t.enc != nil && t.enc.tenc.protected == 1:
			spec.ivSize = t.enc.tenc.ivSize
		default:
			spec.ivSize = g.pickInt(l+":ivsize", 8, 16)
		}
		senc, aux := g.sencPayload(spec, allSizes)
		saizPct := 10
		if p.hasSaio {
			saizPct = 85
		}
		if g.pct(l+":saiz", saizPct) {
			add("saiz", g.saizPayload(aux))
		}
		if p.hasSaio {
			add("saio", g.saioPayload([]uint64{0})) // patched
		}
		if piff {
			add("uuid", append(append([]byte{}, uuidPiffSenc...), senc...))
		} else {
			add("senc", senc)
		}
	}
	if g.pct(l+":mss", 8) { // Smooth Streaming tfxd / tfrf
		add("uuid", (&wr{}).raw(uuidTfxd).raw(full(1, 0).b).u64(t.time).u64(p.duration).b)
		if g.pct(l+":tfrf", 50) {
			add("uuid", (&wr{}).raw(uuidTfrf).raw(full(1, 0).b).u8(1).u64(t.time+p.duration).u64(p.duration).b)
		}
	}
	return kid{"traf", g.wrap("traf", g.arrange("traf", kids))}, p
}

type fragInfo struct {
	moofOff  int // offset of the moof within the fragment bytes
	refTrack uint32
	time     uint64
	duration uint64
}

// fragment builds (emsg|prft)* moof mdat for the tracks that take part; pos is its position in the file.
func (g *gen) fragment(tracks []*track, seq uint32, pos int, haveMoov bool) ([]byte, fragInfo) {
	l := "frag" + strconv.Itoa(int(seq))
	var out []byte
	if g.pct(l+":hasevents", 30) {
		for i, n := 0, g.rng(l+":events", 1, 2); i < n; i++ {
			out = append(out, g.box(g.pick(l+":event", "emsg", "prft"))...)
		}
	}
	// which tracks have a traf in this fragment: usually all of them
	var part []*track
	for i, t := range tracks {
		if g.pct(l+":track"+strconv.Itoa(i), 85) {
			part = append(part, t)
		}
	}
	if len(part) == 0 && !g.pct(l+":notraf", 10) {
		part = tracks[:1]
	}
	var kids []kid
	kids = append(kids, kid{"mfhd", g.wrap("mfhd", full(0, 0).u32(seq).b)})
	kids = append(kids, g.optKids("moof", "pssh")...)
	var plans []*trafPlan
	for j, t := range part {
		k, p := g.trafBox(t, j, haveMoov)
		kids = append(kids, k)
		plans = append(plans, p)
	}
	moof := g.wrap("moof", g.arrange("moof", kids))
	var media []byte
	for _, p := range plans {
		for k := range p.truns {
			for i, s := range p.sizes[k] {
				for n := uint32(0); n < s; n++ {
					media = append(media, byte(p.t.id<<4)|byte(i&15))
				}
			}
		}
	}
	mdat := g.wrap("mdat", media)
	info := fragInfo{moofOff: len(out)}
	moofPos := pos + len(out)
	g.patchMoof(moof, plans, moofPos, len(mdat)-len(media))
	for j, p := range plans {
		if j == 0 {
			info.refTrack, info.time, info.duration = p.t.id, p.t.time, p.duration
		}
		if len(p.truns) > 0 {
			p.t.tfra = append(p.t.tfra, tfraEntry{p.t.time, uint64(moofPos), uint32(j + 1), 1, 1})
		}
		p.t.time += p.duration
	}
	out = append(out, moof...)
	if g.pct(l+":gap", 1) {
		out = append(out, g.junk()...) // legal, but mp4ff wants mdat directly after moof
	}
	return append(out, mdat...), info
}

// patchMoof fills in tfhd base_data_offset, trun data_offset and saio offset.
func (g *gen) patchMoof(moof []byte, plans []*trafPlan, moofPos, mdatHdr int) {
	trafs := pickRefs(scan(moof, hdrLen(moof), len(moof)), "traf")
	mdatBody := len(moof) + mdatHdr // relative to the moof
	rel := 0                        // position in the mdat payload
	for j, tr := range trafs {
		if j >= len(plans) {
			break
		}
		p := plans[j]
		var base int // relative to the moof
		switch p.mode {
		case baseMoofFlag, baseExplicitMoof:
			base = 0
		case baseExplicitMdat:
			base = mdatBody
		default:
			if j > 0 {
				base = mdatBody + rel
			}
		}
		kids := scan(moof, tr.body, tr.end)
		for _, r := range pickRefs(kids, "tfhd") {
			if binary.BigEndian.Uint32(moof[r.body:])&tfhdBaseDataOffset != 0 && r.end-r.body >= 16 {
				binary.BigEndian.PutUint64(moof[r.body+8:], uint64(moofPos+base))
			}
		}
		for k, r := range pickRefs(kids, "trun") {
			if k >= len(p.truns) {
				break
			}
			if binary.BigEndian.Uint32(moof[r.body:])&trunDataOffset != 0 && r.end-r.body >= 12 {
				off := uint32(mdatBody + rel - base)
				if g.hostile("trun:dataoffset", 8) {
					off = g.pickU32("trun:baddataoffset", 0, 1, 0x7fffffff, 0x80000000, 0xffffffff, off+1000)
				}
				binary.BigEndian.PutUint32(moof[r.body+8:], off)
			}
			for _, s := range p.sizes[k] {
				rel += int(s)
			}
		}
		// saio: offset of the first sample auxiliary information, i.e. the first byte after sample_count in senc
		sencData := -1
		for _, r := range kids {
			if r.typ == "senc" {
				sencData = r.body + 8
			}
			if r.typ == "uuid" && r.end-r.body >= 24 && string(moof[r.body:r.body+16]) == string(uuidPiffSenc) {
				sencData = r.body + 16 + 8
			}
		}
		for _, r := range pickRefs(kids, "saio") {
			if sencData < 0 {
				continue
			}
			vf := binary.BigEndian.Uint32(moof[r.body:])
			at := r.body + 8
			if vf&1 != 0 {
				at += 8
			}
			off := uint64(sencData - base)
			if g.hostile("saio:offset", 15) {
				off = g.pickU64("saio:badoffset", 0, off+1, off-1, 0xffffffff, 1<<40)
			}
			if vf>>24 == 0 && at+4 <= r.end {
				binary.BigEndian.PutUint32(moof[at:], uint32(off))
			} else if vf>>24 == 1 && at+8 <= r.end {
				binary.BigEndian.PutUint64(moof[at:], off)
			}
		}
	}
}

// mediaSegments builds (styp? sidx? fragment+)+ starting at file position pos.
func (g *gen) mediaSegments(tracks []*track, pos int, haveMoov bool) []byte {
	var out []byte
	seq := uint32(g.pickInt("media:firstseq", 1, 1, 0, 100))
	for si, nSeg := 0, g.rng("media:segments", 1, 2); si < nSeg; si++ {
		l := "seg" + strconv.Itoa(si)
		var head []byte
		if g.pct(l+":styp", 60) {
			head = append(head, g.box("styp")...)
		}
		withSidx := g.pct(l+":sidx", 35)
		nFrag := g.rng(l+":fragments", 1, 2)
		sidxVersion, sidxLen := g.rng(l+":sidxversion", 0, 1), 0
		for _, t := range tracks {
			if t.time > 0xffffffff {
				sidxVersion = 1
			}
		}
		if withSidx {
			sidxLen = 32 + 8*sidxVersion + 12*nFrag
		}
		var body []byte
		var refs []sidxRef
		var first fragInfo
		for fi := 0; fi < nFrag; fi++ {
			f, info := g.fragment(tracks, seq, pos+len(out)+len(head)+sidxLen+len(body), haveMoov)
			seq++
			if fi == 0 {
				first = info
			}
			d := info.duration
			if d > 0xffffffff {
				d = 0xffffffff
			}
			refs = append(refs, sidxRef{size: uint32(len(f)), duration: uint32(d), startsWithSAP: 1, sapType: g.rng(l+":saptype", 1, 3)})
			body = append(body, f...)
		}
		out = append(out, head...)
		if withSidx {
			ts := uint32(1000)
			for _, t := range tracks {
				if t.id == first.refTrack {
					ts = t.timescale
				}
			}
			out = append(out, sidxBox(sidxVersion, first.refTrack, ts, first.time, refs)...)
		}
		out = append(out, body...)
	}
	return out
}

// sidxBox writes a segment index with first_offset 0 (never the 64-bit size form: its length is needed in advance).
func sidxBox(version int, refID, ts uint32, ept uint64, refs []sidxRef) []byte {
	w := full(version, 0).u32(refID).u32(ts)
	if version == 1 {
		w.u64(ept).u64(0)
	} else {
		w.u32(uint32(ept)).u32(0)
	}
	w.u16(0).u16(len(refs))
	for _, r := range refs {
		w.u32(uint32(r.refType)<<31 | r.size&0x7fffffff).u32(r.duration)
		w.u32(uint32(r.startsWithSAP)<<31 | uint32(r.sapType)<<28 | r.sapDelta&0x0fffffff)
	}
	return mk("sidx", w.b)
}

func (g *gen) mfraBox(tracks []*track) []byte {
	var payload []byte
	for _, t := range tracks {
		if len(t.tfra) == 0 && g.pct("mfra:skipempty", 70) {
			continue
		}
		payload = append(payload, g.wrap("tfra", g.tfraPayload(t.id, t.tfra))...)
		if g.pct("mfra:junk", 3) {
			payload = append(payload, g.junk()...)
		}
	}
	size := uint32(len(payload) + 16 + 8)
	if g.hostile("mfro:size", 25) {
		size = g.pickU32("mfro:badsize", 0, 16, size+1, 0xffffffff)
	}
	payload = append(payload, mk("mfro", full(0, 0).u32(size).b)...)
	return mk("mfra", payload)
}

func (g *gen) syntheticTracks() []*track {
	var tracks []*track
	for i, n := 0, 1+b2i(g.pct("media:twotracks", 25)); i < n; i++ {
		t := &track{id: uint32(i + 1), timescale: g.timescale("media:timescale"), entries: []string{"avc1"}}
		t.time = g.pickU64("media:start", 0, 0, 90000, 1<<32+5)
		tracks = append(tracks, t)
	}
	return tracks
}

func (g *gen) fileFrag(withMfra bool) []byte {
	var tracks []*track
	for i, n := 0, g.trackCount(); i < n; i++ {
		tracks = append(tracks, g.drawTrack(uint32(i+1), true, i == 0))
	}
	out := g.initSegment(tracks)
	out = append(out, g.mediaSegments(tracks, len(out), true)...)
	if withMfra {
		out = append(out, g.mfraBox(tracks)...)
	}
	return out
}

// File returns a complete top-level box sequence; kind is "prog", "init", "media", "frag" or "any".
func File(t *rapid.T, kind string, o Opt) []byte {
	g := &gen{t: t, o: o}
	if kind == "any" || kind == "" {
		kind = g.pick("file:kind", "prog", "init", "media", "frag")
	}
	g.allEnc = g.pct("file:protected-presentation", 20)
	switch kind {
	case "prog":
		return g.fileProg()
	case "init":
		var tracks []*track
		for i, n := 0, g.trackCount(); i < n; i++ {
			tracks = append(tracks, g.drawTrack(uint32(i+1), true, i == 0))
		}
		return g.initSegment(tracks)
	case "media":
		return g.mediaSegments(g.syntheticTracks(), 0, false)
	default:
		return g.fileFrag(g.pct("frag:mfra", 35))
	}
}
