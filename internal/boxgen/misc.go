package boxgen

import "strconv"

// Header boxes, data references, DRM boxes, DASH event/time boxes, user data and metadata, uuid boxes.

var unityMatrix = []uint32{0x00010000, 0, 0, 0, 0x00010000, 0, 0, 0, 0x40000000}

func (g *gen) matrix(label string, w *wr) {
	m := unityMatrix
	if g.pct(label+":rotated", 20) {
		m = []uint32{0, 0x00010000, 0, 0xffff0000, 0, 0, 0, 0, 0x40000000} // 90 degrees
	}
	for _, v := range m {
		w.u32(v)
	}
}

// times writes creation_time, modification_time, timescale (or track_ID + reserved for tkhd), duration.
func (g *gen) mvhdPayload(timescale uint32, dur uint64, nextTrack uint32) []byte {
	version := 0
	if dur > 0xffffffff || g.pct("mvhd:v1", 35) {
		version = 1
	}
	w := full(version, 0)
	if version == 1 {
		w.u64(g.u64("mvhd:ctime")).u64(g.u64("mvhd:mtime")).u32(timescale).u64(dur)
	} else {
		w.u32(g.u32("mvhd:ctime")).u32(g.u32("mvhd:mtime")).u32(timescale).u32(uint32(dur))
	}
	rate, vol := uint32(0x00010000), 0x0100
	if g.pct("mvhd:rate", 10) {
		rate, vol = g.pickU32("mvhd:ratev", 0x00020000, 0x00008000, 0), g.pickInt("mvhd:vol", 0, 0x0080)
	}
	w.u32(rate).u16(vol).zeros(10)
	g.matrix("mvhd", w)
	w.zeros(24).u32(nextTrack)
	return w.b
}

func (g *gen) tkhdPayload(trackID uint32, dur uint64, visual, audio bool) []byte {
	version := 0
	if dur > 0xffffffff || g.pct("tkhd:v1", 35) {
		version = 1
	}
	flags := g.pickU32("tkhd:flags", 7, 7, 3, 1, 0, 15)
	w := full(version, flags)
	if version == 1 {
		w.u64(g.u64("tkhd:ctime")).u64(g.u64("tkhd:mtime")).u32(trackID).u32(0).u64(dur)
	} else {
		w.u32(g.u32("tkhd:ctime")).u32(g.u32("tkhd:mtime")).u32(trackID).u32(0).u32(uint32(dur))
	}
	w.zeros(8).u16(int(uint16(int16(g.rng("tkhd:layer", -1, 2))))).u16(g.rng("tkhd:altgroup", 0, 2))
	if audio {
		w.u16(0x0100)
	} else {
		w.u16(0)
	}
	w.u16(0)
	g.matrix("tkhd", w)
	if visual {
		w.u32(uint32(g.rng("tkhd:width", 0, 4096)) << 16).u32(uint32(g.rng("tkhd:height", 0, 2160)) << 16)
	} else {
		w.u32(0).u32(0)
	}
	return w.b
}

func (g *gen) mdhdPayload(timescale uint32, dur uint64) []byte {
	version := 0
	if dur > 0xffffffff || g.pct("mdhd:v1", 35) {
		version = 1
	}
	w := full(version, 0)
	if version == 1 {
		w.u64(g.u64("mdhd:ctime")).u64(g.u64("mdhd:mtime")).u32(timescale).u64(dur)
	} else {
		w.u32(g.u32("mdhd:ctime")).u32(g.u32("mdhd:mtime")).u32(timescale).u32(uint32(dur))
	}
	return w.u16(g.lang("mdhd:lang")).u16(0).b
}

func (g *gen) hdlrPayload(handler string) []byte {
	w := full(0, 0).u32(0).str(handler).zeros(12)
	name := g.text("hdlr:name")
	if g.hostile("hdlr:noterm", 25) {
		return w.str(name).b // no terminator (an empty name then gives a 24-byte payload)
	}
	w.cstr(name)
	if g.pct("hdlr:padded", 8) {
		w.zeros(g.rng("hdlr:padding", 1, 3)) // zero padding behind the terminator (seen from QuickTime-style writers)
	}
	return w.b
}

func (g *gen) handlerType(label string) string {
	return g.pick(label, "vide", "soun", "subt", "text", "meta", "hint", "mdir", "ID32")
}

func (g *gen) urlPayload() []byte {
	if g.pct("url:self", 75) {
		return full(0, 1).b // media data in the same file: no string
	}
	w := full(0, 0)
	if g.hostile("url:noterm", 20) {
		return w.str(g.text("url:location")).b
	}
	return w.cstr(g.text("url:location")).b
}

func (g *gen) urnPayload() []byte {
	w := full(0, uint32(g.rng("urn:flags", 0, 1))).cstr("urn:" + g.text("urn:name"))
	if g.pct("urn:location", 50) {
		w.cstr(g.text("urn:location"))
	}
	return w.b
}

func (g *gen) brands(label string) []byte {
	pool := []string{"isom", "iso2", "iso5", "iso6", "iso9", "mp41", "mp42", "avc1", "dash", "msdh", "msix", "cmfc", "cmfs", "cmf2", "piff", "M4A ", "qt  "}
	w := &wr{}
	w.str(pool[g.rng(label+":major", 0, len(pool)-1)]).u32(g.pickU32(label+":minor", 0, 1, 512, 0x20000000))
	for i, n := 0, g.rng(label+":ncompat", 0, 5); i < n; i++ {
		w.str(pool[g.rng(label+":compat", 0, len(pool)-1)])
	}
	return w.b
}

// ---------------------------------------------------------------------------------------------
// DASH

func (g *gen) emsgPayload() []byte {
	version := g.rng("emsg:version", 0, 1)
	scheme, value := g.text("emsg:scheme"), g.text("emsg:value")
	ts, dur, id := g.timescale("emsg:timescale"), g.time32("emsg:dur"), g.u32("emsg:id")
	w := full(version, 0)
	if version == 1 {
		w.u32(ts).u64(g.time64("emsg:time")).u32(dur).u32(id).cstr(scheme).cstr(value)
	} else {
		w.cstr(scheme).cstr(value).u32(ts).u32(g.time32("emsg:delta")).u32(dur).u32(id)
	}
	return w.raw(g.bytes("emsg:data", 0, 24)).b
}

func (g *gen) prftPayload() []byte {
	version := g.rng("prft:version", 0, 1)
	w := full(version, g.pickU32("prft:flags", 0, 0, 1, 2, 4, 8, 16, 24)).u32(uint32(g.rng("prft:track", 1, 4)))
	w.u64(g.pickU64("prft:ntp", 0, 0xe8b5f5e000000000, 0xe8b5f5e080000000, g.u64("prft:ntpv")))
	if version == 1 {
		return w.u64(g.time64("prft:media")).b
	}
	return w.u32(g.time32("prft:media")).b
}

// ---------------------------------------------------------------------------------------------
// Common encryption

var systemIDs = [][]byte{
	{0xed, 0xef, 0x8b, 0xa9, 0x79, 0xd6, 0x4a, 0xce, 0xa3, 0xc8, 0x27, 0xdc, 0xd5, 0x1d, 0x21, 0xed}, // Widevine
	{0x9a, 0x04, 0xf0, 0x79, 0x98, 0x40, 0x42, 0x86, 0xab, 0x92, 0xe6, 0x5b, 0xe0, 0x88, 0x5f, 0x95}, // PlayReady
	{0x10, 0x77, 0xef, 0xec, 0xc0, 0xb2, 0x4d, 0x02, 0xac, 0xe3, 0x3c, 0x1e, 0x52, 0xe2, 0xfb, 0x4b}, // Common
}

func (g *gen) psshPayload() []byte {
	version := g.rng("pssh:version", 0, 1)
	w := full(version, 0)
	if g.pct("pssh:known", 70) {
		w.raw(systemIDs[g.rng("pssh:system", 0, len(systemIDs)-1)])
	} else {
		w.raw(g.bytes("pssh:systemid", 16, 16))
	}
	if version == 1 {
		n := g.rng("pssh:kids", 0, 3)
		w.u32(g.entryCount("pssh:kid", n))
		for i := 0; i < n; i++ {
			w.raw(g.bytes("pssh:kid#"+strconv.Itoa(i), 16, 16))
		}
	}
	data := g.bytes("pssh:data", 0, 40)
	size := uint32(len(data))
	if g.hostile("pssh:datasize", 10) {
		size = g.pickU32("pssh:baddatasize", size+1, 0xffffffff, 0)
	}
	return w.u32(size).raw(data).b
}

// tencSpec: track encryption defaults, needed by senc in the movie fragments.
type tencSpec struct {
	version     int
	crypt, skip int
	protected   int
	ivSize      int
	constIV     int // size of the constant IV when protected and ivSize == 0
}

// encSpec: protection scheme with matching track encryption defaults (23001-7 sections 9, 10).
type encSpec struct {
	scheme string
	tenc   tencSpec
}

func (g *gen) drawEnc() *encSpec {
	e := &encSpec{scheme: g.scheme("enc:scheme")}
	s := tencSpec{protected: 1}
	switch e.scheme {
	case "cenc", "piff":
		s.ivSize = g.pickInt("tenc:ivsize", 8, 16)
	case "cbc1":
		s.ivSize = 16
	case "cens":
		s.version, s.crypt, s.skip, s.ivSize = 1, g.rng("tenc:crypt", 1, 9), g.rng("tenc:skip", 0, 9), g.pickInt("tenc:ivsize", 8, 16)
	case "cbcs":
		s.version, s.ivSize = 1, g.pickInt("tenc:ivsize", 0, 0, 16)
		if g.pct("tenc:pattern", 70) { // 0:0 = whole-block full sample encryption (audio)
			s.crypt, s.skip = g.pickInt("tenc:crypt", 1, 1, 5), g.pickInt("tenc:skip", 9, 9, 0)
		}
	}
	if g.pct("tenc:unprotected", 10) { // clear lead: protection switched on by seig sample groups
		s.protected, s.ivSize = 0, 0
	}
	if s.protected == 1 && s.ivSize == 0 {
		s.constIV = g.pickInt("tenc:civsize", 8, 16)
	}
	e.tenc = s
	return e
}

func (g *gen) tencPayload(s tencSpec) []byte {
	prot, iv, civ := s.protected, s.ivSize, s.constIV
	if g.hostile("tenc:bad", 15) {
		prot, iv = g.pickInt("tenc:badprot", 0, 1, 2, 255), g.pickInt("tenc:badiv", 0, 1, 8, 15, 255)
		civ = g.pickInt("tenc:badciv", 0, 1, 8, 255)
	}
	w := full(s.version, 0).u8(0).u8(s.crypt<<4 | s.skip).u8(prot).u8(iv).raw(g.bytes("tenc:kid", 16, 16))
	if prot == 1 && iv == 0 {
		w.u8(civ).raw(g.bytes("tenc:civ", civ, civ))
	}
	return w.b
}

func (g *gen) schmPayload(scheme string) []byte {
	version := uint32(0x00010000)
	if g.pct("schm:otherversion", 15) {
		version = g.pickU32("schm:version", 0, 1, 0x00010001)
	}
	if g.pct("schm:uri", 20) {
		return full(0, 1).str(scheme).u32(version).cstr(g.text("schm:uritext")).b
	}
	return full(0, 0).str(scheme).u32(version).b
}

func (g *gen) scheme(label string) string {
	return g.pick(label, "cenc", "cbcs", "cbc1", "cens", "piff")
}

// ---------------------------------------------------------------------------------------------
// uuid (PIFF / Smooth Streaming) boxes

var (
	uuidTfxd     = []byte{0x6d, 0x1d, 0x9b, 0x05, 0x42, 0xd5, 0x44, 0xe6, 0x80, 0xe2, 0x14, 0x1d, 0xaf, 0xf7, 0x57, 0xb2}
	uuidTfrf     = []byte{0xd4, 0x80, 0x7e, 0xf2, 0xca, 0x39, 0x46, 0x95, 0x8e, 0x54, 0x26, 0xcb, 0x9e, 0x46, 0xa7, 0x9f}
	uuidPiffSenc = []byte{0xa2, 0x39, 0x4f, 0x52, 0x5a, 0x9b, 0x4f, 0x14, 0xa2, 0x44, 0x6c, 0x42, 0x7c, 0x64, 0x8d, 0xf4}
	uuidPiffTenc = []byte{0x89, 0x74, 0xdb, 0xce, 0x7b, 0xe7, 0x4c, 0x51, 0x84, 0xf9, 0x71, 0x48, 0xf9, 0x88, 0x25, 0x54}
	uuidPiffPssh = []byte{0xd0, 0x8a, 0x4f, 0x18, 0x10, 0xf3, 0x4a, 0x82, 0xb6, 0xc8, 0x32, 0xd8, 0xab, 0xa1, 0x83, 0xd3}
)

func (g *gen) uuidPayload() []byte {
	w := &wr{}
	switch g.rng("uuid:kind", 0, 5) {
	case 0: // tfxd [MS-SSTR 2.2.4.4]
		version := g.rng("uuid:tfxd:version", 0, 1)
		w.raw(uuidTfxd).raw(full(version, 0).b)
		if version == 1 {
			w.u64(g.time64("uuid:tfxd:time")).u64(g.time64("uuid:tfxd:dur"))
		} else {
			w.u32(g.time32("uuid:tfxd:time")).u32(g.time32("uuid:tfxd:dur"))
		}
	case 1: // tfrf [MS-SSTR 2.2.4.5]
		version := g.rng("uuid:tfrf:version", 0, 1)
		n := g.rng("uuid:tfrf:count", 0, 3)
		cnt := n
		if g.hostile("uuid:tfrf:count", 15) {
			cnt = g.pickInt("uuid:tfrf:badcount", n+1, 255, 0)
		}
		w.raw(uuidTfrf).raw(full(version, 0).b).u8(cnt)
		for i := 0; i < n; i++ {
			if version == 1 {
				w.u64(g.time64("uuid:tfrf:time")).u64(g.time64("uuid:tfrf:dur"))
			} else {
				w.u32(g.time32("uuid:tfrf:time")).u32(g.time32("uuid:tfrf:dur"))
			}
		}
	case 2: // PIFF sample encryption box: same content as senc
		p, _ := g.sencPayload(g.drawSenc(), nil)
		w.raw(uuidPiffSenc).raw(p)
	case 3: // PIFF track encryption box
		w.raw(uuidPiffTenc).raw(full(0, 0).b).u24(g.rng("uuid:tenc:alg", 0, 2)).u8(g.pickInt("uuid:tenc:iv", 8, 16)).raw(g.bytes("uuid:tenc:kid", 16, 16))
	case 4: // PIFF protection system specific header box
		data := g.bytes("uuid:pssh:data", 0, 24)
		w.raw(uuidPiffPssh).raw(full(0, 0).b).raw(systemIDs[g.rng("uuid:pssh:system", 0, len(systemIDs)-1)]).u32(uint32(len(data))).raw(data)
	default:
		w.raw(g.bytes("uuid:id", 16, 16)).raw(g.bytes("uuid:payload", 0, 24))
	}
	return w.b
}

// ---------------------------------------------------------------------------------------------
// user data and metadata

func (g *gen) dataPayload() []byte {
	w := &wr{}
	switch g.rng("data:type", 0, 2) {
	case 0:
		w.u32(1).u32(0).str(g.text("data:text")) // UTF-8
	case 1:
		w.u32(21).u32(0).uN(uint64(g.rng("data:int", 0, 65535)), g.pickInt("data:intlen", 1, 2, 4)) // BE signed integer
	default:
		w.u32(0).u32(0).raw(g.bytes("data:bin", 0, 16))
	}
	return w.b
}

// ID32 (3GPP TS 26.244 / ISO 14496-12 annex): language + ID3v2 tag.
func (g *gen) id32Payload() []byte {
	frame := (&wr{}).str("TIT2").u32(uint32(1 + len("title"))).u16(0).u8(3).str("title").b
	if g.pct("ID32:noframe", 30) {
		frame = nil
	}
	n := len(frame)
	w := full(0, 0).u16(g.lang("ID32:lang")).str("ID3").u8(4).u8(0).u8(0)
	w.u8(n >> 21 & 0x7f).u8(n >> 14 & 0x7f).u8(n >> 7 & 0x7f).u8(n & 0x7f) // synchsafe size
	return w.raw(frame).b
}

func (g *gen) cprtPayload() []byte {
	return full(0, 0).u16(g.lang("cprt:lang")).cstr(g.text("cprt:notice")).b
}

// loudness: tlou / alou (14496-12 12.2.7)
func (g *gen) loudnessPayload() []byte {
	version := g.rng("lou:version", 0, 1)
	w := full(version, 0)
	n := 1
	if version == 1 {
		n = g.rng("lou:count", 0, 3)
		w.u8(n) // loudness_info_type (2 bits) = 0, loudness_info_count
	}
	for i := 0; i < n; i++ {
		l := "lou#" + strconv.Itoa(i)
		if version == 1 {
			w.u8(g.rng(l+":eq", 0, 63))
		}
		w.u16(g.rng(l+":downmix", 0, 127)<<6 | g.rng(l+":drc", 0, 63))
		w.u24(g.rng(l+":samplepeak", 0, 4095)<<12 | g.rng(l+":truepeak", 0, 4095))
		w.u8(g.rng(l+":tpsystem", 0, 5)<<4 | g.rng(l+":tprel", 0, 3))
		k := g.rng(l+":measurements", 0, 3)
		w.u8(k)
		for j := 0; j < k; j++ {
			w.u8(g.rng(l+":method", 0, 8)).u8(g.rng(l+":value", 0, 255)).u8(g.rng(l+":system", 0, 5)<<4 | g.rng(l+":rel", 0, 3))
		}
	}
	return w.b
}

func (g *gen) kindPayload() []byte {
	return full(0, 0).cstr(g.pick("kind:scheme", "urn:mpeg:dash:role:2011", "about:html-kind", g.text("kind:schemetext"))).
		cstr(g.pick("kind:value", "main", "caption", "", g.text("kind:valuetext"))).b
}

func (g *gen) elngPayload() []byte {
	w := full(0, 0)
	s := g.pick("elng:lang", "en", "en-US", "sv", "zh-Hant-TW", "und", "de-CH-1996")
	if g.hostile("elng:short", 15) {
		s = g.pick("elng:badlang", "x", "")
	}
	if g.pct("elng:legacy", 20) {
		// the form without version and flags, which the decoder takes for payloads under 7 bytes
		w = &wr{}
		s = g.pick("elng:legacylang", "en", "sv", "und", "en-US", "x")
		if g.hostile("elng:legacynoterm", 25) {
			s = g.pick("elng:legacyfill", "en-US0", "000000", "unden", "sv")
			return w.str(s).b
		}
		return w.cstr(s).b
	}
	if g.hostile("elng:noterm", 20) {
		return w.str(s).b
	}
	return w.cstr(s).b
}

// event message track boxes (23001-18)
func (g *gen) emibPayload() []byte {
	return full(0, 0).u32(0).u64(g.s64("emib:delta")).u32(g.time32("emib:dur")).u32(g.u32("emib:id")).
		cstr(g.text("emib:scheme")).cstr(g.text("emib:value")).raw(g.bytes("emib:data", 0, 16)).b
}

func (g *gen) silbPayload() []byte {
	n := g.rng("silb:schemes", 0, 3)
	w := full(0, 0).u32(g.entryCount("silb", n))
	for i := 0; i < n; i++ {
		w.cstr(g.text("silb:scheme")).cstr(g.text("silb:value")).u8(g.rng("silb:atleastone", 0, 1))
	}
	return w.u8(g.rng("silb:other", 0, 1)).b
}

// iods: ObjectDescriptorBox with an MP4_IOD_Tag (0x10) descriptor (14496-14 5.5, 14496-1 7.2.6.4)
func (g *gen) iodsPayload() []byte {
	body := (&wr{}).u16(g.rng("iods:odid", 1, 1023)<<6 | 0x0f)
	for _, f := range []string{"od", "scene", "audio", "visual", "graphics"} {
		body.u8(g.pickInt("iods:profile:"+f, 0xff, 0xfe, 0x01, 0x29))
	}
	return full(0, 0).u8(0x10).raw(descLen(len(body.b), g.rng("iods:lenbytes", 1, 4))).raw(body.b).b
}

func init() {
	cstrBox := func(label string) func(g *gen) []byte {
		return func(g *gen) []byte { return []byte(g.text(label)) }
	}
	trefType := func(g *gen) []byte {
		w := &wr{}
		for i, n := 0, g.rng("tref:ids", 1, 3); i < n; i++ {
			w.u32(uint32(g.rng("tref:id", 1, 4)))
		}
		return w.b
	}
	reg(map[string]func(g *gen) []byte{
		"ftyp": func(g *gen) []byte { return g.brands("ftyp") },
		"styp": func(g *gen) []byte { return g.brands("styp") },
		"free": func(g *gen) []byte { return g.bytes("free", 0, 24) },
		"skip": func(g *gen) []byte { return g.bytes("skip", 0, 24) },
		"mdat": func(g *gen) []byte { return g.bytes("mdat", 0, 64) },
		"uuid": (*gen).uuidPayload,
		"mvhd": func(g *gen) []byte {
			return g.mvhdPayload(g.timescale("mvhd:timescale"), g.time64("mvhd:dur"), uint32(g.rng("mvhd:next", 1, 5)))
		},
		"tkhd": func(g *gen) []byte {
			v := g.pct("tkhd:visual", 50)
			return g.tkhdPayload(uint32(g.rng("tkhd:track", 1, 4)), g.time64("tkhd:dur"), v, !v && g.pct("tkhd:audio", 70))
		},
		"mdhd": func(g *gen) []byte { return g.mdhdPayload(g.timescale("mdhd:timescale"), g.time64("mdhd:dur")) },
		"hdlr": func(g *gen) []byte { return g.hdlrPayload(g.handlerType("hdlr:type")) },
		"vmhd": func(g *gen) []byte {
			w := full(0, 1).u16(g.pickInt("vmhd:mode", 0, 0, 0x40))
			return w.u16(g.pickInt("vmhd:r", 0, 0x8000)).u16(g.pickInt("vmhd:g", 0, 0x8000)).u16(g.pickInt("vmhd:b", 0, 0x8000)).b
		},
		"smhd": func(g *gen) []byte { return full(0, 0).u16(g.pickInt("smhd:balance", 0, 0, 0x0100, 0xff00)).u16(0).b },
		"sthd": func(g *gen) []byte { return full(0, 0).b },
		"nmhd": func(g *gen) []byte { return full(0, 0).b },
		"url ": (*gen).urlPayload,
		"urn ": (*gen).urnPayload,
		"emsg": (*gen).emsgPayload,
		"prft": (*gen).prftPayload,
		"pssh": (*gen).psshPayload,
		"tenc": func(g *gen) []byte {
			if g.enc != nil {
				return g.tencPayload(g.enc.tenc)
			}
			return g.tencPayload(g.drawEnc().tenc)
		},
		"schm": func(g *gen) []byte {
			if g.enc != nil {
				return g.schmPayload(g.enc.scheme)
			}
			return g.schmPayload(g.scheme("schm:scheme"))
		},
		"frma": func(g *gen) []byte {
			if g.origFormat != "" {
				return []byte(g.origFormat)
			}
			return []byte(g.pick("frma:format", "avc1", "avc3", "hvc1", "hev1", "mp4a", "ac-3", "ec-3"))
		},
		"btrt": func(g *gen) []byte {
			return (&wr{}).u32(g.u32("btrt:buffer")).u32(g.u32("btrt:max")).u32(g.u32("btrt:avg")).b
		},
		"pasp": func(g *gen) []byte {
			return (&wr{}).u32(uint32(g.rng("pasp:h", 1, 64))).u32(uint32(g.rng("pasp:v", 1, 64))).b
		},
		"colr": func(g *gen) []byte {
			w := &wr{}
			switch g.alt("colr:type", "nclx*5|nclc*2|rICC*1|prof*2") {
			case "nclx":
				w.str("nclx").u16(g.pickInt("colr:primaries", 1, 2, 9)).u16(g.pickInt("colr:transfer", 1, 2, 16, 18)).
					u16(g.pickInt("colr:matrix", 0, 1, 2, 9)).u8(g.rng("colr:fullrange", 0, 1) << 7)
			case "nclc":
				w.str("nclc").u16(g.pickInt("colr:primaries", 1, 2, 9)).u16(g.pickInt("colr:transfer", 1, 2, 16)).u16(g.pickInt("colr:matrix", 1, 2, 9))
			case "rICC":
				w.str("rICC").raw(g.bytes("colr:icc", 0, 24))
			default:
				w.str("prof").raw(g.bytes("colr:icc", 0, 24))
			}
			return w.b
		},
		"clap": func(g *gen) []byte {
			w := &wr{}
			for _, f := range []string{"width", "height", "hoff", "voff"} {
				n := uint32(g.rng("clap:"+f+":n", 0, 1920))
				if f[1] == 'o' && g.pct("clap:"+f+":neg", 30) {
					n = uint32(-int32(n))
				}
				w.u32(n).u32(uint32(g.rng("clap:"+f+":d", 1, 4)))
			}
			return w.b
		},
		"kind": (*gen).kindPayload,
		"elng": (*gen).elngPayload,
		"data": (*gen).dataPayload,
		"cdat": func(g *gen) []byte { return g.bytes("cdat", 0, 24) },
		"mime": func(g *gen) []byte {
			return full(0, 0).cstr(g.pick("mime:type", "application/ttml+xml", "text/plain", "image/png;codecs=x", "a")).b
		},
		"ID32": (*gen).id32Payload,
		"cprt": (*gen).cprtPayload,
		"tlou": (*gen).loudnessPayload,
		"alou": (*gen).loudnessPayload,
		"emeb": func(g *gen) []byte { return nil },
		"emib": (*gen).emibPayload,
		"silb": (*gen).silbPayload,
		"iods": (*gen).iodsPayload,
		// WebVTT configuration and cue boxes (14496-30)
		"vttC": func(g *gen) []byte { return []byte(g.pick("vttC:config", "WEBVTT", "WEBVTT\n", "WEBVTT\n\nNOTE x")) },
		"vlab": cstrBox("vlab"),
		"vtte": func(g *gen) []byte { return nil },
		"vsid": func(g *gen) []byte { return (&wr{}).u32(g.s32("vsid:id")).b },
		"ctim": func(g *gen) []byte { return []byte(g.pick("ctim:time", "00:00:01.000", "01:02:03.456")) },
		"iden": cstrBox("iden"),
		"sttg": func(g *gen) []byte { return []byte(g.pick("sttg:settings", "line:10%", "align:start position:5%", "")) },
		"payl": cstrBox("payl"),
		"vtta": cstrBox("vtta"),
		"hint": trefType, "cdsc": trefType, "font": trefType, "hind": trefType, "vdep": trefType, "vplx": trefType,
		"subt": trefType, "dpnd": trefType, "ipir": trefType, "mpod": trefType, "sync": trefType,
	})
}
