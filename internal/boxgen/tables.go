package boxgen

import "strconv"

// Sample tables (14496-12 8.6, 8.7, 8.9) and movie fragment tables (8.8, 8.16) and CENC auxiliary
// information (23001-7). Every box has a payload function that takes the facts it must be consistent with
// (number of samples, sizes, ...), used by File, and a leaf generator that draws these facts itself.

// split partitions n samples into runs (each >= 1); n == 0 gives no runs.
func (g *gen) split(label string, n int) []int {
	var runs []int
	for n > 0 {
		r := 1
		if g.pct(label+":long", 50) {
			r = g.rng(label+":run", 1, n)
		}
		runs = append(runs, r)
		n -= r
	}
	return runs
}

// entryCount returns the entry_count to write for n entries: in hostile mode sometimes larger than what
// is written (the framing stays valid, the table is semantically truncated).
func (g *gen) entryCount(label string, n int) uint32 {
	if g.hostile(label+":entrycount", 3) {
		return g.pickU32(label+":badcount", uint32(n)+1, uint32(n)+1000, 0x7fffffff, 0xffffffff, 0)
	}
	return uint32(n)
}

func (g *gen) sampleDelta(label string) uint32 {
	if g.hostile(label, 10) {
		return g.pickU32(label+":edge", 0, 0xffffffff, 0x80000000, 0x7fffffff)
	}
	if g.pct(label+":any", 10) {
		return g.u32(label)
	}
	return g.pickU32(label, 1, 512, 1001, 1024, 3000, 3600)
}

func (g *gen) sttsPayload(n int) ([]byte, uint64) {
	runs := g.split("stts", n)
	w := full(0, 0).u32(g.entryCount("stts", len(runs)))
	var total uint64
	for i, r := range runs {
		d := g.sampleDelta("stts:delta#" + strconv.Itoa(i))
		cnt := uint32(r)
		if g.hostile("stts:count", 5) {
			cnt = g.pickU32("stts:badcount", 0, 0xffffffff, 0x80000000)
		}
		w.u32(cnt).u32(d)
		total += uint64(r) * uint64(d)
	}
	return w.b, total
}

func (g *gen) cttsPayload(n int) []byte {
	version := g.rng("ctts:version", 0, 1)
	runs := g.split("ctts", n)
	w := full(version, 0).u32(g.entryCount("ctts", len(runs)))
	for i, r := range runs {
		l := "ctts:offset#" + strconv.Itoa(i)
		var off uint32
		switch {
		case version == 1 || g.hostile("ctts:neg", 20):
			off = g.s32(l)
		default:
			off = g.pickU32(l, 0, 512, 1024, 2002, 3000, uint32(g.rng(l+":v", 0, 100000)))
		}
		w.u32(uint32(r)).u32(off)
	}
	return w.b
}

// chunk is a run of samples stored contiguously.
type chunk struct {
	samples int
	sdi     uint32 // sample_description_index
}

// drawChunks splits n samples into chunks; nDesc is the number of sample descriptions in stsd.
func (g *gen) drawChunks(n, nDesc int) []chunk {
	var out []chunk
	per := g.rng("chunks:per", 1, 4)
	sdi := uint32(1)
	for n > 0 {
		if g.pct("chunks:newsize", 30) {
			per = g.rng("chunks:per", 1, 4)
		}
		if nDesc > 1 && g.pct("chunks:newsdi", 40) {
			sdi = uint32(g.rng("chunks:sdi", 1, nDesc))
		}
		c := per
		if c > n {
			c = n
		}
		out = append(out, chunk{c, sdi})
		n -= c
	}
	return out
}

func (g *gen) stscPayload(chunks []chunk) []byte {
	type ent struct{ first, spc, sdi uint32 }
	var ents []ent
	for i, c := range chunks {
		if i == 0 || chunks[i-1] != c || g.pct("stsc:redundant", 5) {
			ents = append(ents, ent{uint32(i + 1), uint32(c.samples), c.sdi})
		}
	}
	w := full(0, 0).u32(g.entryCount("stsc", len(ents)))
	for _, e := range ents {
		if g.hostile("stsc:bad", 6) {
			switch g.rng("stsc:badkind", 0, 2) {
			case 0:
				e.first = g.pickU32("stsc:badfirst", 0, 1, 0xffffffff)
			case 1:
				e.spc = g.pickU32("stsc:badspc", 0, 0xffffffff, 0x10000000)
			default:
				e.sdi = g.pickU32("stsc:badsdi", 0, 0xffffffff, 77)
			}
		}
		w.u32(e.first).u32(e.spc).u32(e.sdi)
	}
	return w.b
}

func (g *gen) drawSizes(label string, n int) []uint32 {
	sizes := make([]uint32, n)
	uniform := g.pct(label+":uniform", 30)
	u := uint32(g.rng(label+":u", 0, 24))
	for i := range sizes {
		if uniform {
			sizes[i] = u
		} else {
			sizes[i] = uint32(g.rng(label+"#"+strconv.Itoa(i), 0, 24))
		}
	}
	return sizes
}

func allEqual(s []uint32) bool {
	for _, v := range s {
		if v != s[0] {
			return false
		}
	}
	return true
}

func (g *gen) stszPayload(sizes []uint32) []byte {
	n := uint32(len(sizes))
	if g.hostile("stsz:count", 8) {
		n = g.pickU32("stsz:badcount", 0, n+1, 0xffffffff, 0x7fffffff)
	}
	if len(sizes) > 0 && allEqual(sizes) && sizes[0] != 0 && g.pct("stsz:uniform", 75) {
		return full(0, 0).u32(sizes[0]).u32(n).b
	}
	w := full(0, 0).u32(0).u32(n)
	for _, s := range sizes {
		w.u32(s)
	}
	return w.b
}

// stz2: compact sample sizes (8.7.3.3); field_size 4, 8 or 16.
func (g *gen) stz2Payload(sizes []uint32) []byte {
	max := uint32(0)
	for _, s := range sizes {
		if s > max {
			max = s
		}
	}
	var fields []int
	for _, f := range []int{4, 8, 16} {
		if max < 1<<uint(f) {
			fields = append(fields, f)
		}
	}
	if len(fields) == 0 {
		fields = []int{16} // larger sizes do not fit: truncated
	}
	fs := fields[g.rng("stz2:field", 0, len(fields)-1)]
	w := full(0, 0).u24(0).u8(fs).u32(uint32(len(sizes)))
	bw := &bitw{}
	for _, s := range sizes {
		bw.put(uint64(s), uint(fs))
	}
	if fs == 4 && len(sizes)%2 == 1 {
		bw.put(0, 4)
	}
	return w.raw(bw.b).b
}

func (g *gen) stcoPayload(offsets []uint64) []byte {
	w := full(0, 0).u32(g.entryCount("stco", len(offsets)))
	for _, o := range offsets {
		w.u32(uint32(o))
	}
	return w.b
}

func (g *gen) co64Payload(offsets []uint64) []byte {
	w := full(0, 0).u32(g.entryCount("co64", len(offsets)))
	for _, o := range offsets {
		w.u64(o)
	}
	return w.b
}

func (g *gen) drawOffsets(label string, n int, wide bool) []uint64 {
	out := make([]uint64, n)
	pos := uint64(g.rng(label+":start", 0, 4000))
	for i := range out {
		out[i] = pos
		pos += uint64(g.rng(label+":step", 0, 300))
	}
	if n > 0 && wide && g.pct(label+":beyond32", 30) {
		out[n-1] += 1 << 32
	}
	if n > 0 && g.hostile(label, 20) {
		if wide {
			out[g.rng(label+":which", 0, n-1)] = edge64[g.rng(label+":edge", 0, len(edge64)-1)]
		} else {
			out[g.rng(label+":which", 0, n-1)] = uint64(edge32[g.rng(label+":edge", 0, len(edge32)-1)])
		}
	}
	return out
}

func (g *gen) stssPayload(n int) []byte {
	var nums []uint32
	for i := 1; i <= n; i++ {
		if i == 1 && g.pct("stss:first", 80) || i > 1 && g.pct("stss:sync", 25) {
			nums = append(nums, uint32(i))
		}
	}
	if len(nums) > 0 && g.hostile("stss:bad", 20) {
		nums[g.rng("stss:which", 0, len(nums)-1)] = g.pickU32("stss:badnum", 0, uint32(n)+1, 0xffffffff)
	}
	w := full(0, 0).u32(g.entryCount("stss", len(nums)))
	for _, v := range nums {
		w.u32(v)
	}
	return w.b
}

func (g *gen) sdtpPayload(n int) []byte {
	if g.hostile("sdtp:count", 10) {
		n = g.rng("sdtp:badcount", 0, n+3)
	}
	w := full(0, 0)
	for i := 0; i < n; i++ {
		l := "sdtp#" + strconv.Itoa(i)
		hi := 2
		if g.o.Hostile {
			hi = 3
		}
		w.u8(g.rng(l+":lead", 0, 3)<<6 | g.rng(l+":dep", 0, hi)<<4 | g.rng(l+":isdep", 0, hi)<<2 | g.rng(l+":red", 0, hi))
	}
	return w.b
}

func (g *gen) elstPayload() []byte {
	version := g.rng("elst:version", 0, 1)
	n := g.count("elst")
	w := full(version, uint32(g.pickInt("elst:flags", 0, 0, 0, 1))).u32(g.entryCount("elst", n))
	for i := 0; i < n; i++ {
		l := "elst#" + strconv.Itoa(i)
		empty := g.pct(l+":empty", 20) // media_time -1: empty edit
		rateInt, rateFrac := 1, 0
		if g.pct(l+":dwell", 15) {
			rateInt = 0
		}
		if g.hostile(l+":rate", 15) {
			rateInt, rateFrac = g.pickInt(l+":badrate", -1, 2, 0x7fff, 0x8000), g.pickInt(l+":badfrac", 0, 1, 0xffff)
		}
		if version == 1 {
			mt := g.u64(l + ":time")
			if empty {
				mt = 0xffffffffffffffff
			} else if g.hostile(l+":neg", 10) {
				mt = g.s64(l + ":negtime")
			} else {
				mt &= 0x7fffffffffffffff
			}
			w.u64(g.time64(l + ":dur")).u64(mt)
		} else {
			mt := g.u32(l+":time") & 0x7fffffff
			if empty {
				mt = 0xffffffff
			} else if g.hostile(l+":neg", 10) {
				mt = g.s32(l + ":negtime")
			}
			w.u32(g.time32(l + ":dur")).u32(mt)
		}
		w.u16(rateInt).u16(rateFrac)
	}
	return w.b
}

func (g *gen) cslgPayload() []byte {
	version := g.rng("cslg:version", 0, 1)
	w := full(version, 0)
	for _, f := range []string{"shift", "least", "greatest", "start", "end"} {
		if version == 0 {
			w.u32(g.s32("cslg:" + f))
		} else {
			w.u64(g.s64("cslg:" + f))
		}
	}
	return w.b
}

// ---------------------------------------------------------------------------------------------
// sample groups

var groupingTypes = []string{"seig", "roll", "rap ", "alst", "prol", "sync", "tele", "sap ", "xyzw"}

func (g *gen) groupingType(label string) string {
	return g.alt(label, "seig*3|roll*2|rap *2|alst*2|prol|sync|tele|sap |xyzw")
}

// sbgpPayload: n samples to map; nDesc entries in the matching sgpd; local: the sgpd is in the same traf
// (indices start at 0x10001).
func (g *gen) sbgpPayload(grouping string, n, nDesc int, local bool) []byte {
	version := 0
	if g.pct("sbgp:v1", 30) {
		version = 1
	}
	covered := n
	if n > 0 && g.pct("sbgp:partial", 30) {
		covered = g.rng("sbgp:covered", 0, n)
	}
	runs := g.split("sbgp", covered)
	w := full(version, 0).str(grouping)
	if version == 1 {
		w.u32(g.pickU32("sbgp:param", 0, 1, uint32(g.rng("sbgp:paramv", 0, 1000))))
	}
	w.u32(g.entryCount("sbgp", len(runs)))
	for i, r := range runs {
		l := "sbgp#" + strconv.Itoa(i)
		index := uint32(0) // not a member of any group
		if nDesc > 0 && g.pct(l+":member", 80) {
			index = uint32(g.rng(l+":index", 1, nDesc))
			if local {
				index += 0x10000
			}
		}
		if g.hostile(l+":index", 25) {
			index = g.pickU32(l+":badindex", 0, 0x10000, 0x10001, 0x10001+uint32(nDesc), uint32(nDesc)+1, 0xffffffff, 0xffff)
		}
		cnt := uint32(r)
		if g.hostile(l+":count", 8) {
			cnt = g.pickU32(l+":badcount", 0, 0xffffffff, uint32(r)+100)
		}
		w.u32(cnt).u32(index)
	}
	return w.b
}

// sampleGroupEntry returns one sample group description entry of the grouping type.
func (g *gen) sampleGroupEntry(grouping, l string) []byte {
	w := &wr{}
	switch grouping {
	case "seig": // CencSampleEncryptionInformationGroupEntry (23001-7 6)
		crypt, skip := 0, 0
		if g.pct(l+":pattern", 40) {
			crypt, skip = g.rng(l+":crypt", 0, 15), g.rng(l+":skip", 0, 15)
		}
		protected := g.pickInt(l+":protected", 1, 1, 1, 0)
		iv := 0
		if protected == 1 {
			iv = g.pickInt(l+":ivsize", 0, 8, 16)
		}
		if g.hostile(l+":iv", 15) {
			iv = g.pickInt(l+":badiv", 1, 4, 7, 255)
			protected = g.pickInt(l+":badprot", 0, 1, 2, 255)
		}
		w.u8(0).u8(crypt<<4 | skip).u8(protected).u8(iv).raw(g.bytes(l+":kid", 16, 16))
		if protected == 1 && iv == 0 {
			n := g.pickInt(l+":civsize", 8, 16)
			if g.hostile(l+":civ", 15) {
				n = g.pickInt(l+":badcivsize", 0, 1, 15, 17)
			}
			w.u8(n).raw(g.bytes(l+":civ", n, n))
		}
	case "roll", "prol":
		w.u16(int(uint16(int16(g.rng(l+":distance", -20, 20)))))
	case "rap ":
		w.u8(g.rng(l+":known", 0, 1)<<7 | g.rng(l+":leading", 0, 127))
	case "sync":
		w.u8(g.rng(l+":nut", 0, 63))
	case "tele":
		w.u8(g.rng(l+":independent", 0, 1) << 7)
	case "sap ":
		w.u8(g.rng(l+":dependent", 0, 1)<<7 | g.rng(l+":saptype", 0, 6))
	case "alst":
		roll := g.rng(l+":rollcount", 0, 3)
		w.u16(roll).u16(g.rng(l+":first", 0, 5))
		for i := 0; i < roll; i++ {
			w.u32(uint32(g.rng(l+":offset", 0, 1000)))
		}
		for i, n := 0, g.rng(l+":rates", 0, 2); i < n; i++ {
			w.u16(g.rng(l+":out", 0, 100)).u16(g.rng(l+":tot", 0, 100))
		}
	default:
		w.raw(g.bytes(l+":raw", 1, 12))
	}
	return w.b
}

// sgpdPayload writes a sample group description box with n entries of the grouping type.
func (g *gen) sgpdPayload(grouping string, n int) []byte {
	version := g.pickInt("sgpd:version", 1, 1, 1, 1, 1, 2, 2)
	if g.pct("sgpd:v0", 3) {
		version = 0 // deprecated form without lengths; mp4ff cannot read it unless it is empty
	}
	entries := make([][]byte, n)
	same := true
	for i := range entries {
		entries[i] = g.sampleGroupEntry(grouping, "sgpd#"+strconv.Itoa(i))
		if len(entries[i]) != len(entries[0]) {
			same = false
		}
	}
	if version == 0 && !same {
		version = 1 // version 0 has no lengths: only for entries of fixed size
	}
	w := full(version, 0).str(grouping)
	perEntry := false
	if version >= 1 {
		defLen := uint32(0)
		if n > 0 && same && !g.pct("sgpd:explicitlen", 20) {
			defLen = uint32(len(entries[0]))
		}
		if n == 0 && g.pct("sgpd:deflen0", 50) {
			defLen = uint32(len(g.sampleGroupEntry(grouping, "sgpd:probe")))
		}
		if g.hostile("sgpd:deflen", 10) {
			defLen = g.pickU32("sgpd:baddeflen", 0, 1, defLen+1, 0xffffffff)
		}
		perEntry = defLen == 0
		w.u32(defLen)
	}
	if version >= 2 {
		def := uint32(0)
		if n > 0 {
			def = uint32(g.rng("sgpd:default", 0, n))
		}
		if g.hostile("sgpd:defaultidx", 10) {
			def = g.pickU32("sgpd:baddefault", uint32(n)+1, 0x10001, 0xffffffff)
		}
		w.u32(def)
	}
	w.u32(g.entryCount("sgpd", n))
	for i, e := range entries {
		if perEntry {
			l := uint32(len(e))
			if g.hostile("sgpd:len#"+strconv.Itoa(i), 8) {
				l = g.pickU32("sgpd:badlen", 0, l+1, 0xffffffff)
			}
			w.u32(l)
		}
		w.raw(e)
	}
	return w.b
}

func (g *gen) subsPayload() []byte {
	version := g.rng("subs:version", 0, 1)
	n := g.count("subs")
	w := full(version, uint32(g.pickInt("subs:flags", 0, 0, 1, 2, 4))).u32(g.entryCount("subs", n))
	for i := 0; i < n; i++ {
		l := "subs#" + strconv.Itoa(i)
		delta := uint32(g.rng(l+":delta", 1, 5))
		if g.hostile(l+":delta", 10) {
			delta = g.pickU32(l+":baddelta", 0, 0xffffffff)
		}
		k := g.rng(l+":subsamples", 0, 4)
		w.u32(delta).u16(k)
		for j := 0; j < k; j++ {
			if version == 1 {
				w.u32(g.u32(l + ":size"))
			} else {
				w.u16(g.rng(l+":size", 0, 0xffff))
			}
			w.u8(g.rng(l+":priority", 0, 255)).u8(g.rng(l+":discardable", 0, 1)).u32(g.u32(l + ":codec"))
		}
	}
	return w.b
}

// ---------------------------------------------------------------------------------------------
// sample auxiliary information and sample encryption

func (g *gen) auxType(label string, w *wr) {
	w.str(g.pick(label+":type", "cenc", "cbcs", "cbc1", "cens", "piff")).u32(g.pickU32(label+":param", 0, 0, 0, 1))
}

// saizPayload: one size per sample.
func (g *gen) saizPayload(sizes []int) []byte {
	flags := uint32(0)
	if g.pct("saiz:typed", 40) {
		flags = 1
	}
	w := full(0, flags)
	if flags == 1 {
		g.auxType("saiz", w)
	}
	n := uint32(len(sizes))
	if g.hostile("saiz:count", 15) {
		n = g.pickU32("saiz:badcount", 0, n+1, n+1000, 0xffffffff)
	}
	same := true
	for _, s := range sizes {
		if s != sizes[0] {
			same = false
		}
	}
	if len(sizes) > 0 && same && sizes[0] != 0 && !g.pct("saiz:explicit", 25) {
		return w.u8(sizes[0]).u32(n).b
	}
	w.u8(0).u32(n)
	for _, s := range sizes {
		w.u8(s)
	}
	return w.b
}

func (g *gen) saioPayload(offsets []uint64) []byte {
	version := 0
	if g.pct("saio:v1", 35) {
		version = 1
	}
	flags := uint32(0)
	if g.pct("saio:typed", 40) {
		flags = 1
	}
	w := full(version, flags)
	if flags == 1 {
		g.auxType("saio", w)
	}
	w.u32(g.entryCount("saio", len(offsets)))
	for _, o := range offsets {
		if version == 1 {
			w.u64(o)
		} else {
			w.u32(uint32(o))
		}
	}
	return w.b
}

// sencSpec describes the sample encryption information of one track fragment.
type sencSpec struct {
	ivSize     int // 0, 8, 16
	subsamples bool
	n          int
}

// sencPayload returns the payload (version/flags, sample_count, per-sample data) and the size of the
// auxiliary information of each sample. sampleSizes (may be nil) lets the subsample byte counts add up.
func (g *gen) sencPayload(s sencSpec, sampleSizes []uint32) ([]byte, []int) {
	flags := uint32(0)
	if s.subsamples {
		flags = 2
	}
	n := uint32(s.n)
	if g.hostile("senc:count", 15) {
		n = g.pickU32("senc:badcount", 0, n+1, n+1000, 0xffffffff, 0x7fffffff)
	}
	w := full(0, flags).u32(n)
	aux := make([]int, s.n)
	for i := 0; i < s.n; i++ {
		l := "senc#" + strconv.Itoa(i)
		start := len(w.b)
		w.raw(g.bytes(l+":iv", s.ivSize, s.ivSize))
		if s.subsamples {
			k := g.rng(l+":subsamples", 0, 3)
			if k == 0 && s.ivSize == 0 && i == 0 {
				k = 1
			}
			w.u16(k)
			left := uint32(0xffff)
			if i < len(sampleSizes) {
				left = sampleSizes[i]
			}
			for j := 0; j < k; j++ {
				clear := uint32(g.rng(l+":clear", 0, 40))
				if clear > left {
					clear = left
				}
				left -= clear
				prot := uint32(g.rng(l+":protected", 0, 400))
				if prot > left || j == k-1 && i < len(sampleSizes) {
					prot = left
				}
				left -= prot
				if g.hostile(l+":bytes", 5) {
					clear, prot = uint32(g.pickInt(l+":badclear", 0, 0xffff)), g.pickU32(l+":badprot", 0, 0xffffffff)
				}
				w.u16(int(clear)).u32(prot)
			}
		}
		aux[i] = len(w.b) - start
	}
	return w.b, aux
}

func (g *gen) drawSenc() sencSpec {
	return sencSpec{ivSize: g.pickInt("senc:ivsize", 8, 16, 0), subsamples: g.pct("senc:subsamples", 50), n: g.count("senc")}
}

// ---------------------------------------------------------------------------------------------
// movie fragments

const (
	tfhdBaseDataOffset  = 0x000001
	tfhdSampleDescIndex = 0x000002
	tfhdDefaultDuration = 0x000008
	tfhdDefaultSize     = 0x000010
	tfhdDefaultFlags    = 0x000020
	tfhdDurationIsEmpty = 0x010000
	tfhdDefaultBaseMoof = 0x020000

	trunDataOffset  = 0x000001
	trunFirstFlags  = 0x000004
	trunDuration    = 0x000100
	trunSize        = 0x000200
	trunFlags       = 0x000400
	trunCTO         = 0x000800
	sampleFlagsSync = 0x02000000 // sample_depends_on = 2, is_non_sync = 0
	sampleFlagsNon  = 0x01010000 // sample_depends_on = 1, is_non_sync = 1
)

// sampleFlags draws a sample_flags word (8.8.3.1): 4 reserved bits, is_leading, sample_depends_on,
// sample_is_depended_on, sample_has_redundancy, padding, non-sync, degradation priority.
func (g *gen) sampleFlags(label string) uint32 {
	if g.hostile(label, 10) {
		return g.pickU32(label+":edge", 0xffffffff, 0xf0000000, 0x80000000)
	}
	if g.pct(label+":common", 70) {
		return g.pickU32(label, sampleFlagsSync, sampleFlagsNon, 0)
	}
	return uint32(g.rng(label+":lead", 0, 3))<<26 | uint32(g.rng(label+":dep", 0, 2))<<24 |
		uint32(g.rng(label+":isdep", 0, 2))<<22 | uint32(g.rng(label+":red", 0, 2))<<20 |
		uint32(g.rng(label+":pad", 0, 7))<<17 | uint32(g.rng(label+":nonsync", 0, 1))<<16 |
		uint32(g.pickInt(label+":prio", 0, 0, 1, 0xffff))
}

type tfhdSpec struct {
	flags       uint32
	trackID     uint32
	baseOffset  uint64
	sdi         uint32
	dur, size   uint32
	sampleFlags uint32
}

func (s tfhdSpec) payload() []byte {
	w := full(0, s.flags).u32(s.trackID)
	if s.flags&tfhdBaseDataOffset != 0 {
		w.u64(s.baseOffset)
	}
	if s.flags&tfhdSampleDescIndex != 0 {
		w.u32(s.sdi)
	}
	if s.flags&tfhdDefaultDuration != 0 {
		w.u32(s.dur)
	}
	if s.flags&tfhdDefaultSize != 0 {
		w.u32(s.size)
	}
	if s.flags&tfhdDefaultFlags != 0 {
		w.u32(s.sampleFlags)
	}
	return w.b
}

// drawFlags draws a subset of the given flag bits, each with probability 1/2.
func (g *gen) drawFlags(label string, bits ...uint32) uint32 {
	var f uint32
	for i, b := range bits {
		if g.pct(label+":bit"+strconv.Itoa(i), 50) {
			f |= b
		}
	}
	return f
}

func (g *gen) drawTfhd() tfhdSpec {
	s := tfhdSpec{
		flags: g.drawFlags("tfhd:flags", tfhdBaseDataOffset, tfhdSampleDescIndex, tfhdDefaultDuration, tfhdDefaultSize,
			tfhdDefaultFlags, tfhdDurationIsEmpty, tfhdDefaultBaseMoof),
		trackID:     uint32(g.rng("tfhd:track", 1, 4)),
		baseOffset:  g.u64("tfhd:base"),
		sdi:         uint32(g.rng("tfhd:sdi", 1, 2)),
		dur:         g.sampleDelta("tfhd:dur"),
		size:        uint32(g.rng("tfhd:size", 0, 24)),
		sampleFlags: g.sampleFlags("tfhd:sampleflags"),
	}
	if g.hostile("tfhd:ids", 15) {
		s.trackID = g.pickU32("tfhd:badtrack", 0, 0xffffffff, 99)
		s.sdi = g.pickU32("tfhd:badsdi", 0, 0xffffffff, 99)
	}
	if g.hostile("tfhd:unknownflag", 5) {
		s.flags |= g.pickU32("tfhd:extraflag", 0x000004, 0x000040, 0x040000, 0x800000)
	}
	return s
}

type sample struct {
	dur, size, flags uint32
	cto              uint32 // two's complement for version 1
}

type trunSpec struct {
	version    int
	flags      uint32
	dataOffset uint32
	firstFlags uint32
	samples    []sample
}

func (s trunSpec) payload(count uint32) []byte {
	w := full(s.version, s.flags).u32(count)
	if s.flags&trunDataOffset != 0 {
		w.u32(s.dataOffset)
	}
	if s.flags&trunFirstFlags != 0 {
		w.u32(s.firstFlags)
	}
	for _, sm := range s.samples {
		if s.flags&trunDuration != 0 {
			w.u32(sm.dur)
		}
		if s.flags&trunSize != 0 {
			w.u32(sm.size)
		}
		if s.flags&trunFlags != 0 {
			w.u32(sm.flags)
		}
		if s.flags&trunCTO != 0 {
			w.u32(sm.cto)
		}
	}
	return w.b
}

// drawTrun draws a track run with n samples and any flag combination. The combination first-sample-flags
// plus sample-flags is excluded by 8.8.8.1 ("sample-flags-present shall not be set") and is only drawn in
// hostile mode.
func (g *gen) drawTrun(n int) trunSpec {
	s := trunSpec{
		version: g.rng("trun:version", 0, 1),
		flags:   g.drawFlags("trun:flags", trunDataOffset, trunFirstFlags, trunDuration, trunSize, trunFlags, trunCTO),
	}
	if s.flags&trunFirstFlags != 0 && s.flags&trunFlags != 0 && !g.o.Hostile {
		if g.pct("trun:keepfirst", 50) {
			s.flags &^= trunFlags
		} else {
			s.flags &^= trunFirstFlags
		}
	}
	s.dataOffset = uint32(g.rng("trun:dataoffset", 0, 4000))
	if g.pct("trun:negoffset", 5) {
		s.dataOffset = g.s32("trun:dataoffsetneg")
	}
	s.firstFlags = g.sampleFlags("trun:firstflags")
	uniformDur := g.sampleDelta("trun:dur")
	for i := 0; i < n; i++ {
		l := "trun#" + strconv.Itoa(i)
		sm := sample{dur: uniformDur, size: uint32(g.rng(l+":size", 0, 24)), flags: sampleFlagsNon}
		if g.pct(l+":owndur", 20) {
			sm.dur = g.sampleDelta(l + ":dur")
		}
		if s.flags&trunFlags != 0 {
			sm.flags = g.sampleFlags(l + ":flags")
		}
		if s.flags&trunCTO != 0 {
			if s.version == 1 || g.hostile(l+":negcto", 20) {
				sm.cto = g.s32(l + ":cto")
			} else {
				sm.cto = uint32(g.rng(l+":cto", 0, 6000))
			}
		}
		if g.hostile(l+":size", 4) {
			sm.size = g.pickU32(l+":badsize", 0xffffffff, 0x80000000, 0x7fffffff)
		}
		s.samples = append(s.samples, sm)
	}
	return s
}

func (g *gen) trunCount(n int) uint32 {
	if g.hostile("trun:count", 8) {
		return g.pickU32("trun:badcount", 0, uint32(n)+1, 1025, 0xffffffff)
	}
	return uint32(n)
}

func (g *gen) tfdtPayload(t uint64) []byte {
	version := 0
	if t > 0xffffffff || g.pct("tfdt:v1", 50) {
		version = 1
	}
	if version == 1 {
		return full(1, 0).u64(t).b
	}
	return full(0, 0).u32(uint32(t)).b
}

type tfraEntry struct {
	time, moofOffset   uint64
	traf, trun, sample uint32
}

func (g *gen) tfraPayload(trackID uint32, ents []tfraEntry) []byte {
	version := g.rng("tfra:version", 0, 1)
	need := func(get func(e tfraEntry) uint32) int { // smallest length_size that holds every value
		m := 0
		for _, e := range ents {
			v := get(e)
			for m < 3 && v >= 1<<(8*uint(m+1)) {
				m++
			}
		}
		return m
	}
	lt := g.rng("tfra:len_traf", need(func(e tfraEntry) uint32 { return e.traf }), 3)
	lr := g.rng("tfra:len_trun", need(func(e tfraEntry) uint32 { return e.trun }), 3)
	ls := g.rng("tfra:len_sample", need(func(e tfraEntry) uint32 { return e.sample }), 3)
	for _, e := range ents {
		if e.time > 0xffffffff || e.moofOffset > 0xffffffff {
			version = 1
		}
	}
	w := full(version, 0).u32(trackID).u32(uint32(lt<<4 | lr<<2 | ls)).u32(g.entryCount("tfra", len(ents)))
	for _, e := range ents {
		if version == 1 {
			w.u64(e.time).u64(e.moofOffset)
		} else {
			w.u32(uint32(e.time)).u32(uint32(e.moofOffset))
		}
		w.uN(uint64(e.traf), lt+1).uN(uint64(e.trun), lr+1).uN(uint64(e.sample), ls+1)
	}
	return w.b
}

func (g *gen) drawTfra() (uint32, []tfraEntry) {
	n := g.count("tfra")
	ents := make([]tfraEntry, n)
	var t, off uint64
	wide := g.pct("tfra:wide", 15)
	for i := range ents {
		l := "tfra#" + strconv.Itoa(i)
		t += uint64(g.rng(l+":dt", 0, 100000))
		off += uint64(g.rng(l+":doff", 24, 5000))
		ents[i] = tfraEntry{t, off, uint32(g.rng(l+":traf", 1, 3)), uint32(g.rng(l+":trun", 1, 3)), uint32(g.rng(l+":sample", 1, 40))}
		if wide {
			ents[i].time += 1 << 33
			ents[i].sample = uint32(g.rng(l+":bigsample", 1, 1<<24))
		}
		if g.hostile(l, 10) {
			ents[i].traf, ents[i].trun, ents[i].sample = 0, 0, 0
			ents[i].moofOffset = edge64[g.rng(l+":edge", 0, len(edge64)-1)]
		}
	}
	return uint32(g.rng("tfra:track", 1, 4)), ents
}

type sidxRef struct {
	refType        int
	size, duration uint32
	startsWithSAP  int
	sapType        int
	sapDelta       uint32
}

func (g *gen) sidxPayload(refID, timescale uint32, ept, firstOffset uint64, refs []sidxRef) []byte {
	version := 0
	if ept > 0xffffffff || firstOffset > 0xffffffff || g.pct("sidx:v1", 40) {
		version = 1
	}
	w := full(version, 0).u32(refID).u32(timescale)
	if version == 1 {
		w.u64(ept).u64(firstOffset)
	} else {
		w.u32(uint32(ept)).u32(uint32(firstOffset))
	}
	n := len(refs)
	if g.hostile("sidx:count", 8) {
		n = g.pickInt("sidx:badcount", 0, n+1, 0xffff)
	}
	w.u16(0).u16(n)
	for _, r := range refs {
		w.u32(uint32(r.refType)<<31 | r.size&0x7fffffff).u32(r.duration)
		w.u32(uint32(r.startsWithSAP)<<31 | uint32(r.sapType)<<28 | r.sapDelta&0x0fffffff)
	}
	return w.b
}

func (g *gen) drawSidxRefs(n int) []sidxRef {
	refs := make([]sidxRef, n)
	for i := range refs {
		l := "sidx#" + strconv.Itoa(i)
		refs[i] = sidxRef{refType: g.pickInt(l+":type", 0, 0, 0, 1), size: uint32(g.rng(l+":size", 16, 100000)),
			duration: g.sampleDelta(l + ":dur"), startsWithSAP: g.rng(l+":sap", 0, 1), sapType: g.rng(l+":saptype", 0, 6),
			sapDelta: uint32(g.rng(l+":sapdelta", 0, 3000))}
		if g.hostile(l, 10) {
			refs[i].size, refs[i].sapType = g.pickU32(l+":badsize", 0, 0x7fffffff), 7
		}
	}
	return refs
}

func (g *gen) ssixPayload() []byte {
	n := g.rng("ssix:subsegments", 0, 4)
	w := full(0, 0).u32(g.entryCount("ssix", n))
	for i := 0; i < n; i++ {
		l := "ssix#" + strconv.Itoa(i)
		k := g.rng(l+":ranges", 2, 5) // range_count is at least 2 (8.16.4.3)
		if g.hostile(l, 15) {
			k = g.rng(l+":fewranges", 0, 1)
		}
		w.u32(uint32(k))
		for j := 0; j < k; j++ {
			w.u8(g.rng(l+":level", 0, 5)).u24(g.rng(l+":size", 0, 100000))
		}
	}
	return w.b
}

func (g *gen) levaPayload() []byte {
	n := g.rng("leva:levels", 2, 5) // level_count >= 2 (8.8.13.3)
	if g.hostile("leva:count", 15) {
		n = g.rng("leva:fewlevels", 0, 1)
	}
	w := full(0, 0).u8(n)
	for i := 0; i < n; i++ {
		l := "leva#" + strconv.Itoa(i)
		at := g.rng(l+":assignment", 0, 4)
		if g.hostile(l+":assignment", 15) {
			at = g.pickInt(l+":badassignment", 5, 127)
		}
		w.u32(uint32(g.rng(l+":track", 1, 4))).u8(g.rng(l+":padding", 0, 1)<<7 | at)
		switch at {
		case 0:
			w.str(g.groupingType(l + ":grouping"))
		case 1:
			w.str(g.groupingType(l + ":grouping")).u32(uint32(g.rng(l+":param", 0, 5)))
		case 4:
			w.u32(uint32(g.rng(l+":subtrack", 1, 5)))
		}
	}
	return w.b
}

func (g *gen) trexPayload(trackID uint32) []byte {
	sdi := uint32(g.rng("trex:sdi", 1, 2))
	if g.hostile("trex:sdi", 15) {
		sdi = g.pickU32("trex:badsdi", 0, 0xffffffff)
	}
	return full(0, 0).u32(trackID).u32(sdi).u32(g.pickU32("trex:dur", 0, 1024, g.sampleDelta("trex:durv"))).
		u32(uint32(g.rng("trex:size", 0, 24))).u32(g.sampleFlags("trex:flags")).b
}

func (g *gen) mehdPayload(d uint64) []byte {
	if d > 0xffffffff || g.pct("mehd:v1", 50) {
		return full(1, 0).u64(d).b
	}
	return full(0, 0).u32(uint32(d)).b
}

func init() {
	reg(map[string]func(g *gen) []byte{
		"stts": func(g *gen) []byte { p, _ := g.sttsPayload(g.count("stts:samples")); return p },
		"ctts": func(g *gen) []byte { return g.cttsPayload(g.count("ctts:samples")) },
		"stsc": func(g *gen) []byte {
			return g.stscPayload(g.drawChunks(g.count("stsc:samples"), g.rng("stsc:ndesc", 1, 3)))
		},
		"stsz": func(g *gen) []byte { return g.stszPayload(g.drawSizes("stsz", g.count("stsz:samples"))) },
		"stz2": func(g *gen) []byte { return g.stz2Payload(g.drawSizes("stz2", g.count("stz2:samples"))) },
		"stco": func(g *gen) []byte { return g.stcoPayload(g.drawOffsets("stco", g.count("stco:chunks"), false)) },
		"co64": func(g *gen) []byte { return g.co64Payload(g.drawOffsets("co64", g.count("co64:chunks"), true)) },
		"stss": func(g *gen) []byte { return g.stssPayload(g.count("stss:samples")) },
		"sdtp": func(g *gen) []byte { return g.sdtpPayload(g.count("sdtp:samples")) },
		"elst": (*gen).elstPayload,
		"cslg": (*gen).cslgPayload,
		"sbgp": func(g *gen) []byte {
			return g.sbgpPayload(g.groupingType("sbgp:grouping"), g.count("sbgp:samples"), g.rng("sbgp:ndesc", 0, 3), g.pct("sbgp:local", 50))
		},
		"sgpd": func(g *gen) []byte {
			return g.sgpdPayload(g.groupingType("sgpd:grouping"), g.rng("sgpd:entries", 0, 4))
		},
		"subs": (*gen).subsPayload,
		"saiz": func(g *gen) []byte {
			n := g.count("saiz:samples")
			sizes := make([]int, n)
			u := g.pickInt("saiz:u", 8, 16, 10, 24, 0)
			uniform := g.pct("saiz:uniform", 50)
			for i := range sizes {
				sizes[i] = u
				if !uniform {
					sizes[i] = g.rng("saiz:size", 0, 255)
				}
			}
			return g.saizPayload(sizes)
		},
		"saio": func(g *gen) []byte {
			return g.saioPayload(g.drawOffsets("saio", g.pickInt("saio:n", 1, 1, 1, 0, 2, 3), true))
		},
		"senc": func(g *gen) []byte { p, _ := g.sencPayload(g.drawSenc(), nil); return p },
		"tfhd": func(g *gen) []byte { return g.drawTfhd().payload() },
		"tfdt": func(g *gen) []byte { return g.tfdtPayload(g.time64("tfdt:time")) },
		"trun": func(g *gen) []byte { n := g.count("trun:samples"); return g.drawTrun(n).payload(g.trunCount(n)) },
		"mfhd": func(g *gen) []byte { return full(0, 0).u32(g.u32("mfhd:seq")).b },
		"trex": func(g *gen) []byte { return g.trexPayload(uint32(g.rng("trex:track", 1, 4))) },
		"mehd": func(g *gen) []byte { return g.mehdPayload(g.time64("mehd:dur")) },
		"tfra": func(g *gen) []byte { id, e := g.drawTfra(); return g.tfraPayload(id, e) },
		"mfro": func(g *gen) []byte { return full(0, 0).u32(g.u32("mfro:size")).b },
		"sidx": func(g *gen) []byte {
			return g.sidxPayload(uint32(g.rng("sidx:ref", 1, 4)), g.timescale("sidx:timescale"), g.time64("sidx:ept"),
				g.pickU64("sidx:first", 0, 0, 0, 52, 1<<32), g.drawSidxRefs(g.count("sidx:refs")))
		},
		"ssix": (*gen).ssixPayload,
		"leva": (*gen).levaPayload,
	})
}

func (g *gen) pickU64(label string, opts ...uint64) uint64 {
	return opts[g.rng(label, 0, len(opts)-1)]
}

// leaves: leaf box type -> payload generator.
var leaves = map[string]func(g *gen) []byte{}

func reg(m map[string]func(g *gen) []byte) {
	for k, v := range m {
		leaves[k] = v
	}
}
