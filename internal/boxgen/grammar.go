package boxgen

// rule describes one kind of child of a container. The number of occurrences is Min plus, for each of the
// Max-Min optional occurrences in turn, one more with probability Weight percent (stop at the first miss).
// Type is a box type or a weighted choice "stco*3|co64*1" (weight 1 if omitted) drawn per occurrence.
// The order of the rules is the canonical child order.
type rule struct {
	Type     string
	Min, Max int
	Weight   int
}

const visualKids = "btrt|pasp|colr|clap"

// grammar: container type -> child rules. Sources: ISO/IEC 14496-12 (2020) table 1 and the box definitions,
// 14496-15 (avcC/hvcC in sample entries), 14496-14 (esds), 14496-30 (wvtt, stpp), 23001-7 (sinf/schi/tenc,
// pssh, senc/saiz/saio in traf), 23009-1 (emsg, prft at file level, see File), ETSI TS 102 366 (dac3, dec3).
var grammar = map[string][]rule{
	"moov": {{"mvhd", 1, 1, 0}, {"trak", 1, 3, 30}, {"mvex", 0, 1, 30}, {"pssh", 0, 2, 15}, {"udta", 0, 1, 25}, {"meta", 0, 1, 15}},
	"trak": {{"tkhd", 1, 1, 0}, {"edts", 0, 1, 35}, {"tref", 0, 1, 15}, {"mdia", 1, 1, 0}, {"udta", 0, 1, 15}, {"meta", 0, 1, 8}},
	"edts": {{"elst", 1, 1, 0}},
	"tref": {{"hint|cdsc|font|hind|vdep|vplx|subt|dpnd|ipir|mpod|sync", 1, 3, 25}},
	"mdia": {{"mdhd", 1, 1, 0}, {"hdlr", 1, 1, 0}, {"elng", 0, 1, 25}, {"minf", 1, 1, 0}},
	"minf": {{"vmhd|smhd|sthd|nmhd", 1, 1, 0}, {"dinf", 1, 1, 0}, {"stbl", 1, 1, 0}},
	"dinf": {{"dref", 1, 1, 0}},
	"dref": {{"url *8|urn *1", 1, 3, 15}},
	"stbl": {{"stsd", 1, 1, 0}, {"stts", 1, 1, 0}, {"ctts", 0, 1, 40}, {"cslg", 0, 1, 15}, {"stsc", 1, 1, 0},
		{"stsz*12|stz2*1", 1, 1, 0}, {"stco|co64", 1, 1, 0}, {"stss", 0, 1, 40}, {"sdtp", 0, 1, 25},
		{"sbgp", 0, 2, 25}, {"sgpd", 0, 2, 25}, {"subs", 0, 1, 10}, {"saiz", 0, 1, 10}, {"saio", 0, 1, 10}},
	"stsd": {{"avc1*3|avc3|hvc1*2|hev1|mp4a*3|ac-3|ec-3|stpp|wvtt|evte|encv*2|enca*2|av01|vp08|vp09", 1, 2, 15}},
	"mvex": {{"mehd", 0, 1, 40}, {"trex", 1, 3, 30}, {"leva", 0, 1, 10}, {"trep", 0, 1, 10}},
	"trep": {},
	"moof": {{"mfhd", 1, 1, 0}, {"pssh", 0, 2, 15}, {"traf", 0, 3, 85}},
	"traf": {{"tfhd", 1, 1, 0}, {"tfdt", 0, 1, 80}, {"trun", 0, 3, 70}, {"sbgp", 0, 2, 20}, {"sgpd", 0, 2, 20},
		{"subs", 0, 1, 10}, {"saiz", 0, 1, 25}, {"saio", 0, 1, 25}, {"senc", 0, 1, 25}, {"uuid", 0, 2, 15}},
	"mfra":    {{"tfra", 0, 3, 70}, {"mfro", 1, 1, 0}},
	"udta":    {{"meta", 0, 1, 40}, {"kind", 0, 2, 25}, {"ludt", 0, 1, 20}, {"cdat", 0, 1, 10}, {"name|titl|cprt", 0, 1, 15}},
	"ludt":    {{"tlou", 0, 2, 60}, {"alou", 0, 2, 40}},
	"meta":    {{"hdlr", 1, 1, 0}, {"ilst", 0, 1, 60}, {"ID32", 0, 2, 20}, {"dinf", 0, 1, 10}},
	"ilst":    {{"\xa9nam|\xa9too|\xa9ART|\xa9cpy|\xa9alb|desc", 0, 4, 60}},
	"\xa9nam": {{"data", 1, 1, 0}},
	"\xa9too": {{"data", 1, 1, 0}},
	"\xa9ART": {{"data", 1, 1, 0}},
	"\xa9cpy": {{"data", 1, 1, 0}},
	"\xa9alb": {{"data", 1, 1, 0}},
	"desc":    {{"data", 1, 1, 0}},
	"sinf":    {{"frma", 1, 1, 0}, {"schm", 0, 1, 90}, {"schi", 0, 1, 90}},
	"schi":    {{"tenc", 0, 1, 90}},
	// sample entries (prefix: see prefix())
	"avc1": {{"avcC", 1, 1, 0}, {visualKids, 0, 3, 30}},
	"avc3": {{"avcC", 1, 1, 0}, {visualKids, 0, 3, 30}},
	"hvc1": {{"hvcC", 1, 1, 0}, {visualKids, 0, 3, 30}},
	"hev1": {{"hvcC", 1, 1, 0}, {visualKids, 0, 3, 30}},
	"av01": {{"av1C", 1, 1, 0}, {visualKids + "|SmDm|CoLL", 0, 3, 30}},
	"vp08": {{"vpcC", 1, 1, 0}, {visualKids + "|SmDm|CoLL", 0, 3, 30}},
	"vp09": {{"vpcC", 1, 1, 0}, {visualKids + "|SmDm|CoLL", 0, 3, 30}},
	"encv": {{"avcC*2|hvcC", 1, 1, 0}, {visualKids, 0, 2, 25}, {"sinf", 1, 2, 5}},
	"mp4a": {{"esds", 1, 1, 0}, {"btrt", 0, 1, 30}},
	"ac-3": {{"dac3", 1, 1, 0}, {"btrt", 0, 1, 30}},
	"ec-3": {{"dec3", 1, 1, 0}, {"btrt", 0, 1, 30}},
	"enca": {{"esds*2|dac3|dec3", 1, 1, 0}, {"btrt", 0, 1, 20}, {"sinf", 1, 2, 5}},
	"stpp": {{"btrt", 0, 1, 40}},
	"wvtt": {{"vttC", 1, 1, 0}, {"vlab", 0, 1, 40}, {"btrt", 0, 1, 30}},
	"evte": {{"btrt", 0, 1, 30}, {"silb", 0, 1, 60}},
	// WebVTT sample (14496-30 7.5)
	"vttc": {{"vsid", 0, 1, 30}, {"iden", 0, 1, 40}, {"ctim", 0, 1, 40}, {"sttg", 0, 1, 40}, {"payl", 1, 1, 0}},
}

// prefix returns the bytes between the box header and the first child.
func (g *gen) prefix(typ string) []byte {
	switch typ {
	case "trep":
		return full(0, 0).u32(uint32(g.rng("trep:track", 1, 4))).b
	case "avc1", "avc3", "hvc1", "hev1", "encv", "av01", "vp08", "vp09":
		return g.visualPrefix()
	case "mp4a", "ac-3", "ec-3", "enca":
		return g.audioPrefix()
	case "wvtt", "evte":
		return g.sampleEntryPrefix()
	case "stpp":
		w := &wr{b: g.sampleEntryPrefix()}
		w.cstr(g.pick("stpp:ns", "http://www.w3.org/ns/ttml", "urn:x", g.text("stpp:nstext")))
		w.cstr(g.pick("stpp:schema", "", "http://example.com/schema.xsd"))
		w.cstr(g.pick("stpp:mime", "", "image/png", "image/png font/woff"))
		return w.b
	}
	return nil
}

// countedContainer writes version/flags, entry_count and the children (stsd, dref).
func (g *gen) countedContainer(typ string, kids []kid) []byte {
	n := len(kids)
	if g.hostile(typ+":count", 10) {
		n = g.pickInt(typ+":badcount", 0, n+1, 0x7fffffff, 0xffffffff)
	}
	w := full(0, 0).u32(uint32(n))
	for _, k := range kids {
		w.raw(k.b)
	}
	return w.b
}
