package boxgen

import "strconv"

// Sample entries (14496-12 8.5.2, 12.1.3, 12.2.3; 14496-15; 14496-14; 14496-30) and codec configuration boxes.

func (g *gen) sampleEntryPrefix() []byte {
	dri := g.pickInt("entry:dri", 1, 1, 1, 2)
	if g.hostile("entry:dri", 10) {
		dri = g.pickInt("entry:baddri", 0, 0xffff)
	}
	return (&wr{}).zeros(6).u16(dri).b
}

func (g *gen) visualPrefix() []byte {
	w := &wr{b: g.sampleEntryPrefix()}
	w.zeros(16).u16(g.pickInt("visual:width", 0, 16, 320, 1280, 1920, 4096)).u16(g.pickInt("visual:height", 0, 16, 180, 720, 1080, 2160))
	w.u32(0x00480000).u32(0x00480000).u32(0).u16(1)
	name := g.pick("visual:compressor", "", "AVC Coding", "x", "0123456789012345678901234567890")
	w.u8(len(name)).str(name).zeros(31 - len(name))
	return w.u16(0x0018).u16(0xffff).b
}

func (g *gen) audioPrefix() []byte {
	w := &wr{b: g.sampleEntryPrefix()}
	w.zeros(8).u16(g.pickInt("audio:channels", 2, 1, 6)).u16(16).u16(0).u16(0)
	return w.u32(uint32(g.pickInt("audio:rate", 48000, 44100, 22050, 0)) << 16).b
}

// nalu draws a short byte string standing for a parameter set NAL unit with the given first bytes.
func (g *gen) nalu(label string, hdr ...byte) []byte {
	return append(append([]byte{}, hdr...), g.bytes(label, 0, 10)...)
}

func (g *gen) lengthSizeMinusOne(label string) int {
	if g.pct(label+":short", 2) {
		return g.pickInt(label+":v", 0, 1) // legal; mp4ff only supports 3
	}
	if g.hostile(label, 10) {
		return 2 // reserved value
	}
	return 3
}

// avcC: AVCDecoderConfigurationRecord (14496-15 5.3.3.1)
func (g *gen) avcCPayload() []byte {
	profile := g.pickInt("avcC:profile", 66, 77, 88, 100, 100, 110, 122, 144, 244)
	w := (&wr{}).u8(1).u8(profile).u8(g.pickInt("avcC:compat", 0, 0x40, 0xc0)).u8(g.pickInt("avcC:level", 13, 30, 31, 40, 51))
	w.u8(0xfc | g.lengthSizeMinusOne("avcC:lengthsize"))
	nSPS := g.rng("avcC:nsps", 0, 2)
	if g.pct("avcC:onesps", 60) {
		nSPS = 1
	}
	w.u8(0xe0 | nSPS)
	for i := 0; i < nSPS; i++ {
		ps := g.nalu("avcC:sps#"+strconv.Itoa(i), 0x67, byte(profile))
		w.u16(len(ps)).raw(ps)
	}
	nPPS := g.rng("avcC:npps", 0, 3)
	w.u8(nPPS)
	for i := 0; i < nPPS; i++ {
		ps := g.nalu("avcC:pps#"+strconv.Itoa(i), 0x68)
		w.u16(len(ps)).raw(ps)
	}
	switch profile {
	case 66, 77, 88:
	default:
		if g.hostile("avcC:noext", 15) {
			break // seen in the wild, not according to the standard
		}
		chroma, bitDepth := g.rng("avcC:chroma", 0, 3), g.rng("avcC:bitdepth", 0, 6)
		nExt := 0
		if g.pct("avcC:spsext", 2) {
			nExt = 1 // legal; mp4ff rejects it
		}
		w.u8(0xfc | chroma).u8(0xf8 | bitDepth).u8(0xf8 | bitDepth).u8(nExt)
		for i := 0; i < nExt; i++ {
			ps := g.nalu("avcC:spsext#"+strconv.Itoa(i), 0x6d)
			w.u16(len(ps)).raw(ps)
		}
	}
	return w.b
}

// hvcC: HEVCDecoderConfigurationRecord (14496-15 8.3.3.1)
func (g *gen) hvcCPayload() []byte {
	w := (&wr{}).u8(1)
	w.u8(g.rng("hvcC:space", 0, 3)<<6 | g.rng("hvcC:tier", 0, 1)<<5 | g.pickInt("hvcC:profile", 1, 2, 3, 4))
	w.u32(g.pickU32("hvcC:compat", 0x60000000, 0x40000000, 0)).u32(g.pickU32("hvcC:constraint", 0x90000000, 0xb0000000, 0)).u16(0)
	w.u8(g.pickInt("hvcC:level", 30, 93, 120, 153))
	w.u16(0xf000 | g.pickInt("hvcC:segmentation", 0, 0, 100)).u8(0xfc | g.rng("hvcC:parallelism", 0, 3))
	w.u8(0xfc | g.rng("hvcC:chroma", 0, 3)).u8(0xf8 | g.rng("hvcC:lumadepth", 0, 4)).u8(0xf8 | g.rng("hvcC:chromadepth", 0, 4))
	w.u16(g.pickInt("hvcC:framerate", 0, 25*256))
	w.u8(g.rng("hvcC:constrate", 0, 2)<<6 | g.rng("hvcC:layers", 0, 7)<<3 | g.rng("hvcC:nested", 0, 1)<<2 | g.lengthSizeMinusOne("hvcC:lengthsize"))
	types := []int{32, 33, 34, 39, 40} // VPS, SPS, PPS, prefix SEI, suffix SEI
	nArrays := g.rng("hvcC:arrays", 0, 4)
	w.u8(nArrays)
	for i := 0; i < nArrays; i++ {
		l := "hvcC:array#" + strconv.Itoa(i)
		nut := types[g.rng(l+":type", 0, len(types)-1)]
		w.u8(g.rng(l+":complete", 0, 1)<<7 | nut)
		n := g.rng(l+":nalus", 0, 2)
		w.u16(n)
		for j := 0; j < n; j++ {
			ps := g.nalu(l+":nalu", byte(nut<<1), 1)
			w.u16(len(ps)).raw(ps)
		}
	}
	return w.b
}

// descLen encodes a descriptor length in n bytes (14496-1 8.3.3), more if the value needs it.
func descLen(v, n int) []byte {
	for v >= 1<<(7*uint(n)) {
		n++
	}
	out := make([]byte, n)
	for i := 0; i < n; i++ {
		out[i] = byte(v>>(7*uint(n-1-i))) & 0x7f
		if i < n-1 {
			out[i] |= 0x80
		}
	}
	return out
}

func (g *gen) descriptor(label string, tag int, body []byte) []byte {
	n := g.pickInt(label+":lenbytes", 1, 1, 2, 3, 4, 4)
	return (&wr{}).u8(tag).raw(descLen(len(body), n)).raw(body).b
}

// esds: ES_Descriptor -> DecoderConfigDescriptor -> DecoderSpecificInfo, SLConfigDescriptor (14496-1 7.2.6.5, 14496-14 5.6)
func (g *gen) esdsPayload() []byte {
	dcd := &wr{}
	oti := g.pickInt("esds:oti", 0x40, 0x40, 0x40, 0x6b, 0x20)
	streamType := 5 // audio
	if oti == 0x20 {
		streamType = 4
	}
	dcd.u8(oti).u8(streamType<<2 | g.rng("esds:upstream", 0, 1)<<1 | 1).u24(g.rng("esds:buffer", 0, 100000))
	dcd.u32(g.u32("esds:maxbitrate")).u32(g.u32("esds:avgbitrate"))
	if oti != 0x6b || g.pct("esds:dsi", 20) {
		asc := [][]byte{{0x12, 0x10}, {0x11, 0x90}, {0x13, 0x90, 0x56, 0xe5, 0xa5, 0x48, 0x00}, {0x2b, 0x92, 0x08, 0x00}}
		dsi := asc[g.rng("esds:asc", 0, len(asc)-1)]
		if g.pct("esds:rawdsi", 20) {
			dsi = g.bytes("esds:dsibytes", 0, 12)
		}
		if g.pct("esds:bigdsi", 6) {
			// a decoder specific info of 128..400 bytes (e.g. a long program config element): the size fields of the
			// descriptors around it need two or more 7-bit groups
			dsi = g.bytes("esds:bigdsibytes", 128, 400)
		}
		dcd.raw(g.descriptor("esds:dsi", 5, dsi))
	}
	es := &wr{}
	flags := 0
	if g.pct("esds:depends", 8) {
		flags |= 0x80
	}
	if g.pct("esds:ocr", 8) {
		flags |= 0x20
	}
	if g.hostile("esds:url", 15) || g.pct("esds:urlflag", 4) {
		// URL_Flag "shall be 0" in MP4 files (14496-14), but 14496-1 defines the field and the decoders accept it:
		// drawn rarely so that the three optional fields also occur together
		flags |= 0x40
	}
	es.u16(g.pickInt("esds:esid", 0, 0, 1, 2)).u8(flags | g.pickInt("esds:priority", 0, 0, 16))
	if flags&0x80 != 0 {
		es.u16(g.rng("esds:dependson", 1, 3))
	}
	if flags&0x40 != 0 {
		u := g.text("esds:urlstring")
		es.u8(len(u)).str(u)
	}
	if flags&0x20 != 0 {
		es.u16(g.rng("esds:ocresid", 1, 3))
	}
	es.raw(g.descriptor("esds:dcd", 4, dcd.b))
	// optional further descriptors of the ES_Descriptor (14496-1 7.2.6.5: IPI pointer 0x09, language 0x43,
	// registration 0x0d, extension 0x80..): normally after the SLConfigDescriptor, occasionally in front of it
	others := func(label string) {
		for i, n := 0, g.rng(label+":n", 1, 2); i < n; i++ {
			switch g.pickInt(label+":tag", 0x43, 0x43, 0x09, 0x0d, 0x80) {
			case 0x43:
				es.raw(g.descriptor(label, 0x43, []byte(g.pick(label+":lang", "eng", "swe", "und"))))
			case 0x09:
				es.raw(g.descriptor(label, 0x09, []byte{0, byte(g.rng(label+":ipi", 1, 9))}))
			case 0x0d:
				es.raw(g.descriptor(label, 0x0d, append([]byte("vrfy"), g.bytes(label+":reg", 0, 4)...)))
			default:
				es.raw(g.descriptor(label, 0x80, g.bytes(label+":ext", 0, 6)))
			}
		}
	}
	if g.pct("esds:others-before-sl", 10) {
		others("esds:pre")
	}
	es.raw(g.descriptor("esds:sl", 6, []byte{2})) // predefined = 2: reserved for use in MP4 files
	if g.pct("esds:others-after-sl", 15) {
		others("esds:post")
	}
	return full(0, 0).raw(g.descriptor("esds:es", 3, es.b)).b
}

// dac3: AC3SpecificBox (ETSI TS 102 366 F.4)
func (g *gen) dac3Payload() []byte {
	bw := &bitw{}
	bw.put(uint64(g.rng("dac3:fscod", 0, 2)), 2)
	bw.put(uint64(g.pickInt("dac3:bsid", 8, 6)), 5)
	bw.put(uint64(g.rng("dac3:bsmod", 0, 7)), 3)
	bw.put(uint64(g.rng("dac3:acmod", 0, 7)), 3)
	bw.put(uint64(g.rng("dac3:lfeon", 0, 1)), 1)
	bw.put(uint64(g.rng("dac3:bitratecode", 0, 18)), 5)
	bw.put(0, 5)
	return bw.b
}

// dec3: EC3SpecificBox (ETSI TS 102 366 F.6)
func (g *gen) dec3Payload() []byte {
	bw := &bitw{}
	bw.put(uint64(g.rng("dec3:datarate", 0, 8191)), 13)
	n := g.pickInt("dec3:subs", 1, 1, 1, 2, 3)
	bw.put(uint64(n-1), 3)
	for i := 0; i < n; i++ {
		l := "dec3#" + strconv.Itoa(i)
		bw.put(uint64(g.rng(l+":fscod", 0, 2)), 2)
		bw.put(16, 5)
		bw.put(0, 1)
		bw.put(uint64(g.rng(l+":asvc", 0, 1)), 1)
		bw.put(uint64(g.rng(l+":bsmod", 0, 7)), 3)
		bw.put(uint64(g.rng(l+":acmod", 0, 7)), 3)
		bw.put(uint64(g.rng(l+":lfeon", 0, 1)), 1)
		bw.put(0, 3)
		dep := g.pickInt(l+":numdep", 0, 0, 1, 2)
		bw.put(uint64(dep), 4)
		if dep > 0 {
			bw.put(uint64(g.rng(l+":chanloc", 0, 511)), 9)
		} else {
			bw.put(0, 1)
		}
	}
	if g.pct("dec3:joc", 25) { // Dolby Atmos extension: reserved(7), flag_ec3_extension_type_a, complexity_index_type_a
		bw.put(1, 8)
		bw.put(uint64(g.rng("dec3:complexity", 0, 16)), 8)
	}
	return bw.b
}

// av1C: AV1CodecConfigurationRecord (AV1-ISOBMFF 2.3.3)
func (g *gen) av1CPayload() []byte {
	w := (&wr{}).u8(0x81).u8(g.rng("av1C:profile", 0, 2)<<5 | g.rng("av1C:level", 0, 23))
	w.u8(g.rng("av1C:tier", 0, 1)<<7 | g.rng("av1C:highbitdepth", 0, 1)<<6 | g.rng("av1C:twelvebit", 0, 1)<<5 |
		g.rng("av1C:mono", 0, 1)<<4 | g.rng("av1C:subx", 0, 1)<<3 | g.rng("av1C:suby", 0, 1)<<2 | g.rng("av1C:samplepos", 0, 3))
	if g.pct("av1C:delay", 30) {
		w.u8(0x10 | g.rng("av1C:delayminus1", 0, 15))
	} else {
		w.u8(0)
	}
	return w.raw(g.bytes("av1C:obus", 0, 16)).b
}

// vpcC: VPCodecConfigurationBox (VP-ISOBMFF)
func (g *gen) vpcCPayload() []byte {
	w := full(1, 0).u8(g.rng("vpcC:profile", 0, 3)).u8(g.pickInt("vpcC:level", 10, 31, 62))
	w.u8(g.pickInt("vpcC:bitdepth", 8, 10, 12)<<4 | g.rng("vpcC:chroma", 0, 3)<<1 | g.rng("vpcC:fullrange", 0, 1))
	w.u8(g.pickInt("vpcC:primaries", 1, 2, 9)).u8(g.pickInt("vpcC:transfer", 1, 2, 16)).u8(g.pickInt("vpcC:matrix", 0, 1, 2, 9))
	var init []byte
	if g.hostile("vpcC:init", 20) {
		init = g.bytes("vpcC:initdata", 1, 8) // codec_initialization_data_size shall be 0 for VP8 and VP9
	}
	return w.u16(len(init)).raw(init).b
}

func init() {
	reg(map[string]func(g *gen) []byte{
		"avcC": (*gen).avcCPayload,
		"hvcC": (*gen).hvcCPayload,
		"esds": (*gen).esdsPayload,
		"dac3": (*gen).dac3Payload,
		"dec3": (*gen).dec3Payload,
		"av1C": (*gen).av1CPayload,
		"vpcC": (*gen).vpcCPayload,
		"SmDm": func(g *gen) []byte { // SMPTE-2086 mastering display metadata (VP-ISOBMFF)
			w := full(0, 0)
			for i := 0; i < 8; i++ {
				w.u16(g.rng("SmDm:chromaticity", 0, 65535))
			}
			return w.u32(g.u32("SmDm:max")).u32(g.u32("SmDm:min")).b
		},
		"CoLL": func(g *gen) []byte {
			return full(0, 0).u16(g.rng("CoLL:cll", 0, 65535)).u16(g.rng("CoLL:fall", 0, 65535)).b
		},
	})
}
