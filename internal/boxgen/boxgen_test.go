package boxgen

import (
	"bytes"
	"encoding/binary"
	"encoding/hex"
	"fmt"
	"os"
	"sort"
	"strings"
	"testing"
	"time"

	"github.com/Eyevinn/mp4ff/mp4"
	"pgregory.net/rapid"

	"verif/internal/boxwalk"
)

// samples per type and mode; BOXGEN_SAMPLES overrides
var samples = func() int {
	n := 300
	if v := os.Getenv("BOXGEN_SAMPLES"); v != "" {
		fmt.Sscanf(v, "%d", &n)
	}
	return n
}()

// ---------------------------------------------------------------------------------------------
// framing check: boxwalk plus a walker that also knows the containers boxwalk does not descend into

// extraPrefix: containers of this package that boxwalk treats as leaves -> bytes before the first child.
var extraPrefix = map[string]int{"vttc": 0, "trep": 8, "desc": 0, "\xa9alb": 0}

// checkFraming verifies that b[start:end] is a sequence of boxes whose sizes add up, recursively for all
// container types of the grammar. It reports whether a QuickTime style meta box was seen.
func checkFraming(b []byte, start, end int, path string) (qtMeta bool, err error) {
	return checkFramingL(b, start, end, path, nil)
}

// pathAt names the boxes enclosing offset off.
func pathAt(b []byte, off int) string {
	path := ""
	start, end := 0, len(b)
	for {
		found := false
		for _, r := range scan(b, start, end) {
			if off >= r.start && off < r.end {
				path += "/" + r.typ
				skip := 0
				switch r.typ {
				case "meta":
					if !(r.end-r.body >= 8 && string(b[r.body+4:r.body+8]) == "hdlr") {
						skip = 4
					}
				case "stsd", "dref", "wvtt", "evte", "trep":
					skip = 8
				case "avc1", "avc3", "hvc1", "hev1", "encv", "av01", "vp08", "vp09":
					skip = 78
				case "mp4a", "enca", "ac-3", "ec-3":
					skip = 28
				}
				if _, ok := grammar[r.typ]; !ok || r.typ == "stpp" || off < r.body+skip {
					return fmt.Sprintf("%s+%d", path, off-r.start)
				}
				start, end, found = r.body+skip, r.end, true
				break
			}
		}
		if !found {
			return path + "+?"
		}
	}
}

// hasLarge reports whether a box other than mdat uses the 64-bit size form.
func hasLarge(b []byte) bool {
	n := 0
	_, _ = checkFramingL(b, 0, len(b), "", &n)
	return n > 0
}

func checkFramingL(b []byte, start, end int, path string, nLarge *int) (qtMeta bool, err error) {
	pos := start
	for pos < end {
		if end-pos < 8 {
			return qtMeta, fmt.Errorf("%s: %d trailing bytes", path, end-pos)
		}
		size, hdr := int(binary.BigEndian.Uint32(b[pos:])), 8
		typ := string(b[pos+4 : pos+8])
		if size == 1 {
			if end-pos < 16 {
				return qtMeta, fmt.Errorf("%s/%s: truncated largesize", path, typ)
			}
			size, hdr = int(binary.BigEndian.Uint64(b[pos+8:])), 16
			if nLarge != nil && typ != "mdat" {
				*nLarge++
			}
		}
		if size < hdr || size > end-pos {
			return qtMeta, fmt.Errorf("%s/%s at %d: size %d, %d available", path, typ, pos, size, end-pos)
		}
		if typ == "uuid" && size < hdr+16 {
			return qtMeta, fmt.Errorf("%s/uuid too short", path)
		}
		if _, ok := grammar[typ]; ok {
			body, boxEnd := pos+hdr, pos+size
			skip := 0
			switch typ {
			case "meta":
				if boxEnd-body >= 8 && string(b[body+4:body+8]) == "hdlr" {
					qtMeta = true
				} else {
					skip = 4
				}
			case "stsd", "dref", "wvtt", "evte", "trep":
				skip = 8
			case "avc1", "avc3", "hvc1", "hev1", "encv", "av01", "vp08", "vp09":
				skip = 78
			case "mp4a", "enca", "ac-3", "ec-3":
				skip = 28
			case "stpp":
				p := body + 8
				for i := 0; i < 3 && p < boxEnd; i++ {
					for p < boxEnd && b[p] != 0 {
						p++
					}
					p++
				}
				skip = p - body
			}
			if body+skip > boxEnd {
				return qtMeta, fmt.Errorf("%s/%s: prefix of %d bytes does not fit", path, typ, skip)
			}
			q, err := checkFramingL(b, body+skip, boxEnd, path+"/"+typ, nLarge)
			qtMeta = qtMeta || q
			if err != nil {
				return qtMeta, err
			}
		}
		pos += size
	}
	return qtMeta, nil
}

// frameBox checks a single complete box, with this package's walker and with boxwalk.
func frameBox(b []byte) error {
	if len(b) < 8 {
		return fmt.Errorf("box of %d bytes", len(b))
	}
	qt, err := checkFraming(b, 0, len(b), "")
	if err != nil {
		return err
	}
	bs, err := boxwalk.WalkAll(b)
	if err != nil && !qt {
		return fmt.Errorf("boxwalk: %w", err)
	}
	if len(bs) != 1 || bs[0].Size != len(b) {
		return fmt.Errorf("boxwalk: %d top-level boxes, first size %d, want one of %d", len(bs), bs[0].Size, len(b))
	}
	return nil
}

func frameFile(b []byte) error {
	qt, err := checkFraming(b, 0, len(b), "")
	if err != nil {
		return err
	}
	if _, err := boxwalk.WalkAll(b); err != nil && !qt {
		return fmt.Errorf("boxwalk: %w", err)
	}
	return nil
}

// ---------------------------------------------------------------------------------------------
// guarded library calls

type outcome struct {
	err    error
	panic  string
	hang   bool
	reenc  []byte
	reErr  error
	didEnc bool
}

func guarded(f func() outcome) outcome {
	ch := make(chan outcome, 1)
	go func() {
		defer func() {
			if r := recover(); r != nil {
				ch <- outcome{panic: fmt.Sprint(r)}
			}
		}()
		ch <- f()
	}()
	select {
	case o := <-ch:
		return o
	case <-time.After(5 * time.Second):
		return outcome{hang: true}
	}
}

func decodeBox(b []byte) outcome {
	return guarded(func() outcome {
		box, err := mp4.DecodeBox(0, bytes.NewReader(b))
		if err != nil {
			return outcome{err: err}
		}
		if sz := box.Size(); sz > uint64(16*len(b)+1024) {
			// do not encode: the encoders allocate Size() bytes
			return outcome{panic: fmt.Sprintf("Size() = %d after decoding %d bytes (Encode not attempted)", sz, len(b))}
		}
		var buf bytes.Buffer
		reErr := box.Encode(&buf)
		return outcome{reenc: buf.Bytes(), reErr: reErr, didEnc: true}
	})
}

func decodeFile(b []byte) outcome {
	return guarded(func() outcome {
		f, err := mp4.DecodeFile(bytes.NewReader(b))
		if err != nil {
			return outcome{err: err}
		}
		if sz := f.Size(); sz > uint64(16*len(b)+1024) {
			return outcome{panic: fmt.Sprintf("Size() = %d after decoding %d bytes (Encode not attempted)", sz, len(b))}
		}
		var buf bytes.Buffer
		reErr := f.Encode(&buf)
		return outcome{reenc: buf.Bytes(), reErr: reErr, didEnc: true}
	})
}

// dangerous recognises hostile inputs known to make mp4ff allocate gigabytes: an alst sample group
// description whose length field is huge (DecodeAlstSampleGroupEntry: make([]uint16, (length-size)/4)).
func dangerous(b []byte) bool {
	for i := 0; i+24 <= len(b); i++ {
		if string(b[i:i+4]) != "sgpd" || string(b[i+8:i+12]) != "alst" {
			continue
		}
		size := int(binary.BigEndian.Uint32(b[i-4:]))
		end := i - 4 + size
		if end > len(b) || size < 20 {
			continue
		}
		for p := i + 12; p+4 <= end; p++ { // any aligned or unaligned length-looking field that exceeds the box
			if v := binary.BigEndian.Uint32(b[p:]); v > uint32(size) && v >= 0x10000 {
				return true
			}
		}
	}
	return false
}

// knownDiff: the re-encoded bytes differ from the input only where mp4ff is known to normalise legal
// values: the transformation matrix of mvhd/tkhd (always written as the unity matrix) and the type
// indicator / locale of an ilst data box (always written as 1 / 0).
func knownDiff(in, out []byte) bool {
	if len(in) != len(out) {
		return false
	}
	for i := range in {
		if in[i] == out[i] {
			continue
		}
		p := pathAt(in, i)
		k := strings.LastIndex(p, "+")
		var off int
		fmt.Sscanf(p[k+1:], "%d", &off)
		box := p[:k]
		box = box[strings.LastIndex(box, "/")+1:]
		start := i - off
		switch box {
		case "data":
			if off < 8 || off >= 16 {
				return false
			}
		case "tkhd":
			m := 48 + 12*int(in[start+8])
			if off < m || off >= m+36 {
				return false
			}
		case "mvhd":
			m := 44 + 12*int(in[start+8])
			if off < m || off >= m+36 {
				return false
			}
		default:
			return false
		}
	}
	return true
}

type stat struct {
	name                  string
	total, accepted       int
	firstErr              string
	firstErrHex           string
	rtDiff, rtErr, large  int
	firstDiffAt           string
	known                 int
	errClasses            map[string]int
	diffs                 map[string][2]string
	firstDiffHex          string
	firstDiffOut          string
	panics, hangs         int
	firstPanic, panicsHex string
	maxLen                int
}

func (s *stat) add(b []byte, o outcome) {
	s.total++
	if len(b) > s.maxLen {
		s.maxLen = len(b)
	}
	switch {
	case o.hang:
		s.hangs++
		if s.panicsHex == "" {
			s.firstPanic, s.panicsHex = "HANG (>5s)", hex.EncodeToString(b)
		}
	case o.panic != "":
		s.panics++
		if s.panicsHex == "" {
			s.firstPanic, s.panicsHex = o.panic, hex.EncodeToString(b)
		}
	case o.err != nil:
		if s.errClasses == nil {
			s.errClasses = map[string]int{}
		}
		s.errClasses[errClass(o.err.Error())]++
		if s.firstErr == "" {
			s.firstErr, s.firstErrHex = o.err.Error(), hex.EncodeToString(b)
		}
	default:
		s.accepted++
		if o.reErr != nil {
			s.rtErr++
		} else if o.didEnc && !bytes.Equal(o.reenc, b) {
			if hasLarge(b) { // re-encoded with the compact size form: expected
				s.large++
				return
			}
			if knownDiff(b, o.reenc) {
				s.known++
				return
			}
			s.rtDiff++
			i := 0
			for i < len(b) && i < len(o.reenc) && b[i] == o.reenc[i] {
				i++
			}
			where := pathAt(b, i)
			if s.diffs == nil {
				s.diffs = map[string][2]string{}
			}
			if _, ok := s.diffs[where]; !ok && len(s.diffs) < 6 {
				s.diffs[where] = [2]string{hex.EncodeToString(b), hex.EncodeToString(o.reenc)}
			}
		}
	}
}

// errClass keeps the innermost message of a decode error, without numbers.
func errClass(msg string) string {
	if i := strings.LastIndex(msg, ": "); i >= 0 && strings.HasPrefix(msg, "decode ") {
		parts := strings.Split(msg, ": ")
		k := 0
		for k < len(parts)-1 && strings.HasPrefix(parts[k], "decode ") {
			k++
		}
		msg = strings.Join(parts[k:], ": ")
	}
	out := []byte(msg)
	for i, c := range out {
		if c >= '0' && c <= '9' {
			out[i] = '#'
		}
	}
	return strings.ReplaceAll(strings.ReplaceAll(strings.ReplaceAll(string(out), "##", "#"), "##", "#"), "##", "#")
}

func trunc(s string, n int) string {
	if len(s) > n {
		return s[:n] + "..."
	}
	return s
}

func printTable(t *testing.T, title string, stats []*stat, verbose bool) {
	var sb strings.Builder
	fmt.Fprintf(&sb, "\n== %s ==\n%-6s %9s %6s %6s %6s %6s  %s\n", title, "type", "accepted", "rtdiff", "known", "panic", "maxlen", "first error")
	for _, s := range stats {
		fmt.Fprintf(&sb, "%-6q %4d/%-4d %6d %6d %6d %6d  %s\n", s.name, s.accepted, s.total, s.rtDiff, s.known, s.panics+s.hangs, s.maxLen, trunc(s.firstErr, 110))
	}
	if verbose {
		for _, s := range stats {
			if s.firstErr != "" {
				fmt.Fprintf(&sb, "REJECT %q: %s\n   in:  %s\n", s.name, s.firstErr, trunc(s.firstErrHex, 600))
			}
			var classes []string
			for k, n := range s.errClasses {
				classes = append(classes, fmt.Sprintf("%5d  %s", n, k))
			}
			sort.Sort(sort.Reverse(sort.StringSlice(classes)))
			for _, c := range classes {
				fmt.Fprintf(&sb, "REJECT-CLASS %q %s\n", s.name, trunc(c, 160))
			}
			var keys []string
			for k := range s.diffs {
				keys = append(keys, k)
			}
			sort.Strings(keys)
			for _, k := range keys {
				fmt.Fprintf(&sb, "RTDIFF %q (%d in total) first difference at %s\n   in:  %s\n   out: %s\n", s.name, s.rtDiff, k, trunc(s.diffs[k][0], 900), trunc(s.diffs[k][1], 900))
			}
		}
	}
	for _, s := range stats {
		if s.panicsHex != "" {
			fmt.Fprintf(&sb, "LIBRARY %q: %s\n   in:  %s\n", s.name, s.firstPanic, trunc(s.panicsHex, 4000))
		}
	}
	t.Log(sb.String())
}

func allTypes() []string {
	ts := append(LeafTypes(), ContainerTypes()...)
	sort.Strings(ts)
	return append(ts, "qqqq") // an unknown type
}

func boxGen(typ string, o Opt) *rapid.Generator[[]byte] {
	return rapid.Custom(func(t *rapid.T) []byte { return Box(t, typ, o) })
}

func fileGen(kind string, o Opt) *rapid.Generator[[]byte] {
	return rapid.Custom(func(t *rapid.T) []byte { return File(t, kind, o) })
}

var fileKinds = []string{"prog", "init", "media", "frag", "any"}

// TestAcceptance: framing of every generated box is checked; the acceptance by mp4ff is tabulated.
// BOXGEN_VERBOSE=1 adds the hex of the first rejected / re-encoded-differently input per type.
func TestAcceptance(t *testing.T) {
	verbose := os.Getenv("BOXGEN_VERBOSE") != ""
	// Hostile inputs are only fed to the library on request: a hang that allocates cannot be stopped and
	// running out of memory kills the test process.
	hostileLib := os.Getenv("BOXGEN_HOSTILE_LIB") != ""
	for _, hostile := range []bool{false, true} {
		o := Opt{Hostile: hostile}
		var stats []*stat
		for _, typ := range allTypes() {
			s := &stat{name: typ}
			gen := boxGen(typ, o)
			for i := 0; i < samples; i++ {
				b := gen.Example(i)
				if err := frameBox(b); err != nil {
					t.Fatalf("framing of %q (hostile=%v) example %d: %v\n%s", typ, hostile, i, err, hex.EncodeToString(b))
				}
				if typ != "qqqq" && string(b[4:8]) != typ {
					t.Fatalf("Box(%q) returned a %q box", typ, b[4:8])
				}
				if !hostile || hostileLib && !dangerous(b) {
					s.add(b, decodeBox(b))
				} else {
					s.total++
				}
			}
			stats = append(stats, s)
			if !hostile && s.accepted*100 < s.total*90 {
				t.Logf("NOTE: non-hostile %q accepted %d/%d: %s", typ, s.accepted, s.total, s.firstErr)
			}
		}
		printTable(t, fmt.Sprintf("boxes, hostile=%v", hostile), stats, verbose && !hostile)

		var fstats []*stat
		for _, kind := range fileKinds {
			s := &stat{name: kind}
			gen := fileGen(kind, o)
			for i := 0; i < samples; i++ {
				b := gen.Example(i)
				if err := frameFile(b); err != nil {
					t.Fatalf("framing of file %q (hostile=%v) example %d: %v\n%s", kind, hostile, i, err, hex.EncodeToString(b))
				}
				if !hostile || hostileLib && !dangerous(b) {
					s.add(b, decodeFile(b))
				} else {
					s.total++
				}
			}
			fstats = append(fstats, s)
			if s.maxLen > 16384 {
				t.Errorf("file kind %q: %d bytes", kind, s.maxLen)
			}
		}
		printTable(t, fmt.Sprintf("files, hostile=%v", hostile), fstats, verbose && !hostile)
	}
}

func TestDeterminism(t *testing.T) {
	for _, hostile := range []bool{false, true} {
		o := Opt{Hostile: hostile}
		for _, typ := range allTypes() {
			gen := boxGen(typ, o)
			for i := 0; i < 20; i++ {
				if a, b := gen.Example(i), gen.Example(i); !bytes.Equal(a, b) {
					t.Fatalf("Box(%q) example %d differs between two runs", typ, i)
				}
			}
		}
		for _, kind := range fileKinds {
			gen := fileGen(kind, o)
			for i := 0; i < 40; i++ {
				if a, b := gen.Example(i), gen.Example(i); !bytes.Equal(a, b) {
					t.Fatalf("File(%q) example %d differs between two runs", kind, i)
				}
			}
		}
	}
}

// TestShapes checks that the shapes named in the task are reachable.
func TestShapes(t *testing.T) {
	want := map[string]func(b []byte) bool{
		"stsc sdi 1,2,1": func(b []byte) bool {
			if string(b[4:8]) != "stsc" || binary.BigEndian.Uint32(b[12:]) != 3 || len(b) < 16+36 {
				return false
			}
			return binary.BigEndian.Uint32(b[24:]) == 1 && binary.BigEndian.Uint32(b[36:]) == 2 && binary.BigEndian.Uint32(b[48:]) == 1
		},
		"pssh v1 without kids": func(b []byte) bool {
			return string(b[4:8]) == "pssh" && b[8] == 1 && binary.BigEndian.Uint32(b[28:]) == 0
		},
		"trun with only first-sample-flags": func(b []byte) bool {
			return string(b[4:8]) == "trun" && binary.BigEndian.Uint32(b[8:])&0xffffff == 4
		},
		"sgpd without entries": func(b []byte) bool {
			return string(b[4:8]) == "sgpd" && b[8] == 1 && binary.BigEndian.Uint32(b[20:]) == 0
		},
		"elst v1":         func(b []byte) bool { return string(b[4:8]) == "elst" && b[8] == 1 && len(b) > 16 },
		"saiz per-sample": func(b []byte) bool { return string(b[4:8]) == "saiz" && b[11] == 0 && b[12] == 0 && len(b) > 17 },
		"tfra all 3-byte": func(b []byte) bool { return string(b[4:8]) == "tfra" && b[19] == 0x2a },
		"moov trak after two others": func(b []byte) bool {
			if string(b[4:8]) != "moov" || binary.BigEndian.Uint32(b) == 1 {
				return false
			}
			var types []string
			for _, r := range scan(b, 8, len(b)) {
				types = append(types, r.typ)
			}
			s := strings.Join(types, " ")
			return strings.Contains(s, "trak mvex udta trak") || strings.Contains(s, "trak udta mvex trak") || strings.Contains(s, "mvex udta trak")
		},
	}
	gens := map[string]string{"stsc sdi 1,2,1": "stsc", "pssh v1 without kids": "pssh", "trun with only first-sample-flags": "trun",
		"sgpd without entries": "sgpd", "elst v1": "elst", "saiz per-sample": "saiz", "tfra all 3-byte": "tfra", "moov trak after two others": "moov"}
	var names []string
	for k := range want {
		names = append(names, k)
	}
	sort.Strings(names)
	for _, name := range names {
		gen := boxGen(gens[name], Opt{})
		found := -1
		for i := 0; i < 20000 && found < 0; i++ {
			if want[name](gen.Example(i)) {
				found = i
			}
		}
		if found < 0 {
			t.Errorf("shape %q not reached in 20000 examples", name)
		} else {
			t.Logf("shape %q first reached at example %d", name, found)
		}
	}
}

// TestConsistency reads non-hostile files back with mp4ff and checks, with the offsets it parsed, that every
// sample's bytes are where the tables say: media bytes are (track_ID<<4 | sample index & 15).
func TestConsistency(t *testing.T) {
	checked, samplesSeen := 0, 0
	for _, kind := range []string{"prog", "frag", "media"} {
		gen := fileGen(kind, Opt{})
		for i := 0; i < samples; i++ {
			b := gen.Example(i)
			if hasLarge(b) {
				continue // mp4ff positions are off after a largesize box
			}
			f, err := mp4.DecodeFile(bytes.NewReader(b))
			if err != nil {
				continue
			}
			checked++
			if kind == "prog" {
				if f.Moov == nil {
					t.Fatalf("prog example %d: no moov", i)
				}
				for _, trak := range f.Moov.Traks {
					stbl := trak.Mdia.Minf.Stbl
					if stbl.Stsz == nil || stbl.Stsc == nil || stbl.Stco == nil && stbl.Co64 == nil {
						continue // stz2
					}
					id := trak.Tkhd.TrackID
					for nr := uint32(1); nr <= stbl.Stsz.GetNrSamples(); nr++ {
						rs, err := trak.GetRangesForSampleInterval(nr, nr)
						if err != nil {
							t.Fatalf("prog example %d track %d sample %d: %v\n%s", i, id, nr, err, hex.EncodeToString(b))
						}
						for _, r := range rs {
							for p := r.Offset; p < r.Offset+r.Size; p++ {
								if p >= uint64(len(b)) || b[p] != byte(id<<4)|byte((nr-1)&15) {
									t.Fatalf("prog example %d track %d sample %d: byte at %d is not the sample's\n%s", i, id, nr, p, hex.EncodeToString(b))
								}
							}
						}
						samplesSeen++
					}
				}
				continue
			}
			trexSize := map[uint32]uint32{}
			if f.Moov != nil && f.Moov.Mvex != nil {
				for _, x := range f.Moov.Mvex.Trexs {
					trexSize[x.TrackID] = x.DefaultSampleSize
				}
			}
			for _, c := range f.Children {
				moof, ok := c.(*mp4.MoofBox)
				if !ok {
					continue
				}
				for j, traf := range moof.Trafs {
					tfhd := traf.Tfhd
					base := moof.StartPos
					switch {
					case tfhd.HasBaseDataOffset():
						base = tfhd.BaseDataOffset
					case tfhd.DefaultBaseIfMoof() || j == 0:
					default:
						continue // base is the end of the previous traf's data
					}
					var pos uint64
					for k, trun := range traf.Truns {
						if trun.HasDataOffset() {
							pos = uint64(int64(base) + int64(trun.DataOffset))
						} else if k == 0 {
							pos = base
						}
						for si, s := range trun.Samples {
							size := s.Size
							if !trun.HasSampleSize() {
								size = trexSize[tfhd.TrackID]
								if tfhd.HasDefaultSampleSize() {
									size = tfhd.DefaultSampleSize
								}
							}
							for n := uint32(0); n < size; n++ {
								if pos >= uint64(len(b)) || b[pos] != byte(tfhd.TrackID<<4)|byte(si&15) {
									t.Fatalf("%s example %d moof at %d traf %d trun %d sample %d: byte at %d is not the sample's\n%s",
										kind, i, moof.StartPos, j, k, si, pos, hex.EncodeToString(b))
								}
								pos++
							}
							samplesSeen++
						}
					}
				}
			}
		}
	}
	t.Logf("%d files, %d samples checked", checked, samplesSeen)
	if checked < samples || samplesSeen < 10*samples {
		t.Errorf("too little was checked")
	}
}
