// Package seeds provides the deterministic pool of valid inputs that the mutation-based checks start from:
// the repository's media files (read byte-wise), init+segment concatenations of files that sit in the same
// test directory, and synthetic files from the harness' own writers (fragbuild, mp4build) built from fixed
// rapid example seeds.
package seeds

import (
	"path/filepath"
	"sort"
	"strings"
	"sync"

	"pgregory.net/rapid"

	"verif/internal/boxwalk"
	"verif/internal/fragbuild"
	"verif/internal/mp4build"
)

type Seed struct {
	Name string
	Data []byte
}

var (
	once sync.Once
	pool []Seed
	idx  map[string]int
)

// Pool returns the seeds (sorted by name). repo is the repository root.
func Pool(repo string) []Seed {
	once.Do(func() { load(repo) })
	return pool
}

// Get returns the seed with the given name (nil if unknown).
func Get(repo, name string) []byte {
	Pool(repo)
	if i, ok := idx[name]; ok {
		return pool[i].Data
	}
	return nil
}

func load(repo string) {
	files := boxwalk.MediaFiles(repo, boxwalk.Mp4Exts, 300<<10)
	byDir := map[string][]boxwalk.File{}
	for _, f := range files {
		rel, _ := filepath.Rel(repo, f.Path)
		pool = append(pool, Seed{Name: "repo:" + rel, Data: f.Data})
		byDir[filepath.Dir(f.Path)] = append(byDir[filepath.Dir(f.Path)], f)
	}
	for _, fs := range byDir {
		for _, a := range fs {
			if !strings.Contains(filepath.Base(a.Path), "init") || len(a.Data) > 8000 {
				continue
			}
			for _, b := range fs {
				if strings.HasSuffix(b.Path, ".m4s") && len(b.Data) < 64<<10 {
					ra, _ := filepath.Rel(repo, a.Path)
					pool = append(pool, Seed{Name: "repo:" + ra + "+" + filepath.Base(b.Path), Data: append(append([]byte{}, a.Data...), b.Data...)})
				}
			}
		}
	}
	// synthetic fragmented files
	fv, fa, ferr := fragbuild.HarvestStsd(repo)
	fgen := rapid.Custom(func(t *rapid.T) []byte {
		opt := fragbuild.GenOpt{MaxTracks: 3, MaxSamples: 8, MaxSegments: 3, MaxFrags: 3, VideoStsd: fv, AudioStsd: fa}
		tracks := fragbuild.GenTracks(t, opt)
		lay := fragbuild.GenLayout(t, tracks, opt)
		init, segs, truth, err := fragbuild.Build(tracks, lay)
		if err != nil {
			return nil
		}
		return fragbuild.Concat(init, segs, truth)
	})
	if ferr == nil {
		for i := 1; i <= 40; i++ {
			if d := fgen.Example(i); len(d) > 0 {
				pool = append(pool, Seed{Name: "frag:" + itoa(i), Data: d})
			}
		}
	}
	pv, pa, perr := mp4build.HarvestStsd(repo)
	pgen := rapid.Custom(func(t *rapid.T) []byte {
		opt := mp4build.GenOpt{MinTracks: 1, MaxTracks: 3, MaxSamples: 12, MaxSampleSize: 40, VideoStsd: pv, AudioStsd: pa}
		tracks := mp4build.GenTracks(t, opt)
		lay := mp4build.GenProgLayout(t, tracks)
		file, _, err := mp4build.BuildProgressive(tracks, lay)
		if err != nil {
			return nil
		}
		return file
	})
	if perr == nil {
		for i := 1; i <= 20; i++ {
			if d := pgen.Example(i); len(d) > 0 {
				pool = append(pool, Seed{Name: "prog:" + itoa(i), Data: d})
			}
		}
	}
	sort.Slice(pool, func(i, j int) bool { return pool[i].Name < pool[j].Name })
	idx = map[string]int{}
	for i, s := range pool {
		idx[s.Name] = i
	}
}

func itoa(i int) string {
	if i == 0 {
		return "0"
	}
	s := ""
	for i > 0 {
		s = string(rune('0'+i%10)) + s
		i /= 10
	}
	return s
}

// Names returns the names of seeds not larger than max bytes.
func Names(repo string, max int) []string {
	var out []string
	for _, s := range Pool(repo) {
		if len(s.Data) <= max {
			out = append(out, s.Name)
		}
	}
	return out
}
