package nalgen

import (
	"bytes"
	"testing"
)

// readUE decodes one ue(v) from the bit string (MSB first) starting at *pos; ok=false on a prefix > 64 bits or EOF.
func readUE(b []byte, pos *int) (v uint64, zeros int, ok bool) {
	bit := func() (int, bool) {
		if *pos >= len(b)*8 {
			return 0, false
		}
		x := int(b[*pos/8]>>uint(7-*pos%8)) & 1
		*pos++
		return x, true
	}
	for {
		x, ok := bit()
		if !ok {
			return 0, zeros, false
		}
		if x == 1 {
			break
		}
		zeros++
	}
	if zeros > 63 {
		return 0, zeros, false
	}
	var suf uint64
	for i := 0; i < zeros; i++ {
		x, ok := bit()
		if !ok {
			return 0, zeros, false
		}
		suf = suf<<1 | uint64(x)
	}
	return uint64(1)<<uint(zeros) - 1 + suf, zeros, true
}

func writeSample(h *Hostile) []byte {
	w := NewHostileBitWriter(h)
	w.U(0xa5, 8)
	w.UE(0)
	w.UE(7)
	w.Flag(true)
	w.SE(-3)
	w.UE(1<<32 - 2)
	w.U(3, 2)
	w.TrailingBits()
	return w.Out()
}

func TestHostileZeroValueIsIdentity(t *testing.T) {
	ref := func() []byte {
		w := NewBitWriter()
		w.U(0xa5, 8)
		w.UE(0)
		w.UE(7)
		w.Flag(true)
		w.SE(-3)
		w.UE(1<<32 - 2)
		w.U(3, 2)
		w.TrailingBits()
		return w.Out()
	}()
	h := &Hostile{}
	if got := writeSample(h); !bytes.Equal(got, ref) {
		t.Fatalf("zero hook changed the output: %x vs %x", got, ref)
	}
	if h.SeenUE != 4 {
		t.Fatalf("SeenUE = %d, want 4", h.SeenUE)
	}
	if got := writeSample(nil); !bytes.Equal(got, ref) {
		t.Fatalf("nil hook changed the output")
	}
	// fields without their enabling switch are inert
	if got := writeSample(&Hostile{UEIndex: 1, UEValue: 99, FlipBit: 3}); !bytes.Equal(got, ref) {
		t.Fatalf("UEIndex/UEValue/FlipBit without ReplaceUE/Flip changed the output")
	}
}

func TestHostileReplace(t *testing.T) {
	for _, v := range []uint64{0, 0xffff, 0x10000, 1<<31 - 1, 1 << 31, 1<<32 - 2, 1<<32 - 1, 1 << 40} {
		for k := 0; k < 4; k++ {
			out := writeSample(&Hostile{ReplaceUE: true, UEIndex: k, UEValue: v})
			pos := 8
			want := []uint64{0, 7, SEMap(-3), 1<<32 - 2}
			want[k] = v
			for i := 0; i < 4; i++ {
				if i == 2 {
					pos++ // the flag
				}
				got, _, ok := readUE(out, &pos)
				if !ok || got != want[i] {
					t.Fatalf("replace #%d by %d: codeword %d decodes to %d (ok=%v), want %d", k, v, i, got, ok, want[i])
				}
			}
		}
	}
}

func TestHostileOverlongTruncateFlip(t *testing.T) {
	out := writeSample(&Hostile{ReplaceUE: true, UEIndex: 1, UEValue: 5, UEPrefixZeros: 40})
	pos := 8
	if v, _, ok := readUE(out, &pos); !ok || v != 0 {
		t.Fatalf("first codeword")
	}
	start := pos
	_, zeros, _ := readUE(out, &pos)
	if zeros != 40 || pos != start+81 {
		t.Fatalf("over-long codeword: %d zeros, %d bits", zeros, pos-start)
	}
	full := writeSample(nil)
	h := &Hostile{TruncateBits: 13}
	cut := writeSample(h)
	if len(cut) != 2 || cut[0] != full[0] || cut[1] != full[1]&0xf8 || h.SeenBits != len(full)*8 {
		t.Fatalf("truncate: %x of %x (SeenBits %d)", cut, full, h.SeenBits)
	}
	fl := writeSample(&Hostile{Flip: true, FlipBit: 0})
	if fl[0] != full[0]^0x80 || !bytes.Equal(fl[1:], full[1:]) {
		t.Fatalf("flip: %x of %x", fl, full)
	}
	if got := writeSample(&Hostile{Flip: true, FlipBit: 1 << 20}); !bytes.Equal(got, full) {
		t.Fatalf("flip beyond the end changed the output")
	}
	if got := writeSample(&Hostile{ReplaceUE: true, UEIndex: 0, UEValue: ^uint64(0)}); len(got) < 17 {
		t.Fatalf("2^64-1: %x", got)
	}
}
