// Package nalgen holds the harness' own (library-independent) bit writer, emulation-prevention
// escaper/unescaper and NAL unit stream generators. Nothing in this file calls mp4ff.
package nalgen

// BitWriter is an MSB-first bit writer into memory.
type BitWriter struct {
	buf  []byte
	acc  uint64
	nacc int // bits in acc (<8 after each write)
	bits int // total number of bits written
	h    *Hostile
	nue  int // Exp-Golomb codewords written so far (ue(v) and se(v) alike)
}

func NewBitWriter() *BitWriter { return &BitWriter{} }

// Hostile is an optional hook of the bit writer that turns a bit-exact serialisation of a VALID value tree
// into a hostile one without touching the tree: one Exp-Golomb codeword is replaced, the stream is cut, a
// bit is inverted. The zero value (and a nil pointer) changes nothing: the output is bit-identical to a
// serialisation without hook. The serialisers keep following the TREE (loop counts, conditions), only the
// written bits differ; what a parser makes of the rest of the stream is the point of the exercise.
//
// Order of application: the codeword replacement happens while writing; truncation and the bit flip are
// applied by Out() to the bits written (for the AVC serialisers that is the RBSP without the NAL header
// byte, for the HEVC serialisers the two NAL header bytes are bits 0..15), before emulation prevention.
type Hostile struct {
	// ReplaceUE: the UEIndex-th Exp-Golomb codeword written (ue(v) or se(v), counted from 0 in writing order)
	// is replaced by the ue(v) codeword of UEValue (0 .. 2^32-2 are the legal code numbers; larger values are
	// written as well: 2^32-1 needs a 32-bit prefix, 2^63 a 63-bit one).
	ReplaceUE bool   `json:"replace_ue,omitempty"`
	UEIndex   int    `json:"ue_index,omitempty"`
	UEValue   uint64 `json:"ue_value,omitempty"`
	// UEPrefixZeros > 0 (with ReplaceUE) writes an over-long codeword instead: that many leading zero bits
	// (33, 64, 100 ...), the marker bit 1, and then as many suffix bits taken from the low bits of UEValue
	// (zero bits beyond 64).
	UEPrefixZeros int `json:"ue_prefix_zeros,omitempty"`
	// ReplaceUE2: a second codeword (index UEIndex2, any position) replaced by UEValue2, for faults that need two
	// cooperating values (a width that wraps to 0 and the count of elements read with it)
	ReplaceUE2 bool   `json:"replace_ue2,omitempty"`
	UEIndex2   int    `json:"ue_index2,omitempty"`
	UEValue2   uint64 `json:"ue_value2,omitempty"`
	// TruncateBits > 0: only the first TruncateBits bits are kept (the last byte is padded with zeros).
	TruncateBits int `json:"truncate_bits,omitempty"`
	// Flip: bit number FlipBit (0 = first bit written) is inverted, if it exists after truncation.
	Flip    bool `json:"flip,omitempty"`
	FlipBit int  `json:"flip_bit,omitempty"`

	// Results, set by Out(): the number of Exp-Golomb codewords and of bits the serialiser wrote (before
	// truncation). Serialise once with &Hostile{} to learn them.
	SeenUE   int `json:"-"`
	SeenBits int `json:"-"`
}

// NewHostileBitWriter returns a writer with the hook attached (h may be nil).
func NewHostileBitWriter(h *Hostile) *BitWriter { return &BitWriter{h: h} }

// NumUE is the number of Exp-Golomb codewords written so far.
func (w *BitWriter) NumUE() int { return w.nue }

// U writes the n (0..64) low bits of v, most significant first.
func (w *BitWriter) U(v uint64, n int) {
	for i := n - 1; i >= 0; i-- {
		w.acc = w.acc<<1 | (v>>uint(i))&1
		w.nacc++
		w.bits++
		if w.nacc == 8 {
			w.buf = append(w.buf, byte(w.acc))
			w.acc, w.nacc = 0, 0
		}
	}
}

func (w *BitWriter) Flag(b bool) {
	if b {
		w.U(1, 1)
	} else {
		w.U(0, 1)
	}
}

// UE writes v as ue(v) (Exp-Golomb, H.264 9.1).
func (w *BitWriter) UE(v uint64) {
	k := w.nue
	w.nue++
	if h := w.h; h != nil && h.ReplaceUE2 && h.UEIndex2 == k && !(h.ReplaceUE && h.UEIndex == k) {
		v = h.UEValue2
	}
	if h := w.h; h != nil && h.ReplaceUE && h.UEIndex == k {
		if h.UEPrefixZeros > 0 {
			for i := 0; i < h.UEPrefixZeros; i++ {
				w.U(0, 1)
			}
			w.U(1, 1)
			for i := h.UEPrefixZeros - 1; i >= 0; i-- {
				if i < 64 {
					w.U(h.UEValue>>uint(i), 1)
				} else {
					w.U(0, 1)
				}
			}
			return
		}
		v = h.UEValue
		if v == ^uint64(0) { // v+1 would wrap: 64 zeros, marker, 64 zero suffix bits
			w.U(0, 64)
			w.U(1, 1)
			w.U(0, 64)
			return
		}
	}
	x := v + 1
	n := 0
	for t := x; t > 1; t >>= 1 {
		n++
	}
	w.U(0, n)
	w.U(x, n+1)
}

// SEMap is the se(v) -> ue(v) code number mapping of H.264 9.1.1: k>0 -> 2k-1, k<=0 -> -2k.
func SEMap(v int64) uint64 {
	if v > 0 {
		return uint64(2*v - 1)
	}
	return uint64(-2 * v)
}

// SE writes v as se(v).
func (w *BitWriter) SE(v int64) { w.UE(SEMap(v)) }

// Bytes writes whole bytes (at any bit alignment).
func (w *BitWriter) Bytes(b []byte) {
	for _, x := range b {
		w.U(uint64(x), 8)
	}
}

// TrailingBits writes rbsp_trailing_bits: a 1 and then zeros up to byte alignment.
func (w *BitWriter) TrailingBits() {
	w.U(1, 1)
	for w.nacc != 0 {
		w.U(0, 1)
	}
}

// AlignZero pads with zero bits to a byte boundary.
func (w *BitWriter) AlignZero() {
	for w.nacc != 0 {
		w.U(0, 1)
	}
}

func (w *BitWriter) NrBits() int   { return w.bits }
func (w *BitWriter) Aligned() bool { return w.nacc == 0 }

// Out returns the bytes written so far; a partial last byte is padded with zeros.
func (w *BitWriter) Out() []byte {
	out := append([]byte{}, w.buf...)
	if w.nacc > 0 {
		out = append(out, byte(w.acc<<uint(8-w.nacc)))
	}
	h := w.h
	if h == nil {
		return out
	}
	h.SeenUE, h.SeenBits = w.nue, w.bits
	nbits := w.bits
	if h.TruncateBits > 0 && h.TruncateBits < nbits {
		nbits = h.TruncateBits
		out = out[:(nbits+7)/8]
		if r := nbits % 8; r != 0 {
			out[len(out)-1] &= byte(0xff) << uint(8-r)
		}
	}
	if h.Flip && h.FlipBit >= 0 && h.FlipBit < nbits {
		out[h.FlipBit/8] ^= 1 << uint(7-h.FlipBit%8)
	}
	return out
}

// Escape inserts emulation_prevention_three_byte exactly where H.264 7.4.1 / H.265 7.4.2 require it:
// whenever two consecutive zero bytes (of the output so far) are followed by a byte <= 3.
func Escape(rbsp []byte) []byte {
	out := make([]byte, 0, len(rbsp)+len(rbsp)/64+2)
	zeros := 0
	for _, b := range rbsp {
		if zeros >= 2 && b <= 3 {
			out = append(out, 3)
			zeros = 0
		}
		out = append(out, b)
		if b == 0 {
			zeros++
		} else {
			zeros = 0
		}
	}
	return out
}

// EscapePositions returns, for every rbsp byte index i, the index of that byte in Escape(rbsp).
func EscapePositions(rbsp []byte) []int {
	pos := make([]int, len(rbsp))
	zeros := 0
	o := 0
	for i, b := range rbsp {
		if zeros >= 2 && b <= 3 {
			o++
			zeros = 0
		}
		pos[i] = o
		o++
		if b == 0 {
			zeros++
		} else {
			zeros = 0
		}
	}
	return pos
}

// Unescape removes every 03 that follows two zero bytes (the decoder-side definition).
func Unescape(ebsp []byte) []byte {
	out := make([]byte, 0, len(ebsp))
	zeros := 0
	for _, b := range ebsp {
		if zeros >= 2 && b == 3 {
			zeros = 0
			continue
		}
		out = append(out, b)
		if b == 0 {
			zeros++
		} else {
			zeros = 0
		}
	}
	return out
}

// HasForbidden reports whether b contains 00 00 00, 00 00 01 or 00 00 02 (byte-aligned).
func HasForbidden(b []byte) bool {
	for i := 0; i+2 < len(b); i++ {
		if b[i] == 0 && b[i+1] == 0 && b[i+2] <= 2 {
			return true
		}
	}
	return false
}
