// HEVC (ITU-T H.265 | ISO/IEC 23008-2) syntax serialisers: value tree -> NAL unit bytes.
//
// Everything here is written from the syntax tables of the standard (7.3.1.2 nal_unit_header, 7.3.2.1
// video_parameter_set_rbsp, 7.3.2.2 seq_parameter_set_rbsp, 7.3.2.3 pic_parameter_set_rbsp, 7.3.3
// profile_tier_level, 7.3.4 scaling_list_data, 7.3.6 slice_segment_header, 7.3.6.2 ref_pic_lists_modification,
// 7.3.6.3 pred_weight_table, 7.3.7 st_ref_pic_set, E.2.1 vui_parameters, E.2.2 hrd_parameters, E.2.3
// sub_layer_hrd_parameters). The plain data structs of mp4ff (hevc.SPS, hevc.PPS, hevc.SliceHeader, ...) are
// used as containers of the syntax element values; NO mp4ff function is called from this file.
// Syntax elements those structs cannot hold live in the HEVC*Tree / HEVC*Extra structs below.
//
// The multilayer (Annex F: F.7.3.2.2.4 sps_multilayer_extension, F.7.3.2.3.4 pps_multilayer_extension,
// F.7.3.2.3.5 colour_mapping_table, F.7.3.2.3.6 colour_mapping_octants) and 3D (Annex I: I.7.3.2.2.5
// sps_3d_extension, I.7.3.2.3.7 pps_3d_extension, I.7.3.2.3.8 delta_dlt) extensions of the parameter sets are
// written when the corresponding flag of the value tree is set.
package nalgen

import (
	"fmt"

	"github.com/Eyevinn/mp4ff/hevc"
)

// NAL unit types (Table 7-1) used by the generators.
const (
	HEVCNalTrailN    = 0
	HEVCNalTrailR    = 1
	HEVCNalTsaN      = 2
	HEVCNalTsaR      = 3
	HEVCNalStsaN     = 4
	HEVCNalStsaR     = 5
	HEVCNalRadlN     = 6
	HEVCNalRadlR     = 7
	HEVCNalRaslN     = 8
	HEVCNalRaslR     = 9
	HEVCNalBlaWLP    = 16
	HEVCNalBlaWRadl  = 17
	HEVCNalBlaNLP    = 18
	HEVCNalIdrWRadl  = 19
	HEVCNalIdrNLP    = 20
	HEVCNalCra       = 21
	HEVCNalRsvIrap22 = 22
	HEVCNalRsvIrap23 = 23
	HEVCNalVPS       = 32
	HEVCNalSPS       = 33
	HEVCNalPPS       = 34
)

// HEVCNalHeader builds nal_unit_header(): forbidden_zero_bit, nal_unit_type u(6), nuh_layer_id u(6),
// nuh_temporal_id_plus1 u(3).
func HEVCNalHeader(nalType, layerID, tidPlus1 byte) []byte {
	v := uint16(nalType&0x3f)<<9 | uint16(layerID&0x3f)<<3 | uint16(tidPlus1&7)
	return []byte{byte(v >> 8), byte(v)}
}

// hevcFinishNal turns header+RBSP bytes (as written into w, header first) into the NAL unit: the payload
// after the two header bytes gets emulation prevention.
func hevcFinishNal(w *BitWriter) []byte {
	raw := w.Out()
	if len(raw) < 2 { // only with a Hostile truncation inside the NAL header
		return raw
	}
	out := append([]byte{}, raw[:2]...)
	return append(out, Escape(raw[2:])...)
}

// ---------------------------------------------------------------------------------------------
// 7.3.3 profile_tier_level

func hevcWriteProfile(w *BitWriter, space byte, tier bool, idc byte, compat uint32, prog, interl, nonPacked, frameOnly bool, low44 uint64) {
	w.U(uint64(space), 2)
	w.Flag(tier)
	w.U(uint64(idc), 5)
	for j := 0; j < 32; j++ { // general_profile_compatibility_flag[ j ], j = 0 first
		w.U(uint64(compat>>uint(31-j))&1, 1)
	}
	w.Flag(prog)
	w.Flag(interl)
	w.Flag(nonPacked)
	w.Flag(frameOnly)
	w.U(low44&(1<<44-1), 44) // 43 bits of profile dependent flags / reserved + general_inbld_flag / reserved bit
}

// hevcWritePTL writes profile_tier_level( profilePresentFlag, maxNumSubLayersMinus1 ). The low 44 bits of
// GeneralConstraintIndicatorFlags / ConstraintFlags are the 43+1 bits that follow the four named source flags.
func hevcWritePTL(w *BitWriter, p *hevc.ProfileTierLevel, profilePresent bool, maxSubLayersMinus1 int) {
	if profilePresent {
		hevcWriteProfile(w, p.GeneralProfileSpace, p.GeneralTierFlag, p.GeneralProfileIDC, p.GeneralProfileCompatibilityFlags,
			p.GeneralProgressiveSourceFlag, p.GeneralInterlacedSourceFlag, p.GeneralNonPackedConstraintFlag,
			p.GeneralFrameOnlyConstraintFlag, p.GeneralConstraintIndicatorFlags)
	}
	w.U(uint64(p.GeneralLevelIDC), 8)
	for i := 0; i < maxSubLayersMinus1; i++ {
		w.Flag(p.SubLayers[i].ProfilePresentFlag)
		w.Flag(p.SubLayers[i].LevelPresentFlag)
	}
	if maxSubLayersMinus1 > 0 {
		for i := maxSubLayersMinus1; i < 8; i++ {
			w.U(0, 2) // reserved_zero_2bits
		}
	}
	for i := 0; i < maxSubLayersMinus1; i++ {
		s := &p.SubLayers[i]
		if s.ProfilePresentFlag {
			hevcWriteProfile(w, s.ProfileSpace, s.TierFlag, s.ProfileIDC, s.ProfileCompatibilityFlags,
				s.ProgressiveSourceFlag, s.InterlacedSourceFlag, s.NonPackedConstraintFlag, s.FrameOnlyConstraintFlag, s.ConstraintFlags)
		}
		if s.LevelPresentFlag {
			w.U(uint64(s.LayerIDC), 8) // sub_layer_level_idc
		}
	}
}

// ---------------------------------------------------------------------------------------------
// 7.3.4 scaling_list_data

// HEVCScalingListData holds the syntax elements of scaling_list_data(). For sizeId 3 only matrixId 0 and 3
// are coded (matrixId += 3).
type HEVCScalingListData struct {
	PredModeFlag      [4][6]bool    `json:"pred_mode_flag"`
	PredMatrixIDDelta [4][6]uint32  `json:"pred_matrix_id_delta"`
	DcCoefMinus8      [4][6]int32   `json:"dc_coef_minus8"` // used for sizeId 2 and 3
	DeltaCoef         [4][6][]int32 `json:"delta_coef"`     // coefNum = Min(64, 1 << (4 + (sizeId << 1))) entries
}

// HEVCScalingCoefNum is coefNum of 7.3.4.
func HEVCScalingCoefNum(sizeID int) int {
	n := 1 << uint(4+(sizeID<<1))
	if n > 64 {
		n = 64
	}
	return n
}

func hevcWriteScalingList(w *BitWriter, d *HEVCScalingListData) {
	for sizeID := 0; sizeID < 4; sizeID++ {
		step := 1
		if sizeID == 3 {
			step = 3
		}
		for matrixID := 0; matrixID < 6; matrixID += step {
			w.Flag(d.PredModeFlag[sizeID][matrixID])
			if !d.PredModeFlag[sizeID][matrixID] {
				w.UE(uint64(d.PredMatrixIDDelta[sizeID][matrixID]))
			} else {
				if sizeID > 1 {
					w.SE(int64(d.DcCoefMinus8[sizeID][matrixID]))
				}
				n := HEVCScalingCoefNum(sizeID)
				for i := 0; i < n; i++ {
					w.SE(int64(d.DeltaCoef[sizeID][matrixID][i]))
				}
			}
		}
	}
}

// ---------------------------------------------------------------------------------------------
// 7.3.7 st_ref_pic_set and the derivation of 7.4.8

// HEVCStRPS holds the syntax elements of one st_ref_pic_set( stRpsIdx ).
type HEVCStRPS struct {
	InterRPSPred      bool     `json:"inter,omitempty"`    // inter_ref_pic_set_prediction_flag
	DeltaIdxMinus1    uint32   `json:"didx,omitempty"`     // only coded in a slice header (stRpsIdx == num_short_term_ref_pic_sets)
	DeltaRpsSign      bool     `json:"sign,omitempty"`     // delta_rps_sign
	AbsDeltaRpsMinus1 uint32   `json:"absm1,omitempty"`    // abs_delta_rps_minus1
	UsedByCurrPicFlag []bool   `json:"used,omitempty"`     // j = 0..NumDeltaPocs[ RefRpsIdx ]
	UseDeltaFlag      []bool   `json:"usedelta,omitempty"` // value for each j; coded only when !UsedByCurrPicFlag[j] (inferred 1 otherwise)
	DeltaPocS0Minus1  []uint32 `json:"s0m1,omitempty"`     // num_negative_pics entries
	UsedByCurrPicS0   []bool   `json:"s0used,omitempty"`   // used_by_curr_pic_s0_flag
	DeltaPocS1Minus1  []uint32 `json:"s1m1,omitempty"`     // num_positive_pics entries
	UsedByCurrPicS1   []bool   `json:"s1used,omitempty"`   // used_by_curr_pic_s1_flag
}

// HEVCRPSVars are the variables the standard derives for one short-term RPS (7-61 .. 7-71):
// DeltaPocS0 (negative, decreasing), DeltaPocS1 (positive, increasing) and the Used flags.
type HEVCRPSVars struct {
	DeltaPocS0 []int64 `json:"s0"`
	UsedS0     []bool  `json:"u0"`
	DeltaPocS1 []int64 `json:"s1"`
	UsedS1     []bool  `json:"u1"`
}

func (v *HEVCRPSVars) NumNegativePics() int { return len(v.DeltaPocS0) }
func (v *HEVCRPSVars) NumPositivePics() int { return len(v.DeltaPocS1) }
func (v *HEVCRPSVars) NumDeltaPocs() int    { return len(v.DeltaPocS0) + len(v.DeltaPocS1) }

// NumUsed is the short-term contribution to NumPicTotalCurr (7-55).
func (v *HEVCRPSVars) NumUsed() int {
	n := 0
	for _, u := range v.UsedS0 {
		if u {
			n++
		}
	}
	for _, u := range v.UsedS1 {
		if u {
			n++
		}
	}
	return n
}

// HEVCDeltaRps is deltaRps = ( 1 − 2 * delta_rps_sign ) * ( abs_delta_rps_minus1 + 1 )  (7-60).
func (c *HEVCStRPS) HEVCDeltaRps() int64 {
	d := int64(c.AbsDeltaRpsMinus1) + 1
	if c.DeltaRpsSign {
		return -d
	}
	return d
}

// HEVCDeriveRPS derives the variables of the RPS coded by c; ref is the RPS with index RefRpsIdx (only used
// when c.InterRPSPred).
func HEVCDeriveRPS(c *HEVCStRPS, ref *HEVCRPSVars) HEVCRPSVars {
	var v HEVCRPSVars
	if !c.InterRPSPred {
		// (7-65)..(7-70)
		acc := int64(0)
		for i, d := range c.DeltaPocS0Minus1 {
			acc -= int64(d) + 1
			v.DeltaPocS0 = append(v.DeltaPocS0, acc)
			v.UsedS0 = append(v.UsedS0, c.UsedByCurrPicS0[i])
		}
		acc = 0
		for i, d := range c.DeltaPocS1Minus1 {
			acc += int64(d) + 1
			v.DeltaPocS1 = append(v.DeltaPocS1, acc)
			v.UsedS1 = append(v.UsedS1, c.UsedByCurrPicS1[i])
		}
		return v
	}
	deltaRps := c.HEVCDeltaRps()
	nNeg, nPos := ref.NumNegativePics(), ref.NumPositivePics()
	nAll := nNeg + nPos
	// (7-61)
	for j := nPos - 1; j >= 0; j-- {
		dPoc := ref.DeltaPocS1[j] + deltaRps
		if dPoc < 0 && c.UseDeltaFlag[nNeg+j] {
			v.DeltaPocS0 = append(v.DeltaPocS0, dPoc)
			v.UsedS0 = append(v.UsedS0, c.UsedByCurrPicFlag[nNeg+j])
		}
	}
	if deltaRps < 0 && c.UseDeltaFlag[nAll] {
		v.DeltaPocS0 = append(v.DeltaPocS0, deltaRps)
		v.UsedS0 = append(v.UsedS0, c.UsedByCurrPicFlag[nAll])
	}
	for j := 0; j < nNeg; j++ {
		dPoc := ref.DeltaPocS0[j] + deltaRps
		if dPoc < 0 && c.UseDeltaFlag[j] {
			v.DeltaPocS0 = append(v.DeltaPocS0, dPoc)
			v.UsedS0 = append(v.UsedS0, c.UsedByCurrPicFlag[j])
		}
	}
	// (7-62)
	for j := nNeg - 1; j >= 0; j-- {
		dPoc := ref.DeltaPocS0[j] + deltaRps
		if dPoc > 0 && c.UseDeltaFlag[j] {
			v.DeltaPocS1 = append(v.DeltaPocS1, dPoc)
			v.UsedS1 = append(v.UsedS1, c.UsedByCurrPicFlag[j])
		}
	}
	if deltaRps > 0 && c.UseDeltaFlag[nAll] {
		v.DeltaPocS1 = append(v.DeltaPocS1, deltaRps)
		v.UsedS1 = append(v.UsedS1, c.UsedByCurrPicFlag[nAll])
	}
	for j := 0; j < nPos; j++ {
		dPoc := ref.DeltaPocS1[j] + deltaRps
		if dPoc > 0 && c.UseDeltaFlag[nNeg+j] {
			v.DeltaPocS1 = append(v.DeltaPocS1, dPoc)
			v.UsedS1 = append(v.UsedS1, c.UsedByCurrPicFlag[nNeg+j])
		}
	}
	return v
}

// HEVCDeriveAllRPS derives the variables of the RPS list of an SPS (RefRpsIdx = stRpsIdx − 1 there).
func HEVCDeriveAllRPS(cs []HEVCStRPS) []HEVCRPSVars {
	out := make([]HEVCRPSVars, len(cs))
	for i := range cs {
		var ref *HEVCRPSVars
		if i > 0 {
			ref = &out[i-1]
		}
		out[i] = HEVCDeriveRPS(&cs[i], ref)
	}
	return out
}

// HEVCExplicitRPSFromLib rebuilds the explicit coding of an RPS from the library struct (which stores
// delta_poc_sX_minus1 + 1 in DeltaPocSX).
func HEVCExplicitRPSFromLib(r *hevc.ShortTermRPS) HEVCStRPS {
	var c HEVCStRPS
	for i, d := range r.DeltaPocS0 {
		c.DeltaPocS0Minus1 = append(c.DeltaPocS0Minus1, d-1)
		c.UsedByCurrPicS0 = append(c.UsedByCurrPicS0, r.UsedByCurrPicS0[i])
	}
	for i, d := range r.DeltaPocS1 {
		c.DeltaPocS1Minus1 = append(c.DeltaPocS1Minus1, d-1)
		c.UsedByCurrPicS1 = append(c.UsedByCurrPicS1, r.UsedByCurrPicS1[i])
	}
	return c
}

// hevcWriteStRPS writes st_ref_pic_set( stRpsIdx ); refNumDeltaPocs is NumDeltaPocs[ RefRpsIdx ].
func hevcWriteStRPS(w *BitWriter, c *HEVCStRPS, stRpsIdx, numStRps int, refNumDeltaPocs int) {
	inter := false
	if stRpsIdx != 0 {
		w.Flag(c.InterRPSPred)
		inter = c.InterRPSPred
	}
	if inter {
		if stRpsIdx == numStRps {
			w.UE(uint64(c.DeltaIdxMinus1))
		}
		w.Flag(c.DeltaRpsSign)
		w.UE(uint64(c.AbsDeltaRpsMinus1))
		for j := 0; j <= refNumDeltaPocs; j++ {
			w.Flag(c.UsedByCurrPicFlag[j])
			if !c.UsedByCurrPicFlag[j] {
				w.Flag(c.UseDeltaFlag[j])
			}
		}
		return
	}
	w.UE(uint64(len(c.DeltaPocS0Minus1)))
	w.UE(uint64(len(c.DeltaPocS1Minus1)))
	for i, d := range c.DeltaPocS0Minus1 {
		w.UE(uint64(d))
		w.Flag(c.UsedByCurrPicS0[i])
	}
	for i, d := range c.DeltaPocS1Minus1 {
		w.UE(uint64(d))
		w.Flag(c.UsedByCurrPicS1[i])
	}
}

// ---------------------------------------------------------------------------------------------
// E.2.2 hrd_parameters, E.2.3 sub_layer_hrd_parameters

func hevcWriteSubLayerHrd(w *BitWriter, ps []hevc.SubLayerHrdParameters, cpbCnt int, subPic bool) {
	for i := 0; i < cpbCnt; i++ {
		w.UE(uint64(ps[i].BitRateValueMinus1))
		w.UE(uint64(ps[i].CpbSizeValueMinus1))
		if subPic {
			w.UE(uint64(ps[i].CpbSizeDuValueMinus1))
			w.UE(uint64(ps[i].BitRateDuValueMinus1))
		}
		w.Flag(ps[i].CbrFlag)
	}
}

func hevcWriteHrd(w *BitWriter, h *hevc.HrdParameters, commonInfPresent bool, maxSubLayersMinus1 int) {
	if commonInfPresent {
		w.Flag(h.NalHrdParametersPresentFlag)
		w.Flag(h.VclHrdParametersPresentFlag)
		if h.NalHrdParametersPresentFlag || h.VclHrdParametersPresentFlag {
			w.Flag(h.SubPicHrdParamsPresentFlag)
			if h.SubPicHrdParamsPresentFlag {
				w.U(uint64(h.TickDivisorMinus2), 8)
				w.U(uint64(h.DuCpbRemovalDelayIncrementLengthMinus1), 5)
				w.Flag(h.SubPicCpbParamsInPicTimingSeiFlag)
				w.U(uint64(h.DpbOutputDelayDuLengthMinus1), 5)
			}
			w.U(uint64(h.BitRateScale), 4)
			w.U(uint64(h.CpbSizeScale), 4)
			if h.SubPicHrdParamsPresentFlag {
				w.U(uint64(h.CpbSizeDuScale), 4)
			}
			w.U(uint64(h.InitialCpbRemovalDelayLengthMinus1), 5)
			w.U(uint64(h.AuCpbRemovalDelayLengthMinus1), 5)
			w.U(uint64(h.DpbOutputDelayLengthMinus1), 5)
		}
	}
	for i := 0; i <= maxSubLayersMinus1; i++ {
		s := &h.SubLayerHrd[i]
		w.Flag(s.FixedPicRateGeneralFlag)
		withinCvs := s.FixedPicRateWithinCvsFlag
		if !s.FixedPicRateGeneralFlag {
			w.Flag(s.FixedPicRateWithinCvsFlag)
		} else {
			withinCvs = true // inferred
		}
		lowDelay := false
		if withinCvs {
			w.UE(uint64(s.ElementalDurationInTcMinus1))
		} else {
			w.Flag(s.LowDelayHrdFlag)
			lowDelay = s.LowDelayHrdFlag
		}
		cpbCnt := 1
		if !lowDelay {
			w.UE(uint64(s.CpbCntMinus1))
			cpbCnt = int(s.CpbCntMinus1) + 1
		}
		if h.NalHrdParametersPresentFlag {
			hevcWriteSubLayerHrd(w, s.NalHrdParameters, cpbCnt, h.SubPicHrdParamsPresentFlag)
		}
		if h.VclHrdParametersPresentFlag {
			hevcWriteSubLayerHrd(w, s.VclHrdParameters, cpbCnt, h.SubPicHrdParamsPresentFlag)
		}
	}
}

// ---------------------------------------------------------------------------------------------
// E.2.1 vui_parameters

// HEVCSarTable is Table E.1 (aspect_ratio_idc 1..16); idc 0 is "unspecified", 255 is EXTENDED_SAR.
var HEVCSarTable = [17][2]uint{{0, 0}, {1, 1}, {12, 11}, {10, 11}, {16, 11}, {40, 33}, {24, 11}, {20, 11}, {32, 11},
	{80, 33}, {18, 11}, {15, 11}, {64, 33}, {160, 99}, {4, 3}, {3, 2}, {2, 1}}

// HEVCVUIExtra holds the VUI syntax elements hevc.VUIParameters has no field for.
type HEVCVUIExtra struct {
	AspectRatioInfoPresentFlag bool  `json:"aspect_ratio_info_present_flag"`
	AspectRatioIDC             uint8 `json:"aspect_ratio_idc"` // 255: sar_width/sar_height taken from the VUI struct
}

func hevcWriteVUI(w *BitWriter, v *hevc.VUIParameters, x *HEVCVUIExtra, maxSubLayersMinus1 int) {
	w.Flag(x.AspectRatioInfoPresentFlag)
	if x.AspectRatioInfoPresentFlag {
		w.U(uint64(x.AspectRatioIDC), 8)
		if x.AspectRatioIDC == 255 {
			w.U(uint64(v.SampleAspectRatioWidth), 16)
			w.U(uint64(v.SampleAspectRatioHeight), 16)
		}
	}
	w.Flag(v.OverscanInfoPresentFlag)
	if v.OverscanInfoPresentFlag {
		w.Flag(v.OverscanAppropriateFlag)
	}
	w.Flag(v.VideoSignalTypePresentFlag)
	if v.VideoSignalTypePresentFlag {
		w.U(uint64(v.VideoFormat), 3)
		w.Flag(v.VideoFullRangeFlag)
		w.Flag(v.ColourDescriptionFlag)
		if v.ColourDescriptionFlag {
			w.U(uint64(v.ColourPrimaries), 8)
			w.U(uint64(v.TransferCharacteristics), 8)
			w.U(uint64(v.MatrixCoefficients), 8)
		}
	}
	w.Flag(v.ChromaLocInfoPresentFlag)
	if v.ChromaLocInfoPresentFlag {
		w.UE(uint64(v.ChromaSampleLocTypeTopField))
		w.UE(uint64(v.ChromaSampleLocTypeBottomField))
	}
	w.Flag(v.NeutralChromaIndicationFlag)
	w.Flag(v.FieldSeqFlag)
	w.Flag(v.FrameFieldInfoPresentFlag)
	w.Flag(v.DefaultDisplayWindowFlag)
	if v.DefaultDisplayWindowFlag {
		w.UE(uint64(v.DefDispWinLeftOffset))
		w.UE(uint64(v.DefDispWinRightOffset))
		w.UE(uint64(v.DefDispWinTopOffset))
		w.UE(uint64(v.DefDispWinBottomOffset))
	}
	w.Flag(v.TimingInfoPresentFlag)
	if v.TimingInfoPresentFlag {
		w.U(uint64(v.NumUnitsInTick), 32)
		w.U(uint64(v.TimeScale), 32)
		w.Flag(v.PocProportionalToTimingFlag)
		if v.PocProportionalToTimingFlag {
			w.UE(uint64(v.NumTicksPocDiffOneMinus1))
		}
		w.Flag(v.HrdParametersPresentFlag)
		if v.HrdParametersPresentFlag {
			hevcWriteHrd(w, v.HrdParameters, true, maxSubLayersMinus1)
		}
	}
	w.Flag(v.BitstreamRestrictionFlag)
	if v.BitstreamRestrictionFlag {
		b := v.BitstreamResctrictions
		w.Flag(b.TilesFixedStructureFlag)
		w.Flag(b.MVOverPicBoundariesFlag)
		w.Flag(b.RestrictedRefsPicsListsFlag)
		w.UE(uint64(b.MinSpatialSegmentationIDC))
		w.UE(uint64(b.MaxBytesPerPicDenom))
		w.UE(uint64(b.MaxBitsPerMinCuDenom))
		w.UE(uint64(b.Log2MaxMvLengthHorizontal))
		w.UE(uint64(b.Log2MaxMvLengthVertical))
	}
}

// ---------------------------------------------------------------------------------------------
// 7.3.2.2 seq_parameter_set_rbsp

// HEVCSPSTree is the value tree of an SPS: the library's data struct plus the elements it cannot hold.
type HEVCSPSTree struct {
	TemporalIDPlus1 byte                 `json:"tid_plus1"` // nuh_temporal_id_plus1 of the NAL header (1 for conforming SPS)
	SPS             hevc.SPS             `json:"sps"`
	VUIExtra        HEVCVUIExtra         `json:"vui_extra"`
	ScalingList     *HEVCScalingListData `json:"scaling_list,omitempty"` // when SPS.ScalingListDataPresentFlag
	// StRPS is the coding of the SPS.NumShortTermRefPicSets short-term RPSs. When nil, the explicit coding is
	// rebuilt from SPS.ShortTermRefPicSets (used when the tree comes from a parsed struct).
	StRPS []HEVCStRPS `json:"st_rps,omitempty"`
	// MaxLatencyIncreasePlus1, when non-nil, holds sps_max_latency_increase_plus1[ i ] (ue(v), 0..2^32-2) for the
	// coded entries and overrides the byte-wide field of SPS.SubLayeringOrderingInfos.
	MaxLatencyIncreasePlus1 []uint32 `json:"max_latency_increase_plus1,omitempty"`
}

// HEVCSPSInfo reports bit positions (counted from the first bit of the NAL unit header, in unescaped bytes).
type HEVCSPSInfo struct {
	ScalingListBit int // position of scaling_list_data() (or -1)
	StRPSBit       int // position of the first st_ref_pic_set() (position of what follows num_short_term_ref_pic_sets)
	VUIBit         int // position of vui_parameters() (or -1)
	Bits           int // bits before rbsp_trailing_bits
}

// RPSCodings returns the RPS codings of the tree (explicit ones rebuilt from the struct when StRPS is nil).
func (t *HEVCSPSTree) RPSCodings() []HEVCStRPS {
	if t.StRPS != nil || len(t.SPS.ShortTermRefPicSets) == 0 {
		return t.StRPS
	}
	out := make([]HEVCStRPS, len(t.SPS.ShortTermRefPicSets))
	for i := range t.SPS.ShortTermRefPicSets {
		out[i] = HEVCExplicitRPSFromLib(&t.SPS.ShortTermRefPicSets[i])
	}
	return out
}

func hevcWriteSPSRangeExt(w *BitWriter, e *hevc.SPSRangeExtension) {
	w.Flag(e.TransformSkipRotationEnabledFlag)
	w.Flag(e.TransformSkipContextEnabledFlag)
	w.Flag(e.ImplicitRdpcmEnabledFlag)
	w.Flag(e.ExplicitRdpcmEnabledFlag)
	w.Flag(e.ExtendedPrecisionProcessingFlag)
	w.Flag(e.IntraSmoothingDisabledFlag)
	w.Flag(e.HighPrecisionOffsetsEnabledFlag)
	w.Flag(e.PersistentRiceAdaptationEnabledFlag)
	w.Flag(e.CabacBypassAlignmentEnabledFlag)
}

func hevcWriteSPSSccExt(w *BitWriter, e *hevc.SPSSccExtension, chromaFormatIDC, bitDepthY, bitDepthC int) {
	w.Flag(e.CurrPicRefEnabledFlag)
	w.Flag(e.PaletteModeEnabledFlag)
	if e.PaletteModeEnabledFlag {
		w.UE(uint64(e.PaletteMaxSize))
		w.UE(uint64(e.DeltaPaletteMaxPredictorSize))
		w.Flag(e.PalettePredictorInitializersPresentFlag)
		if e.PalettePredictorInitializersPresentFlag {
			w.UE(uint64(e.NumPalettePredictorInitializersMinus1))
			numComps := 3
			if chromaFormatIDC == 0 {
				numComps = 1
			}
			for comp := 0; comp < numComps; comp++ {
				n := bitDepthC
				if comp == 0 {
					n = bitDepthY
				}
				for i := 0; i <= int(e.NumPalettePredictorInitializersMinus1); i++ {
					w.U(uint64(e.PalettePredictorInitializer[comp][i]), n)
				}
			}
		}
	}
	w.U(uint64(e.MotionVectorResolutionControlIdc), 2)
	w.Flag(e.IntraBoundaryFilteringDisabledFlag)
}

// hevcWriteSPS3dExt writes sps_3d_extension() (I.7.3.2.2.5): for d = 0 (texture layers) and d = 1 (depth
// layers) iv_di_mc_enabled_flag[ d ], iv_mv_scal_enabled_flag[ d ], then for d = 0 log2_ivmc_sub_pb_size_minus3
// ue(v), iv_res_pred_enabled_flag, depth_ref_enabled_flag, vsp_mc_enabled_flag, dbbp_enabled_flag and for d = 1
// tex_mc_enabled_flag, log2_texmc_sub_pb_size_minus3 ue(v), intra_contour_enabled_flag,
// intra_dc_only_wedge_enabled_flag, cqt_cu_part_pred_enabled_flag, inter_dc_only_enabled_flag,
// skip_intra_enabled_flag.
func hevcWriteSPS3dExt(w *BitWriter, e *hevc.SPS3dExtension) {
	// d = 0
	w.Flag(e.IvDiMcEnabledFlag0)
	w.Flag(e.IvMvScalEnabledFlag0)
	w.UE(uint64(e.Og2IvmcSubPbSizeMinus3))
	w.Flag(e.IvResPredEnabledFlag)
	w.Flag(e.DepthRefEnabledFlag)
	w.Flag(e.VspMcEnabledFlag)
	w.Flag(e.DbbpEnabledFlag)
	// d = 1
	w.Flag(e.IvDiMcEnabledFlag1)
	w.Flag(e.IvMvScalEnabledFlag1)
	w.Flag(e.TexMcEnabledFlag)
	w.UE(uint64(e.Log2TexmcSubPbSizeMinus3))
	w.Flag(e.IntraContourEnabledFlag)
	w.Flag(e.IntraDcOnlyWedgeEnabledFlag)
	w.Flag(e.CqtCuPartPredEnabledFlag)
	w.Flag(e.InterDcOnlyEnabledFlag)
	w.Flag(e.SkipIntraEnabledFlag)
}

// HEVCWriteSPS serialises seq_parameter_set_rbsp() into a complete NAL unit (nuh_layer_id 0).
func HEVCWriteSPS(t *HEVCSPSTree) ([]byte, HEVCSPSInfo) {
	return HEVCWriteSPSH(t, nil)
}

// HEVCWriteSPSH is HEVCWriteSPS with a hostile-value hook on the bit writer (nil: none); see Hostile.
func HEVCWriteSPSH(t *HEVCSPSTree, hz *Hostile) ([]byte, HEVCSPSInfo) {
	s := &t.SPS
	info := HEVCSPSInfo{ScalingListBit: -1, VUIBit: -1}
	w := NewHostileBitWriter(hz)
	tid := t.TemporalIDPlus1
	if tid == 0 {
		tid = 1
	}
	w.Bytes(HEVCNalHeader(HEVCNalSPS, 0, tid))
	maxSub := int(s.MaxSubLayersMinus1)
	w.U(uint64(s.VpsID), 4)
	w.U(uint64(s.MaxSubLayersMinus1), 3)
	w.Flag(s.TemporalIDNestingFlag)
	hevcWritePTL(w, &s.ProfileTierLevel, true, maxSub)
	w.UE(uint64(s.SpsID))
	w.UE(uint64(s.ChromaFormatIDC))
	if s.ChromaFormatIDC == 3 {
		w.Flag(s.SeparateColourPlaneFlag)
	}
	w.UE(uint64(s.PicWidthInLumaSamples))
	w.UE(uint64(s.PicHeightInLumaSamples))
	w.Flag(s.ConformanceWindowFlag)
	if s.ConformanceWindowFlag {
		w.UE(uint64(s.ConformanceWindow.LeftOffset))
		w.UE(uint64(s.ConformanceWindow.RightOffset))
		w.UE(uint64(s.ConformanceWindow.TopOffset))
		w.UE(uint64(s.ConformanceWindow.BottomOffset))
	}
	w.UE(uint64(s.BitDepthLumaMinus8))
	w.UE(uint64(s.BitDepthChromaMinus8))
	w.UE(uint64(s.Log2MaxPicOrderCntLsbMinus4))
	w.Flag(s.SubLayerOrderingInfoPresentFlag)
	{
		// for( i = ( sps_sub_layer_ordering_info_present_flag ? 0 : sps_max_sub_layers_minus1 ); i <= sps_max_sub_layers_minus1; i++ )
		n := 1
		if s.SubLayerOrderingInfoPresentFlag {
			n = maxSub + 1
		}
		for i := 0; i < n; i++ {
			o := s.SubLayeringOrderingInfos[i]
			w.UE(uint64(o.MaxDecPicBufferingMinus1))
			w.UE(uint64(o.MaxNumReorderPics))
			if i < len(t.MaxLatencyIncreasePlus1) {
				w.UE(uint64(t.MaxLatencyIncreasePlus1[i]))
			} else {
				w.UE(uint64(o.MaxLatencyIncreasePlus1))
			}
		}
	}
	w.UE(uint64(s.Log2MinLumaCodingBlockSizeMinus3))
	w.UE(uint64(s.Log2DiffMaxMinLumaCodingBlockSize))
	w.UE(uint64(s.Log2MinLumaTransformBlockSizeMinus2))
	w.UE(uint64(s.Log2DiffMaxMinLumaTransformBlockSize))
	w.UE(uint64(s.MaxTransformHierarchyDepthInter))
	w.UE(uint64(s.MaxTransformHierarchyDepthIntra))
	w.Flag(s.ScalingListEnabledFlag)
	if s.ScalingListEnabledFlag {
		w.Flag(s.ScalingListDataPresentFlag)
		if s.ScalingListDataPresentFlag {
			info.ScalingListBit = w.NrBits()
			hevcWriteScalingList(w, t.ScalingList)
		}
	}
	w.Flag(s.AmpEnabledFlag)
	w.Flag(s.SampleAdaptiveOffsetEnabledFlag)
	w.Flag(s.PCMEnabledFlag)
	if s.PCMEnabledFlag {
		w.U(uint64(s.PcmSampleBitDepthLumaMinus1), 4)
		w.U(uint64(s.PcmSampleBitDepthChromaMinus1), 4)
		w.UE(uint64(s.Log2MinPcmLumaCodingBlockSize))        // log2_min_pcm_luma_coding_block_size_minus3
		w.UE(uint64(s.Log2DiffMaxMinPcmLumaCodingBlockSize)) // log2_diff_max_min_pcm_luma_coding_block_size
		w.Flag(s.PcmLoopFilterDisabledFlag)
	}
	w.UE(uint64(s.NumShortTermRefPicSets))
	info.StRPSBit = w.NrBits()
	if s.NumShortTermRefPicSets > 0 {
		cs := t.RPSCodings()
		vars := HEVCDeriveAllRPS(cs)
		for i := 0; i < int(s.NumShortTermRefPicSets); i++ {
			refN := 0
			if i > 0 {
				refN = vars[i-1].NumDeltaPocs()
			}
			hevcWriteStRPS(w, &cs[i], i, int(s.NumShortTermRefPicSets), refN)
		}
	}
	w.Flag(s.LongTermRefPicsPresentFlag)
	if s.LongTermRefPicsPresentFlag {
		w.UE(uint64(s.NumLongTermRefPics))
		for i := 0; i < int(s.NumLongTermRefPics); i++ {
			w.U(uint64(s.LongTermRefPicSets[i].PocLsbLt), int(s.Log2MaxPicOrderCntLsbMinus4)+4) // lt_ref_pic_poc_lsb_sps
			w.Flag(s.LongTermRefPicSets[i].UsedByCurrPicLtFlag)                                 // used_by_curr_pic_lt_sps_flag
		}
	}
	w.Flag(s.SpsTemporalMvpEnabledFlag)
	w.Flag(s.StrongIntraSmoothingEnabledFlag)
	w.Flag(s.VUIParametersPresentFlag)
	if s.VUIParametersPresentFlag {
		info.VUIBit = w.NrBits()
		hevcWriteVUI(w, s.VUI, &t.VUIExtra, maxSub)
	}
	w.Flag(s.ExtensionPresentFlag)
	if s.ExtensionPresentFlag {
		w.Flag(s.RangeExtensionFlag)
		w.Flag(s.MultilayerExtensionFlag) // sps_multilayer_extension_flag
		w.Flag(s.D3ExtensionFlag)         // sps_3d_extension_flag
		w.Flag(s.SccExtensionFlag)
		w.U(uint64(s.Extension4bits), 4)
	}
	if s.RangeExtensionFlag {
		hevcWriteSPSRangeExt(w, s.RangeExtension)
	}
	if s.MultilayerExtensionFlag {
		w.Flag(s.MultilayerExtension.InterViewMvVertConstraintFlag) // sps_multilayer_extension(): inter_view_mv_vert_constraint_flag
	}
	if s.D3ExtensionFlag {
		hevcWriteSPS3dExt(w, s.D3Extension)
	}
	if s.SccExtensionFlag {
		hevcWriteSPSSccExt(w, s.SccExtension, int(s.ChromaFormatIDC), int(s.BitDepthLumaMinus8)+8, int(s.BitDepthChromaMinus8)+8)
	}
	if s.Extension4bits != 0 {
		for _, f := range s.ExtensionDataFlag { // sps_extension_data_flag while more_rbsp_data()
			w.Flag(f)
		}
	}
	info.Bits = w.NrBits()
	w.TrailingBits()
	return hevcFinishNal(w), info
}

// ---------------------------------------------------------------------------------------------
// 7.3.2.3 pic_parameter_set_rbsp

// HEVCPPSTree is the value tree of a PPS.
type HEVCPPSTree struct {
	TemporalIDPlus1 byte                 `json:"tid_plus1"`
	PPS             hevc.PPS             `json:"pps"`
	ScalingList     *HEVCScalingListData `json:"scaling_list,omitempty"` // when PPS.ScalingListDataPresentFlag
	// CmOctants is the coding of colour_mapping_octants( 0, 0, 0, 0, 1 << cm_octant_depth ) when
	// PPS.MultilayerExtension.ColourMappingEnabledFlag: the library struct holds only the flattened result (a map
	// keyed by [ idxShiftY ][ idxCb ][ idxCr ]), not the split_octant_flag tree. HEVCCmOctantMap derives that map.
	CmOctants *HEVCCmOctant `json:"cm_octants,omitempty"`
}

type HEVCPPSInfo struct {
	ScalingListBit int
	Bits           int
}

func hevcWritePPSRangeExt(w *BitWriter, e *hevc.RangeExtension, transformSkipEnabled bool) {
	if transformSkipEnabled {
		w.UE(uint64(e.Log2MaxTransformSkipBlockSizeMinus2))
	}
	w.Flag(e.CrossComponentPredictionEnabledFlag)
	w.Flag(e.ChromaQpOffsetListEnabledFlag)
	if e.ChromaQpOffsetListEnabledFlag {
		w.UE(uint64(e.DiffCuChromaQpOffsetDepth))
		w.UE(uint64(e.ChromaQpOffsetListLenMinus1))
		for i := 0; i <= int(e.ChromaQpOffsetListLenMinus1); i++ {
			w.SE(int64(e.CbQpOffsetList[i]))
			w.SE(int64(e.CrQpOffsetList[i]))
		}
	}
	w.UE(uint64(e.Log2SaoOffsetScaleLuma))
	w.UE(uint64(e.Log2SaoOffsetScaleChroma))
}

func hevcWritePPSSccExt(w *BitWriter, e *hevc.SccExtension) {
	w.Flag(e.CurrPicRefEnabledFlag)
	w.Flag(e.ResidualAdaptiveColourTransformEnabledFlag)
	if e.ResidualAdaptiveColourTransformEnabledFlag {
		w.Flag(e.SliceActQpOffsetsPresentFlag)
		w.SE(int64(e.ActYQpOffsetPlus5))
		w.SE(int64(e.ActCbQpOffsetPlus5))
		w.SE(int64(e.ActCrQpOffsetPlus3))
	}
	w.Flag(e.PalettePredictorInitializersPresentFlag)
	if e.PalettePredictorInitializersPresentFlag {
		w.UE(uint64(e.NumPalettePredictorInitializers))
		if e.NumPalettePredictorInitializers > 0 {
			w.Flag(e.MonochromePaletteFlag)
			w.UE(uint64(e.LumaBitDepthEntryMinus8))
			if !e.MonochromePaletteFlag {
				w.UE(uint64(e.ChromaBitDepthEntryMinus8))
			}
			numComps := 3
			if e.MonochromePaletteFlag {
				numComps = 1
			}
			for comp := 0; comp < numComps; comp++ {
				n := int(e.ChromaBitDepthEntryMinus8) + 8
				if comp == 0 {
					n = int(e.LumaBitDepthEntryMinus8) + 8
				}
				for i := 0; i < int(e.NumPalettePredictorInitializers); i++ {
					w.U(uint64(e.PalettePredictorInitializer[comp][i]), n)
				}
			}
		}
	}
}

// ---------------------------------------------------------------------------------------------
// F.7.3.2.3.4 pps_multilayer_extension, F.7.3.2.3.5 colour_mapping_table, F.7.3.2.3.6 colour_mapping_octants

// HEVCCmOctant is one invocation of colour_mapping_octants( inpDepth, idxY, idxCb, idxCr, inpLength ).
type HEVCCmOctant struct {
	// Split is split_octant_flag (coded only while inpDepth < cm_octant_depth, otherwise inferred 0).
	Split bool `json:"split,omitempty"`
	// Sub holds, when Split, the 8 sub-octants in coding order: k (luma half) outermost, then m (Cb), then n (Cr).
	Sub []HEVCCmOctant `json:"sub,omitempty"`
	// Leaves holds, when !Split, PartNumY = 1 << cm_y_part_num_log2 entries (one per luma partition i), each
	// with the 4 vertices j: coded_res_flag and res_coeff_q / res_coeff_r / res_coeff_s for c = 0..2.
	Leaves [][4]hevc.Octant `json:"leaves,omitempty"`
}

// HEVCCmResLsBits is CMResLSBits = Max( 0, 10 + BitDepthCmInputY − BitDepthCmOutputY − cm_res_quant_bits −
// ( cm_delta_flc_bits_minus1 + 1 ) ), the length of res_coeff_r.
func HEVCCmResLsBits(cm *hevc.ColourMappingTable) int {
	bitDepthIn := 8 + int64(cm.LumaBitDepthCmInputMinus8)
	bitDepthOut := 8 + int64(cm.LumaBitDepthCmOutputMinus8)
	n := 10 + bitDepthIn - bitDepthOut - int64(cm.ResQuantBits) - (int64(cm.DeltaFlcBitsMinus1) + 1)
	if n < 0 {
		return 0
	}
	return int(n)
}

// HEVCCmOctantKey is the key the library uses for [ idxShiftY ][ idxCb ][ idxCr ].
func HEVCCmOctantKey(idxShiftY, idxCb, idxCr uint64) string {
	return fmt.Sprintf("%d-%d-%d", idxShiftY, idxCb, idxCr)
}

// hevcCmWalk visits the octant tree in coding order. At every node onNode is called (with canSplit telling whether
// split_octant_flag is coded there); at every leaf entry onLeaf is called with the array indices the syntax
// table assigns to it: idxShiftY = idxY + ( i << ( cm_octant_depth − inpDepth ) ), idxCb, idxCr.
func hevcCmWalk(cm *hevc.ColourMappingTable, root *HEVCCmOctant, onNode func(n *HEVCCmOctant, canSplit bool),
	onLeaf func(idxShiftY, idxCb, idxCr uint64, leaf *[4]hevc.Octant)) {
	maxDepth := uint(cm.OctantDepth)
	partNumY := uint64(1) << uint(cm.YPartNumLog2)
	var walk func(n *HEVCCmOctant, depth uint, y0, cb0, cr0, length uint64)
	walk = func(n *HEVCCmOctant, depth uint, y0, cb0, cr0, length uint64) {
		canSplit := depth < maxDepth
		if onNode != nil {
			onNode(n, canSplit)
		}
		if canSplit && n.Split {
			half := length / 2
			for q := 0; q < 8; q++ { // q = 4k + 2m + n
				k, m, c := uint64(q>>2&1), uint64(q>>1&1), uint64(q&1)
				walk(&n.Sub[q], depth+1, y0+partNumY*k*half, cb0+m*half, cr0+c*half, half)
			}
			return
		}
		for i := uint64(0); i < partNumY; i++ {
			onLeaf(y0+(i<<(maxDepth-depth)), cb0, cr0, &n.Leaves[i])
		}
	}
	walk(root, 0, 0, 0, 0, uint64(1)<<maxDepth)
}

// HEVCCmOctantMap flattens the octant tree into the representation of hevc.ColourMappingTable.Octants: every
// leaf entry of every (sub-)octant under its [ idxShiftY ][ idxCb ][ idxCr ] key.
func HEVCCmOctantMap(cm *hevc.ColourMappingTable, root *HEVCCmOctant) map[string][4]hevc.Octant {
	out := map[string][4]hevc.Octant{}
	if root == nil {
		return out
	}
	hevcCmWalk(cm, root, nil, func(y, cb, cr uint64, leaf *[4]hevc.Octant) {
		out[HEVCCmOctantKey(y, cb, cr)] = *leaf
	})
	return out
}

// HEVCCmOctantHasSplit reports whether any split_octant_flag equal to 1 is coded in the tree.
func HEVCCmOctantHasSplit(cm *hevc.ColourMappingTable, root *HEVCCmOctant) bool {
	split := false
	if root == nil {
		return false
	}
	hevcCmWalk(cm, root, func(n *HEVCCmOctant, canSplit bool) {
		if canSplit && n.Split {
			split = true
		}
	}, func(uint64, uint64, uint64, *[4]hevc.Octant) {})
	return split
}

func hevcWriteCmTable(w *BitWriter, cm *hevc.ColourMappingTable, root *HEVCCmOctant) {
	w.UE(uint64(cm.NumCmRefLayersMinus1))
	for i := 0; i <= int(cm.NumCmRefLayersMinus1); i++ {
		w.U(uint64(cm.RefLayerId[i]), 6) // cm_ref_layer_id[ i ]
	}
	w.U(uint64(cm.OctantDepth), 2)  // cm_octant_depth
	w.U(uint64(cm.YPartNumLog2), 2) // cm_y_part_num_log2
	w.UE(uint64(cm.LumaBitDepthCmInputMinus8))
	w.UE(uint64(cm.ChromaBitDepthCmInputMinus8))
	w.UE(uint64(cm.LumaBitDepthCmOutputMinus8))
	w.UE(uint64(cm.ChromaBitDepthCmOutputMinus8))
	w.U(uint64(cm.ResQuantBits), 2)       // cm_res_quant_bits
	w.U(uint64(cm.DeltaFlcBitsMinus1), 2) // cm_delta_flc_bits_minus1
	if cm.OctantDepth == 1 {
		w.SE(int64(cm.AdaptThresholdUDelta))
		w.SE(int64(cm.AdaptThresholdVDelta))
	}
	resLsBits := HEVCCmResLsBits(cm)
	hevcCmWalk(cm, root, func(n *HEVCCmOctant, canSplit bool) {
		if canSplit {
			w.Flag(n.Split) // split_octant_flag
		}
	}, func(_, _, _ uint64, leaf *[4]hevc.Octant) {
		for j := 0; j < 4; j++ {
			v := &leaf[j]
			w.Flag(v.CodedResFlag)
			if !v.CodedResFlag {
				continue
			}
			for c := 0; c < 3; c++ {
				q, r := uint64(v.CodedRes[c].ResCoeffQ), uint64(v.CodedRes[c].ResCoeffR)
				w.UE(q)
				w.U(r, resLsBits)
				if q != 0 || r != 0 {
					w.Flag(v.CodedRes[c].ResCoeffS)
				}
			}
		}
	})
}

func hevcWritePPSMultilayerExt(w *BitWriter, e *hevc.MultilayerExtension, cmRoot *HEVCCmOctant) {
	w.Flag(e.PocResetInfoPresentFlag)
	w.Flag(e.InferScalingListFlag) // pps_infer_scaling_list_flag
	if e.InferScalingListFlag {
		w.U(uint64(e.ScalingListRefLayerId), 6) // pps_scaling_list_ref_layer_id
	}
	w.UE(uint64(e.NumRefLocOffsets))
	for i := 0; i < int(e.NumRefLocOffsets); i++ {
		id := e.RefLocOffsetLayerIds[i]
		o := e.RefLocOffsets[id] // the offsets are arrays indexed by ref_loc_offset_layer_id[ i ]
		w.U(uint64(id), 6)
		w.Flag(o.ScaledRefLayerOffsetPresentFlag)
		if o.ScaledRefLayerOffsetPresentFlag {
			w.SE(int64(o.ScaledRefLayerLeftOffset))
			w.SE(int64(o.ScaledRefLayerTopOffset))
			w.SE(int64(o.ScaledRefLayerRightOffset))
			w.SE(int64(o.ScaledRefLayerBottomOffset))
		}
		w.Flag(o.RefRegionOffsetPresentFlag)
		if o.RefRegionOffsetPresentFlag {
			w.SE(int64(o.RefRegionLeftOffset))
			w.SE(int64(o.RefRegionTopOffset))
			w.SE(int64(o.RefRegionRightOffset))
			w.SE(int64(o.RefRegionBottomOffset))
		}
		w.Flag(o.ResamplePhaseSetPresentFlag)
		if o.ResamplePhaseSetPresentFlag {
			w.UE(uint64(o.PhaseHorLuma))
			w.UE(uint64(o.PhaseVerLuma))
			w.UE(uint64(o.PhaseHorChromaPlus8))
			w.UE(uint64(o.PhaseVerChromaPlus8))
		}
	}
	w.Flag(e.ColourMappingEnabledFlag)
	if e.ColourMappingEnabledFlag {
		hevcWriteCmTable(w, e.ColourMappingTable, cmRoot)
	}
}

// ---------------------------------------------------------------------------------------------
// I.7.3.2.3.7 pps_3d_extension, I.7.3.2.3.8 delta_dlt

// HEVCDeltaDltWidths returns the lengths in bits of min_diff_minus1 (Ceil( Log2( max_diff + 1 ) ); 0 when the
// element is not coded) and of delta_val_diff_minus_min[ k ] (Ceil( Log2( max_diff − minDiff + 1 ) )), whether
// min_diff_minus1 is coded (num_val_delta_dlt > 2 && max_diff > 0), and the number of
// delta_val_diff_minus_min elements (num_val_delta_dlt − 1 when max_diff > minDiff, else 0). When
// min_diff_minus1 is not coded it is inferred equal to max_diff − 1, i.e. minDiff = max_diff.
func HEVCDeltaDltWidths(numVal, maxDiff, minDiffMinus1 uint64) (minDiffBits, elemBits int, minDiffCoded bool, numElems uint64) {
	if numVal == 0 {
		return 0, 0, false, 0
	}
	if numVal <= 1 {
		maxDiff = 0 // max_diff not present: inferred 0
	}
	minDiff := maxDiff
	if numVal > 2 && maxDiff > 0 {
		minDiffCoded = true
		minDiffBits = HEVCCeilLog2(maxDiff + 1)
		minDiff = minDiffMinus1 + 1
	}
	if maxDiff > minDiff {
		elemBits = HEVCCeilLog2(maxDiff - minDiff + 1)
		numElems = numVal - 1
	}
	return
}

func hevcWriteDeltaDlt(w *BitWriter, d *hevc.DeltaDlt, depthBits int) {
	w.U(uint64(d.NumValDeltaDlt), depthBits) // num_val_delta_dlt
	if d.NumValDeltaDlt == 0 {
		return
	}
	if d.NumValDeltaDlt > 1 {
		w.U(uint64(d.MaxDiff), depthBits) // max_diff
	}
	minDiffBits, elemBits, minDiffCoded, numElems := HEVCDeltaDltWidths(uint64(d.NumValDeltaDlt), uint64(d.MaxDiff), uint64(d.MinDiffMinus1))
	if minDiffCoded {
		w.U(uint64(d.MinDiffMinus1), minDiffBits) // min_diff_minus1
	}
	w.U(uint64(d.DeltaDltVal0), depthBits) // delta_dlt_val0
	for k := uint64(0); k < numElems; k++ {
		w.U(uint64(d.DeltaValDiffMinusMin[k]), elemBits) // delta_val_diff_minus_min[ k + 1 ]
	}
}

func hevcWritePPS3dExt(w *BitWriter, e *hevc.D3Extension) {
	w.Flag(e.DltsPresentFlag)
	if !e.DltsPresentFlag {
		return
	}
	w.U(uint64(e.NumDepthLayersMinus1), 6)         // pps_depth_layers_minus1
	w.U(uint64(e.BitDepthForDepthLayersMinus8), 4) // pps_bit_depth_for_depth_layers_minus8
	depthBits := int(e.BitDepthForDepthLayersMinus8) + 8
	for i := 0; i <= int(e.NumDepthLayersMinus1); i++ {
		l := &e.DepthLayers[i]
		w.Flag(l.DltFlag)
		if !l.DltFlag {
			continue
		}
		w.Flag(l.DltPredFlag)
		valFlags := false // dlt_val_flags_present_flag, inferred 0 when dlt_pred_flag
		if !l.DltPredFlag {
			w.Flag(l.DltValFlagsPresentFlag)
			valFlags = l.DltValFlagsPresentFlag
		}
		if valFlags {
			// j = 0..depthMaxValue, depthMaxValue = ( 1 << ( pps_bit_depth_for_depth_layers_minus8 + 8 ) ) − 1
			for j := 0; j < 1<<uint(depthBits); j++ {
				w.Flag(l.DltValueFlag[j])
			}
		} else {
			hevcWriteDeltaDlt(w, l.DeltaDlt, depthBits)
		}
	}
}

// HEVCWritePPS serialises pic_parameter_set_rbsp() into a complete NAL unit.
func HEVCWritePPS(t *HEVCPPSTree) ([]byte, HEVCPPSInfo) {
	return HEVCWritePPSH(t, nil)
}

// HEVCWritePPSH is HEVCWritePPS with a hostile-value hook on the bit writer (nil: none); see Hostile.
func HEVCWritePPSH(t *HEVCPPSTree, hz *Hostile) ([]byte, HEVCPPSInfo) {
	p := &t.PPS
	info := HEVCPPSInfo{ScalingListBit: -1}
	w := NewHostileBitWriter(hz)
	tid := t.TemporalIDPlus1
	if tid == 0 {
		tid = 1
	}
	w.Bytes(HEVCNalHeader(HEVCNalPPS, 0, tid))
	w.UE(uint64(p.PicParameterSetID))
	w.UE(uint64(p.SeqParameterSetID))
	w.Flag(p.DependentSliceSegmentsEnabledFlag)
	w.Flag(p.OutputFlagPresentFlag)
	w.U(uint64(p.NumExtraSliceHeaderBits), 3)
	w.Flag(p.SignDataHidingEnabledFlag)
	w.Flag(p.CabacInitPresentFlag)
	w.UE(uint64(p.NumRefIdxL0DefaultActiveMinus1))
	w.UE(uint64(p.NumRefIdxL1DefaultActiveMinus1))
	w.SE(int64(p.InitQpMinus26))
	w.Flag(p.ConstrainedIntraPredFlag)
	w.Flag(p.TransformSkipEnabledFlag)
	w.Flag(p.CuQpDeltaEnabledFlag)
	if p.CuQpDeltaEnabledFlag {
		w.UE(uint64(p.DiffCuQpDeltaDepth))
	}
	w.SE(int64(p.CbQpOffset))
	w.SE(int64(p.CrQpOffset))
	w.Flag(p.SliceChromaQpOffsetsPresentFlag)
	w.Flag(p.WeightedPredFlag)
	w.Flag(p.WeightedBipredFlag)
	w.Flag(p.TransquantBypassEnabledFlag)
	w.Flag(p.TilesEnabledFlag)
	w.Flag(p.EntropyCodingSyncEnabledFlag)
	if p.TilesEnabledFlag {
		w.UE(uint64(p.NumTileColumnsMinus1))
		w.UE(uint64(p.NumTileRowsMinus1))
		w.Flag(p.UniformSpacingFlag)
		if !p.UniformSpacingFlag {
			for i := 0; i < int(p.NumTileColumnsMinus1); i++ {
				w.UE(uint64(p.ColumnWidthMinus1[i]))
			}
			for i := 0; i < int(p.NumTileRowsMinus1); i++ {
				w.UE(uint64(p.RowHeightMinus1[i]))
			}
		}
		w.Flag(p.LoopFilterAcrossTilesEnabledFlag)
	}
	w.Flag(p.LoopFilterAcrossSlicesEnabledFlag) // pps_loop_filter_across_slices_enabled_flag
	w.Flag(p.DeblockingFilterControlPresentFlag)
	if p.DeblockingFilterControlPresentFlag {
		w.Flag(p.DeblockingFilterOverrideEnabledFlag)
		w.Flag(p.DeblockingFilterDisabledFlag) // pps_deblocking_filter_disabled_flag
		if !p.DeblockingFilterDisabledFlag {
			w.SE(int64(p.BetaOffsetDiv2))
			w.SE(int64(p.TcOffsetDiv2))
		}
	}
	w.Flag(p.ScalingListDataPresentFlag)
	if p.ScalingListDataPresentFlag {
		info.ScalingListBit = w.NrBits()
		hevcWriteScalingList(w, t.ScalingList)
	}
	w.Flag(p.ListsModificationPresentFlag)
	w.UE(uint64(p.Log2ParallelMergeLevelMinus2))
	w.Flag(p.SliceSegmentHeaderExtensionPresentFlag)
	w.Flag(p.ExtensionPresentFlag)
	if p.ExtensionPresentFlag {
		w.Flag(p.RangeExtensionFlag)
		w.Flag(p.MultilayerExtensionFlag) // pps_multilayer_extension_flag
		w.Flag(p.D3ExtensionFlag)         // pps_3d_extension_flag
		w.Flag(p.SccExtensionFlag)
		w.U(uint64(p.Extension4bits), 4)
	}
	if p.RangeExtensionFlag {
		hevcWritePPSRangeExt(w, p.RangeExtension, p.TransformSkipEnabledFlag)
	}
	if p.MultilayerExtensionFlag {
		hevcWritePPSMultilayerExt(w, p.MultilayerExtension, t.CmOctants)
	}
	if p.D3ExtensionFlag {
		hevcWritePPS3dExt(w, p.D3Extension)
	}
	if p.SccExtensionFlag {
		hevcWritePPSSccExt(w, p.SccExtension)
	}
	if p.Extension4bits != 0 {
		for _, f := range p.ExtensionDataFlag {
			w.Flag(f)
		}
	}
	info.Bits = w.NrBits()
	w.TrailingBits()
	return hevcFinishNal(w), info
}

// ---------------------------------------------------------------------------------------------
// 7.3.2.1 video_parameter_set_rbsp (base specification form: no HRD, no extension)

// HEVCVPSTree is a small value tree of a VPS (the library has no VPS parser; VPS NAL units are carried opaquely).
type HEVCVPSTree struct {
	VpsID                       byte                        `json:"vps_id"`
	BaseLayerInternalFlag       bool                        `json:"base_layer_internal_flag"`
	BaseLayerAvailableFlag      bool                        `json:"base_layer_available_flag"`
	MaxLayersMinus1             byte                        `json:"max_layers_minus1"`
	MaxSubLayersMinus1          byte                        `json:"max_sub_layers_minus1"`
	TemporalIDNestingFlag       bool                        `json:"temporal_id_nesting_flag"`
	PTL                         hevc.ProfileTierLevel       `json:"ptl"`
	SubLayerOrderingInfoPresent bool                        `json:"sub_layer_ordering_info_present_flag"`
	OrderingInfos               []hevc.SubLayerOrderingInfo `json:"ordering_infos"`
	MaxLayerID                  byte                        `json:"max_layer_id"`
	TimingInfoPresentFlag       bool                        `json:"timing_info_present_flag"`
	NumUnitsInTick              uint32                      `json:"num_units_in_tick"`
	TimeScale                   uint32                      `json:"time_scale"`
	PocProportionalToTimingFlag bool                        `json:"poc_proportional_to_timing_flag"`
	NumTicksPocDiffOneMinus1    uint32                      `json:"num_ticks_poc_diff_one_minus1"`
}

// HEVCWriteVPS serialises a VPS with vps_num_layer_sets_minus1 = 0, vps_num_hrd_parameters = 0 and
// vps_extension_flag = 0.
func HEVCWriteVPS(t *HEVCVPSTree) []byte {
	return HEVCWriteVPSH(t, nil)
}

// HEVCWriteVPSH is HEVCWriteVPS with a hostile-value hook on the bit writer (nil: none); see Hostile.
func HEVCWriteVPSH(t *HEVCVPSTree, hz *Hostile) []byte {
	w := NewHostileBitWriter(hz)
	w.Bytes(HEVCNalHeader(HEVCNalVPS, 0, 1))
	w.U(uint64(t.VpsID), 4)
	w.Flag(t.BaseLayerInternalFlag)
	w.Flag(t.BaseLayerAvailableFlag)
	w.U(uint64(t.MaxLayersMinus1), 6)
	w.U(uint64(t.MaxSubLayersMinus1), 3)
	w.Flag(t.TemporalIDNestingFlag)
	w.U(0xffff, 16) // vps_reserved_0xffff_16bits
	hevcWritePTL(w, &t.PTL, true, int(t.MaxSubLayersMinus1))
	w.Flag(t.SubLayerOrderingInfoPresent)
	n := 1
	if t.SubLayerOrderingInfoPresent {
		n = int(t.MaxSubLayersMinus1) + 1
	}
	for i := 0; i < n; i++ {
		w.UE(uint64(t.OrderingInfos[i].MaxDecPicBufferingMinus1))
		w.UE(uint64(t.OrderingInfos[i].MaxNumReorderPics))
		w.UE(uint64(t.OrderingInfos[i].MaxLatencyIncreasePlus1))
	}
	w.U(uint64(t.MaxLayerID), 6)
	w.UE(0) // vps_num_layer_sets_minus1
	w.Flag(t.TimingInfoPresentFlag)
	if t.TimingInfoPresentFlag {
		w.U(uint64(t.NumUnitsInTick), 32)
		w.U(uint64(t.TimeScale), 32)
		w.Flag(t.PocProportionalToTimingFlag)
		if t.PocProportionalToTimingFlag {
			w.UE(uint64(t.NumTicksPocDiffOneMinus1))
		}
		w.UE(0) // vps_num_hrd_parameters
	}
	w.Flag(false) // vps_extension_flag
	w.TrailingBits()
	return hevcFinishNal(w)
}

// ---------------------------------------------------------------------------------------------
// 7.3.6 slice_segment_header

// HEVCSliceExtra holds the slice segment header elements hevc.SliceHeader has no field for.
type HEVCSliceExtra struct {
	SliceReservedFlag []bool     `json:"slice_reserved_flag,omitempty"` // num_extra_slice_header_bits entries
	StRPS             *HEVCStRPS `json:"st_rps,omitempty"`              // coding of st_ref_pic_set( num_short_term_ref_pic_sets ); nil: explicit, rebuilt from SliceHeader.ShortTermRefPicSet
	LtIdxSps          []uint32   `json:"lt_idx_sps,omitempty"`          // lt_idx_sps[ i ], i < num_long_term_sps
	// PwtCurrPicL0/L1[i]: RefPicListX[i] is the current picture (pps_curr_pic_ref_enabled_flag), so that
	// luma_weight_lX_flag[i] and chroma_weight_lX_flag[i] are not present in pred_weight_table().
	PwtCurrPicL0 []bool `json:"pwt_curr_pic_l0,omitempty"`
	PwtCurrPicL1 []bool `json:"pwt_curr_pic_l1,omitempty"`
}

// HEVCSliceTree is the value tree of a slice segment NAL unit (header + opaque slice data bytes).
type HEVCSliceTree struct {
	NalType         byte             `json:"nal_type"`
	TemporalIDPlus1 byte             `json:"tid_plus1"`
	SH              hevc.SliceHeader `json:"sh"`
	Extra           HEVCSliceExtra   `json:"extra"`
	Payload         []byte           `json:"payload,omitempty"` // slice_segment_data() bytes (opaque)
}

// HEVCCeilLog2 is Ceil( Log2( n ) ) for n >= 1.
func HEVCCeilLog2(n uint64) int {
	k := 0
	for (uint64(1) << uint(k)) < n {
		k++
	}
	return k
}

// HEVCPicSizeInCtbsY computes PicWidthInCtbsY, PicHeightInCtbsY (7-10 .. 7-19).
func HEVCPicSizeInCtbs(s *hevc.SPS) (wCtbs, hCtbs uint64) {
	ctbLog2 := uint(s.Log2MinLumaCodingBlockSizeMinus3) + 3 + uint(s.Log2DiffMaxMinLumaCodingBlockSize)
	ctb := uint64(1) << ctbLog2
	wCtbs = (uint64(s.PicWidthInLumaSamples) + ctb - 1) / ctb
	hCtbs = (uint64(s.PicHeightInLumaSamples) + ctb - 1) / ctb
	return
}

// HEVCChromaArrayType: 0 when separate_colour_plane_flag, else chroma_format_idc.
func HEVCChromaArrayType(s *hevc.SPS) int {
	if s.SeparateColourPlaneFlag {
		return 0
	}
	return int(s.ChromaFormatIDC)
}

// HEVCSliceDerived are quantities derived while writing a slice segment header.
type HEVCSliceDerived struct {
	HeaderBits      int         // bits of NAL header + slice_segment_header() incl. byte_alignment()
	NumPicTotalCurr int         // (7-55), 0 for dependent slice segments
	CurrRPS         HEVCRPSVars // the short-term RPS in effect (empty for IDR / dependent)
}

func hevcWritePredWeightTable(w *BitWriter, sh *hevc.SliceHeader, x *HEVCSliceExtra, chromaArrayType int) {
	p := sh.PredWeightTable
	w.UE(uint64(p.LumaLog2WeightDenom))
	if chromaArrayType != 0 {
		w.SE(int64(p.DeltaChromaLog2WeightDenom))
	}
	list := func(ws []hevc.WeightingFactors, n int, curr []bool) {
		isCurr := func(i int) bool { return i < len(curr) && curr[i] }
		for i := 0; i < n; i++ {
			if !isCurr(i) { // pic_layer_id / PicOrderCnt( RefPicListX[ i ] ) != PicOrderCnt( CurrPic )
				w.Flag(ws[i].LumaWeightFlag)
			}
		}
		if chromaArrayType != 0 {
			for i := 0; i < n; i++ {
				if !isCurr(i) {
					w.Flag(ws[i].ChromaWeightFlag)
				}
			}
		}
		for i := 0; i < n; i++ {
			if ws[i].LumaWeightFlag {
				w.SE(int64(ws[i].DeltaLumaWeight))
				w.SE(int64(ws[i].LumaOffset))
			}
			if ws[i].ChromaWeightFlag {
				for j := 0; j < 2; j++ {
					w.SE(int64(ws[i].DeltaChromaWeight[j]))
					w.SE(int64(ws[i].DeltaChromaOffset[j]))
				}
			}
		}
	}
	list(p.WeightsL0, int(sh.NumRefIdxL0ActiveMinus1)+1, x.PwtCurrPicL0)
	if sh.SliceType == 0 { // B
		list(p.WeightsL1, int(sh.NumRefIdxL1ActiveMinus1)+1, x.PwtCurrPicL1)
	}
}

// HEVCWriteSlice serialises a slice segment NAL unit. spsT and pps are the ACTIVE parameter sets (the PPS
// with id slice_pic_parameter_set_id and the SPS with that PPS's pps_seq_parameter_set_id).
func HEVCWriteSlice(t *HEVCSliceTree, spsT *HEVCSPSTree, pps *hevc.PPS) ([]byte, HEVCSliceDerived) {
	return HEVCWriteSliceH(t, spsT, pps, nil)
}

// HEVCWriteSliceH is HEVCWriteSlice with a hostile-value hook on the bit writer (nil: none); see Hostile.
func HEVCWriteSliceH(t *HEVCSliceTree, spsT *HEVCSPSTree, pps *hevc.PPS, hz *Hostile) ([]byte, HEVCSliceDerived) {
	sh := &t.SH
	x := &t.Extra
	sps := &spsT.SPS
	var d HEVCSliceDerived
	w := NewHostileBitWriter(hz)
	nalType := int(t.NalType)
	w.Bytes(HEVCNalHeader(t.NalType, 0, t.TemporalIDPlus1))
	w.Flag(sh.FirstSliceSegmentInPicFlag)
	if nalType >= HEVCNalBlaWLP && nalType <= HEVCNalRsvIrap23 {
		w.Flag(sh.NoOutputOfPriorPicsFlag)
	}
	w.UE(uint64(sh.PicParameterSetId))
	dependent := false
	if !sh.FirstSliceSegmentInPicFlag {
		if pps.DependentSliceSegmentsEnabledFlag {
			w.Flag(sh.DependentSliceSegmentFlag)
			dependent = sh.DependentSliceSegmentFlag
		}
		wc, hc := HEVCPicSizeInCtbs(sps)
		w.U(uint64(sh.SegmentAddress), HEVCCeilLog2(wc*hc))
	}
	chromaArrayType := HEVCChromaArrayType(sps)
	isIDR := nalType == HEVCNalIdrWRadl || nalType == HEVCNalIdrNLP
	sliceDeblockingDisabled := pps.DeblockingFilterDisabledFlag // inferred value when not present
	if !dependent {
		for i := 0; i < int(pps.NumExtraSliceHeaderBits); i++ {
			w.Flag(i < len(x.SliceReservedFlag) && x.SliceReservedFlag[i])
		}
		w.UE(uint64(sh.SliceType))
		if pps.OutputFlagPresentFlag {
			w.Flag(sh.PicOutputFlag)
		}
		if sps.SeparateColourPlaneFlag {
			w.U(uint64(sh.ColourPlaneId), 2)
		}
		usedLt := 0
		if !isIDR {
			pocBits := int(sps.Log2MaxPicOrderCntLsbMinus4) + 4
			w.U(uint64(sh.PicOrderCntLsb), pocBits)
			w.Flag(sh.ShortTermRefPicSetSpsFlag)
			num := int(sps.NumShortTermRefPicSets)
			var vars []HEVCRPSVars
			if num > 0 {
				vars = HEVCDeriveAllRPS(spsT.RPSCodings())
			}
			if !sh.ShortTermRefPicSetSpsFlag {
				c := x.StRPS
				if c == nil {
					e := HEVCExplicitRPSFromLib(&sh.ShortTermRefPicSet)
					c = &e
				}
				var ref *HEVCRPSVars
				refN := 0
				if c.InterRPSPred && num > 0 {
					ref = &vars[num-(int(c.DeltaIdxMinus1)+1)] // RefRpsIdx = stRpsIdx − ( delta_idx_minus1 + 1 )
					refN = ref.NumDeltaPocs()
				}
				hevcWriteStRPS(w, c, num, num, refN)
				d.CurrRPS = HEVCDeriveRPS(c, ref)
			} else {
				if num > 1 {
					w.U(uint64(sh.ShortTermRefPicSetIdx), HEVCCeilLog2(uint64(num)))
				}
				d.CurrRPS = vars[sh.ShortTermRefPicSetIdx] // idx inferred 0 when not present
			}
			if sps.LongTermRefPicsPresentFlag {
				if sps.NumLongTermRefPics > 0 {
					w.UE(uint64(sh.NumLongTermSps))
				}
				w.UE(uint64(sh.NumLongTermPics))
				n := int(sh.NumLongTermSps) + int(sh.NumLongTermPics)
				for i := 0; i < n; i++ {
					lt := &sh.LongTermRefPicSets[i]
					if i < int(sh.NumLongTermSps) {
						idx := uint32(0) // inferred 0 when not present
						if sps.NumLongTermRefPics > 1 {
							idx = x.LtIdxSps[i]
							w.U(uint64(idx), HEVCCeilLog2(uint64(sps.NumLongTermRefPics)))
						}
						if sps.LongTermRefPicSets[idx].UsedByCurrPicLtFlag { // UsedByCurrPicLt[ i ] (7-52)
							usedLt++
						}
					} else {
						w.U(uint64(lt.PocLsbLt), pocBits)
						w.Flag(lt.UsedByCurrPicLtFlag)
						if lt.UsedByCurrPicLtFlag {
							usedLt++
						}
					}
					w.Flag(lt.DeltaPocMsbPresentFlag)
					if lt.DeltaPocMsbPresentFlag {
						w.UE(uint64(lt.DeltaPocMsbCycleLt))
					}
				}
			}
			if sps.SpsTemporalMvpEnabledFlag {
				w.Flag(sh.TemporalMvpEnabledFlag)
			}
		}
		// (7-55)
		if !isIDR {
			d.NumPicTotalCurr = d.CurrRPS.NumUsed() + usedLt
		}
		if pps.SccExtensionFlag && pps.SccExtension != nil && pps.SccExtension.CurrPicRefEnabledFlag {
			d.NumPicTotalCurr++
		}
		if sps.SampleAdaptiveOffsetEnabledFlag {
			w.Flag(sh.SaoLumaFlag)
			if chromaArrayType != 0 {
				w.Flag(sh.SaoChromaFlag)
			}
		}
		isP, isB := sh.SliceType == 1, sh.SliceType == 0
		if isP || isB {
			w.Flag(sh.NumRefIdxActiveOverrideFlag)
			if sh.NumRefIdxActiveOverrideFlag {
				w.UE(uint64(sh.NumRefIdxL0ActiveMinus1))
				if isB {
					w.UE(uint64(sh.NumRefIdxL1ActiveMinus1))
				}
			}
			if pps.ListsModificationPresentFlag && d.NumPicTotalCurr > 1 {
				// 7.3.6.2 ref_pic_lists_modification
				m := sh.RefPicListsModification
				nb := HEVCCeilLog2(uint64(d.NumPicTotalCurr))
				w.Flag(m.RefPicListModificationFlagL0)
				if m.RefPicListModificationFlagL0 {
					for i := 0; i <= int(sh.NumRefIdxL0ActiveMinus1); i++ {
						w.U(uint64(m.ListEntryL0[i]), nb)
					}
				}
				if isB {
					w.Flag(m.RefPicListModificationFlagL1)
					if m.RefPicListModificationFlagL1 {
						for i := 0; i <= int(sh.NumRefIdxL1ActiveMinus1); i++ {
							w.U(uint64(m.ListEntryL1[i]), nb)
						}
					}
				}
			}
			if isB {
				w.Flag(sh.MvdL1ZeroFlag)
			}
			if pps.CabacInitPresentFlag {
				w.Flag(sh.CabacInitFlag)
			}
			if sh.TemporalMvpEnabledFlag {
				collFromL0 := true // inferred 1 when not present
				if isB {
					w.Flag(sh.CollocatedFromL0Flag)
					collFromL0 = sh.CollocatedFromL0Flag
				}
				if (collFromL0 && sh.NumRefIdxL0ActiveMinus1 > 0) || (!collFromL0 && sh.NumRefIdxL1ActiveMinus1 > 0) {
					w.UE(uint64(sh.CollocatedRefIdx))
				}
			}
			if (pps.WeightedPredFlag && isP) || (pps.WeightedBipredFlag && isB) {
				hevcWritePredWeightTable(w, sh, x, chromaArrayType)
			}
			w.UE(uint64(sh.FiveMinusMaxNumMergeCand))
			if sps.SccExtensionFlag && sps.SccExtension != nil && sps.SccExtension.MotionVectorResolutionControlIdc == 2 {
				w.Flag(sh.UseIntegerMvFlag)
			}
		}
		w.SE(int64(sh.QpDelta))
		if pps.SliceChromaQpOffsetsPresentFlag {
			w.SE(int64(sh.CbQpOffset))
			w.SE(int64(sh.CrQpOffset))
		}
		if pps.SccExtensionFlag && pps.SccExtension != nil && pps.SccExtension.SliceActQpOffsetsPresentFlag {
			w.SE(int64(sh.ActYQpOffset))
			w.SE(int64(sh.ActCbQpOffset))
			w.SE(int64(sh.ActCrQpOffset))
		}
		if pps.RangeExtensionFlag && pps.RangeExtension != nil && pps.RangeExtension.ChromaQpOffsetListEnabledFlag {
			w.Flag(sh.CuChromaQpOffsetEnabledFlag)
		}
		overrideFlag := false
		if pps.DeblockingFilterOverrideEnabledFlag {
			w.Flag(sh.DeblockingFilterOverrideFlag)
			overrideFlag = sh.DeblockingFilterOverrideFlag
		}
		if overrideFlag {
			w.Flag(sh.DeblockingFilterDisabledFlag)
			sliceDeblockingDisabled = sh.DeblockingFilterDisabledFlag
			if !sh.DeblockingFilterDisabledFlag {
				w.SE(int64(sh.BetaOffsetDiv2))
				w.SE(int64(sh.TcOffsetDiv2))
			}
		}
		if pps.LoopFilterAcrossSlicesEnabledFlag && (sh.SaoLumaFlag || sh.SaoChromaFlag || !sliceDeblockingDisabled) {
			w.Flag(sh.LoopFilterAcrossSlicesEnabledFlag)
		}
	}
	if pps.TilesEnabledFlag || pps.EntropyCodingSyncEnabledFlag {
		w.UE(uint64(sh.NumEntryPointOffsets))
		if sh.NumEntryPointOffsets > 0 {
			w.UE(uint64(sh.OffsetLenMinus1))
			for i := 0; i < int(sh.NumEntryPointOffsets); i++ {
				w.U(uint64(sh.EntryPointOffsetMinus1[i]), int(sh.OffsetLenMinus1)+1)
			}
		}
	}
	if pps.SliceSegmentHeaderExtensionPresentFlag {
		w.UE(uint64(sh.SegmentHeaderExtensionLength))
		for i := 0; i < int(sh.SegmentHeaderExtensionLength); i++ {
			w.U(uint64(sh.SegmentHeaderExtensionDataByte[i]), 8)
		}
	}
	// byte_alignment(): alignment_bit_equal_to_one, then alignment_bit_equal_to_zero until aligned
	w.U(1, 1)
	w.AlignZero()
	d.HeaderBits = w.NrBits()
	// slice_segment_data() (opaque) + rbsp_slice_segment_trailing_bits()
	w.Bytes(t.Payload)
	w.TrailingBits()
	return hevcFinishNal(w), d
}

// HEVCHeaderSizeInNal returns the number of bytes of the NAL unit nal that the first headerBits bits
// (a multiple of 8, counted in unescaped bytes, NAL header included) occupy, emulation prevention bytes
// before or inside that range included.
func HEVCHeaderSizeInNal(nal []byte, headerBits int) int {
	nBytes := headerBits / 8
	rbsp := Unescape(nal[2:])
	pos := EscapePositions(rbsp)
	return 2 + pos[nBytes-2-1] + 1
}

// ---------------------------------------------------------------------------------------------
// A small MSB-first bit reader (used by the anchor tests to recover what the library's structs do not
// retain: scaling list coefficients and inter-predicted RPS codings).

type HEVCBitReader struct {
	b   []byte
	pos int
	Err bool
}

func NewHEVCBitReader(unescaped []byte, bitPos int) *HEVCBitReader {
	return &HEVCBitReader{b: unescaped, pos: bitPos}
}

func (r *HEVCBitReader) Pos() int { return r.pos }

func (r *HEVCBitReader) U(n int) uint64 {
	var v uint64
	for i := 0; i < n; i++ {
		if r.pos>>3 >= len(r.b) {
			r.Err = true
			return 0
		}
		bit := (r.b[r.pos>>3] >> uint(7-r.pos&7)) & 1
		v = v<<1 | uint64(bit)
		r.pos++
	}
	return v
}

func (r *HEVCBitReader) Flag() bool { return r.U(1) == 1 }

func (r *HEVCBitReader) UE() uint64 {
	n := 0
	for r.U(1) == 0 {
		n++
		if r.Err || n > 63 {
			r.Err = true
			return 0
		}
	}
	return (uint64(1)<<uint(n) - 1) + r.U(n)
}

func (r *HEVCBitReader) SE() int64 {
	k := r.UE()
	if k&1 == 1 {
		return int64((k + 1) / 2)
	}
	return -int64(k / 2)
}

// HEVCReadScalingList is the inverse of hevcWriteScalingList.
func HEVCReadScalingList(r *HEVCBitReader) *HEVCScalingListData {
	d := &HEVCScalingListData{}
	for sizeID := 0; sizeID < 4; sizeID++ {
		step := 1
		if sizeID == 3 {
			step = 3
		}
		for matrixID := 0; matrixID < 6; matrixID += step {
			d.PredModeFlag[sizeID][matrixID] = r.Flag()
			if !d.PredModeFlag[sizeID][matrixID] {
				d.PredMatrixIDDelta[sizeID][matrixID] = uint32(r.UE())
			} else {
				if sizeID > 1 {
					d.DcCoefMinus8[sizeID][matrixID] = int32(r.SE())
				}
				n := HEVCScalingCoefNum(sizeID)
				for i := 0; i < n; i++ {
					d.DeltaCoef[sizeID][matrixID] = append(d.DeltaCoef[sizeID][matrixID], int32(r.SE()))
				}
			}
		}
	}
	return d
}

// HEVCReadStRPS is the inverse of hevcWriteStRPS.
func HEVCReadStRPS(r *HEVCBitReader, stRpsIdx, numStRps int, prev []HEVCRPSVars) HEVCStRPS {
	var c HEVCStRPS
	if stRpsIdx != 0 {
		c.InterRPSPred = r.Flag()
	}
	if c.InterRPSPred {
		if stRpsIdx == numStRps {
			c.DeltaIdxMinus1 = uint32(r.UE())
		}
		c.DeltaRpsSign = r.Flag()
		c.AbsDeltaRpsMinus1 = uint32(r.UE())
		refIdx := stRpsIdx - (int(c.DeltaIdxMinus1) + 1)
		if refIdx < 0 || refIdx >= len(prev) {
			r.Err = true
			return c
		}
		n := prev[refIdx].NumDeltaPocs()
		for j := 0; j <= n; j++ {
			u := r.Flag()
			ud := true
			if !u {
				ud = r.Flag()
			}
			c.UsedByCurrPicFlag = append(c.UsedByCurrPicFlag, u)
			c.UseDeltaFlag = append(c.UseDeltaFlag, ud)
		}
		return c
	}
	nNeg := int(r.UE())
	nPos := int(r.UE())
	if nNeg > 64 || nPos > 64 {
		r.Err = true
		return c
	}
	for i := 0; i < nNeg; i++ {
		c.DeltaPocS0Minus1 = append(c.DeltaPocS0Minus1, uint32(r.UE()))
		c.UsedByCurrPicS0 = append(c.UsedByCurrPicS0, r.Flag())
	}
	for i := 0; i < nPos; i++ {
		c.DeltaPocS1Minus1 = append(c.DeltaPocS1Minus1, uint32(r.UE()))
		c.UsedByCurrPicS1 = append(c.UsedByCurrPicS1, r.Flag())
	}
	return c
}
