package nalgen

// H.264 / AVC syntax serialisers written from the syntax tables of ISO/IEC 14496-10:
//   7.3.1      nal_unit (header byte, emulation prevention)
//   7.3.2.1.1  seq_parameter_set_data, 7.3.2.1.1.1 scaling_list, E.1.1 vui_parameters, E.1.2 hrd_parameters
//   7.3.2.2    pic_parameter_set_rbsp
//   7.3.3      slice_header, 7.3.3.1 ref_pic_list_modification, 7.3.3.2 pred_weight_table,
//              7.3.3.3 dec_ref_pic_marking
//
// The library's structs avc.SPS, avc.PPS, avc.SliceHeader (and the VUI/HRD structs hanging off avc.SPS)
// are used as plain data containers for the syntax element values; no mp4ff function is called here.
// Syntax elements those structs cannot hold (element not stored, stored in a type that cannot represent
// the coded value, or stored only as "last value") live in the tree structs below.

import (
	"github.com/Eyevinn/mp4ff/avc"
)

// ScalingListSyntax is one scaling list as coded: the present flag and the delta_scale values that are
// actually in the bitstream (7.3.2.1.1.1: delta_scale is coded only while nextScale != 0).
type ScalingListSyntax struct {
	Present bool  `json:"present"`
	Deltas  []int `json:"deltas,omitempty"`
}

// ScalingListValues applies the scaling_list() process of 7.3.2.1.1.1 to coded deltas and returns the
// resulting list of the given size, the number of deltas consumed and useDefaultScalingMatrixFlag.
// If deltas runs out while nextScale != 0, ok is false.
func ScalingListValues(deltas []int, size int) (list []int, used int, useDefault bool, ok bool) {
	list = make([]int, size)
	lastScale, nextScale := 8, 8
	for j := 0; j < size; j++ {
		if nextScale != 0 {
			if used >= len(deltas) {
				return nil, used, false, false
			}
			d := deltas[used]
			used++
			nextScale = (lastScale + d + 256) % 256
			useDefault = j == 0 && nextScale == 0
		}
		if nextScale == 0 {
			list[j] = lastScale
		} else {
			list[j] = nextScale
		}
		lastScale = list[j]
	}
	return list, used, useDefault, true
}

func writeScalingLists(w *BitWriter, lists []ScalingListSyntax, n int) {
	for i := 0; i < n; i++ {
		var l ScalingListSyntax
		if i < len(lists) {
			l = lists[i]
		}
		w.Flag(l.Present) // seq_scaling_list_present_flag[i] / pic_scaling_list_present_flag[i]
		if !l.Present {
			continue
		}
		size := 16
		if i >= 6 {
			size = 64
		}
		// scaling_list(): write delta_scale while nextScale != 0
		lastScale, nextScale := 8, 8
		k := 0
		for j := 0; j < size; j++ {
			if nextScale != 0 {
				d := 0
				if k < len(l.Deltas) {
					d = l.Deltas[k]
				}
				k++
				w.SE(int64(d))
				nextScale = (lastScale + d + 256) % 256
			}
			if nextScale != 0 {
				lastScale = nextScale
			}
		}
	}
}

// AVCHighProfileFields reports whether seq_parameter_set_data carries chroma_format_idc ... scaling
// matrix for this profile_idc (the list in 7.3.2.1.1).
func AVCHighProfileFields(profileIDC uint32) bool {
	switch profileIDC {
	case 100, 110, 122, 244, 44, 83, 86, 118, 128, 138, 139, 134, 135:
		return true
	}
	return false
}

// AVCSPSTree is the value tree of one SPS NAL unit.
type AVCSPSTree struct {
	NalRefIdc uint8 `json:"nal_ref_idc"` // nal_ref_idc of the NAL header (shall not be 0 for an SPS)
	// S holds: profile_idc, constraint flags byte, level_idc, seq_parameter_set_id, chroma_format_idc,
	// separate_colour_plane_flag, bit depths, qpprime flag, seq_scaling_matrix_present_flag,
	// log2_max_frame_num_minus4, pic_order_cnt_type, log2_max_pic_order_cnt_lsb_minus4,
	// delta_pic_order_always_zero_flag, max_num_ref_frames, gaps flag, frame_mbs_only_flag, mbaff flag,
	// direct_8x8_inference_flag, frame_cropping_flag + offsets and the VUI (nil: vui_parameters_present_flag=0;
	// HRD present flags + pointers). Not used from S: SeqScalingLists, OffsetFor*, RefFramesInPicOrderCntCycle,
	// Width, Height, NrBytes*, VUI.SampleAspectRatio* unless AspectRatioIDC == 255.
	S avc.SPS `json:"sps"`

	PicWidthInMbsMinus1       uint                `json:"pic_width_in_mbs_minus1"`
	PicHeightInMapUnitsMinus1 uint                `json:"pic_height_in_map_units_minus1"`
	ScalingLists              []ScalingListSyntax `json:"scaling_lists,omitempty"` // 8 or 12 entries when S.SeqScalingMatrixPresentFlag
	OffsetForNonRefPic        int64               `json:"offset_for_non_ref_pic"`
	OffsetForTopToBottomField int64               `json:"offset_for_top_to_bottom_field"`
	OffsetForRefFrame         []int64             `json:"offset_for_ref_frame,omitempty"` // num_ref_frames_in_pic_order_cnt_cycle entries
	AspectRatioInfoPresent    bool                `json:"aspect_ratio_info_present"`
	AspectRatioIDC            uint8               `json:"aspect_ratio_idc"` // 255 = Extended_SAR, then S.VUI.SampleAspectRatioWidth/Height are coded
}

// AVCSPSBits tells where things ended up in the RBSP (bit counts exclude the NAL header byte).
type AVCSPSBits struct {
	RBSP            []byte // unescaped payload incl. trailing bits
	BitsThroughVUIF int    // bits up to and including vui_parameters_present_flag
	BitsThroughAR   int    // bits up to and including the aspect ratio information (== BitsThroughVUIF if no VUI)
	BitsData        int    // bits before rbsp_trailing_bits
}

// NalOccupied returns the number of NAL unit bytes (header byte, payload bytes and the
// emulation-prevention bytes in front of them) that hold the first nbits bits of the RBSP.
func NalOccupied(rbsp []byte, nbits int) int {
	if nbits <= 0 {
		return 1
	}
	pos := EscapePositions(rbsp)
	return 1 + pos[(nbits-1)/8] + 1
}

func nalHeader(refIdc uint8, nalType uint8) byte {
	return (refIdc&3)<<5 | nalType&0x1f // forbidden_zero_bit = 0
}

func writeHRD(w *BitWriter, h *avc.HrdParameters) {
	w.UE(uint64(h.CpbCountMinus1))
	w.U(uint64(h.BitRateScale), 4)
	w.U(uint64(h.CpbSizeScale), 4)
	for i := uint(0); i <= h.CpbCountMinus1; i++ {
		var e avc.CpbEntry
		if int(i) < len(h.CpbEntries) {
			e = h.CpbEntries[i]
		}
		w.UE(uint64(e.BitRateValueMinus1))
		w.UE(uint64(e.CpbSizeValueMinus1))
		w.Flag(e.CbrFlag)
	}
	w.U(uint64(h.InitialCpbRemovalDelayLengthMinus1), 5)
	w.U(uint64(h.CpbRemovalDelayLengthMinus1), 5)
	w.U(uint64(h.DpbOutputDelayLengthMinus1), 5)
	w.U(uint64(h.TimeOffsetLength), 5)
}

// SerializeAVCSPS writes the SPS NAL unit (nal_unit_type 7) for the tree.
func SerializeAVCSPS(t *AVCSPSTree) ([]byte, AVCSPSBits) {
	return SerializeAVCSPSH(t, nil)
}

// SerializeAVCSPSH is SerializeAVCSPS with a hostile-value hook on the bit writer (nil: none); see Hostile.
func SerializeAVCSPSH(t *AVCSPSTree, hz *Hostile) ([]byte, AVCSPSBits) {
	s := &t.S
	w := NewHostileBitWriter(hz)
	w.U(uint64(s.Profile), 8)
	w.U(uint64(s.ProfileCompatibility), 8) // constraint_set0..5_flag + reserved_zero_2bits
	w.U(uint64(s.Level), 8)
	w.UE(uint64(s.ParameterID))
	if AVCHighProfileFields(s.Profile) {
		w.UE(uint64(s.ChromaFormatIDC))
		if s.ChromaFormatIDC == 3 {
			w.Flag(s.SeparateColourPlaneFlag)
		}
		w.UE(uint64(s.BitDepthLumaMinus8))
		w.UE(uint64(s.BitDepthChromaMinus8))
		w.Flag(s.QPPrimeYZeroTransformBypassFlag)
		w.Flag(s.SeqScalingMatrixPresentFlag)
		if s.SeqScalingMatrixPresentFlag {
			n := 8
			if s.ChromaFormatIDC == 3 {
				n = 12
			}
			writeScalingLists(w, t.ScalingLists, n)
		}
	}
	w.UE(uint64(s.Log2MaxFrameNumMinus4))
	w.UE(uint64(s.PicOrderCntType))
	switch s.PicOrderCntType {
	case 0:
		w.UE(uint64(s.Log2MaxPicOrderCntLsbMinus4))
	case 1:
		w.Flag(s.DeltaPicOrderAlwaysZeroFlag)
		w.SE(t.OffsetForNonRefPic)
		w.SE(t.OffsetForTopToBottomField)
		w.UE(uint64(len(t.OffsetForRefFrame))) // num_ref_frames_in_pic_order_cnt_cycle
		for _, o := range t.OffsetForRefFrame {
			w.SE(o)
		}
	}
	w.UE(uint64(s.NumRefFrames)) // max_num_ref_frames
	w.Flag(s.GapsInFrameNumValueAllowedFlag)
	w.UE(uint64(t.PicWidthInMbsMinus1))
	w.UE(uint64(t.PicHeightInMapUnitsMinus1))
	w.Flag(s.FrameMbsOnlyFlag)
	if !s.FrameMbsOnlyFlag {
		w.Flag(s.MbAdaptiveFrameFieldFlag)
	}
	w.Flag(s.Direct8x8InferenceFlag)
	w.Flag(s.FrameCroppingFlag)
	if s.FrameCroppingFlag {
		w.UE(uint64(s.FrameCropLeftOffset))
		w.UE(uint64(s.FrameCropRightOffset))
		w.UE(uint64(s.FrameCropTopOffset))
		w.UE(uint64(s.FrameCropBottomOffset))
	}
	w.Flag(s.VUI != nil) // vui_parameters_present_flag
	info := AVCSPSBits{BitsThroughVUIF: w.NrBits()}
	info.BitsThroughAR = info.BitsThroughVUIF
	if v := s.VUI; v != nil {
		w.Flag(t.AspectRatioInfoPresent)
		if t.AspectRatioInfoPresent {
			w.U(uint64(t.AspectRatioIDC), 8)
			if t.AspectRatioIDC == 255 {
				w.U(uint64(v.SampleAspectRatioWidth), 16)
				w.U(uint64(v.SampleAspectRatioHeight), 16)
			}
		}
		info.BitsThroughAR = w.NrBits()
		w.Flag(v.OverscanInfoPresentFlag)
		if v.OverscanInfoPresentFlag {
			w.Flag(v.OverscanAppropriateFlag)
		}
		w.Flag(v.VideoSignalTypePresentFlag)
		if v.VideoSignalTypePresentFlag {
			w.U(uint64(v.VideoFormat), 3)
			w.Flag(v.VideoFullRangeFlag)
			w.Flag(v.ColourDescriptionFlag)
			if v.ColourDescriptionFlag {
				w.U(uint64(v.ColourPrimaries), 8)
				w.U(uint64(v.TransferCharacteristics), 8)
				w.U(uint64(v.MatrixCoefficients), 8)
			}
		}
		w.Flag(v.ChromaLocInfoPresentFlag)
		if v.ChromaLocInfoPresentFlag {
			w.UE(uint64(v.ChromaSampleLocTypeTopField))
			w.UE(uint64(v.ChromaSampleLocTypeBottomField))
		}
		w.Flag(v.TimingInfoPresentFlag)
		if v.TimingInfoPresentFlag {
			w.U(uint64(v.NumUnitsInTick), 32)
			w.U(uint64(v.TimeScale), 32)
			w.Flag(v.FixedFrameRateFlag)
		}
		w.Flag(v.NalHrdParametersPresentFlag)
		if v.NalHrdParametersPresentFlag {
			writeHRD(w, v.NalHrdParameters)
		}
		w.Flag(v.VclHrdParametersPresentFlag)
		if v.VclHrdParametersPresentFlag {
			writeHRD(w, v.VclHrdParameters)
		}
		if v.NalHrdParametersPresentFlag || v.VclHrdParametersPresentFlag {
			w.Flag(v.LowDelayHrdFlag)
		}
		w.Flag(v.PicStructPresentFlag)
		w.Flag(v.BitstreamRestrictionFlag)
		if v.BitstreamRestrictionFlag {
			w.Flag(v.MotionVectorsOverPicBoundariesFlag)
			w.UE(uint64(v.MaxBytesPerPicDenom))
			w.UE(uint64(v.MaxBitsPerMbDenom))
			w.UE(uint64(v.Log2MaxMvLengthHorizontal))
			w.UE(uint64(v.Log2MaxMvLengthVertical))
			w.UE(uint64(v.MaxNumReorderFrames))
			w.UE(uint64(v.MaxDecFrameBuffering))
		}
	}
	info.BitsData = w.NrBits()
	w.TrailingBits()
	info.RBSP = w.Out()
	nalu := append([]byte{nalHeader(t.NalRefIdc, 7)}, Escape(info.RBSP)...)
	return nalu, info
}

// AVCPPSTree is the value tree of one PPS NAL unit.
type AVCPPSTree struct {
	NalRefIdc uint8 `json:"nal_ref_idc"`
	// P holds all PPS syntax elements: ids, flags, num_slice_groups_minus1, slice_group_map_type,
	// RunLengthMinus1 (num_slice_groups_minus1+1 entries, type 0), TopLeft/BottomRight (num_slice_groups_minus1
	// entries, type 2), change direction/rate (types 3-5), PicSizeInMapUnitsMinus1 + SliceGroupID
	// (PicSizeInMapUnitsMinus1+1 entries, type 6), ..., and of the optional tail the two flags and
	// second_chroma_qp_index_offset. Not used from P: PicScalingLists.
	P avc.PPS `json:"pps"`
	// TailPresent: transform_8x8_mode_flag, pic_scaling_matrix_present_flag [, lists],
	// second_chroma_qp_index_offset are coded (more_rbsp_data() after redundant_pic_cnt_present_flag).
	TailPresent  bool                `json:"tail_present"`
	ScalingLists []ScalingListSyntax `json:"scaling_lists,omitempty"`
}

// CeilLog2 returns Ceil(Log2(x)) for x >= 1.
func CeilLog2(x uint64) int {
	n := 0
	for (uint64(1) << uint(n)) < x {
		n++
	}
	return n
}

// AVCNumPicScalingLists is 6 + ((chroma_format_idc != 3) ? 2 : 6) * transform_8x8_mode_flag.
func AVCNumPicScalingLists(chromaFormatIDC byte, transform8x8 bool) int {
	n := 6
	if transform8x8 {
		if chromaFormatIDC != 3 {
			n += 2
		} else {
			n += 6
		}
	}
	return n
}

// SerializeAVCPPS writes the PPS NAL unit (nal_unit_type 8). chromaFormatIDC is that of the SPS the PPS
// refers to (it determines the number of pic scaling lists). Returns the NAL unit and the RBSP.
func SerializeAVCPPS(t *AVCPPSTree, chromaFormatIDC byte) ([]byte, []byte) {
	return SerializeAVCPPSH(t, chromaFormatIDC, nil)
}

// SerializeAVCPPSH is SerializeAVCPPS with a hostile-value hook on the bit writer (nil: none); see Hostile.
func SerializeAVCPPSH(t *AVCPPSTree, chromaFormatIDC byte, hz *Hostile) ([]byte, []byte) {
	p := &t.P
	w := NewHostileBitWriter(hz)
	w.UE(uint64(p.PicParameterSetID))
	w.UE(uint64(p.SeqParameterSetID))
	w.Flag(p.EntropyCodingModeFlag)
	w.Flag(p.BottomFieldPicOrderInFramePresentFlag)
	w.UE(uint64(p.NumSliceGroupsMinus1))
	if p.NumSliceGroupsMinus1 > 0 {
		w.UE(uint64(p.SliceGroupMapType))
		switch p.SliceGroupMapType {
		case 0:
			for i := uint(0); i <= p.NumSliceGroupsMinus1; i++ {
				w.UE(uint64(p.RunLengthMinus1[i]))
			}
		case 2:
			for i := uint(0); i < p.NumSliceGroupsMinus1; i++ {
				w.UE(uint64(p.TopLeft[i]))
				w.UE(uint64(p.BottomRight[i]))
			}
		case 3, 4, 5:
			w.Flag(p.SliceGroupChangeDirectionFlag)
			w.UE(uint64(p.SliceGroupChangeRateMinus1))
		case 6:
			w.UE(uint64(p.PicSizeInMapUnitsMinus1))
			nb := CeilLog2(uint64(p.NumSliceGroupsMinus1) + 1)
			for i := uint(0); i <= p.PicSizeInMapUnitsMinus1; i++ {
				w.U(uint64(p.SliceGroupID[i]), nb)
			}
		}
	}
	w.UE(uint64(p.NumRefIdxI0DefaultActiveMinus1))
	w.UE(uint64(p.NumRefIdxI1DefaultActiveMinus1))
	w.Flag(p.WeightedPredFlag)
	w.U(uint64(p.WeightedBipredIDC), 2)
	w.SE(int64(p.PicInitQpMinus26))
	w.SE(int64(p.PicInitQsMinus26))
	w.SE(int64(p.ChromaQpIndexOffset))
	w.Flag(p.DeblockingFilterControlPresentFlag)
	w.Flag(p.ConstrainedIntraPredFlag)
	w.Flag(p.RedundantPicCntPresentFlag)
	if t.TailPresent {
		w.Flag(p.Transform8x8ModeFlag)
		w.Flag(p.PicScalingMatrixPresentFlag)
		if p.PicScalingMatrixPresentFlag {
			writeScalingLists(w, t.ScalingLists, AVCNumPicScalingLists(chromaFormatIDC, p.Transform8x8ModeFlag))
		}
		w.SE(int64(p.SecondChromaQpIndexOffset))
	}
	w.TrailingBits()
	rbsp := w.Out()
	return append([]byte{nalHeader(t.NalRefIdc, 8)}, Escape(rbsp)...), rbsp
}

// RefPicListMod is one iteration of the ref_pic_list_modification loop (idc 0..2; the terminating
// idc 3 is written by the serialiser). Value is abs_diff_pic_num_minus1 (idc 0, 1) or long_term_pic_num (2).
type RefPicListMod struct {
	IDC   uint32 `json:"idc"`
	Value uint32 `json:"value"`
}

// PredWeight is one entry of the pred_weight_table loops.
type PredWeight struct {
	LumaFlag     bool     `json:"luma_flag"`
	LumaWeight   int32    `json:"luma_weight"`
	LumaOffset   int32    `json:"luma_offset"`
	ChromaFlag   bool     `json:"chroma_flag"`
	ChromaWeight [2]int32 `json:"chroma_weight"`
	ChromaOffset [2]int32 `json:"chroma_offset"`
}

// MMCO is one memory_management_control_operation (1..6; the terminating 0 is written by the serialiser).
type MMCO struct {
	Op                        uint32 `json:"op"`
	DifferenceOfPicNumsMinus1 uint32 `json:"difference_of_pic_nums_minus1"` // op 1, 3
	LongTermPicNum            uint32 `json:"long_term_pic_num"`             // op 2
	LongTermFrameIdx          uint32 `json:"long_term_frame_idx"`           // op 3, 6
	MaxLongTermFrameIdxPlus1  uint32 `json:"max_long_term_frame_idx_plus1"` // op 4
}

// AVCSliceTree is the value tree of a slice NAL unit (nal_unit_type 1 or 5).
type AVCSliceTree struct {
	NalRefIdc   uint8 `json:"nal_ref_idc"`
	NalUnitType uint8 `json:"nal_unit_type"` // 1 or 5
	// H holds the single-valued syntax elements (first_mb_in_slice, slice_type 0..9, pic_parameter_set_id,
	// colour_plane_id, frame_num, field flags, idr_pic_id, poc elements, redundant_pic_cnt,
	// direct_spatial_mv_pred_flag, override flag, num_ref_idx_lX_active_minus1 (when the override flag is 0 these
	// must hold the PPS defaults: they drive the pred_weight_table loops), the two modification flags,
	// luma/chroma_log2_weight_denom, IDR marking flags, adaptive_ref_pic_marking_mode_flag, cabac_init_idc,
	// slice_qp_delta, sp_for_switch_flag, slice_qs_delta, deblocking elements, slice_group_change_cycle).
	// Not used from H: SeqParamID, Size, and the "last value" fields ModificationOfPicNumsIDC, AbsDiffPicNumMinus1,
	// LongTermPicNum, AbsDiffViewIdxMinus1, DifferenceOfPicNumsMinus1, LongTermFramIdx, MaxLongTermFrameIdxPlus1.
	H avc.SliceHeader `json:"hdr"`

	ModL0        []RefPicListMod `json:"mod_l0,omitempty"`
	ModL1        []RefPicListMod `json:"mod_l1,omitempty"`
	PredWeightL0 []PredWeight    `json:"pwt_l0,omitempty"` // num_ref_idx_l0_active_minus1+1 entries when the table is present
	PredWeightL1 []PredWeight    `json:"pwt_l1,omitempty"`
	MMCOs        []MMCO          `json:"mmco,omitempty"`
	// SliceData follows the header bit-contiguously (not interpreted), then rbsp_trailing_bits.
	SliceData []byte `json:"slice_data,omitempty"`
}

// AVCSliceBits describes the serialised slice NAL unit.
type AVCSliceBits struct {
	RBSP       []byte
	HeaderBits int // bits of slice_header() in the RBSP (NAL header byte not included)
	// HeaderBytes is the number of NAL unit bytes the header occupies: NAL header byte, the RBSP bytes that
	// contain header bits and the emulation prevention bytes in front of them.
	HeaderBytes               int
	PredWeightTablePresent    bool
	SliceGroupChangeCycleBits int
}

// AVCPicSizeInMapUnits = PicWidthInMbs * PicHeightInMapUnits (7-17).
func AVCPicSizeInMapUnits(sps *AVCSPSTree) uint64 {
	return uint64(sps.PicWidthInMbsMinus1+1) * uint64(sps.PicHeightInMapUnitsMinus1+1)
}

// AVCSliceGroupChangeCycleBits = Ceil(Log2(PicSizeInMapUnits ÷ SliceGroupChangeRate + 1)) (7-35), with ÷ the
// exact division: the smallest n with SliceGroupChangeRate*(2^n - 1) >= PicSizeInMapUnits.
func AVCSliceGroupChangeCycleBits(picSizeInMapUnits, sliceGroupChangeRate uint64) int {
	n := 0
	for sliceGroupChangeRate*((uint64(1)<<uint(n))-1) < picSizeInMapUnits {
		n++
	}
	return n
}

func writeRefPicListMod(w *BitWriter, flag bool, mods []RefPicListMod) {
	w.Flag(flag)
	if !flag {
		return
	}
	for _, m := range mods {
		w.UE(uint64(m.IDC))
		w.UE(uint64(m.Value)) // abs_diff_pic_num_minus1 or long_term_pic_num
	}
	w.UE(3)
}

func writePredWeights(w *BitWriter, n uint32, pw []PredWeight, chroma bool) {
	for i := uint32(0); i <= n; i++ {
		var e PredWeight
		if int(i) < len(pw) {
			e = pw[i]
		}
		w.Flag(e.LumaFlag)
		if e.LumaFlag {
			w.SE(int64(e.LumaWeight))
			w.SE(int64(e.LumaOffset))
		}
		if chroma {
			w.Flag(e.ChromaFlag)
			if e.ChromaFlag {
				for j := 0; j < 2; j++ {
					w.SE(int64(e.ChromaWeight[j]))
					w.SE(int64(e.ChromaOffset[j]))
				}
			}
		}
	}
}

// SerializeAVCSlice writes a slice NAL unit whose header refers to pps (which refers to sps).
func SerializeAVCSlice(t *AVCSliceTree, sps *AVCSPSTree, pps *AVCPPSTree) ([]byte, AVCSliceBits) {
	return SerializeAVCSliceH(t, sps, pps, nil)
}

// SerializeAVCSliceH is SerializeAVCSlice with a hostile-value hook on the bit writer (nil: none); see Hostile.
func SerializeAVCSliceH(t *AVCSliceTree, sps *AVCSPSTree, pps *AVCPPSTree, hz *Hostile) ([]byte, AVCSliceBits) {
	h := &t.H
	s := &sps.S
	p := &pps.P
	idr := t.NalUnitType == 5
	st := uint32(h.SliceType) % 5 // 0 P, 1 B, 2 I, 3 SP, 4 SI
	isP, isB, isI, isSP, isSI := st == 0, st == 1, st == 2, st == 3, st == 4
	chromaArrayType := s.ChromaFormatIDC
	if !AVCHighProfileFields(s.Profile) {
		chromaArrayType = 1
	} else if s.SeparateColourPlaneFlag {
		chromaArrayType = 0
	}
	var info AVCSliceBits

	w := NewHostileBitWriter(hz)
	w.UE(uint64(h.FirstMBInSlice))
	w.UE(uint64(h.SliceType))
	w.UE(uint64(h.PicParamID))
	if AVCHighProfileFields(s.Profile) && s.ChromaFormatIDC == 3 && s.SeparateColourPlaneFlag {
		w.U(uint64(h.ColorPlaneID), 2)
	}
	w.U(uint64(h.FrameNum), int(s.Log2MaxFrameNumMinus4)+4)
	if !s.FrameMbsOnlyFlag {
		w.Flag(h.FieldPicFlag)
		if h.FieldPicFlag {
			w.Flag(h.BottomFieldFlag)
		}
	}
	if idr {
		w.UE(uint64(h.IDRPicID))
	}
	if s.PicOrderCntType == 0 {
		w.U(uint64(h.PicOrderCntLsb), int(s.Log2MaxPicOrderCntLsbMinus4)+4)
		if p.BottomFieldPicOrderInFramePresentFlag && !h.FieldPicFlag {
			w.SE(int64(h.DeltaPicOrderCntBottom))
		}
	}
	if s.PicOrderCntType == 1 && !s.DeltaPicOrderAlwaysZeroFlag {
		w.SE(int64(h.DeltaPicOrderCnt[0]))
		if p.BottomFieldPicOrderInFramePresentFlag && !h.FieldPicFlag {
			w.SE(int64(h.DeltaPicOrderCnt[1]))
		}
	}
	if p.RedundantPicCntPresentFlag {
		w.UE(uint64(h.RedundantPicCnt))
	}
	if isB {
		w.Flag(h.DirectSpatialMvPredFlag)
	}
	if isP || isSP || isB {
		w.Flag(h.NumRefIdxActiveOverrideFlag)
		if h.NumRefIdxActiveOverrideFlag {
			w.UE(uint64(h.NumRefIdxL0ActiveMinus1))
			if isB {
				w.UE(uint64(h.NumRefIdxL1ActiveMinus1))
			}
		}
	}
	// ref_pic_list_modification() (nal_unit_type is neither 20 nor 21)
	if !isI && !isSI {
		writeRefPicListMod(w, h.RefPicListModificationL0Flag, t.ModL0)
	}
	if isB {
		writeRefPicListMod(w, h.RefPicListModificationL1Flag, t.ModL1)
	}
	if (p.WeightedPredFlag && (isP || isSP)) || (p.WeightedBipredIDC == 1 && isB) {
		info.PredWeightTablePresent = true
		w.UE(uint64(h.LumaLog2WeightDenom))
		if chromaArrayType != 0 {
			w.UE(uint64(h.ChromaLog2WeightDenom))
		}
		writePredWeights(w, h.NumRefIdxL0ActiveMinus1, t.PredWeightL0, chromaArrayType != 0)
		if isB {
			writePredWeights(w, h.NumRefIdxL1ActiveMinus1, t.PredWeightL1, chromaArrayType != 0)
		}
	}
	if t.NalRefIdc != 0 {
		// dec_ref_pic_marking()
		if idr {
			w.Flag(h.NoOutputOfPriorPicsFlag)
			w.Flag(h.LongTermReferenceFlag)
		} else {
			w.Flag(h.AdaptiveRefPicMarkingModeFlag)
			if h.AdaptiveRefPicMarkingModeFlag {
				for _, m := range t.MMCOs {
					w.UE(uint64(m.Op))
					if m.Op == 1 || m.Op == 3 {
						w.UE(uint64(m.DifferenceOfPicNumsMinus1))
					}
					if m.Op == 2 {
						w.UE(uint64(m.LongTermPicNum))
					}
					if m.Op == 3 || m.Op == 6 {
						w.UE(uint64(m.LongTermFrameIdx))
					}
					if m.Op == 4 {
						w.UE(uint64(m.MaxLongTermFrameIdxPlus1))
					}
				}
				w.UE(0)
			}
		}
	}
	if p.EntropyCodingModeFlag && !isI && !isSI {
		w.UE(uint64(h.CabacInitIDC))
	}
	w.SE(int64(h.SliceQPDelta))
	if isSP || isSI {
		if isSP {
			w.Flag(h.SPForSwitchFlag)
		}
		w.SE(int64(h.SliceQSDelta))
	}
	if p.DeblockingFilterControlPresentFlag {
		w.UE(uint64(h.DisableDeblockingFilterIDC))
		if h.DisableDeblockingFilterIDC != 1 {
			w.SE(int64(h.SliceAlphaC0OffsetDiv2))
			w.SE(int64(h.SliceBetaOffsetDiv2))
		}
	}
	if p.NumSliceGroupsMinus1 > 0 && p.SliceGroupMapType >= 3 && p.SliceGroupMapType <= 5 {
		nb := AVCSliceGroupChangeCycleBits(AVCPicSizeInMapUnits(sps), uint64(p.SliceGroupChangeRateMinus1)+1)
		info.SliceGroupChangeCycleBits = nb
		w.U(uint64(h.SliceGroupChangeCycle), nb)
	}
	info.HeaderBits = w.NrBits()
	// slice_data() (opaque here) and rbsp_slice_trailing_bits()
	w.Bytes(t.SliceData)
	w.TrailingBits()
	info.RBSP = w.Out()
	if info.HeaderBits <= 8*len(info.RBSP) { // false only when a Hostile hook cut the stream inside the header
		info.HeaderBytes = NalOccupied(info.RBSP, info.HeaderBits)
	}
	nalu := append([]byte{nalHeader(t.NalRefIdc, t.NalUnitType)}, Escape(info.RBSP)...)
	return nalu, info
}

// AVCSARTable is Table E-1 (aspect_ratio_idc 1..16 -> sar_width:sar_height); index 0 is "unspecified".
var AVCSARTable = [17][2]uint{{0, 0}, {1, 1}, {12, 11}, {10, 11}, {16, 11}, {40, 33}, {24, 11}, {20, 11}, {32, 11},
	{80, 33}, {18, 11}, {15, 11}, {64, 33}, {160, 99}, {4, 3}, {3, 2}, {2, 1}}

// AVCCropUnits returns CropUnitX, CropUnitY (7-19 .. 7-22).
func AVCCropUnits(s *avc.SPS) (uint, uint) {
	chromaArrayType := s.ChromaFormatIDC
	if !AVCHighProfileFields(s.Profile) {
		chromaArrayType = 1 // chroma_format_idc inferred to be 1
	} else if s.SeparateColourPlaneFlag {
		chromaArrayType = 0
	}
	fmo := uint(0)
	if s.FrameMbsOnlyFlag {
		fmo = 1
	}
	if chromaArrayType == 0 {
		return 1, 2 - fmo
	}
	subW, subH := uint(1), uint(1) // 4:4:4
	switch chromaArrayType {
	case 1:
		subW, subH = 2, 2
	case 2:
		subW, subH = 2, 1
	}
	return subW, subH * (2 - fmo)
}

// AVCDisplaySize returns the cropped luma width and height of the frame (7-13, 7-16, 7-18 and the
// frame cropping rectangle of 7.4.2.1.1).
func AVCDisplaySize(t *AVCSPSTree) (uint, uint) {
	s := &t.S
	width := (t.PicWidthInMbsMinus1 + 1) * 16
	fmo := uint(0)
	if s.FrameMbsOnlyFlag {
		fmo = 1
	}
	height := (2 - fmo) * (t.PicHeightInMapUnitsMinus1 + 1) * 16
	if s.FrameCroppingFlag {
		cx, cy := AVCCropUnits(s)
		width -= cx * (s.FrameCropLeftOffset + s.FrameCropRightOffset)
		height -= cy * (s.FrameCropTopOffset + s.FrameCropBottomOffset)
	}
	return width, height
}
