// Package tablemodel is the naive reference for the sample tables of ISO/IEC 14496-12 (stts, ctts,
// stsc, stsz, stco/co64, stss, sdtp): plain table entries in, per-sample and per-chunk arrays out,
// computed with obviously-correct O(N) loops. It does not import the library under test.
//
// Conventions: sample numbers and chunk numbers are 1-based as in the standard; every per-sample
// slice of Expanded has length N+1 and element 0 is unused, every per-chunk slice has length C+1.
package tablemodel

import "fmt"

// SttsEntry is one (sample_count, sample_delta) pair of stts.
type SttsEntry struct {
	Count uint32 `json:"count"`
	Delta uint32 `json:"delta"`
}

// CttsEntry is one (sample_count, sample_offset) pair of ctts. For version 0 the 32 bits of the
// unsigned sample_offset are kept in the int32 (values >= 2^31 are not representable as a cto and do
// not occur in practice); for version 1 it is the signed value.
type CttsEntry struct {
	Count  uint32 `json:"count"`
	Offset int32  `json:"offset"`
}

// StscEntry is one (first_chunk, samples_per_chunk, sample_description_index) triple of stsc.
type StscEntry struct {
	FirstChunk      uint32 `json:"first_chunk"`
	SamplesPerChunk uint32 `json:"samples_per_chunk"`
	DescIdx         uint32 `json:"desc_idx"`
}

// Tables holds the raw entries of the sample tables of one track.
type Tables struct {
	Stts         []SttsEntry `json:"stts"`
	CttsVersion  int         `json:"ctts_version"` // -1 = no ctts box
	Ctts         []CttsEntry `json:"ctts,omitempty"`
	Stsc         []StscEntry `json:"stsc"`
	UniformSize  uint32      `json:"uniform_size"` // stsz sample_size (0 = per-sample sizes)
	SampleCount  uint32      `json:"sample_count"` // stsz sample_count
	Sizes        []uint32    `json:"sizes,omitempty"`
	ChunkOffsets []uint64    `json:"chunk_offsets"`
	Co64         bool        `json:"co64"`
	HasStss      bool        `json:"has_stss"`
	Stss         []uint32    `json:"stss,omitempty"`
	HasSdtp      bool        `json:"has_sdtp"`
	Sdtp         []byte      `json:"sdtp,omitempty"`
}

// ChunkInfo describes one chunk.
type ChunkInfo struct {
	Nr          uint32 // 1-based chunk number
	FirstSample uint32 // 1-based number of the first sample of the chunk
	NrSamples   uint32
	Offset      uint64 // file offset of the chunk (stco/co64 value)
	Size        uint64 // sum of the sizes of its samples
	DescIdx     uint32 // sample_description_index
	StscEntry   uint32 // 0-based index of the stsc entry the chunk belongs to
}

// Expanded is the per-sample / per-chunk view of Tables. Index 0 of every slice is unused.
type Expanded struct {
	N            int
	DecodeTime   []uint64
	Dur          []uint32
	Cto          []int32
	Size         []uint32
	Sync         []bool
	Sdtp         []byte
	Chunk        []uint32 // chunk number of the sample
	IndexInChunk []uint32 // 0-based position inside its chunk
	Offset       []uint64 // file offset of the sample
	DescIdx      []uint32
	StscEntry    []uint32 // 0-based index of the stsc entry the sample belongs to
	Chunks       []ChunkInfo
	TotalDur     uint64 // sum of all durations
}

// NrChunks returns the number of chunks.
func (x *Expanded) NrChunks() int { return len(x.Chunks) - 1 }

// Expand computes the per-sample arrays. It fails if the tables are not mutually consistent
// (different sample counts, chunks that do not cover exactly all samples, sync numbers out of
// range or not increasing, ...).
func (t *Tables) Expand() (*Expanded, error) {
	n := int(t.SampleCount)
	if t.UniformSize == 0 && len(t.Sizes) != n {
		return nil, fmt.Errorf("stsz: sample_count %d but %d sizes", n, len(t.Sizes))
	}
	x := &Expanded{
		N:          n,
		DecodeTime: make([]uint64, n+1), Dur: make([]uint32, n+1), Cto: make([]int32, n+1),
		Size: make([]uint32, n+1), Sync: make([]bool, n+1), Sdtp: make([]byte, n+1),
		Chunk: make([]uint32, n+1), IndexInChunk: make([]uint32, n+1), Offset: make([]uint64, n+1),
		DescIdx: make([]uint32, n+1), StscEntry: make([]uint32, n+1),
	}
	// stts: one sample after the other
	nr := 0
	var time uint64
	for _, e := range t.Stts {
		for k := uint32(0); k < e.Count; k++ {
			nr++
			if nr > n {
				return nil, fmt.Errorf("stts: covers more than %d samples", n)
			}
			x.DecodeTime[nr] = time
			x.Dur[nr] = e.Delta
			time += uint64(e.Delta)
		}
	}
	if nr != n {
		return nil, fmt.Errorf("stts: covers %d samples, stsz has %d", nr, n)
	}
	x.TotalDur = time
	// ctts
	if t.CttsVersion >= 0 {
		nr = 0
		for _, e := range t.Ctts {
			for k := uint32(0); k < e.Count; k++ {
				nr++
				if nr > n {
					return nil, fmt.Errorf("ctts: covers more than %d samples", n)
				}
				x.Cto[nr] = e.Offset
			}
		}
		if nr != n {
			return nil, fmt.Errorf("ctts: covers %d samples, stsz has %d", nr, n)
		}
	} else if len(t.Ctts) != 0 {
		return nil, fmt.Errorf("ctts: entries but version -1 (absent)")
	}
	// stsz
	for i := 1; i <= n; i++ {
		if t.UniformSize != 0 {
			x.Size[i] = t.UniformSize
		} else {
			x.Size[i] = t.Sizes[i-1]
		}
	}
	// stss
	if !t.HasStss {
		for i := 1; i <= n; i++ {
			x.Sync[i] = true
		}
	} else {
		prev := uint32(0)
		for _, s := range t.Stss {
			if s <= prev || int(s) > n {
				return nil, fmt.Errorf("stss: sample number %d after %d (N=%d)", s, prev, n)
			}
			x.Sync[s] = true
			prev = s
		}
	}
	// sdtp
	if t.HasSdtp {
		if len(t.Sdtp) != n {
			return nil, fmt.Errorf("sdtp: %d entries, stsz has %d", len(t.Sdtp), n)
		}
		for i := 1; i <= n; i++ {
			x.Sdtp[i] = t.Sdtp[i-1]
		}
	}
	// stsc + stco/co64: chunk after chunk
	nc := len(t.ChunkOffsets)
	x.Chunks = make([]ChunkInfo, nc+1)
	for i, e := range t.Stsc {
		if (i == 0 && e.FirstChunk != 1) || (i > 0 && e.FirstChunk <= t.Stsc[i-1].FirstChunk) {
			return nil, fmt.Errorf("stsc: first_chunk of entry %d is %d", i, e.FirstChunk)
		}
	}
	if nc > 0 && len(t.Stsc) == 0 {
		return nil, fmt.Errorf("stsc: no entries but %d chunks", nc)
	}
	nr = 0
	ei := 0
	for c := 1; c <= nc; c++ {
		for ei+1 < len(t.Stsc) && uint32(c) >= t.Stsc[ei+1].FirstChunk {
			ei++
		}
		e := t.Stsc[ei]
		ci := ChunkInfo{Nr: uint32(c), FirstSample: uint32(nr + 1), NrSamples: e.SamplesPerChunk,
			Offset: t.ChunkOffsets[c-1], DescIdx: e.DescIdx, StscEntry: uint32(ei)}
		off := ci.Offset
		for k := uint32(0); k < e.SamplesPerChunk; k++ {
			nr++
			if nr > n {
				return nil, fmt.Errorf("stsc: chunk %d goes beyond sample %d", c, n)
			}
			x.Chunk[nr] = uint32(c)
			x.IndexInChunk[nr] = k
			x.Offset[nr] = off
			x.DescIdx[nr] = e.DescIdx
			x.StscEntry[nr] = uint32(ei)
			off += uint64(x.Size[nr])
		}
		ci.Size = off - ci.Offset
		x.Chunks[c] = ci
	}
	if nr != n {
		return nil, fmt.Errorf("stsc/stco: %d chunks hold %d samples, stsz has %d", nc, nr, n)
	}
	if ei != len(t.Stsc)-1 && len(t.Stsc) > 0 {
		return nil, fmt.Errorf("stsc: entry %d starts at chunk %d but there are %d chunks", ei+1, t.Stsc[ei+1].FirstChunk, nc)
	}
	return x, nil
}

// SampleNrAtTime returns the first sample (1-based) whose decode time is >= t, or 0 if none.
func (x *Expanded) SampleNrAtTime(t uint64) uint32 {
	for i := 1; i <= x.N; i++ {
		if x.DecodeTime[i] >= t {
			return uint32(i)
		}
	}
	return 0
}

// TotalSize returns the sum of the sizes of samples a..b (inclusive, 1-based).
func (x *Expanded) TotalSize(a, b uint32) uint64 {
	var s uint64
	for i := a; i <= b; i++ {
		s += uint64(x.Size[i])
	}
	return s
}

// ByteRange is a contiguous range of file bytes.
type ByteRange struct{ Offset, Size uint64 }

// Ranges returns the file byte ranges of samples a..b in sample order, adjacent ranges merged and
// empty samples skipped.
func (x *Expanded) Ranges(a, b uint32) []ByteRange {
	var out []ByteRange
	for i := a; i <= b; i++ {
		out = AppendRange(out, ByteRange{x.Offset[i], uint64(x.Size[i])})
	}
	return out
}

// AppendRange appends r to a normalised range list (empty ranges dropped, a range that starts where
// the previous one ends is merged into it).
func AppendRange(list []ByteRange, r ByteRange) []ByteRange {
	if r.Size == 0 {
		return list
	}
	if k := len(list) - 1; k >= 0 && list[k].Offset+list[k].Size == r.Offset {
		list[k].Size += r.Size
		return list
	}
	return append(list, r)
}
