package tablemodel

import (
	"encoding/binary"
	"fmt"
)

// RawBox is one box found by the byte-level walker.
type RawBox struct {
	Type    string
	Start   uint64 // offset of the size field
	HdrLen  uint64 // 8, 16 (largesize), +16 for uuid
	Size    uint64 // total size including the header
	Payload []byte // bytes after the header (aliases the input)
}

// WalkBoxes splits data (the inside of a container, or a whole file) into boxes. base is the file
// offset of data[0]. Only ISO/IEC 14496-12 §4.2 is implemented: 32-bit size, 64-bit largesize when
// size==1, size 0 = box extends to the end of data.
func WalkBoxes(data []byte, base uint64) ([]RawBox, error) {
	var out []RawBox
	pos := uint64(0)
	n := uint64(len(data))
	for pos < n {
		if n-pos < 8 {
			return out, fmt.Errorf("box header truncated at offset %d", base+pos)
		}
		size := uint64(binary.BigEndian.Uint32(data[pos:]))
		typ := string(data[pos+4 : pos+8])
		hdr := uint64(8)
		switch size {
		case 1:
			if n-pos < 16 {
				return out, fmt.Errorf("largesize truncated at offset %d", base+pos)
			}
			size = binary.BigEndian.Uint64(data[pos+8:])
			hdr = 16
		case 0:
			size = n - pos
		}
		if typ == "uuid" {
			hdr += 16
		}
		if size < hdr || size > n-pos {
			return out, fmt.Errorf("box %q at offset %d: size %d does not fit (header %d, available %d)", typ, base+pos, size, hdr, n-pos)
		}
		out = append(out, RawBox{Type: typ, Start: base + pos, HdrLen: hdr, Size: size, Payload: data[pos+hdr : pos+size]})
		pos += size
	}
	return out, nil
}

// Children walks the payload of a plain container box.
func (b RawBox) Children() ([]RawBox, error) { return WalkBoxes(b.Payload, b.Start+b.HdrLen) }

// Raw returns the complete box bytes (header and payload) out of the file it was found in.
func (b RawBox) Raw(file []byte) []byte { return file[b.Start : b.Start+b.Size] }

func find(list []RawBox, typ string) *RawBox {
	for i := range list {
		if list[i].Type == typ {
			return &list[i]
		}
	}
	return nil
}

// ElstEntry is one edit-list entry.
type ElstEntry struct {
	SegmentDuration   uint64 `json:"segment_duration"`
	MediaTime         int64  `json:"media_time"`
	MediaRateInteger  int16  `json:"media_rate_integer"`
	MediaRateFraction int16  `json:"media_rate_fraction"`
}

// Track is what the byte-level parser extracts for one trak.
type Track struct {
	ID            uint32
	TkhdDuration  uint64
	TkhdFlags     uint32
	Width, Height uint32 // 16.16 fixed point as stored in tkhd
	Timescale     uint32 // mdhd
	MdhdDuration  uint64
	Handler       string
	HasEdts       bool
	Elst          []ElstEntry
	StsdRaw       []byte // the complete stsd box
	Tables        Tables
	X             *Expanded // Tables.Expand()
}

// TopBox is a top-level box of the file.
type TopBox struct {
	Type        string
	Start, Size uint64
	HdrLen      uint64
}

// Movie is the result of ParseProgressive.
type Movie struct {
	Top              []TopBox
	Ftyp             []byte // complete ftyp box, nil if absent
	MovieTimescale   uint32
	MovieDuration    uint64
	NextTrackID      uint32
	Tracks           []*Track
	MdatStart        uint64 // start of the first non-empty mdat box (header); of the first one if all are empty
	MdatPayloadStart uint64
	MdatPayloadSize  uint64
	NrMdat           int
}

type rd struct {
	b   []byte
	pos int
	err error
}

func (r *rd) need(n int) bool {
	if r.err != nil {
		return false
	}
	if len(r.b)-r.pos < n {
		r.err = fmt.Errorf("payload too short: need %d bytes at %d, have %d", n, r.pos, len(r.b))
		return false
	}
	return true
}
func (r *rd) u8() byte {
	if !r.need(1) {
		return 0
	}
	v := r.b[r.pos]
	r.pos++
	return v
}
func (r *rd) u16() uint16 {
	if !r.need(2) {
		return 0
	}
	v := binary.BigEndian.Uint16(r.b[r.pos:])
	r.pos += 2
	return v
}
func (r *rd) u32() uint32 {
	if !r.need(4) {
		return 0
	}
	v := binary.BigEndian.Uint32(r.b[r.pos:])
	r.pos += 4
	return v
}
func (r *rd) u64() uint64 {
	if !r.need(8) {
		return 0
	}
	v := binary.BigEndian.Uint64(r.b[r.pos:])
	r.pos += 8
	return v
}
func (r *rd) skip(n int) {
	if r.need(n) {
		r.pos += n
	}
}
func (r *rd) left() int { return len(r.b) - r.pos }

// verTime reads the version/flags word and then skips creation and modification time.
func (r *rd) fullHeader() (version byte, flags uint32) {
	vf := r.u32()
	return byte(vf >> 24), vf & 0xffffff
}

// ParseProgressive reads a progressive (non-fragmented) MP4 file from raw bytes without the library:
// top-level boxes, moov/mvhd, and for every trak the header fields and all sample-table entries,
// which are also expanded (Track.X). The file must contain exactly one moov.
func ParseProgressive(file []byte) (*Movie, error) {
	top, err := WalkBoxes(file, 0)
	if err != nil {
		return nil, err
	}
	m := &Movie{}
	var moov *RawBox
	for i := range top {
		b := &top[i]
		m.Top = append(m.Top, TopBox{b.Type, b.Start, b.Size, b.HdrLen})
		switch b.Type {
		case "ftyp":
			if m.Ftyp == nil {
				m.Ftyp = b.Raw(file)
			}
		case "moov":
			if moov != nil {
				return nil, fmt.Errorf("more than one moov")
			}
			moov = b
		case "mdat":
			// the media data box is the first non-empty one (empty extra mdat boxes are legal); NrMdat counts all
			if m.MdatPayloadSize == 0 {
				m.MdatStart, m.MdatPayloadStart, m.MdatPayloadSize = b.Start, b.Start+b.HdrLen, b.Size-b.HdrLen
			}
			m.NrMdat++
		case "moof":
			return nil, fmt.Errorf("file is fragmented (moof at %d)", b.Start)
		}
	}
	if moov == nil {
		return nil, fmt.Errorf("no moov")
	}
	kids, err := moov.Children()
	if err != nil {
		return nil, fmt.Errorf("moov: %w", err)
	}
	mvhd := find(kids, "mvhd")
	if mvhd == nil {
		return nil, fmt.Errorf("no mvhd")
	}
	r := &rd{b: mvhd.Payload}
	if v, _ := r.fullHeader(); v == 1 {
		r.skip(16)
		m.MovieTimescale = r.u32()
		m.MovieDuration = r.u64()
	} else {
		r.skip(8)
		m.MovieTimescale = r.u32()
		m.MovieDuration = uint64(r.u32())
	}
	r.skip(4 + 2 + 2 + 8 + 36 + 24) // rate, volume, reserved, matrix, pre_defined
	m.NextTrackID = r.u32()
	if r.err != nil {
		return nil, fmt.Errorf("mvhd: %w", r.err)
	}
	for i := range kids {
		if kids[i].Type != "trak" {
			continue
		}
		t, err := parseTrak(file, &kids[i])
		if err != nil {
			return nil, fmt.Errorf("trak #%d: %w", len(m.Tracks)+1, err)
		}
		m.Tracks = append(m.Tracks, t)
	}
	return m, nil
}

func parseTrak(file []byte, trak *RawBox) (*Track, error) {
	t := &Track{}
	kids, err := trak.Children()
	if err != nil {
		return nil, err
	}
	tkhd := find(kids, "tkhd")
	if tkhd == nil {
		return nil, fmt.Errorf("no tkhd")
	}
	r := &rd{b: tkhd.Payload}
	v, fl := r.fullHeader()
	t.TkhdFlags = fl
	if v == 1 {
		r.skip(16)
		t.ID = r.u32()
		r.skip(4)
		t.TkhdDuration = r.u64()
	} else {
		r.skip(8)
		t.ID = r.u32()
		r.skip(4)
		t.TkhdDuration = uint64(r.u32())
	}
	r.skip(8 + 2 + 2 + 2 + 2 + 36) // reserved, layer, alternate_group, volume, reserved, matrix
	t.Width = r.u32()
	t.Height = r.u32()
	if r.err != nil {
		return nil, fmt.Errorf("tkhd: %w", r.err)
	}
	if edts := find(kids, "edts"); edts != nil {
		t.HasEdts = true
		ek, err := edts.Children()
		if err != nil {
			return nil, fmt.Errorf("edts: %w", err)
		}
		if elst := find(ek, "elst"); elst != nil {
			r := &rd{b: elst.Payload}
			v, _ := r.fullHeader()
			cnt := r.u32()
			for i := uint32(0); i < cnt && r.err == nil; i++ {
				var e ElstEntry
				if v == 1 {
					e.SegmentDuration = r.u64()
					e.MediaTime = int64(r.u64())
				} else {
					e.SegmentDuration = uint64(r.u32())
					e.MediaTime = int64(int32(r.u32()))
				}
				e.MediaRateInteger = int16(r.u16())
				e.MediaRateFraction = int16(r.u16())
				t.Elst = append(t.Elst, e)
			}
			if r.err != nil || r.left() != 0 {
				return nil, fmt.Errorf("elst: bad length (%v, %d bytes left)", r.err, r.left())
			}
		}
	}
	mdia := find(kids, "mdia")
	if mdia == nil {
		return nil, fmt.Errorf("no mdia")
	}
	mk, err := mdia.Children()
	if err != nil {
		return nil, fmt.Errorf("mdia: %w", err)
	}
	mdhd := find(mk, "mdhd")
	if mdhd == nil {
		return nil, fmt.Errorf("no mdhd")
	}
	r = &rd{b: mdhd.Payload}
	if v, _ := r.fullHeader(); v == 1 {
		r.skip(16)
		t.Timescale = r.u32()
		t.MdhdDuration = r.u64()
	} else {
		r.skip(8)
		t.Timescale = r.u32()
		t.MdhdDuration = uint64(r.u32())
	}
	if r.err != nil {
		return nil, fmt.Errorf("mdhd: %w", r.err)
	}
	if hdlr := find(mk, "hdlr"); hdlr != nil {
		r := &rd{b: hdlr.Payload}
		r.skip(8)
		if r.need(4) {
			t.Handler = string(r.b[r.pos : r.pos+4])
		}
		if r.err != nil {
			return nil, fmt.Errorf("hdlr: %w", r.err)
		}
	}
	minf := find(mk, "minf")
	if minf == nil {
		return nil, fmt.Errorf("no minf")
	}
	ik, err := minf.Children()
	if err != nil {
		return nil, fmt.Errorf("minf: %w", err)
	}
	stbl := find(ik, "stbl")
	if stbl == nil {
		return nil, fmt.Errorf("no stbl")
	}
	sk, err := stbl.Children()
	if err != nil {
		return nil, fmt.Errorf("stbl: %w", err)
	}
	if stsd := find(sk, "stsd"); stsd != nil {
		t.StsdRaw = append([]byte{}, stsd.Raw(file)...)
	}
	tb, err := ParseTables(sk)
	if err != nil {
		return nil, err
	}
	t.Tables = *tb
	t.X, err = tb.Expand()
	if err != nil {
		return nil, fmt.Errorf("track %d: %w", t.ID, err)
	}
	return t, nil
}

// ParseTables extracts the table entries from the children of an stbl box.
func ParseTables(stblChildren []RawBox) (*Tables, error) {
	tb := &Tables{CttsVersion: -1}
	seen := map[string]bool{}
	for _, b := range stblChildren {
		switch b.Type {
		case "stts", "ctts", "stsc", "stsz", "stco", "co64", "stss", "sdtp":
			if seen[b.Type] {
				return nil, fmt.Errorf("two %s boxes", b.Type)
			}
			seen[b.Type] = true
		default:
			continue
		}
		r := &rd{b: b.Payload}
		v, _ := r.fullHeader()
		switch b.Type {
		case "stts":
			cnt := r.u32()
			for i := uint32(0); i < cnt && r.err == nil; i++ {
				tb.Stts = append(tb.Stts, SttsEntry{r.u32(), r.u32()})
			}
		case "ctts":
			tb.CttsVersion = int(v)
			cnt := r.u32()
			for i := uint32(0); i < cnt && r.err == nil; i++ {
				tb.Ctts = append(tb.Ctts, CttsEntry{r.u32(), int32(r.u32())})
			}
		case "stsc":
			cnt := r.u32()
			for i := uint32(0); i < cnt && r.err == nil; i++ {
				tb.Stsc = append(tb.Stsc, StscEntry{r.u32(), r.u32(), r.u32()})
			}
		case "stsz":
			tb.UniformSize = r.u32()
			tb.SampleCount = r.u32()
			if tb.UniformSize == 0 {
				for i := uint32(0); i < tb.SampleCount && r.err == nil; i++ {
					tb.Sizes = append(tb.Sizes, r.u32())
				}
			}
		case "stco":
			cnt := r.u32()
			tb.ChunkOffsets = []uint64{}
			for i := uint32(0); i < cnt && r.err == nil; i++ {
				tb.ChunkOffsets = append(tb.ChunkOffsets, uint64(r.u32()))
			}
		case "co64":
			tb.Co64 = true
			cnt := r.u32()
			tb.ChunkOffsets = []uint64{}
			for i := uint32(0); i < cnt && r.err == nil; i++ {
				tb.ChunkOffsets = append(tb.ChunkOffsets, r.u64())
			}
		case "stss":
			tb.HasStss = true
			cnt := r.u32()
			for i := uint32(0); i < cnt && r.err == nil; i++ {
				tb.Stss = append(tb.Stss, r.u32())
			}
		case "sdtp":
			tb.HasSdtp = true
			tb.Sdtp = append([]byte{}, r.b[r.pos:]...)
			r.pos = len(r.b)
		}
		if r.err != nil || r.left() != 0 {
			return nil, fmt.Errorf("%s: bad length (%v, %d bytes left)", b.Type, r.err, r.left())
		}
	}
	for _, need := range []string{"stts", "stsc", "stsz"} {
		if !seen[need] {
			return nil, fmt.Errorf("no %s", need)
		}
	}
	if seen["stco"] && seen["co64"] {
		return nil, fmt.Errorf("both stco and co64")
	}
	if !seen["stco"] && !seen["co64"] {
		return nil, fmt.Errorf("neither stco nor co64")
	}
	return tb, nil
}

// SampleBytes returns the bytes of sample sampleNr (1-based) of track number track (0-based index
// into m.Tracks) as located by the tables, or nil if the range is outside the file.
func (m *Movie) SampleBytes(file []byte, track int, sampleNr int) []byte {
	if track < 0 || track >= len(m.Tracks) {
		return nil
	}
	x := m.Tracks[track].X
	if sampleNr < 1 || sampleNr > x.N {
		return nil
	}
	off, sz := x.Offset[sampleNr], uint64(x.Size[sampleNr])
	if off > uint64(len(file)) || sz > uint64(len(file))-off {
		return nil
	}
	return file[off : off+sz]
}

// TrackByID returns the index of the track with the given id, or -1.
func (m *Movie) TrackByID(id uint32) int {
	for i, t := range m.Tracks {
		if t.ID == id {
			return i
		}
	}
	return -1
}
