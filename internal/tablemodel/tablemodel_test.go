package tablemodel

import (
	"reflect"
	"testing"
)

// A hand-computed example (worked out on paper from ISO/IEC 14496-12 8.6.1.2, 8.6.1.3, 8.7.4):
// 7 samples; stts (3,10)(4,20); ctts v1 (2,-5)(5,7); stsc (1,2,1)(3,3,2); 3 chunks at 1000, 500, 2000;
// sizes 1..7; sync 1 and 4.
func TestExpandHandExample(t *testing.T) {
	tb := Tables{
		Stts:        []SttsEntry{{3, 10}, {4, 20}},
		CttsVersion: 1, Ctts: []CttsEntry{{2, -5}, {5, 7}},
		Stsc:        []StscEntry{{1, 2, 1}, {3, 3, 2}},
		SampleCount: 7, Sizes: []uint32{1, 2, 3, 4, 5, 6, 7},
		ChunkOffsets: []uint64{1000, 500, 2000},
		HasStss:      true, Stss: []uint32{1, 4},
	}
	x, err := tb.Expand()
	if err != nil {
		t.Fatal(err)
	}
	want := &Expanded{
		N:            7,
		DecodeTime:   []uint64{0, 0, 10, 20, 30, 50, 70, 90},
		Dur:          []uint32{0, 10, 10, 10, 20, 20, 20, 20},
		Cto:          []int32{0, -5, -5, 7, 7, 7, 7, 7},
		Size:         []uint32{0, 1, 2, 3, 4, 5, 6, 7},
		Sync:         []bool{false, true, false, false, true, false, false, false},
		Sdtp:         []byte{0, 0, 0, 0, 0, 0, 0, 0},
		Chunk:        []uint32{0, 1, 1, 2, 2, 3, 3, 3},
		IndexInChunk: []uint32{0, 0, 1, 0, 1, 0, 1, 2},
		Offset:       []uint64{0, 1000, 1001, 500, 503, 2000, 2005, 2011},
		DescIdx:      []uint32{0, 1, 1, 1, 1, 2, 2, 2},
		StscEntry:    []uint32{0, 0, 0, 0, 0, 1, 1, 1},
		Chunks: []ChunkInfo{{},
			{Nr: 1, FirstSample: 1, NrSamples: 2, Offset: 1000, Size: 3, DescIdx: 1, StscEntry: 0},
			{Nr: 2, FirstSample: 3, NrSamples: 2, Offset: 500, Size: 7, DescIdx: 1, StscEntry: 0},
			{Nr: 3, FirstSample: 5, NrSamples: 3, Offset: 2000, Size: 18, DescIdx: 2, StscEntry: 1}},
		TotalDur: 110,
	}
	if !reflect.DeepEqual(x, want) {
		t.Fatalf("got  %+v\nwant %+v", x, want)
	}
	if got := x.SampleNrAtTime(11); got != 3 {
		t.Errorf("SampleNrAtTime(11) = %d", got)
	}
	if got := x.SampleNrAtTime(91); got != 0 {
		t.Errorf("SampleNrAtTime(91) = %d", got)
	}
	if got := x.Ranges(2, 5); !reflect.DeepEqual(got, []ByteRange{{1001, 2}, {500, 7}, {2000, 5}}) {
		t.Errorf("Ranges(2,5) = %v", got)
	}
	if got := x.TotalSize(3, 6); got != 18 {
		t.Errorf("TotalSize(3,6) = %d", got)
	}
}

func TestExpandRejects(t *testing.T) {
	base := func() Tables {
		return Tables{Stts: []SttsEntry{{2, 1}}, CttsVersion: -1, Stsc: []StscEntry{{1, 2, 1}}, SampleCount: 2,
			Sizes: []uint32{1, 1}, ChunkOffsets: []uint64{0}}
	}
	if _, err := (&Tables{CttsVersion: -1}).Expand(); err != nil {
		t.Errorf("empty tables: %v", err)
	}
	b := base()
	if _, err := b.Expand(); err != nil {
		t.Fatal(err)
	}
	muts := []func(*Tables){
		func(t *Tables) { t.Stts[0].Count = 3 },
		func(t *Tables) { t.Stts[0].Count = 1 },
		func(t *Tables) { t.Stsc[0].SamplesPerChunk = 1 },
		func(t *Tables) { t.Stsc[0].SamplesPerChunk = 3 },
		func(t *Tables) { t.ChunkOffsets = append(t.ChunkOffsets, 9) },
		func(t *Tables) { t.Stsc[0].FirstChunk = 2 },
		func(t *Tables) { t.Stsc = append(t.Stsc, StscEntry{3, 1, 1}) },
		func(t *Tables) { t.Sizes = t.Sizes[:1] },
		func(t *Tables) { t.HasStss = true; t.Stss = []uint32{3} },
		func(t *Tables) { t.HasStss = true; t.Stss = []uint32{2, 1} },
		func(t *Tables) { t.HasSdtp = true; t.Sdtp = []byte{1} },
		func(t *Tables) { t.CttsVersion = 0; t.Ctts = []CttsEntry{{1, 0}} },
	}
	for i, m := range muts {
		b := base()
		m(&b)
		if _, err := b.Expand(); err == nil {
			t.Errorf("inconsistent tables %d accepted", i)
		}
	}
}
