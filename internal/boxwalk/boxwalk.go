// Package boxwalk is an independent byte-level ISOBMFF walker (ISO/IEC 14496-12 section 4.2): 32-bit size,
// 4cc, optional 64-bit largesize, uuid usertype; it descends into a fixed set of container types.
// It does not import mp4ff.
package boxwalk

import (
	"encoding/binary"
	"fmt"
	"os"
	"path/filepath"
	"sort"
	"strings"
)

type Box struct {
	Type     string
	Start    int // offset of the box in the walked buffer
	Size     int // total size incl. header
	HdrSize  int // 8, 16 (largesize), +16 for uuid
	Large    bool
	ToEnd    bool // size field was 0 (box extends to the end)
	Children []*Box
	Skip     int // bytes between the header and the first child (fullbox header, entry counts, sample entry prefix)
	Depth    int
}

func (b *Box) End() int          { return b.Start + b.Size }
func (b *Box) PayloadStart() int { return b.Start + b.HdrSize }

// plain containers: children start right after the header
var containers = map[string]int{
	"moov": 0, "trak": 0, "mdia": 0, "minf": 0, "dinf": 0, "stbl": 0, "edts": 0, "mvex": 0, "moof": 0, "traf": 0,
	"mfra": 0, "udta": 0, "sinf": 0, "schi": 0, "tref": 0, "ilst": 0, "meco": 0, "strk": 0, "strd": 0, "ludt": 0,
	// with a prefix before the children
	"meta": 4, "stsd": 8, "dref": 8,
	"avc1": 78, "avc3": 78, "hvc1": 78, "hev1": 78, "encv": 78, "av01": 78, "vvc1": 78, "vvi1": 78, "vp08": 78, "vp09": 78, "avs3": 78,
	"mp4a": 28, "enca": 28, "ac-3": 28, "ec-3": 28, "ac-4": 28, "Opus": 28, "mha1": 28, "mhm1": 28,
	"wvtt": 8, "stpp": -1, "evte": 8,
	"\xa9too": 0, "\xa9nam": 0, "\xa9ART": 0, "\xa9cpy": 0, "desc": 0, "vttc": 0,
}

// IsContainer reports whether the walker descends into boxes of this type.
func IsContainer(t string) bool { _, ok := containers[t]; return ok }

// Walk parses the sequence of boxes in data[start:end]. Errors describe the first inconsistency; the boxes
// parsed so far are returned as well.
func Walk(data []byte, start, end, depth int) ([]*Box, error) {
	var out []*Box
	pos := start
	for pos < end {
		if end-pos < 8 {
			return out, fmt.Errorf("%d trailing bytes at %d", end-pos, pos)
		}
		size := int(binary.BigEndian.Uint32(data[pos:]))
		b := &Box{Type: string(data[pos+4 : pos+8]), Start: pos, HdrSize: 8, Depth: depth}
		switch size {
		case 1:
			if end-pos < 16 {
				return out, fmt.Errorf("box %s at %d: truncated largesize", b.Type, pos)
			}
			ls := binary.BigEndian.Uint64(data[pos+8:])
			if ls > uint64(end-pos) || ls < 16 {
				return out, fmt.Errorf("box %s at %d: largesize %d outside parent (%d left)", b.Type, pos, ls, end-pos)
			}
			size = int(ls)
			b.HdrSize = 16
			b.Large = true
		case 0:
			size = end - pos
			b.ToEnd = true
		}
		if size < b.HdrSize || size > end-pos {
			return out, fmt.Errorf("box %s at %d: size %d outside parent (%d left)", b.Type, pos, size, end-pos)
		}
		b.Size = size
		if b.Type == "uuid" {
			if size < b.HdrSize+16 {
				return out, fmt.Errorf("uuid box at %d too short", pos)
			}
			b.HdrSize += 16
		}
		if skip, ok := containers[b.Type]; ok {
			if skip < 0 { // stpp: 8 bytes + three zero-terminated strings
				p := b.PayloadStart() + 8
				for i := 0; i < 3 && p < b.End(); i++ {
					for p < b.End() && data[p] != 0 {
						p++
					}
					p++
				}
				skip = p - b.PayloadStart()
			}
			if b.Type == "meta" && b.PayloadStart()+8 <= b.End() && string(data[b.PayloadStart()+4:b.PayloadStart()+8]) == "hdlr" {
				skip = 0 // QuickTime style meta: no version/flags, the first child (hdlr) follows the header
			}
			if b.PayloadStart()+skip <= b.End() {
				b.Skip = skip
				kids, err := Walk(data, b.PayloadStart()+skip, b.End(), depth+1)
				b.Children = kids
				if err != nil {
					out = append(out, b)
					if depth >= 16 {
						return out, err // no further wrapping: the message would grow quadratically with the nesting depth
					}
					return out, fmt.Errorf("in %s at %d: %w", b.Type, pos, err)
				}
			}
		}
		out = append(out, b)
		pos += size
	}
	return out, nil
}

// WalkAll walks a whole buffer.
func WalkAll(data []byte) ([]*Box, error) { return Walk(data, 0, len(data), 0) }

// Flatten returns all boxes depth-first (parents before children).
func Flatten(boxes []*Box) []*Box {
	var out []*Box
	var rec func(bs []*Box)
	rec = func(bs []*Box) {
		for _, b := range bs {
			out = append(out, b)
			rec(b.Children)
		}
	}
	rec(boxes)
	return out
}

// Find returns all boxes of a type (depth-first).
func Find(boxes []*Box, typ string) []*Box {
	var out []*Box
	for _, b := range Flatten(boxes) {
		if b.Type == typ {
			out = append(out, b)
		}
	}
	return out
}

// Path returns the first box reached by following the given types from the top level.
func Path(boxes []*Box, types ...string) *Box {
	cur := boxes
	var found *Box
	for _, t := range types {
		found = nil
		for _, b := range cur {
			if b.Type == t {
				found = b
				break
			}
		}
		if found == nil {
			return nil
		}
		cur = found.Children
	}
	return found
}

// Header builds a box header for a payload of the given size.
func Header(typ string, payloadLen int, large bool) []byte {
	if large {
		h := make([]byte, 16)
		binary.BigEndian.PutUint32(h, 1)
		copy(h[4:], typ)
		binary.BigEndian.PutUint64(h[8:], uint64(payloadLen+16))
		return h
	}
	h := make([]byte, 8)
	binary.BigEndian.PutUint32(h, uint32(payloadLen+8))
	copy(h[4:], typ)
	return h
}

// Make builds a complete box.
func Make(typ string, payload []byte) []byte {
	return append(Header(typ, len(payload), false), payload...)
}

// ---------------------------------------------------------------------------------------------
// test data files of the repository

type File struct {
	Path string
	Data []byte
}

// MediaFiles loads every regular file below any testdata directory of the repository whose extension is in
// exts (lower case, with dot), smaller than maxSize, sorted by path.
func MediaFiles(repo string, exts []string, maxSize int64) []File {
	var out []File
	_ = filepath.Walk(repo, func(p string, info os.FileInfo, err error) error {
		if err != nil {
			return nil
		}
		if info.IsDir() {
			if info.Name() == ".git" {
				return filepath.SkipDir
			}
			return nil
		}
		if !strings.Contains(p, "/testdata/") || strings.Contains(p, "/fuzz/") || info.Size() > maxSize {
			return nil
		}
		ext := strings.ToLower(filepath.Ext(p))
		for _, e := range exts {
			if e == ext {
				if d, err := os.ReadFile(p); err == nil {
					out = append(out, File{Path: p, Data: d})
				}
			}
		}
		return nil
	})
	sort.Slice(out, func(i, j int) bool { return out[i].Path < out[j].Path })
	return out
}

var Mp4Exts = []string{".mp4", ".m4s", ".cmfv", ".cmfa", ".cmft", ".isma", ".ismv", ".ismt", ".dat", ".m4v", ".m4a", ".mov", ".bin"}
