// Package refcrypto is the harness' own implementation of the two Common Encryption (ISO/IEC 23001-7)
// sample ciphers, written directly on top of the AES block primitive:
//
//   - 'cenc': AES-128 in counter mode (NIST SP 800-38A 6.5). The counter block is the 16-byte IV; it is
//     incremented as ONE 128-bit big-endian integer (the standard incrementing function over the full
//     block, which is also what Go's crypto/cipher does). A sample has one continuous key stream that
//     runs over its protected ranges only (23001-7 10.1: the clear bytes do not consume key stream).
//   - 'cbcs': AES-128 CBC (SP 800-38A 6.2) with a crypt:skip block pattern (23001-7 10.4). Every
//     sub-sample's protected range restarts the chain at the (constant) IV; inside a range the chain
//     runs over the encrypted blocks only; a trailing partial block stays clear. crypt = skip = 0
//     means "no pattern": every full block of the range is encrypted.
//
// The package uses nothing but crypto/aes's Block (Encrypt / Decrypt of one 16-byte block). It does
// not use the modes of crypto/cipher and does not import mp4ff.
package refcrypto

import (
	"crypto/aes"
	"fmt"
)

// Range is one protected byte range of a sample: sample[Start : Start+Len].
type Range struct{ Start, Len int }

// SubSample is the (BytesOfClearData, BytesOfProtectedData) pair of a 'senc' entry.
type SubSample struct {
	Clear     uint16
	Protected uint32
}

// Whole is the range list of a sample that is protected as a whole (no sub-sample map).
func Whole(n int) []Range { return []Range{{0, n}} }

// RangesOf converts a sub-sample map into protected ranges (entries without protected bytes give no
// range). total is the sum of all clear and protected counts.
func RangesOf(subs []SubSample) (ranges []Range, total int) {
	pos := 0
	for _, s := range subs {
		pos += int(s.Clear)
		if s.Protected > 0 {
			ranges = append(ranges, Range{pos, int(s.Protected)})
		}
		pos += int(s.Protected)
	}
	return ranges, pos
}

// ProtectedBytes is the total length of the ranges.
func ProtectedBytes(ranges []Range) int {
	n := 0
	for _, r := range ranges {
		n += r.Len
	}
	return n
}

func checkRanges(n int, ranges []Range) {
	end := 0
	for _, r := range ranges {
		if r.Start < end || r.Len < 0 || r.Start+r.Len > n {
			panic(fmt.Sprintf("refcrypto: range %+v outside the sample (%d bytes) or not in order", r, n))
		}
		end = r.Start + r.Len
	}
}

// Inc128 adds one to the 16-byte big-endian integer in place (wrapping at 2^128).
func Inc128(ctr *[16]byte) {
	for i := 15; i >= 0; i-- {
		ctr[i]++
		if ctr[i] != 0 {
			return
		}
	}
}

// Add128 returns iv + n (mod 2^128) for a 16-byte big-endian iv.
func Add128(iv []byte, n uint64) [16]byte {
	var out [16]byte
	copy(out[:], iv)
	carry := n
	for i := 15; i >= 0 && carry != 0; i-- {
		s := uint64(out[i]) + carry&0xff
		out[i] = byte(s)
		carry = carry>>8 + s>>8
	}
	return out
}

// Sub128 returns a - b (mod 2^128) as (high 64 bits, low 64 bits).
func Sub128(a, b []byte) (hi, lo uint64) {
	var d [16]byte
	borrow := 0
	for i := 15; i >= 0; i-- {
		v := int(a[i]) - int(b[i]) - borrow
		borrow = 0
		if v < 0 {
			v += 256
			borrow = 1
		}
		d[i] = byte(v)
	}
	for i := 0; i < 8; i++ {
		hi = hi<<8 | uint64(d[i])
		lo = lo<<8 | uint64(d[8+i])
	}
	return
}

// CencCrypt returns a copy of sample whose protected ranges are XORed with the AES-CTR key stream
// that starts at counter block iv16. Encryption and decryption are the same operation.
func CencCrypt(key, iv16 []byte, sample []byte, ranges []Range) []byte {
	if len(iv16) != 16 {
		panic("refcrypto: CencCrypt needs a 16-byte counter block")
	}
	checkRanges(len(sample), ranges)
	blk, err := aes.NewCipher(key)
	if err != nil {
		panic(err)
	}
	out := append([]byte(nil), sample...)
	var ctr, ks [16]byte
	copy(ctr[:], iv16)
	used := 16 // bytes of ks consumed; 16 = none left
	for _, r := range ranges {
		for i := r.Start; i < r.Start+r.Len; i++ {
			if used == 16 {
				blk.Encrypt(ks[:], ctr[:])
				Inc128(&ctr)
				used = 0
			}
			out[i] ^= ks[used]
			used++
		}
	}
	return out
}

// CencBlocks is the number of counter blocks CencCrypt consumes for the ranges.
func CencBlocks(ranges []Range) uint64 { return uint64(ProtectedBytes(ranges)+15) / 16 }

// CbcsCrypt returns a copy of sample whose protected ranges are pattern-encrypted (or decrypted) with
// AES-CBC. iv may be 8 or 16 bytes (8 bytes are followed by eight zero bytes, 23001-7 9.1).
// Block k (counted from 0 at the start of a range) is processed when k mod (crypt+skip) < crypt;
// cryptBlocks = skipBlocks = 0 processes every full block.
func CbcsCrypt(key, iv []byte, sample []byte, ranges []Range, cryptBlocks, skipBlocks int, decrypt bool) []byte {
	if len(iv) != 8 && len(iv) != 16 {
		panic("refcrypto: CbcsCrypt needs an 8 or 16 byte IV")
	}
	if cryptBlocks < 0 || skipBlocks < 0 || (cryptBlocks == 0 && skipBlocks != 0) {
		panic("refcrypto: bad pattern")
	}
	checkRanges(len(sample), ranges)
	blk, err := aes.NewCipher(key)
	if err != nil {
		panic(err)
	}
	out := append([]byte(nil), sample...)
	period := cryptBlocks + skipBlocks
	for _, r := range ranges {
		var chain [16]byte
		copy(chain[:], iv) // restart at the IV for every sub-sample
		for k := 0; (k+1)*16 <= r.Len; k++ {
			if period != 0 && k%period >= cryptBlocks {
				continue
			}
			b := out[r.Start+k*16 : r.Start+k*16+16]
			if decrypt {
				var c [16]byte
				copy(c[:], b)
				blk.Decrypt(b, b)
				for j := range b {
					b[j] ^= chain[j]
				}
				chain = c
			} else {
				for j := range b {
					b[j] ^= chain[j]
				}
				blk.Encrypt(b, b)
				copy(chain[:], b)
			}
		}
	}
	return out
}
