package refcrypto

import (
	"bytes"
	"crypto/aes"
	"crypto/cipher"
	"encoding/hex"
	"testing"
)

func unhex(s string) []byte {
	b, err := hex.DecodeString(s)
	if err != nil {
		panic(err)
	}
	return b
}

var (
	nistKey   = unhex("2b7e151628aed2a6abf7158809cf4f3c")
	nistPlain = unhex("6bc1bee22e409f96e93d7e117393172a" + "ae2d8a571e03ac9c9eb76fac45af8e51" +
		"30c81c46a35ce411e5fbc1191a0a52ef" + "f69f2445df4f9b17ad2b417be66c3710")
)

// NIST SP 800-38A F.5.1 / F.5.2 (CTR-AES128)
func TestCTRKnownAnswer(t *testing.T) {
	ctr := unhex("f0f1f2f3f4f5f6f7f8f9fafbfcfdfeff")
	want := unhex("874d6191b620e3261bef6864990db6ce" + "9806f66b7970fdff8617187bb9fffdff" +
		"5ae4df3edbd5d35e5b4f09020db03eab" + "1e031dda2fbe03d1792170a0f3009cee")
	got := CencCrypt(nistKey, ctr, nistPlain, Whole(len(nistPlain)))
	if !bytes.Equal(got, want) {
		t.Fatalf("CTR encrypt: got %x want %x", got, want)
	}
	if back := CencCrypt(nistKey, ctr, got, Whole(len(got))); !bytes.Equal(back, nistPlain) {
		t.Fatalf("CTR decrypt: got %x", back)
	}
	// the key stream is continuous over the protected ranges only: clear gaps do not consume it
	sample := append(append(append([]byte("AAAAA"), nistPlain[:20]...), []byte("BBB")...), nistPlain[20:]...)
	rs := []Range{{5, 20}, {28, len(nistPlain) - 20}}
	enc := CencCrypt(nistKey, ctr, sample, rs)
	if !bytes.Equal(enc[:5], []byte("AAAAA")) || !bytes.Equal(enc[25:28], []byte("BBB")) {
		t.Fatalf("clear bytes changed")
	}
	if joined := append(append([]byte{}, enc[5:25]...), enc[28:]...); !bytes.Equal(joined, want) {
		t.Fatalf("split ranges: got %x want %x", joined, want)
	}
	if CencBlocks(rs) != 4 || CencBlocks([]Range{{0, 17}}) != 2 || CencBlocks(nil) != 0 {
		t.Fatalf("CencBlocks")
	}
}

// NIST SP 800-38A F.2.1 / F.2.2 (CBC-AES128)
func TestCBCKnownAnswer(t *testing.T) {
	iv := unhex("000102030405060708090a0b0c0d0e0f")
	want := unhex("7649abac8119b246cee98e9b12e9197d" + "5086cb9b507219ee95db113a917678b2" +
		"73bed6b8e3c1743b7116e69e22229516" + "3ff1caa1681fac09120eca307586e1a7")
	got := CbcsCrypt(nistKey, iv, nistPlain, Whole(len(nistPlain)), 0, 0, false)
	if !bytes.Equal(got, want) {
		t.Fatalf("CBC encrypt: got %x want %x", got, want)
	}
	if back := CbcsCrypt(nistKey, iv, got, Whole(len(got)), 0, 0, true); !bytes.Equal(back, nistPlain) {
		t.Fatalf("CBC decrypt: got %x", back)
	}
	// a trailing partial block stays clear
	p := append(append([]byte{}, nistPlain...), 1, 2, 3)
	e := CbcsCrypt(nistKey, iv, p, Whole(len(p)), 0, 0, false)
	if !bytes.Equal(e[:64], want) || !bytes.Equal(e[64:], []byte{1, 2, 3}) {
		t.Fatalf("partial block")
	}
}

// pattern 1:9 — blocks 0, 10, 20, ... are chained; IV restarts per range; built from the NIST vector:
// with the plaintext blocks P1, P2 placed at block positions 0 and 10 the cipher text there is C1, C2.
func TestCbcsPattern(t *testing.T) {
	iv := unhex("000102030405060708090a0b0c0d0e0f")
	c := unhex("7649abac8119b246cee98e9b12e9197d" + "5086cb9b507219ee95db113a917678b2")
	rng := make([]byte, 0, 3+11*16+5)
	rng = append(rng, 'x', 'y', 'z')
	rng = append(rng, nistPlain[:16]...)
	for i := 0; i < 9*16; i++ {
		rng = append(rng, byte(i))
	}
	rng = append(rng, nistPlain[16:32]...)
	rng = append(rng, 9, 9, 9, 9, 9)
	two := append(append([]byte{}, rng...), rng...) // two sub-samples, each restarts at the IV
	rs := []Range{{3, 11*16 + 5}, {len(rng) + 3, 11*16 + 5}}
	e := CbcsCrypt(nistKey, iv, two, rs, 1, 9, false)
	for _, base := range []int{0, len(rng)} {
		if !bytes.Equal(e[base+3:base+19], c[:16]) || !bytes.Equal(e[base+3+160:base+3+176], c[16:]) {
			t.Fatalf("pattern blocks at %d: %x %x", base, e[base+3:base+19], e[base+3+160:base+3+176])
		}
		if !bytes.Equal(e[base+19:base+3+160], two[base+19:base+3+160]) || !bytes.Equal(e[base:base+3], []byte("xyz")) ||
			!bytes.Equal(e[base+3+176:base+len(rng)], []byte{9, 9, 9, 9, 9}) {
			t.Fatalf("skipped bytes changed")
		}
	}
	if d := CbcsCrypt(nistKey, iv, e, rs, 1, 9, true); !bytes.Equal(d, two) {
		t.Fatalf("pattern decrypt")
	}
	// an 8-byte IV is padded with zeros
	iv8 := iv[:8]
	iv16 := append(append([]byte{}, iv8...), make([]byte, 8)...)
	if !bytes.Equal(CbcsCrypt(nistKey, iv8, two, rs, 1, 9, false), CbcsCrypt(nistKey, iv16, two, rs, 1, 9, false)) {
		t.Fatalf("8-byte IV")
	}
}

func Test128(t *testing.T) {
	ff := bytes.Repeat([]byte{0xff}, 16)
	z := Add128(ff, 1)
	if !bytes.Equal(z[:], make([]byte, 16)) {
		t.Fatalf("wrap: %x", z)
	}
	a := unhex("00000000000000010000000000000000")
	b := unhex("0000000000000000ffffffffffffffff")
	if s := Add128(b, 1); !bytes.Equal(s[:], a) {
		t.Fatalf("carry: %x", s)
	}
	if hi, lo := Sub128(a, b); hi != 0 || lo != 1 {
		t.Fatalf("sub: %d %d", hi, lo)
	}
	if hi, lo := Sub128(b, a); hi != ^uint64(0) || lo != ^uint64(0) {
		t.Fatalf("sub wrap: %x %x", hi, lo)
	}
	if s := Add128(a, 0x1ffffffffff); !bytes.Equal(s[:], unhex("0000000000000001000001ffffffffff")) {
		t.Fatalf("add: %x", s)
	}
}

// cross-check with the standard library's modes (test only; the package itself does not use them)
func TestAgainstStdlib(t *testing.T) {
	key := unhex("000102030405060708090a0b0c0d0e0f")
	blk, _ := aes.NewCipher(key)
	x := uint32(12345)
	rnd := func() byte { x = x*1664525 + 1013904223; return byte(x >> 24) }
	for _, iv := range [][]byte{unhex("00000000000000000000000000000000"), unhex("0123456789abcdefffffffffffffffff"),
		bytes.Repeat([]byte{0xff}, 16), unhex("01234567fffffffffffffffffffffffe")} {
		for n := 0; n < 200; n += 7 {
			p := make([]byte, n)
			for i := range p {
				p[i] = rnd()
			}
			want := make([]byte, n)
			cipher.NewCTR(blk, iv).XORKeyStream(want, p)
			if got := CencCrypt(key, iv, p, Whole(n)); !bytes.Equal(got, want) {
				t.Fatalf("ctr n=%d iv=%x", n, iv)
			}
			full := n &^ 15
			want = append([]byte{}, p...)
			cipher.NewCBCEncrypter(blk, iv).CryptBlocks(want[:full], p[:full])
			if got := CbcsCrypt(key, iv, p, Whole(n), 0, 0, false); !bytes.Equal(got, want) {
				t.Fatalf("cbc n=%d", n)
			}
		}
	}
}
