package fragbuild

import (
	"bytes"
	"encoding/hex"
	"flag"
	"fmt"
	"os"
	"path/filepath"
	"regexp"
	"runtime"
	"sort"
	"strings"
	"sync"
	"testing"
	"time"

	"github.com/Eyevinn/mp4ff/mp4"
	"pgregory.net/rapid"
)

// ---------------------------------------------------------------------------------------------
// Named switches for the classes where the library disagrees with files that are valid per
// ISO/IEC 14496-12 (each checked by hand, see the TestLibDisagreement* reproducers). A switch that is
// true keeps the class out of the generated cases of TestLibraryAcceptsWritten so that the rest keeps
// running; TestLibDisagreement* pins the current library behaviour on a minimal file of the class.
var (
	// Several traf boxes of the same track in one moof (8.8.6: "zero or more per track").
	// Fragment.GetFullSamples(trex) returns the samples of the first traf of the track only.
	libSkipSplitTrafs = true
	// tfhd with neither base-data-offset-present nor default-base-is-moof, more than one traf
	// (8.8.7.1: the base of a later traf is the end of the data of the preceding traf).
	// The library uses the moof start for every traf.
	libSkipLegacyMultiTraf = true
	// trun without data_offset that continues after the preceding trun (8.8.8.1).
	// The library restarts at the moof start and reports "offset in mdata beyond size".
	libSkipOmitDataOffset = true
	// Top-level sidx, no styp, and the box at the sidx anchor is neither emsg nor moof (prft, free,
	// uuid, ...; 8.16.5 places prft exactly there): mp4.DecodeFile panics (nil pointer dereference in
	// File.AddChild: startSegmentIfNeeded starts no segment because the moof is not at the anchor).
	libSkipTopSidxPreBox = true
	// File with mfra decoded with mp4.DecISMFlag where a tfra has fewer entries than there are
	// moof/emsg boxes (tfra lists random access points, not every moof).
	libSkipIsmMfra = true
	// Real-file class (anchor test): traf without tfdt. The library's GetFullSamples starts such a
	// fragment at decode time 0; the reader continues after the previous fragment of the track.
	libNoTfdtStartsAtZero = true
)

const repoDir = "/repo"

func TestMain(m *testing.M) {
	flag.Parse()
	set := false
	flag.Visit(func(f *flag.Flag) {
		if f.Name == "rapid.checks" {
			set = true
		}
	})
	if !set {
		_ = flag.Set("rapid.checks", "6000")
	}
	os.Exit(m.Run())
}

var (
	stsdOnce             sync.Once
	videoStsd, audioStsd []byte
	stsdErr              error
)

func harvested(t testing.TB) ([]byte, []byte) {
	stsdOnce.Do(func() { videoStsd, audioStsd, stsdErr = HarvestStsd(repoDir) })
	if stsdErr != nil {
		t.Fatalf("HarvestStsd: %v", stsdErr)
	}
	return videoStsd, audioStsd
}

func TestHarvestStsd(t *testing.T) {
	v, a := harvested(t)
	t.Logf("video stsd: %d bytes, entry %q; audio stsd: %d bytes, entry %q", len(v), stsdEntryType(v), len(a), stsdEntryType(a))
	// the library must be able to decode what was harvested
	for _, raw := range [][]byte{v, a, WvttStsd()} {
		box, err := mp4.DecodeBox(0, bytes.NewReader(raw))
		if err != nil {
			t.Fatalf("library cannot decode harvested stsd: %v", err)
		}
		if box.Type() != "stsd" || box.Size() != uint64(len(raw)) {
			t.Fatalf("stsd decode: type %s size %d, want %d", box.Type(), box.Size(), len(raw))
		}
	}
}

func dumpFile(file []byte) string {
	if len(file) > 4096 {
		return fmt.Sprintf("(%d bytes) %s...", len(file), hex.EncodeToString(file[:4096]))
	}
	return hex.EncodeToString(file)
}

// ---------------------------------------------------------------------------------------------
// comparison model <-> independent reader

func cmpParsed(what string, want []Sample, t0 uint64, got []PSample) error {
	if len(want) != len(got) {
		return fmt.Errorf("%s: %d samples, want %d", what, len(got), len(want))
	}
	tm := t0
	for i := range want {
		w, g := &want[i], &got[i]
		if g.Dur != w.Dur || g.Flags != w.Flags || g.Size != uint32(len(w.Data)) || int64(int32(g.Cto)) != int64(w.Cto) ||
			g.DecodeTime != tm || !bytes.Equal(g.Data, w.Data) {
			return fmt.Errorf("%s: sample %d: got dur=%d size=%d flags=%#x cto=%d time=%d data=%x; want dur=%d size=%d flags=%#x cto=%d time=%d data=%x",
				what, i, g.Dur, g.Size, g.Flags, g.Cto, g.DecodeTime, g.Data, w.Dur, len(w.Data), w.Flags, w.Cto, tm, w.Data)
		}
		tm += uint64(w.Dur)
	}
	return nil
}

func checkRoundTrip(tracks []Track, lay FileLayout) (*Parsed, error) {
	init, segs, truth, err := Build(tracks, lay)
	if err != nil {
		return nil, fmt.Errorf("Build: %v", err)
	}
	file := Concat(init, segs, truth)
	p, err := Read(file)
	if err != nil {
		return nil, fmt.Errorf("Read: %v\nfile: %s", err, dumpFile(file))
	}
	if err := compareWithTruth(tracks, lay, init, segs, truth, file, p); err != nil {
		return nil, fmt.Errorf("%v\nfile: %s", err, dumpFile(file))
	}
	return p, nil
}

// encodingClasses reports which syntax branches of the sample tables the file really uses
// (as seen by the reader).
func encodingClasses(p *Parsed) []string {
	set := map[string]bool{}
	add := func(c bool, s string) {
		if c {
			set[s] = true
		}
	}
	for mi := range p.Moofs {
		m := &p.Moofs[mi]
		add(len(m.Trafs) == 0, "enc:moof-without-traf")
		for ti := range m.Trafs {
			tf := &m.Trafs[ti]
			h := &tf.Tfhd
			add(h.HasBaseDataOffset(), "enc:tfhd-base-data-offset")
			add(h.DefaultBaseIsMoof(), "enc:tfhd-default-base-is-moof")
			add(!h.HasBaseDataOffset() && !h.DefaultBaseIsMoof() && ti == 0, "enc:legacy-first-traf")
			add(!h.HasBaseDataOffset() && !h.DefaultBaseIsMoof() && ti > 0, "enc:legacy-later-traf")
			add(h.HasDescIdx(), "enc:tfhd-desc-idx")
			add(h.HasDefDur(), "enc:tfhd-def-dur")
			add(h.HasDefSize(), "enc:tfhd-def-size")
			add(h.HasDefFlags(), "enc:tfhd-def-flags")
			add(tf.TfdtVersion == 1, "enc:tfdt-v1")
			add(tf.TfdtVersion == 0, "enc:tfdt-v0")
			add(len(tf.Truns) > 1, "enc:multi-trun")
			for ri := range tf.Truns {
				tr := &tf.Truns[ri]
				if tr.SampleCount == 0 {
					add(true, "enc:trun-empty")
					continue
				}
				add(!tr.HasDataOffset(), "enc:trun-no-data-offset")
				add(tr.HasDataOffset() && tr.DataOffset < 0, "enc:trun-negative-data-offset")
				add(tr.HasFirstSampleFlags(), "enc:trun-first-sample-flags")
				add(tr.Version == 1, "enc:trun-v1")
				add(tr.Version == 0 && tr.HasCto(), "enc:trun-v0-cto")
				add(tr.Version == 1 && tr.HasCto(), "enc:trun-v1-cto")
				add(!tr.HasCto(), "enc:trun-no-cto")
				add(!tr.HasDur() && h.HasDefDur(), "enc:dur-from-tfhd")
				add(!tr.HasDur() && !h.HasDefDur(), "enc:dur-from-trex")
				add(!tr.HasSize() && h.HasDefSize(), "enc:size-from-tfhd")
				add(!tr.HasSize() && !h.HasDefSize(), "enc:size-from-trex")
				add(!tr.HasFlags() && h.HasDefFlags(), "enc:flags-from-tfhd")
				add(!tr.HasFlags() && !h.HasDefFlags(), "enc:flags-from-trex")
				add(tr.HasDur() && tr.HasSize() && tr.HasFlags() && tr.HasCto(), "enc:trun-all-per-sample")
			}
		}
	}
	for _, s := range p.Sidxs {
		add(s.Version == 1, "enc:sidx-v1")
		add(s.Version == 0, "enc:sidx-v0")
	}
	if p.Mfra != nil {
		for _, tf := range p.Mfra.Tfras {
			add(tf.Version == 1, "enc:tfra-v1")
			add(tf.Version == 0, "enc:tfra-v0")
			add(len(tf.Entries) == 0, "enc:tfra-empty")
		}
	}
	out := make([]string, 0, len(set))
	for k := range set {
		out = append(out, k)
	}
	return out
}

func compareWithTruth(tracks []Track, lay FileLayout, init []byte, segs [][]byte, truth *Truth, file []byte, p *Parsed) error {
	// init
	if len(p.Tracks) != len(tracks) {
		return fmt.Errorf("moov: %d tracks, want %d", len(p.Tracks), len(tracks))
	}
	for i := range tracks {
		w, g := &tracks[i], &p.Tracks[i]
		if g.ID != w.ID || g.Timescale != w.Timescale || g.Handler != w.Handler || !bytes.Equal(g.StsdRaw, w.StsdRaw) ||
			g.Width != uint32(w.Width)<<16 || g.Height != uint32(w.Height)<<16 {
			return fmt.Errorf("moov: track %d read back as %+v", i, *g)
		}
		if g.Trex == nil || *g.Trex != (PTrex{TrackID: w.ID, DescIdx: w.Trex.DescIdx, Dur: w.Trex.Dur, Size: w.Trex.Size, Flags: w.Trex.Flags}) {
			return fmt.Errorf("moov: trex of track %d read back as %+v", i, g.Trex)
		}
		if g.SttsEntries != 0 || g.StszCount != 0 || g.StcoEntries != 0 {
			return fmt.Errorf("moov: track %d has non-empty sample tables", i)
		}
	}
	// top-level boxes
	if len(p.Boxes) != len(truth.Boxes) {
		return fmt.Errorf("top-level boxes: reader sees %d, writer wrote %d", len(p.Boxes), len(truth.Boxes))
	}
	for i := range p.Boxes {
		if p.Boxes[i] != truth.Boxes[i] {
			return fmt.Errorf("top-level box %d: reader %+v, writer %+v", i, p.Boxes[i], truth.Boxes[i])
		}
	}
	// slicing
	pos := uint64(len(init))
	if len(segs) != len(truth.Segments) || len(segs) != len(lay.Segments) {
		return fmt.Errorf("%d segments returned, %d in truth", len(segs), len(truth.Segments))
	}
	for i := range segs {
		if truth.Segments[i].Offset != pos || truth.Segments[i].Size != uint64(len(segs[i])) {
			return fmt.Errorf("segment %d: truth %d+%d, bytes at %d+%d", i, truth.Segments[i].Offset, truth.Segments[i].Size, pos, len(segs[i]))
		}
		pos += uint64(len(segs[i]))
	}
	if pos+uint64(len(truth.MfraBytes)) != uint64(len(file)) {
		return fmt.Errorf("file length")
	}
	// whole tracks
	for i := range tracks {
		if truth.Consumed[i] != len(tracks[i].Samples) {
			return fmt.Errorf("track %d: layout placed %d of %d samples", i, truth.Consumed[i], len(tracks[i].Samples))
		}
		if err := cmpParsed(fmt.Sprintf("track %d (ID %d)", i, tracks[i].ID), tracks[i].Samples, tracks[i].StartTime,
			p.TrackSamples(tracks[i].ID)); err != nil {
			return err
		}
	}
	// fragments
	mi := 0
	seq := lay.SeqStart
	for si := range truth.Segments {
		st := &truth.Segments[si]
		if (st.Styp != nil) != lay.Segments[si].Styp || (st.Sidx != nil) != lay.Segments[si].Sidx {
			return fmt.Errorf("segment %d: styp/sidx truth does not match the layout", si)
		}
		for fi := range st.Frags {
			ft := &st.Frags[fi]
			if mi >= len(p.Moofs) {
				return fmt.Errorf("reader found only %d moofs", len(p.Moofs))
			}
			m := &p.Moofs[mi]
			mi++
			what := fmt.Sprintf("segment %d fragment %d", si, fi)
			if m.Box != ft.Moof || m.Mdat == nil || *m.Mdat != ft.Mdat {
				return fmt.Errorf("%s: moof/mdat reader %+v %+v, writer %+v %+v", what, m.Box, m.Mdat, ft.Moof, ft.Mdat)
			}
			if m.Seq != seq || ft.Seq != seq {
				return fmt.Errorf("%s: sequence number %d/%d, want %d", what, m.Seq, ft.Seq, seq)
			}
			seq++
			for ti := range tracks {
				r := ft.Tracks[ti]
				t0 := tracks[ti].DecodeTime(r.First)
				if err := cmpParsed(fmt.Sprintf("%s track %d", what, ti), tracks[ti].Samples[r.First:r.First+r.N], t0,
					m.TrackSamples(tracks[ti].ID)); err != nil {
					return err
				}
			}
			wantTrafs := 0
			for _, r := range ft.Runs {
				if r.Traf+1 > wantTrafs {
					wantTrafs = r.Traf + 1
				}
			}
			if len(m.Trafs) != wantTrafs {
				return fmt.Errorf("%s: %d trafs, want %d", what, len(m.Trafs), wantTrafs)
			}
			nTruns := 0
			for i := range m.Trafs {
				nTruns += len(m.Trafs[i].Truns)
				if len(m.Trafs[i].Other) != len(lay.Segments[si].Frags[fi].InTrafBoxes) {
					return fmt.Errorf("%s: traf %d: %d other boxes", what, i, len(m.Trafs[i].Other))
				}
				for k, x := range lay.Segments[si].Frags[fi].InTrafBoxes {
					o := &m.Trafs[i].Other[k]
					if o.Type != x.Type || !bytes.Equal(o.Payload, x.Payload) || (x.Type == "uuid" && !bytes.Equal(o.UUID, x.UUID)) {
						return fmt.Errorf("%s: traf %d: extra box %d differs", what, i, k)
					}
				}
			}
			if nTruns != len(ft.Runs) {
				return fmt.Errorf("%s: %d truns, want %d", what, nTruns, len(ft.Runs))
			}
			if len(m.Other) != len(lay.Segments[si].Frags[fi].InMoofBoxes) {
				return fmt.Errorf("%s: %d other moof children", what, len(m.Other))
			}
			end := ft.MdatPayload
			for _, r := range ft.Runs {
				tr := &m.Trafs[r.Traf].Truns[r.Trun]
				if m.Trafs[r.Traf].Tfhd.TrackID != tracks[r.Track].ID || int(tr.SampleCount) != r.N || tr.Start != r.DataOffset {
					return fmt.Errorf("%s: run %+v read back as track %d count %d start %d", what, r,
						m.Trafs[r.Traf].Tfhd.TrackID, tr.SampleCount, tr.Start)
				}
				if r.DataOffset != end {
					return fmt.Errorf("%s: run %+v does not follow the previous run (%d)", what, r, end)
				}
				for k := 0; k < r.N; k++ {
					end += uint64(len(tracks[r.Track].Samples[r.First+k].Data))
				}
			}
			if end != ft.Mdat.Offset+ft.Mdat.Size {
				return fmt.Errorf("%s: run data ends at %d, mdat at %d", what, end, ft.Mdat.Offset+ft.Mdat.Size)
			}
			if ft.Offset+ft.Size != end {
				return fmt.Errorf("%s: fragment size", what)
			}
		}
	}
	if mi != len(p.Moofs) {
		return fmt.Errorf("reader found %d moofs, writer wrote %d", len(p.Moofs), mi)
	}
	// sidx
	var wantSidx int
	if lay.TopSidx {
		wantSidx++
	}
	for _, s := range lay.Segments {
		if s.Sidx {
			wantSidx++
		}
	}
	if len(p.Sidxs) != wantSidx {
		return fmt.Errorf("%d sidx boxes, want %d", len(p.Sidxs), wantSidx)
	}
	segRef := func(si int) (ept uint64, dur uint32) {
		first := 0
		for k := 0; k < si; k++ {
			for _, f := range truth.Segments[k].Frags {
				first += f.Tracks[0].N
			}
		}
		n := 0
		for _, f := range truth.Segments[si].Frags {
			n += f.Tracks[0].N
		}
		t0 := tracks[0].DecodeTime(first)
		ept = t0
		if n > 0 {
			e := int64(t0) + int64(tracks[0].Samples[first].Cto)
			if e < 0 {
				e = 0
			}
			ept = uint64(e)
		}
		for k := 0; k < n; k++ {
			dur += tracks[0].Samples[first+k].Dur
		}
		return
	}
	sx := 0
	checkHead := func(s *PSidx, ept uint64) error {
		v := uint8(0)
		if ept > 0xffffffff {
			v = 1
		}
		if s.Version != v || s.Flags != 0 || s.ReferenceID != tracks[0].ID || s.Timescale != tracks[0].Timescale || s.EPT != ept ||
			s.FirstOffset != 0 || s.Reserved != 0 {
			return fmt.Errorf("sidx at %d: header %+v, want version %d ept %d", s.Box.Offset, *s, v, ept)
		}
		return nil
	}
	if lay.TopSidx {
		s := &p.Sidxs[sx]
		sx++
		if s.Box != *truth.TopSidx || len(s.Refs) != len(truth.Segments) {
			return fmt.Errorf("top sidx: %+v, truth %+v", *s, *truth.TopSidx)
		}
		ept0 := tracks[0].StartTime
		if len(truth.Segments) > 0 {
			ept0, _ = segRef(0)
			if s.Anchor != truth.Segments[0].Offset {
				return fmt.Errorf("top sidx: anchor %d, first segment at %d", s.Anchor, truth.Segments[0].Offset)
			}
		}
		if err := checkHead(s, ept0); err != nil {
			return err
		}
		at := s.Anchor
		for i, r := range s.Refs {
			_, dur := segRef(i)
			if at != truth.Segments[i].Offset || uint64(r.Size) != truth.Segments[i].Size || r.Duration != dur ||
				r.Type != 0 || r.StartsWithSAP != 1 || r.SAPType != 1 || r.SAPDeltaTime != 0 {
				return fmt.Errorf("top sidx: ref %d %+v at %d, segment %d+%d dur %d", i, r, at, truth.Segments[i].Offset, truth.Segments[i].Size, dur)
			}
			at += uint64(r.Size)
		}
	}
	for si := range truth.Segments {
		st := &truth.Segments[si]
		if st.Sidx == nil {
			continue
		}
		s := &p.Sidxs[sx]
		sx++
		ept, dur := segRef(si)
		if s.Box != *st.Sidx || len(s.Refs) != 1 {
			return fmt.Errorf("segment %d sidx: %+v", si, *s)
		}
		if err := checkHead(s, ept); err != nil {
			return err
		}
		r := s.Refs[0]
		if s.Anchor+uint64(r.Size) != st.Offset+st.Size || r.Duration != dur || r.Type != 0 || r.StartsWithSAP != 1 || r.SAPType != 1 {
			return fmt.Errorf("segment %d sidx: ref %+v anchor %d, segment ends at %d, dur %d", si, r, s.Anchor, st.Offset+st.Size, dur)
		}
	}
	// styp
	ns := 0
	for si := range truth.Segments {
		if b := truth.Segments[si].Styp; b != nil {
			if ns >= len(p.Styps) || p.Styps[ns] != *b || b.Offset != truth.Segments[si].Offset {
				return fmt.Errorf("segment %d: styp", si)
			}
			ns++
		}
	}
	if ns != len(p.Styps) {
		return fmt.Errorf("%d styp boxes, want %d", len(p.Styps), ns)
	}
	// mfra
	if lay.Mfra != (p.Mfra != nil) {
		return fmt.Errorf("mfra presence")
	}
	if lay.Mfra {
		if p.Mfra.Box != *truth.Mfra || !p.Mfra.HasMfro || uint64(p.Mfra.MfroSize) != truth.Mfra.Size ||
			truth.Mfra.Offset+truth.Mfra.Size != uint64(len(file)) {
			return fmt.Errorf("mfra: %+v", *p.Mfra)
		}
		want := len(tracks)
		if lay.MfraFirstTrackOnly {
			want = 1
		}
		if len(p.Mfra.Tfras) != want {
			return fmt.Errorf("mfra: %d tfra, want %d", len(p.Mfra.Tfras), want)
		}
		for ti, tf := range p.Mfra.Tfras {
			if tf.TrackID != tracks[ti].ID {
				return fmt.Errorf("tfra %d: track ID %d", ti, tf.TrackID)
			}
			ei := 0
			for si := range truth.Segments {
				if len(truth.Segments[si].Frags) == 0 {
					continue
				}
				f0 := &truth.Segments[si].Frags[0]
				has := false
				for _, r := range f0.Runs {
					if r.Track == ti {
						has = true
					}
				}
				if !has {
					continue
				}
				if ei >= len(tf.Entries) {
					return fmt.Errorf("tfra %d: too few entries", ti)
				}
				e := tf.Entries[ei]
				ei++
				// the entry must lead to the first sample the track has in that moof
				if e.MoofOffset != f0.Moof.Offset || e.Time != tracks[ti].DecodeTime(f0.Tracks[ti].First) || e.SampleNumber != 1 {
					return fmt.Errorf("tfra %d: entry %+v, want moof %d", ti, e, f0.Moof.Offset)
				}
				var m *PMoof
				for k := range p.Moofs {
					if p.Moofs[k].Box.Offset == e.MoofOffset {
						m = &p.Moofs[k]
					}
				}
				if m == nil || int(e.TrafNum) > len(m.Trafs) || e.TrafNum == 0 || m.Trafs[e.TrafNum-1].Tfhd.TrackID != tracks[ti].ID ||
					e.TrunNum == 0 || int(e.TrunNum) > len(m.Trafs[e.TrafNum-1].Truns) {
					return fmt.Errorf("tfra %d: entry %+v does not lead to a trun of the track", ti, e)
				}
			}
			if ei != len(tf.Entries) {
				return fmt.Errorf("tfra %d: %d entries, want %d", ti, len(tf.Entries), ei)
			}
		}
	}
	// every segment on its own (relative offsets), when no absolute base_data_offset is involved
	absBase := false
	for _, s := range lay.Segments {
		for _, f := range s.Frags {
			if f.Opts.Base == 1 {
				absBase = true
			}
		}
	}
	if !absBase {
		ip, err := Read(init)
		if err != nil {
			return fmt.Errorf("Read(init): %v", err)
		}
		for si := range segs {
			sp, err := ReadWith(segs[si], ip)
			if err != nil {
				return fmt.Errorf("ReadWith(segment %d): %v", si, err)
			}
			for ti := range tracks {
				first, n := 0, 0
				if len(truth.Segments[si].Frags) > 0 {
					first = truth.Segments[si].Frags[0].Tracks[ti].First
				}
				for _, f := range truth.Segments[si].Frags {
					n += f.Tracks[ti].N
				}
				// without tfdt continuity across segments is lost, but tfdt is always written
				got := sp.TrackSamples(tracks[ti].ID)
				if err := cmpParsed(fmt.Sprintf("segment %d alone, track %d", si, ti), tracks[ti].Samples[first:first+n],
					tracks[ti].DecodeTime(first), got); err != nil {
					return err
				}
			}
		}
	}
	return nil
}

func genOpt(t testing.TB) GenOpt {
	v, a := harvested(t)
	return GenOpt{VideoStsd: v, AudioStsd: a}
}

// Test 1: Read(Build(model, layout)) == model, and the writer's Truth agrees with the reader.
func TestRoundTrip(t *testing.T) {
	opt := genOpt(t)
	var mu sync.Mutex
	classes := map[string]int{}
	n := 0
	start := time.Now()
	rapid.Check(t, func(rt *rapid.T) {
		tracks := GenTracks(rt, opt)
		lay := GenLayout(rt, tracks, opt)
		p, err := checkRoundTrip(tracks, lay)
		if err != nil {
			rt.Fatalf("%v", err)
		}
		mu.Lock()
		n++
		for _, c := range Classes(tracks, lay) {
			classes[c]++
		}
		for _, c := range encodingClasses(p) {
			classes[c]++
		}
		mu.Unlock()
	})
	el := time.Since(start)
	var keys []string
	for k := range classes {
		keys = append(keys, k)
	}
	sort.Strings(keys)
	var sb strings.Builder
	for _, k := range keys {
		fmt.Fprintf(&sb, " %s=%d", k, classes[k])
	}
	t.Logf("%d cases in %v (%.0f cases/s); classes:%s", n, el, float64(n)/el.Seconds(), sb.String())
}

// The reader must refuse inconsistent files: targeted corruptions of files that are known to be good.
func TestReaderStrict(t *testing.T) {
	opt := genOpt(t)
	counts := map[string]int{}
	var mu sync.Mutex
	rapid.Check(t, func(rt *rapid.T) {
		tracks := GenTracks(rt, opt)
		lay := GenLayout(rt, tracks, opt)
		init, segs, truth, err := Build(tracks, lay)
		if err != nil {
			rt.Fatalf("Build: %v", err)
		}
		file := Concat(init, segs, truth)
		p, err := Read(file)
		if err != nil {
			rt.Fatalf("Read: %v", err)
		}
		mustFail := func(what string, mutate func(b []byte) []byte) {
			b := mutate(append([]byte(nil), file...))
			if b == nil {
				return
			}
			mu.Lock()
			counts[what]++
			mu.Unlock()
			if _, err := Read(b); err == nil {
				rt.Fatalf("%s: the reader accepts the corrupted file\noriginal: %s", what, dumpFile(file))
			}
		}
		be := func(b []byte, at uint64) uint32 {
			return uint32(b[at])<<24 | uint32(b[at+1])<<16 | uint32(b[at+2])<<8 | uint32(b[at+3])
		}
		put := func(b []byte, at uint64, v uint32) {
			b[at], b[at+1], b[at+2], b[at+3] = byte(v>>24), byte(v>>16), byte(v>>8), byte(v)
		}
		mustFail("truncate-1", func(b []byte) []byte { return b[:len(b)-1] })
		mustFail("append-1", func(b []byte) []byte { return append(b, 0) })
		if len(p.Moofs) == 0 {
			return
		}
		m := &p.Moofs[rapid.IntRange(0, len(p.Moofs)-1).Draw(rt, "moof")]
		mustFail("moof-size+1", func(b []byte) []byte { put(b, m.Box.Offset, be(b, m.Box.Offset)+1); return b })
		mustFail("moof-size-1", func(b []byte) []byte { put(b, m.Box.Offset, be(b, m.Box.Offset)-1); return b })
		if len(m.Trafs) == 0 {
			return
		}
		tf := &m.Trafs[rapid.IntRange(0, len(m.Trafs)-1).Draw(rt, "traf")]
		mustFail("traf-size+4", func(b []byte) []byte { put(b, tf.Box.Offset, be(b, tf.Box.Offset)+4); return b })
		mustFail("tfhd-extra-flag", func(b []byte) []byte {
			at := tf.TfhdBox.Offset + 8
			f := be(b, at)
			for _, bit := range []uint32{0x8, 0x10, 0x20, 0x2, 0x1} {
				if f&bit == 0 {
					put(b, at, f|bit)
					return b
				}
			}
			return nil
		})
		mustFail("tfhd-unknown-track", func(b []byte) []byte { put(b, tf.TfhdBox.Offset+12, 0x0badf00d); return b })
		if len(tf.Truns) == 0 {
			return
		}
		tr := &tf.Truns[rapid.IntRange(0, len(tf.Truns)-1).Draw(rt, "trun")]
		mustFail("trun-count+1", func(b []byte) []byte {
			if tr.Flags&0xf00 == 0 {
				return nil // no per-sample fields: the count is not tied to the box size
			}
			put(b, tr.Box.Offset+12, tr.SampleCount+1)
			return b
		})
		mustFail("trun-extra-flag", func(b []byte) []byte {
			if tr.SampleCount == 0 {
				return nil
			}
			at := tr.Box.Offset + 8
			f := be(b, at)
			for _, bit := range []uint32{0x100, 0x200, 0x800, 0x1} {
				if f&bit == 0 {
					put(b, at, f|bit)
					return b
				}
			}
			return nil
		})
		mustFail("trun-data-offset-far", func(b []byte) []byte {
			if !tr.HasDataOffset() || tr.SampleCount == 0 {
				return nil
			}
			put(b, tr.Box.Offset+16, 0x7fff0000)
			return b
		})
		mustFail("trun-data-outside-mdat", func(b []byte) []byte {
			// move the run so that it starts inside the moof
			var n uint32
			for _, s := range tr.Samples {
				n += s.Size
			}
			if !tr.HasDataOffset() || n == 0 {
				return nil
			}
			put(b, tr.Box.Offset+16, uint32(int32(int64(m.Box.Offset)-int64(tf.Base))))
			return b
		})
		if p.Mfra != nil {
			mustFail("mfro-size", func(b []byte) []byte { put(b, uint64(len(b))-4, be(b, uint64(len(b))-4)+1); return b })
		}
	})
	t.Logf("corruptions refused: %v", counts)
}

// ---------------------------------------------------------------------------------------------
// Test 2: the library accepts what the writer writes and extracts the model from it

func cmpLib(what string, want []Sample, t0 uint64, got []mp4.FullSample) error {
	if len(want) != len(got) {
		return fmt.Errorf("%s: library returns %d samples, want %d", what, len(got), len(want))
	}
	tm := t0
	for i := range want {
		w, g := &want[i], &got[i]
		if g.Dur != w.Dur || g.Flags != w.Flags || g.Size != uint32(len(w.Data)) || g.CompositionTimeOffset != w.Cto ||
			g.DecodeTime != tm || !bytes.Equal(g.Data, w.Data) {
			return fmt.Errorf("%s: sample %d: library dur=%d size=%d flags=%#x cto=%d time=%d data=%x; want dur=%d size=%d flags=%#x cto=%d time=%d data=%x",
				what, i, g.Dur, g.Size, g.Flags, g.CompositionTimeOffset, g.DecodeTime, g.Data, w.Dur, len(w.Data), w.Flags, w.Cto, tm, w.Data)
		}
		tm += uint64(w.Dur)
	}
	return nil
}

// libCheck decodes file with the library and compares every fragment with the model.
func libCheck(tracks []Track, lay FileLayout, truth *Truth, file []byte, opts ...mp4.Option) (err error) {
	defer func() {
		if r := recover(); r != nil {
			err = fmt.Errorf("library panics: %v at %s", r, libFrame())
		}
	}()
	f, err := mp4.DecodeFile(bytes.NewReader(file), opts...)
	if err != nil {
		return fmt.Errorf("mp4.DecodeFile: %v", err)
	}
	if !f.IsFragmented() {
		return fmt.Errorf("File.IsFragmented() is false")
	}
	if f.Init == nil || f.Init.Moov == nil || f.Init.Moov.Mvex == nil {
		return fmt.Errorf("no init/moov/mvex after decode")
	}
	if len(f.Init.Moov.Traks) != len(tracks) {
		return fmt.Errorf("library sees %d traks, want %d", len(f.Init.Moov.Traks), len(tracks))
	}
	trexs := make([]*mp4.TrexBox, len(tracks))
	for ti := range tracks {
		for _, x := range f.Init.Moov.Mvex.Trexs {
			if x.TrackID == tracks[ti].ID {
				trexs[ti] = x
			}
		}
		if trexs[ti] == nil {
			return fmt.Errorf("library finds no trex for track ID %d", tracks[ti].ID)
		}
		tk := f.Init.Moov.Traks[ti]
		if tk.Tkhd.TrackID != tracks[ti].ID || tk.Mdia.Mdhd.Timescale != tracks[ti].Timescale || tk.Mdia.Hdlr.HandlerType != tracks[ti].Handler {
			return fmt.Errorf("library reads trak %d as ID %d timescale %d handler %q", ti, tk.Tkhd.TrackID, tk.Mdia.Mdhd.Timescale, tk.Mdia.Hdlr.HandlerType)
		}
	}
	var frags []*mp4.Fragment
	for _, s := range f.Segments {
		frags = append(frags, s.Fragments...)
	}
	var want []*FragTruth
	for si := range truth.Segments {
		for fi := range truth.Segments[si].Frags {
			want = append(want, &truth.Segments[si].Frags[fi])
		}
	}
	if len(frags) != len(want) {
		return fmt.Errorf("library sees %d fragments in %d segments, written were %d", len(frags), len(f.Segments), len(want))
	}
	for i, fr := range frags {
		ft := want[i]
		if fr.Moof == nil || fr.Mdat == nil {
			return fmt.Errorf("fragment %d: moof or mdat missing after decode", i)
		}
		if fr.Moof.StartPos != ft.Moof.Offset || fr.Moof.Size() != ft.Moof.Size || fr.Mdat.Size() != ft.Mdat.Size {
			return fmt.Errorf("fragment %d: library moof at %d size %d, mdat size %d; written moof %+v mdat %+v", i,
				fr.Moof.StartPos, fr.Moof.Size(), fr.Mdat.Size(), ft.Moof, ft.Mdat)
		}
		if fr.Moof.Mfhd.SequenceNumber != ft.Seq {
			return fmt.Errorf("fragment %d: library sequence number %d, want %d", i, fr.Moof.Mfhd.SequenceNumber, ft.Seq)
		}
		for ti := range tracks {
			got, err := fr.GetFullSamples(trexs[ti])
			if err != nil {
				return fmt.Errorf("fragment %d track %d: GetFullSamples: %v", i, ti, err)
			}
			r := ft.Tracks[ti]
			if err := cmpLib(fmt.Sprintf("fragment %d track %d (ID %d)", i, ti, tracks[ti].ID), tracks[ti].Samples[r.First:r.First+r.N],
				tracks[ti].DecodeTime(r.First), got); err != nil {
				return err
			}
		}
	}
	// segment structure, where the delimiters are unambiguous for the library
	allStyp := len(lay.Segments) > 0
	for _, s := range lay.Segments {
		if !s.Styp {
			allStyp = false
		}
	}
	if allStyp && len(f.Segments) != len(lay.Segments) {
		return fmt.Errorf("library sees %d segments, written were %d (all with styp)", len(f.Segments), len(lay.Segments))
	}
	return nil
}

// libFrame names the innermost mp4ff frames of the current (panicking) stack.
func libFrame() string {
	pcs := make([]uintptr, 64)
	n := runtime.Callers(2, pcs)
	frames := runtime.CallersFrames(pcs[:n])
	var out []string
	for {
		fr, more := frames.Next()
		if strings.Contains(fr.Function, "Eyevinn/mp4ff") {
			out = append(out, fmt.Sprintf("%s (%s:%d)", strings.TrimPrefix(fr.Function, "github.com/Eyevinn/mp4ff/"), filepath.Base(fr.File), fr.Line))
			if len(out) == 3 {
				break
			}
		}
		if !more {
			break
		}
	}
	return strings.Join(out, " <- ")
}

var digitsRe = regexp.MustCompile(`[0-9]+`)

// TestExploreLibrary (FRAGBUILD_EXPLORE=1) runs the library check with every switch open and
// buckets the disagreements, keeping the smallest file of each bucket.
func TestExploreLibrary(t *testing.T) {
	if os.Getenv("FRAGBUILD_EXPLORE") == "" {
		t.Skip("FRAGBUILD_EXPLORE not set")
	}
	opt := genOpt(t)
	if os.Getenv("FRAGBUILD_EXPLORE") == "lib" {
		opt = libGenOpt(t)
	}
	type ex struct {
		n    int
		msg  string
		lay  FileLayout
		file []byte
	}
	buckets := map[string]*ex{}
	rapid.Check(t, func(rt *rapid.T) {
		tracks := GenTracks(rt, opt)
		lay := GenLayout(rt, tracks, opt)
		init, segs, truth, err := Build(tracks, lay)
		if err != nil {
			rt.Fatalf("Build: %v", err)
		}
		file := Concat(init, segs, truth)
		err = libCheck(tracks, lay, truth, file)
		if err == nil && lay.Mfra && os.Getenv("FRAGBUILD_EXPLORE_ISM") != "" {
			if err = libCheck(tracks, lay, truth, file, mp4.WithDecodeFlags(mp4.DecISMFlag)); err != nil {
				err = fmt.Errorf("DecISMFlag: %w", err)
			}
		}
		if err != nil {
			msg := err.Error()
			if i := strings.Index(msg, "; want"); i > 0 {
				msg = msg[:i]
			}
			key := digitsRe.ReplaceAllString(msg, "N")
			if len(key) > 90 {
				key = key[:90]
			}
			b := buckets[key]
			if b == nil {
				b = &ex{}
				buckets[key] = b
			}
			b.n++
			if b.file == nil || len(file) < len(b.file) {
				b.file, b.msg, b.lay = file, err.Error(), lay
			}
		}
	})
	var keys []string
	for k := range buckets {
		keys = append(keys, k)
	}
	sort.Strings(keys)
	for _, k := range keys {
		b := buckets[k]
		t.Logf("---- %d x %s\n  e.g. %s\n  layout %+v\n  file %s", b.n, k, b.msg, b.lay, dumpFile(b.file))
	}
}

func libGenOpt(t testing.TB) GenOpt {
	o := genOpt(t)
	o.NoSplitTrafs = libSkipSplitTrafs
	o.NoLegacyMultiTraf = libSkipLegacyMultiTraf
	o.NoOmitDataOffset = libSkipOmitDataOffset
	o.NoNonEmsgAtTopSidxAnchor = libSkipTopSidxPreBox
	return o
}

func TestLibraryAcceptsWritten(t *testing.T) {
	opt := libGenOpt(t)
	var mu sync.Mutex
	nCases, nIsm := 0, 0
	rapid.Check(t, func(rt *rapid.T) {
		tracks := GenTracks(rt, opt)
		lay := GenLayout(rt, tracks, opt)
		init, segs, truth, err := Build(tracks, lay)
		if err != nil {
			rt.Fatalf("Build: %v", err)
		}
		file := Concat(init, segs, truth)
		// the file must be fine by the independent reader first
		p, err := Read(file)
		if err != nil {
			rt.Fatalf("Read: %v", err)
		}
		if err := compareWithTruth(tracks, lay, init, segs, truth, file, p); err != nil {
			rt.Fatalf("reader: %v", err)
		}
		if err := libCheck(tracks, lay, truth, file); err != nil {
			rt.Fatalf("LIBRARY DISAGREES: %v\nlayout: %+v\nfile: %s", err, lay, dumpFile(file))
		}
		mu.Lock()
		nCases++
		mu.Unlock()
		// the same through the mfra-driven segmentation (DecISMFlag)
		if lay.Mfra && (!libSkipIsmMfra || ismShaped(lay, truth)) {
			mu.Lock()
			nIsm++
			mu.Unlock()
			if err := libCheck(tracks, lay, truth, file, mp4.WithDecodeFlags(mp4.DecISMFlag)); err != nil {
				rt.Fatalf("LIBRARY DISAGREES (DecISMFlag): %v\nlayout: %+v\nfile: %s", err, lay, dumpFile(file))
			}
		}
	})
	t.Logf("%d cases compared with the library, %d of them also with DecISMFlag", nCases, nIsm)
}

// ismShaped tells whether the file has the shape the library's mfra-driven segmentation is made
// for: no styp/sidx, every segment is one fragment that starts with its moof, and every tfra has an
// entry for every moof.
func ismShaped(lay FileLayout, truth *Truth) bool {
	if !lay.Mfra || lay.TopSidx {
		return false
	}
	nTracks := 0
	for si := range truth.Segments {
		st := &truth.Segments[si]
		if len(st.Frags) != 1 || len(st.Frags[0].Pre) != 0 || st.Styp != nil || st.Sidx != nil {
			return false
		}
		nTracks = len(st.Frags[0].Tracks)
		for ti := 0; ti < nTracks; ti++ {
			if lay.MfraFirstTrackOnly && ti > 0 {
				break
			}
			has := false
			for _, r := range st.Frags[0].Runs {
				if r.Track == ti {
					has = true
				}
			}
			if !has {
				return false
			}
		}
	}
	return len(truth.Segments) > 0
}

// ---------------------------------------------------------------------------------------------
// Test 3: anchor the reader on real files

func listAnchorFiles() []string {
	var out []string
	var roots []string
	for _, pat := range []string{"mp4/testdata", "cmd/*/testdata", "examples/*/testdata"} {
		m, _ := filepath.Glob(filepath.Join(repoDir, pat))
		roots = append(roots, m...)
	}
	for _, r := range roots {
		_ = filepath.WalkDir(r, func(path string, d os.DirEntry, err error) error {
			if err == nil && !d.IsDir() {
				out = append(out, path)
			}
			return nil
		})
	}
	sort.Strings(out)
	return out
}

func firstType(b []byte) string {
	if len(b) < 8 {
		return ""
	}
	return string(b[4:8])
}

// compareWithLibrary compares the reader and the library on one complete file (init + media).
// It returns (compared samples, fragments, error); ok=false means one of the two did not parse.
func compareWithLibrary(file []byte) (nSamples, nFrags int, skip string, err error) {
	noTfdt := false
	defer func() {
		if noTfdt && err == nil && skip == "" {
			skip = "NOTE no tfdt: times compared relative to the fragment start"
		}
	}()
	p, rerr := Read(file)
	var f *mp4.File
	var lerr error
	func() {
		defer func() {
			if r := recover(); r != nil {
				lerr = fmt.Errorf("panic: %v", r)
			}
		}()
		f, lerr = mp4.DecodeFile(bytes.NewReader(file))
	}()
	if rerr != nil || lerr != nil {
		return 0, 0, fmt.Sprintf("reader: %v; library: %v", rerr, lerr), nil
	}
	if len(p.Moofs) == 0 || !f.IsFragmented() {
		return 0, 0, "not fragmented", nil
	}
	var frags []*mp4.Fragment
	for _, s := range f.Segments {
		frags = append(frags, s.Fragments...)
	}
	if len(frags) != len(p.Moofs) {
		return 0, 0, "", fmt.Errorf("reader sees %d moofs, library %d fragments", len(p.Moofs), len(frags))
	}
	for i, fr := range frags {
		m := &p.Moofs[i]
		if fr.Moof.StartPos != m.Box.Offset {
			return 0, 0, "", fmt.Errorf("fragment %d: moof offset %d vs %d", i, m.Box.Offset, fr.Moof.StartPos)
		}
		ids := map[uint32]bool{}
		for _, tf := range m.Trafs {
			if ids[tf.Tfhd.TrackID] {
				continue
			}
			ids[tf.Tfhd.TrackID] = true
			var trex *mp4.TrexBox
			if f.Init != nil && f.Init.Moov != nil && f.Init.Moov.Mvex != nil {
				for _, x := range f.Init.Moov.Mvex.Trexs {
					if x.TrackID == tf.Tfhd.TrackID {
						trex = x
					}
				}
			}
			if trex == nil {
				for _, x := range p.Trexs {
					if x.TrackID == tf.Tfhd.TrackID {
						return 0, 0, "", fmt.Errorf("fragment %d: reader has a trex for track %d, the library has none", i, tf.Tfhd.TrackID)
					}
				}
				// neither side has a trex and the reader did not need one: all-zero defaults do no harm
				trex = &mp4.TrexBox{TrackID: tf.Tfhd.TrackID}
			}
			var got []mp4.FullSample
			var gerr error
			func() {
				defer func() {
					if r := recover(); r != nil {
						gerr = fmt.Errorf("panic: %v", r)
					}
				}()
				got, gerr = fr.GetFullSamples(trex)
			}()
			if gerr != nil {
				return 0, 0, "", fmt.Errorf("fragment %d track %d: GetFullSamples: %v", i, tf.Tfhd.TrackID, gerr)
			}
			mine := m.TrackSamples(tf.Tfhd.TrackID)
			if len(got) != len(mine) {
				return 0, 0, "", fmt.Errorf("fragment %d track %d: %d samples vs library %d", i, tf.Tfhd.TrackID, len(mine), len(got))
			}
			var t0 uint64
			if !tf.HasTfdt && libNoTfdtStartsAtZero {
				// no tfdt (Smooth Streaming files): the reader continues the track's time line (14496-12
				// 8.8.12: without tfdt the time is the sum of the durations of what came before), the
				// library starts every fragment at 0. Compare relative to the start of the fragment.
				t0 = tf.BaseTime
				noTfdt = true
			}
			for k := range mine {
				a, b := &mine[k], &got[k]
				a.DecodeTime -= t0
				if a.Dur != b.Dur || a.Size != b.Size || a.Flags != b.Flags || int32(a.Cto) != b.CompositionTimeOffset ||
					a.DecodeTime != b.DecodeTime || !bytes.Equal(a.Data, b.Data) {
					return 0, 0, "", fmt.Errorf("fragment %d track %d sample %d: reader dur=%d size=%d flags=%#x cto=%d time=%d off=%d; library dur=%d size=%d flags=%#x cto=%d time=%d (data equal: %v)",
						i, tf.Tfhd.TrackID, k, a.Dur, a.Size, a.Flags, a.Cto, a.DecodeTime, a.Offset,
						b.Dur, b.Size, b.Flags, b.CompositionTimeOffset, b.DecodeTime, bytes.Equal(a.Data, b.Data))
				}
			}
			nSamples += len(mine)
		}
		nFrags++
	}
	return nSamples, nFrags, "", nil
}

func TestAnchorRealFiles(t *testing.T) {
	files := listAnchorFiles()
	type item struct {
		path string
		data []byte
		p    *Parsed // parse of the file alone (nil if it failed)
	}
	var items []item
	for _, path := range files {
		st, err := os.Stat(path)
		if err != nil || st.IsDir() || st.Size() > 64<<20 {
			continue
		}
		b, err := os.ReadFile(path)
		if err != nil || len(b) < 8 {
			continue
		}
		switch firstType(b) {
		case "ftyp", "styp", "moof", "moov", "sidx", "emsg", "prft":
		default:
			continue
		}
		it := item{path: path, data: b}
		if top, err := walk(b, 0, uint64(len(b)), "file"); err == nil {
			pp := &Parsed{}
			for i := range top {
				pp.Boxes = append(pp.Boxes, top[i].Info())
			}
			it.p = pp
		}
		items = append(items, it)
	}
	has := func(p *Parsed, typ string) bool {
		if p == nil {
			return false
		}
		for _, b := range p.Boxes {
			if b.Type == typ {
				return true
			}
		}
		return false
	}
	compared, totalSamples, totalFrags := 0, 0, 0
	for _, it := range items {
		rel := strings.TrimPrefix(it.path, repoDir+"/")
		if !has(it.p, "moof") {
			continue
		}
		var candidates [][]byte
		var names []string
		if has(it.p, "moov") {
			candidates = append(candidates, it.data)
			names = append(names, "self")
		} else {
			// a bare media segment: alone (works when nothing is needed from trex), and paired with
			// every init of the same directory
			candidates = append(candidates, it.data)
			names = append(names, "none")
			for _, in := range items {
				if filepath.Dir(in.path) != filepath.Dir(it.path) || !has(in.p, "moov") || has(in.p, "moof") || has(in.p, "mdat") {
					continue
				}
				candidates = append(candidates, append(append([]byte(nil), in.data...), it.data...))
				names = append(names, filepath.Base(in.path))
			}
		}
		done := false
		for ci, file := range candidates {
			ns, nf, skip, err := compareWithLibrary(file)
			if err != nil {
				t.Errorf("%s (init %s): %v", rel, names[ci], err)
				done = true
				continue
			}
			if strings.HasPrefix(skip, "NOTE") {
				t.Logf("%s (init %s): %s", rel, names[ci], skip)
			} else if skip != "" {
				t.Logf("skip %s (init %s): %s", rel, names[ci], skip)
				continue
			}
			t.Logf("ok   %s (init %s): %d fragments, %d samples equal", rel, names[ci], nf, ns)
			compared++
			totalSamples += ns
			totalFrags += nf
			done = true
		}
		if !done {
			t.Logf("none %s: no combination parsed by both", rel)
		}
	}
	t.Logf("%d file combinations compared, %d fragments, %d samples", compared, totalFrags, totalSamples)
	if compared < 5 {
		t.Errorf("only %d real files compared", compared)
	}
}
