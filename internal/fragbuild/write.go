package fragbuild

import (
	"encoding/binary"
	"fmt"
)

// ---------------------------------------------------------------------------------------------
// byte sink

type sink struct{ b []byte }

func (w *sink) pos() int     { return len(w.b) }
func (w *sink) u8(v uint8)   { w.b = append(w.b, v) }
func (w *sink) u16(v uint16) { w.b = binary.BigEndian.AppendUint16(w.b, v) }
func (w *sink) u24(v uint32) { w.b = append(w.b, byte(v>>16), byte(v>>8), byte(v)) }
func (w *sink) u32(v uint32) { w.b = binary.BigEndian.AppendUint32(w.b, v) }
func (w *sink) u64(v uint64) { w.b = binary.BigEndian.AppendUint64(w.b, v) }
func (w *sink) raw(p []byte) { w.b = append(w.b, p...) }
func (w *sink) zeros(n int)  { w.b = append(w.b, make([]byte, n)...) }
func (w *sink) fourcc(s string) {
	var t [4]byte
	copy(t[:], s)
	for i := len(s); i < 4; i++ {
		t[i] = ' '
	}
	w.b = append(w.b, t[:]...)
}

// open starts a box with a 32-bit size to be patched by close.
func (w *sink) open(typ string) int {
	p := w.pos()
	w.u32(0)
	w.fourcc(typ)
	return p
}

func (w *sink) openFull(typ string, version uint8, flags uint32) int {
	p := w.open(typ)
	w.u32(uint32(version)<<24 | flags&0xffffff)
	return p
}

func (w *sink) close(start int) {
	binary.BigEndian.PutUint32(w.b[start:], uint32(len(w.b)-start))
}

func (w *sink) patch32(at int, v uint32) { binary.BigEndian.PutUint32(w.b[at:], v) }

func (w *sink) extra(x ExtraBox) {
	p := w.open(x.Type)
	if x.Type == "uuid" {
		var u [16]byte
		copy(u[:], x.UUID)
		w.raw(u[:])
	}
	w.raw(x.Payload)
	w.close(p)
}

var unityMatrix = [9]uint32{0x00010000, 0, 0, 0, 0x00010000, 0, 0, 0, 0x40000000}

// ---------------------------------------------------------------------------------------------
// init segment

func writeInit(w *sink, tracks []Track) {
	p := w.open("ftyp")
	w.fourcc("iso6")
	w.u32(0)
	w.fourcc("iso6")
	w.fourcc("cmfc")
	w.fourcc("dash")
	w.close(p)

	moov := w.open("moov")
	mv := w.openFull("mvhd", 0, 0)
	w.u32(0) // creation_time
	w.u32(0) // modification_time
	w.u32(1000)
	w.u32(0)          // duration
	w.u32(0x00010000) // rate
	w.u16(0x0100)     // volume
	w.zeros(2 + 8)
	for _, m := range unityMatrix {
		w.u32(m)
	}
	w.zeros(24) // pre_defined
	var maxID uint32
	for _, t := range tracks {
		if t.ID > maxID {
			maxID = t.ID
		}
	}
	next := maxID + 1
	if next == 0 {
		next = 0xffffffff
	}
	w.u32(next)
	w.close(mv)

	for i := range tracks {
		writeTrak(w, &tracks[i])
	}

	mvex := w.open("mvex")
	for _, t := range tracks {
		x := w.openFull("trex", 0, 0)
		w.u32(t.ID)
		w.u32(t.Trex.DescIdx)
		w.u32(t.Trex.Dur)
		w.u32(t.Trex.Size)
		w.u32(t.Trex.Flags)
		w.close(x)
	}
	w.close(mvex)
	w.close(moov)
}

func writeTrak(w *sink, t *Track) {
	trak := w.open("trak")
	tk := w.openFull("tkhd", 0, 7)
	w.u32(0)
	w.u32(0)
	w.u32(t.ID)
	w.u32(0) // reserved
	w.u32(0) // duration
	w.zeros(8)
	w.u16(0) // layer
	w.u16(0) // alternate_group
	if t.Handler == "soun" {
		w.u16(0x0100)
	} else {
		w.u16(0)
	}
	w.u16(0)
	for _, m := range unityMatrix {
		w.u32(m)
	}
	w.u32(uint32(t.Width) << 16)
	w.u32(uint32(t.Height) << 16)
	w.close(tk)

	mdia := w.open("mdia")
	md := w.openFull("mdhd", 0, 0)
	w.u32(0)
	w.u32(0)
	w.u32(t.Timescale)
	w.u32(0)
	w.u16(0x55c4) // "und"
	w.u16(0)
	w.close(md)

	h := w.openFull("hdlr", 0, 0)
	w.u32(0)
	w.fourcc(t.Handler)
	w.zeros(12)
	w.raw([]byte("fragbuild " + t.Handler))
	w.u8(0)
	w.close(h)

	minf := w.open("minf")
	switch t.Handler {
	case "vide":
		b := w.openFull("vmhd", 0, 1)
		w.zeros(8)
		w.close(b)
	case "soun":
		b := w.openFull("smhd", 0, 0)
		w.zeros(4)
		w.close(b)
	case "subt":
		b := w.openFull("sthd", 0, 0)
		w.close(b)
	default:
		b := w.openFull("nmhd", 0, 0)
		w.close(b)
	}
	dinf := w.open("dinf")
	dref := w.openFull("dref", 0, 0)
	w.u32(1)
	u := w.openFull("url ", 0, 1)
	w.close(u)
	w.close(dref)
	w.close(dinf)

	stbl := w.open("stbl")
	w.raw(t.StsdRaw)
	b := w.openFull("stts", 0, 0)
	w.u32(0)
	w.close(b)
	b = w.openFull("stsc", 0, 0)
	w.u32(0)
	w.close(b)
	b = w.openFull("stsz", 0, 0)
	w.u32(0)
	w.u32(0)
	w.close(b)
	b = w.openFull("stco", 0, 0)
	w.u32(0)
	w.close(b)
	w.close(stbl)
	w.close(minf)
	w.close(mdia)
	w.close(trak)
}

// ---------------------------------------------------------------------------------------------
// fragments

type runPlan struct {
	track    int
	first, n int
	order    int // index in Frag.Runs
	traf     int
	trun     int
	dataAbs  uint64
	offField int // position of the data_offset field in the sink, -1 if left out
}

type trafPlan struct {
	track int
	runs  []*runPlan
}

type fieldDefault struct {
	has    bool
	val    uint32
	inTfhd bool
}

func allEq(vals []uint32, v uint32) bool {
	for _, x := range vals {
		if x != v {
			return false
		}
	}
	return true
}

func pickDefault(o FragOpts, trexVal uint32, vals []uint32) fieldDefault {
	if o.ForceAllPerSample {
		return fieldDefault{}
	}
	if o.TfhdDefaults && len(vals) > 0 && allEq(vals, vals[0]) {
		if o.UseTrex && vals[0] == trexVal {
			return fieldDefault{has: true, val: trexVal}
		}
		return fieldDefault{has: true, val: vals[0], inTfhd: true}
	}
	if o.UseTrex {
		return fieldDefault{has: true, val: trexVal}
	}
	return fieldDefault{}
}

const (
	trunDataOffset  = 0x000001
	trunFirstFlags  = 0x000004
	trunDur         = 0x000100
	trunSize        = 0x000200
	trunFlags       = 0x000400
	trunCto         = 0x000800
	tfhdBase        = 0x000001
	tfhdDescIdx     = 0x000002
	tfhdDur         = 0x000008
	tfhdSize        = 0x000010
	tfhdFlags       = 0x000020
	tfhdBaseIsMoof  = 0x020000
	sidxRefSAPType1 = 0x90000000 // starts_with_SAP=1, SAP_type=1, SAP_delta_time=0
)

type builder struct {
	w      sink
	tracks []Track
	next   []int    // next sample index per track
	time   []uint64 // decode time of the next sample per track
	seq    uint32
	truth  *Truth
}

func (b *builder) top(typ string, off, size int) BoxInfo {
	bi := BoxInfo{Type: typ, Offset: uint64(off), Size: uint64(size)}
	b.truth.Boxes = append(b.truth.Boxes, bi)
	return bi
}

func (b *builder) writeFrag(fr *Frag) (FragTruth, error) {
	w := &b.w
	ft := FragTruth{Offset: uint64(w.pos()), Seq: b.seq, Tracks: make([]TrackRange, len(b.tracks))}
	for i := range ft.Tracks {
		ft.Tracks[i].First = b.next[i]
	}
	for _, x := range fr.PreBoxes {
		p := w.pos()
		w.extra(x)
		ft.Pre = append(ft.Pre, b.top(x.Type, p, w.pos()-p))
	}

	// plan: sample ranges and traf grouping
	runs := make([]*runPlan, 0, len(fr.Runs))
	var trafs []*trafPlan
	startTime := map[int]uint64{} // traf index -> tfdt
	for i, r := range fr.Runs {
		if r.Track < 0 || r.Track >= len(b.tracks) {
			return ft, fmt.Errorf("fragbuild: run %d: track index %d out of range", i, r.Track)
		}
		if r.N < 0 || b.next[r.Track]+r.N > len(b.tracks[r.Track].Samples) {
			return ft, fmt.Errorf("fragbuild: run %d: track index %d has no %d samples left", i, r.Track, r.N)
		}
		rp := &runPlan{track: r.Track, first: b.next[r.Track], n: r.N, order: i, offField: -1}
		ti := -1
		if !fr.SplitTrafs {
			for k, tp := range trafs {
				if tp.track == r.Track {
					ti = k
					break
				}
			}
		}
		if ti < 0 {
			ti = len(trafs)
			trafs = append(trafs, &trafPlan{track: r.Track})
			startTime[ti] = b.time[r.Track]
		}
		rp.traf, rp.trun = ti, len(trafs[ti].runs)
		trafs[ti].runs = append(trafs[ti].runs, rp)
		runs = append(runs, rp)
		tr := &b.tracks[r.Track]
		for k := 0; k < r.N; k++ {
			b.time[r.Track] += uint64(tr.Samples[rp.first+k].Dur)
		}
		b.next[r.Track] += r.N
		ft.Tracks[r.Track].N += r.N
	}

	moofStart := w.pos()
	moof := w.open("moof")
	m := w.openFull("mfhd", 0, 0)
	w.u32(b.seq)
	w.close(m)
	for _, x := range fr.InMoofBoxes {
		w.extra(x)
	}
	o := fr.Opts
	for ti, tp := range trafs {
		tr := &b.tracks[tp.track]
		// values of the whole traf
		var durs, sizes, flags, flagsTail []uint32
		for _, rp := range tp.runs {
			for k := 0; k < rp.n; k++ {
				s := &tr.Samples[rp.first+k]
				durs = append(durs, s.Dur)
				sizes = append(sizes, uint32(len(s.Data)))
				flags = append(flags, s.Flags)
				if k > 0 {
					flagsTail = append(flagsTail, s.Flags)
				}
			}
		}
		dDur := pickDefault(o, tr.Trex.Dur, durs)
		dSize := pickDefault(o, tr.Trex.Size, sizes)
		fl := flags
		if o.FirstSampleFlags && len(flagsTail) > 0 {
			fl = flagsTail
		}
		dFlags := pickDefault(o, tr.Trex.Flags, fl)

		traf := w.open("traf")
		var tf uint32
		switch o.Base {
		case 0:
			tf |= tfhdBaseIsMoof
		case 1, 3:
			tf |= tfhdBase
		case 2:
		default:
			return ft, fmt.Errorf("fragbuild: FragOpts.Base %d", o.Base)
		}
		if o.TfhdDescIdx {
			tf |= tfhdDescIdx
		}
		if dDur.inTfhd {
			tf |= tfhdDur
		}
		if dSize.inTfhd {
			tf |= tfhdSize
		}
		if dFlags.inTfhd {
			tf |= tfhdFlags
		}
		h := w.openFull("tfhd", 0, tf)
		w.u32(tr.ID)
		if tf&tfhdBase != 0 {
			if o.Base == 3 {
				w.u64(uint64(moofStart) / 2) // some other absolute position: the data offsets count from there
			} else {
				w.u64(uint64(moofStart))
			}
		}
		if tf&tfhdDescIdx != 0 {
			w.u32(tr.Trex.DescIdx)
		}
		if dDur.inTfhd {
			w.u32(dDur.val)
		}
		if dSize.inTfhd {
			w.u32(dSize.val)
		}
		if dFlags.inTfhd {
			w.u32(dFlags.val)
		}
		w.close(h)

		t0 := startTime[ti]
		if o.TfdtVersion == 1 || t0 > 0xffffffff {
			d := w.openFull("tfdt", 1, 0)
			w.u64(t0)
			w.close(d)
		} else {
			d := w.openFull("tfdt", 0, 0)
			w.u32(uint32(t0))
			w.close(d)
		}

		for ri, rp := range tp.runs {
			ss := tr.Samples[rp.first : rp.first+rp.n]
			var rf uint32
			var firstFlags uint32
			version := uint8(0)
			if o.TrunVersion == 1 {
				version = 1
			}
			if o.ForceAllPerSample {
				rf = trunDur | trunSize | trunFlags | trunCto
			} else {
				same := func(d fieldDefault, get func(*Sample) uint32, from int) bool {
					if !d.has {
						return false
					}
					for k := from; k < len(ss); k++ {
						if get(&ss[k]) != d.val {
							return false
						}
					}
					return true
				}
				getDur := func(s *Sample) uint32 { return s.Dur }
				getSize := func(s *Sample) uint32 { return uint32(len(s.Data)) }
				getFlags := func(s *Sample) uint32 { return s.Flags }
				if len(ss) > 0 {
					if !same(dDur, getDur, 0) {
						rf |= trunDur
					}
					if !same(dSize, getSize, 0) {
						rf |= trunSize
					}
					switch {
					case same(dFlags, getFlags, 0):
					case o.FirstSampleFlags && same(dFlags, getFlags, 1):
						rf |= trunFirstFlags
						firstFlags = ss[0].Flags
					default:
						rf |= trunFlags
					}
					for k := range ss {
						if ss[k].Cto != 0 {
							rf |= trunCto
						}
					}
				}
			}
			for k := range ss {
				if ss[k].Cto < 0 {
					version = 1
				}
			}
			// data_offset: always, unless asked to leave it out for a contiguous follow-up run
			withOffset := true
			if o.OmitContiguousDataOffset && ri > 0 && tp.runs[ri-1].order == rp.order-1 {
				withOffset = false
			}
			if withOffset {
				rf |= trunDataOffset
			}
			tb := w.openFull("trun", version, rf)
			w.u32(uint32(len(ss)))
			if withOffset {
				rp.offField = w.pos()
				w.u32(0)
			}
			if rf&trunFirstFlags != 0 {
				w.u32(firstFlags)
			}
			for k := range ss {
				if rf&trunDur != 0 {
					w.u32(ss[k].Dur)
				}
				if rf&trunSize != 0 {
					w.u32(uint32(len(ss[k].Data)))
				}
				if rf&trunFlags != 0 {
					w.u32(ss[k].Flags)
				}
				if rf&trunCto != 0 {
					w.u32(uint32(ss[k].Cto))
				}
			}
			w.close(tb)
		}
		for _, x := range fr.InTrafBoxes {
			w.extra(x)
		}
		w.close(traf)
	}
	w.close(moof)
	ft.Moof = b.top("moof", moofStart, w.pos()-moofStart)

	// mdat
	mdatStart := w.pos()
	var payload int
	for _, rp := range runs {
		tr := &b.tracks[rp.track]
		for k := 0; k < rp.n; k++ {
			payload += len(tr.Samples[rp.first+k].Data)
		}
	}
	if fr.MdatLarge {
		w.u32(1)
		w.fourcc("mdat")
		w.u64(uint64(16 + payload))
	} else {
		w.u32(uint32(8 + payload))
		w.fourcc("mdat")
	}
	ft.MdatPayload = uint64(w.pos())
	for _, rp := range runs {
		rp.dataAbs = uint64(w.pos())
		tr := &b.tracks[rp.track]
		for k := 0; k < rp.n; k++ {
			w.raw(tr.Samples[rp.first+k].Data)
		}
	}
	ft.Mdat = b.top("mdat", mdatStart, w.pos()-mdatStart)

	// data offsets
	prevTrafEnd := uint64(moofStart)
	for _, tp := range trafs {
		base := uint64(moofStart)
		if o.Base == 2 {
			base = prevTrafEnd
		}
		if o.Base == 3 {
			base = uint64(moofStart) / 2
		}
		for _, rp := range tp.runs {
			if rp.offField >= 0 {
				d := int64(rp.dataAbs) - int64(base)
				if d > 0x7fffffff || d < -0x80000000 {
					return ft, fmt.Errorf("fragbuild: data_offset %d does not fit", d)
				}
				w.patch32(rp.offField, uint32(int32(d)))
			}
			end := rp.dataAbs
			tr := &b.tracks[rp.track]
			for k := 0; k < rp.n; k++ {
				end += uint64(len(tr.Samples[rp.first+k].Data))
			}
			prevTrafEnd = end
		}
	}
	for _, rp := range runs {
		ft.Runs = append(ft.Runs, RunTruth{Track: rp.track, First: rp.first, N: rp.n, DataOffset: rp.dataAbs,
			Traf: rp.traf, Trun: rp.trun})
	}
	ft.Size = uint64(w.pos()) - ft.Offset
	b.seq++
	return ft, nil
}

// sidxSize returns the byte size of a sidx with n references.
func sidxSize(version uint8, n int) int {
	s := 12 + 8 + 4 + 12*n
	if version == 0 {
		return s + 8
	}
	return s + 16
}

type sidxRefData struct {
	size uint32
	dur  uint32
}

func writeSidxAt(dst []byte, version uint8, refID, timescale uint32, ept uint64, refs []sidxRefData) {
	writeSidxFO(dst, version, refID, timescale, ept, 0, refs)
}

// writeSidxFO writes a sidx with the given first_offset.
func writeSidxFO(dst []byte, version uint8, refID, timescale uint32, ept, firstOffset uint64, refs []sidxRefData) {
	var w sink
	p := w.openFull("sidx", version, 0)
	w.u32(refID)
	w.u32(timescale)
	if version == 0 {
		w.u32(uint32(ept))
		w.u32(uint32(firstOffset))
	} else {
		w.u64(ept)
		w.u64(firstOffset)
	}
	w.u16(0)
	w.u16(uint16(len(refs)))
	for _, r := range refs {
		w.u32(r.size & 0x7fffffff)
		w.u32(r.dur)
		w.u32(sidxRefSAPType1)
	}
	w.close(p)
	copy(dst, w.b)
}

// segment-level facts about the reference track (tracks[0])
type segRef struct {
	ept uint64
	dur uint64
}

func (b *builder) refOf(first, n int) segRef {
	tr := &b.tracks[0]
	t0 := tr.DecodeTime(first)
	r := segRef{ept: t0}
	if n > 0 {
		p := int64(t0) + int64(tr.Samples[first].Cto)
		if p < 0 {
			p = 0
		}
		r.ept = uint64(p)
	}
	for k := 0; k < n; k++ {
		r.dur += uint64(tr.Samples[first+k].Dur)
	}
	return r
}

func countTrack0(seg *Segment) int {
	n := 0
	for _, f := range seg.Frags {
		for _, r := range f.Runs {
			if r.Track == 0 {
				n += r.N
			}
		}
	}
	return n
}

func sidxVersion(ept uint64) uint8 {
	if ept > 0xffffffff {
		return 1
	}
	return 0
}

// Build writes the model with the given layout. The file is init ++ concat(segments) ++
// truth.MfraBytes (see Concat); a TopSidx is placed at the end of the returned init bytes.
// All offsets in truth are absolute in that file. A layout need not place all samples
// (truth.Consumed tells), but it cannot place more than there are.
func Build(tracks []Track, lay FileLayout) (init []byte, segments [][]byte, truth *Truth, err error) {
	if len(tracks) == 0 {
		return nil, nil, nil, fmt.Errorf("fragbuild: no tracks")
	}
	seen := map[uint32]bool{}
	for i, t := range tracks {
		if t.ID == 0 || seen[t.ID] {
			return nil, nil, nil, fmt.Errorf("fragbuild: track %d: ID %d is zero or repeated", i, t.ID)
		}
		seen[t.ID] = true
		if len(t.StsdRaw) < 16 || string(t.StsdRaw[4:8]) != "stsd" ||
			int(binary.BigEndian.Uint32(t.StsdRaw)) != len(t.StsdRaw) {
			return nil, nil, nil, fmt.Errorf("fragbuild: track %d: StsdRaw is not one complete stsd box", i)
		}
	}
	if len(lay.Segments) > 0xffff {
		return nil, nil, nil, fmt.Errorf("fragbuild: too many segments for one sidx")
	}
	truth = &Truth{}
	b := &builder{tracks: tracks, next: make([]int, len(tracks)), time: make([]uint64, len(tracks)),
		seq: lay.SeqStart, truth: truth}
	for i := range tracks {
		b.time[i] = tracks[i].StartTime
	}
	w := &b.w
	writeInit(w, tracks)
	truth.InitSize = uint64(w.pos())
	// top-level boxes of the init
	for p := 0; p < w.pos(); {
		sz := int(binary.BigEndian.Uint32(w.b[p:]))
		b.top(string(w.b[p+4:p+8]), p, sz)
		p += sz
	}

	topSidxAt, topSidxVer := -1, uint8(0)
	topSidx2At := -1
	split := lay.TopSidx && lay.TopSidxSplit > 0 && lay.TopSidxSplit < len(lay.Segments)
	var segEPT []uint64
	if lay.TopSidx {
		n0 := 0
		if len(lay.Segments) > 0 {
			n0 = countTrack0(&lay.Segments[0])
		}
		if n0 > len(tracks[0].Samples) {
			n0 = len(tracks[0].Samples)
		}
		topSidxVer = sidxVersion(b.refOf(0, n0).ept)
		topSidxAt = w.pos()
		if split {
			topSidxVer = 1
			w.zeros(sidxSize(1, lay.TopSidxSplit))
			bi := b.top("sidx", topSidxAt, w.pos()-topSidxAt)
			truth.TopSidx = &bi
			topSidx2At = w.pos()
			w.zeros(sidxSize(1, len(lay.Segments)-lay.TopSidxSplit))
			bi2 := b.top("sidx", topSidx2At, w.pos()-topSidx2At)
			truth.TopSidx2 = &bi2
		} else {
			w.zeros(sidxSize(topSidxVer, len(lay.Segments)))
			bi := b.top("sidx", topSidxAt, w.pos()-topSidxAt)
			truth.TopSidx = &bi
		}
		if lay.TopSidxGap >= 16 && lay.TopSidxGapLarge {
			p := w.pos()
			w.u32(1)
			w.b = append(w.b, "free"...)
			w.u64(uint64(lay.TopSidxGap))
			w.zeros(lay.TopSidxGap - 16)
			b.top("free", p, w.pos()-p)
		} else if lay.TopSidxGap >= 8 {
			p := w.open("free")
			w.zeros(lay.TopSidxGap - 8)
			w.close(p)
			b.top("free", p, w.pos()-p)
		}
	}
	initEnd := w.pos()

	var topRefs []sidxRefData
	var topEPT uint64
	type tfraEntry struct {
		time, moof      uint64
		traf, trun, smp uint32
	}
	tfra := make([][]tfraEntry, len(tracks))
	segEnds := make([]int, 0, len(lay.Segments))

	for si := range lay.Segments {
		seg := &lay.Segments[si]
		st := SegTruth{Index: si, Offset: uint64(w.pos())}
		if seg.Styp {
			p := w.open("styp")
			w.fourcc("msdh")
			w.u32(0)
			w.fourcc("msdh")
			w.fourcc("msix")
			w.close(p)
			bi := b.top("styp", p, w.pos()-p)
			st.Styp = &bi
		}
		first0 := b.next[0]
		sidxAt, sidxVer := -1, uint8(0)
		if seg.Sidx {
			n0 := countTrack0(seg)
			if first0+n0 > len(tracks[0].Samples) {
				return nil, nil, nil, fmt.Errorf("fragbuild: segment %d: track index 0 has no %d samples left", si, n0)
			}
			sidxVer = sidxVersion(b.refOf(first0, n0).ept)
			sidxAt = w.pos()
			w.zeros(sidxSize(sidxVer, 1))
			bi := b.top("sidx", sidxAt, w.pos()-sidxAt)
			st.Sidx = &bi
		}
		anchor := w.pos()
		for fi := range seg.Frags {
			timesBefore := append([]uint64(nil), b.time...)
			ft, e := b.writeFrag(&seg.Frags[fi])
			if e != nil {
				return nil, nil, nil, fmt.Errorf("segment %d fragment %d: %w", si, fi, e)
			}
			if fi == 0 {
				// tfra entries: tracks that have a traf in the first moof of the segment
				for ti := range tracks {
					for _, r := range ft.Runs {
						if r.Track == ti {
							tfra[ti] = append(tfra[ti], tfraEntry{time: timesBefore[ti], moof: ft.Moof.Offset,
								traf: uint32(r.Traf + 1), trun: uint32(r.Trun + 1), smp: 1})
							break
						}
					}
				}
			}
			st.Frags = append(st.Frags, ft)
		}
		st.Size = uint64(w.pos()) - st.Offset
		ref := b.refOf(first0, b.next[0]-first0)
		if ref.dur > 0xffffffff {
			if seg.Sidx || lay.TopSidx {
				return nil, nil, nil, fmt.Errorf("fragbuild: segment %d: subsegment_duration overflow", si)
			}
		}
		if seg.Sidx {
			writeSidxAt(w.b[sidxAt:], sidxVer, tracks[0].ID, tracks[0].Timescale, ref.ept,
				[]sidxRefData{{size: uint32(w.pos() - anchor), dur: uint32(ref.dur)}})
		}
		if si == 0 {
			topEPT = ref.ept
		}
		segEPT = append(segEPT, ref.ept)
		topRefs = append(topRefs, sidxRefData{size: uint32(st.Size), dur: uint32(ref.dur)})
		truth.Segments = append(truth.Segments, st)
		segEnds = append(segEnds, w.pos())
	}
	if lay.TopSidx {
		if !split && sidxVersion(topEPT) != topSidxVer && len(lay.Segments) > 0 {
			return nil, nil, nil, fmt.Errorf("fragbuild: internal: top sidx version changed")
		}
		gap := uint64(0)
		if lay.TopSidxGap >= 8 {
			gap = uint64(lay.TopSidxGap)
		}
		if split {
			k := lay.TopSidxSplit
			var skipped uint64
			for _, r := range topRefs[:k] {
				skipped += uint64(r.size)
			}
			writeSidxFO(w.b[topSidxAt:], 1, tracks[0].ID, tracks[0].Timescale, topEPT, gap+truth.TopSidx2.Size, topRefs[:k])
			writeSidxFO(w.b[topSidx2At:], 1, tracks[0].ID, tracks[0].Timescale, segEPT[k], gap+skipped, topRefs[k:])
		} else {
			writeSidxFO(w.b[topSidxAt:], topSidxVer, tracks[0].ID, tracks[0].Timescale, topEPT, gap, topRefs)
		}
	}
	mediaEnd := w.pos()

	if lay.Mfra {
		p := w.open("mfra")
		for ti := range tracks {
			if (lay.MfraFirstTrackOnly && ti > 0) || lay.MfraNoTfra {
				break
			}
			ver := uint8(0)
			for _, e := range tfra[ti] {
				if e.time > 0xffffffff || e.moof > 0xffffffff {
					ver = 1
				}
			}
			t := w.openFull("tfra", ver, 0)
			w.u32(tracks[ti].ID)
			// length_size_of_traf_num / trun_num / sample_num (2 bits each, number of bytes minus 1): 0 unless the layout
			// asks for wider fields
			ls := uint32(lay.MfraLenSizes) & 0x3f
			w.u32(ls)
			w.u32(uint32(len(tfra[ti])))
			for _, e := range tfra[ti] {
				if ver == 1 {
					w.u64(e.time)
					w.u64(e.moof)
				} else {
					w.u32(uint32(e.time))
					w.u32(uint32(e.moof))
				}
				if e.traf > 255 || e.trun > 255 {
					return nil, nil, nil, fmt.Errorf("fragbuild: tfra traf/trun number does not fit one byte")
				}
				for k, v := range []uint32{uint32(e.traf), uint32(e.trun), uint32(e.smp)} {
					for n := int(ls>>uint(4-2*k)) & 3; n >= 0; n-- {
						w.u8(uint8(v >> uint(8*n)))
					}
				}
			}
			w.close(t)
		}
		m := w.openFull("mfro", 0, 0)
		w.u32(uint32(w.pos() + 4 - p))
		w.close(m)
		w.close(p)
		bi := b.top("mfra", p, w.pos()-p)
		truth.Mfra = &bi
		truth.MfraBytes = append([]byte(nil), w.b[mediaEnd:]...)
	}

	init = append([]byte(nil), w.b[:initEnd]...)
	prev := initEnd
	for _, e := range segEnds {
		segments = append(segments, append([]byte(nil), w.b[prev:e]...))
		prev = e
	}
	truth.Consumed = append([]int(nil), b.next...)
	return init, segments, truth, nil
}
