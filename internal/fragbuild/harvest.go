package fragbuild

import (
	"encoding/binary"
	"fmt"
	"os"
	"path/filepath"
	"sort"
)

// stsdEntryType returns the type of the first sample entry of a complete stsd box.
func stsdEntryType(stsd []byte) string {
	if len(stsd) < 24 {
		return ""
	}
	return string(stsd[20:24])
}

// HarvestStsd collects real stsd boxes from the files under repoDir/mp4/testdata: the first
// avc1/avc3/hvc1/hev1 video stsd and the first mp4a audio stsd (files in name order). The files are
// walked with this package's own reader.
func HarvestStsd(repoDir string) (video, audio []byte, err error) {
	dir := filepath.Join(repoDir, "mp4", "testdata")
	ents, err := os.ReadDir(dir)
	if err != nil {
		return nil, nil, err
	}
	var names []string
	for _, e := range ents {
		if !e.IsDir() {
			names = append(names, e.Name())
		}
	}
	sort.Strings(names)
	for _, n := range names {
		if video != nil && audio != nil {
			break
		}
		b, e := os.ReadFile(filepath.Join(dir, n))
		if e != nil || len(b) < 16 || len(b) > 8<<20 {
			continue
		}
		if t := string(b[4:8]); t != "ftyp" && t != "styp" && t != "moov" {
			continue
		}
		p, e := Read(b)
		if e != nil {
			// a progressive or damaged file may still have a usable moov
			p, e = readMoovOnly(b)
			if e != nil {
				continue
			}
		}
		for i := range p.Tracks {
			t := &p.Tracks[i]
			if len(t.StsdRaw) > 4096 || len(t.StsdRaw) < 24 || binary.BigEndian.Uint32(t.StsdRaw[12:]) != 1 {
				continue
			}
			switch stsdEntryType(t.StsdRaw) {
			case "avc1", "avc3", "hvc1", "hev1":
				if video == nil && t.Handler == "vide" {
					video = append([]byte(nil), t.StsdRaw...)
				}
			case "mp4a":
				if audio == nil && t.Handler == "soun" {
					audio = append([]byte(nil), t.StsdRaw...)
				}
			}
		}
	}
	if video == nil || audio == nil {
		return video, audio, fmt.Errorf("fragbuild: HarvestStsd: video found=%v audio found=%v under %s", video != nil, audio != nil, dir)
	}
	return video, audio, nil
}

func readMoovOnly(file []byte) (*Parsed, error) {
	top, err := walk(file, 0, uint64(len(file)), "file")
	if err != nil {
		return nil, err
	}
	mv, n := one(top, "moov")
	if n != 1 {
		return nil, fmt.Errorf("no moov")
	}
	p := &Parsed{HasMoov: true}
	if err := parseMoov(file, mv, p); err != nil {
		return nil, err
	}
	return p, nil
}

// WvttStsd returns a hand-made stsd with one wvtt sample entry (for "text" tracks).
func WvttStsd() []byte {
	cfg := []byte("WEBVTT")
	vttc := make([]byte, 0, 8+len(cfg))
	vttc = binary.BigEndian.AppendUint32(vttc, uint32(8+len(cfg)))
	vttc = append(vttc, "vttC"...)
	vttc = append(vttc, cfg...)
	entry := make([]byte, 0, 16+len(vttc))
	entry = binary.BigEndian.AppendUint32(entry, uint32(16+len(vttc)))
	entry = append(entry, "wvtt"...)
	entry = append(entry, 0, 0, 0, 0, 0, 0, 0, 1) // reserved, data_reference_index
	entry = append(entry, vttc...)
	out := make([]byte, 0, 16+len(entry))
	out = binary.BigEndian.AppendUint32(out, uint32(16+len(entry)))
	out = append(out, "stsd"...)
	out = append(out, 0, 0, 0, 0, 0, 0, 0, 1)
	out = append(out, entry...)
	return out
}
