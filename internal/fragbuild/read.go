package fragbuild

import (
	"encoding/binary"
	"fmt"
)

// This file is the independent reader. It shares no code with write.go.

// PBox is a box found by the walker.
type PBox struct {
	Type    string
	Offset  uint64 // absolute offset of the box header
	Size    uint64 // total size incl. header
	HdrLen  int    // 8, 16 (largesize), +16 for uuid
	UUID    []byte // for Type "uuid"
	ToEnd   bool   // the size field was 0 (box extends to the end of the file)
	Raw     []byte // complete box bytes
	Payload []byte // after the header (and uuid)
}

// Info returns type/offset/size.
func (b *PBox) Info() BoxInfo { return BoxInfo{Type: b.Type, Offset: b.Offset, Size: b.Size} }

// PTrex is a parsed trex.
type PTrex struct {
	TrackID, DescIdx, Dur, Size, Flags uint32
}

// PTrack is a trak of the moov.
type PTrack struct {
	ID            uint32
	TkhdVersion   uint8
	TkhdFlags     uint32
	Width, Height uint32 // 16.16 fixed point
	Timescale     uint32
	MdhdVersion   uint8
	Duration      uint64 // mdhd duration
	Language      uint16
	Handler       string
	HandlerName   string
	MediaHeader   string // vmhd | smhd | nmhd | sthd | ...
	StsdRaw       []byte
	SttsEntries   uint32
	StszCount     uint32
	StcoEntries   uint32
	Trex          *PTrex // nil if mvex has none for this track
}

// PSample is a fully resolved sample.
type PSample struct {
	Dur, Size, Flags uint32
	Cto              int64 // unsigned value for trun version 0, signed for version 1
	DecodeTime       uint64
	Offset           uint64 // absolute file offset
	Data             []byte
}

// PTfhd is a parsed tfhd.
type PTfhd struct {
	Version        uint8
	Flags          uint32
	TrackID        uint32
	BaseDataOffset uint64
	DescIdx        uint32
	DefDur         uint32
	DefSize        uint32
	DefFlags       uint32
}

func (t *PTfhd) HasBaseDataOffset() bool { return t.Flags&0x000001 != 0 }
func (t *PTfhd) HasDescIdx() bool        { return t.Flags&0x000002 != 0 }
func (t *PTfhd) HasDefDur() bool         { return t.Flags&0x000008 != 0 }
func (t *PTfhd) HasDefSize() bool        { return t.Flags&0x000010 != 0 }
func (t *PTfhd) HasDefFlags() bool       { return t.Flags&0x000020 != 0 }
func (t *PTfhd) DurationIsEmpty() bool   { return t.Flags&0x010000 != 0 }
func (t *PTfhd) DefaultBaseIsMoof() bool { return t.Flags&0x020000 != 0 }

// PTrunEntry is one per-sample record of a trun as stored (absent fields are zero).
type PTrunEntry struct {
	Dur, Size, Flags, CtoRaw uint32
}

// PTrun is a parsed trun plus its resolved samples.
type PTrun struct {
	Box              BoxInfo
	Version          uint8
	Flags            uint32
	SampleCount      uint32
	DataOffset       int32
	FirstSampleFlags uint32
	Entries          []PTrunEntry
	Start            uint64 // resolved absolute offset of the run data
	Samples          []PSample
}

func (t *PTrun) HasDataOffset() bool       { return t.Flags&0x000001 != 0 }
func (t *PTrun) HasFirstSampleFlags() bool { return t.Flags&0x000004 != 0 }
func (t *PTrun) HasDur() bool              { return t.Flags&0x000100 != 0 }
func (t *PTrun) HasSize() bool             { return t.Flags&0x000200 != 0 }
func (t *PTrun) HasFlags() bool            { return t.Flags&0x000400 != 0 }
func (t *PTrun) HasCto() bool              { return t.Flags&0x000800 != 0 }

// PTraf is a parsed traf.
type PTraf struct {
	Box         BoxInfo
	TfhdBox     BoxInfo
	Tfhd        PTfhd
	HasTfdt     bool
	TfdtVersion uint8
	BaseTime    uint64 // tfdt value, or the continuation time if there is no tfdt
	Truns       []PTrun
	Other       []PBox   // children other than tfhd/tfdt/trun, in order
	ChildOrder  []string // types of all children in order
	Base        uint64   // resolved base offset of the traf
}

// Samples returns the samples of all truns in order.
func (t *PTraf) Samples() []PSample {
	var out []PSample
	for i := range t.Truns {
		out = append(out, t.Truns[i].Samples...)
	}
	return out
}

// PMoof is a parsed movie fragment.
type PMoof struct {
	Box        BoxInfo
	TopIndex   int // index into Parsed.Boxes
	Seq        uint32
	Trafs      []PTraf
	Other      []PBox   // children other than mfhd/traf
	ChildOrder []string // types of all children in order
	Mdat       *BoxInfo // the mdat following the moof (nil if none before the next moof)
}

// TrackSamples returns the samples of all trafs of the given track ID, in traf order.
func (m *PMoof) TrackSamples(id uint32) []PSample {
	var out []PSample
	for i := range m.Trafs {
		if m.Trafs[i].Tfhd.TrackID == id {
			out = append(out, m.Trafs[i].Samples()...)
		}
	}
	return out
}

// PSidxRef is one sidx reference.
type PSidxRef struct {
	Type          uint8
	Size          uint32
	Duration      uint32
	StartsWithSAP uint8
	SAPType       uint8
	SAPDeltaTime  uint32
}

// PSidx is a parsed sidx.
type PSidx struct {
	Box         BoxInfo
	Version     uint8
	Flags       uint32
	ReferenceID uint32
	Timescale   uint32
	EPT         uint64
	FirstOffset uint64
	Reserved    uint16
	Refs        []PSidxRef
	Anchor      uint64 // first byte after the box + FirstOffset
}

// PTfraEntry is one tfra entry.
type PTfraEntry struct {
	Time, MoofOffset               uint64
	TrafNum, TrunNum, SampleNumber uint32
}

// PTfra is a parsed tfra.
type PTfra struct {
	Version                              uint8
	TrackID                              uint32
	LenTrafNum, LenTrunNum, LenSampleNum uint8 // the stored 2-bit values (bytes-1)
	Entries                              []PTfraEntry
}

// PMfra is a parsed mfra.
type PMfra struct {
	Box      BoxInfo
	Tfras    []PTfra
	HasMfro  bool
	MfroSize uint32
}

// Parsed is the result of Read.
type Parsed struct {
	Boxes          []BoxInfo // every top-level box in order
	HasMoov        bool
	MovieTimescale uint32
	Tracks         []PTrack
	Trexs          []PTrex
	Moofs          []PMoof
	Sidxs          []PSidx
	Mfra           *PMfra
	Styps          []BoxInfo
}

// Track returns the trak with the given ID.
func (p *Parsed) Track(id uint32) *PTrack {
	for i := range p.Tracks {
		if p.Tracks[i].ID == id {
			return &p.Tracks[i]
		}
	}
	return nil
}

// TrackSamples returns all samples of a track over all fragments.
func (p *Parsed) TrackSamples(id uint32) []PSample {
	var out []PSample
	for i := range p.Moofs {
		out = append(out, p.Moofs[i].TrackSamples(id)...)
	}
	return out
}

// ---------------------------------------------------------------------------------------------
// walker

type rd struct {
	b   []byte
	p   int
	err error
}

func (r *rd) need(n int) bool {
	if r.err != nil {
		return false
	}
	if n < 0 || len(r.b)-r.p < n {
		r.err = fmt.Errorf("truncated: need %d bytes at %d of %d", n, r.p, len(r.b))
		return false
	}
	return true
}
func (r *rd) u8() uint8 {
	if !r.need(1) {
		return 0
	}
	v := r.b[r.p]
	r.p++
	return v
}
func (r *rd) u16() uint16 {
	if !r.need(2) {
		return 0
	}
	v := binary.BigEndian.Uint16(r.b[r.p:])
	r.p += 2
	return v
}
func (r *rd) u32() uint32 {
	if !r.need(4) {
		return 0
	}
	v := binary.BigEndian.Uint32(r.b[r.p:])
	r.p += 4
	return v
}
func (r *rd) u64() uint64 {
	if !r.need(8) {
		return 0
	}
	v := binary.BigEndian.Uint64(r.b[r.p:])
	r.p += 8
	return v
}
func (r *rd) uN(n int) uint32 {
	var v uint32
	for i := 0; i < n; i++ {
		v = v<<8 | uint32(r.u8())
	}
	return v
}
func (r *rd) skip(n int) {
	if r.need(n) {
		r.p += n
	}
}
func (r *rd) left() int { return len(r.b) - r.p }

// done demands that the payload was consumed exactly.
func (r *rd) done(what string) error {
	if r.err != nil {
		return fmt.Errorf("%s: %v", what, r.err)
	}
	if r.p != len(r.b) {
		return fmt.Errorf("%s: %d bytes of payload not accounted for by its fields", what, len(r.b)-r.p)
	}
	return nil
}

// walk splits file[from:to] into boxes. fileEnd is the end of the whole file (for size 0).
func walk(file []byte, from, to uint64, where string) ([]PBox, error) {
	var out []PBox
	pos := from
	for pos < to {
		if to-pos < 8 {
			return nil, fmt.Errorf("%s: %d stray bytes at offset %d (no room for a box header)", where, to-pos, pos)
		}
		size := uint64(binary.BigEndian.Uint32(file[pos:]))
		typ := string(file[pos+4 : pos+8])
		hdr := 8
		toEnd := false
		switch size {
		case 1:
			if to-pos < 16 {
				return nil, fmt.Errorf("%s: box %q at %d: largesize field runs out of the enclosing box", where, typ, pos)
			}
			size = binary.BigEndian.Uint64(file[pos+8:])
			hdr = 16
		case 0:
			size = uint64(len(file)) - pos
			toEnd = true
		}
		if size < uint64(hdr) {
			return nil, fmt.Errorf("%s: box %q at %d: size %d smaller than its header", where, typ, pos, size)
		}
		if size > to-pos {
			return nil, fmt.Errorf("%s: box %q at %d: size %d exceeds the %d bytes left in the enclosing box/file",
				where, typ, pos, size, to-pos)
		}
		b := PBox{Type: typ, Offset: pos, Size: size, ToEnd: toEnd}
		if typ == "uuid" {
			if size < uint64(hdr)+16 {
				return nil, fmt.Errorf("%s: uuid box at %d: size %d has no room for the usertype", where, pos, size)
			}
			b.UUID = file[pos+uint64(hdr) : pos+uint64(hdr)+16]
			hdr += 16
		}
		b.HdrLen = hdr
		b.Raw = file[pos : pos+size]
		b.Payload = file[pos+uint64(hdr) : pos+size]
		out = append(out, b)
		pos += size
	}
	return out, nil
}

func (b *PBox) children(file []byte, skipPayload int) ([]PBox, error) {
	from := b.Offset + uint64(b.HdrLen) + uint64(skipPayload)
	if from > b.Offset+b.Size {
		return nil, fmt.Errorf("%s at %d: too small", b.Type, b.Offset)
	}
	return walk(file, from, b.Offset+b.Size, fmt.Sprintf("%s@%d", b.Type, b.Offset))
}

func fullHeader(r *rd) (uint8, uint32) {
	v := r.u32()
	return uint8(v >> 24), v & 0xffffff
}

func one(boxes []PBox, typ string) (*PBox, int) {
	var f *PBox
	n := 0
	for i := range boxes {
		if boxes[i].Type == typ {
			if f == nil {
				f = &boxes[i]
			}
			n++
		}
	}
	return f, n
}

// ---------------------------------------------------------------------------------------------
// moov

func parseMoov(file []byte, moov *PBox, p *Parsed) error {
	kids, err := moov.children(file, 0)
	if err != nil {
		return err
	}
	for i := range kids {
		k := &kids[i]
		switch k.Type {
		case "mvhd":
			r := &rd{b: k.Payload}
			v, _ := fullHeader(r)
			switch v {
			case 0:
				r.skip(8)
				p.MovieTimescale = r.u32()
				r.skip(4)
			case 1:
				r.skip(16)
				p.MovieTimescale = r.u32()
				r.skip(8)
			default:
				return fmt.Errorf("mvhd: version %d", v)
			}
			r.skip(4 + 2 + 2 + 8 + 36 + 24 + 4)
			if err := r.done("mvhd"); err != nil {
				return err
			}
		case "trak":
			t, err := parseTrak(file, k)
			if err != nil {
				return err
			}
			if p.Track(t.ID) != nil {
				return fmt.Errorf("moov: two traks with track_ID %d", t.ID)
			}
			p.Tracks = append(p.Tracks, *t)
		case "mvex":
			xs, err := k.children(file, 0)
			if err != nil {
				return err
			}
			for j := range xs {
				if xs[j].Type != "trex" {
					continue
				}
				r := &rd{b: xs[j].Payload}
				fullHeader(r)
				x := PTrex{TrackID: r.u32(), DescIdx: r.u32(), Dur: r.u32(), Size: r.u32(), Flags: r.u32()}
				if err := r.done("trex"); err != nil {
					return err
				}
				for _, o := range p.Trexs {
					if o.TrackID == x.TrackID {
						return fmt.Errorf("mvex: two trex boxes for track_ID %d", x.TrackID)
					}
				}
				p.Trexs = append(p.Trexs, x)
			}
		}
	}
	for i := range p.Trexs {
		if t := p.Track(p.Trexs[i].TrackID); t != nil {
			t.Trex = &p.Trexs[i]
		}
	}
	return nil
}

func parseTrak(file []byte, trak *PBox) (*PTrack, error) {
	t := &PTrack{}
	kids, err := trak.children(file, 0)
	if err != nil {
		return nil, err
	}
	tk, n := one(kids, "tkhd")
	if n != 1 {
		return nil, fmt.Errorf("trak at %d: %d tkhd boxes", trak.Offset, n)
	}
	r := &rd{b: tk.Payload}
	t.TkhdVersion, t.TkhdFlags = fullHeader(r)
	switch t.TkhdVersion {
	case 0:
		r.skip(8)
		t.ID = r.u32()
		r.skip(4 + 4)
	case 1:
		r.skip(16)
		t.ID = r.u32()
		r.skip(4 + 8)
	default:
		return nil, fmt.Errorf("tkhd: version %d", t.TkhdVersion)
	}
	r.skip(8 + 2 + 2 + 2 + 2 + 36)
	t.Width = r.u32()
	t.Height = r.u32()
	if err := r.done("tkhd"); err != nil {
		return nil, err
	}
	mdia, n := one(kids, "mdia")
	if n != 1 {
		return nil, fmt.Errorf("trak %d: %d mdia boxes", t.ID, n)
	}
	mk, err := mdia.children(file, 0)
	if err != nil {
		return nil, err
	}
	md, n := one(mk, "mdhd")
	if n != 1 {
		return nil, fmt.Errorf("trak %d: %d mdhd boxes", t.ID, n)
	}
	r = &rd{b: md.Payload}
	t.MdhdVersion, _ = fullHeader(r)
	switch t.MdhdVersion {
	case 0:
		r.skip(8)
		t.Timescale = r.u32()
		t.Duration = uint64(r.u32())
	case 1:
		r.skip(16)
		t.Timescale = r.u32()
		t.Duration = r.u64()
	default:
		return nil, fmt.Errorf("mdhd: version %d", t.MdhdVersion)
	}
	t.Language = r.u16()
	r.skip(2)
	if err := r.done("mdhd"); err != nil {
		return nil, err
	}
	hd, n := one(mk, "hdlr")
	if n != 1 {
		return nil, fmt.Errorf("trak %d: %d hdlr boxes", t.ID, n)
	}
	r = &rd{b: hd.Payload}
	fullHeader(r)
	r.skip(4)
	if r.need(4) {
		t.Handler = string(r.b[r.p : r.p+4])
		r.p += 4
	}
	r.skip(12)
	if r.err != nil {
		return nil, fmt.Errorf("hdlr: %v", r.err)
	}
	name := r.b[r.p:]
	for len(name) > 0 && name[len(name)-1] == 0 {
		name = name[:len(name)-1]
	}
	t.HandlerName = string(name)

	minf, n := one(mk, "minf")
	if n != 1 {
		return nil, fmt.Errorf("trak %d: %d minf boxes", t.ID, n)
	}
	ik, err := minf.children(file, 0)
	if err != nil {
		return nil, err
	}
	for i := range ik {
		switch ik[i].Type {
		case "vmhd", "smhd", "nmhd", "sthd", "hmhd":
			t.MediaHeader = ik[i].Type
		}
	}
	stbl, n := one(ik, "stbl")
	if n != 1 {
		return nil, fmt.Errorf("trak %d: %d stbl boxes", t.ID, n)
	}
	sk, err := stbl.children(file, 0)
	if err != nil {
		return nil, err
	}
	for i := range sk {
		k := &sk[i]
		switch k.Type {
		case "stsd":
			t.StsdRaw = k.Raw
			// the sample entries must tile the box
			if _, err := k.children(file, 8); err != nil {
				return nil, err
			}
		case "stts":
			r := &rd{b: k.Payload}
			fullHeader(r)
			t.SttsEntries = r.u32()
			r.skip(8 * int(t.SttsEntries))
			if err := r.done("stts"); err != nil {
				return nil, err
			}
		case "stsz":
			r := &rd{b: k.Payload}
			fullHeader(r)
			ss := r.u32()
			t.StszCount = r.u32()
			if ss == 0 {
				r.skip(4 * int(t.StszCount))
			}
			if err := r.done("stsz"); err != nil {
				return nil, err
			}
		case "stco":
			r := &rd{b: k.Payload}
			fullHeader(r)
			t.StcoEntries = r.u32()
			r.skip(4 * int(t.StcoEntries))
			if err := r.done("stco"); err != nil {
				return nil, err
			}
		}
	}
	if t.StsdRaw == nil {
		return nil, fmt.Errorf("trak %d: no stsd", t.ID)
	}
	return t, nil
}

// ---------------------------------------------------------------------------------------------
// moof

type trackState struct {
	nextTime uint64 // decode time after the last sample seen of this track
}

func parseMoof(file []byte, mb *PBox, p *Parsed, trexOf func(uint32) *PTrex, haveMoov bool,
	times map[uint32]*trackState) (*PMoof, error) {
	m := &PMoof{Box: mb.Info()}
	kids, err := mb.children(file, 0)
	if err != nil {
		return nil, err
	}
	nMfhd := 0
	prevTrafEnd := mb.Offset // "end of the data defined by the preceding track fragment"
	firstTraf := true
	for i := range kids {
		k := &kids[i]
		m.ChildOrder = append(m.ChildOrder, k.Type)
		switch k.Type {
		case "mfhd":
			nMfhd++
			r := &rd{b: k.Payload}
			fullHeader(r)
			m.Seq = r.u32()
			if err := r.done("mfhd"); err != nil {
				return nil, err
			}
		case "traf":
			tf, err := parseTraf(file, k, mb.Offset, firstTraf, prevTrafEnd, trexOf, times)
			if err != nil {
				return nil, fmt.Errorf("moof at %d: %w", mb.Offset, err)
			}
			if haveMoov && p.Track(tf.Tfhd.TrackID) == nil {
				return nil, fmt.Errorf("moof at %d: traf for track_ID %d which is not in moov", mb.Offset, tf.Tfhd.TrackID)
			}
			firstTraf = false
			if n := len(tf.Truns); n > 0 {
				last := &tf.Truns[n-1]
				end := last.Start
				for _, s := range last.Samples {
					end += uint64(s.Size)
				}
				prevTrafEnd = end
			}
			m.Trafs = append(m.Trafs, *tf)
		default:
			m.Other = append(m.Other, *k)
		}
	}
	if nMfhd != 1 {
		return nil, fmt.Errorf("moof at %d: %d mfhd boxes", mb.Offset, nMfhd)
	}
	return m, nil
}

func parseTraf(file []byte, tb *PBox, moofStart uint64, firstTraf bool, prevTrafEnd uint64,
	trexOf func(uint32) *PTrex, times map[uint32]*trackState) (*PTraf, error) {
	t := &PTraf{Box: tb.Info()}
	kids, err := tb.children(file, 0)
	if err != nil {
		return nil, err
	}
	nTfhd, nTfdt := 0, 0
	var trunBoxes []*PBox
	for i := range kids {
		k := &kids[i]
		t.ChildOrder = append(t.ChildOrder, k.Type)
		switch k.Type {
		case "tfhd":
			nTfhd++
			if i != 0 {
				return nil, fmt.Errorf("traf at %d: tfhd is not the first child", tb.Offset)
			}
			r := &rd{b: k.Payload}
			h := &t.Tfhd
			t.TfhdBox = k.Info()
			h.Version, h.Flags = fullHeader(r)
			h.TrackID = r.u32()
			if h.HasBaseDataOffset() {
				h.BaseDataOffset = r.u64()
			}
			if h.HasDescIdx() {
				h.DescIdx = r.u32()
			}
			if h.HasDefDur() {
				h.DefDur = r.u32()
			}
			if h.HasDefSize() {
				h.DefSize = r.u32()
			}
			if h.HasDefFlags() {
				h.DefFlags = r.u32()
			}
			if err := r.done("tfhd"); err != nil {
				return nil, err
			}
		case "tfdt":
			nTfdt++
			r := &rd{b: k.Payload}
			v, _ := fullHeader(r)
			t.HasTfdt, t.TfdtVersion = true, v
			switch v {
			case 0:
				t.BaseTime = uint64(r.u32())
			case 1:
				t.BaseTime = r.u64()
			default:
				return nil, fmt.Errorf("tfdt: version %d", v)
			}
			if err := r.done("tfdt"); err != nil {
				return nil, err
			}
		case "trun":
			trunBoxes = append(trunBoxes, k)
		default:
			t.Other = append(t.Other, *k)
		}
	}
	if nTfhd != 1 {
		return nil, fmt.Errorf("traf at %d: %d tfhd boxes", tb.Offset, nTfhd)
	}
	if nTfdt > 1 {
		return nil, fmt.Errorf("traf at %d: %d tfdt boxes", tb.Offset, nTfdt)
	}
	h := &t.Tfhd
	if h.HasBaseDataOffset() && h.DefaultBaseIsMoof() {
		// 8.8.7.1: default-base-is-moof is ignored when base-data-offset-present is set
	}
	st := times[h.TrackID]
	if st == nil {
		st = &trackState{}
		times[h.TrackID] = st
	}
	if !t.HasTfdt {
		t.BaseTime = st.nextTime
	}
	// base offset (8.8.7.1)
	switch {
	case h.HasBaseDataOffset():
		t.Base = h.BaseDataOffset
	case h.DefaultBaseIsMoof():
		t.Base = moofStart
	case firstTraf:
		t.Base = moofStart
	default:
		t.Base = prevTrafEnd
	}
	trex := trexOf(h.TrackID)
	needTrex := func(what string) (*PTrex, error) {
		if trex == nil {
			return nil, fmt.Errorf("traf for track_ID %d: %s comes from trex, but there is no trex for the track", h.TrackID, what)
		}
		return trex, nil
	}

	tm := t.BaseTime
	runEnd := t.Base
	for ri, k := range trunBoxes {
		r := &rd{b: k.Payload}
		var tr PTrun
		tr.Box = k.Info()
		tr.Version, tr.Flags = fullHeader(r)
		if tr.Version > 1 {
			return nil, fmt.Errorf("trun: version %d", tr.Version)
		}
		tr.SampleCount = r.u32()
		if tr.HasDataOffset() {
			tr.DataOffset = int32(r.u32())
		}
		if tr.HasFirstSampleFlags() {
			tr.FirstSampleFlags = r.u32()
		}
		per := 0
		for _, f := range []bool{tr.HasDur(), tr.HasSize(), tr.HasFlags(), tr.HasCto()} {
			if f {
				per += 4
			}
		}
		if r.err == nil && uint64(per)*uint64(tr.SampleCount) != uint64(r.left()) {
			return nil, fmt.Errorf("trun at %d: sample_count %d x %d bytes does not match the %d payload bytes left",
				k.Offset, tr.SampleCount, per, r.left())
		}
		if tr.HasFirstSampleFlags() && tr.HasFlags() {
			return nil, fmt.Errorf("trun at %d: first-sample-flags-present together with sample-flags-present", k.Offset)
		}
		tr.Entries = make([]PTrunEntry, tr.SampleCount)
		for i := range tr.Entries {
			e := &tr.Entries[i]
			if tr.HasDur() {
				e.Dur = r.u32()
			}
			if tr.HasSize() {
				e.Size = r.u32()
			}
			if tr.HasFlags() {
				e.Flags = r.u32()
			}
			if tr.HasCto() {
				e.CtoRaw = r.u32()
			}
		}
		if err := r.done("trun"); err != nil {
			return nil, err
		}
		// defaults
		var dDur, dSize, dFlags uint32
		if !tr.HasDur() && tr.SampleCount > 0 {
			if h.HasDefDur() {
				dDur = h.DefDur
			} else if x, err := needTrex("sample_duration"); err != nil {
				return nil, err
			} else {
				dDur = x.Dur
			}
		}
		if !tr.HasSize() && tr.SampleCount > 0 {
			if h.HasDefSize() {
				dSize = h.DefSize
			} else if x, err := needTrex("sample_size"); err != nil {
				return nil, err
			} else {
				dSize = x.Size
			}
		}
		if !tr.HasFlags() && (tr.SampleCount > 1 || (tr.SampleCount == 1 && !tr.HasFirstSampleFlags())) {
			if h.HasDefFlags() {
				dFlags = h.DefFlags
			} else if x, err := needTrex("sample_flags"); err != nil {
				return nil, err
			} else {
				dFlags = x.Flags
			}
		}
		// start of the run data (8.8.8.1)
		switch {
		case tr.HasDataOffset():
			s := int64(t.Base) + int64(tr.DataOffset)
			if s < 0 {
				return nil, fmt.Errorf("trun at %d: data_offset %d leads before the start of the file", k.Offset, tr.DataOffset)
			}
			tr.Start = uint64(s)
		case ri == 0:
			tr.Start = t.Base
		default:
			tr.Start = runEnd
		}
		pos := tr.Start
		tr.Samples = make([]PSample, tr.SampleCount)
		for i := range tr.Samples {
			e := &tr.Entries[i]
			s := &tr.Samples[i]
			s.Dur, s.Size, s.Flags = dDur, dSize, dFlags
			if tr.HasDur() {
				s.Dur = e.Dur
			}
			if tr.HasSize() {
				s.Size = e.Size
			}
			if tr.HasFlags() {
				s.Flags = e.Flags
			} else if i == 0 && tr.HasFirstSampleFlags() {
				s.Flags = tr.FirstSampleFlags
			}
			if tr.HasCto() {
				if tr.Version == 0 {
					s.Cto = int64(e.CtoRaw)
				} else {
					s.Cto = int64(int32(e.CtoRaw))
				}
			}
			s.DecodeTime = tm
			tm += uint64(s.Dur)
			s.Offset = pos
			if pos > uint64(len(file)) || uint64(s.Size) > uint64(len(file))-pos {
				return nil, fmt.Errorf("trun at %d: sample %d (offset %d, size %d) runs outside the file (%d bytes)",
					k.Offset, i, pos, s.Size, len(file))
			}
			s.Data = file[pos : pos+uint64(s.Size)]
			pos += uint64(s.Size)
		}
		runEnd = pos
		t.Truns = append(t.Truns, tr)
	}
	st.nextTime = tm
	return t, nil
}

// ---------------------------------------------------------------------------------------------
// sidx / mfra

func parseSidx(b *PBox) (*PSidx, error) {
	s := &PSidx{Box: b.Info()}
	r := &rd{b: b.Payload}
	s.Version, s.Flags = fullHeader(r)
	s.ReferenceID = r.u32()
	s.Timescale = r.u32()
	switch s.Version {
	case 0:
		s.EPT = uint64(r.u32())
		s.FirstOffset = uint64(r.u32())
	case 1:
		s.EPT = r.u64()
		s.FirstOffset = r.u64()
	default:
		return nil, fmt.Errorf("sidx at %d: version %d", b.Offset, s.Version)
	}
	s.Reserved = r.u16()
	n := int(r.u16())
	for i := 0; i < n && r.err == nil; i++ {
		a, d, c := r.u32(), r.u32(), r.u32()
		s.Refs = append(s.Refs, PSidxRef{Type: uint8(a >> 31), Size: a & 0x7fffffff, Duration: d,
			StartsWithSAP: uint8(c >> 31), SAPType: uint8(c>>28) & 7, SAPDeltaTime: c & 0x0fffffff})
	}
	if err := r.done("sidx"); err != nil {
		return nil, err
	}
	s.Anchor = b.Offset + b.Size + s.FirstOffset
	return s, nil
}

func parseMfra(file []byte, b *PBox) (*PMfra, error) {
	m := &PMfra{Box: b.Info()}
	kids, err := b.children(file, 0)
	if err != nil {
		return nil, err
	}
	for i := range kids {
		k := &kids[i]
		switch k.Type {
		case "tfra":
			r := &rd{b: k.Payload}
			var t PTfra
			t.Version, _ = fullHeader(r)
			if t.Version > 1 {
				return nil, fmt.Errorf("tfra: version %d", t.Version)
			}
			t.TrackID = r.u32()
			l := r.u32()
			t.LenTrafNum, t.LenTrunNum, t.LenSampleNum = uint8(l>>4)&3, uint8(l>>2)&3, uint8(l)&3
			n := r.u32()
			per := uint64(8 + int(t.LenTrafNum) + 1 + int(t.LenTrunNum) + 1 + int(t.LenSampleNum) + 1)
			if t.Version == 1 {
				per += 8
			}
			if r.err == nil && per*uint64(n) != uint64(r.left()) {
				return nil, fmt.Errorf("tfra at %d: %d entries x %d bytes does not match the %d payload bytes left",
					k.Offset, n, per, r.left())
			}
			for j := uint32(0); j < n && r.err == nil; j++ {
				var e PTfraEntry
				if t.Version == 1 {
					e.Time, e.MoofOffset = r.u64(), r.u64()
				} else {
					e.Time, e.MoofOffset = uint64(r.u32()), uint64(r.u32())
				}
				e.TrafNum = r.uN(int(t.LenTrafNum) + 1)
				e.TrunNum = r.uN(int(t.LenTrunNum) + 1)
				e.SampleNumber = r.uN(int(t.LenSampleNum) + 1)
				t.Entries = append(t.Entries, e)
			}
			if err := r.done("tfra"); err != nil {
				return nil, err
			}
			m.Tfras = append(m.Tfras, t)
		case "mfro":
			r := &rd{b: k.Payload}
			fullHeader(r)
			m.HasMfro, m.MfroSize = true, r.u32()
			if err := r.done("mfro"); err != nil {
				return nil, err
			}
			if i != len(kids)-1 {
				return nil, fmt.Errorf("mfra at %d: mfro is not the last child", b.Offset)
			}
			if uint64(m.MfroSize) != b.Size {
				return nil, fmt.Errorf("mfra at %d: mfro says size %d, the box has %d", b.Offset, m.MfroSize, b.Size)
			}
		}
	}
	return m, nil
}

// ---------------------------------------------------------------------------------------------

// Read parses a complete fragmented file (init followed by media segments). A file without moov
// is accepted; then every value that would come from trex is an error.
func Read(file []byte) (*Parsed, error) { return ReadWith(file, nil) }

// ReadWith is Read for a file without moov (a bare media segment): tracks and trex defaults are
// taken from init (the result of Read on the init segment). Offsets are relative to file.
func ReadWith(file []byte, init *Parsed) (*Parsed, error) {
	p := &Parsed{}
	top, err := walk(file, 0, uint64(len(file)), "file")
	if err != nil {
		return nil, err
	}
	for i := range top {
		p.Boxes = append(p.Boxes, top[i].Info())
	}
	if mv, n := one(top, "moov"); n > 1 {
		return nil, fmt.Errorf("file: %d moov boxes", n)
	} else if n == 1 {
		p.HasMoov = true
		if err := parseMoov(file, mv, p); err != nil {
			return nil, err
		}
	} else if init != nil {
		p.HasMoov = init.HasMoov
		p.MovieTimescale = init.MovieTimescale
		p.Trexs = append([]PTrex(nil), init.Trexs...)
		p.Tracks = append([]PTrack(nil), init.Tracks...)
		for i := range p.Tracks {
			p.Tracks[i].Trex = nil
			for j := range p.Trexs {
				if p.Trexs[j].TrackID == p.Tracks[i].ID {
					p.Tracks[i].Trex = &p.Trexs[j]
				}
			}
		}
	}
	trexOf := func(id uint32) *PTrex {
		for i := range p.Trexs {
			if p.Trexs[i].TrackID == id {
				return &p.Trexs[i]
			}
		}
		return nil
	}
	times := map[uint32]*trackState{}
	type span struct{ from, to uint64 }
	var mdats []span
	for i := range top {
		if top[i].Type == "mdat" {
			mdats = append(mdats, span{top[i].Offset + uint64(top[i].HdrLen), top[i].Offset + top[i].Size})
		}
	}
	for i := range top {
		b := &top[i]
		switch b.Type {
		case "styp":
			p.Styps = append(p.Styps, b.Info())
		case "sidx":
			s, err := parseSidx(b)
			if err != nil {
				return nil, err
			}
			p.Sidxs = append(p.Sidxs, *s)
		case "mfra":
			m, err := parseMfra(file, b)
			if err != nil {
				return nil, err
			}
			if p.Mfra != nil {
				return nil, fmt.Errorf("file: more than one mfra")
			}
			p.Mfra = m
		case "moof":
			m, err := parseMoof(file, b, p, trexOf, p.HasMoov, times)
			if err != nil {
				return nil, err
			}
			m.TopIndex = i
			for j := i + 1; j < len(top) && top[j].Type != "moof"; j++ {
				if top[j].Type == "mdat" {
					bi := top[j].Info()
					m.Mdat = &bi
					break
				}
			}
			// every run with data must lie inside one mdat payload
			for ti := range m.Trafs {
				for ri := range m.Trafs[ti].Truns {
					tr := &m.Trafs[ti].Truns[ri]
					var n uint64
					for _, s := range tr.Samples {
						n += uint64(s.Size)
					}
					if n == 0 {
						continue
					}
					ok := false
					for _, sp := range mdats {
						if tr.Start >= sp.from && tr.Start+n <= sp.to {
							ok = true
							break
						}
					}
					if !ok {
						return nil, fmt.Errorf("moof at %d: traf %d trun %d: data [%d,%d) is not inside an mdat payload",
							b.Offset, ti, ri, tr.Start, tr.Start+n)
					}
				}
			}
			p.Moofs = append(p.Moofs, *m)
		}
	}
	return p, nil
}
