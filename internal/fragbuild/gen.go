package fragbuild

import (
	"encoding/binary"
	"sort"

	"pgregory.net/rapid"
)

// GenOpt bounds the generators. The zero value of every No* switch allows the feature.
type GenOpt struct {
	MaxTracks   int // default 3
	MaxSamples  int // per track, default 12
	MaxSegments int // default 3
	MaxFrags    int // per segment, default 3
	// Real stsd boxes (HarvestStsd). Without them every track is a "text" track with WvttStsd.
	VideoStsd, AudioStsd []byte

	NoSplitTrafs      bool // never several trafs of one track in a moof
	NoLegacyMultiTraf bool // Base 2 only in fragments with a single traf
	NoOmitDataOffset  bool // trun.data_offset always present
	NoExtraBoxes      bool // no pre/in-moof/in-traf boxes at all
	NoPreNonEmsg      bool // of the pre boxes only emsg
	// NoNonEmsgAtTopSidxAnchor: with a top-level sidx and no styp, the first fragment of the file has
	// only emsg pre boxes (so that the byte the sidx points at is an emsg or the moof).
	NoNonEmsgAtTopSidxAnchor bool
	NoEmptyRuns              bool // no trun with sample_count 0
	NoEmptyFrags             bool // every fragment has at least one run (needs samples; else a single fragment may be empty)
	NoMdatLarge              bool
	NoBigTrackIDs            bool // track IDs 1..8 only
}

func (o GenOpt) norm() GenOpt {
	if o.MaxTracks <= 0 {
		o.MaxTracks = 3
	}
	if o.MaxSamples < 0 {
		o.MaxSamples = 0
	} else if o.MaxSamples == 0 {
		o.MaxSamples = 12
	}
	if o.MaxSegments <= 0 {
		o.MaxSegments = 3
	}
	if o.MaxFrags <= 0 {
		o.MaxFrags = 3
	}
	return o
}

// Realistic and odd sample_flags values.
const (
	FlagsSync    = 0x02000000 // sample_depends_on=2
	FlagsNonSync = 0x01010000 // sample_depends_on=1, sample_is_non_sync_sample
)

var flagPalette = []uint32{FlagsSync, FlagsNonSync, FlagsNonSync | 0x1234, FlagsSync | 0xffff, 0x00a50000, 0, 0x0fffffff}
var durPalette = []uint32{0, 1, 512, 1024, 3000, 3003, 90000, 1 << 20}
var startPalette = []uint64{0, 0, 1, 1000, 0xfffffff0, 1 << 32, 1<<32 + 12345, 1 << 40}

func sampleData(id uint32, n int, size int) []byte {
	d := make([]byte, size)
	hdr := [6]byte{'S', byte(id), byte(id >> 8), byte(n >> 8), byte(n), 0xa5}
	for i := range d {
		if i < len(hdr) {
			d[i] = hdr[i]
		} else {
			d[i] = byte(i*7 + n*13 + int(id))
		}
	}
	return d
}

// GenTracks draws 1..opt.MaxTracks tracks with 0..opt.MaxSamples samples each.
func GenTracks(t *rapid.T, opt GenOpt) []Track {
	opt = opt.norm()
	nt := rapid.IntRange(1, opt.MaxTracks).Draw(t, "ntracks")
	ids := []uint32{1, 2, 3, 4, 5, 6, 7, 8}
	if !opt.NoBigTrackIDs {
		ids = append(ids, 100, 65537, 0x7fffffff, 0xffffffff)
	}
	var perm []uint32
	if rapid.Bool().Draw(t, "idsInOrder") {
		perm = ids
	} else {
		perm = rapid.Permutation(ids).Draw(t, "ids")
	}
	tracks := make([]Track, nt)
	for ti := range tracks {
		tr := &tracks[ti]
		tr.ID = perm[ti]
		tr.Timescale = rapid.SampledFrom([]uint32{1, 1000, 12800, 48000, 90000, 10000000}).Draw(t, "timescale")
		kinds := []string{"text"}
		if opt.VideoStsd != nil {
			kinds = append(kinds, "vide", "vide")
		}
		if opt.AudioStsd != nil {
			kinds = append(kinds, "soun", "soun")
		}
		tr.Handler = rapid.SampledFrom(kinds).Draw(t, "handler")
		switch tr.Handler {
		case "vide":
			tr.StsdRaw = opt.VideoStsd
			tr.Width, tr.Height = 1280, 720
		case "soun":
			tr.StsdRaw = opt.AudioStsd
		default:
			tr.StsdRaw = WvttStsd()
		}
		tr.StartTime = rapid.SampledFrom(startPalette).Draw(t, "start")

		n := rapid.IntRange(0, opt.MaxSamples).Draw(t, "nsamples")
		baseDur := rapid.SampledFrom(durPalette).Draw(t, "baseDur")
		baseSize := rapid.IntRange(0, 100).Draw(t, "baseSize")
		durMode := rapid.IntRange(0, 2).Draw(t, "durMode")   // 0 all equal, 1 mostly equal, 2 palette
		sizeMode := rapid.IntRange(0, 3).Draw(t, "sizeMode") // 0 all equal, 1 mostly equal, 2 random, 3 all zero
		flagMode := rapid.IntRange(0, 3).Draw(t, "flagMode") // 0 all sync, 1 first sync, 2 gop, 3 palette
		ctoMode := rapid.IntRange(0, 3).Draw(t, "ctoMode")   // 0 zero, 1 same non-zero, 2 non-negative, 3 with negative
		gop := rapid.IntRange(1, 5).Draw(t, "gop")
		tr.Samples = make([]Sample, n)
		for i := range tr.Samples {
			s := &tr.Samples[i]
			s.Dur = baseDur
			switch durMode {
			case 1:
				if rapid.IntRange(0, 4).Draw(t, "durOdd") == 0 {
					s.Dur = rapid.SampledFrom(durPalette).Draw(t, "dur")
				}
			case 2:
				s.Dur = rapid.SampledFrom(durPalette).Draw(t, "dur")
			}
			size := baseSize
			switch sizeMode {
			case 1:
				if rapid.IntRange(0, 4).Draw(t, "sizeOdd") == 0 {
					size = rapid.IntRange(0, 100).Draw(t, "size")
				}
			case 2:
				size = rapid.IntRange(0, 100).Draw(t, "size")
			case 3:
				size = 0
			}
			s.Data = sampleData(tr.ID, i, size)
			switch flagMode {
			case 0:
				s.Flags = FlagsSync
			case 1:
				s.Flags = FlagsNonSync
				if i == 0 {
					s.Flags = FlagsSync
				}
			case 2:
				s.Flags = FlagsNonSync
				if i%gop == 0 {
					s.Flags = FlagsSync
				}
			default:
				s.Flags = rapid.SampledFrom(flagPalette).Draw(t, "flags")
			}
			switch ctoMode {
			case 1:
				s.Cto = int32(baseDur)
			case 2:
				s.Cto = int32(rapid.IntRange(0, 3).Draw(t, "cto")) * int32(baseDur&0xffff)
			case 3:
				s.Cto = int32(rapid.SampledFrom([]int{-2, -1, 0, 0, 1, 3, -0x80000000, 0x7fffffff}).Draw(t, "cto"))
				if s.Cto > -10 && s.Cto < 10 {
					s.Cto *= int32(baseDur & 0xffff)
				}
			}
		}
		tr.Trex = TrexDefaults{DescIdx: 1}
		if rapid.Bool().Draw(t, "trexDur") {
			tr.Trex.Dur = baseDur
		}
		if rapid.Bool().Draw(t, "trexSize") {
			tr.Trex.Size = uint32(baseSize)
		}
		tr.Trex.Flags = rapid.SampledFrom([]uint32{0, FlagsSync, FlagsNonSync}).Draw(t, "trexFlags")
	}
	return tracks
}

func fullBoxPayload(version uint8, flags uint32, rest ...[]byte) []byte {
	out := binary.BigEndian.AppendUint32(nil, uint32(version)<<24|flags)
	for _, r := range rest {
		out = append(out, r...)
	}
	return out
}

func be32(v uint32) []byte { return binary.BigEndian.AppendUint32(nil, v) }
func be64(v uint64) []byte { return binary.BigEndian.AppendUint64(nil, v) }

func genExtra(t *rapid.T, kinds []string, refTrack uint32) ExtraBox {
	k := rapid.SampledFrom(kinds).Draw(t, "extraKind")
	data := rapid.SliceOfN(rapid.Byte(), 0, 12).Draw(t, "extraData")
	switch k {
	case "emsg0":
		return ExtraBox{Type: "emsg", Payload: fullBoxPayload(0, 0, []byte("urn:fragbuild\x00"), []byte("v\x00"),
			be32(1000), be32(5), be32(7), be32(42), data)}
	case "emsg1":
		return ExtraBox{Type: "emsg", Payload: fullBoxPayload(1, 0, be32(1000), be64(1<<33), be32(7), be32(43),
			[]byte("urn:fragbuild\x00"), []byte("\x00"), data)}
	case "prft0":
		return ExtraBox{Type: "prft", Payload: fullBoxPayload(0, 0, be32(refTrack), be64(0xe0000000_00000000), be32(1234))}
	case "prft1":
		return ExtraBox{Type: "prft", Payload: fullBoxPayload(1, 0, be32(refTrack), be64(0xe0000000_00000000), be64(1<<33))}
	case "uuid":
		u := make([]byte, 16)
		for i := range u {
			u[i] = byte(0xf0 + i)
		}
		if len(data) > 0 {
			u[15] = data[0]
		}
		return ExtraBox{Type: "uuid", UUID: u, Payload: data}
	case "free", "skip":
		return ExtraBox{Type: k, Payload: data}
	default:
		return ExtraBox{Type: k, Payload: data}
	}
}

func genExtras(t *rapid.T, label string, kinds []string, refTrack uint32) []ExtraBox {
	n := rapid.SampledFrom([]int{0, 0, 0, 1, 1, 2}).Draw(t, label)
	var out []ExtraBox
	for i := 0; i < n; i++ {
		out = append(out, genExtra(t, kinds, refTrack))
	}
	return out
}

// GenLayout draws a layout that places every sample of every track: 1..MaxSegments segments of
// 1..MaxFrags fragments, arbitrary interleavings of runs, all option combinations, and a mutually
// consistent set of segment delimiters (styp on all segments or on none; per-segment sidx only
// together with styp and never together with a top-level sidx; several segments only when
// something delimits them).
func GenLayout(t *rapid.T, tracks []Track, opt GenOpt) FileLayout {
	opt = opt.norm()
	var lay FileLayout
	mode := rapid.IntRange(0, 4).Draw(t, "delimMode") // 0 none, 1 styp(+sidx), 2 styp+topsidx, 3 topsidx, 4 mfra
	nSeg := 1
	if mode != 0 {
		nSeg = rapid.IntRange(1, opt.MaxSegments).Draw(t, "nseg")
	}
	styp := mode == 1 || mode == 2
	segSidx := mode == 1 && rapid.Bool().Draw(t, "segSidx")
	lay.TopSidx = mode == 2 || mode == 3
	lay.Mfra = mode == 4 || rapid.IntRange(0, 3).Draw(t, "mfra") == 0
	if lay.Mfra {
		lay.MfraFirstTrackOnly = rapid.Bool().Draw(t, "mfraFirstOnly")
	}
	lay.SeqStart = rapid.SampledFrom([]uint32{0, 1, 1, 100, 0xfffffffe}).Draw(t, "seqStart")

	nFrags := make([]int, nSeg)
	total := 0
	for i := range nFrags {
		nFrags[i] = rapid.IntRange(1, opt.MaxFrags).Draw(t, "nfrag")
		total += nFrags[i]
	}
	totalSamples := 0
	for i := range tracks {
		totalSamples += len(tracks[i].Samples)
	}
	// per track: cut the sample list into one (possibly empty) piece per fragment
	counts := make([][]int, len(tracks)) // [track][frag]
	for ti := range tracks {
		n := len(tracks[ti].Samples)
		cuts := make([]int, 0, total+1)
		cuts = append(cuts, 0)
		if total > 1 {
			if n > 0 && rapid.IntRange(0, 2).Draw(t, "evenSplit") == 0 {
				for f := 1; f < total; f++ {
					cuts = append(cuts, f*n/total)
				}
			} else {
				c := rapid.SliceOfN(rapid.IntRange(0, n), total-1, total-1).Draw(t, "cuts")
				sort.Ints(c)
				cuts = append(cuts, c...)
			}
		}
		cuts = append(cuts, n)
		counts[ti] = make([]int, total)
		for f := 0; f < total; f++ {
			counts[ti][f] = cuts[f+1] - cuts[f]
		}
	}
	if opt.NoEmptyFrags {
		// move the pieces forward so that no fragment stays without samples while samples remain:
		// simplest consistent repair is to drop empty fragments.
		keep := make([]bool, total)
		any := false
		for f := 0; f < total; f++ {
			for ti := range tracks {
				if counts[ti][f] > 0 {
					keep[f] = true
					any = true
				}
			}
		}
		if !any {
			keep[0] = true
		}
		f := 0
		for si := range nFrags {
			k := 0
			for j := 0; j < nFrags[si]; j++ {
				if keep[f] {
					k++
				}
				f++
			}
			nFrags[si] = k
		}
		for ti := range tracks {
			var c []int
			for f := 0; f < total; f++ {
				if keep[f] {
					c = append(c, counts[ti][f])
				}
			}
			counts[ti] = c
		}
		var nf []int
		for _, k := range nFrags {
			if k > 0 {
				nf = append(nf, k)
			}
		}
		nFrags = nf
	}

	preKinds := []string{"emsg0", "emsg1", "emsg0", "prft0", "prft1", "free", "skip", "uuid", "zzzz"}
	if opt.NoPreNonEmsg {
		preKinds = []string{"emsg0", "emsg1"}
	}
	innerKinds := []string{"free", "uuid", "abcd", "skip"}

	f := 0
	for si := range nFrags {
		seg := Segment{Styp: styp, Sidx: segSidx}
		for j := 0; j < nFrags[si]; j++ {
			var fr Frag
			for ti := range tracks {
				c := counts[ti][f]
				if c == 0 {
					if !opt.NoEmptyRuns && rapid.IntRange(0, 9).Draw(t, "emptyRun") == 0 {
						fr.Runs = append(fr.Runs, Run{Track: ti, N: 0})
					}
					continue
				}
				maxRuns := 3
				if c < maxRuns {
					maxRuns = c
				}
				nr := rapid.IntRange(1, maxRuns).Draw(t, "nruns")
				cuts := []int{0}
				if nr > 1 {
					cs := rapid.SliceOfN(rapid.IntRange(0, c), nr-1, nr-1).Draw(t, "runCuts")
					sort.Ints(cs)
					cuts = append(cuts, cs...)
				}
				cuts = append(cuts, c)
				for k := 0; k+1 < len(cuts); k++ {
					n := cuts[k+1] - cuts[k]
					if n == 0 && opt.NoEmptyRuns {
						continue
					}
					fr.Runs = append(fr.Runs, Run{Track: ti, N: n})
				}
			}
			if len(fr.Runs) > 1 && rapid.IntRange(0, 3).Draw(t, "shuffle") != 0 {
				fr.Runs = rapid.Permutation(fr.Runs).Draw(t, "runOrder")
			}
			if !opt.NoSplitTrafs {
				fr.SplitTrafs = rapid.IntRange(0, 3).Draw(t, "splitTrafs") == 0
			}
			// number of trafs
			nTrafs := len(fr.Runs)
			if !fr.SplitTrafs {
				seen := map[int]bool{}
				for _, r := range fr.Runs {
					seen[r.Track] = true
				}
				nTrafs = len(seen)
			}
			o := &fr.Opts
			o.TfhdDefaults = rapid.Bool().Draw(t, "tfhdDefaults")
			o.UseTrex = rapid.Bool().Draw(t, "useTrex")
			o.FirstSampleFlags = rapid.Bool().Draw(t, "firstSampleFlags")
			o.Base = rapid.IntRange(0, 2).Draw(t, "base")
			if o.Base == 2 && nTrafs > 1 && opt.NoLegacyMultiTraf {
				o.Base = rapid.IntRange(0, 1).Draw(t, "base01")
			}
			o.TrunVersion = rapid.IntRange(0, 1).Draw(t, "trunVersion")
			o.TfdtVersion = rapid.IntRange(0, 1).Draw(t, "tfdtVersion")
			o.ForceAllPerSample = rapid.IntRange(0, 5).Draw(t, "forceAll") == 0
			o.TfhdDescIdx = rapid.IntRange(0, 3).Draw(t, "tfhdDescIdx") == 0
			if !opt.NoOmitDataOffset {
				o.OmitContiguousDataOffset = rapid.IntRange(0, 3).Draw(t, "omitDataOffset") == 0
			}
			if !opt.NoMdatLarge {
				fr.MdatLarge = rapid.IntRange(0, 3).Draw(t, "mdatLarge") == 0
			}
			if !opt.NoExtraBoxes {
				pk := preKinds
				if opt.NoNonEmsgAtTopSidxAnchor && lay.TopSidx && !styp && f == 0 {
					pk = []string{"emsg0", "emsg1"}
				}
				fr.PreBoxes = genExtras(t, "npre", pk, tracks[0].ID)
				fr.InMoofBoxes = genExtras(t, "ninmoof", innerKinds, tracks[0].ID)
				fr.InTrafBoxes = genExtras(t, "nintraf", innerKinds, tracks[0].ID)
			}
			seg.Frags = append(seg.Frags, fr)
			f++
		}
		lay.Segments = append(lay.Segments, seg)
	}
	return lay
}

// Classes returns coverage labels of a case (for evidence counters).
func Classes(tracks []Track, lay FileLayout) []string {
	set := map[string]bool{}
	add := func(c bool, s string) {
		if c {
			set[s] = true
		}
	}
	add(len(tracks) > 1, "multitrack")
	add(lay.TopSidx, "topsidx")
	add(lay.Mfra, "mfra")
	add(len(lay.Segments) > 1, "multiseg")
	for _, tr := range tracks {
		add(len(tr.Samples) == 0, "track-without-samples")
		add(tr.StartTime > 0xffffffff, "time64")
		for _, s := range tr.Samples {
			add(s.Cto < 0, "cto-negative")
			add(len(s.Data) == 0, "size0")
			add(s.Dur == 0, "dur0")
		}
	}
	for _, sg := range lay.Segments {
		add(sg.Styp, "styp")
		add(sg.Sidx, "segsidx")
		add(len(sg.Frags) > 1, "multifrag")
		for _, fr := range sg.Frags {
			add(len(fr.Runs) == 0, "frag-without-runs")
			add(fr.SplitTrafs && len(fr.Runs) > 1, "split-trafs")
			add(fr.MdatLarge, "mdat-large")
			add(len(fr.PreBoxes) > 0, "pre-boxes")
			add(len(fr.InMoofBoxes) > 0, "inmoof-boxes")
			add(len(fr.InTrafBoxes) > 0, "intraf-boxes")
			perTrack := map[int]int{}
			for _, r := range fr.Runs {
				perTrack[r.Track]++
				add(r.N == 0, "empty-run")
			}
			for _, n := range perTrack {
				add(n > 1, "multi-trun")
			}
			add(len(perTrack) > 1, "multi-traf")
			o := fr.Opts
			add(o.TfhdDefaults, "opt-tfhd-defaults")
			add(o.UseTrex, "opt-use-trex")
			add(o.FirstSampleFlags, "opt-first-sample-flags")
			add(o.Base == 0, "base-moof")
			add(o.Base == 1, "base-explicit")
			add(o.Base == 2, "base-legacy")
			add(o.ForceAllPerSample, "opt-force-all")
			add(o.OmitContiguousDataOffset, "opt-omit-data-offset")
		}
	}
	out := make([]string, 0, len(set))
	for k := range set {
		out = append(out, k)
	}
	sort.Strings(out)
	return out
}
