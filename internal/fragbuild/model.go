// Package fragbuild is an independent writer and an independent reader of fragmented MP4
// (ISO/IEC 14496-12 movie fragments / CMAF), both driven by a plain sample model.
//
// The non-test files of this package do not import mp4ff: they are the reference the library is
// compared against. Writer (write.go) and reader (read.go) share nothing but the trivial big-endian
// helpers of encoding/binary.
package fragbuild

// Sample is one media sample. Its decode time is implied: Track.StartTime plus the durations of all
// preceding samples of the track.
type Sample struct {
	Data  []byte
	Dur   uint32
	Cto   int32  // composition time offset
	Flags uint32 // the full 32-bit sample_flags word of 14496-12 8.8.3.1
}

// Sync reports whether sample_is_non_sync_sample (bit 16) is clear.
func (s Sample) Sync() bool { return s.Flags&0x00010000 == 0 }

// TrexDefaults are the values of the trex box of a track.
type TrexDefaults struct{ DescIdx, Dur, Size, Flags uint32 }

// Track is one track of the model.
type Track struct {
	ID            uint32
	Timescale     uint32
	Handler       string // "vide" | "soun" | "text" | "subt" | ...
	StsdRaw       []byte // complete stsd box (header included)
	Width, Height uint16
	Trex          TrexDefaults
	StartTime     uint64 // baseMediaDecodeTime of the first sample
	Samples       []Sample
}

// DecodeTime returns the decode time of sample i (i may equal len(Samples)).
func (t *Track) DecodeTime(i int) uint64 {
	tm := t.StartTime
	for k := 0; k < i && k < len(t.Samples); k++ {
		tm += uint64(t.Samples[k].Dur)
	}
	return tm
}

// ExtraBox is a box written verbatim: header, then (for Type "uuid") the 16 UUID bytes, then Payload.
// For full boxes the version/flags word is part of Payload.
type ExtraBox struct {
	Type    string
	Payload []byte
	UUID    []byte
}

// Run is one trun: the next N samples of track index Track.
type Run struct {
	Track int
	N     int
}

// FragOpts selects how the sample table of a fragment is encoded. Every combination yields a legal
// encoding; the writer upgrades versions on its own where the values demand it.
type FragOpts struct {
	TfhdDefaults     bool // put a common dur/size/flags into tfhd when all samples of the traf agree
	UseTrex          bool // leave out values that equal the trex default
	FirstSampleFlags bool // use first_sample_flags when only the first sample of a run differs from the default
	// Base: 0 default-base-is-moof, 1 explicit base_data_offset (= absolute moof start),
	// 2 neither flag ("legacy": first traf relative to moof start, any later traf relative to the
	// end of the data of the preceding traf), 3 explicit base_data_offset that is NOT the moof start (half of it): the
	// trun data offsets count from that position.
	Base              int
	TrunVersion       int  // 0 or 1; 1 is used regardless when a run has a negative Cto
	TfdtVersion       int  // 0 or 1; 1 is used regardless when the time does not fit 32 bits
	ForceAllPerSample bool // every trun carries dur, size, flags and cto per sample; no defaults
	TfhdDescIdx       bool // write sample_description_index (= trex value) into tfhd
	// OmitContiguousDataOffset leaves out trun.data_offset in the 2nd.. trun of a traf when its data
	// directly follows the data of the preceding trun of the same traf (14496-12 8.8.8.1).
	OmitContiguousDataOffset bool
}

// Frag is the layout of one movie fragment.
type Frag struct {
	// Runs gives the order of the run data in mdat and of the truns. Several runs of one track go
	// into one traf (several truns) unless SplitTrafs, which gives every run a traf of its own.
	Runs        []Run
	SplitTrafs  bool
	PreBoxes    []ExtraBox // before moof
	InMoofBoxes []ExtraBox // after mfhd, before the first traf
	InTrafBoxes []ExtraBox // after the truns of every traf
	MdatLarge   bool       // 64-bit largesize mdat header
	Opts        FragOpts
}

// Segment is the layout of one media segment.
type Segment struct {
	Styp  bool
	Sidx  bool // a sidx (one reference) in front of the fragments describing this segment
	Frags []Frag
}

// FileLayout is the layout of the whole file.
type FileLayout struct {
	Segments []Segment
	TopSidx  bool // one sidx after moov with one reference per segment
	// TopSidxGap > 0: a free box of that many bytes (>= 8) follows the top-level sidx, and the sidx says so in
	// first_offset (the indexed material starts behind the free box)
	TopSidxGap int `json:",omitempty"`
	// TopSidxGapLarge: that free box carries a 64-bit size field (TopSidxGap >= 16)
	TopSidxGapLarge bool `json:",omitempty"`
	// TopSidxSplit = k with 0 < k < len(Segments): the top-level index is written as TWO chained sidx boxes behind
	// moov (both version 1): the first references segments 0..k-1 and skips the second box in first_offset, the
	// second references segments k.. and skips the first k segments in first_offset
	TopSidxSplit int  `json:",omitempty"`
	Mfra         bool // mfra (tfra per track + mfro) at the end
	// MfraFirstTrackOnly restricts the mfra to one tfra for tracks[0].
	MfraFirstTrackOnly bool
	// MfraNoTfra: the mfra holds its mfro box only (tfra is "zero or one per track": an empty random access table)
	MfraNoTfra bool `json:",omitempty"`
	// MfraLenSizes: the three 2-bit length_size_of_{traf,trun,sample}_num fields of every tfra (bytes minus 1 of the
	// traf / trun / sample numbers of its entries), traf in bits 5-4, trun in bits 3-2, sample in bits 1-0
	MfraLenSizes int    `json:",omitempty"`
	SeqStart     uint32 // mfhd sequence_number of the first fragment
}

// BoxInfo locates a box in the concatenated file.
type BoxInfo struct {
	Type   string
	Offset uint64
	Size   uint64
}

// RunTruth locates one run.
type RunTruth struct {
	Track      int    // index into tracks
	First, N   int    // sample index range of the track
	DataOffset uint64 // absolute file offset of the first byte of the run
	Traf       int    // index of the traf in the moof
	Trun       int    // index of the trun in that traf
}

// TrackRange is the contiguous sample range a track contributes to a fragment.
type TrackRange struct{ First, N int }

// FragTruth describes a written fragment. Offsets are absolute in init ++ segments.
type FragTruth struct {
	Offset, Size uint64 // incl. pre boxes
	Seq          uint32
	Pre          []BoxInfo
	Moof, Mdat   BoxInfo
	MdatPayload  uint64 // absolute offset of the mdat payload
	Runs         []RunTruth
	Tracks       []TrackRange // per track index
}

// SegTruth describes a written segment.
type SegTruth struct {
	Index        int
	Offset, Size uint64
	Styp, Sidx   *BoxInfo
	Frags        []FragTruth
}

// Truth is what Build knows about the bytes it produced.
type Truth struct {
	InitSize  uint64   // ftyp+moov; a TopSidx, if any, follows inside the returned init bytes
	TopSidx   *BoxInfo // nil if absent
	TopSidx2  *BoxInfo // the second box of a split top-level index (TopSidxSplit)
	Segments  []SegTruth
	Mfra      *BoxInfo
	MfraBytes []byte    // to be appended after the last segment
	Boxes     []BoxInfo // every top-level box in file order (mfra included)
	Consumed  []int     // per track: number of samples placed
}

// Concat returns init ++ segments ++ mfra.
func Concat(init []byte, segments [][]byte, truth *Truth) []byte {
	n := len(init)
	for _, s := range segments {
		n += len(s)
	}
	if truth != nil {
		n += len(truth.MfraBytes)
	}
	out := make([]byte, 0, n)
	out = append(out, init...)
	for _, s := range segments {
		out = append(out, s...)
	}
	if truth != nil {
		out = append(out, truth.MfraBytes...)
	}
	return out
}
