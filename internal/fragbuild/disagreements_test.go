package fragbuild

import (
	"encoding/hex"
	"strings"
	"testing"

	"github.com/Eyevinn/mp4ff/mp4"
)

// Minimal, hand-checked files of every class in which the library disagrees with ISO/IEC 14496-12
// (the named switches in fragbuild_test.go). Each test
//   - builds the file from a tiny model and pins its bytes (hex below, so that the reported
//     reproducer is exactly what is tested),
//   - shows that the independent reader recovers the model from it,
//   - shows what the library does with it today. If the library starts to agree, the test fails with
//     the request to open the switch.

func tinyTrack(id uint32, datas ...string) Track {
	t := Track{ID: id, Timescale: 1000, Handler: "text", StsdRaw: WvttStsd(), Trex: TrexDefaults{DescIdx: 1}}
	for _, d := range datas {
		t.Samples = append(t.Samples, Sample{Data: []byte(d), Dur: 10, Flags: FlagsSync})
	}
	return t
}

type disagreement struct {
	name    string
	tracks  []Track
	lay     FileLayout
	decOpts []mp4.Option
	wantErr string // substring of what libCheck reports today
	hexFile string // the media part (everything after the moov) of the file
	why     string
}

var disagreements = []disagreement{
	{
		name:   "split-trafs",
		tracks: []Track{tinyTrack(1, "AAAA", "BBB")},
		lay: FileLayout{SeqStart: 1, Segments: []Segment{{Frags: []Frag{{
			Runs: []Run{{0, 1}, {0, 1}}, SplitTrafs: true}}}}},
		hexFile: "000000a86d6f6f66000000106d6668640000000000000001000000487472616600000010746668640002000000000001000000107466647400000000" +
			"00000000000000207472756e0000070100000001000000b00000000a0000000402000000000000487472616600000010746668640002000000000001" +
			"0000001074666474000000000000000a000000207472756e0000070100000001000000b40000000a00000003020000000000000f6d64617441414141" +
			"424242",
		wantErr: "library returns 1 samples, want 2",
		why: "moof with two traf boxes for track 1 (14496-12 8.8.6: zero or more track fragments per track). " +
			"Fragment.GetFullSamples(trex) stops at the first traf with the track ID and silently drops the sample of the second.",
	},
	{
		name:   "legacy-base-second-traf",
		tracks: []Track{tinyTrack(1, "AAAA"), tinyTrack(2, "BBB")},
		lay: FileLayout{SeqStart: 1, Segments: []Segment{{Frags: []Frag{{
			Runs: []Run{{0, 1}, {1, 1}}, Opts: FragOpts{Base: 2}}}}}},
		hexFile: "000000a86d6f6f66000000106d6668640000000000000001000000487472616600000010746668640000000000000001000000107466647400000000" +
			"00000000000000207472756e0000070100000001000000b00000000a0000000402000000000000487472616600000010746668640000000000000002" +
			"00000010746664740000000000000000000000207472756e0000070100000001000000000000000a00000003020000000000000f6d64617441414141" +
			"424242",
		wantErr: "track 1",
		why: "tfhd flags 0 in both trafs (no base-data-offset, no default-base-is-moof). 8.8.7.1: the base of the second traf is " +
			"the end of the data of the first traf, so its trun.data_offset is 0 here. The library adds it to the moof start.",
	},
	{
		name:   "trun-without-data-offset",
		tracks: []Track{tinyTrack(1, "AAAA", "BBB")},
		lay: FileLayout{SeqStart: 1, Segments: []Segment{{Frags: []Frag{{
			Runs: []Run{{0, 1}, {0, 1}}, Opts: FragOpts{OmitContiguousDataOffset: true}}}}}},
		hexFile: "0000007c6d6f6f66000000106d6668640000000000000001000000647472616600000010746668640002000000000001000000107466647400000000" +
			"00000000000000207472756e0000070100000001000000840000000a00000004020000000000001c7472756e00000700000000010000000a00000003" +
			"020000000000000f6d64617441414141424242",
		wantErr: "offset in mdata beyond size",
		why: "second trun of the traf has no data_offset; 8.8.8.1: its data starts immediately after the data of the previous run. " +
			"Fragment.GetFullSamples restarts at the moof start and fails.",
	},
	{
		name:   "topsidx-then-prft",
		tracks: []Track{tinyTrack(1, "AAAA")},
		lay: FileLayout{SeqStart: 1, TopSidx: true, Segments: []Segment{{Frags: []Frag{{
			Runs:     []Run{{0, 1}},
			PreBoxes: []ExtraBox{{Type: "prft", Payload: []byte{0, 0, 0, 0, 0, 0, 0, 1, 0xe0, 0, 0, 0, 0, 0, 0, 0, 0, 0, 4, 0xd2}}}}}}}},
		hexFile: "0000002c736964780000000000000001000003e8000000000000000000000001000000880000000a900000000000001c707266740000000000000001" +
			"e000000000000000000004d2000000606d6f6f66000000106d6668640000000000000001000000487472616600000010746668640002000000000001" +
			"00000010746664740000000000000000000000207472756e0000070100000001000000680000000a00000004020000000000000c6d64617441414141",
		wantErr: "library panics: runtime error: invalid memory address or nil pointer dereference",
		why: "ftyp moov sidx prft moof mdat: prft sits where 8.16.5 puts it (after sidx, before its moof). mp4.DecodeFile panics: " +
			"File.startSegmentIfNeeded starts a segment only when the moof is exactly at the sidx anchor, then File.AddChild uses the nil LastSegment().",
	},
	{
		name:   "ism-tfra-fewer-entries-than-moofs",
		tracks: []Track{tinyTrack(1, "AAAA", "BBB")},
		lay: FileLayout{SeqStart: 1, Mfra: true, Segments: []Segment{{Frags: []Frag{
			{Runs: []Run{{0, 1}}}, {Runs: []Run{{0, 1}}}}}}},
		decOpts: []mp4.Option{mp4.WithDecodeFlags(mp4.DecISMFlag)},
		hexFile: "000000606d6f6f66000000106d6668640000000000000001000000487472616600000010746668640002000000000001000000107466647400000000" +
			"00000000000000207472756e0000070100000001000000680000000a00000004020000000000000c6d64617441414141000000606d6f6f6600000010" +
			"6d66686400000000000000020000004874726166000000107466686400020000000000010000001074666474000000000000000a000000207472756e" +
			"0000070100000001000000680000000a00000003020000000000000b6d6461744242420000003b6d6672610000002374667261000000000000000100" +
			"000000000000010000000000000225010101000000106d66726f000000000000003b",
		wantErr: "library panics: runtime error: index out of range [1] with length 1",
		why: "two moofs, mfra/tfra with one entry (the random access point at the first moof; 8.8.10 does not ask for an entry per moof). " +
			"With DecISMFlag, File.startSegmentIfNeeded indexes tfra.Entries with the number of segments so far and panics at the second moof.",
	},
	{
		name:   "ism-styp-and-mfra",
		tracks: []Track{tinyTrack(1, "AAAA")},
		lay: FileLayout{SeqStart: 1, Mfra: true, Segments: []Segment{{Styp: true, Frags: []Frag{
			{Runs: []Run{{0, 1}}}}}}},
		decOpts: []mp4.Option{mp4.WithDecodeFlags(mp4.DecISMFlag)},
		hexFile: "00000018737479706d736468000000006d7364686d736978000000606d6f6f66000000106d6668640000000000000001000000487472616600000010" +
			"74666864000200000000000100000010746664740000000000000000000000207472756e0000070100000001000000680000000a0000000402000000" +
			"0000000c6d646174414141410000003b6d667261000000237466726100000000000000010000000000000001000000000000023d010101000000106d" +
			"66726f000000000000003b",
		wantErr: "library panics: runtime error: index out of range [1] with length 1",
		why: "styp moof mdat mfra: one moof and a tfra with one entry pointing at it. With DecISMFlag the styp has already started " +
			"segment 0, so File.startSegmentIfNeeded reads tfra.Entries[1] at the only moof (same unchecked index as above).",
	},
	{
		name:   "ism-emsg-before-first-moof",
		tracks: []Track{tinyTrack(1, "AAAA")},
		lay: FileLayout{SeqStart: 1, Mfra: true, Segments: []Segment{{Frags: []Frag{{
			Runs:     []Run{{0, 1}},
			PreBoxes: []ExtraBox{{Type: "emsg", Payload: append([]byte{0, 0, 0, 0}, []byte("u\x00v\x00\x00\x00\x03\xe8\x00\x00\x00\x00\x00\x00\x00\x01\x00\x00\x00\x07")...)}}}}}}},
		decOpts: []mp4.Option{mp4.WithDecodeFlags(mp4.DecISMFlag)},
		hexFile: "00000020656d73670000000075007600000003e8000000000000000100000007000000606d6f6f66000000106d666864000000000000000100000048" +
			"747261660000001074666864000200000000000100000010746664740000000000000000000000207472756e0000070100000001000000680000000a" +
			"00000004020000000000000c6d646174414141410000003b6d6672610000002374667261000000000000000100000000000000010000000000000245" +
			"010101000000106d66726f000000000000003b",
		wantErr: "library panics: runtime error: invalid memory address or nil pointer dereference",
		why: "emsg in front of the first moof, mfra present, DecISMFlag: the emsg is not at the tfra moof_offset, no segment is started, " +
			"File.AddChild dereferences the nil LastSegment().",
	},
}

func TestLibDisagreements(t *testing.T) {
	for _, d := range disagreements {
		d := d
		t.Run(d.name, func(t *testing.T) {
			init, segs, truth, err := Build(d.tracks, d.lay)
			if err != nil {
				t.Fatalf("Build: %v", err)
			}
			file := Concat(init, segs, truth)
			p, err := Read(file)
			if err != nil {
				t.Fatalf("independent reader rejects the file: %v", err)
			}
			if err := compareWithTruth(d.tracks, d.lay, init, segs, truth, file, p); err != nil {
				t.Fatalf("independent reader: %v", err)
			}
			media := hex.EncodeToString(file[truth.InitSize:])
			t.Logf("%s\nwhole file (%d bytes): %s\nafter moov: %s", d.why, len(file), hex.EncodeToString(file), media)
			if d.hexFile != "" && d.hexFile != media {
				t.Errorf("the pinned bytes changed:\n have %s\n want %s", media, d.hexFile)
			}
			lerr := libCheck(d.tracks, d.lay, truth, file, d.decOpts...)
			if lerr == nil {
				// repaired in /repo since this file was written (the fix: commits are listed in DESIGN.md 8.2): the file stays
				// as a regression input, the reader and the library agree on it
				t.Logf("the library now agrees with the reader on this file")
				return
			}
			t.Logf("library: %v", lerr)
			if !strings.Contains(lerr.Error(), d.wantErr) {
				t.Errorf("library behaviour changed: %v (expected something with %q)", lerr, d.wantErr)
			}
		})
	}
}
