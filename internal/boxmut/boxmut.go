// Package boxmut: structure-aware mutation of ISOBMFF byte strings (no mp4ff imports).
// A mutation list is a small, JSON-serialisable recipe applied to a seed; box indices refer to the
// depth-first list of boxes that boxwalk finds in the *current* bytes (modulo its length), so recipes stay
// meaningful while rapid shrinks them.
package boxmut

import (
	"encoding/binary"

	"pgregory.net/rapid"

	"verif/internal/boxwalk"
)

type Mut struct {
	Op  string `json:"op"`
	Box int    `json:"box,omitempty"` // box index (depth-first)
	Off int    `json:"off,omitempty"` // byte offset (absolute or relative to the box payload, see op)
	Val uint64 `json:"val,omitempty"`
	N   int    `json:"n,omitempty"`
	Str string `json:"str,omitempty"` // 4cc or raw bytes
}

var Hostile32 = []uint64{0, 1, 2, 7, 8, 9, 15, 16, 0xff, 0x100, 0xffff, 0x10000, 0xffffff, 0x1000000, 0x7fffffff, 0x80000000, 0xfffffff0, 0xfffffffe, 0xffffffff}

var InsertPool = map[string][]byte{
	"free":      boxwalk.Make("free", []byte{1, 2, 3}),
	"styp":      boxwalk.Make("styp", []byte("msdh\x00\x00\x00\x00msdh")),
	"ftyp4":     boxwalk.Make("ftyp", []byte("isom")),
	"ftyp":      boxwalk.Make("ftyp", []byte("isom\x00\x00\x00\x01isom")),
	"mdat0":     boxwalk.Make("mdat", nil),
	"mdat":      boxwalk.Make("mdat", []byte{1, 2, 3, 4, 5, 6, 7, 8}),
	"moof0":     boxwalk.Make("moof", nil),
	"moofmfhd":  boxwalk.Make("moof", boxwalk.Make("mfhd", []byte{0, 0, 0, 0, 0, 0, 0, 1})),
	"traf0":     boxwalk.Make("traf", nil),
	"moov0":     boxwalk.Make("moov", nil),
	"trak0":     boxwalk.Make("trak", nil),
	"mdia0":     boxwalk.Make("mdia", nil),
	"minf0":     boxwalk.Make("minf", nil),
	"stbl0":     boxwalk.Make("stbl", nil),
	"mvex0":     boxwalk.Make("mvex", nil),
	"mfra0":     boxwalk.Make("mfra", nil),
	"sidx":      boxwalk.Make("sidx", []byte{0, 0, 0, 0, 0, 0, 0, 1, 0, 0, 3, 0xe8, 0, 0, 0, 0, 0, 0, 0, 0, 0, 0, 0, 1, 0, 0, 0, 100, 0, 0, 0, 10, 0x90, 0, 0, 0}),
	"sidx0":     boxwalk.Make("sidx", []byte{0, 0, 0, 0, 0, 0, 0, 1, 0, 0, 3, 0xe8, 0, 0, 0, 0, 0, 0, 0, 0, 0, 0, 0, 0}),
	"emsg":      boxwalk.Make("emsg", []byte{1, 0, 0, 0, 0, 0, 3, 0xe8, 0, 0, 0, 0, 0, 0, 0, 0, 0, 0, 0, 1, 0, 0, 0, 7, 'u', 0, 'v', 0}),
	"prft":      boxwalk.Make("prft", []byte{0, 0, 0, 0, 0, 0, 0, 1, 0, 0, 0, 0, 0, 0, 0, 0, 0, 0, 0, 5}),
	"saio0":     boxwalk.Make("saio", []byte{0, 0, 0, 0, 0, 0, 0, 0}),
	"saiz":      boxwalk.Make("saiz", []byte{0, 0, 0, 0, 8, 0, 0, 0, 1}),
	"senc":      boxwalk.Make("senc", []byte{0, 0, 0, 0, 0, 0, 0, 1, 1, 2, 3, 4, 5, 6, 7, 8}),
	"sencbig":   boxwalk.Make("senc", []byte{0, 0, 0, 2, 0xff, 0xff, 0xff, 0xff, 0, 0, 0, 0}),
	"tfhd":      boxwalk.Make("tfhd", []byte{0, 2, 0, 0, 0, 0, 0, 1}),
	"tfdt":      boxwalk.Make("tfdt", []byte{0, 0, 0, 0, 0, 0, 0, 0}),
	"trun":      boxwalk.Make("trun", []byte{0, 0, 0, 1, 0, 0, 0, 1, 0, 0, 0, 0}),
	"trunbig":   boxwalk.Make("trun", []byte{0, 0, 0, 0, 0, 0, 4, 0}),
	"stts0":     boxwalk.Make("stts", []byte{0, 0, 0, 0, 0, 0, 0, 0}),
	"uuid":      boxwalk.Make("uuid", []byte{1, 2, 3, 4, 5, 6, 7, 8, 9, 10, 11, 12, 13, 14, 15, 16, 0xaa}),
	"unknown":   boxwalk.Make("zzzz", []byte{0xde, 0xad}),
	"mfro":      boxwalk.Make("mfro", []byte{0, 0, 0, 0, 0, 0, 0, 16}),
	"tfra0":     boxwalk.Make("tfra", []byte{0, 0, 0, 0, 0, 0, 0, 1, 0, 0, 0, 0, 0, 0, 0, 0}),
	"mfrafull":  boxwalk.Make("mfra", append(boxwalk.Make("tfra", []byte{0, 0, 0, 0, 0, 0, 0, 1, 0, 0, 0, 0, 0, 0, 0, 0}), boxwalk.Make("mfro", []byte{0, 0, 0, 0, 0, 0, 0, 48})...)),
	"mfraempty": boxwalk.Make("mfra", boxwalk.Make("mfro", []byte{0, 0, 0, 0, 0, 0, 0, 24})),
	// sample-group boxes that steer senc parsing (seig) and friends
	"sbgpseig":  boxwalk.Make("sbgp", []byte{0, 0, 0, 0, 's', 'e', 'i', 'g', 0, 0, 0, 1, 0, 0, 0, 1, 0, 1, 0, 1}),
	"sbgpseig2": boxwalk.Make("sbgp", []byte{0, 0, 0, 0, 's', 'e', 'i', 'g', 0, 0, 0, 2, 0, 0, 0, 1, 0, 1, 0, 1, 0, 0, 0, 1, 0, 0, 0, 0}),
	"sgpdseig0": boxwalk.Make("sgpd", []byte{1, 0, 0, 0, 's', 'e', 'i', 'g', 0, 0, 0, 20, 0, 0, 0, 0}),
	"sgpdseig": boxwalk.Make("sgpd", []byte{1, 0, 0, 0, 's', 'e', 'i', 'g', 0, 0, 0, 20, 0, 0, 0, 1,
		0, 0, 1, 8, 1, 2, 3, 4, 5, 6, 7, 8, 9, 10, 11, 12, 13, 14, 15, 16}),
	"sgpdroll":     boxwalk.Make("sgpd", []byte{1, 0, 0, 0, 'r', 'o', 'l', 'l', 0, 0, 0, 2, 0, 0, 0, 1, 0xff, 0xff}),
	"sgpdseigroll": boxwalk.Make("sgpd", []byte{1, 0, 0, 0, 's', 'e', 'i', 'g', 0, 0, 0, 2, 0, 0, 0, 1, 0xff, 0xff}),
	"mdatlarge":    {0, 0, 0, 1, 'm', 'd', 'a', 't', 0, 0, 0, 0, 0, 0, 0, 20, 1, 2, 3, 4},
	"mdathuge":     {0, 0, 0, 1, 'm', 'd', 'a', 't', 0xff, 0xff, 0xff, 0xff, 0xff, 0xff, 0xff, 0xf0},
	"mdat63":       {0, 0, 0, 1, 'm', 'd', 'a', 't', 0x80, 0, 0, 0, 0, 0, 0, 0x10},
	"elst1":        boxwalk.Make("edts", boxwalk.Make("elst", []byte{0, 0, 0, 0, 0, 0, 0, 1, 0, 0, 0, 10, 0, 0, 0, 0, 0, 1, 0, 0})),
	"subs":         boxwalk.Make("subs", []byte{0, 0, 0, 0, 0, 0, 0, 1, 0, 0, 0, 1, 0, 1, 0, 4, 0, 0, 0, 0, 0, 0}),
	"pssh1":        boxwalk.Make("pssh", []byte{1, 0, 0, 0, 1, 2, 3, 4, 5, 6, 7, 8, 9, 10, 11, 12, 13, 14, 15, 16, 0, 0, 0, 0, 0, 0, 0, 0}),
}

// Hostile64: values for 64-bit size and offset fields.
var Hostile64 = []uint64{0, 1, 15, 16, 17, 0xffffffff, 0x100000000, 0x7fffffffffffffff, 0x8000000000000000, 0x8000000000000010, 0xfffffffffffffff0, 0xffffffffffffffff}

var insertNames []string

func init() {
	for k := range InsertPool {
		insertNames = append(insertNames, k)
	}
	// deterministic order
	for i := 0; i < len(insertNames); i++ {
		for j := i + 1; j < len(insertNames); j++ {
			if insertNames[j] < insertNames[i] {
				insertNames[i], insertNames[j] = insertNames[j], insertNames[i]
			}
		}
	}
}

var fourccs = []string{"free", "moov", "moof", "mdat", "trak", "traf", "stsd", "trun", "senc", "saio", "saiz", "sidx", "styp", "ftyp", "emsg", "uuid", "tfhd", "mfra", "tfra", "stts", "zzzz", "meta", "avc1", "mp4a", "sgpd", "sbgp", "stsz", "ctts", "elst", "hdlr", "mvhd", "tkhd", "mdhd", "esds", "avcC", "hvcC", "pssh", "tenc", "sinf", "schm"}

// Uniform draws an index in [0,n) that is (nearly) uniform. rapid's own integer generators (and SampledFrom on top
// of them) favour small values and the bounds, which starves the tail of a long list; here two 64-bit draws are passed
// through a fixed mixing function first (two, because about one biased draw in twenty is 0 or 1). Deterministic, and
// still shrinkable: both draws shrink towards 0, which maps to index 0 (put the simplest entry first).
func Uniform(t *rapid.T, label string, n int) int {
	v := mix64(rapid.Uint64().Draw(t, label)) + rapid.Uint64().Draw(t, label+"'")
	return int(mix64(v) % uint64(n))
}

func mix64(v uint64) uint64 {
	v ^= v >> 30
	v *= 0xbf58476d1ce4e5b9
	v ^= v >> 27
	v *= 0x94d049bb133111eb
	v ^= v >> 31
	return v
}

// genOps: the operations Gen draws from (repetition = weight; drawn uniformly, see Uniform).
var genOps = []string{"bytes", "bytes", "payload", "payload", "size", "size", "count", "count", "truncate", "drop", "drop", "dup", "swap", "rename", "insert", "insert", "zero", "verflags", "verflags", "wrap", "largesize", "emptytable", "wrapw", "dupw", "shrink", "shrink"}

// Gen draws a list of 1..max mutations.
func Gen(t *rapid.T, max int) []Mut {
	n := rapid.IntRange(1, max).Draw(t, "nmut")
	out := make([]Mut, 0, n)
	for i := 0; i < n; i++ {
		m := Mut{Op: genOps[Uniform(t, "op", len(genOps))]}
		m.Box = rapid.IntRange(0, 400).Draw(t, "box")
		switch m.Op {
		case "bytes": // overwrite 1..8 bytes at an absolute offset (modulo length)
			m.Off = rapid.IntRange(0, 1<<20).Draw(t, "off")
			m.N = rapid.SampledFrom([]int{1, 1, 2, 4, 4, 8}).Draw(t, "n")
			m.Val = rapid.OneOf(rapid.SampledFrom(Hostile32), rapid.Uint64()).Draw(t, "val")
		case "payload": // overwrite 1..8 bytes inside box m.Box at payload offset Off
			m.Off = rapid.OneOf(rapid.IntRange(0, 40), rapid.IntRange(0, 4000)).Draw(t, "off")
			m.N = rapid.SampledFrom([]int{1, 1, 2, 4, 4, 8}).Draw(t, "n")
			m.Val = rapid.OneOf(rapid.SampledFrom(Hostile32), rapid.Uint64()).Draw(t, "val")
		case "size": // set the size field of the box
			m.Val = rapid.OneOf(rapid.SampledFrom(Hostile32), rapid.Uint64Range(0, 200)).Draw(t, "val")
			m.N = rapid.IntRange(0, 2).Draw(t, "mode") // 0 absolute, 1 size+val, 2 size-val
		case "count": // 32-bit field at payload offset 4 (entry count of most full boxes) or Off
			m.Off = rapid.SampledFrom([]int{4, 4, 4, 0, 8, 12, 16}).Draw(t, "off")
			m.Val = rapid.SampledFrom(Hostile32).Draw(t, "val")
		case "truncate":
			m.Off = rapid.IntRange(0, 1<<20).Draw(t, "off")
		case "rename":
			m.Str = fourccs[Uniform(t, "fourcc", len(fourccs))]
		case "insert":
			m.Str = insertNames[Uniform(t, "what", len(insertNames))]
			m.N = rapid.IntRange(0, 2).Draw(t, "where") // 0 before, 1 after, 2 as first child
		case "zero":
			m.Off = rapid.IntRange(0, 200).Draw(t, "off")
			m.N = rapid.IntRange(1, 64).Draw(t, "n")
		case "shrink": // the payload of a box cut to Off bytes (parents fixed up; containers only within their first 16 bytes)
			m.Off = rapid.OneOf(rapid.IntRange(0, 12), rapid.IntRange(0, 64)).Draw(t, "keep")
		case "emptytable": // entry count at payload offset Off set to 0 and the box cut right behind it (parents fixed up)
			m.Off = rapid.SampledFrom([]int{4, 4, 4, 8, 12, 12, 16, 0}).Draw(t, "off")
		case "verflags":
			if rapid.IntRange(0, 2).Draw(t, "vfKind") == 0 {
				// a chosen version with chosen flags (versions above those a box defines are the interesting ones)
				ver := rapid.SampledFrom([]uint64{0, 1, 2, 3, 4, 0x7f, 0x80, 0xff}).Draw(t, "version")
				fl := rapid.SampledFrom([]uint64{0, 1, 2, 3, 4, 7, 0x100, 0x301, 0xf01, 0x20000, 0xffffff}).Draw(t, "flags")
				m.Val = ver<<24 | fl
				break
			}
			m.Val = rapid.OneOf(rapid.SampledFrom([]uint64{0, 1, 2, 0x01000000, 0x00000001, 0x00000002, 0x00000004, 0x00000100, 0x00000200, 0x00000400, 0x00000800, 0x00000f01, 0x00020000, 0x00ffffff, 0xffffffff}), rapid.Uint64Range(0, 0xffffffff)).Draw(t, "vf")
		case "largesize": // give the box a 64-bit size header: N=0 keeps the length, N=1 claims Val
			// N=2: the 64-bit size is the (negative) distance back to the start of box number Val, N=3: 2^64-Val
			m.N = rapid.IntRange(0, 3).Draw(t, "mode")
			if m.N >= 2 {
				m.Val = rapid.Uint64Range(0, 400).Draw(t, "val")
			} else {
				m.Val = rapid.OneOf(rapid.SampledFrom(Hostile64), rapid.Uint64()).Draw(t, "val")
			}
		case "wrap", "wrapw":
			m.Str = rapid.SampledFrom([]string{"moov", "trak", "moof", "traf", "stbl", "free", "udta", "meta", "mdia", "minf", "mvex", "sinf", "schi", "zzzz"}).Draw(t, "container")
		}
		out = append(out, m)
	}
	return out
}

func put(dst []byte, v uint64, n int) {
	for i := 0; i < n && i < len(dst); i++ {
		dst[i] = byte(v >> uint(8*(n-1-i)))
	}
}

// resize adjusts the size fields of all ancestors of the region [pos,pos) by delta.
func fixParents(data []byte, boxes []*boxwalk.Box, pos int, delta int) {
	var rec func(bs []*boxwalk.Box)
	rec = func(bs []*boxwalk.Box) {
		for _, b := range bs {
			if b.Start < pos && pos <= b.End() && len(b.Children) > 0 || (b.Start < pos && pos < b.End()) {
				if b.Large {
					binary.BigEndian.PutUint64(data[b.Start+8:], uint64(b.Size+delta))
				} else if !b.ToEnd {
					binary.BigEndian.PutUint32(data[b.Start:], uint32(b.Size+delta))
				}
				rec(b.Children)
			}
		}
	}
	rec(boxes)
}

// fixAncestors adjusts the size fields of the boxes that contain target (not target itself) by delta.
func fixAncestors(data []byte, boxes []*boxwalk.Box, target *boxwalk.Box, delta int) {
	var path []*boxwalk.Box
	var find func(bs []*boxwalk.Box) bool
	find = func(bs []*boxwalk.Box) bool {
		for _, b := range bs {
			if b == target {
				return true
			}
			if find(b.Children) {
				path = append(path, b)
				return true
			}
		}
		return false
	}
	find(boxes)
	for _, b := range path {
		if b.Large {
			binary.BigEndian.PutUint64(data[b.Start+8:], uint64(b.Size+delta))
		} else if !b.ToEnd {
			binary.BigEndian.PutUint32(data[b.Start:], uint32(b.Size+delta))
		}
	}
}

// Apply applies the recipe; it never fails (ops that do not fit are skipped).
func Apply(seed []byte, muts []Mut) []byte {
	data := append([]byte{}, seed...)
	for _, m := range muts {
		tree, _ := boxwalk.WalkAll(data)
		flat := boxwalk.Flatten(tree)
		var b *boxwalk.Box
		if len(flat) > 0 {
			b = flat[m.Box%len(flat)]
		}
		switch m.Op {
		case "nest", "repeat", "grow": // scale mutations, see nest.go
			data = applyShape(data, tree, b, m)
		case "cutto": // keep only the bytes from the start of the chosen box (box-level entry points)
			if b != nil {
				data = data[b.Start:]
			}
		case "bytes":
			if len(data) == 0 {
				continue
			}
			put(data[m.Off%len(data):], m.Val, m.N)
		case "payload":
			if b == nil || b.Size <= b.HdrSize {
				continue
			}
			off := b.PayloadStart() + m.Off%(b.Size-b.HdrSize)
			end := off + m.N
			if end > b.End() {
				end = b.End()
			}
			put(data[off:end], m.Val, m.N)
		case "size":
			if b == nil {
				continue
			}
			v := m.Val
			switch m.N {
			case 1:
				v = uint64(b.Size) + m.Val
			case 2:
				v = uint64(b.Size) - m.Val
			}
			binary.BigEndian.PutUint32(data[b.Start:], uint32(v))
		case "count":
			if b == nil || b.PayloadStart()+m.Off+4 > b.End() {
				continue
			}
			binary.BigEndian.PutUint32(data[b.PayloadStart()+m.Off:], uint32(m.Val))
		case "truncate":
			if len(data) > 0 {
				data = data[:m.Off%(len(data)+1)]
			}
		case "drop":
			if b == nil {
				continue
			}
			fixParents(data, tree, b.Start+1, -b.Size)
			data = append(data[:b.Start], data[b.End():]...)
		case "dup":
			if b == nil || b.Size > 1<<16 {
				continue
			}
			fixParents(data, tree, b.Start+1, b.Size)
			cp := append([]byte{}, data[b.Start:b.End()]...)
			data = append(data[:b.End()], append(cp, data[b.End():]...)...)
		case "swap": // swap with the next sibling (same parent = next box starting at End with same depth)
			if b == nil {
				continue
			}
			var nx *boxwalk.Box
			for _, o := range flat {
				if o.Start == b.End() && o.Depth == b.Depth {
					nx = o
				}
			}
			if nx == nil {
				continue
			}
			a := append([]byte{}, data[b.Start:b.End()]...)
			c := append([]byte{}, data[nx.Start:nx.End()]...)
			copy(data[b.Start:], c)
			copy(data[b.Start+len(c):], a)
		case "rename":
			if b == nil || len(m.Str) != 4 {
				continue
			}
			copy(data[b.Start+4:], m.Str)
		case "insert":
			ins, ok := InsertPool[m.Str]
			if !ok {
				continue
			}
			pos := len(data)
			if b != nil {
				switch m.N {
				case 0:
					pos = b.Start
				case 1:
					pos = b.End()
				case 2:
					if boxwalk.IsContainer(b.Type) && b.PayloadStart()+b.Skip <= b.End() {
						pos = b.PayloadStart() + b.Skip
					} else {
						pos = b.End()
					}
				}
			}
			// the insertion point is inside every box that starts before pos and ends at or after pos
			var rec func(bs []*boxwalk.Box)
			rec = func(bs []*boxwalk.Box) {
				for _, p := range bs {
					inside := p.Start < pos && pos < p.End() || (p.Start < pos && pos == p.End() && m.N == 2 && p == b)
					if inside {
						if p.Large {
							binary.BigEndian.PutUint64(data[p.Start+8:], uint64(p.Size+len(ins)))
						} else if !p.ToEnd {
							binary.BigEndian.PutUint32(data[p.Start:], uint32(p.Size+len(ins)))
						}
						rec(p.Children)
					}
				}
			}
			rec(tree)
			data = append(data[:pos], append(append([]byte{}, ins...), data[pos:]...)...)
		case "zero":
			if b == nil || b.Size <= b.HdrSize {
				continue
			}
			off := b.PayloadStart() + m.Off%(b.Size-b.HdrSize)
			for i := off; i < off+m.N && i < b.End(); i++ {
				data[i] = 0
			}
		case "emptytable":
			if b == nil || b.ToEnd || b.PayloadStart()+m.Off+4 > b.End() || boxwalk.IsContainer(b.Type) {
				continue
			}
			cut := b.PayloadStart() + m.Off + 4
			delta := cut - b.End()
			if delta == 0 {
				binary.BigEndian.PutUint32(data[cut-4:], 0)
				continue
			}
			fixParents(data, tree, b.Start+1, delta)
			if b.Large {
				binary.BigEndian.PutUint64(data[b.Start+8:], uint64(b.Size+delta))
			} else {
				binary.BigEndian.PutUint32(data[b.Start:], uint32(b.Size+delta))
			}
			binary.BigEndian.PutUint32(data[cut-4:], 0)
			data = append(data[:cut], data[b.End():]...)
		case "shrink":
			if b == nil || b.ToEnd || b.PayloadStart()+m.Off >= b.End() || (boxwalk.IsContainer(b.Type) && m.Off > 16) {
				// a container is only cut inside its first bytes (the fixed fields of stsd, dref, meta, trep and
				// sample entries, or the header of a first child)
				continue
			}
			cut := b.PayloadStart() + m.Off
			delta := cut - b.End()
			fixParents(data, tree, b.Start+1, delta)
			if b.Large {
				binary.BigEndian.PutUint64(data[b.Start+8:], uint64(b.Size+delta))
			} else {
				binary.BigEndian.PutUint32(data[b.Start:], uint32(b.Size+delta))
			}
			data = append(data[:cut], data[b.End():]...)
		case "verflags":
			if b == nil || b.PayloadStart()+4 > b.End() {
				continue
			}
			binary.BigEndian.PutUint32(data[b.PayloadStart():], uint32(m.Val))
		case "largesize":
			if b == nil || b.Large || b.Size > 1<<20 || b.Start+8 > len(data) {
				continue
			}
			fixParents(data, tree, b.Start+1, 8)
			v := uint64(b.Size + 8)
			switch m.N {
			case 1:
				v = m.Val
			case 2:
				v = uint64(int64(flat[int(m.Val)%len(flat)].Start) - int64(b.Start))
			case 3:
				v = -m.Val
			}
			var ls [8]byte
			binary.BigEndian.PutUint64(ls[:], v)
			binary.BigEndian.PutUint32(data[b.Start:], 1)
			data = append(data[:b.Start+8], append(ls[:], data[b.Start+8:]...)...)
		case "wrap":
			if b == nil || len(m.Str) != 4 || b.Size > 1<<20 {
				continue
			}
			fixParents(data, tree, b.Start+1, 8)
			hdr := boxwalk.Header(m.Str, b.Size, false)
			data = append(data[:b.Start], append(hdr, data[b.Start:]...)...)
		case "wrapw":
			// well-formed wrap: a new container of b.Size+8 bytes around the unchanged box, ancestors grown by 8 ("wrap"
			// also grows the wrapped box itself by 8: kept as it is for the stored recipes)
			if b == nil || len(m.Str) != 4 || b.Size > 1<<20 {
				continue
			}
			fixAncestors(data, tree, b, 8)
			hdr := boxwalk.Header(m.Str, b.Size, false)
			data = append(data[:b.Start], append(hdr, data[b.Start:]...)...)
		case "dupw":
			// well-formed duplicate: the copy follows the unchanged box, ancestors grown by its size ("dup" also doubles the
			// size field of the box itself)
			if b == nil || b.Size > 1<<16 {
				continue
			}
			fixAncestors(data, tree, b, b.Size)
			cp := append([]byte{}, data[b.Start:b.End()]...)
			data = append(data[:b.End()], append(cp, data[b.End():]...)...)
		}
		if len(data) > 4<<20 {
			data = data[:4<<20]
		}
	}
	return data
}
