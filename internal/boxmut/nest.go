package boxmut

// Shape mutations that change the *scale* of a structure rather than a value: deep nesting ("nest"), wide
// repetition ("repeat") and long tables ("grow"). They exist for the time/allocation proportionality oracle of C04: a well-formed input of
// n bytes may hold n/8 boxes, either nested n/8 deep or as n/8 siblings, and anything super-linear in the number of
// boxes only shows at that scale. They are NOT drawn by Gen (the round-trip checks that share Gen would spend their
// budget on them); a caller opts in through GenExt.

import (
	"encoding/binary"

	"pgregory.net/rapid"

	"verif/internal/boxwalk"
)

// NestContainers: the containers "nest" wraps with (meta carries a 4-byte version/flags prefix, zzzz is unknown to
// every decoder and is therefore kept as an opaque payload).
var NestContainers = []string{"udta", "moov", "trak", "traf", "meta", "stbl", "sinf", "zzzz"}

// NestDepths and RepeatCounts are the scales drawn (repetition = weight).
var NestDepths = []int{10, 10, 100, 100, 1000, 1000, 8000, 25000}
var RepeatCounts = []int{10, 10, 10, 100, 100, 100, 1000, 1000, 10000, 100000}

// RepeatUnitMax is the largest box "repeat" copies; RepeatBytesMax caps the bytes it adds.
const RepeatUnitMax = 64
const RepeatBytesMax = 3 << 20

var repeatNames []string // "" (the chosen box itself) and every pool box of at most RepeatUnitMax bytes

func init() {
	repeatNames = []string{"", "", "", "trak0", "traf0"} // the two shapes with a per-child rescan get extra weight
	names := make([]string, 0, len(InsertPool))
	for k, v := range InsertPool {
		if len(v) <= RepeatUnitMax {
			names = append(names, k)
		}
	}
	for i := 0; i < len(names); i++ { // deterministic order
		for j := i + 1; j < len(names); j++ {
			if names[j] < names[i] {
				names[i], names[j] = names[j], names[i]
			}
		}
	}
	repeatNames = append(repeatNames, names...)
}

// nestUniform: a (nearly) uniform index in [0,n). rapid's integer generators favour 0 and the bounds, which would turn
// a "1 in 100" draw into something much more frequent.
func nestUniform(t *rapid.T, label string, n int) int {
	v := rapid.Uint64().Draw(t, label)
	v ^= v >> 30
	v *= 0xbf58476d1ce4e5b9
	v ^= v >> 27
	v *= 0x94d049bb133111eb
	v ^= v >> 31
	v += rapid.Uint64().Draw(t, label+"'")
	v ^= v >> 33
	v *= 0xff51afd7ed558ccd
	v ^= v >> 33
	return int(v % uint64(n))
}

// GenNest draws one "nest" mutation, GenRepeat one "repeat" mutation.
// Mut.Off of a "nest" damages the innermost level, so that the decoder fails at the bottom of the nesting and its error
// travels up through every level: 0 intact, 1 the wrapped box claims one byte more than its parent holds, 2 the wrapped
// box claims 7 bytes (less than a header), 3 the data end right behind the last wrapper header.
func GenNest(t *rapid.T) Mut {
	return Mut{Op: "nest",
		Box: rapid.IntRange(0, 400).Draw(t, "box"),
		N:   NestDepths[nestUniform(t, "depth", len(NestDepths))],
		Str: NestContainers[nestUniform(t, "container", len(NestContainers))],
		Off: []int{0, 0, 0, 0, 1, 2, 3, 3}[nestUniform(t, "damage", 8)]}
}

func GenRepeat(t *rapid.T) Mut {
	return Mut{Op: "repeat",
		Box: rapid.IntRange(0, 400).Draw(t, "box"),
		N:   RepeatCounts[nestUniform(t, "copies", len(RepeatCounts))],
		Str: repeatNames[nestUniform(t, "unit", len(repeatNames))],
		Off: rapid.IntRange(0, 2).Draw(t, "where")} // 0 before, 1 after, 2 as first child of the chosen box
}

// GrowFactors: by how much "grow" multiplies the entries of a table (the result is capped at GrowBytesMax). Only the
// large factors make anything super-linear visible, so they carry the weight.
var GrowFactors = []int{16, 256, 4096, 65536, 65536}

const GrowBytesMax = 1 << 20

// GrowTables: the box types "grow" looks for when Mut.Str names one, with the payload offset of their entry count.
var GrowTables = map[string]int{"stts": 4, "ctts": 4, "stsc": 4, "stco": 4, "co64": 4, "stss": 4, "elst": 4, "stsz": 8, "sbgp": 8, "trun": 4}

var growNames = []string{"stts", "ctts", "stsc", "stco", "co64", "stss", "elst", "stsz", "sbgp", "trun"}

// GenGrow draws one "grow" mutation: the box is taken as a full box whose 32-bit entry count lies at payload offset
// Off and whose entries of equal length fill the rest of the payload (stts, ctts, stsc, stss, stco, co64, elst, sbgp,
// stsz with per-sample sizes, trun with per-sample fields only); the entries are repeated N times and the count and
// all enclosing sizes are adjusted, so a well-formed table stays well-formed. Str names the table type (the Box-th box
// of that type is taken); with an empty Str the Box-th box of the file is tried with the count at offset Off. Boxes
// that do not fit the pattern are left alone.
func GenGrow(t *rapid.T) Mut {
	m := Mut{Op: "grow",
		Box: rapid.IntRange(0, 400).Draw(t, "box"),
		N:   GrowFactors[nestUniform(t, "factor", len(GrowFactors))],
		Off: []int{4, 4, 4, 8}[nestUniform(t, "countOff", 4)]}
	if k := nestUniform(t, "table", len(growNames)+3); k < len(growNames) {
		m.Str = growNames[k]
		m.Off = GrowTables[m.Str]
	}
	return m
}

// GenExt is Gen with every drawn mutation replaced by a "nest", a "repeat" or a "grow" with a probability of
// perMille/1000 each.
// A recipe gets at most one "nest" and it comes last: Apply walks the current bytes with boxwalk before every
// operation, and boxwalk wraps an error once per nesting level (quadratic in the depth when the bottom is malformed).
// What a later operation could do to a deep nest is covered by the damage modes of "nest" itself (Mut.Off).
func GenExt(t *rapid.T, max, perMille int) []Mut {
	out := Gen(t, max)
	var nest *Mut
	for i := 0; i < len(out); i++ {
		switch k := nestUniform(t, "shape", 1000); {
		case k < perMille:
			m := GenNest(t)
			nest = &m
			out = append(out[:i], out[i+1:]...)
			i--
		case k < 2*perMille:
			out[i] = GenRepeat(t)
		case k < 3*perMille:
			out[i] = GenGrow(t)
		}
	}
	if nest != nil {
		out = append(out, *nest)
	}
	return out
}

// Scale returns the largest nesting depth and the largest repetition count a recipe asks for.
func Scale(muts []Mut) (depth, copies int) {
	for _, m := range muts {
		if m.Op == "nest" && m.N > depth {
			depth = m.N
		}
		if m.Op == "repeat" && m.N > copies {
			copies = m.N
		}
	}
	return
}

// grow adds delta to the size field of every box that contains the insertion point pos (a box that ends exactly at pos
// counts only when it is asChild: the bytes are added as its last/first child).
func grow(data []byte, tree []*boxwalk.Box, pos, delta int, asChild *boxwalk.Box) {
	var rec func(bs []*boxwalk.Box)
	rec = func(bs []*boxwalk.Box) {
		for _, p := range bs {
			if p.Start < pos && pos < p.End() || (p.Start < pos && pos == p.End() && p == asChild) {
				if p.Large {
					binary.BigEndian.PutUint64(data[p.Start+8:], uint64(p.Size+delta))
				} else if !p.ToEnd {
					binary.BigEndian.PutUint32(data[p.Start:], uint32(p.Size+delta))
				}
				rec(p.Children)
			}
		}
	}
	rec(tree)
}

// applyShape executes "nest" and "repeat"; b is the chosen box (nil when the walker found none).
func applyShape(data []byte, tree []*boxwalk.Box, b *boxwalk.Box, m Mut) []byte {
	switch m.Op {
	case "nest": // wrap the box m.N times in containers of type m.Str; every size (ancestors too) stays consistent
		if len(m.Str) != 4 || m.N <= 0 || m.N > 1<<16 {
			return data
		}
		start, size := 0, len(data)
		if b != nil {
			start, size = b.Start, b.Size
		}
		if size > 1<<20 {
			return data
		}
		hl := 8
		if m.Str == "meta" {
			hl = 12 // version and flags
		}
		if b != nil {
			grow(data, tree, b.Start, m.N*hl, nil) // strict ancestors only: they start before b and end behind its start
		}
		hdrs := make([]byte, m.N*hl)
		for i := 0; i < m.N; i++ {
			binary.BigEndian.PutUint32(hdrs[i*hl:], uint32(size+(m.N-i)*hl))
			copy(hdrs[i*hl+4:], m.Str)
		}
		out := make([]byte, 0, len(data)+len(hdrs))
		out = append(out, data[:start]...)
		out = append(out, hdrs...)
		if m.Off == 3 {
			return out
		}
		out = append(out, data[start:]...)
		if inner := start + len(hdrs); inner+4 <= len(out) {
			switch m.Off {
			case 1:
				binary.BigEndian.PutUint32(out[inner:], uint32(size+1))
			case 2:
				binary.BigEndian.PutUint32(out[inner:], 7)
			}
		}
		return out
	case "grow": // repeat the entries of a table m.N times (count at payload offset m.Off)
		if m.Str != "" {
			cands := boxwalk.Find(tree, m.Str)
			if len(cands) == 0 {
				return data
			}
			b = cands[m.Box%len(cands)]
		}
		if b == nil || b.ToEnd || len(b.Children) > 0 || m.N < 2 || m.Off < 4 {
			return data
		}
		cp := b.PayloadStart() + m.Off
		if cp+4 >= b.End() {
			return data
		}
		count := int(binary.BigEndian.Uint32(data[cp:]))
		entries := b.End() - (cp + 4)
		if count <= 0 || entries%count != 0 || count > 1<<24 {
			return data
		}
		k := m.N
		if entries*k > GrowBytesMax {
			k = GrowBytesMax / entries
		}
		if k < 2 {
			return data
		}
		delta := entries * (k - 1)
		grow(data, tree, b.Start, delta, nil)
		out := make([]byte, 0, len(data)+delta)
		out = append(out, data[:b.End()]...)
		for i := 1; i < k; i++ {
			out = append(out, data[cp+4:b.End()]...)
		}
		out = append(out, data[b.End():]...)
		binary.BigEndian.PutUint32(out[cp:], uint32(count*k))
		if b.Large {
			binary.BigEndian.PutUint64(out[b.Start+8:], uint64(b.Size+delta))
		} else {
			binary.BigEndian.PutUint32(out[b.Start:], uint32(b.Size+delta))
		}
		return out
	case "repeat": // m.N copies of a small box (the chosen one, or a pool box) before/after/inside the chosen box
		var unit []byte
		if m.Str != "" {
			unit = InsertPool[m.Str]
		} else if b != nil {
			unit = data[b.Start:b.End()]
		}
		if len(unit) < 8 || len(unit) > RepeatUnitMax || m.N <= 0 {
			return data
		}
		n := m.N
		if n*len(unit) > RepeatBytesMax {
			n = RepeatBytesMax / len(unit)
		}
		pos := len(data)
		var asChild *boxwalk.Box
		if b != nil {
			switch m.Off {
			case 0:
				pos = b.Start
			case 2:
				if boxwalk.IsContainer(b.Type) && b.PayloadStart()+b.Skip <= b.End() {
					pos, asChild = b.PayloadStart()+b.Skip, b
					break
				}
				pos = b.End()
			default:
				pos = b.End()
			}
		}
		grow(data, tree, pos, n*len(unit), asChild)
		out := make([]byte, 0, len(data)+n*len(unit))
		out = append(out, data[:pos]...)
		for i := 0; i < n; i++ {
			out = append(out, unit...)
		}
		return append(out, data[pos:]...)
	}
	return data
}
