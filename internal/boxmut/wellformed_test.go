package boxmut

import (
	"testing"

	"verif/internal/boxwalk"
)

func TestWellFormedOps(t *testing.T) {
	// moov(trak(tkhd-like leaf), free)
	leaf := append(boxwalk.Header("abcd", 4, false), 1, 2, 3, 4)
	trak := append(boxwalk.Header("trak", len(leaf), false), leaf...)
	free := boxwalk.Header("free", 0, false)
	moov := append(boxwalk.Header("moov", len(trak)+len(free), false), append(append([]byte{}, trak...), free...)...)
	for _, op := range []string{"wrapw", "dupw"} {
		for box := 0; box < 4; box++ {
			out := Apply(moov, []Mut{{Op: op, Box: box, Str: "udta"}})
			tree, err := boxwalk.WalkAll(out)
			if err != nil || len(tree) == 0 {
				t.Fatalf("%s box %d: %v: %x", op, box, err, out)
			}
			total := 0
			for _, b := range tree {
				total += b.Size
			}
			if total != len(out) || len(out) <= len(moov) {
				t.Fatalf("%s box %d: sizes %d of %d: %x", op, box, total, len(out), out)
			}
		}
	}
	// shrink: the leaf keeps 0..3 payload bytes and every size still adds up
	for keep := 0; keep < 4; keep++ {
		out := Apply(moov, []Mut{{Op: "shrink", Box: 2, Off: keep}})
		tree, err := boxwalk.WalkAll(out)
		if err != nil || len(tree) != 1 || tree[0].Size != len(out) || len(out) != len(moov)-4+keep {
			t.Fatalf("shrink keep %d: %v: %x", keep, err, out)
		}
	}
}
