// Package harness is the plumbing shared by all property packages: environment (tier, shard, seed),
// evidence recording, violation/replay files, the known-findings matcher, panic classification
// and the per-case watchdog/alloc accounting used by the isolated workers.
package harness

import (
	"encoding/binary"
	"encoding/hex"
	"encoding/json"
	"fmt"
	"hash/fnv"
	"os"
	"path/filepath"
	"reflect"
	"regexp"
	"runtime"
	"runtime/debug"
	"runtime/metrics"
	"sort"
	"strconv"
	"strings"
	"sync"
	"syscall"
	"testing"
	"time"

	"pgregory.net/rapid"
)

// Env describes the run; it is filled from the environment set by ./check.
type Env struct {
	Property string
	Tier     string // quick | thorough | replay
	Leg      string
	Shard    int
	NShards  int
	Seed     uint64
	OutDir   string // /verif/out/<ID>/run
	VerifDir string
	RepoDir  string
}

var E = loadEnv()

func envInt(name string, def int) int {
	if s := os.Getenv(name); s != "" {
		if v, err := strconv.Atoi(s); err == nil {
			return v
		}
	}
	return def
}

func loadEnv() Env {
	e := Env{
		Property: os.Getenv("VERIF_PROPERTY"),
		Tier:     os.Getenv("VERIF_TIER"),
		Leg:      os.Getenv("VERIF_LEG"),
		Shard:    envInt("VERIF_SHARD", 0),
		NShards:  envInt("VERIF_NSHARDS", 1),
		OutDir:   os.Getenv("VERIF_OUT"),
		VerifDir: os.Getenv("VERIF_DIR"),
		RepoDir:  os.Getenv("VERIF_REPO"),
	}
	if e.Tier == "" {
		e.Tier = "quick"
	}
	if e.Leg == "" {
		e.Leg = "dev"
	}
	if e.VerifDir == "" {
		e.VerifDir = "/verif"
	}
	if e.RepoDir == "" {
		e.RepoDir = "/repo"
	}
	if e.OutDir == "" {
		e.OutDir = filepath.Join(e.VerifDir, "out", "dev")
	}
	if s := os.Getenv("VERIF_SEED"); s != "" {
		if v, err := strconv.ParseUint(s, 10, 64); err == nil {
			e.Seed = v
		}
	}
	if e.Seed == 0 {
		e.Seed = 0x9e3779b97f4a7c15 >> 1
	}
	return e
}

// Thorough reports whether the thorough tier is running.
func Thorough() bool { return E.Tier == "thorough" }

// Pick returns q in the quick tier and th in the thorough tier.
func Pick(q, th int) int {
	if Thorough() {
		return th
	}
	return q
}

// ---------------------------------------------------------------------------------------------
// Evidence recorder

type Recorder struct {
	mu          sync.Mutex
	evaluations int64
	nontrivial  int64
	nt          map[uint64]struct{}
	ntByConstr  int64 // distinct by construction (exhaustive enumerations): counted, not hashed
	classes     map[string]int64
	excluded    map[string]int64
	samples     []interface{}
	exhaustive  map[string]bool
	notes       []string
	maxSamples  int
}

var Rec = &Recorder{
	nt:         map[uint64]struct{}{},
	classes:    map[string]int64{},
	excluded:   map[string]int64{},
	exhaustive: map[string]bool{},
	maxSamples: 4,
}

func Hash(b []byte) uint64 {
	h := fnv.New64a()
	h.Write(b)
	return h.Sum64()
}

// Case records one evaluated case. canon is the canonical encoding of the case (used for the
// distinct count when the case is non-trivial); classes are label counters.
func (r *Recorder) Case(nontrivial bool, canon []byte, classes ...string) {
	r.mu.Lock()
	r.evaluations++
	if nontrivial {
		r.nontrivial++
		r.nt[Hash(canon)] = struct{}{}
	}
	for _, c := range classes {
		r.classes[c]++
	}
	r.mu.Unlock()
}

// CaseDistinct records a case of an exhaustive enumeration (distinct by construction).
func (r *Recorder) CaseDistinct(nontrivial bool, classes ...string) {
	r.mu.Lock()
	r.evaluations++
	if nontrivial {
		r.nontrivial++
		r.ntByConstr++
	}
	for _, c := range classes {
		r.classes[c]++
	}
	r.mu.Unlock()
}

// BulkDistinct adds n evaluated cases of which nt are non-trivial and distinct by construction.
func (r *Recorder) BulkDistinct(n, nt int64, class string) {
	r.mu.Lock()
	r.evaluations += n
	r.nontrivial += nt
	r.ntByConstr += nt
	if class != "" {
		r.classes[class] += n
	}
	r.mu.Unlock()
}

func (r *Recorder) Class(name string) { r.ClassN(name, 1) }
func (r *Recorder) ClassN(name string, n int64) {
	r.mu.Lock()
	r.classes[name] += n
	r.mu.Unlock()
}

func (r *Recorder) Exclude(key string) {
	r.mu.Lock()
	r.excluded[key]++
	r.mu.Unlock()
}

func (r *Recorder) Exhaustive(domain string) {
	r.mu.Lock()
	r.exhaustive[domain] = true
	r.mu.Unlock()
}

func (r *Recorder) Note(s string) {
	r.mu.Lock()
	for _, n := range r.notes {
		if n == s {
			r.mu.Unlock()
			return
		}
	}
	r.notes = append(r.notes, s)
	r.mu.Unlock()
}

// Sample keeps up to maxSamples cases (first come).
func (r *Recorder) Sample(v interface{}) {
	r.mu.Lock()
	if len(r.samples) < r.maxSamples {
		r.samples = append(r.samples, v)
	}
	r.mu.Unlock()
}

func (r *Recorder) WantSample() bool {
	r.mu.Lock()
	defer r.mu.Unlock()
	return len(r.samples) < r.maxSamples
}

type shardEvidence struct {
	Property    string           `json:"property"`
	Leg         string           `json:"leg"`
	Shard       int              `json:"shard"`
	Evaluations int64            `json:"evaluations"`
	Nontrivial  int64            `json:"nontrivial"`
	NtHashed    int              `json:"nt_hashed"`
	NtByConstr  int64            `json:"nt_by_construction"`
	Classes     map[string]int64 `json:"classes"`
	Excluded    map[string]int64 `json:"excluded"`
	Samples     []interface{}    `json:"samples"`
	Exhaustive  []string         `json:"exhaustive"`
	Notes       []string         `json:"notes"`
	WallS       float64          `json:"wall_s"`
}

var startTime = time.Now()

// Flush writes <OutDir>/<leg>.<shard>.json and .nt (little-endian uint64 hashes).
func (r *Recorder) Flush() {
	r.mu.Lock()
	defer r.mu.Unlock()
	_ = os.MkdirAll(E.OutDir, 0o755)
	base := filepath.Join(E.OutDir, fmt.Sprintf("%s.%d", E.Leg, E.Shard))
	ex := []string{}
	for k := range r.exhaustive {
		ex = append(ex, k)
	}
	sort.Strings(ex)
	se := shardEvidence{
		Property: E.Property, Leg: E.Leg, Shard: E.Shard,
		Evaluations: r.evaluations, Nontrivial: r.nontrivial, NtHashed: len(r.nt), NtByConstr: r.ntByConstr,
		Classes: r.classes, Excluded: r.excluded, Samples: r.samples, Exhaustive: ex, Notes: r.notes,
		WallS: time.Since(startTime).Seconds(),
	}
	b, _ := json.Marshal(se)
	_ = os.WriteFile(base+".json", b, 0o644)
	buf := make([]byte, 0, 8*len(r.nt))
	for h := range r.nt {
		buf = binary.LittleEndian.AppendUint64(buf, h)
	}
	_ = os.WriteFile(base+".nt", buf, 0o644)
}

// Main is to be called from TestMain of every property package.
func Main(m *testing.M) {
	loadKnown()
	code := m.Run()
	if !FuzzWorker() { // the workers of a native fuzz leg share leg and shard: only the coordinator writes evidence
		Rec.Flush()
	}
	os.Exit(code)
}

// ---------------------------------------------------------------------------------------------
// Failures, replay files, known findings

// Fail is the verdict of an oracle on one case.
type Fail struct {
	Key string // root-cause key, stable across runs (no line numbers)
	Msg string
}

func Failf(key, format string, a ...interface{}) *Fail {
	return &Fail{Key: key, Msg: fmt.Sprintf(format, a...)}
}

func (f *Fail) Error() string { return f.Key + ": " + f.Msg }

// ReplayFile is the on-disk format of a violation / regression input.
type ReplayFile struct {
	Property string          `json:"property"`
	Kind     string          `json:"kind"`
	Key      string          `json:"key"`
	Msg      string          `json:"msg,omitempty"`
	Case     json.RawMessage `json:"case"`
}

type knownEntry struct {
	Property string `json:"property"`
	Status   string `json:"status"` // known | fixed
	Key      string `json:"key"`
	Repro    string `json:"repro"`
	Commit   string `json:"commit,omitempty"`
	What     string `json:"what"`
	// Scope "repro": the entry is matched only against its own reproducer file in the replay tier (the
	// generator avoids the failing feature by construction through a named, counted switch), so a
	// generated failure that happens to carry the same key is still reported. Default ("generated"):
	// generated failures with this key are counted as excluded.
	Scope string `json:"scope,omitempty"`
}

var knownKeys = map[string]bool{}

func loadKnown() {
	b, err := os.ReadFile(filepath.Join(E.VerifDir, "known_findings.json"))
	if err != nil {
		return
	}
	var ks []knownEntry
	if err := json.Unmarshal(b, &ks); err != nil {
		fmt.Fprintf(os.Stderr, "harness: known_findings.json: %v\n", err)
		os.Exit(2)
	}
	for _, k := range ks {
		if k.Status == "known" && k.Scope != "repro" && (E.Property == "" || k.Property == E.Property) {
			knownKeys[k.Key] = true
		}
	}
}

// Known reports whether key is a recorded (not repaired) finding of this property.
func Known(key string) bool { return knownKeys[key] }

var (
	lastMu   sync.Mutex
	lastFail *ReplayFile
	// survey mode (development only, VERIF_SURVEY=1): do not stop at the first failure, record one
	// example per distinct key and keep going. Never used by registered commands.
	survey     = os.Getenv("VERIF_SURVEY") == "1"
	surveyMu   sync.Mutex
	surveyKeys = map[string]int{}
)

// TB is the subset of testing.TB / *rapid.T that is needed here.
type TB interface {
	Fatalf(format string, args ...interface{})
	Logf(format string, args ...interface{})
}

// Report handles an oracle verdict inside a (rapid) property: known findings are counted and
// skipped, anything else is remembered (the last one remembered is rapid's minimal case, because
// rapid re-runs the shrunk case last) and fails the test.
// It returns true when the case was a known finding (caller should stop evaluating the case).
func Report(t TB, kind string, c interface{}, f *Fail) bool {
	if f == nil {
		return false
	}
	if Known(f.Key) {
		Rec.Exclude(f.Key)
		return true
	}
	if survey {
		surveyMu.Lock()
		_, seen := surveyKeys[f.Key]
		surveyKeys[f.Key]++
		surveyMu.Unlock()
		if !seen {
			raw, _ := json.Marshal(c)
			p := WriteViolation(&ReplayFile{Property: E.Property, Kind: kind, Key: f.Key, Msg: f.Msg, Case: raw})
			fmt.Printf("SURVEY key=%q file=%s\n", f.Key, p)
		}
		return true
	}
	raw, err := json.Marshal(c)
	if err != nil {
		raw = []byte(fmt.Sprintf("%q", fmt.Sprintf("unserialisable case: %v", err)))
	}
	lastMu.Lock()
	lastFail = &ReplayFile{Property: E.Property, Kind: kind, Key: f.Key, Msg: f.Msg, Case: raw}
	lastMu.Unlock()
	t.Fatalf("%s: %s", f.Key, f.Msg)
	return false
}

func sanitize(s string) string {
	re := regexp.MustCompile(`[^A-Za-z0-9_.-]+`)
	s = re.ReplaceAllString(s, "_")
	if len(s) > 80 {
		s = s[:80]
	}
	return s
}

// WriteViolation stores the replay file under out/<ID>/violations and returns its path.
func WriteViolation(rf *ReplayFile) string {
	dir := filepath.Join(filepath.Dir(E.OutDir), "violations")
	_ = os.MkdirAll(dir, 0o755)
	name := fmt.Sprintf("%s-%016x.json", sanitize(rf.Key), Hash(rf.Case))
	p := filepath.Join(dir, name)
	b, _ := json.MarshalIndent(rf, "", " ")
	_ = os.WriteFile(p, b, 0o644)
	return p
}

// RunRapid runs prop under rapid as a sub-test; if it fails, the minimal failing case is written
// as a violation replay file. Returns true if the property held.
func RunRapid(t *testing.T, name string, prop func(*rapid.T)) bool {
	lastMu.Lock()
	lastFail = nil
	lastMu.Unlock()
	ok := t.Run(name, func(t *testing.T) { rapid.Check(t, prop) })
	if !ok {
		lastMu.Lock()
		lf := lastFail
		lastMu.Unlock()
		if lf != nil {
			p := WriteViolation(lf)
			fmt.Printf("HARNESS-VIOLATION key=%q file=%s\n", lf.Key, p)
		} else {
			fmt.Printf("HARNESS-FAILURE-WITHOUT-CASE test=%s/%s\n", t.Name(), name)
		}
	}
	return ok
}

// ReportDirect is Report for non-rapid (enumeration) loops: it writes the violation file at once
// and marks the test failed, but lets the caller continue (returns true if it is a new violation).
func ReportDirect(t *testing.T, kind string, c interface{}, f *Fail) bool {
	if f == nil {
		return false
	}
	if Known(f.Key) {
		Rec.Exclude(f.Key)
		return false
	}
	raw, _ := json.Marshal(c)
	rf := &ReplayFile{Property: E.Property, Kind: kind, Key: f.Key, Msg: f.Msg, Case: raw}
	p := WriteViolation(rf)
	fmt.Printf("HARNESS-VIOLATION key=%q file=%s\n", f.Key, p)
	t.Errorf("%s: %s", f.Key, f.Msg)
	return true
}

// ---------------------------------------------------------------------------------------------
// Replay dispatch

var replayers = map[string]func(raw json.RawMessage) *Fail{}

// RegisterReplay registers the oracle for replay files of the given kind.
func RegisterReplay(kind string, fn func(raw json.RawMessage) *Fail) { replayers[kind] = fn }

// Replayer builds a replay function from a typed oracle.
func Replayer[C any](check func(C) *Fail) func(json.RawMessage) *Fail {
	return func(raw json.RawMessage) *Fail {
		var c C
		if err := json.Unmarshal(raw, &c); err != nil {
			return Failf("harness|bad-replay-case", "%v", err)
		}
		return Guarded(func() *Fail { return check(c) })
	}
}

type ReplayResult struct {
	File   string `json:"file"`
	Failed bool   `json:"failed"`
	Key    string `json:"key"`
	Msg    string `json:"msg"`
	Err    string `json:"err,omitempty"`
}

// ReplayPath re-executes one replay file (or every *.json in a directory) and writes
// <OutDir>/replay-results.json. Used by TestReplay in every property package.
func ReplayPath(t *testing.T) {
	p := os.Getenv("VERIF_REPLAY")
	if p == "" {
		t.Skip("VERIF_REPLAY not set")
	}
	var files []string
	if st, err := os.Stat(p); err == nil && st.IsDir() {
		m, _ := filepath.Glob(filepath.Join(p, "*.json"))
		sort.Strings(m)
		files = m
	} else {
		files = []string{p}
	}
	var results []ReplayResult
	for _, f := range files {
		res := ReplayResult{File: f}
		b, err := os.ReadFile(f)
		if err != nil {
			res.Err = err.Error()
			results = append(results, res)
			continue
		}
		var rf ReplayFile
		if err := json.Unmarshal(b, &rf); err != nil {
			res.Err = err.Error()
			results = append(results, res)
			continue
		}
		fn := replayers[rf.Kind]
		if fn == nil {
			res.Err = "no replayer for kind " + rf.Kind
			results = append(results, res)
			continue
		}
		SetCurrentCase(rf.Kind, rf.Case)
		if fl := fn(rf.Case); fl != nil {
			res.Failed, res.Key, res.Msg = true, fl.Key, fl.Msg
		}
		Rec.Class("replayed")
		results = append(results, res)
	}
	_ = os.MkdirAll(E.OutDir, 0o755)
	b, _ := json.MarshalIndent(results, "", " ")
	out := os.Getenv("VERIF_REPLAY_OUT")
	if out == "" {
		out = filepath.Join(E.OutDir, "replay-results.json")
	}
	_ = os.WriteFile(out, b, 0o644)
}

// ---------------------------------------------------------------------------------------------
// Panic classification

var digitsRe = regexp.MustCompile(`[-+]?0x[0-9a-fA-F]+|[-+]?[0-9]+`)

func panicClass(v interface{}) string {
	s := fmt.Sprint(v)
	switch {
	case strings.Contains(s, "nil pointer dereference"):
		return "nil pointer dereference"
	case strings.Contains(s, "index out of range"):
		return "index out of range"
	case strings.Contains(s, "slice bounds out of range"):
		return "slice bounds out of range"
	case strings.Contains(s, "makeslice"):
		return "makeslice out of range"
	case strings.Contains(s, "interface conversion"):
		return "interface conversion"
	case strings.Contains(s, "divide by zero"):
		return "divide by zero"
	}
	s = digitsRe.ReplaceAllString(s, "N")
	if len(s) > 60 {
		s = s[:60]
	}
	return s
}

var frameRe = regexp.MustCompile(`^(github\.com/Eyevinn/mp4ff/[^\s(]+(?:\([^)]*\))?[^\s(]*)\(`)

// topLibFrame returns the first mp4ff function on the stack below the panic.
func topLibFrame(stack string) string {
	lines := strings.Split(stack, "\n")
	seenPanic := false
	for _, l := range lines {
		if strings.HasPrefix(l, "panic(") {
			seenPanic = true
			continue
		}
		if !seenPanic {
			continue
		}
		if strings.HasPrefix(l, "github.com/Eyevinn/mp4ff/") {
			// strip argument list: the last '(' that starts the args
			i := strings.LastIndex(l, "(")
			fn := l
			if i > 0 {
				fn = l[:i]
			}
			return strings.TrimPrefix(fn, "github.com/Eyevinn/mp4ff/")
		}
	}
	return "unknown"
}

// Guarded runs fn and converts a panic into a Fail with key "panic|<func>|<class>".
func Guarded(fn func() *Fail) (res *Fail) {
	defer func() {
		if r := recover(); r != nil {
			st := string(debug.Stack())
			res = &Fail{
				Key: "panic|" + topLibFrame(st) + "|" + panicClass(r),
				Msg: fmt.Sprintf("panic: %v\n%s", r, trimStack(st)),
			}
		}
	}()
	return fn()
}

func trimStack(st string) string {
	lines := strings.Split(st, "\n")
	if len(lines) > 40 {
		lines = lines[:40]
	}
	return strings.Join(lines, "\n")
}

// ---------------------------------------------------------------------------------------------
// Worker support: current-case file, watchdog, allocation accounting (C04 / C16)

var (
	curMu    sync.Mutex
	curStart time.Time
	curBudg  time.Duration
	curOn    bool
	wdOnce   sync.Once
)

func curCasePath() string {
	if FuzzWorker() || strings.HasPrefix(E.Leg, "fuzz") {
		// native fuzzing runs several worker processes per leg: one file per process
		return filepath.Join(E.OutDir, fmt.Sprintf("%s.pid%d.current.json", E.Leg, os.Getpid()))
	}
	return filepath.Join(E.OutDir, fmt.Sprintf("%s.%d.current.json", E.Leg, E.Shard))
}

// FuzzWorker reports whether this process is a worker of Go's native fuzzing engine (the coordinator re-executes
// the test binary with -test.fuzzworker).
func FuzzWorker() bool { return isFuzzWorker }

var isFuzzWorker = func() bool {
	for _, a := range os.Args[1:] {
		if strings.HasPrefix(a, "-test.fuzzworker") {
			return true
		}
	}
	return false
}()

// LimitFuzzWorker caps the address space of a native-fuzzing WORKER process (the coordinator, which holds the shared
// memory of all workers, runs without the ulimit the driver puts on the rapid shards). A worker that hits the cap dies
// with its current case persisted; the driver replays it alone.
func LimitFuzzWorker(bytes uint64) {
	if !FuzzWorker() {
		return
	}
	_ = syscall.Setrlimit(syscall.RLIMIT_AS, &syscall.Rlimit{Cur: bytes, Max: bytes})
}

// FuzzReport handles an oracle verdict inside a native fuzz target: the failing case is written as a violation
// replay file (the driver replays these files after the leg to confirm and key them) and the input is failed, so
// that the engine keeps it and minimises it.
func FuzzReport(t *testing.T, kind string, c interface{}, f *Fail) {
	if f == nil || Known(f.Key) {
		return
	}
	raw, _ := json.Marshal(c)
	WriteViolation(&ReplayFile{Property: E.Property, Kind: kind, Key: f.Key, Msg: f.Msg, Case: raw})
	t.Fatalf("%s: %s", f.Key, f.Msg)
}

// SetCurrentCase persists the case about to run, so that the driver can re-run it alone if this
// process dies (Go's out-of-memory and stack overflow are not recoverable).
func SetCurrentCase(kind string, raw json.RawMessage) {
	curFileMu.Lock()
	defer curFileMu.Unlock()
	if curFile == nil {
		_ = os.MkdirAll(E.OutDir, 0o755)
		f, err := os.OpenFile(curCasePath(), os.O_CREATE|os.O_RDWR|os.O_TRUNC, 0o644)
		if err != nil {
			return
		}
		curFile = f
	}
	// hand-built JSON (kind and property are plain identifiers); padded with spaces to the previous length
	// so that no truncate system call is needed per case
	buf := curBuf[:0]
	buf = append(buf, `{"property":"`...)
	buf = append(buf, E.Property...)
	buf = append(buf, `","kind":"`...)
	buf = append(buf, kind...)
	buf = append(buf, `","key":"fatal|process-death","case":`...)
	buf = append(buf, raw...)
	buf = append(buf, '}')
	n := len(buf)
	for len(buf) < curLen {
		buf = append(buf, ' ')
	}
	curLen = n
	curBuf = buf
	_, _ = curFile.WriteAt(buf, 0)
}

var (
	curFileMu sync.Mutex
	curFile   *os.File
	curBuf    []byte
	curLen    int
)

func ClearCurrentCase() {
	curFileMu.Lock()
	if curFile != nil {
		curFile.Close()
		curFile = nil
	}
	curFileMu.Unlock()
	_ = os.Remove(curCasePath())
}

// StartWatch arms the per-case watchdog: if the case has not called StopWatch within budget the
// process prints a marker and a goroutine dump and exits with status 3.
func StartWatch(budget time.Duration) {
	wdOnce.Do(func() {
		go func() {
			for {
				time.Sleep(200 * time.Millisecond)
				curMu.Lock()
				on, st, bu := curOn, curStart, curBudg
				curMu.Unlock()
				if on && time.Since(st) > bu {
					fmt.Printf("HARNESS-WATCHDOG budget=%s exceeded\n", bu)
					buf := make([]byte, 1<<16)
					n := runtime.Stack(buf, true)
					os.Stdout.Write(buf[:n])
					if !FuzzWorker() {
						Rec.Flush()
					}
					os.Exit(3)
				}
			}
		}()
	})
	if isFuzzWorker {
		budget *= 6 // sixteen instrumented workers next to whatever else runs: only a real hang should end a worker
	}
	curMu.Lock()
	curOn, curStart, curBudg = true, time.Now(), budget
	curMu.Unlock()
}

func StopWatch() {
	curMu.Lock()
	curOn = false
	curMu.Unlock()
}

var allocSample = []metrics.Sample{{Name: "/gc/heap/allocs:bytes"}}

// HeapAllocs returns the cumulative bytes allocated on the heap (runtime/metrics, no stop-the-world).
func HeapAllocs() uint64 {
	metrics.Read(allocSample)
	return allocSample[0].Value.Uint64()
}

// AllocDelta runs fn and returns the cumulative number of heap bytes allocated during it
// (runtime.MemStats.TotalAlloc; meaningful when nothing else allocates concurrently).
func AllocDelta(fn func()) uint64 {
	var a, b runtime.MemStats
	runtime.ReadMemStats(&a)
	fn()
	runtime.ReadMemStats(&b)
	return b.TotalAlloc - a.TotalAlloc
}

// Hex helpers for samples.
func HexTrunc(b []byte, n int) string {
	const hexd = "0123456789abcdef"
	m := len(b)
	if m > n {
		m = n
	}
	out := make([]byte, 0, 2*m+16)
	for _, x := range b[:m] {
		out = append(out, hexd[x>>4], hexd[x&15])
	}
	if len(b) > n {
		out = append(out, []byte(fmt.Sprintf("...(%d bytes)", len(b)))...)
	}
	return string(out)
}

// HexBytes is a byte slice that is written as a hex string in JSON (replay files stay readable).
type HexBytes []byte

func (h HexBytes) MarshalJSON() ([]byte, error) {
	return json.Marshal(fmt.Sprintf("%x", []byte(h)))
}

func (h *HexBytes) UnmarshalJSON(b []byte) error {
	var s string
	if err := json.Unmarshal(b, &s); err != nil {
		return err
	}
	out, err := hex.DecodeString(s)
	if err != nil {
		return err
	}
	*h = out
	return nil
}

// AssignExported copies every exported field of *src into *dst (both pointers to the same struct type) and leaves
// the unexported fields of *dst as they are: what a caller does who changes the public fields of an object it has
// already used (any cache the object keeps in unexported fields stays behind).
func AssignExported(dst, src interface{}) {
	d, s := reflect.ValueOf(dst).Elem(), reflect.ValueOf(src).Elem()
	t := d.Type()
	for i := 0; i < t.NumField(); i++ {
		if t.Field(i).PkgPath == "" {
			d.Field(i).Set(s.Field(i))
		}
	}
}
