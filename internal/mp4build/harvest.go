package mp4build

import (
	"encoding/binary"
	"fmt"
	"os"
	"path/filepath"
	"sort"
	"sync"
)

// StsdEntryType returns the 4cc of the first sample entry of a complete stsd box ("" if none).
func StsdEntryType(stsd []byte) string {
	if len(stsd) < 24 || string(stsd[4:8]) != "stsd" {
		return ""
	}
	return string(stsd[20:24])
}

// StsdEntryCount returns the entry_count of a complete stsd box.
func StsdEntryCount(stsd []byte) int {
	if len(stsd) < 16 || string(stsd[4:8]) != "stsd" {
		return 0
	}
	return int(binary.BigEndian.Uint32(stsd[12:16]))
}

// StsdRepeat returns an stsd box that holds the first sample entry of stsd n times (so that
// sample_description_index 1..n are all valid).
func StsdRepeat(stsd []byte, n int) []byte {
	entries := WalkBoxes(stsd[16:])
	if len(entries) == 0 || n < 1 {
		return append([]byte{}, stsd...)
	}
	b := &Buf{}
	b.U32(uint32(n))
	for i := 0; i < n; i++ {
		b.Bytes(entries[0].Raw)
	}
	return FullBox("stsd", stsd[8], 0, b.B)
}

// HarvestStsd finds real sample descriptions in the library's test data with this package's own
// box walker: the first stsd (files in name order, tracks in file order) with exactly one entry of
// type avc1 and the first with exactly one entry of type mp4a. Encrypted entries (encv/enca) do not
// match.
func HarvestStsd(repoDir string) (video, audio []byte, err error) {
	dir := filepath.Join(repoDir, "mp4", "testdata")
	names, _ := filepath.Glob(filepath.Join(dir, "*.mp4"))
	more, _ := filepath.Glob(filepath.Join(dir, "*.cmf?"))
	names = append(names, more...)
	sort.Strings(names)
	// the two progressive files first: they hold both kinds
	pref := []string{filepath.Join(dir, "prog_8s.mp4"), filepath.Join(dir, "bbb_prog_10s.mp4")}
	names = append(pref, names...)
	for _, name := range names {
		data, rerr := os.ReadFile(name)
		if rerr != nil {
			continue
		}
		for _, b := range FindPath(data, "moov", "trak", "mdia", "minf", "stbl", "stsd") {
			if StsdEntryCount(b.Raw) != 1 {
				continue
			}
			switch StsdEntryType(b.Raw) {
			case "avc1":
				if video == nil {
					video = append([]byte{}, b.Raw...)
				}
			case "mp4a":
				if audio == nil {
					audio = append([]byte{}, b.Raw...)
				}
			}
		}
		if video != nil && audio != nil {
			return video, audio, nil
		}
	}
	return video, audio, fmt.Errorf("mp4build: no avc1 (%v) / mp4a (%v) stsd found under %s", video != nil, audio != nil, dir)
}

var (
	harvestOnce        sync.Once
	defVideo, defAudio []byte
	harvestErr         error
)

// DefaultStsd returns the harvested video (avc1) and audio (mp4a) stsd boxes of the library
// checkout ($VERIF_REPO or /repo). The harvest runs once per process.
func DefaultStsd() (video, audio []byte, err error) {
	harvestOnce.Do(func() {
		repo := os.Getenv("VERIF_REPO")
		if repo == "" {
			repo = "/repo"
		}
		defVideo, defAudio, harvestErr = HarvestStsd(repo)
	})
	return defVideo, defAudio, harvestErr
}
