// Package mp4build writes MP4 files from a plain sample model with its own serialisers (it does not
// import the library under test), together with the ground truth (where every sample ended up) and
// rapid generators for models and layouts.
package mp4build

import (
	"encoding/binary"
	"fmt"
)

// Buf is a big-endian byte appender.
type Buf struct{ B []byte }

func (b *Buf) U8(v byte) *Buf      { b.B = append(b.B, v); return b }
func (b *Buf) U16(v uint16) *Buf   { b.B = binary.BigEndian.AppendUint16(b.B, v); return b }
func (b *Buf) U24(v uint32) *Buf   { b.B = append(b.B, byte(v>>16), byte(v>>8), byte(v)); return b }
func (b *Buf) U32(v uint32) *Buf   { b.B = binary.BigEndian.AppendUint32(b.B, v); return b }
func (b *Buf) U64(v uint64) *Buf   { b.B = binary.BigEndian.AppendUint64(b.B, v); return b }
func (b *Buf) I16(v int16) *Buf    { return b.U16(uint16(v)) }
func (b *Buf) I32(v int32) *Buf    { return b.U32(uint32(v)) }
func (b *Buf) I64(v int64) *Buf    { return b.U64(uint64(v)) }
func (b *Buf) Bytes(p []byte) *Buf { b.B = append(b.B, p...); return b }
func (b *Buf) Str(s string) *Buf   { b.B = append(b.B, s...); return b }
func (b *Buf) Zero(n int) *Buf     { b.B = append(b.B, make([]byte, n)...); return b }

// Box returns a box with a 32-bit size header around the concatenated payload parts.
func Box(typ string, parts ...[]byte) []byte {
	if len(typ) != 4 {
		panic(fmt.Sprintf("mp4build: box type %q", typ))
	}
	n := 8
	for _, p := range parts {
		n += len(p)
	}
	out := make([]byte, 0, n)
	out = binary.BigEndian.AppendUint32(out, uint32(n))
	out = append(out, typ...)
	for _, p := range parts {
		out = append(out, p...)
	}
	return out
}

// LargeBox returns a box with size==1 and a 64-bit largesize.
func LargeBox(typ string, parts ...[]byte) []byte {
	n := 16
	for _, p := range parts {
		n += len(p)
	}
	out := make([]byte, 0, n)
	out = binary.BigEndian.AppendUint32(out, 1)
	out = append(out, typ...)
	out = binary.BigEndian.AppendUint64(out, uint64(n))
	for _, p := range parts {
		out = append(out, p...)
	}
	return out
}

// FullBox returns a box whose payload starts with version (8 bits) and flags (24 bits).
func FullBox(typ string, version byte, flags uint32, parts ...[]byte) []byte {
	vf := []byte{version, byte(flags >> 16), byte(flags >> 8), byte(flags)}
	return Box(typ, append([][]byte{vf}, parts...)...)
}

// UnityMatrix is the 36-byte identity transformation matrix of mvhd/tkhd.
func UnityMatrix() []byte {
	b := &Buf{}
	for _, v := range []uint32{0x10000, 0, 0, 0, 0x10000, 0, 0, 0, 0x40000000} {
		b.U32(v)
	}
	return b.B
}

// RawBox is one box found by WalkBoxes.
type RawBox struct {
	Type    string
	Start   int // offset of the size field inside the walked slice
	HdrLen  int
	Size    int
	Payload []byte
	Raw     []byte // header and payload
}

// WalkBoxes splits data into boxes (32-bit size, largesize when size==1, size 0 = to the end).
// It stops silently at the first box that does not fit.
func WalkBoxes(data []byte) []RawBox {
	var out []RawBox
	pos := 0
	for len(data)-pos >= 8 {
		size := uint64(binary.BigEndian.Uint32(data[pos:]))
		hdr := 8
		if size == 1 {
			if len(data)-pos < 16 {
				break
			}
			size = binary.BigEndian.Uint64(data[pos+8:])
			hdr = 16
		} else if size == 0 {
			size = uint64(len(data) - pos)
		}
		if size < uint64(hdr) || size > uint64(len(data)-pos) {
			break
		}
		out = append(out, RawBox{Type: string(data[pos+4 : pos+8]), Start: pos, HdrLen: hdr, Size: int(size),
			Payload: data[pos+hdr : pos+int(size)], Raw: data[pos : pos+int(size)]})
		pos += int(size)
	}
	return out
}

// FindPath descends through plain containers along path (e.g. "moov","trak","mdia") and returns
// every box matching the full path.
func FindPath(data []byte, path ...string) []RawBox {
	if len(path) == 0 {
		return nil
	}
	var out []RawBox
	for _, b := range WalkBoxes(data) {
		if b.Type != path[0] {
			continue
		}
		if len(path) == 1 {
			out = append(out, b)
		} else {
			out = append(out, FindPath(b.Payload, path[1:]...)...)
		}
	}
	return out
}
