package mp4build_test

import (
	"bytes"
	"fmt"
	"testing"

	"github.com/Eyevinn/mp4ff/mp4"
	"pgregory.net/rapid"

	"verif/internal/mp4build"
	"verif/internal/tablemodel"
)

func TestHarvest(t *testing.T) {
	v, a, err := mp4build.DefaultStsd()
	if err != nil {
		t.Fatal(err)
	}
	if mp4build.StsdEntryType(v) != "avc1" || mp4build.StsdEntryType(a) != "mp4a" {
		t.Fatalf("harvested %q / %q", mp4build.StsdEntryType(v), mp4build.StsdEntryType(a))
	}
	v3 := mp4build.StsdRepeat(v, 3)
	if mp4build.StsdEntryCount(v3) != 3 || len(v3) != 16+3*(len(v)-16) {
		t.Fatalf("StsdRepeat: count %d len %d (one entry: %d)", mp4build.StsdEntryCount(v3), len(v3), len(v))
	}
	t.Logf("video stsd %d bytes, audio stsd %d bytes", len(v), len(a))
}

// compare checks that what the independent parser reads back from the file is the model.
func compare(file []byte, tracks []mp4build.Track, lay mp4build.ProgLayout, truth *mp4build.Truth) error {
	m, err := tablemodel.ParseProgressive(file)
	if err != nil {
		return fmt.Errorf("ParseProgressive: %w", err)
	}
	if len(m.Tracks) != len(tracks) {
		return fmt.Errorf("%d tracks parsed, %d in model", len(m.Tracks), len(tracks))
	}
	if m.MovieTimescale != lay.MovieTimescale {
		return fmt.Errorf("movie timescale %d != %d", m.MovieTimescale, lay.MovieTimescale)
	}
	nrMdat := 1
	for _, k := range append(append([]string{}, lay.Lead...), lay.Trail...) {
		if k == "mdat0" {
			nrMdat++
		}
	}
	if truth.MdatPayloadSize == 0 && nrMdat > 1 && m.NrMdat == nrMdat {
		// only empty samples: the parser cannot tell the media data box from the extra empty ones
	} else if m.NrMdat != nrMdat || m.MdatPayloadStart != truth.MdatPayloadStart || m.MdatPayloadSize != truth.MdatPayloadSize || m.MdatStart != truth.MdatStart {
		return fmt.Errorf("mdat: parsed %d/%d/%d, truth %d/%d/%d", m.MdatStart, m.MdatPayloadStart, m.MdatPayloadSize,
			truth.MdatStart, truth.MdatPayloadStart, truth.MdatPayloadSize)
	}
	wantOrder := []string{"ftyp", "moov", "mdat"}
	if lay.MdatFirst {
		wantOrder = []string{"ftyp", "mdat", "moov"}
	}
	extraType := func(k string) string {
		if k == "mdat0" {
			return "mdat"
		}
		return k
	}
	order := []string{wantOrder[0]}
	for _, k := range lay.Lead {
		order = append(order, extraType(k))
	}
	order = append(order, wantOrder[1:]...)
	for _, k := range lay.Trail {
		order = append(order, extraType(k))
	}
	wantOrder = order
	for i, b := range m.Top {
		if i >= len(wantOrder) || b.Type != wantOrder[i] {
			return fmt.Errorf("top-level box %d is %q", i, b.Type)
		}
		if b.Type == "mdat" && b.Size > b.HdrLen && (b.HdrLen == 16) != lay.MdatLarge {
			return fmt.Errorf("mdat header length %d, MdatLarge=%v", b.HdrLen, lay.MdatLarge)
		}
	}
	var movieDur uint64
	for ti, tr := range tracks {
		pt := m.Tracks[ti]
		tl := lay.Tracks[ti]
		tt := truth.Tracks[ti]
		x := pt.X
		n := len(tr.Samples)
		if pt.ID != tr.ID || pt.Timescale != tr.Timescale || pt.Handler != tr.Handler || !bytes.Equal(pt.StsdRaw, tr.StsdRaw) {
			return fmt.Errorf("track %d: header fields differ: id %d ts %d hdlr %q", ti, pt.ID, pt.Timescale, pt.Handler)
		}
		if pt.Width != uint32(tr.Width)<<16 || pt.Height != uint32(tr.Height)<<16 {
			return fmt.Errorf("track %d: width/height %x/%x", ti, pt.Width, pt.Height)
		}
		if pt.MdhdDuration != tt.Duration || x.TotalDur != tt.Duration {
			return fmt.Errorf("track %d: mdhd duration %d, stts total %d, truth %d", ti, pt.MdhdDuration, x.TotalDur, tt.Duration)
		}
		wantTk := mp4build.ScaleDur(tt.Duration, tr.Timescale, lay.MovieTimescale)
		if tl.Elst != nil {
			wantTk = 0
			for _, e := range tl.Elst {
				wantTk += e.SegmentDuration
			}
		}
		if !lay.HeaderV1 && wantTk > 0xffffffff {
			wantTk = 0xffffffff
		}
		if pt.TkhdDuration != wantTk {
			return fmt.Errorf("track %d: tkhd duration %d, want %d", ti, pt.TkhdDuration, wantTk)
		}
		if wantTk > movieDur {
			movieDur = wantTk
		}
		if (tl.Elst != nil) != pt.HasEdts || len(tl.Elst) != len(pt.Elst) {
			return fmt.Errorf("track %d: edts %v with %d entries, layout has %d", ti, pt.HasEdts, len(pt.Elst), len(tl.Elst))
		}
		for i, e := range tl.Elst {
			if tablemodel.ElstEntry(e) != pt.Elst[i] {
				return fmt.Errorf("track %d: elst entry %d: %+v != %+v", ti, i, pt.Elst[i], e)
			}
		}
		if x.N != n {
			return fmt.Errorf("track %d: %d samples parsed, %d in model", ti, x.N, n)
		}
		if x.NrChunks() != len(tl.ChunkSizes) {
			return fmt.Errorf("track %d: %d chunks parsed, %d in layout", ti, x.NrChunks(), len(tl.ChunkSizes))
		}
		tb := pt.Tables
		if tb.Co64 != tl.Co64 || tb.CttsVersion != tl.CttsVersion || tb.HasStss != tl.Stss || tb.HasSdtp != tl.Sdtp {
			return fmt.Errorf("track %d: box presence differs: co64 %v ctts %d stss %v sdtp %v", ti, tb.Co64, tb.CttsVersion, tb.HasStss, tb.HasSdtp)
		}
		if (tb.UniformSize != 0) != mp4build.IsUniform(tr, tl) {
			return fmt.Errorf("track %d: uniform size %d, expected uniform=%v", ti, tb.UniformSize, mp4build.IsUniform(tr, tl))
		}
		// zero-count entries are as listed in the layout; the other checks look at the remaining entries
		var stts []tablemodel.SttsEntry
		var ctts []tablemodel.CttsEntry
		for _, e := range tb.Stts {
			if e.Count != 0 {
				stts = append(stts, e)
			}
		}
		for _, e := range tb.Ctts {
			if e.Count != 0 {
				ctts = append(ctts, e)
			}
		}
		wantCttsZero := len(tl.CttsZero)
		if tl.CttsVersion < 0 {
			wantCttsZero = 0
		}
		if len(tb.Stts)-len(stts) != len(tl.SttsZero) || len(tb.Ctts)-len(ctts) != wantCttsZero {
			return fmt.Errorf("track %d: %d/%d zero-count stts/ctts entries, layout has %d/%d", ti, len(tb.Stts)-len(stts), len(tb.Ctts)-len(ctts), len(tl.SttsZero), wantCttsZero)
		}
		tb.Stts, tb.Ctts = stts, ctts
		if tl.NoMerge {
			if len(tb.Stts) != n || len(tb.Stsc) != len(tl.ChunkSizes) || (tl.CttsVersion >= 0 && len(tb.Ctts) != n) {
				return fmt.Errorf("track %d: NoMerge but %d stts / %d ctts / %d stsc entries", ti, len(tb.Stts), len(tb.Ctts), len(tb.Stsc))
			}
		} else {
			for i := 1; i < len(tb.Stts); i++ {
				if tb.Stts[i].Delta == tb.Stts[i-1].Delta {
					return fmt.Errorf("track %d: stts entries %d and %d not merged", ti, i-1, i)
				}
			}
			for i := 1; i < len(tb.Ctts); i++ {
				if tb.Ctts[i].Offset == tb.Ctts[i-1].Offset {
					return fmt.Errorf("track %d: ctts entries %d and %d not merged", ti, i-1, i)
				}
			}
			for i := 1; i < len(tb.Stsc); i++ {
				if tb.Stsc[i].SamplesPerChunk == tb.Stsc[i-1].SamplesPerChunk && tb.Stsc[i].DescIdx == tb.Stsc[i-1].DescIdx {
					return fmt.Errorf("track %d: stsc entries %d and %d not merged", ti, i-1, i)
				}
			}
		}
		var dt uint64
		for i, s := range tr.Samples {
			nr := i + 1
			if x.DecodeTime[nr] != dt || x.Dur[nr] != s.Dur || x.Cto[nr] != s.Cto || x.Size[nr] != uint32(len(s.Data)) ||
				x.Sync[nr] != s.Sync || x.Sdtp[nr] != s.Sdtp {
				return fmt.Errorf("track %d sample %d: parsed (t=%d dur=%d cto=%d size=%d sync=%v sdtp=%#x), model (t=%d %+v)", ti, nr,
					x.DecodeTime[nr], x.Dur[nr], x.Cto[nr], x.Size[nr], x.Sync[nr], x.Sdtp[nr], dt, s)
			}
			if x.Offset[nr] != tt.SampleOffset[i] || x.Chunk[nr] != tt.SampleChunk[i] || x.IndexInChunk[nr] != tt.SampleInChunk[i] || x.DescIdx[nr] != tt.SampleDescID[i] {
				return fmt.Errorf("track %d sample %d: parsed (off=%d chunk=%d idx=%d desc=%d), truth (off=%d chunk=%d idx=%d desc=%d)", ti, nr,
					x.Offset[nr], x.Chunk[nr], x.IndexInChunk[nr], x.DescIdx[nr], tt.SampleOffset[i], tt.SampleChunk[i], tt.SampleInChunk[i], tt.SampleDescID[i])
			}
			if !bytes.Equal(m.SampleBytes(file, ti, nr), s.Data) {
				return fmt.Errorf("track %d sample %d: bytes at offset %d differ from the model", ti, nr, x.Offset[nr])
			}
			dt += uint64(s.Dur)
		}
		for ci, cs := range tl.ChunkSizes {
			c := x.Chunks[ci+1]
			if c.NrSamples != uint32(cs) || c.FirstSample != tt.ChunkFirstSample[ci] || c.Offset != tt.ChunkOffset[ci] || c.Size != tt.ChunkSize[ci] {
				return fmt.Errorf("track %d chunk %d: parsed %+v, truth first=%d n=%d off=%d size=%d", ti, ci+1, c, tt.ChunkFirstSample[ci], cs, tt.ChunkOffset[ci], tt.ChunkSize[ci])
			}
		}
	}
	if !lay.HeaderV1 && movieDur > 0xffffffff {
		movieDur = 0xffffffff
	}
	if m.MovieDuration != movieDur {
		return fmt.Errorf("mvhd duration %d, want %d", m.MovieDuration, movieDur)
	}
	return nil
}

// TestProgressiveRoundTrip: ParseProgressive(BuildProgressive(model)) == model, and the library
// decodes the file. Run with -rapid.checks=5000.
func TestProgressiveRoundTrip(t *testing.T) {
	rapid.Check(t, func(rt *rapid.T) {
		tracks := mp4build.GenTracks(rt, mp4build.GenOpt{MaxSamples: 60, AllowFinalZeroDur: true, ExtremeCto: true,
			StsdEntries: rapid.IntRange(1, 3).Draw(rt, "stsdEntries")})
		lay := mp4build.GenProgLayout(rt, tracks)
		file, truth, err := mp4build.BuildProgressive(tracks, lay)
		if err != nil {
			rt.Fatalf("BuildProgressive: %v", err)
		}
		if err := compare(file, tracks, lay, truth); err != nil {
			rt.Fatalf("%v", err)
		}
		f, err := mp4.DecodeFile(bytes.NewReader(file))
		if err != nil {
			rt.Fatalf("mp4.DecodeFile: %v", err)
		}
		if f.IsFragmented() || f.Moov == nil || f.Mdat == nil || len(f.Moov.Traks) != len(tracks) {
			rt.Fatalf("decoded file: fragmented=%v moov=%v mdat=%v", f.IsFragmented(), f.Moov != nil, f.Mdat != nil)
		}
		for ti, trak := range f.Moov.Traks {
			if got := trak.Mdia.Minf.Stbl.Stsz.GetNrSamples(); int(got) != len(tracks[ti].Samples) {
				rt.Fatalf("track %d: library sees %d samples, model has %d", ti, got, len(tracks[ti].Samples))
			}
			if trak.Tkhd.TrackID != tracks[ti].ID || trak.Mdia.Mdhd.Timescale != tracks[ti].Timescale {
				rt.Fatalf("track %d: library sees id %d timescale %d", ti, trak.Tkhd.TrackID, trak.Mdia.Mdhd.Timescale)
			}
		}
		if f.Mdat.PayloadAbsoluteOffset() != truth.MdatPayloadStart || uint64(len(f.Mdat.Data)) != truth.MdatPayloadSize {
			rt.Fatalf("library mdat payload at %d (%d bytes), truth %d (%d bytes)", f.Mdat.PayloadAbsoluteOffset(), len(f.Mdat.Data), truth.MdatPayloadStart, truth.MdatPayloadSize)
		}
	})
}

// TestProgressiveRoundTripExt: the same with the opt-in extensions (empty samples, zero durations in the
// middle, zero-count table entries, chunks of a track out of order in the mdat).
func TestProgressiveRoundTripExt(t *testing.T) {
	seen := map[string]int{}
	rapid.Check(t, func(rt *rapid.T) {
		tracks := mp4build.GenTracks(rt, mp4build.GenOpt{MaxSamples: 30, AllowFinalZeroDur: true, AllowZeroSize: true, AllowZeroDur: true,
			StsdEntries: rapid.IntRange(1, 2).Draw(rt, "stsdEntries")})
		lay := mp4build.GenProgLayout(rt, tracks)
		for ti := range tracks {
			mp4build.GenZeroRuns(rt, tracks[ti], &lay.Tracks[ti])
			if len(lay.Tracks[ti].SttsZero) > 0 {
				seen["stts-zero"]++
			}
			if len(lay.Tracks[ti].CttsZero) > 0 {
				seen["ctts-zero"]++
			}
			for i, s := range tracks[ti].Samples {
				if len(s.Data) == 0 {
					seen["zero-size"]++
				}
				if s.Dur == 0 && i < len(tracks[ti].Samples)-1 {
					seen["zero-dur"]++
				}
			}
		}
		mp4build.GenSwapChunks(rt, &lay)
		if lay.UnorderedChunks {
			seen["unordered"]++
		}
		file, truth, err := mp4build.BuildProgressive(tracks, lay)
		if err != nil {
			rt.Fatalf("BuildProgressive: %v", err)
		}
		if err := compare(file, tracks, lay, truth); err != nil {
			rt.Fatalf("%v", err)
		}
		if lay.UnorderedChunks {
			inc := true
			for _, tt := range truth.Tracks {
				for i := 1; i < len(tt.ChunkOffset); i++ {
					inc = inc && tt.ChunkOffset[i] >= tt.ChunkOffset[i-1]
				}
			}
			if !inc {
				seen["offsets-not-increasing"]++
			}
		}
	})
	for _, k := range []string{"stts-zero", "ctts-zero", "zero-size", "zero-dur", "unordered", "offsets-not-increasing"} {
		if seen[k] == 0 {
			t.Errorf("class %s never generated", k)
		}
	}
}

// TestBuildRejectsInconsistent: layouts that cannot represent the model are refused.
func TestBuildRejectsInconsistent(t *testing.T) {
	v, _, err := mp4build.DefaultStsd()
	if err != nil {
		t.Fatal(err)
	}
	mk := func() ([]mp4build.Track, mp4build.ProgLayout) {
		tr := mp4build.Track{ID: 1, Timescale: 1000, Handler: "vide", StsdRaw: v, Samples: []mp4build.Sample{
			{Data: []byte{1}, Dur: 1, Sync: true}, {Data: []byte{2, 3}, Dur: 1, Sync: true}}}
		tl := mp4build.TrackLayout{ChunkSizes: []int{2}, CttsVersion: -1}
		lay := mp4build.ProgLayout{Tracks: []mp4build.TrackLayout{tl}, MovieTimescale: 1000}
		lay.ChunkOrder = mp4build.SequentialChunkOrder(lay.Tracks)
		return []mp4build.Track{tr}, lay
	}
	tr, lay := mk()
	if _, _, err := mp4build.BuildProgressive(tr, lay); err != nil {
		t.Fatalf("base case: %v", err)
	}
	bad := []func(tr []mp4build.Track, lay *mp4build.ProgLayout){
		func(tr []mp4build.Track, lay *mp4build.ProgLayout) { tr[0].Samples[1].Cto = 5 },
		func(tr []mp4build.Track, lay *mp4build.ProgLayout) {
			tr[0].Samples[1].Cto = -5
			lay.Tracks[0].CttsVersion = 0
		},
		func(tr []mp4build.Track, lay *mp4build.ProgLayout) { tr[0].Samples[1].Sync = false },
		func(tr []mp4build.Track, lay *mp4build.ProgLayout) { tr[0].Samples[1].Sdtp = 4 },
		func(tr []mp4build.Track, lay *mp4build.ProgLayout) { lay.Tracks[0].ChunkSizes = []int{1} },
		func(tr []mp4build.Track, lay *mp4build.ProgLayout) { lay.ChunkOrder = nil },
		func(tr []mp4build.Track, lay *mp4build.ProgLayout) {
			lay.Tracks[0].ChunkSizes = []int{1, 1}
			lay.ChunkOrder = [][2]int{{0, 1}, {0, 0}}
		},
		func(tr []mp4build.Track, lay *mp4build.ProgLayout) { lay.Tracks[0].DescIDs = []uint32{0} },
		func(tr []mp4build.Track, lay *mp4build.ProgLayout) {
			lay.Tracks[0].ChunkSizes = []int{1, 1}
			lay.ChunkOrder = [][2]int{{0, 1}, {0, 1}}
			lay.UnorderedChunks = true
		},
	}
	for i, mut := range bad {
		tr, lay := mk()
		mut(tr, &lay)
		if _, _, err := mp4build.BuildProgressive(tr, lay); err == nil {
			t.Errorf("inconsistent case %d accepted", i)
		}
	}
}
