package mp4build

import (
	"pgregory.net/rapid"
)

// GenOpt bounds the model generator.
type GenOpt struct {
	MinTracks, MaxTracks int    // default 1..3
	MaxSamples           int    // per track, default 40
	MaxSampleSize        int    // default 60
	AllowFinalZeroDur    bool   // the last sample of a track may get duration 0
	ExtremeCto           bool   // composition offsets may be +-2^31
	ExtremeDur           bool   // sample durations may be anything up to 2^32-1 (run_index*delta exceeds 32 bits)
	StsdEntries          int    // > 1: the sample entry is repeated so that description ids 1..StsdEntries are valid
	VideoStsd, AudioStsd []byte // default: DefaultStsd()
	// Opt-in extensions (no draw is made for them when they are off, so that the draw sequence of the other
	// users of GenTracks does not change):
	MinSamples    int  // per track, default 1
	AllowZeroSize bool // samples may have size 0 (isolated ones, runs, a whole track of empty samples)
	AllowZeroDur  bool // non-final samples may have duration 0 (isolated ones, runs before/at sync samples)
}

func (o GenOpt) withDefaults() GenOpt {
	if o.MaxTracks == 0 {
		o.MaxTracks = 3
	}
	if o.MinTracks == 0 {
		o.MinTracks = 1
	}
	if o.MaxSamples == 0 {
		o.MaxSamples = 40
	}
	if o.MaxSampleSize == 0 {
		o.MaxSampleSize = 60
	}
	if o.VideoStsd == nil || o.AudioStsd == nil {
		v, a, err := DefaultStsd()
		if err != nil {
			panic(err)
		}
		if o.VideoStsd == nil {
			o.VideoStsd = v
		}
		if o.AudioStsd == nil {
			o.AudioStsd = a
		}
	}
	if o.StsdEntries > 1 {
		o.VideoStsd = StsdRepeat(o.VideoStsd, o.StsdEntries)
		o.AudioStsd = StsdRepeat(o.AudioStsd, o.StsdEntries)
	}
	return o
}

// SampleData returns the recognisable payload of a sample: track id, sample number (16 bits), size,
// then a pseudo-random filler derived from seed, track id and sample number; truncated to size.
func SampleData(seed uint32, trackID uint32, sampleNr int, size int) []byte {
	out := make([]byte, size)
	hdr := []byte{byte(trackID), byte(sampleNr >> 8), byte(sampleNr), byte(size)}
	x := seed ^ trackID*0x9e3779b1 ^ uint32(sampleNr)*0x85ebca6b
	for i := range out {
		x = x*1664525 + 1013904223
		out[i] = byte(x >> 24)
	}
	if size >= 4 {
		copy(out, hdr)
	} else if size > 0 {
		out[0] ^= byte(sampleNr) * 37 // still different for neighbours
	}
	return out
}

var timescales = []uint32{1, 25, 600, 1000, 12800, 44100, 48000, 90000, 10000000}
var niceDurs = []uint32{1, 2, 3, 512, 1001, 1024, 3000, 3600, 3003}

func genDur(t *rapid.T, label string) uint32 {
	if rapid.IntRange(0, 3).Draw(t, label+"Kind") == 0 {
		return rapid.Uint32Range(1, 100000).Draw(t, label)
	}
	return rapid.SampledFrom(niceDurs).Draw(t, label)
}

// genRuns fills n values in runs of drawn length.
func genRuns(t *rapid.T, n int, label string, val func(i int) uint32) []uint32 {
	out := make([]uint32, 0, n)
	for i := 0; len(out) < n; i++ {
		l := rapid.IntRange(1, n-len(out)).Draw(t, label+"RunLen")
		v := val(i)
		for k := 0; k < l; k++ {
			out = append(out, v)
		}
	}
	return out
}

// GenTracks draws 1-3 tracks: the first is video (avc1 entry, non-trivial sync pattern), the others
// audio. Sizes include the all-equal case, durations are >= 1 and come in runs, composition offsets
// cover all-zero, non-negative and negative patterns.
func GenTracks(t *rapid.T, opt GenOpt) []Track {
	opt = opt.withDefaults()
	nTracks := rapid.IntRange(opt.MinTracks, opt.MaxTracks).Draw(t, "nTracks")
	idBase := uint32(1)
	idStep := uint32(1)
	if rapid.IntRange(0, 3).Draw(t, "idKind") == 0 {
		idBase = rapid.Uint32Range(1, 1000).Draw(t, "idBase")
		idStep = rapid.Uint32Range(1, 7).Draw(t, "idStep")
	}
	seed := rapid.Uint32().Draw(t, "dataSeed")
	tracks := make([]Track, nTracks)
	for ti := range tracks {
		tr := Track{ID: idBase + uint32(ti)*idStep, Handler: "soun", StsdRaw: opt.AudioStsd}
		if ti == 0 {
			tr.Handler, tr.StsdRaw, tr.Width, tr.Height = "vide", opt.VideoStsd, 640, 360
		}
		tr.Timescale = rapid.SampledFrom(timescales).Draw(t, "timescale")
		minN := 1
		if opt.MinSamples > 1 && opt.MinSamples <= opt.MaxSamples {
			minN = opt.MinSamples
		}
		n := rapid.IntRange(minN, opt.MaxSamples).Draw(t, "nSamples")
		// sizes
		sizes := make([]int, n)
		switch rapid.IntRange(0, 3).Draw(t, "sizeMode") {
		case 0: // all equal
			s := rapid.IntRange(1, opt.MaxSampleSize).Draw(t, "size")
			for i := range sizes {
				sizes[i] = s
			}
		case 1: // independent
			for i := range sizes {
				sizes[i] = rapid.IntRange(1, opt.MaxSampleSize).Draw(t, "size")
			}
		case 2: // two values
			a := rapid.IntRange(1, opt.MaxSampleSize).Draw(t, "sizeA")
			b := rapid.IntRange(1, opt.MaxSampleSize).Draw(t, "sizeB")
			for i := range sizes {
				sizes[i] = a
				if rapid.Bool().Draw(t, "sizeIsB") {
					sizes[i] = b
				}
			}
		default: // tiny
			for i := range sizes {
				sizes[i] = rapid.IntRange(1, 4).Draw(t, "size")
			}
		}
		if opt.AllowZeroSize {
			genZeroSizes(t, sizes)
		}
		// durations
		var durs []uint32
		durMode := rapid.IntRange(0, 2).Draw(t, "durMode")
		if opt.ExtremeDur && rapid.IntRange(0, 4).Draw(t, "extremeDur") == 0 {
			durMode = 3
		}
		switch durMode {
		case 3:
			durs = genRuns(t, n, "dur", func(int) uint32 {
				return rapid.OneOf(rapid.SampledFrom([]uint32{0x10000000, 0x40000000, 0x7fffffff, 0x80000000, 0xffffffff}), rapid.Uint32Range(1<<24, 0xffffffff)).Draw(t, "bigDur")
			})
		case 0:
			d := genDur(t, "dur")
			durs = make([]uint32, n)
			for i := range durs {
				durs[i] = d
			}
		case 1:
			durs = genRuns(t, n, "dur", func(int) uint32 { return genDur(t, "dur") })
		default:
			durs = make([]uint32, n)
			for i := range durs {
				durs[i] = rapid.Uint32Range(1, 3).Draw(t, "dur")
			}
		}
		if opt.AllowFinalZeroDur && rapid.IntRange(0, 4).Draw(t, "finalZeroDur") == 0 {
			durs[n-1] = 0
		}
		// composition time offsets
		ctos := make([]int32, n)
		switch rapid.IntRange(0, 5).Draw(t, "ctoMode") {
		case 0: // all zero
		case 1:
			c := int32(genDur(t, "cto"))
			for i := range ctos {
				ctos[i] = c
			}
		case 2, 4: // periodic, 4 with negatives
			p := rapid.IntRange(2, 5).Draw(t, "ctoPeriod")
			pat := make([]int32, p)
			lo := int32(0)
			if rapid.Bool().Draw(t, "ctoNeg") {
				lo = -3000
			}
			for i := range pat {
				pat[i] = rapid.Int32Range(lo, 6000).Draw(t, "cto")
			}
			for i := range ctos {
				ctos[i] = pat[i%p]
			}
		case 3: // runs, non-negative
			for i, v := range genRuns(t, n, "cto", func(int) uint32 { return rapid.Uint32Range(0, 5000).Draw(t, "cto") }) {
				ctos[i] = int32(v)
			}
		default: // independent, incl. negative and extreme values
			for i := range ctos {
				if opt.ExtremeCto && rapid.IntRange(0, 7).Draw(t, "ctoKind") == 0 {
					ctos[i] = rapid.SampledFrom([]int32{-2147483648, -1, 0, 1, 2147483647}).Draw(t, "cto")
				} else {
					ctos[i] = rapid.Int32Range(-2000, 2000).Draw(t, "cto")
				}
			}
		}
		// sync pattern
		sync := make([]bool, n)
		syncMode := 3
		if ti == 0 {
			syncMode = rapid.IntRange(0, 3).Draw(t, "syncMode")
		} else if rapid.IntRange(0, 5).Draw(t, "audioSyncMode") == 0 {
			syncMode = 2
		}
		switch syncMode {
		case 0:
			sync[0] = true
		case 1:
			p := rapid.IntRange(1, n).Draw(t, "gop")
			for i := 0; i < n; i += p {
				sync[i] = true
			}
			if n > 2 && rapid.Bool().Draw(t, "extraSync") {
				sync[rapid.IntRange(0, n-1).Draw(t, "extraSyncAt")] = true
			}
		case 2:
			for i := range sync {
				sync[i] = rapid.Bool().Draw(t, "sync")
			}
		default:
			for i := range sync {
				sync[i] = true
			}
		}
		if opt.AllowZeroDur {
			genZeroDurs(t, durs, sync)
		}
		// sdtp
		sdtp := make([]byte, n)
		switch rapid.IntRange(0, 2).Draw(t, "sdtpMode") {
		case 0:
		case 1:
			for i := range sdtp {
				if sync[i] {
					sdtp[i] = 0x20
				} else {
					sdtp[i] = 0x10
					if i%3 == 2 {
						sdtp[i] = 0x18
					}
				}
			}
		default:
			for i := range sdtp {
				sdtp[i] = rapid.Byte().Draw(t, "sdtp")
			}
		}
		tr.Samples = make([]Sample, n)
		for i := range tr.Samples {
			tr.Samples[i] = Sample{Data: SampleData(seed, tr.ID, i+1, sizes[i]), Dur: durs[i], Cto: ctos[i], Sync: sync[i], Sdtp: sdtp[i]}
		}
		tracks[ti] = tr
	}
	return tracks
}

// genZeroSizes sets (one time out of three) some of the drawn sizes to 0: independent samples, one run,
// or all of them (a track of empty samples, which cannot use the uniform stsz form: sample_size 0
// means "sizes are in the table").
func genZeroSizes(t *rapid.T, sizes []int) {
	n := len(sizes)
	switch rapid.IntRange(0, 8).Draw(t, "zeroSizeMode") {
	case 0: // independent
		for i := range sizes {
			if rapid.IntRange(0, 3).Draw(t, "zeroSize") == 0 {
				sizes[i] = 0
			}
		}
	case 1: // one run
		a := rapid.IntRange(0, n-1).Draw(t, "zeroSizeFrom")
		b := rapid.IntRange(a, n-1).Draw(t, "zeroSizeTo")
		for i := a; i <= b; i++ {
			sizes[i] = 0
		}
	case 2: // first, last or all
		switch rapid.IntRange(0, 2).Draw(t, "zeroSizeWhere") {
		case 0:
			sizes[0] = 0
		case 1:
			sizes[n-1] = 0
		default:
			for i := range sizes {
				sizes[i] = 0
			}
		}
	}
}

// genZeroDurs sets (one time out of two) the duration of some non-final samples to 0: independent
// samples, a run that ends just before a sync sample, or a run that starts at a sync sample.
func genZeroDurs(t *rapid.T, durs []uint32, sync []bool) {
	n := len(durs)
	if n < 2 {
		return
	}
	var syncAt []int
	for i, s := range sync {
		if s && i > 0 {
			syncAt = append(syncAt, i)
		}
	}
	mode := rapid.IntRange(0, 5).Draw(t, "zeroDurMode")
	if mode >= 3 {
		return
	}
	if mode > 0 && len(syncAt) == 0 {
		mode = 0
	}
	switch mode {
	case 0:
		for i := 0; i < n-1; i++ {
			if rapid.IntRange(0, 4).Draw(t, "zeroDur") == 0 {
				durs[i] = 0
			}
		}
	case 1: // l samples before a sync sample: they and the sync sample start at the same time
		at := rapid.SampledFrom(syncAt).Draw(t, "zeroDurSync")
		l := rapid.IntRange(1, 3).Draw(t, "zeroDurLen")
		for i := at - 1; i >= 0 && i >= at-l; i-- {
			durs[i] = 0
		}
	default: // the sync sample and l-1 followers: the samples after it start at its start time
		at := rapid.SampledFrom(syncAt).Draw(t, "zeroDurSync")
		l := rapid.IntRange(1, 3).Draw(t, "zeroDurLen")
		for i := at; i < n-1 && i < at+l; i++ {
			durs[i] = 0
		}
	}
}

// GenChunking draws samples-per-chunk for n samples: one big chunk, one sample per chunk, a fixed
// size with a last partial chunk, independent sizes, or runs of equal sizes.
func GenChunking(t *rapid.T, n int) []int {
	var out []int
	switch rapid.IntRange(0, 4).Draw(t, "chunkMode") {
	case 0:
		out = []int{n}
	case 1:
		for i := 0; i < n; i++ {
			out = append(out, 1)
		}
	case 2:
		k := rapid.IntRange(1, n).Draw(t, "samplesPerChunk")
		for left := n; left > 0; left -= k {
			if left < k {
				out = append(out, left)
			} else {
				out = append(out, k)
			}
		}
	case 3:
		for left := n; left > 0; {
			hi := left
			if hi > 8 {
				hi = 8
			}
			k := rapid.IntRange(1, hi).Draw(t, "chunkSize")
			out = append(out, k)
			left -= k
		}
	default:
		for left := n; left > 0; {
			hi := left
			if hi > 6 {
				hi = 6
			}
			k := rapid.IntRange(1, hi).Draw(t, "chunkSize")
			rep := rapid.IntRange(1, 5).Draw(t, "chunkRepeat")
			for r := 0; r < rep && left > 0; r++ {
				if k > left {
					k = left
				}
				out = append(out, k)
				left -= k
			}
		}
	}
	return out
}

// GenTrackLayout draws the table layout of one track, consistent with its samples.
func GenTrackLayout(t *rapid.T, tr Track) TrackLayout {
	n := len(tr.Samples)
	tl := TrackLayout{ChunkSizes: GenChunking(t, n)}
	if ne := StsdEntryCount(tr.StsdRaw); ne > 1 && rapid.Bool().Draw(t, "multiDesc") {
		ids := genRuns(t, len(tl.ChunkSizes), "desc", func(int) uint32 { return rapid.Uint32Range(1, uint32(ne)).Draw(t, "descID") })
		tl.DescIDs = ids
	}
	tl.Co64 = rapid.Bool().Draw(t, "co64")
	anyNeg, anyCto, allSync, anySdtp := false, false, true, false
	for _, s := range tr.Samples {
		anyNeg = anyNeg || s.Cto < 0
		anyCto = anyCto || s.Cto != 0
		allSync = allSync && s.Sync
		anySdtp = anySdtp || s.Sdtp != 0
	}
	switch {
	case anyNeg:
		tl.CttsVersion = 1
	case anyCto:
		tl.CttsVersion = rapid.IntRange(0, 1).Draw(t, "cttsVersion")
	default:
		tl.CttsVersion = rapid.IntRange(-1, 1).Draw(t, "cttsVersion")
	}
	tl.Stss = !allSync || rapid.Bool().Draw(t, "stssAllSync")
	tl.Sdtp = anySdtp || rapid.Bool().Draw(t, "sdtpAllZero")
	tl.UniformStsz = rapid.Bool().Draw(t, "uniformStsz")
	tl.NoMerge = rapid.IntRange(0, 3).Draw(t, "noMerge") == 0
	switch rapid.IntRange(0, 5).Draw(t, "elstMode") {
	case 0:
		tl.Elst = []ElstEntry{{SegmentDuration: rapid.Uint64Range(0, 100000).Draw(t, "elstDur"),
			MediaTime: int64(rapid.IntRange(0, 6000).Draw(t, "elstMediaTime")), MediaRateInteger: 1}}
	case 1:
		tl.Elst = []ElstEntry{
			{SegmentDuration: rapid.Uint64Range(1, 5000).Draw(t, "elstEmptyDur"), MediaTime: -1, MediaRateInteger: 1},
			{SegmentDuration: rapid.Uint64Range(0, 100000).Draw(t, "elstDur"), MediaTime: int64(rapid.IntRange(0, 6000).Draw(t, "elstMediaTime")), MediaRateInteger: 1},
		}
	}
	return tl
}

// GenZeroRuns draws (opt-in: nothing in this package calls it) zero-count entries for the stts and ctts
// tables of a track layout: (sample_count=0, value) pairs, which cover no sample and are therefore
// without effect on the expansion of the table (ISO/IEC 14496-12 8.6.1.2/8.6.1.3 do not exclude them).
func GenZeroRuns(t *rapid.T, tr Track, tl *TrackLayout) {
	durs := make([]uint32, len(tr.Samples))
	ctos := make([]uint32, len(tr.Samples))
	for i, s := range tr.Samples {
		durs[i], ctos[i] = s.Dur, uint32(s.Cto)
	}
	draw := func(label string, nRuns int, vals []uint32) []ZeroRun {
		k := rapid.IntRange(1, 3).Draw(t, label+"ZeroRuns")
		out := make([]ZeroRun, 0, k)
		for i := 0; i < k; i++ {
			at := rapid.IntRange(0, nRuns).Draw(t, label+"ZeroRunAt")
			if rapid.IntRange(0, 3).Draw(t, label+"ZeroRunEdge") == 0 {
				at = rapid.SampledFrom([]int{0, nRuns}).Draw(t, label+"ZeroRunEdgeAt")
			}
			out = append(out, ZeroRun{At: at, Value: rapid.SampledFrom(vals).Draw(t, label+"ZeroRunValue")})
		}
		// in table order
		for i := 1; i < len(out); i++ {
			for j := i; j > 0 && out[j].At < out[j-1].At; j-- {
				out[j], out[j-1] = out[j-1], out[j]
			}
		}
		return out
	}
	if rapid.Bool().Draw(t, "sttsZeroRuns") {
		vals := []uint32{0, 1, 1024, 0xffffffff, durs[0], durs[len(durs)-1]}
		tl.SttsZero = draw("stts", len(RunLength(durs, tl.NoMerge)), vals)
	}
	if tl.CttsVersion >= 0 && rapid.Bool().Draw(t, "cttsZeroRuns") {
		vals := []uint32{0, 1, 512, ctos[0], ctos[len(ctos)-1]}
		if tl.CttsVersion == 1 {
			vals = append(vals, 0xffffffff, 0x80000000)
		}
		tl.CttsZero = draw("ctts", len(RunLength(ctos, tl.NoMerge)), vals)
	}
}

// GenSwapChunks (opt-in: nothing in this package calls it) exchanges, in the mdat order of the layout,
// one or two pairs of chunks of the same track that no chunk of that track lies between, so that the
// chunk offsets of the track are not increasing; it sets UnorderedChunks. Without a track of two chunks
// nothing is changed.
func GenSwapChunks(t *rapid.T, lay *ProgLayout) {
	for round := rapid.IntRange(1, 2).Draw(t, "swapRounds"); round > 0; round-- {
		// positions i whose successor in the same track exists: pairs (i, j)
		last := map[int]int{}
		var pairs [][2]int
		for i, tc := range lay.ChunkOrder {
			if p, ok := last[tc[0]]; ok {
				pairs = append(pairs, [2]int{p, i})
			}
			last[tc[0]] = i
		}
		if len(pairs) == 0 {
			return
		}
		p := rapid.SampledFrom(pairs).Draw(t, "swapPair")
		lay.ChunkOrder[p[0]], lay.ChunkOrder[p[1]] = lay.ChunkOrder[p[1]], lay.ChunkOrder[p[0]]
		lay.UnorderedChunks = true
	}
}

// GenChunkOrder draws an interleaving of the chunks of all tracks that keeps each track's chunks in order.
func GenChunkOrder(t *rapid.T, lay []TrackLayout) [][2]int {
	total := 0
	for _, tl := range lay {
		total += len(tl.ChunkSizes)
	}
	mode := 0
	if len(lay) > 1 {
		mode = rapid.IntRange(0, 2).Draw(t, "orderMode")
	}
	if mode == 0 {
		return SequentialChunkOrder(lay)
	}
	next := make([]int, len(lay))
	out := make([][2]int, 0, total)
	for rr := 0; len(out) < total; rr++ {
		var live []int
		for ti, tl := range lay {
			if next[ti] < len(tl.ChunkSizes) {
				live = append(live, ti)
			}
		}
		ti := live[rr%len(live)]
		if mode == 2 && len(live) > 1 {
			ti = live[rapid.IntRange(0, len(live)-1).Draw(t, "orderPick")]
		}
		out = append(out, [2]int{ti, next[ti]})
		next[ti]++
	}
	return out
}

// GenProgLayout draws a complete progressive layout for the tracks.
// GenEmptyChunkAt draws (one time out of four) a placement outside the mdat for the chunks without bytes.
// Opt-in: GenProgLayout makes no draw for it, so that the draw sequence of its other users (the deterministic
// seed pool among them) does not change.
func GenEmptyChunkAt(t *rapid.T, lay *ProgLayout) {
	if rapid.IntRange(0, 3).Draw(t, "emptyChunkElsewhere") == 0 {
		lay.EmptyChunkAt = rapid.IntRange(1, 4).Draw(t, "emptyChunkAt")
	}
}

func GenProgLayout(t *rapid.T, tracks []Track) ProgLayout {
	lay := ProgLayout{}
	for _, tr := range tracks {
		lay.Tracks = append(lay.Tracks, GenTrackLayout(t, tr))
	}
	lay.ChunkOrder = GenChunkOrder(t, lay.Tracks)
	lay.MdatFirst = rapid.Bool().Draw(t, "mdatFirst")
	lay.MdatLarge = rapid.IntRange(0, 3).Draw(t, "mdatLarge") == 0
	if rapid.IntRange(0, 3).Draw(t, "gaps") == 0 {
		lay.GapBytes = make([]int, len(lay.ChunkOrder))
		for i := range lay.GapBytes {
			lay.GapBytes[i] = rapid.IntRange(0, 5).Draw(t, "gap")
		}
	}
	lay.MovieTimescale = rapid.SampledFrom([]uint32{1000, 600, 90000, 1, 12800}).Draw(t, "movieTimescale")
	lay.HeaderV1 = rapid.IntRange(0, 4).Draw(t, "headerV1") == 0
	extraKinds := []string{"mdat0", "mdat0", "free", "skip", "uuid", "zzzz"}
	if rapid.IntRange(0, 4).Draw(t, "leadExtra") == 0 {
		lay.Lead = rapid.SliceOfN(rapid.SampledFrom(extraKinds), 1, 2).Draw(t, "lead")
	}
	if rapid.IntRange(0, 3).Draw(t, "trailExtra") == 0 {
		lay.Trail = rapid.SliceOfN(rapid.SampledFrom(extraKinds), 1, 2).Draw(t, "trail")
	}
	return lay
}
