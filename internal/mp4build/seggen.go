package mp4build

import "pgregory.net/rapid"

func totalSec(tr Track) float64 {
	var d uint64
	for _, s := range tr.Samples {
		d += uint64(s.Dur)
	}
	return float64(d) / float64(tr.Timescale)
}

// SegGenOpt are the opt-in extras of GenSegmenterInputOpt.
type SegGenOpt struct {
	// WideStep: one case in sixteen gets a segment duration whose tick count (segDurMS * timescale / 1000 of the
	// video track) lies at or just above 2^32 (a value that a 32-bit step variable cannot hold): far beyond the
	// end of every generated file, so the documented result is a single segment.
	WideStep bool
}

// GenSegmenterInput draws a progressive file that examples/segmenter accepts (one AVC video track that starts with
// a sync sample and has non-negative presentation times, optionally one AAC audio track of comparable length), a
// tool mode ("single" | "mux" | "lazy" | "muxlazy" = -m -lazy) and a segment duration in milliseconds. forceStss:
// give the video track an stss box also when all its samples are sync samples (forcedStss reports that this was done).
func GenSegmenterInput(t *rapid.T, maxSamples int, forceStss bool) ([]Track, ProgLayout, string, uint64, bool) {
	return GenSegmenterInputOpt(t, maxSamples, forceStss, SegGenOpt{})
}

// GenSegmenterInputOpt is GenSegmenterInput with the opt-in extras of SegGenOpt.
func GenSegmenterInputOpt(t *rapid.T, maxSamples int, forceStss bool, opt SegGenOpt) ([]Track, ProgLayout, string, uint64, bool) {
	// default stsd of mp4build = harvested avc1 (video) and mp4a (audio): codecs the tool supports
	tracks := GenTracks(t, GenOpt{MinTracks: 1, MaxTracks: 2, MaxSamples: maxSamples})
	video := &tracks[0]
	// the reference track starts with a sync sample (a file that does not cannot be cut into segments
	// that all start with one); three out of four single-sync tracks get a GOP structure
	video.Samples[0].Sync = true
	if n := len(video.Samples); n > 2 {
		syncs := 0
		for _, s := range video.Samples {
			if s.Sync {
				syncs++
			}
		}
		if syncs <= 1 && rapid.IntRange(0, 3).Draw(t, "addGop") != 0 {
			gop := rapid.IntRange(1, n-1).Draw(t, "gopLen")
			for i := 0; i < n; i += gop {
				video.Samples[i].Sync = true
			}
		}
	}
	// presentation times (decode time + composition offset) of the reference track are not negative: the
	// tool picks the segment starts by presentation time >= n*segDur and has nothing to pick otherwise
	{
		var st, shift int64
		for _, s := range video.Samples {
			if p := st + int64(s.Cto); -p > shift {
				shift = -p
			}
			st += int64(s.Dur)
		}
		for i := range video.Samples {
			video.Samples[i].Cto += int32(shift)
		}
	}
	// millisecond resolution of -d: slow down microsecond tracks (seven out of eight)
	if n := float64(len(video.Samples)); totalSec(*video) < 0.002*n && rapid.IntRange(0, 7).Draw(t, "refSlow") != 0 {
		m := uint64(0.002*n/totalSec(*video)) + 1
		for i := range video.Samples {
			if v := uint64(video.Samples[i].Dur) * m; v < 1<<30 {
				video.Samples[i].Dur = uint32(v)
			}
		}
	}
	// the audio track covers comparable real time (three out of four)
	if len(tracks) == 2 && rapid.IntRange(0, 3).Draw(t, "align") != 0 {
		a := &tracks[1]
		factor := rapid.SampledFrom([]float64{0.5, 0.98, 1.0, 1.0, 1.01, 1.2, 2.0}).Draw(t, "alignFactor")
		scale := totalSec(*video) * factor / totalSec(*a)
		for i := range a.Samples {
			v := float64(a.Samples[i].Dur)*scale + 0.5
			switch {
			case v < 1:
				a.Samples[i].Dur = 1
			case v > 1<<30:
				a.Samples[i].Dur = 1 << 30
			default:
				a.Samples[i].Dur = uint32(v)
			}
		}
	}
	if len(tracks) == 2 && rapid.IntRange(0, 3).Draw(t, "audioFirst") == 0 {
		tracks[0], tracks[1] = tracks[1], tracks[0]
	}
	var segDurMS uint64
	lay := GenProgLayout(t, tracks)
	vi := 0
	for i := range tracks {
		if tracks[i].Handler == "vide" {
			vi = i
		}
	}
	forcedStss := false
	if !lay.Tracks[vi].Stss && forceStss {
		lay.Tracks[vi].Stss = true // legal also when all samples are sync samples
		forcedStss = true
	}
	mode := rapid.SampledFrom([]string{"single", "mux", "lazy", "muxlazy"}).Draw(t, "mode")
	// segment duration: around the distance between sync samples, a fraction of the whole, tiny, beyond the end
	v := tracks[vi]
	ts := uint64(v.Timescale)
	var syncStarts []uint64
	var st uint64
	for _, s := range v.Samples {
		if s.Sync {
			syncStarts = append(syncStarts, st)
		}
		st += uint64(s.Dur)
	}
	totalMS := st * 1000 / ts
	switch k := rapid.IntRange(0, 9).Draw(t, "segDurKind"); {
	case k < 4 && len(syncStarts) > 1:
		tick := syncStarts[rapid.IntRange(1, len(syncStarts)-1).Draw(t, "segDurSync")]
		segDurMS = tick * 1000 / ts
		if rapid.Bool().Draw(t, "segDurCeil") {
			segDurMS = (tick*1000 + ts - 1) / ts
		}
		segDurMS += uint64(rapid.IntRange(-1, 1).Draw(t, "segDurDelta") + 1)
		if segDurMS > 0 {
			segDurMS--
		}
	case k < 7:
		segDurMS = totalMS / uint64(rapid.IntRange(2, 6).Draw(t, "segDurDiv"))
	case k == 7:
		segDurMS = 1
	case k == 8:
		segDurMS = totalMS + uint64(rapid.IntRange(0, 1000).Draw(t, "segDurBeyond"))
	default:
		segDurMS = rapid.Uint64Range(1, totalMS+1).Draw(t, "segDurAny")
	}
	if opt.WideStep && rapid.IntRange(0, 15).Draw(t, "segDurWideStep") == 0 {
		// smallest -d whose tick count reaches 2^32, plus a little
		segDurMS = ((1<<32)*1000+ts-1)/ts + uint64(rapid.IntRange(0, 3).Draw(t, "segDurWideStepPlus"))
	}
	if segDurMS == 0 {
		segDurMS = 1
	}
	if segDurMS > 0xffffffff {
		segDurMS = 0xffffffff // the tool converts -d to uint32
	}
	return tracks, lay, mode, segDurMS, forcedStss
}
