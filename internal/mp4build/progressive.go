package mp4build

import (
	"fmt"
)

// Sample is one media sample of the model.
type Sample struct {
	Data  []byte `json:"data"`
	Dur   uint32 `json:"dur"`
	Cto   int32  `json:"cto"`
	Sync  bool   `json:"sync"`
	Sdtp  byte   `json:"sdtp"`
	Flags uint32 `json:"flags,omitempty"` // used only by the fragmented writer
}

// Track is one track of the model.
type Track struct {
	ID        uint32   `json:"id"`
	Timescale uint32   `json:"timescale"`
	Handler   string   `json:"handler"` // "vide" | "soun"
	StsdRaw   []byte   `json:"stsd"`    // complete stsd box
	Width     uint16   `json:"width"`
	Height    uint16   `json:"height"`
	Samples   []Sample `json:"samples"`
}

// ElstEntry is one edit-list entry (segment duration in movie timescale, media time in media timescale).
type ElstEntry struct {
	SegmentDuration   uint64 `json:"segment_duration"`
	MediaTime         int64  `json:"media_time"`
	MediaRateInteger  int16  `json:"media_rate_integer"`
	MediaRateFraction int16  `json:"media_rate_fraction"`
}

// TrackLayout says how the tables of one track are written.
type TrackLayout struct {
	ChunkSizes  []int       `json:"chunk_sizes"`        // samples per chunk, sums to len(Samples)
	DescIDs     []uint32    `json:"desc_ids,omitempty"` // per chunk (nil = all 1); stsc runs are formed from equal (size,descID) neighbours
	Co64        bool        `json:"co64"`
	CttsVersion int         `json:"ctts_version"`   // -1 absent (all cto must be 0), 0 (all cto >= 0), 1
	Stss        bool        `json:"stss"`           // false requires that all samples are sync
	Sdtp        bool        `json:"sdtp"`           // false requires that all Sdtp bytes are 0
	UniformStsz bool        `json:"uniform_stsz"`   // only honoured when all sizes are equal (and > 0)
	NoMerge     bool        `json:"no_merge"`       // one stts/ctts/stsc entry per sample/sample/chunk instead of run-length compression
	Elst        []ElstEntry `json:"elst,omitempty"` // nil = no edts
	// zero-count entries (sample_count = 0) inserted into the run-length tables; they cover no sample
	SttsZero []ZeroRun `json:"stts_zero,omitempty"`
	CttsZero []ZeroRun `json:"ctts_zero,omitempty"` // ignored without ctts
}

// ZeroRun is a table entry (sample_count=0, Value) written before the At-th (0-based) entry of the
// run-length table the writer would emit otherwise; At >= number of entries: after the last one.
// Several ZeroRuns with the same At are written in slice order.
type ZeroRun struct {
	At    int    `json:"at"`
	Value uint32 `json:"value"`
}

// InsertZeroRuns returns runs with the zero-count entries of zr inserted.
func InsertZeroRuns(runs []Run, zr []ZeroRun) []Run {
	if len(zr) == 0 {
		return runs
	}
	out := make([]Run, 0, len(runs)+len(zr))
	for i := 0; i <= len(runs); i++ {
		for _, z := range zr {
			if z.At == i || (i == len(runs) && z.At > i) {
				out = append(out, Run{0, z.Value})
			}
		}
		if i < len(runs) {
			out = append(out, runs[i])
		}
	}
	return out
}

// ProgLayout says how the progressive file is laid out.
type ProgLayout struct {
	Tracks         []TrackLayout `json:"tracks"`
	ChunkOrder     [][2]int      `json:"chunk_order"` // (track index, chunk index) in mdat order; a permutation of all chunks that keeps each track's chunks in increasing order
	MdatFirst      bool          `json:"mdat_first"`
	MdatLarge      bool          `json:"mdat_large"`
	GapBytes       []int         `json:"gap_bytes,omitempty"` // filler bytes before the i-th chunk of ChunkOrder; may be nil
	MovieTimescale uint32        `json:"movie_timescale"`
	HeaderV1       bool          `json:"header_v1,omitempty"` // version 1 (64-bit) mvhd/tkhd/mdhd/elst
	// Extra top-level boxes after ftyp (Lead) and at the end of the file (Trail): "mdat0" (empty mdat, which
	// the library documents as allowed next to the real one), "free", "skip", "uuid", "zzzz"
	Lead  []string `json:"lead,omitempty"`
	Trail []string `json:"trail,omitempty"`
	// UnorderedChunks lifts the "each track's chunks in increasing order" condition on ChunkOrder: any
	// permutation of all chunks (the chunk offsets of a track need not increase with the chunk number).
	UnorderedChunks bool `json:"unordered_chunks,omitempty"`
	// EmptyChunkAt says which offset is written for a chunk WITHOUT bytes (all its samples are empty); such a
	// chunk refers to no data, so its offset need not lie inside the mdat: 0 = where the chunk would start,
	// 1 = file offset 0, 2 = a position in front of the mdat payload, 3 = far beyond the end of the file,
	// 4 = exactly the end of the file.
	EmptyChunkAt int `json:"empty_chunk_at,omitempty"`
}

// ExtraTop returns the bytes of the extra top-level boxes named in kinds.
func ExtraTop(kinds []string) []byte {
	var out []byte
	for _, k := range kinds {
		switch k {
		case "mdat0":
			out = append(out, Box("mdat")...)
		case "free":
			out = append(out, Box("free", []byte{1, 2, 3})...)
		case "skip":
			out = append(out, Box("skip")...)
		case "uuid":
			out = append(out, Box("uuid", []byte("0123456789abcdef"), []byte{9, 9})...)
		default:
			out = append(out, Box("zzzz", []byte{0xde, 0xad})...)
		}
	}
	return out
}

// TrackTruth says where the samples of one track are. Slices are parallel to Track.Samples
// (index = sample number - 1) and to TrackLayout.ChunkSizes (index = chunk number - 1).
type TrackTruth struct {
	SampleOffset     []uint64 // absolute file offset of the sample
	SampleChunk      []uint32 // 1-based chunk number
	SampleInChunk    []uint32 // 0-based index inside the chunk
	SampleDescID     []uint32
	ChunkOffset      []uint64
	ChunkFirstSample []uint32 // 1-based
	ChunkSize        []uint64 // bytes
	Duration         uint64   // sum of sample durations (media timescale)
}

// Truth is the ground truth of a built file.
type Truth struct {
	Tracks           []TrackTruth
	MoovStart        uint64
	MoovSize         uint64
	MdatStart        uint64 // offset of the mdat box header
	MdatPayloadStart uint64
	MdatPayloadSize  uint64
}

// GapFill is the value of filler bytes between chunks.
const GapFill = 0xEE

// Run is a run-length pair.
type Run struct {
	Count uint32
	Value uint32
}

// RunLength compresses vals into (count,value) runs; with noMerge every value is its own run.
func RunLength(vals []uint32, noMerge bool) []Run {
	var out []Run
	for _, v := range vals {
		if k := len(out) - 1; !noMerge && k >= 0 && out[k].Value == v {
			out[k].Count++
		} else {
			out = append(out, Run{1, v})
		}
	}
	return out
}

func validate(tracks []Track, lay ProgLayout) error {
	if len(tracks) == 0 {
		return fmt.Errorf("no tracks")
	}
	if len(lay.Tracks) != len(tracks) {
		return fmt.Errorf("%d tracks but %d track layouts", len(tracks), len(lay.Tracks))
	}
	if lay.MovieTimescale == 0 {
		return fmt.Errorf("movie timescale 0")
	}
	ids := map[uint32]bool{}
	total := 0
	for ti, tr := range tracks {
		tl := lay.Tracks[ti]
		if tr.ID == 0 || ids[tr.ID] {
			return fmt.Errorf("track %d: id %d is zero or duplicate", ti, tr.ID)
		}
		ids[tr.ID] = true
		if tr.Timescale == 0 {
			return fmt.Errorf("track %d: timescale 0", ti)
		}
		if tr.Handler != "vide" && tr.Handler != "soun" {
			return fmt.Errorf("track %d: handler %q", ti, tr.Handler)
		}
		if len(tr.StsdRaw) < 16 || string(tr.StsdRaw[4:8]) != "stsd" {
			return fmt.Errorf("track %d: StsdRaw is not an stsd box", ti)
		}
		sum := 0
		for ci, cs := range tl.ChunkSizes {
			if cs < 1 {
				return fmt.Errorf("track %d chunk %d: %d samples", ti, ci, cs)
			}
			sum += cs
		}
		if sum != len(tr.Samples) {
			return fmt.Errorf("track %d: chunk sizes sum to %d, %d samples", ti, sum, len(tr.Samples))
		}
		if tl.DescIDs != nil && len(tl.DescIDs) != len(tl.ChunkSizes) {
			return fmt.Errorf("track %d: %d desc ids for %d chunks", ti, len(tl.DescIDs), len(tl.ChunkSizes))
		}
		for _, d := range tl.DescIDs {
			if d == 0 {
				return fmt.Errorf("track %d: sample description index 0", ti)
			}
		}
		if tl.CttsVersion < -1 || tl.CttsVersion > 1 {
			return fmt.Errorf("track %d: ctts version %d", ti, tl.CttsVersion)
		}
		for si, s := range tr.Samples {
			if tl.CttsVersion == -1 && s.Cto != 0 {
				return fmt.Errorf("track %d sample %d: cto %d without ctts", ti, si+1, s.Cto)
			}
			if tl.CttsVersion == 0 && s.Cto < 0 {
				return fmt.Errorf("track %d sample %d: cto %d in ctts version 0", ti, si+1, s.Cto)
			}
			if !tl.Stss && !s.Sync {
				return fmt.Errorf("track %d sample %d: non-sync without stss", ti, si+1)
			}
			if !tl.Sdtp && s.Sdtp != 0 {
				return fmt.Errorf("track %d sample %d: sdtp %#x without sdtp box", ti, si+1, s.Sdtp)
			}
		}
		total += len(tl.ChunkSizes)
	}
	if len(lay.ChunkOrder) != total {
		return fmt.Errorf("chunk order has %d entries, %d chunks", len(lay.ChunkOrder), total)
	}
	next := make([]int, len(tracks))
	seen := make([][]bool, len(tracks))
	for i, tc := range lay.ChunkOrder {
		if tc[0] < 0 || tc[0] >= len(tracks) {
			return fmt.Errorf("chunk order entry %d = %v: no such track", i, tc)
		}
		if lay.UnorderedChunks {
			if seen[tc[0]] == nil {
				seen[tc[0]] = make([]bool, len(lay.Tracks[tc[0]].ChunkSizes))
			}
			if tc[1] < 0 || tc[1] >= len(seen[tc[0]]) || seen[tc[0]][tc[1]] {
				return fmt.Errorf("chunk order entry %d = %v: no such chunk, or chunk listed twice", i, tc)
			}
			seen[tc[0]][tc[1]] = true
			continue
		}
		if tc[1] != next[tc[0]] {
			return fmt.Errorf("chunk order entry %d = %v: not the next chunk of a track", i, tc)
		}
		next[tc[0]]++
	}
	if lay.GapBytes != nil && len(lay.GapBytes) != total {
		return fmt.Errorf("%d gaps for %d chunks", len(lay.GapBytes), total)
	}
	for _, g := range lay.GapBytes {
		if g < 0 {
			return fmt.Errorf("negative gap")
		}
	}
	return nil
}

// SequentialChunkOrder is the chunk order "all chunks of track 0, then all of track 1, ...".
func SequentialChunkOrder(lay []TrackLayout) [][2]int {
	out := [][2]int{}
	for ti, tl := range lay {
		for ci := range tl.ChunkSizes {
			out = append(out, [2]int{ti, ci})
		}
	}
	return out
}

// BuildProgressive writes ftyp, moov and mdat (or ftyp, mdat, moov) for the model in the given layout
// and returns the file together with the ground truth.
func BuildProgressive(tracks []Track, lay ProgLayout) (file []byte, truth *Truth, err error) {
	if err := validate(tracks, lay); err != nil {
		return nil, nil, fmt.Errorf("mp4build: %w", err)
	}
	ftyp := Box("ftyp", []byte("isom"), []byte{0, 0, 2, 0}, []byte("isomiso2avc1mp41"))

	// mdat payload: chunks in the requested order, offsets relative to the payload start
	truth = &Truth{Tracks: make([]TrackTruth, len(tracks))}
	firstOfChunk := make([][]int, len(tracks)) // 0-based index of first sample per chunk
	for ti, tr := range tracks {
		tl := lay.Tracks[ti]
		tt := &truth.Tracks[ti]
		n := len(tr.Samples)
		tt.SampleOffset = make([]uint64, n)
		tt.SampleChunk = make([]uint32, n)
		tt.SampleInChunk = make([]uint32, n)
		tt.SampleDescID = make([]uint32, n)
		tt.ChunkOffset = make([]uint64, len(tl.ChunkSizes))
		tt.ChunkFirstSample = make([]uint32, len(tl.ChunkSizes))
		tt.ChunkSize = make([]uint64, len(tl.ChunkSizes))
		firstOfChunk[ti] = make([]int, len(tl.ChunkSizes))
		s := 0
		for ci, cs := range tl.ChunkSizes {
			firstOfChunk[ti][ci] = s
			tt.ChunkFirstSample[ci] = uint32(s + 1)
			s += cs
		}
		for _, sm := range tr.Samples {
			tt.Duration += uint64(sm.Dur)
		}
	}
	var payload []byte
	for oi, tc := range lay.ChunkOrder {
		ti, ci := tc[0], tc[1]
		if lay.GapBytes != nil {
			for k := 0; k < lay.GapBytes[oi]; k++ {
				payload = append(payload, GapFill)
			}
		}
		tt := &truth.Tracks[ti]
		tt.ChunkOffset[ci] = uint64(len(payload))
		desc := uint32(1)
		if lay.Tracks[ti].DescIDs != nil {
			desc = lay.Tracks[ti].DescIDs[ci]
		}
		for k := 0; k < lay.Tracks[ti].ChunkSizes[ci]; k++ {
			si := firstOfChunk[ti][ci] + k
			tt.SampleOffset[si] = uint64(len(payload))
			tt.SampleChunk[si] = uint32(ci + 1)
			tt.SampleInChunk[si] = uint32(k)
			tt.SampleDescID[si] = desc
			payload = append(payload, tracks[ti].Samples[si].Data...)
		}
		tt.ChunkSize[ci] = uint64(len(payload)) - tt.ChunkOffset[ci]
	}
	mdatHdr := 8
	if lay.MdatLarge {
		mdatHdr = 16
	}

	// The size of moov does not depend on the offset values: build once with relative offsets to
	// learn its size, then with the absolute ones.
	moov := buildMoov(tracks, lay, truth)
	var base uint64 // absolute position of the mdat payload
	lead := ExtraTop(lay.Lead)
	if lay.MdatFirst {
		truth.MdatStart = uint64(len(ftyp) + len(lead))
		truth.MoovStart = truth.MdatStart + uint64(mdatHdr) + uint64(len(payload))
	} else {
		truth.MoovStart = uint64(len(ftyp) + len(lead))
		truth.MdatStart = truth.MoovStart + uint64(len(moov))
	}
	base = truth.MdatStart + uint64(mdatHdr)
	for ti := range truth.Tracks {
		tt := &truth.Tracks[ti]
		for i := range tt.SampleOffset {
			tt.SampleOffset[i] += base
		}
		for i := range tt.ChunkOffset {
			tt.ChunkOffset[i] += base
		}
	}
	if lay.EmptyChunkAt != 0 {
		fileLen := uint64(len(ftyp)+len(lead)+len(moov)+mdatHdr+len(payload)) + uint64(len(ExtraTop(lay.Trail)))
		var at uint64
		switch lay.EmptyChunkAt {
		case 1:
			at = 0
		case 2:
			at = 4
		case 3:
			at = fileLen + 100000
		default:
			at = fileLen
		}
		for ti := range truth.Tracks {
			tt := &truth.Tracks[ti]
			for ci := range tt.ChunkOffset {
				if tt.ChunkSize[ci] != 0 {
					continue
				}
				tt.ChunkOffset[ci] = at
				for k := 0; k < lay.Tracks[ti].ChunkSizes[ci]; k++ {
					tt.SampleOffset[firstOfChunk[ti][ci]+k] = at
				}
			}
		}
	}
	moov2 := buildMoov(tracks, lay, truth)
	if len(moov2) != len(moov) {
		return nil, nil, fmt.Errorf("mp4build: internal: moov size changed %d -> %d", len(moov), len(moov2))
	}
	moov = moov2
	truth.MoovSize = uint64(len(moov))
	truth.MdatPayloadStart = base
	truth.MdatPayloadSize = uint64(len(payload))
	var mdat []byte
	if lay.MdatLarge {
		mdat = LargeBox("mdat", payload)
	} else {
		mdat = Box("mdat", payload)
	}
	file = append(file, ftyp...)
	file = append(file, lead...)
	if lay.MdatFirst {
		file = append(file, mdat...)
		file = append(file, moov...)
	} else {
		file = append(file, moov...)
		file = append(file, mdat...)
	}
	file = append(file, ExtraTop(lay.Trail)...)
	return file, truth, nil
}

// ScaleDur converts a duration from one timescale to another, rounding up.
func ScaleDur(d uint64, from, to uint32) uint64 {
	return (d*uint64(to) + uint64(from) - 1) / uint64(from)
}

func clamp32(v uint64) uint32 {
	if v > 0xffffffff {
		return 0xffffffff // "all 1s": duration cannot be expressed in a version 0 header
	}
	return uint32(v)
}

func buildMoov(tracks []Track, lay ProgLayout, truth *Truth) []byte {
	var traks [][]byte
	var movieDur uint64
	maxID := uint32(0)
	for ti, tr := range tracks {
		tl := lay.Tracks[ti]
		tt := &truth.Tracks[ti]
		tkDur := ScaleDur(tt.Duration, tr.Timescale, lay.MovieTimescale)
		if tl.Elst != nil {
			tkDur = 0
			for _, e := range tl.Elst {
				tkDur += e.SegmentDuration
			}
		}
		if tkDur > movieDur {
			movieDur = tkDur
		}
		if tr.ID > maxID {
			maxID = tr.ID
		}
		traks = append(traks, buildTrak(tr, tl, tt, tkDur, lay.HeaderV1))
	}
	b := &Buf{}
	var mvhd []byte
	if lay.HeaderV1 {
		b.U64(0).U64(0).U32(lay.MovieTimescale).U64(movieDur)
	} else {
		b.U32(0).U32(0).U32(lay.MovieTimescale).U32(clamp32(movieDur))
	}
	b.U32(0x00010000).U16(0x0100).Zero(10).Bytes(UnityMatrix()).Zero(24).U32(maxID + 1)
	if lay.HeaderV1 {
		mvhd = FullBox("mvhd", 1, 0, b.B)
	} else {
		mvhd = FullBox("mvhd", 0, 0, b.B)
	}
	parts := [][]byte{mvhd}
	parts = append(parts, traks...)
	return Box("moov", parts...)
}

func buildTrak(tr Track, tl TrackLayout, tt *TrackTruth, tkDur uint64, v1 bool) []byte {
	ver := byte(0)
	if v1 {
		ver = 1
	}
	// tkhd
	b := &Buf{}
	if v1 {
		b.U64(0).U64(0).U32(tr.ID).U32(0).U64(tkDur)
	} else {
		b.U32(0).U32(0).U32(tr.ID).U32(0).U32(clamp32(tkDur))
	}
	b.Zero(8).U16(0).U16(0)
	if tr.Handler == "soun" {
		b.U16(0x0100)
	} else {
		b.U16(0)
	}
	b.U16(0).Bytes(UnityMatrix()).U32(uint32(tr.Width) << 16).U32(uint32(tr.Height) << 16)
	tkhd := FullBox("tkhd", ver, 7, b.B)
	parts := [][]byte{tkhd}
	// edts
	if tl.Elst != nil {
		b = &Buf{}
		b.U32(uint32(len(tl.Elst)))
		for _, e := range tl.Elst {
			if v1 {
				b.U64(e.SegmentDuration).I64(e.MediaTime)
			} else {
				b.U32(clamp32(e.SegmentDuration)).I32(int32(e.MediaTime))
			}
			b.I16(e.MediaRateInteger).I16(e.MediaRateFraction)
		}
		parts = append(parts, Box("edts", FullBox("elst", ver, 0, b.B)))
	}
	// mdhd
	b = &Buf{}
	if v1 {
		b.U64(0).U64(0).U32(tr.Timescale).U64(tt.Duration)
	} else {
		b.U32(0).U32(0).U32(tr.Timescale).U32(clamp32(tt.Duration))
	}
	b.U16(0x55c4).U16(0) // language "und"
	mdhd := FullBox("mdhd", ver, 0, b.B)
	// hdlr
	b = &Buf{}
	b.U32(0).Str(tr.Handler).Zero(12).Str("mp4build").U8(0)
	hdlr := FullBox("hdlr", 0, 0, b.B)
	// minf
	var xmhd []byte
	if tr.Handler == "soun" {
		xmhd = FullBox("smhd", 0, 0, (&Buf{}).U16(0).U16(0).B)
	} else {
		xmhd = FullBox("vmhd", 0, 1, (&Buf{}).U16(0).Zero(6).B)
	}
	dinf := Box("dinf", FullBox("dref", 0, 0, (&Buf{}).U32(1).B, FullBox("url ", 0, 1)))
	stbl := buildStbl(tr, tl, tt)
	minf := Box("minf", xmhd, dinf, stbl)
	parts = append(parts, Box("mdia", mdhd, hdlr, minf))
	return Box("trak", parts...)
}

// StscRun is one stsc entry.
type StscRun struct{ FirstChunk, SamplesPerChunk, DescID uint32 }

// StscRuns forms the stsc entries from per-chunk sizes and description ids.
func StscRuns(chunkSizes []int, descIDs []uint32, noMerge bool) []StscRun {
	var out []StscRun
	for ci, cs := range chunkSizes {
		d := uint32(1)
		if descIDs != nil {
			d = descIDs[ci]
		}
		if k := len(out) - 1; !noMerge && k >= 0 && out[k].SamplesPerChunk == uint32(cs) && out[k].DescID == d {
			continue
		}
		out = append(out, StscRun{uint32(ci + 1), uint32(cs), d})
	}
	return out
}

func buildStbl(tr Track, tl TrackLayout, tt *TrackTruth) []byte {
	n := len(tr.Samples)
	parts := [][]byte{tr.StsdRaw}
	// stts
	durs := make([]uint32, n)
	ctos := make([]uint32, n)
	for i, s := range tr.Samples {
		durs[i] = s.Dur
		ctos[i] = uint32(s.Cto)
	}
	runs := InsertZeroRuns(RunLength(durs, tl.NoMerge), tl.SttsZero)
	b := &Buf{}
	b.U32(uint32(len(runs)))
	for _, r := range runs {
		b.U32(r.Count).U32(r.Value)
	}
	parts = append(parts, FullBox("stts", 0, 0, b.B))
	// ctts
	if tl.CttsVersion >= 0 {
		runs = InsertZeroRuns(RunLength(ctos, tl.NoMerge), tl.CttsZero)
		b = &Buf{}
		b.U32(uint32(len(runs)))
		for _, r := range runs {
			b.U32(r.Count).U32(r.Value)
		}
		parts = append(parts, FullBox("ctts", byte(tl.CttsVersion), 0, b.B))
	}
	// stsc
	sr := StscRuns(tl.ChunkSizes, tl.DescIDs, tl.NoMerge)
	b = &Buf{}
	b.U32(uint32(len(sr)))
	for _, r := range sr {
		b.U32(r.FirstChunk).U32(r.SamplesPerChunk).U32(r.DescID)
	}
	parts = append(parts, FullBox("stsc", 0, 0, b.B))
	// stsz
	b = &Buf{}
	if IsUniform(tr, tl) {
		b.U32(uint32(len(tr.Samples[0].Data))).U32(uint32(n))
	} else {
		b.U32(0).U32(uint32(n))
		for _, s := range tr.Samples {
			b.U32(uint32(len(s.Data)))
		}
	}
	parts = append(parts, FullBox("stsz", 0, 0, b.B))
	// stco / co64
	b = &Buf{}
	b.U32(uint32(len(tt.ChunkOffset)))
	for _, o := range tt.ChunkOffset {
		if tl.Co64 {
			b.U64(o)
		} else {
			b.U32(uint32(o))
		}
	}
	if tl.Co64 {
		parts = append(parts, FullBox("co64", 0, 0, b.B))
	} else {
		parts = append(parts, FullBox("stco", 0, 0, b.B))
	}
	// stss
	if tl.Stss {
		b = &Buf{}
		cnt := 0
		for _, s := range tr.Samples {
			if s.Sync {
				cnt++
			}
		}
		b.U32(uint32(cnt))
		for i, s := range tr.Samples {
			if s.Sync {
				b.U32(uint32(i + 1))
			}
		}
		parts = append(parts, FullBox("stss", 0, 0, b.B))
	}
	// sdtp
	if tl.Sdtp {
		b = &Buf{}
		for _, s := range tr.Samples {
			b.U8(s.Sdtp)
		}
		parts = append(parts, FullBox("sdtp", 0, 0, b.B))
	}
	return Box("stbl", parts...)
}

// IsUniform reports whether the writer emits a uniform-size stsz for this track and layout.
func IsUniform(tr Track, tl TrackLayout) bool {
	if !tl.UniformStsz || len(tr.Samples) == 0 || len(tr.Samples[0].Data) == 0 {
		return false
	}
	for _, s := range tr.Samples {
		if len(s.Data) != len(tr.Samples[0].Data) {
			return false
		}
	}
	return true
}

// Inflate inserts gap virtual bytes into the mdat payload of a file written by BuildProgressive (moov in front
// of mdat, co64 for every track) in front of the chunk ChunkOrder[gapAtChunk] (gapAtChunk == len(ChunkOrder), or a
// chunk without bytes: at the end of the payload): the mdat size field and the chunk offsets at or behind the
// insertion point are patched. It returns the bytes in front of the inserted run and the bytes behind it; the
// inflated file is prefix, gap bytes of anything, suffix.
func Inflate(file []byte, truth *Truth, lay ProgLayout, gapAtChunk int, gap uint64) (prefix, suffix []byte, err error) {
	if lay.MdatFirst {
		return nil, nil, fmt.Errorf("mp4build.Inflate: moov must lie in front of mdat")
	}
	for _, tl := range lay.Tracks {
		if !tl.Co64 {
			return nil, nil, fmt.Errorf("mp4build.Inflate: co64 needed")
		}
	}
	gp := truth.MdatPayloadStart + truth.MdatPayloadSize
	if gapAtChunk >= 0 && gapAtChunk < len(lay.ChunkOrder) {
		co := lay.ChunkOrder[gapAtChunk]
		if truth.Tracks[co[0]].ChunkSize[co[1]] != 0 {
			gp = truth.Tracks[co[0]].ChunkOffset[co[1]]
		}
	}
	if gp < truth.MdatPayloadStart || gp > truth.MdatPayloadStart+truth.MdatPayloadSize {
		return nil, nil, fmt.Errorf("mp4build.Inflate: insertion point %d outside the payload", gp)
	}
	p := append([]byte(nil), file...)
	hdr := truth.MdatPayloadStart - truth.MdatStart
	newPayload := truth.MdatPayloadSize + gap
	be32 := func(b []byte, v uint32) { b[0], b[1], b[2], b[3] = byte(v>>24), byte(v>>16), byte(v>>8), byte(v) }
	be64 := func(b []byte, v uint64) { be32(b, uint32(v>>32)); be32(b[4:], uint32(v)) }
	rd32 := func(b []byte) uint32 { return uint32(b[0])<<24 | uint32(b[1])<<16 | uint32(b[2])<<8 | uint32(b[3]) }
	rd64 := func(b []byte) uint64 { return uint64(rd32(b))<<32 | uint64(rd32(b[4:])) }
	if hdr == 8 {
		if newPayload+8 > 0xffffffff {
			return nil, nil, fmt.Errorf("mp4build.Inflate: payload %d does not fit a 32-bit size field", newPayload)
		}
		be32(p[truth.MdatStart:], uint32(newPayload+8))
	} else {
		be64(p[truth.MdatStart+8:], newPayload+16)
	}
	// co64 boxes: positional walk moov/trak/mdia/minf/stbl/co64
	path := []string{"moov", "trak", "mdia", "minf", "stbl", "co64"}
	var rec func(lo, hi, depth int) error
	found := 0
	rec = func(lo, hi, depth int) error {
		for q := lo; q+8 <= hi; {
			size := int(rd32(p[q:]))
			h := 8
			if size == 1 && q+16 <= hi {
				size, h = int(rd64(p[q+8:])), 16
			}
			if size < h || q+size > hi {
				return fmt.Errorf("mp4build.Inflate: box walk")
			}
			if string(p[q+4:q+8]) == path[depth] {
				if depth == len(path)-1 {
					found++
					n := int(rd32(p[q+12:]))
					for i := 0; i < n; i++ {
						at := q + 16 + 8*i
						if o := rd64(p[at:]); o >= gp {
							be64(p[at:], o+gap)
						}
					}
				} else if err := rec(q+h, q+size, depth+1); err != nil {
					return err
				}
			}
			q += size
		}
		return nil
	}
	if err := rec(0, int(truth.MdatStart), 0); err != nil {
		return nil, nil, err
	}
	if found != len(lay.Tracks) {
		return nil, nil, fmt.Errorf("mp4build.Inflate: %d co64 boxes for %d tracks", found, len(lay.Tracks))
	}
	return p[:gp], p[gp:], nil
}
