// Case generator of the C02 "api" leg: recipes for init segments, fragments, media segments, fragmented and
// progressive files and single boxes, plus the history of operations. All randomness comes from rapid draws.
package apigen

import (
	"fmt"
	"sort"
	"strings"

	"pgregory.net/rapid"

	"verif/internal/boxmut"
)

var langs = []string{"und", "eng", "swe", "zho", "en", "sv", "en-US", "zh-Hant-TW", "x-klingon", "de-CH-1996"}
var aacFreqs = []int{96000, 88200, 64000, 48000, 44100, 32000, 24000, 22050, 16000, 12000, 11025, 8000, 7350}
var timescales = []uint32{1, 1000, 44100, 48000, 90000, 10000000, 0xffffffff}

// pick draws an index in [0,n) that is (nearly) uniform: rapid's own integer generators favour small values and
// the bounds, which would starve most of a long list. Shrinking still works (towards index 0).
func pick(t *rapid.T, label string, n int) int { return boxmut.Uniform(t, label, n) }

// tableN draws the number of entries of a table: mostly 0..small, with a low-probability tail of 7..40 entries (Size()
// formulas and encoders that go wrong only beyond a handful of entries are out of reach otherwise).
func tableN(t *rapid.T, label string, small int) int {
	if rapid.IntRange(0, 99).Draw(t, label+"Tail") < 8 {
		return rapid.IntRange(7, 40).Draw(t, label+"Long")
	}
	return rapid.IntRange(0, small).Draw(t, label)
}

func genHist(t *rapid.T) []string {
	ops := []string{"enc", "enc", "enc", "sw", "sw", "sw", "swbig", "size", "info", "info-all", "info-trun"}
	h := rapid.SliceOfN(rapid.SampledFrom(ops), 1, 8).Draw(t, "hist")
	hasEnc := false
	for _, op := range h {
		if op == "enc" || op == "sw" || op == "swbig" {
			hasEnc = true
		}
	}
	if !hasEnc && pct(t, 90, "forceEncode") {
		h[len(h)-1] = rapid.SampledFrom([]string{"enc", "sw", "swbig"}).Draw(t, "lastOp")
	}
	return h
}

func genTrack(t *rapid.T, media string) trackR {
	tr := trackR{Timescale: rapid.OneOf(rapid.SampledFrom(timescales), rapid.Uint32Range(1, 200000)).Draw(t, "timescale"), Media: media,
		Lang: rapid.SampledFrom(langs).Draw(t, "lang")}
	switch media {
	case "video", "vide":
		if rapid.Bool().Draw(t, "hevc?") {
			tr.Codec = "hevc"
			tr.Entry = rapid.SampledFrom([]string{"hvc1", "hev1"}).Draw(t, "entry")
			tr.IncludePS = tr.Entry == "hvc1" || pct(t, 60, "includePS")
			ps := genHEVCSets(t, tr.IncludePS)
			tr.PS = &ps
		} else {
			tr.Codec = "avc"
			tr.Entry = rapid.SampledFrom([]string{"avc1", "avc3"}).Draw(t, "entry")
			tr.IncludePS = tr.Entry == "avc1" || pct(t, 60, "includePS")
			ps := genAVCSets(t)
			tr.PS = &ps
		}
		tr.EntryKids = genSome(t, "entryKid", 1, 3, "btrt", "pasp", "colr", "clap", "coll", "smdm")
	case "audio", "soun":
		switch rapid.IntRange(0, 3).Draw(t, "audioCodec") {
		case 0, 1:
			tr.Codec = "aac"
			tr.AACObj = rapid.SampledFrom([]byte{2, 5, 29}).Draw(t, "aacObj")
			tr.AACFreq = rapid.SampledFrom(aacFreqs).Draw(t, "aacFreq")
		case 2:
			tr.Codec = "ac3"
			tr.Dac3 = &dac3R{FSCod: byte(rapid.IntRange(0, 2).Draw(t, "fscod")), BSID: byte(rapid.IntRange(0, 31).Draw(t, "bsid")), BSMod: byte(rapid.IntRange(0, 7).Draw(t, "bsmod")),
				ACMod: byte(rapid.IntRange(0, 7).Draw(t, "acmod")), LFEOn: byte(rapid.IntRange(0, 1).Draw(t, "lfe")), BitRateCode: byte(rapid.IntRange(0, 18).Draw(t, "brc"))}
		default:
			tr.Codec = "ec3"
			d := &dec3R{DataRate: uint16(rapid.IntRange(0, 8191).Draw(t, "dataRate"))}
			for i, n := 0, rapid.SampledFrom([]int{1, 1, 2, 3, 8}).Draw(t, "nSubs"); i < n; i++ {
				s := ec3SubR{FSCod: byte(rapid.IntRange(0, 2).Draw(t, "fscod")), BSID: byte(rapid.IntRange(0, 31).Draw(t, "bsid")), ACMod: byte(rapid.IntRange(0, 7).Draw(t, "acmod")),
					LFEOn: byte(rapid.IntRange(0, 1).Draw(t, "lfe"))}
				if pct(t, 40, "depSubs") {
					s.NumDepSub = byte(rapid.IntRange(1, 15).Draw(t, "numDep"))
					s.ChanLoc = uint16(rapid.IntRange(0, 511).Draw(t, "chanLoc"))
				}
				d.Subs = append(d.Subs, s)
			}
			tr.Dec3 = d
		}
		tr.EntryKids = genSome(t, "entryKid", 1, 1, "btrt")
	case "subtitle", "subt", "stpp":
		tr.Codec = "stpp"
		tr.StppNS = rapid.SampledFrom([]string{"", "http://www.w3.org/ns/ttml", "urn:x"}).Draw(t, "ns")
		if rapid.Bool().Draw(t, "schema?") {
			tr.StppSch = genText(t, "schema", 12)
		}
		if rapid.Bool().Draw(t, "aux?") {
			tr.StppAux = genText(t, "aux", 12)
		}
		tr.EntryKids = genSome(t, "entryKid", 1, 1, "btrt")
	case "text", "wvtt":
		tr.Codec = "wvtt"
		tr.Vtt = rapid.SampledFrom([]string{"", "WEBVTT", "WEBVTT\n\nNOTE x"}).Draw(t, "vtt")
		tr.EntryKids = genSome(t, "entryKid", 1, 2, "btrt", "vlab")
	default:
		tr.Codec = "none"
	}
	if pct(t, 30, "edts") {
		e := genBox(t, "edts", 1)
		tr.Edts = &e
	}
	if pct(t, 15, "trakKids") {
		tr.TrakKids = genSome(t, "trakKid", 1, 2, "udta", "free")
	}
	if pct(t, 15, "stblKids") {
		tr.StblKids = genSome(t, "stblKid", 1, 2, "sgpd", "sbgp", "stss", "ctts", "sdtp")
	}
	tr.V1 = rapid.SampledFrom([]int{0, 0, 0, 1, 2, 3}).Draw(t, "v1")
	if pct(t, 40, "trexDefaults") {
		tr.TrexDur, tr.TrexSize, tr.TrexFlags = uint32(gU32(t, "trexDur")), uint32(gU32(t, "trexSize")), uint32(gU32(t, "trexFlags"))
	}
	return tr
}

var mediaTypes = []string{"video", "video", "video", "audio", "audio", "audio", "vide", "soun", "subtitle", "subt", "stpp", "text", "wvtt", "meta", "clcp"}

func genInit(t *rapid.T, protect bool) *initR {
	in := &initR{}
	if !protect && pct(t, 8, "manualInit") {
		in.Manual = []boxR{genBox(t, "ftyp", 1), genBox(t, "moov", 1)}
		in.Manual = append(in.Manual, genSome(t, "manualTail", 1, 1, "free", "skip")...)
		return in
	}
	n := rapid.SampledFrom([]int{1, 1, 2, 2, 3, 4}).Draw(t, "nTracks")
	if protect {
		n = 1
	}
	for i := 0; i < n; i++ {
		media := rapid.SampledFrom(mediaTypes).Draw(t, "media")
		if protect {
			media = rapid.SampledFrom([]string{"video", "audio"}).Draw(t, "protectedMedia")
		}
		in.Tracks = append(in.Tracks, genTrack(t, media))
	}
	if pct(t, 30, "brands") {
		in.Brands = genBrands(t, "brands", 3)
	}
	in.MvhdV1 = pct(t, 20, "mvhdV1")
	if pct(t, 40, "moovKids") {
		in.MoovKids = genSome(t, "moovKid", 1, 3, "pssh", "pssh", "udta", "meta", "free")
	}
	if pct(t, 40, "mvexKids") {
		in.MvexKids = genSome(t, "mvexKid", 1, 2, "mehd", "mehd", "leva")
	}
	if pct(t, 10, "topKids") {
		in.TopKids = genSome(t, "topKid", 1, 2, "free", "skip")
	}
	in.Tweak = n == 1 && pct(t, 10, "tweak")
	if protect {
		in.Protect = &protectR{Scheme: rapid.SampledFrom([]string{"cenc", "cbcs"}).Draw(t, "scheme"), IVLen: rapid.SampledFrom([]int{8, 16}).Draw(t, "ivLen")}
		for i, k := 0, rapid.IntRange(0, 2).Draw(t, "nPssh"); i < k; i++ {
			in.Protect.Pssh = append(in.Protect.Pssh, genBox(t, "pssh", 1))
		}
	}
	return in
}

func genSamples(t *rapid.T, nTracks int, nalu string, seiOnly bool) []sampleR {
	n := rapid.IntRange(0, 12).Draw(t, "nSamples")
	if nTracks > 1 {
		n = rapid.IntRange(0, 24).Draw(t, "nSamplesMulti")
	}
	base := sampleR{Size: rapid.IntRange(0, 50).Draw(t, "baseSize"), Dur: uint32(gU32(t, "baseDur")),
		Flags: rapid.SampledFrom([]uint32{0, 0x02000000, 0x01010000, 0xffffffff}).Draw(t, "baseFlags")}
	sameDur, sameSize, sameFlags, zeroCto := pct(t, 60, "sameDur"), pct(t, 40, "sameSize"), pct(t, 60, "sameFlags"), pct(t, 50, "zeroCto")
	time := uint64(rapid.OneOf(rapid.Uint64Range(0, 100000), rapid.Uint64Range(1<<32-2000, 1<<32+2000), rapid.Uint64Range(0, 1<<62)).Draw(t, "startTime"))
	var out []sampleR
	for i := 0; i < n; i++ {
		s := sampleR{Track: rapid.IntRange(0, nTracks-1).Draw(t, "track"), Seed: byte(rapid.IntRange(0, 255).Draw(t, "seed")), Time: time,
			Size: base.Size, Dur: base.Dur, Flags: base.Flags}
		if !sameDur {
			s.Dur = uint32(gU32(t, "dur"))
		}
		if !sameSize {
			s.Size = rapid.IntRange(0, 50).Draw(t, "size")
		}
		if !sameFlags || (i == 0 && pct(t, 50, "firstFlags")) {
			s.Flags = rapid.OneOf(rapid.SampledFrom([]uint32{0, 0x02000000, 0x01010000}), rapid.Uint32()).Draw(t, "flags")
		}
		if !zeroCto {
			s.Cto = int32(gI32(t, "cto"))
		}
		if nalu != "" {
			s.Nalu = nalu
			if s.Size < 6 {
				s.Size += 6
			}
			if seiOnly {
				s.Seed &= 0x7f
			}
		}
		time += uint64(s.Dur)
		out = append(out, s)
	}
	return out
}

// fragEnv: what the fragment generator knows about the tracks.
type fragEnv struct {
	ids     []uint32
	protect *protectR
	video   string // "avc" | "hevc" | ""
}

var trafExtras = []string{"sbgp", "sgpd", "subs", "saiz", "saio", "senc", "tfrf", "tfxd", "uuidre"}

func genFrag(t *rapid.T, env fragEnv) fragR {
	fr := fragR{Ctor: rapid.SampledFrom([]string{"single", "single", "single", "multi", "multi", "manual"}).Draw(t, "ctor"),
		Seq: uint32(gU32(t, "seq"))}
	encrypt := env.protect != nil && pct(t, 80, "encrypt")
	if encrypt {
		fr.Ctor = "single"
	}
	if fr.Ctor == "single" {
		fr.Tracks = []uint32{rapid.SampledFrom(env.ids).Draw(t, "trackID")}
		fr.Mode = rapid.SampledFrom([]string{"full", "full", "fullTrack", "meta", "metaMany", "metaTrack", "interval", "intervalThenFull"}).Draw(t, "mode")
		if encrypt && (fr.Mode == "interval" || fr.Mode == "intervalThenFull") {
			fr.Mode = "full"
		}
	} else {
		n := rapid.IntRange(1, 3).Draw(t, "nFragTracks")
		seen := map[uint32]bool{}
		for i := 0; i < n; i++ {
			id := rapid.SampledFrom(env.ids).Draw(t, "trackID")
			for seen[id] {
				id++
			}
			seen[id] = true
			fr.Tracks = append(fr.Tracks, id)
		}
		fr.Mode = rapid.SampledFrom([]string{"fullTrack", "fullTrack", "metaTrack"}).Draw(t, "mode")
	}
	if strings.HasPrefix(fr.Mode, "meta") && fr.Ctor != "manual" && !encrypt && pct(t, 40, "metaDataAdd") {
		fr.MetaData = "add"
	}
	nalu := ""
	if encrypt {
		nalu = env.video
	}
	fr.Samples = genSamples(t, len(fr.Tracks), nalu, nalu != "" && env.protect.Scheme == "cbcs")
	fr.Encrypt = encrypt
	if fr.Ctor == "manual" {
		fr.Pre = genSome(t, "pre", 1, 2, "prft", "emsg", "emsg")
	}
	if pct(t, 25, "addEmsg") {
		for i, n := 0, rapid.IntRange(1, 2).Draw(t, "nEmsg"); i < n; i++ {
			fr.Emsgs = append(fr.Emsgs, genBox(t, "emsg", 1))
		}
	}
	if pct(t, 15, "post") {
		fr.Post = genSome(t, "post", 1, 2, "free", "emsg", "prft", "unknown")
	}
	if pct(t, 10, "moofKids") {
		fr.MoofKids = genSome(t, "moofKid", 1, 2, "pssh")
	}
	if pct(t, 35, "trafKids") {
		kinds := trafExtras
		if encrypt {
			// EncryptFragment adds saiz, saio and senc itself and DecryptFragment reads them back through the traf's
			// pointers: further boxes of the protection machinery would replace those pointers
			kinds = []string{"subs", "tfrf", "tfxd", "uuidre"}
		}
		for range fr.Tracks {
			fr.TrafKids = append(fr.TrafKids, genSome(t, "trafKid", 1, 3, kinds...))
		}
	}
	if pct(t, 25, "tfhdFields") {
		for range fr.Tracks {
			fr.Tfhd = append(fr.Tfhd, []int64{int64(rapid.SampledFrom([]int{0, 0x01, 0x02, 0x08, 0x10, 0x20, 0x38, 0x010000}).Draw(t, "tfhdFlags")),
				gU64(t, "baseOffset"), gU32(t, "sdi"), gU32(t, "defDur"), gU32(t, "defSize"), gU32(t, "defFlags")})
			if encrypt {
				fr.Tfhd[len(fr.Tfhd)-1][0] &^= 1 // DecryptFragment locates the samples through the tfhd: no made-up base data offset
			}
		}
	}
	fr.LargeMdat = pct(t, 10, "largeMdat")
	return fr
}

func genSeg(t *rapid.T, env fragEnv) segR {
	var sg segR
	switch rapid.IntRange(0, 3).Draw(t, "stypShape") {
	case 0:
	case 1:
		sg.Styp = &boxR{T: "styp-default"}
	default:
		b := genBox(t, "styp", 1)
		sg.Styp = &b
	}
	for i, n := 0, rapid.SampledFrom([]int{0, 0, 1, 1, 2, 3}).Draw(t, "nSidx"); i < n; i++ {
		sg.Sidxs = append(sg.Sidxs, genBox(t, "sidx", 1))
	}
	if len(sg.Sidxs) > 0 {
		sg.SidxVia = rapid.SampledFrom([]string{"", "", "", "fields", "sidx-only"}).Draw(t, "sidxVia")
	}
	for i, n := 0, rapid.SampledFrom([]int{0, 1, 1, 1, 2, 2, 3}).Draw(t, "nFrags"); i < n; i++ {
		sg.Frags = append(sg.Frags, genFrag(t, env))
	}
	return sg
}

func envOf(t *rapid.T, in *initR) fragEnv {
	if in == nil {
		return fragEnv{ids: rapid.SliceOfNDistinct(rapid.SampledFrom([]uint32{1, 2, 3, 7, 256, 0xffffffff}), 1, 3, func(v uint32) uint32 { return v }).Draw(t, "ids")}
	}
	env := fragEnv{protect: in.Protect}
	if len(in.Manual) > 0 {
		env.ids = []uint32{1, 2}
		return env
	}
	for i := range in.Tracks {
		env.ids = append(env.ids, uint32(i+1))
	}
	if cd := in.Tracks[0].Codec; cd == "avc" || cd == "hevc" {
		env.video = cd
	}
	return env
}

// firstRecipe finds the first recipe of the given builder (depth first).
func firstRecipe(r *boxR, name string) *boxR {
	if r.T == name {
		return r
	}
	for i := range r.K {
		if f := firstRecipe(&r.K[i], name); f != nil {
			return f
		}
	}
	return nil
}

func genProg(t *rapid.T) *progR {
	moov := genBox(t, "moov", 1)
	// the first track of a progressive file is a complete one built from the box constructors (CreateEmptyTrak gives the
	// sample-less track of a fragmented file, after which File.AddChild files an mdat box under media segments)
	for i := range moov.K {
		if moov.K[i].T == "trak" {
			break
		}
		if moov.K[i].T == "trak-empty" {
			moov.K[i] = genBox(t, "trak", 2)
			break
		}
	}
	// the first track of a progressive file has samples (an empty stts box marks the moov of a fragmented file)
	if stts := firstRecipe(&moov, "stts"); stts != nil && stts.n(0) == 0 {
		stts.N = []int64{1, int64(rapid.IntRange(1, 100).Draw(t, "sttsCount")), gU32(t, "sttsDelta")}
	}
	order := rapid.IntRange(0, 2).Draw(t, "order")
	ftyp, mdat := genBox(t, "ftyp", 1), genBox(t, "mdat", 1)
	var bs []boxR
	switch order {
	case 0:
		bs = []boxR{ftyp, moov, mdat}
	case 1:
		bs = []boxR{ftyp, mdat, moov}
	default:
		bs = []boxR{ftyp, genOneOf(t, "gap", 1, "free", "skip"), moov, mdat}
	}
	bs = append(bs, genSome(t, "tail", 1, 2, "free", "skip", "unknown", "mdat", "meta")...)
	return &progR{Boxes: bs}
}

// apiKinds: 40 slots. 22 (55%) go to the single-box builders: there are 88 of them and each is to see about a hundred
// cases in a quick run of 16000; the composite kinds share the rest.
var apiKinds = func() []string {
	var out []string
	for kind, n := range map[string]int{"box": 22, "init": 3, "fragment": 4, "segment": 3, "file-frag": 5, "file-prog": 3} {
		for i := 0; i < n; i++ {
			out = append(out, kind)
		}
	}
	sort.Strings(out)
	return out
}()

func Gen(t *rapid.T) Case {
	c := Case{Kind: apiKinds[pick(t, "kind", len(apiKinds))]}
	switch c.Kind {
	case "init":
		c.Init = genInit(t, pct(t, 30, "protect"))
	case "fragment", "segment":
		if pct(t, 25, "protectedInit") {
			c.Init = genInit(t, true)
		} else if pct(t, 20, "plainInit") {
			c.Init = genInit(t, false)
		}
		env := envOf(t, c.Init)
		if c.Kind == "fragment" {
			c.Segs = []segR{{Frags: []fragR{genFrag(t, env)}}}
		} else {
			c.Segs = []segR{genSeg(t, env)}
		}
		c.Decrypt = env.protect != nil && pct(t, 25, "decrypt")
	case "file-frag":
		if pct(t, 90, "withInit") {
			c.Init = genInit(t, pct(t, 25, "protect"))
		}
		env := envOf(t, c.Init)
		c.File = &fileR{Via: rapid.SampledFrom([]string{"addchild", "addchild", "addchild", "addsegment"}).Draw(t, "via"), BoxTree: pct(t, 35, "boxTree")}
		for i, n := 0, rapid.SampledFrom([]int{0, 1, 1, 2, 2, 3}).Draw(t, "nSegs"); i < n; i++ {
			c.Segs = append(c.Segs, genSeg(t, env))
		}
		if pct(t, 20, "fileSidx") {
			c.File.Sidxs = []boxR{genBox(t, "sidx", 1)}
		}
		if pct(t, 20, "mfra") {
			m := genBox(t, "mfra", 1)
			c.File.Mfra = &m
		}
		if pct(t, 20, "tail") {
			c.File.Tail = genSome(t, "tail", 1, 2, "free", "skip", "unknown")
		}
		if c.Init != nil && len(c.Init.Manual) == 0 && pct(t, 20, "updateSidx") {
			c.File.UpdateSidx = rapid.IntRange(1, 2).Draw(t, "updateSidxMode")
		}
	case "file-prog":
		c.Prog = genProg(t)
	case "box":
		b := genBox(t, boxKindNames[pick(t, "boxKind", len(boxKindNames))], 0)
		c.Box = &b
		if pct(t, 40, "reuseAfterUse") {
			b2 := genBox(t, b.T, 0)
			c.Box2 = &b2
		}
	default:
		panic(fmt.Sprintf("kind %q", c.Kind))
	}
	c.Opt = pct(t, 45, "optimise")
	c.Hist = genHist(t)
	return c
}
