// Box recipes of the C02 "api" leg: for every public box constructor (and the public struct literals the task names)
// one builder that turns a boxR into a library box, and one generator that draws legal arguments for it.
package apigen

import (
	"fmt"

	"github.com/Eyevinn/mp4ff/mp4"
	"pgregory.net/rapid"

	"verif/internal/harness"
)

type boxKind struct {
	name  string
	gen   func(t *rapid.T, depth int) boxR
	build func(r *boxR) (mp4.Box, error)
}

var boxKinds = map[string]*boxKind{}
var boxKindNames []string

func reg(name string, gen func(t *rapid.T, depth int) boxR, build func(r *boxR) (mp4.Box, error)) {
	boxKinds[name] = &boxKind{name, gen, build}
	boxKindNames = append(boxKindNames, name)
}

func buildBox(r *boxR) (mp4.Box, error) {
	k := boxKinds[r.T]
	if k == nil {
		return nil, fmt.Errorf("unknown box recipe %q", r.T)
	}
	b, err := k.build(r)
	if err != nil {
		return nil, err
	}
	if b == nil {
		return nil, reject("%s: constructor returned nil", r.T)
	}
	return b, nil
}

func genBox(t *rapid.T, name string, depth int) boxR {
	k := boxKinds[name]
	if k == nil {
		panic("no generator for " + name)
	}
	r := k.gen(t, depth)
	r.T = name
	return r
}

func genOneOf(t *rapid.T, label string, depth int, names ...string) boxR {
	return genBox(t, rapid.SampledFrom(names).Draw(t, label), depth)
}

func genSome(t *rapid.T, label string, depth, max int, names ...string) []boxR {
	n := rapid.IntRange(0, max).Draw(t, label+"N")
	var out []boxR
	for i := 0; i < n; i++ {
		out = append(out, genOneOf(t, label, depth, names...))
	}
	return out
}

// ---------------------------------------------------------------------------------------------
// value draws

var u32Edge = []uint32{0, 1, 2, 255, 256, 65535, 65536, 0x7fffffff, 0x80000000, 0xffffffff}
var u64Edge = []uint64{0, 1, 0xffffffff, 0x100000000, 0x100000001, 1<<63 - 1, 1 << 63, 1<<64 - 1}

func gU32(t *rapid.T, l string) int64 {
	return int64(rapid.OneOf(rapid.SampledFrom(u32Edge), rapid.Uint32Range(0, 5000), rapid.Uint32()).Draw(t, l))
}
func gU64(t *rapid.T, l string) int64 {
	return int64(rapid.OneOf(rapid.SampledFrom(u64Edge), rapid.Uint64Range(0, 100000), rapid.Uint64Range(1<<32-3, 1<<32+3), rapid.Uint64()).Draw(t, l))
}
func gU16(t *rapid.T, l string) int64 { return int64(rapid.IntRange(0, 65535).Draw(t, l)) }
func gU8(t *rapid.T, l string) int64  { return int64(rapid.IntRange(0, 255).Draw(t, l)) }
func gI32(t *rapid.T, l string) int64 {
	return int64(rapid.OneOf(rapid.Int32Range(-5000, 5000), rapid.Int32(), rapid.SampledFrom([]int32{0, -1, -2147483648, 2147483647})).Draw(t, l))
}
func gBit(t *rapid.T, l string) int64 { return int64(rapid.IntRange(0, 1).Draw(t, l)) }
func gData(t *rapid.T, l string, max int) harness.HexBytes {
	return rapid.SliceOfN(rapid.Byte(), 0, max).Draw(t, l)
}
func gDataN(t *rapid.T, l string, n int) harness.HexBytes {
	return rapid.SliceOfN(rapid.Byte(), n, n).Draw(t, l)
}

var strChar = rapid.SampledFrom([]rune("abcxyzABZ019 :/._-#é€"))

func genText(t *rapid.T, label string, max int) string {
	return string(rapid.SliceOfN(strChar, 0, max).Draw(t, label))
}

var brands = []string{"iso6", "cmfc", "dash", "mp41", "isom", "cmf2", "msdh", "msix", "avc1", "lmsg", "iso2", "cmfs"}

func genBrands(t *rapid.T, l string, max int) []string {
	return rapid.SliceOfN(rapid.SampledFrom(brands), 0, max).Draw(t, l)
}

var systemIDs = []string{"edef8ba9-79d6-4ace-a3c8-27dcd51d21ed", "9a04f07998404286ab92e65be0885f95", "1077efecc0b24d02ace33c1e52e2fb4b",
	"EDEF8BA979D64ACEA3C827DCD51D21ED", "7e+LqXnWSs6jyCfc1R0h7Q=="}
var kidStrings = []string{"00112233445566778899aabbccddeeff", "11111111-2222-3333-4444-555555555555", "ABEiM0RVZneImaq7zN3u/w==", "ffffffffffffffffffffffffffffffff"}

var genericNames = []string{"\xa9nam", "\xa9too", "\xa9ART", "\xa9cpy", "desc"}
var unknownNames = []string{"zzzz", "abcd", "xx01", "Zq  "}

func u8(v int64) byte    { return byte(v) }
func u16(v int64) uint16 { return uint16(v) }
func u32(v int64) uint32 { return uint32(v) }

func kidsInto(r *boxR, from int, add func(mp4.Box)) error {
	if from > len(r.K) {
		return nil
	}
	return addKids(r.K[from:], noErr(add))
}

func patterns(n int, salt int64) []mp4.SubSamplePattern {
	var out []mp4.SubSamplePattern
	for i := 0; i < n; i++ {
		out = append(out, mp4.SubSamplePattern{BytesOfClearData: uint16(salt*7 + int64(i)*13), BytesOfProtectedData: uint32(salt*1001 + int64(i)*16)})
	}
	return out
}

func ivOf(n int, i int) []byte {
	if n == 0 {
		return nil
	}
	iv := make([]byte, n)
	for j := range iv {
		iv[j] = byte(i*17 + j)
	}
	return iv
}

func init() {
	// ---- free space and opaque boxes
	reg("free", func(t *rapid.T, _ int) boxR { return boxR{B: []harness.HexBytes{gData(t, "data", 40)}} },
		func(r *boxR) (mp4.Box, error) { return mp4.NewFreeBox(r.b(0)), nil })
	reg("skip", func(t *rapid.T, _ int) boxR { return boxR{B: []harness.HexBytes{gData(t, "data", 40)}} },
		func(r *boxR) (mp4.Box, error) { return mp4.NewSkipBox(r.b(0)), nil })
	reg("unknown", func(t *rapid.T, _ int) boxR {
		return boxR{N: []int64{int64(rapid.IntRange(0, len(unknownNames)-1).Draw(t, "name"))}, B: []harness.HexBytes{gData(t, "data", 40)}}
	}, func(r *boxR) (mp4.Box, error) {
		p := r.b(0)
		return mp4.CreateUnknownBox(unknownNames[int(r.n(0))%len(unknownNames)], uint64(8+len(p)), p), nil
	})
	// ---- ftyp / styp
	brandBox := func(isStyp bool) (func(t *rapid.T, _ int) boxR, func(r *boxR) (mp4.Box, error)) {
		return func(t *rapid.T, _ int) boxR {
				if rapid.Bool().Draw(t, "defaultCtor") {
					return boxR{N: []int64{0}, S: genBrands(t, "add", 4)}
				}
				return boxR{N: []int64{1, gU32(t, "minor")}, S: append([]string{rapid.SampledFrom(brands).Draw(t, "major")}, genBrands(t, "compat", 5)...)}
			}, func(r *boxR) (mp4.Box, error) {
				if r.n(0) == 0 {
					if isStyp {
						b := mp4.CreateStyp()
						if len(r.S) > 0 {
							b.AddCompatibleBrands(r.S)
						}
						return b, nil
					}
					b := mp4.CreateFtyp()
					if len(r.S) > 0 {
						b.AddCompatibleBrands(r.S)
					}
					return b, nil
				}
				var compat []string
				if len(r.S) > 1 {
					compat = r.S[1:]
				}
				if isStyp {
					return mp4.NewStyp(r.s(0), u32(r.n(1)), compat), nil
				}
				return mp4.NewFtyp(r.s(0), u32(r.n(1)), compat), nil
			}
	}
	g, b := brandBox(false)
	reg("ftyp", g, b)
	g, b = brandBox(true)
	reg("styp", g, b)
	// ---- emsg (literal), prft, sidx
	reg("emsg", func(t *rapid.T, _ int) boxR {
		return boxR{N: []int64{gBit(t, "version"), gU32(t, "timescale"), gU32(t, "ptd"), gU64(t, "pt"), gU32(t, "dur"), gU32(t, "id")},
			S: []string{rapid.SampledFrom([]string{"urn:scte:scte35:2013:bin", "urn:mpeg:dash:event:2012", "", "https://aomedia.org/emsg/ID3"}).Draw(t, "scheme"), genText(t, "value", 10)},
			B: []harness.HexBytes{gData(t, "data", 40)}}
	}, func(r *boxR) (mp4.Box, error) {
		return &mp4.EmsgBox{Version: u8(r.n(0)), TimeScale: u32(r.n(1)), PresentationTimeDelta: u32(r.n(2)), PresentationTime: uint64(r.n(3)),
			EventDuration: u32(r.n(4)), ID: u32(r.n(5)), SchemeIDURI: r.s(0), Value: r.s(1), MessageData: r.b(0)}, nil
	})
	reg("prft", func(t *rapid.T, _ int) boxR {
		return boxR{N: []int64{gBit(t, "version"), int64(rapid.SampledFrom([]int{0, 1, 2, 4, 8, 16, 24}).Draw(t, "flags")), gU32(t, "track"), gU64(t, "ntp"), gU64(t, "mediaTime")}}
	}, func(r *boxR) (mp4.Box, error) {
		return mp4.CreatePrftBox(u8(r.n(0)), u32(r.n(1)), u32(r.n(2)), mp4.NTP64(uint64(r.n(3))), uint64(r.n(4))), nil
	})
	reg("sidx", func(t *rapid.T, _ int) boxR {
		r := boxR{N: []int64{gBit(t, "ctor"), gU64(t, "time"), gU32(t, "refID"), gU32(t, "timescale"), gU64(t, "firstOffset")}}
		n := rapid.IntRange(0, 4).Draw(t, "nRefs")
		r.N = append(r.N, int64(n))
		for i := 0; i < n; i++ {
			r.N = append(r.N, int64(rapid.Uint32Range(0, 0x7fffffff).Draw(t, "refSize")), gU32(t, "subDur"), int64(rapid.Uint32Range(0, 0x0fffffff).Draw(t, "sapDelta")),
				gBit(t, "refType"), gBit(t, "startsSAP"), int64(rapid.IntRange(0, 7).Draw(t, "sapType")))
		}
		return r
	}, func(r *boxR) (mp4.Box, error) {
		var sx *mp4.SidxBox
		if r.n(0) == 0 {
			sx = mp4.CreateSidx(uint64(r.n(1))) // picks the version from the time
		} else {
			sx = &mp4.SidxBox{}
			if uint64(r.n(1)) >= 1<<32 || uint64(r.n(4)) >= 1<<32 {
				sx.Version = 1
			}
		}
		sx.EarliestPresentationTime, sx.ReferenceID, sx.Timescale, sx.FirstOffset = uint64(r.n(1)), u32(r.n(2)), u32(r.n(3)), uint64(r.n(4))
		for i := 0; i < int(r.n(5)); i++ {
			o := 6 + 6*i
			sx.SidxRefs = append(sx.SidxRefs, mp4.SidxRef{ReferencedSize: u32(r.n(o)), SubSegmentDuration: u32(r.n(o + 1)), SAPDeltaTime: u32(r.n(o + 2)),
				ReferenceType: u8(r.n(o + 3)), StartsWithSAP: u8(r.n(o + 4)), SAPType: u8(r.n(o + 5))})
		}
		return sx, nil
	})
	// ---- pssh: NewPsshBox + the Data field
	reg("pssh", func(t *rapid.T, _ int) boxR {
		r := boxR{S: []string{rapid.SampledFrom(systemIDs).Draw(t, "systemID")}, B: []harness.HexBytes{gData(t, "data", 40)}, N: []int64{gBit(t, "setData")}}
		r.S = append(r.S, rapid.SliceOfN(rapid.SampledFrom(kidStrings), 0, 3).Draw(t, "kids")...)
		return r
	}, func(r *boxR) (mp4.Box, error) {
		var kids []string
		if len(r.S) > 1 {
			kids = r.S[1:]
		}
		p, err := mp4.NewPsshBox(r.s(0), kids, r.b(0))
		if err != nil {
			return nil, reject("NewPsshBox: %v", err)
		}
		if r.n(0) == 1 {
			p.Data = r.b(0)
		}
		return p, nil
	})
	// ---- small literals
	reg("mehd", func(t *rapid.T, _ int) boxR { return boxR{N: []int64{gBit(t, "version"), gU64(t, "dur")}} },
		func(r *boxR) (mp4.Box, error) {
			return &mp4.MehdBox{Version: u8(r.n(0)), FragmentDuration: r.n(1)}, nil
		})
	reg("elst", func(t *rapid.T, _ int) boxR {
		r := boxR{N: []int64{gBit(t, "version")}}
		n := tableN(t, "n", 3)
		r.N = append(r.N, int64(n))
		for i := 0; i < n; i++ {
			r.N = append(r.N, gU64(t, "segDur"), rapid.OneOf(rapid.Just(int64(-1)), rapid.Int64Range(0, 100000), rapid.Int64()).Draw(t, "mediaTime"),
				int64(rapid.IntRange(-2, 2).Draw(t, "rate")), int64(rapid.IntRange(0, 1).Draw(t, "rateFrac")))
		}
		return r
	}, func(r *boxR) (mp4.Box, error) {
		b := &mp4.ElstBox{Version: u8(r.n(0))}
		for i := 0; i < int(r.n(1)); i++ {
			o := 2 + 4*i
			b.Entries = append(b.Entries, mp4.ElstEntry{SegmentDuration: uint64(r.n(o)), MediaTime: r.n(o + 1), MediaRateInteger: int16(r.n(o + 2)), MediaRateFraction: int16(r.n(o + 3))})
		}
		return b, nil
	})
	reg("edts", func(t *rapid.T, d int) boxR {
		r := boxR{}
		for i, n := 0, rapid.IntRange(0, 2).Draw(t, "nElst"); i < n; i++ {
			r.K = append(r.K, genBox(t, "elst", d+1))
		}
		return r
	}, func(r *boxR) (mp4.Box, error) {
		b := &mp4.EdtsBox{}
		return b, kidsInto(r, 0, b.AddChild)
	})
	reg("udta", func(t *rapid.T, d int) boxR {
		return boxR{K: genSome(t, "udtaKid", d+1, 3, "free", "unknown", "meta", "skip")}
	}, func(r *boxR) (mp4.Box, error) {
		b := &mp4.UdtaBox{}
		return b, kidsInto(r, 0, b.AddChild)
	})
	reg("btrt", func(t *rapid.T, _ int) boxR { return boxR{N: []int64{gU32(t, "buf"), gU32(t, "max"), gU32(t, "avg")}} },
		func(r *boxR) (mp4.Box, error) {
			return &mp4.BtrtBox{BufferSizeDB: u32(r.n(0)), MaxBitrate: u32(r.n(1)), AvgBitrate: u32(r.n(2))}, nil
		})
	reg("pasp", func(t *rapid.T, _ int) boxR { return boxR{N: []int64{gU32(t, "h"), gU32(t, "v")}} },
		func(r *boxR) (mp4.Box, error) { return &mp4.PaspBox{HSpacing: u32(r.n(0)), VSpacing: u32(r.n(1))}, nil })
	reg("clap", func(t *rapid.T, _ int) boxR {
		r := boxR{}
		for i := 0; i < 8; i++ {
			r.N = append(r.N, gU32(t, "v"))
		}
		return r
	}, func(r *boxR) (mp4.Box, error) {
		return &mp4.ClapBox{CleanApertureWidthN: u32(r.n(0)), CleanApertureWidthD: u32(r.n(1)), CleanApertureHeightN: u32(r.n(2)), CleanApertureHeightD: u32(r.n(3)),
			HorizOffN: u32(r.n(4)), HorizOffD: u32(r.n(5)), VertOffN: u32(r.n(6)), VertOffD: u32(r.n(7))}, nil
	})
	reg("colr", func(t *rapid.T, _ int) boxR {
		return boxR{S: []string{rapid.SampledFrom([]string{"nclx", "rICC", "prof", "nclc", "abcd"}).Draw(t, "type")},
			N: []int64{gU16(t, "prim"), gU16(t, "transfer"), gU16(t, "matrix"), gBit(t, "fullRange")}, B: []harness.HexBytes{gData(t, "payload", 30)}}
	}, func(r *boxR) (mp4.Box, error) {
		c := &mp4.ColrBox{ColorType: r.s(0), ColorPrimaries: u16(r.n(0)), TransferCharacteristics: u16(r.n(1)), MatrixCoefficients: u16(r.n(2)), FullRangeFlag: r.n(3) == 1}
		switch c.ColorType {
		case "rICC", "prof":
			c.ICCProfile = r.b(0)
		case "nclx", "nclc":
		default:
			c.UnknownPayload = r.b(0)
		}
		return c, nil
	})
	reg("coll", func(t *rapid.T, _ int) boxR { return boxR{N: []int64{gU16(t, "cll"), gU16(t, "fall")}} },
		func(r *boxR) (mp4.Box, error) { return mp4.CreateCoLLBox(u16(r.n(0)), u16(r.n(1))), nil })
	reg("smdm", func(t *rapid.T, _ int) boxR {
		r := boxR{}
		for i := 0; i < 8; i++ {
			r.N = append(r.N, gU16(t, "c"))
		}
		r.N = append(r.N, gU32(t, "max"), gU32(t, "min"))
		return r
	}, func(r *boxR) (mp4.Box, error) {
		return mp4.CreateSmDmBox(u16(r.n(0)), u16(r.n(1)), u16(r.n(2)), u16(r.n(3)), u16(r.n(4)), u16(r.n(5)), u16(r.n(6)), u16(r.n(7)), u32(r.n(8)), u32(r.n(9))), nil
	})
	// ---- sample groups, sub-samples, auxiliary information
	reg("sbgp", func(t *rapid.T, _ int) boxR {
		r := boxR{S: []string{rapid.SampledFrom([]string{"seig", "roll", "rap ", "sync"}).Draw(t, "type")}, N: []int64{gBit(t, "version"), gU32(t, "param")}}
		n := tableN(t, "n", 4)
		r.N = append(r.N, int64(n))
		for i := 0; i < n; i++ {
			r.N = append(r.N, gU32(t, "count"), int64(rapid.SampledFrom([]uint32{0, 1, 2, 65537, 65538}).Draw(t, "index")))
		}
		return r
	}, func(r *boxR) (mp4.Box, error) {
		b := &mp4.SbgpBox{Version: u8(r.n(0)), GroupingType: r.s(0), GroupingTypeParameter: u32(r.n(1))}
		for i := 0; i < int(r.n(2)); i++ {
			b.SampleCounts = append(b.SampleCounts, u32(r.n(3+2*i)))
			b.GroupDescriptionIndices = append(b.GroupDescriptionIndices, u32(r.n(4+2*i)))
		}
		return b, nil
	})
	reg("sgpd", func(t *rapid.T, _ int) boxR {
		typ := rapid.SampledFrom([]string{"seig", "roll", "rap "}).Draw(t, "type")
		r := boxR{S: []string{typ}, N: []int64{int64(rapid.IntRange(1, 2).Draw(t, "version")), gU32(t, "defaultIndex"), gBit(t, "defaultLength")}, B: []harness.HexBytes{gDataN(t, "kid", 16)}}
		n := rapid.IntRange(0, 3).Draw(t, "n")
		r.N = append(r.N, int64(n))
		for i := 0; i < n; i++ {
			switch typ {
			case "seig":
				ivSize := rapid.SampledFrom([]int{0, 8, 16}).Draw(t, "ivSize")
				r.N = append(r.N, int64(rapid.IntRange(0, 15).Draw(t, "crypt")), int64(rapid.IntRange(0, 15).Draw(t, "skip")), gBit(t, "protected"), int64(ivSize),
					int64(rapid.SampledFrom([]int{0, 8, 16}).Draw(t, "constIV")))
			case "roll":
				r.N = append(r.N, int64(rapid.IntRange(-32768, 32767).Draw(t, "distance")), 0, 0, 0, 0)
			default:
				r.N = append(r.N, gBit(t, "known"), int64(rapid.IntRange(0, 127).Draw(t, "leading")), 0, 0, 0)
			}
		}
		return r
	}, func(r *boxR) (mp4.Box, error) {
		b := &mp4.SgpdBox{Version: u8(r.n(0)), GroupingType: r.s(0), DefaultGroupDescriptionIndex: u32(r.n(1))}
		same, size0 := true, uint64(0)
		for i := 0; i < int(r.n(3)); i++ {
			o := 4 + 5*i
			var e mp4.SampleGroupEntry
			switch r.s(0) {
			case "seig":
				s := &mp4.SeigSampleGroupEntry{CryptByteBlock: u8(r.n(o)), SkipByteBlock: u8(r.n(o + 1)), IsProtected: u8(r.n(o + 2)), PerSampleIVSize: u8(r.n(o + 3)), KID: mp4.UUID(r.b(0))}
				if s.IsProtected == 1 && s.PerSampleIVSize == 0 {
					s.ConstantIV = ivOf(int(r.n(o+4)), i)
				}
				e = s
			case "roll":
				e = &mp4.RollSampleGroupEntry{RollDistance: int16(r.n(o))}
			default:
				e = &mp4.RapSampleGroupEntry{NumLeadingSamplesKnown: u8(r.n(o)), NumLeadingSamples: u8(r.n(o + 1))}
			}
			if i == 0 {
				size0 = e.Size()
			} else if e.Size() != size0 {
				same = false
			}
			b.SampleGroupEntries = append(b.SampleGroupEntries, e)
		}
		if r.n(2) == 1 && same && len(b.SampleGroupEntries) > 0 {
			b.DefaultLength = uint32(size0)
		} else {
			for _, e := range b.SampleGroupEntries {
				b.DescriptionLengths = append(b.DescriptionLengths, uint32(e.Size()))
			}
		}
		return b, nil
	})
	reg("subs", func(t *rapid.T, _ int) boxR {
		r := boxR{N: []int64{gBit(t, "version"), int64(rapid.IntRange(0, 3).Draw(t, "flags"))}}
		n := tableN(t, "n", 3)
		r.N = append(r.N, int64(n))
		for i := 0; i < n; i++ {
			m := rapid.IntRange(0, 3).Draw(t, "nSub")
			r.N = append(r.N, gU32(t, "delta"), int64(m))
			for j := 0; j < m; j++ {
				r.N = append(r.N, gU16(t, "size"), gU32(t, "params"), gU8(t, "prio"), gBit(t, "discardable"))
			}
		}
		return r
	}, func(r *boxR) (mp4.Box, error) {
		b := &mp4.SubsBox{Version: u8(r.n(0)), Flags: u32(r.n(1))}
		o := 3
		for i := 0; i < int(r.n(2)); i++ {
			e := mp4.SubsEntry{SampleDelta: u32(r.n(o))}
			m := int(r.n(o + 1))
			o += 2
			for j := 0; j < m; j++ {
				e.SubSamples = append(e.SubSamples, mp4.SubsSample{SubsampleSize: u32(r.n(o)), CodecSpecificParameters: u32(r.n(o + 1)), SubsamplePriority: u8(r.n(o + 2)), Discardable: u8(r.n(o + 3))})
				o += 4
			}
			b.Entries = append(b.Entries, e)
		}
		return b, nil
	})
	genAux := func(t *rapid.T) []int64 {
		n := rapid.IntRange(0, 5).Draw(t, "n")
		out := []int64{int64(rapid.SampledFrom([]int{0, 8, 16}).Draw(t, "ivLen")), int64(n)}
		uniform := rapid.IntRange(0, 2).Draw(t, "subsampleShape") // 0 none, 1 all, 2 mixed
		for i := 0; i < n; i++ {
			switch uniform {
			case 0:
				out = append(out, 0)
			case 1:
				out = append(out, int64(rapid.IntRange(1, 3).Draw(t, "nSub")))
			default:
				out = append(out, int64(rapid.IntRange(0, 3).Draw(t, "nSub")))
			}
		}
		return out
	}
	reg("senc", func(t *rapid.T, _ int) boxR { return boxR{N: append([]int64{gBit(t, "ctor")}, genAux(t)...)} },
		func(r *boxR) (mp4.Box, error) {
			ivLen, n := int(r.n(1)), int(r.n(2))
			var s *mp4.SencBox
			if r.n(0) == 0 {
				s = mp4.CreateSencBox()
			} else {
				s = mp4.NewSencBox(n, n)
			}
			for i := 0; i < n; i++ {
				if err := s.AddSample(mp4.SencSample{IV: ivOf(ivLen, i), SubSamples: patterns(int(r.n(3+i)), int64(i))}); err != nil {
					return nil, reject("SencBox.AddSample: %v", err)
				}
			}
			return s, nil
		})
	reg("saiz", func(t *rapid.T, _ int) boxR {
		return boxR{N: append([]int64{int64(rapid.IntRange(0, 8).Draw(t, "capacity")), gBit(t, "aux")}, genAux(t)...)}
	}, func(r *boxR) (mp4.Box, error) {
		s := mp4.NewSaizBox(int(r.n(0)))
		if r.n(1) == 1 {
			s.Flags |= 1
			s.AuxInfoType, s.AuxInfoTypeParameter = "cenc", 0
		}
		ivLen, n := int(r.n(2)), int(r.n(3))
		for i := 0; i < n; i++ {
			s.AddSampleInfo(ivOf(ivLen, i), patterns(int(r.n(4+i)), int64(i)))
		}
		return s, nil
	})
	reg("saio", func(t *rapid.T, _ int) boxR {
		r := boxR{N: []int64{gU64(t, "offset"), gBit(t, "version"), gBit(t, "aux")}}
		for i, n := 0, rapid.IntRange(0, 2).Draw(t, "extra"); i < n; i++ {
			r.N = append(r.N, gU64(t, "offset"))
		}
		return r
	}, func(r *boxR) (mp4.Box, error) {
		s := mp4.NewSaioBox()
		s.SetOffset(r.n(0))
		s.Version = u8(r.n(1))
		if r.n(2) == 1 {
			s.Flags |= 1
			s.AuxInfoType, s.AuxInfoTypeParameter = "cbcs", 0
		}
		for i := 3; i < len(r.N); i++ {
			s.Offset = append(s.Offset, r.N[i])
		}
		return s, nil
	})
	// ---- movie fragment level boxes
	reg("mfhd", func(t *rapid.T, _ int) boxR { return boxR{N: []int64{gU32(t, "seq")}} },
		func(r *boxR) (mp4.Box, error) { return mp4.CreateMfhd(u32(r.n(0))), nil })
	reg("tfhd", func(t *rapid.T, _ int) boxR {
		return boxR{N: []int64{gU32(t, "track"), int64(rapid.SampledFrom([]int{0, 0x01, 0x02, 0x08, 0x10, 0x20, 0x3b, 0x010000, 0x01003b}).Draw(t, "flags")),
			gU64(t, "base"), gU32(t, "sdi"), gU32(t, "dur"), gU32(t, "size"), gU32(t, "sflags"), gBit(t, "clearBaseIsMoof")}}
	}, func(r *boxR) (mp4.Box, error) {
		h := mp4.CreateTfhd(u32(r.n(0)))
		if r.n(7) == 1 {
			h.Flags = 0
		}
		h.Flags |= u32(r.n(1))
		h.BaseDataOffset, h.SampleDescriptionIndex = uint64(r.n(2)), u32(r.n(3))
		h.DefaultSampleDuration, h.DefaultSampleSize, h.DefaultSampleFlags = u32(r.n(4)), u32(r.n(5)), u32(r.n(6))
		return h, nil
	})
	reg("tfdt", func(t *rapid.T, _ int) boxR {
		return boxR{N: []int64{gU64(t, "time"), gBit(t, "reset"), gU64(t, "time2")}}
	},
		func(r *boxR) (mp4.Box, error) {
			b := mp4.CreateTfdt(uint64(r.n(0)))
			if r.n(1) == 1 {
				b.SetBaseMediaDecodeTime(uint64(r.n(2)))
			}
			return b, nil
		})
	reg("trun", func(t *rapid.T, _ int) boxR {
		r := boxR{N: []int64{int64(rapid.IntRange(0, 3).Draw(t, "writeOrder")), int64(rapid.SampledFrom([]int32{1, 8, 100, -1, 2147483647, 0}).Draw(t, "dataOffset")),
			int64(rapid.SampledFrom([]int{-1, -1, 0x000, 0x001, 0x005, 0x301, 0xb01, 0xf00, 0xa05}).Draw(t, "flags")),
			rapid.OneOf(rapid.Just(int64(-1)), rapid.Int64Range(0, 1<<32-1)).Draw(t, "firstSampleFlags"), gBit(t, "version")}}
		n := rapid.IntRange(0, 6).Draw(t, "n")
		r.N = append(r.N, int64(n))
		for i := 0; i < n; i++ {
			r.N = append(r.N, gU32(t, "sflags"), gU32(t, "dur"), gU32(t, "size"), gI32(t, "cto"))
		}
		return r
	}, func(r *boxR) (mp4.Box, error) {
		tr := mp4.CreateTrun(u32(r.n(0)))
		tr.DataOffset = int32(r.n(1))
		if r.n(2) >= 0 {
			tr.Flags = u32(r.n(2))
		}
		if r.n(3) >= 0 {
			tr.SetFirstSampleFlags(u32(r.n(3)))
		}
		tr.Version = u8(r.n(4))
		var ss []mp4.Sample
		for i := 0; i < int(r.n(5)); i++ {
			o := 6 + 4*i
			s := mp4.NewSample(u32(r.n(o)), u32(r.n(o+1)), u32(r.n(o+2)), int32(r.n(o+3)))
			if i%2 == 0 {
				tr.AddSample(s)
			} else {
				ss = append(ss[:0], s)
				tr.AddSamples(ss)
			}
		}
		return tr, nil
	})
	reg("tfrf", func(t *rapid.T, _ int) boxR {
		n := rapid.IntRange(0, 3).Draw(t, "n")
		r := boxR{N: []int64{int64(n)}}
		for i := 0; i < 2*n; i++ {
			r.N = append(r.N, gU64(t, "v"))
		}
		return r
	}, func(r *boxR) (mp4.Box, error) {
		n := int(r.n(0))
		var ts, ds []uint64
		for i := 0; i < n; i++ {
			ts, ds = append(ts, uint64(r.n(1+2*i))), append(ds, uint64(r.n(2+2*i)))
		}
		return mp4.NewTfrfBox(byte(n), ts, ds), nil
	})
	reg("tfxd", func(t *rapid.T, _ int) boxR { return boxR{N: []int64{gU64(t, "time"), gU64(t, "dur")}} },
		func(r *boxR) (mp4.Box, error) { return mp4.NewTfxdBox(uint64(r.n(0)), uint64(r.n(1))), nil })
	// uuidre: a uuid box whose UUID is changed after it was built (SetUUID): N[0] = start (0 tfxd, 1 tfrf, 2 empty
	// UUIDBox), N[1] = new identity (0 private UUID with UnknownPayload B[0], 1 tfxd, 2 tfrf); the typed data of the
	// start stays where the constructor put it. What is written, and how long it is, follows the UUID.
	reg("uuidre", func(t *rapid.T, _ int) boxR {
		return boxR{N: []int64{int64(rapid.IntRange(0, 2).Draw(t, "start")), int64(rapid.IntRange(0, 2).Draw(t, "to")), gU64(t, "time"), gU64(t, "dur")},
			B: []harness.HexBytes{gData(t, "payload", 24)}}
	}, func(r *boxR) (mp4.Box, error) {
		var b *mp4.UUIDBox
		switch r.n(0) {
		case 0:
			b = mp4.NewTfxdBox(uint64(r.n(2)), uint64(r.n(3)))
		case 1:
			b = mp4.NewTfrfBox(1, []uint64{uint64(r.n(2))}, []uint64{uint64(r.n(3))})
		default:
			b = &mp4.UUIDBox{}
		}
		switch r.n(1) {
		case 0:
			if err := b.SetUUID("00112233-4455-6677-8899-aabbccddeeff"); err != nil {
				return nil, err
			}
			b.UnknownPayload = r.b(0)
		case 1:
			if err := b.SetUUID(mp4.UUIDTfxd); err != nil {
				return nil, err
			}
			if b.Tfxd == nil {
				b.Tfxd = &mp4.TfxdData{Version: 1, FragmentAbsoluteTime: uint64(r.n(2)), FragmentAbsoluteDuration: uint64(r.n(3))}
			}
		default:
			if err := b.SetUUID(mp4.UUIDTfrf); err != nil {
				return nil, err
			}
			if b.Tfrf == nil {
				b.Tfrf = &mp4.TfrfData{Version: 1, FragmentCount: 1, FragmentAbsoluteTimes: []uint64{uint64(r.n(2))}, FragmentAbsoluteDurations: []uint64{uint64(r.n(3))}}
			}
		}
		return b, nil
	})
	reg("tfra", func(t *rapid.T, _ int) boxR {
		r := boxR{N: []int64{gBit(t, "version"), gU32(t, "track"), int64(rapid.IntRange(0, 3).Draw(t, "lTraf")), int64(rapid.IntRange(0, 3).Draw(t, "lTrun")), int64(rapid.IntRange(0, 3).Draw(t, "lSample"))}}
		n := tableN(t, "n", 3)
		r.N = append(r.N, int64(n))
		for i := 0; i < n; i++ {
			r.N = append(r.N, gU64(t, "time"), gU64(t, "moofOffset"), gU8(t, "traf"), gU8(t, "trun"), gU8(t, "sample"))
		}
		return r
	}, func(r *boxR) (mp4.Box, error) {
		b := &mp4.TfraBox{Version: u8(r.n(0)), TrackID: u32(r.n(1)), LengthSizeOfTrafNum: u8(r.n(2)), LengthSizeOfTrunNum: u8(r.n(3)), LengthSizeOfSampleNum: u8(r.n(4))}
		for i := 0; i < int(r.n(5)); i++ {
			o := 6 + 5*i
			b.Entries = append(b.Entries, mp4.TfraEntry{Time: uint64(r.n(o)), MoofOffset: uint64(r.n(o + 1)), TrafNumber: u32(r.n(o + 2)), TrunNumber: u32(r.n(o + 3)), SampleNumber: u32(r.n(o + 4))})
		}
		return b, nil
	})
	reg("mfra", func(t *rapid.T, d int) boxR {
		r := boxR{N: []int64{gBit(t, "mfro")}}
		for i, n := 0, rapid.IntRange(0, 2).Draw(t, "nTfra"); i < n; i++ {
			r.K = append(r.K, genBox(t, "tfra", d+1))
		}
		return r
	}, func(r *boxR) (mp4.Box, error) {
		m := &mp4.MfraBox{}
		if err := addKids(r.K, m.AddChild); err != nil {
			return nil, err
		}
		if r.n(0) == 1 {
			_ = m.AddChild(&mp4.MfroBox{ParentSize: uint32(m.Size() + 16)})
		}
		return m, nil
	})
	reg("leva", func(t *rapid.T, _ int) boxR {
		n := rapid.IntRange(0, 4).Draw(t, "n")
		r := boxR{N: []int64{int64(n)}}
		for i := 0; i < n; i++ {
			r.N = append(r.N, gU32(t, "track"), gBit(t, "padding"), int64(rapid.IntRange(0, 4).Draw(t, "assignment")), gU32(t, "gt"), gU32(t, "gtp"), gU32(t, "sub"))
		}
		return r
	}, func(r *boxR) (mp4.Box, error) {
		b := &mp4.LevaBox{}
		for i := 0; i < int(r.n(0)); i++ {
			o := 1 + 6*i
			l, err := mp4.NewLevaLevel(u32(r.n(o)), r.n(o+1) == 1, u8(r.n(o+2)), u32(r.n(o+3)), u32(r.n(o+4)), u32(r.n(o+5)))
			if err != nil {
				return nil, reject("NewLevaLevel: %v", err)
			}
			b.Levels = append(b.Levels, l)
		}
		return b, nil
	})
	reg("ssix", func(t *rapid.T, _ int) boxR {
		n := rapid.IntRange(0, 3).Draw(t, "n")
		r := boxR{N: []int64{int64(n)}}
		for i := 0; i < n; i++ {
			m := rapid.IntRange(0, 3).Draw(t, "nRanges")
			r.N = append(r.N, int64(m))
			for j := 0; j < m; j++ {
				r.N = append(r.N, gU8(t, "level"), int64(rapid.IntRange(0, 1<<24-1).Draw(t, "size")))
			}
		}
		return r
	}, func(r *boxR) (mp4.Box, error) {
		b := &mp4.SsixBox{}
		o := 1
		for i := 0; i < int(r.n(0)); i++ {
			m := int(r.n(o))
			o++
			var s mp4.SubSegment
			for j := 0; j < m; j++ {
				s.Ranges = append(s.Ranges, mp4.NewSubSegmentRange(u8(r.n(o)), u32(r.n(o+1))))
				o += 2
			}
			b.SubSegments = append(b.SubSegments, s)
		}
		return b, nil
	})
	// ---- movie level boxes
	reg("mvhd", func(t *rapid.T, _ int) boxR {
		return boxR{N: []int64{gBit(t, "version"), gU64(t, "creation"), gU64(t, "modification"), gU32(t, "timescale"), gU64(t, "duration"), gU32(t, "next")}}
	}, func(r *boxR) (mp4.Box, error) {
		b := mp4.CreateMvhd()
		b.Version, b.CreationTime, b.ModificationTime, b.Timescale, b.Duration, b.NextTrackID = u8(r.n(0)), uint64(r.n(1)), uint64(r.n(2)), u32(r.n(3)), uint64(r.n(4)), u32(r.n(5))
		return b, nil
	})
	reg("tkhd", func(t *rapid.T, _ int) boxR {
		return boxR{N: []int64{gBit(t, "version"), gU64(t, "creation"), gU64(t, "modification"), gU32(t, "track"), gU64(t, "duration"), gU32(t, "w"), gU32(t, "h"), gU16(t, "volume")}}
	}, func(r *boxR) (mp4.Box, error) {
		b := mp4.CreateTkhd()
		b.Version, b.CreationTime, b.ModificationTime, b.TrackID, b.Duration = u8(r.n(0)), uint64(r.n(1)), uint64(r.n(2)), u32(r.n(3)), uint64(r.n(4))
		b.Width, b.Height, b.Volume = mp4.Fixed32(u32(r.n(5))), mp4.Fixed32(u32(r.n(6))), mp4.Fixed16(u16(r.n(7)))
		return b, nil
	})
	reg("mdhd", func(t *rapid.T, _ int) boxR {
		return boxR{N: []int64{gBit(t, "version"), gU64(t, "creation"), gU64(t, "modification"), gU32(t, "timescale"), gU64(t, "duration")},
			S: []string{rapid.SampledFrom([]string{"und", "eng", "swe", "zzz", "```"}).Draw(t, "lang")}}
	}, func(r *boxR) (mp4.Box, error) {
		b := &mp4.MdhdBox{Version: u8(r.n(0)), CreationTime: uint64(r.n(1)), ModificationTime: uint64(r.n(2)), Timescale: u32(r.n(3)), Duration: uint64(r.n(4))}
		b.SetLanguage(r.s(0))
		return b, nil
	})
	reg("hdlr", func(t *rapid.T, _ int) boxR {
		return boxR{S: []string{rapid.SampledFrom([]string{"video", "vide", "audio", "soun", "subtitle", "subt", "stpp", "text", "wvtt", "meta", "clcp", "mdir", "ID32"}).Draw(t, "type"), genText(t, "name", 20)},
			N: []int64{gBit(t, "setName"), gBit(t, "noNull")}}
	}, func(r *boxR) (mp4.Box, error) {
		h, err := mp4.CreateHdlr(r.s(0))
		if err != nil {
			return nil, reject("CreateHdlr: %v", err)
		}
		if r.n(0) == 1 {
			h.Name = r.s(1)
		}
		h.LacksNullTermination = r.n(1) == 1
		return h, nil
	})
	reg("elng", func(t *rapid.T, _ int) boxR {
		return boxR{S: []string{rapid.SampledFrom([]string{"en-US", "zh-Hant-TW", "", "sv", "x-klingon"}).Draw(t, "lang")}}
	}, func(r *boxR) (mp4.Box, error) { return mp4.CreateElng(r.s(0)), nil })
	reg("vmhd", func(t *rapid.T, _ int) boxR { return boxR{} }, func(r *boxR) (mp4.Box, error) { return mp4.CreateVmhd(), nil })
	reg("smhd", func(t *rapid.T, _ int) boxR { return boxR{} }, func(r *boxR) (mp4.Box, error) { return mp4.CreateSmhd(), nil })
	reg("sthd", func(t *rapid.T, _ int) boxR { return boxR{} }, func(r *boxR) (mp4.Box, error) { return &mp4.SthdBox{}, nil })
	reg("nmhd", func(t *rapid.T, _ int) boxR { return boxR{} }, func(r *boxR) (mp4.Box, error) { return &mp4.NmhdBox{}, nil })
	reg("url ", func(t *rapid.T, _ int) boxR {
		return boxR{N: []int64{gBit(t, "location"), gBit(t, "noZero")}, S: []string{genText(t, "location", 20)}}
	}, func(r *boxR) (mp4.Box, error) {
		u := mp4.CreateURLBox()
		if r.n(0) == 1 {
			u.Flags, u.NoLocation, u.Location, u.NoZeroTermination = 0, false, r.s(0), r.n(1) == 1
		}
		return u, nil
	})
	reg("dref", func(t *rapid.T, d int) boxR {
		r := boxR{}
		for i, n := 0, rapid.IntRange(0, 2).Draw(t, "extraURL"); i < n; i++ {
			r.K = append(r.K, genBox(t, "url ", d+1))
		}
		return r
	}, func(r *boxR) (mp4.Box, error) {
		b := mp4.CreateDref()
		return b, kidsInto(r, 0, b.AddChild)
	})
	reg("dinf", func(t *rapid.T, d int) boxR { return boxR{K: []boxR{genBox(t, "dref", d+1)}} },
		func(r *boxR) (mp4.Box, error) {
			b := &mp4.DinfBox{}
			return b, kidsInto(r, 0, b.AddChild)
		})
	reg("trex", func(t *rapid.T, _ int) boxR {
		return boxR{N: []int64{gU32(t, "track"), gU32(t, "sdi"), gU32(t, "dur"), gU32(t, "size"), gU32(t, "flags")}}
	}, func(r *boxR) (mp4.Box, error) {
		x := mp4.CreateTrex(u32(r.n(0)))
		x.DefaultSampleDescriptionIndex, x.DefaultSampleDuration, x.DefaultSampleSize, x.DefaultSampleFlags = u32(r.n(1)), u32(r.n(2)), u32(r.n(3)), u32(r.n(4))
		return x, nil
	})
	reg("mvex", func(t *rapid.T, d int) boxR {
		return boxR{K: genSome(t, "mvexKid", d+1, 4, "mehd", "trex", "trex", "leva")}
	},
		func(r *boxR) (mp4.Box, error) {
			b := mp4.NewMvexBox()
			return b, kidsInto(r, 0, b.AddChild)
		})
	// ---- sample table
	reg("stts", func(t *rapid.T, _ int) boxR {
		n := tableN(t, "n", 4)
		r := boxR{N: []int64{int64(n)}}
		for i := 0; i < n; i++ {
			r.N = append(r.N, gU32(t, "count"), gU32(t, "delta"))
		}
		return r
	}, func(r *boxR) (mp4.Box, error) {
		b := &mp4.SttsBox{}
		for i := 0; i < int(r.n(0)); i++ {
			b.SampleCount = append(b.SampleCount, u32(r.n(1+2*i)))
			b.SampleTimeDelta = append(b.SampleTimeDelta, u32(r.n(2+2*i)))
		}
		return b, nil
	})
	reg("ctts", func(t *rapid.T, _ int) boxR {
		n := tableN(t, "n", 4)
		r := boxR{N: []int64{gBit(t, "version"), int64(n)}}
		for i := 0; i < n; i++ {
			r.N = append(r.N, int64(rapid.Uint32Range(0, 1000).Draw(t, "count")), gI32(t, "offset"))
		}
		return r
	}, func(r *boxR) (mp4.Box, error) {
		b := &mp4.CttsBox{Version: u8(r.n(0))}
		for i := 0; i < int(r.n(1)); i++ { // one call per entry and one with none
			if err := b.AddSampleCountsAndOffset([]uint32{u32(r.n(2 + 2*i))}, []int32{int32(r.n(3 + 2*i))}); err != nil {
				return nil, reject("AddSampleCountsAndOffset: %v", err)
			}
		}
		return b, nil
	})
	reg("stsc", func(t *rapid.T, _ int) boxR {
		n := tableN(t, "n", 4)
		r := boxR{N: []int64{int64(n)}}
		chunk := int64(1)
		for i := 0; i < n; i++ {
			r.N = append(r.N, chunk, int64(rapid.Uint32Range(1, 50).Draw(t, "perChunk")), int64(rapid.IntRange(1, 3).Draw(t, "sdid")))
			chunk += int64(rapid.IntRange(1, 5).Draw(t, "step"))
		}
		return r
	}, func(r *boxR) (mp4.Box, error) {
		b := &mp4.StscBox{}
		for i := 0; i < int(r.n(0)); i++ {
			if err := b.AddEntry(u32(r.n(1+3*i)), u32(r.n(2+3*i)), u32(r.n(3+3*i))); err != nil {
				return nil, reject("StscBox.AddEntry: %v", err)
			}
		}
		return b, nil
	})
	reg("stsz", func(t *rapid.T, _ int) boxR {
		if rapid.Bool().Draw(t, "uniform") {
			// sample_size 0 means "sizes are in the table": a uniform size is at least 1
			return boxR{N: []int64{1, int64(rapid.OneOf(rapid.Uint32Range(1, 5000), rapid.SampledFrom([]uint32{1, 0xffffffff})).Draw(t, "size")), gU32(t, "number")}}
		}
		n := rapid.IntRange(0, 6).Draw(t, "n")
		r := boxR{N: []int64{0, int64(n)}}
		for i := 0; i < n; i++ {
			r.N = append(r.N, gU32(t, "size"))
		}
		return r
	}, func(r *boxR) (mp4.Box, error) {
		if r.n(0) == 1 {
			return &mp4.StszBox{SampleUniformSize: u32(r.n(1)), SampleNumber: u32(r.n(2))}, nil
		}
		b := &mp4.StszBox{SampleNumber: u32(r.n(1))}
		for i := 0; i < int(r.n(1)); i++ {
			b.SampleSize = append(b.SampleSize, u32(r.n(2+i)))
		}
		return b, nil
	})
	listBox := func(gen64 bool, mk func(vals []int64) mp4.Box) (func(t *rapid.T, _ int) boxR, func(r *boxR) (mp4.Box, error)) {
		return func(t *rapid.T, _ int) boxR {
				n := rapid.IntRange(0, 5).Draw(t, "n")
				r := boxR{}
				for i := 0; i < n; i++ {
					if gen64 {
						r.N = append(r.N, gU64(t, "v"))
					} else {
						r.N = append(r.N, gU32(t, "v"))
					}
				}
				return r
			}, func(r *boxR) (mp4.Box, error) {
				return mk(r.N), nil
			}
	}
	g, b = listBox(false, func(v []int64) mp4.Box {
		x := &mp4.StcoBox{}
		for _, e := range v {
			x.ChunkOffset = append(x.ChunkOffset, u32(e))
		}
		return x
	})
	reg("stco", g, b)
	g, b = listBox(true, func(v []int64) mp4.Box {
		x := &mp4.Co64Box{}
		for _, e := range v {
			x.ChunkOffset = append(x.ChunkOffset, uint64(e))
		}
		return x
	})
	reg("co64", g, b)
	g, b = listBox(false, func(v []int64) mp4.Box {
		x := &mp4.StssBox{}
		for _, e := range v {
			x.SampleNumber = append(x.SampleNumber, u32(e))
		}
		return x
	})
	reg("stss", g, b)
	reg("sdtp", func(t *rapid.T, _ int) boxR {
		n := rapid.IntRange(0, 6).Draw(t, "n")
		r := boxR{}
		for i := 0; i < 4*n; i++ {
			r.N = append(r.N, int64(rapid.IntRange(0, 3).Draw(t, "v")))
		}
		return r
	}, func(r *boxR) (mp4.Box, error) {
		var es []mp4.SdtpEntry
		for i := 0; i+3 < len(r.N); i += 4 {
			es = append(es, mp4.NewSdtpEntry(u8(r.N[i]), u8(r.N[i+1]), u8(r.N[i+2]), u8(r.N[i+3])))
		}
		return mp4.CreateSdtpBox(es), nil
	})
	// ---- mdat
	reg("mdat", func(t *rapid.T, _ int) boxR {
		r := boxR{N: []int64{gBit(t, "large"), int64(rapid.IntRange(0, 2).Draw(t, "mode"))}}
		for i, n := 0, rapid.IntRange(0, 3).Draw(t, "n"); i < n; i++ {
			r.B = append(r.B, gData(t, "data", 50))
		}
		return r
	}, func(r *boxR) (mp4.Box, error) {
		m := &mp4.MdatBox{LargeSize: r.n(0) == 1}
		for i := range r.B {
			switch r.n(1) {
			case 0:
				m.AddSampleData(r.b(i))
			case 1:
				m.SetData(r.b(i))
			default:
				m.AddSampleDataPart(r.b(i))
			}
		}
		return m, nil
	})
	// ---- codec configuration and sample entries
	reg("avcC", func(t *rapid.T, _ int) boxR {
		ps := genAVCSets(t)
		return boxR{N: []int64{gBit(t, "includePS"), int64(len(ps.SPS))}, B: append(append([]harness.HexBytes{}, ps.SPS...), ps.PPS...)}
	}, func(r *boxR) (mp4.Box, error) {
		n := int(r.n(1))
		if n > len(r.B) {
			return nil, reject("avcC recipe: %d SPS of %d NAL units", n, len(r.B))
		}
		a, err := mp4.CreateAvcC(hexes(r.B[:n]), hexes(r.B[n:]), r.n(0) == 1)
		if err != nil {
			return nil, reject("CreateAvcC: %v", err)
		}
		return a, nil
	})
	reg("hvcC", func(t *rapid.T, _ int) boxR {
		ps := genHEVCSets(t, false)
		return boxR{N: []int64{gBit(t, "includePS"), gBit(t, "complete"), int64(len(ps.VPS)), int64(len(ps.SPS))},
			B: append(append(append([]harness.HexBytes{}, ps.VPS...), ps.SPS...), ps.PPS...)}
	}, func(r *boxR) (mp4.Box, error) {
		nv, ns := int(r.n(2)), int(r.n(3))
		if nv+ns > len(r.B) {
			return nil, reject("hvcC recipe inconsistent")
		}
		c := r.n(1) == 1
		h, err := mp4.CreateHvcC(hexes(r.B[:nv]), hexes(r.B[nv:nv+ns]), hexes(r.B[nv+ns:]), c, c, c, r.n(0) == 1)
		if err != nil {
			return nil, reject("CreateHvcC: %v", err)
		}
		return h, nil
	})
	reg("esds", func(t *rapid.T, _ int) boxR {
		return boxR{B: []harness.HexBytes{rapid.OneOf(rapid.SampledFrom([]harness.HexBytes{{0x11, 0x90}, {0x12, 0x10}, {0x13, 0x10, 0x56, 0xe5, 0x98}}),
			rapid.Map(rapid.SliceOfN(rapid.Byte(), 0, 100), func(b []byte) harness.HexBytes { return b }),
			// decoder specific infos around the lengths at which the size field of a descriptor needs a second and a
			// third 7-bit group (the info itself at 128; the decoder config descriptor around it 15 bytes earlier, the ES
			// descriptor another 8 or so; 16384 for the third group)
			rapid.Custom(func(t *rapid.T) harness.HexBytes {
				n := rapid.SampledFrom([]int{100, 104, 105, 106, 110, 111, 112, 113, 114, 126, 127, 128, 129, 130, 255, 256, 300, 16360, 16383, 16384, 16400}).Draw(t, "dsiLen")
				b := make([]byte, n)
				x := rapid.Byte().Draw(t, "dsiFill")
				for i := range b {
					b[i] = x + byte(i*7)
				}
				return b
			})).Draw(t, "decConfig")}}
	}, func(r *boxR) (mp4.Box, error) { return mp4.CreateEsdsBox(r.b(0)), nil })
	reg("dac3", func(t *rapid.T, _ int) boxR {
		return boxR{N: []int64{int64(rapid.IntRange(0, 3).Draw(t, "fscod")), int64(rapid.IntRange(0, 31).Draw(t, "bsid")), int64(rapid.IntRange(0, 7).Draw(t, "bsmod")),
			int64(rapid.IntRange(0, 7).Draw(t, "acmod")), gBit(t, "lfe"), int64(rapid.IntRange(0, 31).Draw(t, "brc"))}}
	}, func(r *boxR) (mp4.Box, error) {
		return &mp4.Dac3Box{FSCod: u8(r.n(0)), BSID: u8(r.n(1)), BSMod: u8(r.n(2)), ACMod: u8(r.n(3)), LFEOn: u8(r.n(4)), BitRateCode: u8(r.n(5))}, nil
	})
	reg("dec3", func(t *rapid.T, _ int) boxR {
		n := rapid.IntRange(1, 4).Draw(t, "n")
		r := boxR{N: []int64{int64(rapid.IntRange(0, 8191).Draw(t, "dataRate")), int64(n)}, B: []harness.HexBytes{gData(t, "reserved", 3)}}
		for i := 0; i < n; i++ {
			r.N = append(r.N, int64(rapid.IntRange(0, 3).Draw(t, "fscod")), int64(rapid.IntRange(0, 31).Draw(t, "bsid")), int64(rapid.IntRange(0, 7).Draw(t, "acmod")),
				int64(rapid.SampledFrom([]int{0, 0, 1, 15}).Draw(t, "numDep")), int64(rapid.IntRange(0, 511).Draw(t, "chanLoc")))
		}
		return r
	}, func(r *boxR) (mp4.Box, error) {
		n := int(r.n(1))
		d := &mp4.Dec3Box{DataRate: u16(r.n(0)), NumIndSub: uint16(n - 1), Reserved: r.b(0)}
		for i := 0; i < n; i++ {
			o := 2 + 5*i
			d.EC3Subs = append(d.EC3Subs, mp4.EC3Sub{FSCod: u8(r.n(o)), BSID: u8(r.n(o + 1)), ACMod: u8(r.n(o + 2)), NumDepSub: u8(r.n(o + 3)), ChanLoc: u16(r.n(o + 4))})
		}
		return d, nil
	})
	reg("audioentry", func(t *rapid.T, d int) boxR {
		r := boxR{S: []string{rapid.SampledFrom([]string{"mp4a", "ac-3", "ec-3", "enca"}).Draw(t, "name")}, N: []int64{gBit(t, "ctor"), gU16(t, "channels"), gU16(t, "sampleSize"), gU16(t, "rate")}}
		r.K = genSome(t, "audioKid", d+1, 3, "esds", "dac3", "dec3", "btrt")
		return r
	}, func(r *boxR) (mp4.Box, error) {
		var a *mp4.AudioSampleEntryBox
		from := 0
		if r.n(0) == 0 {
			a = mp4.NewAudioSampleEntryBox(r.s(0))
		} else {
			var child mp4.Box
			if len(r.K) > 0 {
				var err error
				if child, err = buildBox(&r.K[0]); err != nil {
					return nil, err
				}
				from = 1
			}
			a = mp4.CreateAudioSampleEntryBox(r.s(0), u16(r.n(1)), u16(r.n(2)), u16(r.n(3)), child)
		}
		return a, kidsInto(r, from, a.AddChild)
	})
	reg("visualentry", func(t *rapid.T, d int) boxR {
		r := boxR{S: []string{rapid.SampledFrom([]string{"avc1", "avc3", "hvc1", "hev1", "encv"}).Draw(t, "name"), genText(t, "compressor", 15)},
			N: []int64{gBit(t, "ctor"), gU16(t, "w"), gU16(t, "h"), gBit(t, "setCompressor")}}
		r.K = genSome(t, "visualKid", d+1, 4, "avcC", "hvcC", "btrt", "pasp", "clap", "colr", "coll", "smdm")
		return r
	}, func(r *boxR) (mp4.Box, error) {
		var v *mp4.VisualSampleEntryBox
		from := 0
		if r.n(0) == 0 {
			v = mp4.NewVisualSampleEntryBox(r.s(0))
		} else {
			var child mp4.Box
			if len(r.K) > 0 {
				var err error
				if child, err = buildBox(&r.K[0]); err != nil {
					return nil, err
				}
				from = 1
			}
			v = mp4.CreateVisualSampleEntryBox(r.s(0), u16(r.n(1)), u16(r.n(2)), child)
		}
		if r.n(3) == 1 && len(r.s(1)) <= 31 {
			v.CompressorName = r.s(1)
		}
		return v, kidsInto(r, from, v.AddChild)
	})
	reg("stpp", func(t *rapid.T, d int) boxR {
		return boxR{S: []string{rapid.SampledFrom([]string{"http://www.w3.org/ns/ttml", "urn:x", ""}).Draw(t, "ns"), genText(t, "schema", 12), genText(t, "aux", 12)},
			K: genSome(t, "stppKid", d+1, 2, "btrt")}
	}, func(r *boxR) (mp4.Box, error) {
		b := mp4.NewStppBox(r.s(0), r.s(1), r.s(2))
		return b, kidsInto(r, 0, b.AddChild)
	})
	reg("vttC", func(t *rapid.T, _ int) boxR { return boxR{S: []string{"WEBVTT" + genText(t, "tail", 12)}} },
		func(r *boxR) (mp4.Box, error) { return &mp4.VttCBox{Config: r.s(0)}, nil })
	reg("vlab", func(t *rapid.T, _ int) boxR { return boxR{S: []string{genText(t, "label", 12)}} },
		func(r *boxR) (mp4.Box, error) { return &mp4.VlabBox{SourceLabel: r.s(0)}, nil })
	reg("wvtt", func(t *rapid.T, d int) boxR { return boxR{K: genSome(t, "wvttKid", d+1, 3, "vttC", "vlab", "btrt")} },
		func(r *boxR) (mp4.Box, error) {
			b := mp4.NewWvttBox()
			return b, kidsInto(r, 0, b.AddChild)
		})
	reg("vtte", func(t *rapid.T, _ int) boxR { return boxR{} }, func(r *boxR) (mp4.Box, error) { return &mp4.VtteBox{}, nil })
	reg("vtta", func(t *rapid.T, _ int) boxR { return boxR{S: []string{genText(t, "text", 20)}} },
		func(r *boxR) (mp4.Box, error) { return &mp4.VttaBox{CueAdditionalText: r.s(0)}, nil })
	reg("vsid", func(t *rapid.T, _ int) boxR { return boxR{N: []int64{gU32(t, "id")}} },
		func(r *boxR) (mp4.Box, error) { return &mp4.VsidBox{SourceID: u32(r.n(0))}, nil })
	reg("iden", func(t *rapid.T, _ int) boxR { return boxR{S: []string{genText(t, "id", 10)}} },
		func(r *boxR) (mp4.Box, error) { return &mp4.IdenBox{CueID: r.s(0)}, nil })
	reg("ctim", func(t *rapid.T, _ int) boxR { return boxR{S: []string{"00:00:0" + genText(t, "t", 5)}} },
		func(r *boxR) (mp4.Box, error) { return &mp4.CtimBox{CueCurrentTime: r.s(0)}, nil })
	reg("sttg", func(t *rapid.T, _ int) boxR { return boxR{S: []string{genText(t, "settings", 15)}} },
		func(r *boxR) (mp4.Box, error) { return &mp4.SttgBox{Settings: r.s(0)}, nil })
	reg("payl", func(t *rapid.T, _ int) boxR { return boxR{S: []string{genText(t, "cue", 30)}} },
		func(r *boxR) (mp4.Box, error) { return &mp4.PaylBox{CueText: r.s(0)}, nil })
	reg("vttc", func(t *rapid.T, d int) boxR {
		return boxR{K: genSome(t, "cueKid", d+1, 5, "vsid", "iden", "ctim", "sttg", "payl")}
	},
		func(r *boxR) (mp4.Box, error) {
			b := &mp4.VttcBox{}
			return b, kidsInto(r, 0, b.AddChild)
		})
	reg("stsd", func(t *rapid.T, d int) boxR {
		return boxR{K: genSome(t, "entry", d+1, 2, "audioentry", "visualentry", "stpp", "wvtt")}
	},
		func(r *boxR) (mp4.Box, error) {
			b := mp4.NewStsdBox()
			return b, kidsInto(r, 0, b.AddChild)
		})
	// ---- containers from their constructors
	reg("meta", func(t *rapid.T, d int) boxR {
		r := boxR{N: []int64{gBit(t, "version")}, K: []boxR{genBox(t, "hdlr", d+1)}}
		r.K = append(r.K, genSome(t, "metaKid", d+1, 2, "free", "unknown")...)
		return r
	}, func(r *boxR) (mp4.Box, error) {
		if len(r.K) == 0 {
			return nil, fmt.Errorf("meta recipe without hdlr")
		}
		hb, err := buildBox(&r.K[0])
		if err != nil {
			return nil, err
		}
		h, ok := hb.(*mp4.HdlrBox)
		if !ok {
			return nil, fmt.Errorf("meta recipe: first child is a %T", hb)
		}
		m := mp4.CreateMetaBox(u8(r.n(0)), h)
		return m, kidsInto(r, 1, m.AddChild)
	})
	reg("generic", func(t *rapid.T, d int) boxR {
		return boxR{N: []int64{int64(rapid.IntRange(0, len(genericNames)-1).Draw(t, "name"))}, K: genSome(t, "genericKid", d+1, 3, "free", "unknown", "skip")}
	}, func(r *boxR) (mp4.Box, error) {
		b := mp4.NewGenericContainerBox(genericNames[int(r.n(0))%len(genericNames)])
		return b, kidsInto(r, 0, b.AddChild)
	})
	reg("stbl", func(t *rapid.T, d int) boxR {
		r := boxR{K: []boxR{genBox(t, "stsd", d+1), genBox(t, "stts", d+1)}}
		r.K = append(r.K, genSome(t, "stblKid", d+1, 6, "ctts", "stsc", "stsz", "stco", "co64", "stss", "sdtp", "sbgp", "sgpd", "subs", "saiz", "saio")...)
		return r
	}, func(r *boxR) (mp4.Box, error) {
		b := mp4.NewStblBox()
		return b, kidsInto(r, 0, b.AddChild)
	})
	reg("minf", func(t *rapid.T, d int) boxR {
		r := boxR{K: []boxR{genOneOf(t, "mediaHeader", d+1, "vmhd", "smhd", "sthd", "nmhd")}}
		if rapid.Bool().Draw(t, "dinf") {
			r.K = append(r.K, genBox(t, "dinf", d+1))
		}
		r.K = append(r.K, genBox(t, "stbl", d+1))
		return r
	}, func(r *boxR) (mp4.Box, error) {
		b := mp4.NewMinfBox()
		return b, kidsInto(r, 0, b.AddChild)
	})
	reg("mdia", func(t *rapid.T, d int) boxR {
		r := boxR{K: []boxR{genBox(t, "mdhd", d+1), genBox(t, "hdlr", d+1)}}
		if rapid.Bool().Draw(t, "elng") {
			r.K = append(r.K, genBox(t, "elng", d+1))
		}
		r.K = append(r.K, genBox(t, "minf", d+1))
		return r
	}, func(r *boxR) (mp4.Box, error) {
		b := mp4.NewMdiaBox()
		return b, kidsInto(r, 0, b.AddChild)
	})
	reg("trak", func(t *rapid.T, d int) boxR {
		r := boxR{K: []boxR{genBox(t, "tkhd", d+1)}}
		if rapid.Bool().Draw(t, "edts") {
			r.K = append(r.K, genBox(t, "edts", d+1))
		}
		r.K = append(r.K, genBox(t, "mdia", d+1))
		r.K = append(r.K, genSome(t, "trakKid", d+1, 1, "udta", "free")...)
		return r
	}, func(r *boxR) (mp4.Box, error) {
		b := mp4.NewTrakBox()
		return b, kidsInto(r, 0, b.AddChild)
	})
	reg("trak-empty", func(t *rapid.T, _ int) boxR {
		return boxR{N: []int64{gU32(t, "track"), gU32(t, "timescale")},
			S: []string{rapid.SampledFrom([]string{"video", "audio", "subtitle", "text", "meta", "clcp", "vide", "soun", "subt", "wvtt", "stpp"}).Draw(t, "media"),
				rapid.SampledFrom([]string{"und", "eng", "sv", "en-US"}).Draw(t, "lang")}}
	}, func(r *boxR) (mp4.Box, error) {
		return mp4.CreateEmptyTrak(u32(r.n(0)), u32(r.n(1)), r.s(0), r.s(1)), nil
	})
	reg("moov", func(t *rapid.T, d int) boxR {
		r := boxR{K: []boxR{genBox(t, "mvhd", d+1)}}
		for i, n := 0, rapid.IntRange(1, 2).Draw(t, "nTrak"); i < n; i++ {
			r.K = append(r.K, genOneOf(t, "trakKind", d+1, "trak", "trak", "trak-empty"))
		}
		r.K = append(r.K, genSome(t, "moovKid", d+1, 2, "udta", "pssh", "meta", "free", "mvex")...)
		return r
	}, func(r *boxR) (mp4.Box, error) {
		b := mp4.NewMoovBox()
		return b, kidsInto(r, 0, b.AddChild)
	})
	reg("traf", func(t *rapid.T, d int) boxR {
		r := boxR{K: []boxR{genBox(t, "tfhd", d+1)}}
		if rapid.Bool().Draw(t, "tfdt") {
			r.K = append(r.K, genBox(t, "tfdt", d+1))
		}
		r.K = append(r.K, genSome(t, "trafKid", d+1, 4, "trun", "trun", "sbgp", "sgpd", "subs", "saiz", "saio", "senc", "tfrf", "tfxd", "uuidre")...)
		return r
	}, func(r *boxR) (mp4.Box, error) {
		b := &mp4.TrafBox{}
		return b, addKids(r.K, b.AddChild)
	})
	reg("moof", func(t *rapid.T, d int) boxR {
		r := boxR{K: []boxR{genBox(t, "mfhd", d+1)}}
		for i, n := 0, rapid.IntRange(0, 2).Draw(t, "nTraf"); i < n; i++ {
			r.K = append(r.K, genBox(t, "traf", d+1))
		}
		r.K = append(r.K, genSome(t, "moofKid", d+1, 1, "pssh")...)
		return r
	}, func(r *boxR) (mp4.Box, error) {
		b := &mp4.MoofBox{}
		return b, addKids(r.K, b.AddChild)
	})
}
