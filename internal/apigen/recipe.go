// Package apigen builds mp4ff structures THROUGH THE PUBLIC API from plain-JSON recipes (shared by the "api" legs of
// C02 and C03).
//
// A case is a recipe: which constructors and Add... calls to make with which arguments, whether trun optimisation is
// switched on, and (for C02) a history of 1..8 operations. Build turns the recipe into a library structure (init
// segment, fragment, media segment, fragmented or progressive file, or a single box); building is a pure function of
// the recipe, so every call gives a fresh structure. Gen draws recipes; all randomness comes from rapid draws.
package apigen

import (
	"bytes"
	"fmt"
	"io"
	"reflect"

	"github.com/Eyevinn/mp4ff/bits"
	"github.com/Eyevinn/mp4ff/mp4"

	"verif/internal/harness"
)

// AvoidKnown: one switch per library behaviour that contradicts C02/C03 on the unchanged tree for API-built
// structures. While a switch is on, the generator steers away from the triggering shape or the oracle skips exactly
// the relation concerned; each such event is counted with harness.Rec.Exclude(name). A case carrying
// "noAvoid": true ignores the switches (reproducers).
var AvoidKnown = map[string]bool{
	// File.Size() sums File.Children, but a media segment handed to File.AddMediaSegment is not in Children, while
	// File.Encode/EncodeSW (segment mode) write it: Size() is smaller than the bytes written and EncodeSW into
	// Size() bytes overflows. Oracle: for such files the sum of the Size() of the boxes that segment-mode encoding
	// writes (init + sidx + segments + mfra) stands in for File.Size().
	"file-size-ignores-addmediasegment": false, // repaired in /repo (bc17f9b)
	// In segment mode File.Encode writes only init segment, top-level sidx boxes, media segments and mfra; every other
	// box that File.AddChild accepted (free/skip/unknown boxes between or after the segments or after the moov box)
	// is counted by File.Size() but not written (documented for EncModeSegment, yet Size() != bytes written).
	// Oracle: same replacement as above.
	"file-size-counts-boxes-segment-mode-omits": false, // repaired in /repo (bc17f9b)
}

// ---------------------------------------------------------------------------------------------
// the case (recipe)

// boxR is the recipe of one box: builder name + argument bags (meaning per builder, see boxKinds) + children.
type boxR struct {
	T string             `json:"t"`
	N []int64            `json:"n,omitempty"`
	S []string           `json:"s,omitempty"`
	B []harness.HexBytes `json:"b,omitempty"`
	K []boxR             `json:"k,omitempty"`
}

func (r *boxR) n(i int) int64 {
	if i < len(r.N) {
		return r.N[i]
	}
	return 0
}
func (r *boxR) s(i int) string {
	if i < len(r.S) {
		return r.S[i]
	}
	return ""
}
func (r *boxR) b(i int) []byte {
	if i < len(r.B) {
		return append([]byte{}, r.B[i]...)
	}
	return nil
}

type dac3R struct{ FSCod, BSID, BSMod, ACMod, LFEOn, BitRateCode byte }
type ec3SubR struct {
	FSCod, BSID, ASVC, BSMod, ACMod, LFEOn, NumDepSub byte
	ChanLoc                                           uint16
}
type dec3R struct {
	DataRate uint16    `json:"dataRate"`
	Subs     []ec3SubR `json:"subs"`
}

// trackR: one AddEmptyTrack call + the Set*Descriptor call named by Codec + optional decorations.
type trackR struct {
	Timescale uint32 `json:"timescale"`
	Media     string `json:"media"`
	Lang      string `json:"lang"`
	Codec     string `json:"codec"` // avc | hevc | aac | ac3 | ec3 | wvtt | stpp | none
	Entry     string `json:"entry,omitempty"`
	IncludePS bool   `json:"includePS,omitempty"`
	PS        *psSet `json:"ps,omitempty"`
	AACObj    byte   `json:"aacObj,omitempty"`
	AACFreq   int    `json:"aacFreq,omitempty"`
	Dac3      *dac3R `json:"dac3,omitempty"`
	Dec3      *dec3R `json:"dec3,omitempty"`
	Vtt       string `json:"vtt,omitempty"`
	StppNS    string `json:"stppNS,omitempty"`
	StppSch   string `json:"stppSch,omitempty"`
	StppAux   string `json:"stppAux,omitempty"`
	// decorations
	EntryKids []boxR `json:"entryKids,omitempty"` // AddChild on the sample entry (btrt, pasp, colr, clap, ...)
	Edts      *boxR  `json:"edts,omitempty"`      // trak.AddChild(edts with elst)
	TrakKids  []boxR `json:"trakKids,omitempty"`  // trak.AddChild (udta, ...)
	StblKids  []boxR `json:"stblKids,omitempty"`  // stbl.AddChild (sgpd, sbgp, ...)
	V1        int    `json:"v1,omitempty"`        // bit 0: tkhd.Version=1, bit 1: mdhd.Version=1
	// fields of the trex box
	TrexDur, TrexSize, TrexFlags uint32
}

type protectR struct {
	Scheme string `json:"scheme"` // cenc | cbcs
	IVLen  int    `json:"ivLen"`  // 8 | 16
	Pssh   []boxR `json:"pssh,omitempty"`
}

type initR struct {
	Tracks   []trackR  `json:"tracks"`
	Brands   []string  `json:"brands,omitempty"`   // init.Ftyp.AddCompatibleBrands
	MoovKids []boxR    `json:"moovKids,omitempty"` // moov.AddChild (pssh, udta, meta, free)
	MvexKids []boxR    `json:"mvexKids,omitempty"` // mvex.AddChild (mehd, leva)
	TopKids  []boxR    `json:"topKids,omitempty"`  // init.AddChild (free, ...)
	MvhdV1   bool      `json:"mvhdV1,omitempty"`
	Protect  *protectR `json:"protect,omitempty"`
	Tweak    bool      `json:"tweak,omitempty"`  // InitSegment.TweakSingleTrakLive (drops the mehd box)
	Manual   []boxR    `json:"manual,omitempty"` // instead of all the above: NewMP4Init + AddChild of these boxes
}

type sampleR struct {
	Track int    `json:"track"` // index into fragR.Tracks
	Size  int    `json:"size"`
	Seed  byte   `json:"seed"`
	Dur   uint32 `json:"dur"`
	Flags uint32 `json:"flags"`
	Cto   int32  `json:"cto"`
	Time  uint64 `json:"time"`           // decode time handed to the Add... call
	Nalu  string `json:"nalu,omitempty"` // "avc" | "hevc": the data is one NAL unit with a 4-byte length field
}

// fragR: one fragment.
//
//	Ctor: "single" CreateFragment | "multi" CreateMultiTrackFragment | "manual" NewFragment + AddChild of
//	      prft/emsg/moof(mfhd, traf(tfhd, tfdt))/mdat built from the box constructors
//	Mode: full (AddFullSample; single) | fullTrack (AddFullSampleToTrack) | meta (AddSample + Mdat.SetData; single)
//	      | metaMany (AddSamples + Mdat.SetData; single) | metaTrack (AddSampleToTrack + Mdat.SetData)
//	      | interval (AddSampleInterval, data as mdat parts; single)
type fragR struct {
	Ctor   string   `json:"ctor"`
	Seq    uint32   `json:"seq"`
	Tracks []uint32 `json:"tracks"` // track ids
	Mode   string   `json:"mode"`
	// MetaData (meta, metaMany, metaTrack): "" = the data is handed over with Mdat.SetData (which ends the lazy mode of
	// the mdat box); "add" = with Mdat.AddSampleData per sample: the box then has a lazy size (from AddSample...) AND
	// its data in memory, of the same length
	MetaData  string    `json:"metaData,omitempty"`
	Samples   []sampleR `json:"samples,omitempty"`
	Pre       []boxR    `json:"pre,omitempty"`       // manual: AddChild before the moof (prft, emsg)
	Emsgs     []boxR    `json:"emsgs,omitempty"`     // Fragment.AddEmsg
	Post      []boxR    `json:"post,omitempty"`      // Fragment.AddChild after the mdat
	MoofKids  []boxR    `json:"moofKids,omitempty"`  // moof.AddChild (pssh)
	TrafKids  [][]boxR  `json:"trafKids,omitempty"`  // per traf: AddChild (sbgp, sgpd, subs, saiz, saio, senc, tfrf...)
	Tfhd      [][]int64 `json:"tfhd,omitempty"`      // per traf: flags to OR, baseDataOffset, sampleDescriptionIndex, defDur, defSize, defFlags
	Encrypt   bool      `json:"encrypt,omitempty"`   // mp4.EncryptFragment with the protection data of the init recipe
	LargeMdat bool      `json:"largeMdat,omitempty"` // Mdat.LargeSize = true
}

type segR struct {
	Styp    *boxR   `json:"styp,omitempty"` // nil: NewMediaSegmentWithoutStyp; T "styp-default": NewMediaSegment; else NewMediaSegmentWithStyp
	Sidxs   []boxR  `json:"sidxs,omitempty"`
	SidxVia string  `json:"sidxVia,omitempty"` // "" AddSidx | "fields" Sidx and Sidxs assigned | "sidx-only" only the Sidx field assigned
	Frags   []fragR `json:"frags"`
}

// fileR: fragmented file. Via: "addchild" (every box through File.AddChild, the way the decoder and
// examples/resegmenter do) | "addsegment" (ftyp+moov through AddChild, segments through AddMediaSegment).
type fileR struct {
	Via     string `json:"via"`
	BoxTree bool   `json:"boxTree,omitempty"` // FragEncMode = EncModeBoxTree
	Sidxs   []boxR `json:"sidxs,omitempty"`   // top-level sidx boxes before the first segment
	Mfra    *boxR  `json:"mfra,omitempty"`
	Tail    []boxR `json:"tail,omitempty"` // boxes added after the last segment (free, skip, unknown)
	// UpdateSidx: 0 no call, 1 File.UpdateSidx(true, false), 2 File.UpdateSidx(true, true) after everything was added
	UpdateSidx int `json:"updateSidx,omitempty"`
}

// progR: progressive file = ftyp + moov (from the box constructors) + mdat, order and extras free.
type progR struct {
	Boxes []boxR `json:"boxes"`
}

type Case struct {
	Kind string `json:"kind"` // init | fragment | segment | file-frag | file-prog | box
	Init *initR `json:"init,omitempty"`
	Segs []segR `json:"segs,omitempty"`
	File *fileR `json:"file,omitempty"`
	Prog *progR `json:"prog,omitempty"`
	Box  *boxR  `json:"box,omitempty"`
	// Box2 (kind box, optional): a second recipe of the same box kind. The box built from Box is used (Size, Info,
	// Encode, EncodeSW), then the public fields of a box built from Box2 are assigned to it; a second box built from
	// Box that was never used gets the same assignment. Both must then have the same Size() and encode to the same
	// bytes: having been used must not matter (see ReuseAfterUse).
	Box2    *boxR    `json:"box2,omitempty"`
	Decrypt bool     `json:"decrypt,omitempty"` // fragment/segment with a protected init: DecryptInit + DecryptFragment on every encrypted fragment
	Opt     bool     `json:"opt,omitempty"`     // EncOptimize = OptimizeTrun, set once before the history
	Hist    []string `json:"hist"`              // size | info | info-all | info-trun | enc | sw | swbig
	NoAvoid bool     `json:"noAvoid,omitempty"`
}

// Stats: what building (and, for the caller, judging) one case showed.
type Stats struct {
	Skipped  map[string]int64 // relations skipped behind a known-defect switch
	Classes  map[string]bool  // evidence classes
	NBoxes   int
	Rejected string
}

func (st *Stats) Class(name string) {
	if st.Classes == nil {
		st.Classes = map[string]bool{}
	}
	st.Classes[name] = true
}

// avoid reports whether the relation guarded by the named known-defect switch is to be skipped.
func (c *Case) avoid(st *Stats, name string) bool {
	if c.NoAvoid || !AvoidKnown[name] {
		return false
	}
	if st.Skipped == nil {
		st.Skipped = map[string]int64{}
	}
	st.Skipped[name]++
	return true
}

func avoidGen(name string, hit bool) bool {
	if hit && AvoidKnown[name] {
		harness.Rec.Exclude(name)
		return true
	}
	return false
}

// ---------------------------------------------------------------------------------------------
// the structure under test

// Target is the structure under test: one library structure built from a recipe, seen through what C02 and C03 need.
type Target struct {
	What   string
	Size   func() uint64
	Enc    func(io.Writer) error
	EncSW  func(bits.SliceWriter) error
	Info   func(io.Writer, string) error
	Top    func() []mp4.Box // the boxes an encoding writes, in order (read after the history)
	SetOpt func()           // switches OptimizeTrun on (nil for structures without that mode)
}

type RejectedError struct{ err error }

func (r RejectedError) Error() string { return r.err.Error() }

func reject(format string, a ...interface{}) error { return RejectedError{fmt.Errorf(format, a...)} }

func sampleBytes(s sampleR) []byte {
	d := make([]byte, s.Size)
	for i := range d {
		d[i] = s.Seed + byte(i*31) ^ byte(i>>8)
	}
	if s.Nalu != "" && s.Size >= 6 {
		// one NAL unit with a 4-byte length field; non-VCL (SEI) for seeds below 128, else a slice type
		d[0], d[1], d[2], d[3] = 0, 0, 0, byte(s.Size-4)
		switch {
		case s.Nalu == "avc" && s.Seed < 128:
			d[4] = 6
		case s.Nalu == "avc":
			d[4] = 1 + 4*(s.Seed&1)
		case s.Seed < 128:
			d[4], d[5] = 39<<1, 1
		default:
			d[4], d[5] = (1+18*(s.Seed&1))<<1, 1
		}
	}
	return d
}

var fixedKey = []byte{0, 1, 2, 3, 4, 5, 6, 7, 8, 9, 10, 11, 12, 13, 14, 15}
var fixedIV = []byte{0xf0, 0xf1, 0xf2, 0xf3, 0xf4, 0xf5, 0xf6, 0xf7, 0xf8, 0xf9, 0xfa, 0xfb, 0xfc, 0xfd, 0xfe, 0xff}

const fixedKID = "00112233445566778899aabbccddeeff"

func hexes(h []harness.HexBytes) [][]byte {
	var out [][]byte
	for _, b := range h {
		out = append(out, append([]byte{}, b...))
	}
	return out
}

// addKids builds the recipes and hands each box to add.
func addKids(kids []boxR, add func(mp4.Box) error) error {
	for i := range kids {
		b, err := buildBox(&kids[i])
		if err != nil {
			return err
		}
		if err := add(b); err != nil {
			return reject("AddChild(%s): %v", kids[i].T, err)
		}
	}
	return nil
}

func noErr(f func(mp4.Box)) func(mp4.Box) error {
	return func(b mp4.Box) error { f(b); return nil }
}

func buildInit(r *initR) (*mp4.InitSegment, *mp4.InitProtectData, error) {
	if len(r.Manual) > 0 {
		init := mp4.NewMP4Init()
		return init, nil, addKids(r.Manual, noErr(init.AddChild))
	}
	init := mp4.CreateEmptyInit()
	if len(r.Brands) > 0 {
		init.Ftyp.AddCompatibleBrands(r.Brands)
	}
	if r.MvhdV1 {
		init.Moov.Mvhd.Version = 1
	}
	for i := range r.Tracks {
		tr := &r.Tracks[i]
		init.AddEmptyTrack(tr.Timescale, tr.Media, tr.Lang)
		trak := init.Moov.Traks[i]
		var err error
		switch tr.Codec {
		case "avc":
			err = trak.SetAVCDescriptor(tr.Entry, hexes(tr.PS.SPS), hexes(tr.PS.PPS), tr.IncludePS)
		case "hevc":
			err = trak.SetHEVCDescriptor(tr.Entry, hexes(tr.PS.VPS), hexes(tr.PS.SPS), hexes(tr.PS.PPS), hexes(tr.PS.SEI), tr.IncludePS)
		case "aac":
			err = trak.SetAACDescriptor(tr.AACObj, tr.AACFreq)
		case "ac3":
			d := tr.Dac3
			err = trak.SetAC3Descriptor(&mp4.Dac3Box{FSCod: d.FSCod, BSID: d.BSID, BSMod: d.BSMod, ACMod: d.ACMod, LFEOn: d.LFEOn, BitRateCode: d.BitRateCode})
		case "ec3":
			b := &mp4.Dec3Box{DataRate: tr.Dec3.DataRate, NumIndSub: uint16(len(tr.Dec3.Subs) - 1)}
			for _, s := range tr.Dec3.Subs {
				b.EC3Subs = append(b.EC3Subs, mp4.EC3Sub{FSCod: s.FSCod, BSID: s.BSID, ASVC: s.ASVC, BSMod: s.BSMod, ACMod: s.ACMod, LFEOn: s.LFEOn, NumDepSub: s.NumDepSub, ChanLoc: s.ChanLoc})
			}
			err = trak.SetEC3Descriptor(b)
		case "wvtt":
			err = trak.SetWvttDescriptor(tr.Vtt)
		case "stpp":
			err = trak.SetStppDescriptor(tr.StppNS, tr.StppSch, tr.StppAux)
		}
		if err != nil {
			return nil, nil, reject("Set%sDescriptor: %v", tr.Codec, err)
		}
		if tr.V1&1 != 0 {
			trak.Tkhd.Version = 1
		}
		if tr.V1&2 != 0 {
			trak.Mdia.Mdhd.Version = 1
		}
		trex := init.Moov.Mvex.Trexs[i]
		trex.DefaultSampleDuration, trex.DefaultSampleSize, trex.DefaultSampleFlags = tr.TrexDur, tr.TrexSize, tr.TrexFlags
		stsd := trak.Mdia.Minf.Stbl.Stsd
		if len(tr.EntryKids) > 0 && len(stsd.Children) == 1 {
			switch se := stsd.Children[0].(type) {
			case *mp4.VisualSampleEntryBox:
				err = addKids(tr.EntryKids, noErr(se.AddChild))
			case *mp4.AudioSampleEntryBox:
				err = addKids(tr.EntryKids, noErr(se.AddChild))
			case *mp4.StppBox:
				err = addKids(tr.EntryKids, noErr(se.AddChild))
			case *mp4.WvttBox:
				err = addKids(tr.EntryKids, noErr(se.AddChild))
			}
			if err != nil {
				return nil, nil, err
			}
		}
		if tr.Edts != nil {
			if err := addKids([]boxR{*tr.Edts}, noErr(trak.AddChild)); err != nil {
				return nil, nil, err
			}
		}
		if err := addKids(tr.TrakKids, noErr(trak.AddChild)); err != nil {
			return nil, nil, err
		}
		if err := addKids(tr.StblKids, noErr(trak.Mdia.Minf.Stbl.AddChild)); err != nil {
			return nil, nil, err
		}
	}
	if err := addKids(r.MvexKids, noErr(init.Moov.Mvex.AddChild)); err != nil {
		return nil, nil, err
	}
	if err := addKids(r.MoovKids, noErr(init.Moov.AddChild)); err != nil {
		return nil, nil, err
	}
	if err := addKids(r.TopKids, noErr(init.AddChild)); err != nil {
		return nil, nil, err
	}
	if r.Tweak {
		if err := init.TweakSingleTrakLive(); err != nil {
			return nil, nil, reject("TweakSingleTrakLive: %v", err)
		}
	}
	var ipd *mp4.InitProtectData
	if p := r.Protect; p != nil {
		kid, err := mp4.NewUUIDFromString(fixedKID)
		if err != nil {
			return nil, nil, reject("NewUUIDFromString: %v", err)
		}
		var psshs []*mp4.PsshBox
		for i := range p.Pssh {
			b, err := buildBox(&p.Pssh[i])
			if err != nil {
				return nil, nil, err
			}
			ps, ok := b.(*mp4.PsshBox)
			if !ok {
				return nil, nil, reject("protect.pssh is a %T", b)
			}
			psshs = append(psshs, ps)
		}
		ipd, err = mp4.InitProtect(init, fixedKey, fixedIV[:p.IVLen], p.Scheme, kid, psshs)
		if err != nil {
			return nil, nil, reject("InitProtect: %v", err)
		}
	}
	return init, ipd, nil
}

func buildFrag(r *fragR, ipd *mp4.InitProtectData) (*mp4.Fragment, error) {
	if len(r.Tracks) == 0 {
		return nil, reject("fragment without tracks")
	}
	var frag *mp4.Fragment
	var err error
	switch r.Ctor {
	case "single":
		frag, err = mp4.CreateFragment(r.Seq, r.Tracks[0])
	case "multi":
		frag, err = mp4.CreateMultiTrackFragment(r.Seq, r.Tracks)
	case "manual":
		frag = mp4.NewFragment()
		if err := addKids(r.Pre, noErr(frag.AddChild)); err != nil {
			return nil, err
		}
		moof := &mp4.MoofBox{}
		_ = moof.AddChild(mp4.CreateMfhd(r.Seq))
		for _, id := range r.Tracks {
			traf := &mp4.TrafBox{}
			_ = moof.AddChild(traf)
			_ = traf.AddChild(mp4.CreateTfhd(id))
			_ = traf.AddChild(mp4.CreateTfdt(0))
		}
		frag.AddChild(moof)
		frag.AddChild(&mp4.MdatBox{})
	default:
		return nil, reject("unknown fragment constructor %q", r.Ctor)
	}
	if err != nil {
		return nil, reject("%s: %v", r.Ctor, err)
	}
	single := r.Ctor == "single"
	var all []byte
	switch r.Mode {
	case "full":
		if !single {
			return nil, reject("mode full needs CreateFragment")
		}
		for _, s := range r.Samples {
			frag.AddFullSample(mp4.FullSample{Sample: mp4.NewSample(s.Flags, s.Dur, uint32(s.Size), s.Cto), DecodeTime: s.Time, Data: sampleBytes(s)})
		}
	case "fullTrack":
		for _, s := range r.Samples {
			fs := mp4.FullSample{Sample: mp4.NewSample(s.Flags, s.Dur, uint32(s.Size), s.Cto), DecodeTime: s.Time, Data: sampleBytes(s)}
			if err := frag.AddFullSampleToTrack(fs, r.Tracks[s.Track%len(r.Tracks)]); err != nil {
				return nil, reject("AddFullSampleToTrack: %v", err)
			}
		}
	case "meta":
		if !single {
			return nil, reject("mode meta needs CreateFragment")
		}
		for _, s := range r.Samples {
			frag.AddSample(mp4.NewSample(s.Flags, s.Dur, uint32(s.Size), s.Cto), s.Time)
			all = append(all, sampleBytes(s)...)
		}
		attachMeta(frag, r, all) // SetData ends the lazy mode of the mdat box: the data is written with the box
	case "metaMany":
		if !single {
			return nil, reject("mode metaMany needs CreateFragment")
		}
		var ss []mp4.Sample
		var t0 uint64
		for i, s := range r.Samples {
			if i == 0 {
				t0 = s.Time
			}
			ss = append(ss, mp4.NewSample(s.Flags, s.Dur, uint32(s.Size), s.Cto))
			all = append(all, sampleBytes(s)...)
		}
		frag.AddSamples(ss, t0)
		attachMeta(frag, r, all)
	case "metaTrack":
		for _, s := range r.Samples {
			if err := frag.AddSampleToTrack(mp4.NewSample(s.Flags, s.Dur, uint32(s.Size), s.Cto), r.Tracks[s.Track%len(r.Tracks)], s.Time); err != nil {
				return nil, reject("AddSampleToTrack: %v", err)
			}
			all = append(all, sampleBytes(s)...)
		}
		attachMeta(frag, r, all)
	case "interval", "intervalThenFull":
		// "intervalThenFull": the last sample goes in through AddFullSample after the intervals (the mdat then holds
		// data parts AND monolithic data; the library keeps going without an error, so the relation is judged)
		if !single {
			return nil, reject("mode interval needs CreateFragment")
		}
		nIv := len(r.Samples)
		if r.Mode == "intervalThenFull" && nIv > 0 {
			nIv--
		}
		for i := 0; i < nIv; {
			j := i + 1 + int(r.Samples[i].Seed%3)
			if j > nIv {
				j = nIv
			}
			iv := mp4.SampleInterval{FirstDecodeTime: r.Samples[i].Time}
			for _, s := range r.Samples[i:j] {
				iv.Samples = append(iv.Samples, mp4.NewSample(s.Flags, s.Dur, uint32(s.Size), s.Cto))
				iv.Data = append(iv.Data, sampleBytes(s)...)
				iv.Size += uint32(s.Size)
			}
			if err := frag.AddSampleInterval(iv); err != nil {
				return nil, reject("AddSampleInterval: %v", err)
			}
			i = j
		}
		if r.Mode == "intervalThenFull" && nIv < len(r.Samples) {
			s := r.Samples[nIv]
			frag.AddFullSample(mp4.FullSample{Sample: mp4.NewSample(s.Flags, s.Dur, uint32(s.Size), s.Cto), DecodeTime: s.Time, Data: sampleBytes(s)})
		}
	default:
		return nil, reject("unknown mode %q", r.Mode)
	}
	if r.LargeMdat {
		frag.Mdat.LargeSize = true
	}
	if r.Encrypt {
		if ipd == nil {
			return nil, reject("encrypt without protected init")
		}
		if err := mp4.EncryptFragment(frag, fixedKey, fixedIV, ipd); err != nil {
			return nil, reject("EncryptFragment: %v", err)
		}
	}
	// the tfhd fields are set after the encryption, which reads the samples back through the tfhd as it was created
	for i, f := range r.Tfhd {
		if i >= len(frag.Moof.Trafs) || len(f) < 6 {
			continue
		}
		tfhd := frag.Moof.Trafs[i].Tfhd
		tfhd.Flags |= uint32(f[0])
		tfhd.BaseDataOffset, tfhd.SampleDescriptionIndex = uint64(f[1]), uint32(f[2])
		tfhd.DefaultSampleDuration, tfhd.DefaultSampleSize, tfhd.DefaultSampleFlags = uint32(f[3]), uint32(f[4]), uint32(f[5])
	}
	for i, kids := range r.TrafKids {
		if i >= len(frag.Moof.Trafs) {
			break
		}
		if err := addKids(kids, frag.Moof.Trafs[i].AddChild); err != nil {
			return nil, err
		}
	}
	if err := addKids(r.MoofKids, frag.Moof.AddChild); err != nil {
		return nil, err
	}
	for i := range r.Emsgs {
		b, err := buildBox(&r.Emsgs[i])
		if err != nil {
			return nil, err
		}
		e, ok := b.(*mp4.EmsgBox)
		if !ok {
			return nil, reject("emsgs entry is a %T", b)
		}
		frag.AddEmsg(e)
	}
	if err := addKids(r.Post, noErr(frag.AddChild)); err != nil {
		return nil, err
	}
	return frag, nil
}

func buildSeg(r *segR, ipd *mp4.InitProtectData) (*mp4.MediaSegment, error) {
	var seg *mp4.MediaSegment
	switch {
	case r.Styp == nil:
		seg = mp4.NewMediaSegmentWithoutStyp()
	case r.Styp.T == "styp-default":
		seg = mp4.NewMediaSegment()
	default:
		b, err := buildBox(r.Styp)
		if err != nil {
			return nil, err
		}
		styp, ok := b.(*mp4.StypBox)
		if !ok {
			return nil, reject("styp recipe gives a %T", b)
		}
		seg = mp4.NewMediaSegmentWithStyp(styp)
	}
	for i := range r.Sidxs {
		b, err := buildBox(&r.Sidxs[i])
		if err != nil {
			return nil, err
		}
		sx, ok := b.(*mp4.SidxBox)
		if !ok {
			return nil, reject("sidx recipe gives a %T", b)
		}
		switch r.SidxVia {
		case "fields":
			if seg.Sidx == nil {
				seg.Sidx = sx
			}
			seg.Sidxs = append(seg.Sidxs, sx)
		case "sidx-only":
			seg.Sidx = sx
		default:
			seg.AddSidx(sx)
		}
	}
	for i := range r.Frags {
		f, err := buildFrag(&r.Frags[i], ipd)
		if err != nil {
			return nil, err
		}
		seg.AddFragment(f)
	}
	return seg, nil
}

func segTop(seg *mp4.MediaSegment) []mp4.Box {
	var out []mp4.Box
	if seg.Styp != nil {
		out = append(out, seg.Styp)
	}
	for _, sx := range seg.Sidxs {
		out = append(out, sx)
	}
	for _, f := range seg.Fragments {
		out = append(out, f.Children...)
	}
	return out
}

func infoer(f func(w io.Writer, specificBoxLevels, indent, indentStep string) error) func(io.Writer, string) error {
	return func(w io.Writer, levels string) error { return f(w, levels, "", "  ") }
}

// build turns the recipe into the structure under test.
func Build(c *Case, st *Stats) (*Target, error) {
	var init *mp4.InitSegment
	var ipd *mp4.InitProtectData
	var err error
	if c.Init != nil {
		if init, ipd, err = buildInit(c.Init); err != nil {
			return nil, err
		}
	}
	decrypt := func(frags ...*mp4.Fragment) error {
		if !c.Decrypt || init == nil || ipd == nil || len(c.Segs) != 1 {
			return nil
		}
		di, err := mp4.DecryptInit(init)
		if err != nil {
			return reject("DecryptInit: %v", err)
		}
		for i, f := range frags {
			if i >= len(c.Segs[0].Frags) || !c.Segs[0].Frags[i].Encrypt {
				continue
			}
			if err := mp4.DecryptFragment(f, di, fixedKey); err != nil {
				return reject("DecryptFragment %d: %v", i, err)
			}
		}
		return nil
	}
	switch c.Kind {
	case "init":
		if init == nil {
			return nil, reject("init case without init recipe")
		}
		return &Target{What: "InitSegment", Size: init.Size, Enc: init.Encode, EncSW: init.EncodeSW, Info: infoer(init.Info),
			Top: func() []mp4.Box { return init.Children }}, nil
	case "fragment":
		if len(c.Segs) != 1 || len(c.Segs[0].Frags) != 1 {
			return nil, reject("fragment case needs one fragment recipe")
		}
		f, err := buildFrag(&c.Segs[0].Frags[0], ipd)
		if err != nil {
			return nil, err
		}
		if err := decrypt(f); err != nil {
			return nil, err
		}
		return &Target{What: "Fragment", Size: f.Size, Enc: f.Encode, EncSW: f.EncodeSW, Info: infoer(f.Info),
			Top: func() []mp4.Box { return f.Children }, SetOpt: func() { f.EncOptimize = mp4.OptimizeTrun }}, nil
	case "segment":
		if len(c.Segs) != 1 {
			return nil, reject("segment case needs one segment recipe")
		}
		seg, err := buildSeg(&c.Segs[0], ipd)
		if err != nil {
			return nil, err
		}
		if err := decrypt(seg.Fragments...); err != nil {
			return nil, err
		}
		return &Target{What: "MediaSegment", Size: seg.Size, Enc: seg.Encode, EncSW: seg.EncodeSW, Info: infoer(seg.Info),
			Top: func() []mp4.Box { return segTop(seg) }, SetOpt: func() { seg.EncOptimize = mp4.OptimizeTrun }}, nil
	case "file-frag":
		return buildFragFile(c, st, init, ipd)
	case "file-prog":
		if c.Prog == nil {
			return nil, reject("file-prog case without recipe")
		}
		f := mp4.NewFile()
		pos := uint64(0)
		if err := addKids(c.Prog.Boxes, func(b mp4.Box) error { f.AddChild(b, pos); pos += b.Size(); return nil }); err != nil {
			return nil, err
		}
		if f.IsFragmented() {
			return nil, reject("progressive recipe recognised as fragmented")
		}
		return &Target{What: "File", Size: f.Size, Enc: f.Encode, EncSW: f.EncodeSW, Info: infoer(f.Info),
			Top: func() []mp4.Box { return f.Children }, SetOpt: func() { f.EncOptimize = mp4.OptimizeTrun }}, nil
	case "box":
		if c.Box == nil {
			return nil, reject("box case without recipe")
		}
		b, err := buildBox(c.Box)
		if err != nil {
			return nil, err
		}
		return &Target{What: b.Type(), Size: b.Size, Enc: b.Encode, EncSW: b.EncodeSW, Info: infoer(b.Info),
			Top: func() []mp4.Box { return []mp4.Box{b} }}, nil
	}
	return nil, reject("unknown kind %q", c.Kind)
}

func buildFragFile(c *Case, st *Stats, init *mp4.InitSegment, ipd *mp4.InitProtectData) (*Target, error) {
	if c.File == nil {
		return nil, reject("file-frag case without file recipe")
	}
	fr := c.File
	f := mp4.NewFile()
	pos := uint64(0)
	add := func(b mp4.Box) error { f.AddChild(b, pos); pos += b.Size(); return nil }
	if init != nil {
		for _, b := range init.Children {
			_ = add(b)
		}
	}
	if err := addKids(fr.Sidxs, add); err != nil {
		return nil, err
	}
	var segs []*mp4.MediaSegment
	for i := range c.Segs {
		seg, err := buildSeg(&c.Segs[i], ipd)
		if err != nil {
			return nil, err
		}
		segs = append(segs, seg)
		switch fr.Via {
		case "addchild":
			for _, b := range segTop(seg) {
				_ = add(b)
			}
		case "addsegment":
			f.AddMediaSegment(seg)
		default:
			return nil, reject("unknown file.via %q", fr.Via)
		}
	}
	if fr.Mfra != nil {
		if err := addKids([]boxR{*fr.Mfra}, add); err != nil {
			return nil, err
		}
	}
	if err := addKids(fr.Tail, add); err != nil {
		return nil, err
	}
	if fr.UpdateSidx > 0 {
		if err := f.UpdateSidx(true, fr.UpdateSidx == 2); err != nil {
			st.Class("file:UpdateSidx-error") // e.g. no init segment or no media segment: the file stays as it is
		} else {
			st.Class("file:UpdateSidx")
		}
	}
	if !f.IsFragmented() {
		// nothing marks the file as fragmented (no moov, styp, moof, ...): it is written box by box
		st.Class("file:not-fragmented")
		return &Target{What: "File", Size: f.Size, Enc: f.Encode, EncSW: f.EncodeSW, Info: infoer(f.Info),
			Top: func() []mp4.Box { return f.Children }, SetOpt: func() { f.EncOptimize = mp4.OptimizeTrun }}, nil
	}
	if fr.BoxTree {
		f.FragEncMode = mp4.EncModeBoxTree
		// in box-tree mode every moof is encoded on its own: the data offsets of the truns have to be there
		for _, seg := range f.Segments {
			for _, frag := range seg.Fragments {
				if frag.Moof != nil && frag.Mdat != nil {
					frag.SetTrunDataOffsets()
				}
			}
		}
	}
	t := &Target{What: "File", Size: f.Size, Enc: f.Encode, EncSW: f.EncodeSW, Info: infoer(f.Info),
		SetOpt: func() { f.EncOptimize = mp4.OptimizeTrun }}
	if fr.BoxTree {
		t.What = "File(box tree)"
		t.Top = func() []mp4.Box { return f.Children }
		return t, nil
	}
	t.What = "File(segment mode)"
	t.Top = func() []mp4.Box {
		var out []mp4.Box
		if f.Init != nil {
			out = append(out, f.Init.Children...)
		}
		for _, sx := range f.Sidxs {
			out = append(out, sx)
		}
		for _, seg := range f.Segments {
			out = append(out, segTop(seg)...)
		}
		if f.Mfra != nil {
			out = append(out, f.Mfra)
		}
		return out
	}
	// do File.Children and the boxes written in segment mode coincide (as sets)?
	written, child := map[mp4.Box]bool{}, map[mp4.Box]bool{}
	for _, b := range t.Top() {
		written[b] = true
	}
	omitted, uncounted := false, false
	for _, b := range f.Children {
		child[b] = true
		if !written[b] {
			omitted = true
		}
	}
	for b := range written {
		if !child[b] {
			uncounted = true
		}
	}
	partsSize := func() uint64 {
		n := uint64(0)
		for _, b := range t.Top() {
			n += b.Size()
		}
		return n
	}
	if uncounted {
		st.Class("file:segments-not-in-children")
		if c.avoid(st, "file-size-ignores-addmediasegment") {
			t.Size = partsSize
		}
	}
	if omitted {
		st.Class("file:children-outside-segments")
		if c.avoid(st, "file-size-counts-boxes-segment-mode-omits") {
			t.Size = partsSize
		}
	}
	return t, nil
}

// ---------------------------------------------------------------------------------------------
// evidence classes of a recipe

func HistShape(c *Case) (encodes int, infoBetween bool, classes []string) {
	seenEnc, via := false, map[string]bool{}
	pendingInfo := false
	firstEnc := ""
	for _, op := range c.Hist {
		switch op {
		case "enc", "sw", "swbig":
			if seenEnc && pendingInfo {
				infoBetween = true
			}
			if !seenEnc {
				firstEnc = op
			}
			seenEnc, pendingInfo = true, false
			encodes++
			via[op] = true
		case "info", "info-all", "info-trun":
			if seenEnc {
				pendingInfo = true
			}
		}
	}
	switch firstEnc {
	case "enc":
		classes = append(classes, "hist:writer-first")
	case "sw", "swbig":
		classes = append(classes, "hist:sw-first")
	default:
		classes = append(classes, "hist:no-encode")
	}
	if encodes >= 2 {
		classes = append(classes, "hist:encode-twice")
	}
	if infoBetween {
		classes = append(classes, "hist:info-between")
	}
	if via["enc"] && (via["sw"] || via["swbig"]) {
		classes = append(classes, "hist:both-encoders")
	}
	if via["swbig"] {
		classes = append(classes, "hist:sw-oversized-buffer")
	}
	for _, op := range c.Hist {
		if op == "size" {
			classes = append(classes, "hist:size-call")
			break
		}
	}
	classes = append(classes, fmt.Sprintf("hist:len-%d", len(c.Hist)))
	return
}

func Classify(c *Case) []string {
	seen := map[string]bool{}
	var cl []string
	add := func(s string) {
		if !seen[s] {
			seen[s] = true
			cl = append(cl, s)
		}
	}
	kind := c.Kind
	if c.Kind == "box" && c.Box != nil {
		kind = "box:" + c.Box.T
	}
	if c.Kind == "fragment" && len(c.Segs) == 1 && len(c.Segs[0].Frags) == 1 && c.Segs[0].Frags[0].Ctor == "multi" {
		kind = "multitrack-fragment"
	}
	add("kind:" + kind)
	if c.Opt && c.Kind != "init" && c.Kind != "box" {
		add("optimise:on")
	} else {
		add("optimise:off")
	}
	var boxes func(bs []boxR)
	boxes = func(bs []boxR) {
		for i := range bs {
			add("uses:" + bs[i].T)
			boxes(bs[i].K)
		}
	}
	if in := c.Init; in != nil {
		add(fmt.Sprintf("init:tracks-%d", len(in.Tracks)))
		for i := range in.Tracks {
			tr := &in.Tracks[i]
			add("init:codec-" + tr.Codec)
			add("init:media-" + tr.Media)
			if len(tr.Lang) != 3 {
				add("init:elng")
			}
			if tr.Entry != "" {
				add(fmt.Sprintf("init:entry-%s-ps%v", tr.Entry, tr.IncludePS))
			}
			if tr.Edts != nil {
				add("init:edts")
			}
			boxes(tr.EntryKids)
			boxes(tr.TrakKids)
			boxes(tr.StblKids)
		}
		if in.Tweak {
			add("init:TweakSingleTrakLive")
		}
		if len(in.Manual) > 0 {
			add("init:NewMP4Init+AddChild")
			boxes(in.Manual)
		}
		if in.Protect != nil {
			add("encrypted-init")
			add("encrypted-init:" + in.Protect.Scheme)
			boxes(in.Protect.Pssh)
		}
		boxes(in.MoovKids)
		boxes(in.MvexKids)
		boxes(in.TopKids)
	}
	for i := range c.Segs {
		sg := &c.Segs[i]
		if c.Kind != "fragment" {
			switch {
			case sg.Styp == nil:
				add("seg:no-styp")
			case sg.Styp.T == "styp-default":
				add("seg:default-styp")
			default:
				add("seg:own-styp")
			}
			add(fmt.Sprintf("seg:sidx-%d", len(sg.Sidxs)))
			if len(sg.Sidxs) > 0 && sg.SidxVia != "" {
				add("seg:sidx-via-" + sg.SidxVia)
			}
			add(fmt.Sprintf("seg:fragments-%d", len(sg.Frags)))
		}
		for j := range sg.Frags {
			fr := &sg.Frags[j]
			add("frag:ctor-" + fr.Ctor)
			add("frag:mode-" + fr.Mode)
			if fr.MetaData != "" {
				add("frag:meta-data-" + fr.MetaData)
			}
			add(fmt.Sprintf("frag:tracks-%d", len(fr.Tracks)))
			switch n := len(fr.Samples); {
			case n == 0:
				add("frag:empty")
			case n == 1:
				add("frag:one-sample")
			default:
				add("frag:samples-2+")
			}
			for _, s := range fr.Samples {
				if s.Cto < 0 {
					add("frag:negative-cto")
				}
				if s.Size == 0 {
					add("frag:zero-size-sample")
				}
				if s.Time >= 1<<32 {
					add("frag:tfdt-64bit")
				}
			}
			if fr.Encrypt {
				add("frag:encrypted")
			}
			if fr.LargeMdat {
				add("frag:mdat-largesize")
			}
			if len(fr.Emsgs) > 0 {
				add("frag:AddEmsg")
			}
			if len(fr.Tfhd) > 0 {
				add("frag:tfhd-fields")
			}
			boxes(fr.Pre)
			boxes(fr.Emsgs)
			boxes(fr.Post)
			boxes(fr.MoofKids)
			for _, k := range fr.TrafKids {
				boxes(k)
			}
		}
		boxes(sg.Sidxs)
	}
	if f := c.File; f != nil {
		add("file:via-" + f.Via)
		if f.BoxTree {
			add("file:box-tree-mode")
		} else {
			add("file:segment-mode")
		}
		add(fmt.Sprintf("file:segments-%d", len(c.Segs)))
		if f.Mfra != nil {
			add("file:mfra")
		}
		boxes(f.Sidxs)
		boxes(f.Tail)
	}
	if c.Decrypt {
		add("decrypted-again")
	}
	if c.Prog != nil {
		boxes(c.Prog.Boxes)
	}
	if c.Box != nil {
		boxes(c.Box.K)
	}
	return cl
}

// attachMeta hands the sample data of a metadata-only history to the mdat box.
func attachMeta(frag *mp4.Fragment, r *fragR, all []byte) {
	if r.MetaData == "add" {
		pos := 0
		for _, s := range r.Samples {
			frag.Mdat.AddSampleData(all[pos : pos+s.Size])
			pos += s.Size
		}
		return
	}
	frag.Mdat.SetData(all)
}

// ReuseAfterUse builds the box of c.Box twice and the box of c.Box2 twice, uses the first (Size, Info at two
// levels, Encode, EncodeSW), assigns the exported fields of the Box2 boxes to both and returns what the used and the
// unused object encode to afterwards. ok is false when the case has no second recipe, the recipes are refused, or
// the two kinds build different Go types.
func ReuseAfterUse(c *Case) (what string, usedEnc, freshEnc []byte, usedSize, freshSize uint64, usedErr, freshErr error, ok bool) {
	if c.Kind != "box" || c.Box == nil || c.Box2 == nil || c.Box.T != c.Box2.T {
		return
	}
	used, e1 := buildBox(c.Box)
	fresh, e2 := buildBox(c.Box)
	b1, e3 := buildBox(c.Box2)
	b2, e4 := buildBox(c.Box2)
	if e1 != nil || e2 != nil || e3 != nil || e4 != nil {
		return
	}
	tu, tb := reflect.TypeOf(used), reflect.TypeOf(b1)
	if tu != tb || tu.Kind() != reflect.Ptr || tu.Elem().Kind() != reflect.Struct {
		return
	}
	what = used.Type()
	_ = used.Size()
	var sink bytes.Buffer
	_ = used.Info(&sink, "", "", "  ")
	_ = used.Info(&sink, "all:1", "", "  ")
	_ = used.Encode(&sink)
	sw := bits.NewFixedSliceWriter(int(used.Size()) + 16)
	_ = used.EncodeSW(sw)
	_ = used.Size()
	harness.AssignExported(used, b1)
	harness.AssignExported(fresh, b2)
	// the assignment may leave an object in a state no constructor produces (public fields of one identity next to
	// unexported ones of another): whatever happens then must happen to both objects alike
	after := func(b mp4.Box) (size uint64, enc []byte, err error) {
		defer func() {
			if r := recover(); r != nil {
				size, enc, err = 0, nil, fmt.Errorf("panic: %v", r)
			}
		}()
		size = b.Size()
		var w bytes.Buffer
		err = b.Encode(&w)
		return size, w.Bytes(), err
	}
	usedSize, usedEnc, usedErr = after(used)
	freshSize, freshEnc, freshErr = after(fresh)
	return what, usedEnc, freshEnc, usedSize, freshSize, usedErr, freshErr, true
}
