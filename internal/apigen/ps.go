// Parameter-set generators of the C02 "api" leg (AVC/HEVC SPS/PPS/VPS serialised by nalgen), copied from the
// C19 generators: only legal parameter sets are produced, so that SetAVCDescriptor / SetHEVCDescriptor accept them.
package apigen

import (
	"fmt"

	"github.com/Eyevinn/mp4ff/hevc"
	"pgregory.net/rapid"

	"verif/internal/harness"
	"verif/internal/nalgen"
)

func pct(t *rapid.T, p int, label string) bool { return rapid.IntRange(0, 99).Draw(t, label) < p }

var avcProfiles = []uint32{66, 77, 88, 100, 110, 122, 244, 44}
var avcLevels = []uint32{10, 11, 12, 13, 20, 21, 22, 30, 31, 32, 40, 41, 42, 50, 51, 52, 60, 62}

func genAVCSPS(t *rapid.T, id uint32, l string) nalgen.AVCSPSTree {
	var tr nalgen.AVCSPSTree
	s := &tr.S
	tr.NalRefIdc = uint8(rapid.IntRange(1, 3).Draw(t, l+"refidc"))
	s.Profile = rapid.SampledFrom(avcProfiles).Draw(t, l+"profile")
	s.ProfileCompatibility = uint32(rapid.IntRange(0, 63).Draw(t, l+"constraints")) << 2
	s.Level = rapid.SampledFrom(avcLevels).Draw(t, l+"level")
	s.ParameterID = id
	s.ChromaFormatIDC = 1
	if nalgen.AVCHighProfileFields(s.Profile) {
		s.ChromaFormatIDC = byte(rapid.SampledFrom([]int{1, 1, 0, 2, 3}).Draw(t, l+"chroma"))
		s.BitDepthLumaMinus8 = uint(rapid.SampledFrom([]int{0, 0, 1, 2, 4}).Draw(t, l+"bdl"))
		s.BitDepthChromaMinus8 = uint(rapid.SampledFrom([]int{0, 0, 1, 2, 4}).Draw(t, l+"bdc"))
		if s.ChromaFormatIDC == 3 {
			s.SeparateColourPlaneFlag = rapid.Bool().Draw(t, l+"sep")
		}
		s.QPPrimeYZeroTransformBypassFlag = rapid.Bool().Draw(t, l+"qpp")
	}
	s.Log2MaxFrameNumMinus4 = uint(rapid.IntRange(0, 12).Draw(t, l+"fn"))
	s.PicOrderCntType = uint(rapid.SampledFrom([]int{0, 2}).Draw(t, l+"poc"))
	if s.PicOrderCntType == 0 {
		s.Log2MaxPicOrderCntLsbMinus4 = uint(rapid.IntRange(0, 12).Draw(t, l+"poclsb"))
	}
	s.NumRefFrames = uint(rapid.IntRange(0, 16).Draw(t, l+"refs"))
	s.GapsInFrameNumValueAllowedFlag = rapid.Bool().Draw(t, l+"gaps")
	s.FrameMbsOnlyFlag = pct(t, 70, l+"fmo")
	var w, h int
	switch rapid.IntRange(0, 5).Draw(t, l+"dimsMode") {
	case 0, 1, 2:
		w, h = rapid.IntRange(1, 12).Draw(t, l+"wMbs"), rapid.IntRange(1, 12).Draw(t, l+"hMbs")
	case 3, 4:
		d := rapid.SampledFrom([][2]int{{120, 68}, {80, 45}, {45, 36}, {22, 18}, {11, 9}, {240, 135}, {256, 135}, {40, 30}, {480, 270}}).Draw(t, l+"dimsReal")
		w, h = d[0], d[1]
	default:
		w, h = rapid.IntRange(1, 1055).Draw(t, l+"wMbsBig"), rapid.IntRange(1, 130).Draw(t, l+"hMbsBig")
	}
	if !s.FrameMbsOnlyFlag {
		h = (h + 1) / 2
		s.MbAdaptiveFrameFieldFlag = rapid.Bool().Draw(t, l+"mbaff")
	}
	tr.PicWidthInMbsMinus1, tr.PicHeightInMapUnitsMinus1 = uint(w-1), uint(h-1)
	s.Direct8x8InferenceFlag = !s.FrameMbsOnlyFlag || rapid.Bool().Draw(t, l+"d8x8")
	s.FrameCroppingFlag = rapid.Bool().Draw(t, l+"crop")
	if s.FrameCroppingFlag {
		cx, cy := nalgen.AVCCropUnits(s)
		fw, fh := uint(w)*16, uint(h)*16
		if !s.FrameMbsOnlyFlag {
			fh *= 2
		}
		hor := uint(rapid.IntRange(0, int((fw-1)/cx)).Draw(t, l+"cropHor"))
		ver := uint(rapid.IntRange(0, int((fh-1)/cy)).Draw(t, l+"cropVer"))
		if pct(t, 60, l+"cropSmall") { // realistic: less than one macroblock
			hor, ver = hor%(16/cx), ver%(32/cy)
			if ver > (fh-1)/cy {
				ver = (fh - 1) / cy
			}
		}
		s.FrameCropLeftOffset = uint(rapid.IntRange(0, int(hor)).Draw(t, l+"cropL"))
		s.FrameCropRightOffset = hor - s.FrameCropLeftOffset
		s.FrameCropTopOffset = uint(rapid.IntRange(0, int(ver)).Draw(t, l+"cropT"))
		s.FrameCropBottomOffset = ver - s.FrameCropTopOffset
	}
	return tr
}

func genAVCPPS(t *rapid.T, id uint32, sps *nalgen.AVCSPSTree, l string) nalgen.AVCPPSTree {
	var tr nalgen.AVCPPSTree
	p := &tr.P
	tr.NalRefIdc = uint8(rapid.IntRange(1, 3).Draw(t, l+"refidc"))
	p.PicParameterSetID, p.SeqParameterSetID = id, sps.S.ParameterID
	p.EntropyCodingModeFlag = rapid.Bool().Draw(t, l+"cabac")
	p.BottomFieldPicOrderInFramePresentFlag = rapid.Bool().Draw(t, l+"bf")
	p.NumRefIdxI0DefaultActiveMinus1 = uint(rapid.IntRange(0, 31).Draw(t, l+"l0"))
	p.NumRefIdxI1DefaultActiveMinus1 = uint(rapid.IntRange(0, 31).Draw(t, l+"l1"))
	p.WeightedPredFlag = rapid.Bool().Draw(t, l+"wp")
	p.WeightedBipredIDC = uint(rapid.IntRange(0, 2).Draw(t, l+"wbp"))
	p.PicInitQpMinus26 = rapid.IntRange(-26, 25).Draw(t, l+"qp")
	p.PicInitQsMinus26 = rapid.IntRange(-26, 25).Draw(t, l+"qs")
	p.ChromaQpIndexOffset = rapid.IntRange(-12, 12).Draw(t, l+"cqp")
	p.DeblockingFilterControlPresentFlag = rapid.Bool().Draw(t, l+"dbf")
	p.ConstrainedIntraPredFlag = rapid.Bool().Draw(t, l+"cip")
	p.RedundantPicCntPresentFlag = rapid.Bool().Draw(t, l+"red")
	tr.TailPresent = rapid.Bool().Draw(t, l+"tail")
	if tr.TailPresent {
		p.Transform8x8ModeFlag = rapid.Bool().Draw(t, l+"t8x8")
		p.SecondChromaQpIndexOffset = rapid.IntRange(-12, 12).Draw(t, l+"cqp2")
	}
	return tr
}

func distinct(t *rapid.T, n, max int, label string) []int {
	seen := map[int]bool{}
	var out []int
	for len(out) < n {
		v := rapid.IntRange(0, max).Draw(t, label)
		for seen[v] {
			v = (v + 1) % (max + 1)
		}
		seen[v] = true
		out = append(out, v)
	}
	return out
}

func hevcSubWH(chroma byte) (uint32, uint32) { // Table 6-1
	switch chroma {
	case 1:
		return 2, 2
	case 2:
		return 2, 1
	}
	return 1, 1
}

func genHEVCSPS(t *rapid.T, id int, l string) *nalgen.HEVCSPSTree {
	tr := &nalgen.HEVCSPSTree{TemporalIDPlus1: 1}
	s := &tr.SPS
	s.VpsID = byte(rapid.IntRange(0, 15).Draw(t, l+"vps"))
	s.TemporalIDNestingFlag = true
	p := &s.ProfileTierLevel
	p.GeneralProfileSpace = byte(rapid.SampledFrom([]int{0, 0, 0, 1, 2, 3}).Draw(t, l+"space"))
	p.GeneralTierFlag = rapid.Bool().Draw(t, l+"tier")
	p.GeneralProfileIDC = byte(rapid.IntRange(1, 11).Draw(t, l+"idc"))
	p.GeneralProfileCompatibilityFlags = rapid.OneOf(rapid.Uint32(), rapid.SampledFrom([]uint32{0, 0x60000000, 0x40000000, 1, 0xffffffff})).Draw(t, l+"compat")
	fl := rapid.IntRange(0, 15).Draw(t, l+"srcflags")
	p.GeneralProgressiveSourceFlag, p.GeneralInterlacedSourceFlag = fl&1 != 0, fl&2 != 0
	p.GeneralNonPackedConstraintFlag, p.GeneralFrameOnlyConstraintFlag = fl&4 != 0, fl&8 != 0
	low44 := rapid.OneOf(rapid.Just(uint64(0)), rapid.Uint64Range(0, 1<<44-1)).Draw(t, l+"low44")
	p.GeneralConstraintIndicatorFlags = uint64(fl&1)<<47 | uint64(fl>>1&1)<<46 | uint64(fl>>2&1)<<45 | uint64(fl>>3&1)<<44 | low44
	p.GeneralLevelIDC = byte(rapid.SampledFrom([]int{30, 60, 63, 90, 93, 120, 123, 150, 153, 156, 180, 183, 186, 0, 255}).Draw(t, l+"level"))
	s.SpsID = byte(id)
	s.ChromaFormatIDC = byte(rapid.SampledFrom([]int{1, 1, 0, 2, 3}).Draw(t, l+"chroma"))
	if s.ChromaFormatIDC == 3 {
		s.SeparateColourPlaneFlag = rapid.Bool().Draw(t, l+"sep")
	}
	s.Log2MinLumaCodingBlockSizeMinus3, s.Log2DiffMaxMinLumaCodingBlockSize = 0, byte(rapid.IntRange(1, 3).Draw(t, l+"ctb"))
	const minCb = 8
	var w, h int
	switch rapid.IntRange(0, 4).Draw(t, l+"dimsMode") {
	case 0, 1:
		w, h = rapid.IntRange(1, 40).Draw(t, l+"w8"), rapid.IntRange(1, 40).Draw(t, l+"h8")
	case 2, 3:
		d := rapid.SampledFrom([][2]int{{176, 144}, {352, 288}, {416, 240}, {640, 360}, {1280, 720}, {1920, 1080}, {1920, 1088}, {3840, 2160}, {7680, 4320}, {8192, 4320}}).Draw(t, l+"dimsReal")
		w, h = (d[0]+minCb-1)/minCb, (d[1]+minCb-1)/minCb
	default:
		w, h = rapid.IntRange(1, 8191).Draw(t, l+"w8big"), rapid.IntRange(1, 8191).Draw(t, l+"h8big")
	}
	s.PicWidthInLumaSamples, s.PicHeightInLumaSamples = uint32(w*minCb), uint32(h*minCb)
	s.ConformanceWindowFlag = rapid.Bool().Draw(t, l+"cw")
	if s.ConformanceWindowFlag {
		sw, sh := hevcSubWH(s.ChromaFormatIDC)
		mw, mh := int((s.PicWidthInLumaSamples-1)/sw), int((s.PicHeightInLumaSamples-1)/sh)
		if pct(t, 60, l+"cwSmall") {
			if mw > 7 {
				mw = 7
			}
			if mh > 7 {
				mh = 7
			}
		}
		hor, ver := rapid.IntRange(0, mw).Draw(t, l+"cwHor"), rapid.IntRange(0, mh).Draw(t, l+"cwVer")
		le, to := rapid.IntRange(0, hor).Draw(t, l+"cwL"), rapid.IntRange(0, ver).Draw(t, l+"cwT")
		s.ConformanceWindow = hevc.ConformanceWindow{LeftOffset: uint32(le), RightOffset: uint32(hor - le), TopOffset: uint32(to), BottomOffset: uint32(ver - to)}
	}
	// bit depths up to 15 bits: the 3-bit fields of the hvcC record cannot hold bit_depth_minus8 = 8
	s.BitDepthLumaMinus8 = byte(rapid.SampledFrom([]int{0, 0, 2, 4, 7}).Draw(t, l+"bdl"))
	s.BitDepthChromaMinus8 = byte(rapid.SampledFrom([]int{0, 0, 2, 4, 7}).Draw(t, l+"bdc"))
	s.Log2MaxPicOrderCntLsbMinus4 = byte(rapid.IntRange(0, 12).Draw(t, l+"poc"))
	s.SubLayerOrderingInfoPresentFlag = rapid.Bool().Draw(t, l+"slo")
	dpb := rapid.IntRange(0, 15).Draw(t, l+"dpb")
	s.SubLayeringOrderingInfos = []hevc.SubLayerOrderingInfo{{MaxDecPicBufferingMinus1: byte(dpb),
		MaxNumReorderPics: byte(rapid.IntRange(0, dpb).Draw(t, l+"reo")), MaxLatencyIncreasePlus1: byte(rapid.IntRange(0, 200).Draw(t, l+"lat"))}}
	s.Log2MinLumaTransformBlockSizeMinus2, s.Log2DiffMaxMinLumaTransformBlockSize = 0, 1
	s.MaxTransformHierarchyDepthInter = byte(rapid.IntRange(0, 2).Draw(t, l+"thi"))
	s.MaxTransformHierarchyDepthIntra = byte(rapid.IntRange(0, 2).Draw(t, l+"tha"))
	fl2 := rapid.IntRange(0, 15).Draw(t, l+"toolflags")
	s.AmpEnabledFlag, s.SampleAdaptiveOffsetEnabledFlag = fl2&1 != 0, fl2&2 != 0
	s.SpsTemporalMvpEnabledFlag, s.StrongIntraSmoothingEnabledFlag = fl2&4 != 0, fl2&8 != 0
	return tr
}

func genHEVCPPS(t *rapid.T, id int, sps *nalgen.HEVCSPSTree, l string) *nalgen.HEVCPPSTree {
	tr := &nalgen.HEVCPPSTree{TemporalIDPlus1: 1}
	p := &tr.PPS
	p.PicParameterSetID, p.SeqParameterSetID = uint32(id), uint32(sps.SPS.SpsID)
	fl := rapid.IntRange(0, 255).Draw(t, l+"flags")
	p.DependentSliceSegmentsEnabledFlag, p.OutputFlagPresentFlag, p.SignDataHidingEnabledFlag = fl&1 != 0, fl&2 != 0, fl&4 != 0
	p.CabacInitPresentFlag, p.ConstrainedIntraPredFlag, p.TransformSkipEnabledFlag = fl&8 != 0, fl&16 != 0, fl&32 != 0
	p.WeightedPredFlag, p.EntropyCodingSyncEnabledFlag = fl&64 != 0, fl&128 != 0
	p.NumRefIdxL0DefaultActiveMinus1 = uint8(rapid.IntRange(0, 14).Draw(t, l+"l0"))
	p.InitQpMinus26 = int8(rapid.IntRange(-26, 25).Draw(t, l+"qp"))
	p.CbQpOffset, p.CrQpOffset = int8(rapid.IntRange(-12, 12).Draw(t, l+"cb")), int8(rapid.IntRange(-12, 12).Draw(t, l+"cr"))
	return tr
}

// psSet is a consistent group of parameter sets for one video sample entry.
type psSet struct {
	VPS, SPS, PPS, SEI []harness.HexBytes
}

func genAVCSets(t *rapid.T) psSet {
	var ps psSet
	nSPS := rapid.SampledFrom([]int{1, 1, 1, 2, 3}).Draw(t, "nSPS")
	nPPS := rapid.SampledFrom([]int{1, 1, 2, 3}).Draw(t, "nPPS")
	sids, pids := distinct(t, nSPS, 31, "spsID"), distinct(t, nPPS, 255, "ppsID")
	var trees []nalgen.AVCSPSTree
	for i := 0; i < nSPS; i++ {
		tr := genAVCSPS(t, uint32(sids[i]), fmt.Sprintf("s%d-", i))
		trees = append(trees, tr)
		n, _ := nalgen.SerializeAVCSPS(&tr)
		ps.SPS = append(ps.SPS, n)
	}
	for i := 0; i < nPPS; i++ {
		ref := &trees[rapid.IntRange(0, nSPS-1).Draw(t, "ppsRef")]
		tr := genAVCPPS(t, uint32(pids[i]), ref, fmt.Sprintf("p%d-", i))
		n, _ := nalgen.SerializeAVCPPS(&tr, ref.S.ChromaFormatIDC)
		ps.PPS = append(ps.PPS, n)
	}
	return ps
}

func genHEVCSets(t *rapid.T, allowSEI bool) psSet {
	var ps psSet
	nSPS := rapid.SampledFrom([]int{1, 1, 1, 2}).Draw(t, "nSPS")
	nPPS := rapid.SampledFrom([]int{1, 1, 2, 3}).Draw(t, "nPPS")
	sids, pids := distinct(t, nSPS, 15, "spsID"), distinct(t, nPPS, 63, "ppsID")
	var trees []*nalgen.HEVCSPSTree
	for i := 0; i < nSPS; i++ {
		tr := genHEVCSPS(t, sids[i], fmt.Sprintf("s%d-", i))
		trees = append(trees, tr)
		n, _ := nalgen.HEVCWriteSPS(tr)
		ps.SPS = append(ps.SPS, n)
	}
	for i := 0; i < nPPS; i++ {
		tr := genHEVCPPS(t, pids[i], trees[rapid.IntRange(0, nSPS-1).Draw(t, "ppsRef")], fmt.Sprintf("p%d-", i))
		n, _ := nalgen.HEVCWritePPS(tr)
		ps.PPS = append(ps.PPS, n)
	}
	s := &trees[0].SPS
	nVPS := rapid.SampledFrom([]int{1, 1, 1, 2, 0}).Draw(t, "nVPS")
	for i := 0; i < nVPS; i++ {
		v := &nalgen.HEVCVPSTree{VpsID: (s.VpsID + byte(i)) & 15, BaseLayerInternalFlag: true, BaseLayerAvailableFlag: true,
			TemporalIDNestingFlag: true, PTL: s.ProfileTierLevel, SubLayerOrderingInfoPresent: s.SubLayerOrderingInfoPresentFlag,
			OrderingInfos: s.SubLayeringOrderingInfos, TimingInfoPresentFlag: rapid.Bool().Draw(t, "vpsTiming"), NumUnitsInTick: 1001, TimeScale: 60000}
		ps.VPS = append(ps.VPS, nalgen.HEVCWriteVPS(v))
	}
	if allowSEI && pct(t, 30, "sei") { // prefix SEI NAL units are carried opaquely in a fourth array
		n := rapid.IntRange(1, 2).Draw(t, "nSEI")
		for i := 0; i < n; i++ {
			pl := rapid.SliceOfN(rapid.ByteRange(1, 255), 17, 24).Draw(t, "seiPayload")
			nal := append(nalgen.HEVCNalHeader(39, 0, 1), 5, byte(len(pl)))
			ps.SEI = append(ps.SEI, append(append(nal, pl...), 0x80))
		}
	}
	return ps
}
