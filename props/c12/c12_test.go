// C12 — fragments are grouped into segments faithfully and indexes tile the media.
//
// A sample model and a fragmented-file layout are drawn, serialised by the harness' own writer
// (fragbuild.Build, which knows the byte position of everything it wrote), decoded by the library
// (mp4.DecodeFile, normal and lazy-mdat mode, or mp4.DecodeFileSR) with a drawn set of decode flags, and
//
//	(1) the partition of the moof/mdat pairs into File.Segments[].Fragments[] is compared with the
//	    partition that the delimiters of the file define (rule below),
//	(2) the default (EncModeSegment) File.Encode / File.EncodeSW output is compared byte by byte with the
//	    input minus the top-level boxes that are documented as not belonging to init or media segments,
//	(3) File.UpdateSidx(addIfNotExists, nonZeroEPT) (once, or twice in a row: "twice") + File.Encode is
//	    checked on the OUTPUT bytes, located with the independent reader fragbuild.Read: the sidx tiles the
//	    media, durations/EPT/timescale/reference_ID follow the model, all samples of all tracks are still
//	    where the output says they are; File.EncodeSW into a buffer of exactly File.Size() bytes gives the
//	    same bytes as File.Encode.
//
// Variant "mediaOnly": the decoders get the file WITHOUT ftyp/moov (a sequence of media segments, the form
// in which segments travel); (1) and (2) are judged as above, UpdateSidx must return an error (there is no
// init segment to take the reference track from) and not panic.
//
// # The segmentation rule (derived from the library's documentation)
//
//   - mp4/file.go AddChild, case *StypBox: "Starts a new segment".
//   - mp4/file.go startSegmentIfNeeded: "starts a new segment if there is none or if position match with
//     sidx of tfra"; CHANGELOG 0.38: "DecodeFile uses sidx or mfra data to find segment boundaries".
//   - DecISMFlag: "tries to read mfra box at end to find segment boundaries (for ISM files)".
//   - DecStartOnMoof: "starts a segment at each moof boundary. This is provided no styp, or sidx/mfra box
//     gives other information"; CHANGELOG 0.44: "interpret every moof as a new segment start, unless styp,
//     sidx, or mfra boxes give that information".
//   - examples/add-sidx: "Segments are identified by styp boxes if they exist, otherwise by the start of
//     moof or emsg boxes. It is possible to interpret every moof box as the start of a new segment".
//   - AddChild, case *EmsgBox: "emsg box is only added at the start of a fragment (inside a segment)";
//     README: "The fragment can start with one or more emsg boxes"; Fragment: "[prft] + moof + mdat".
//   - EncModeSegment: "only encode boxes that are part of Init and MediaSegments"; README: Init = ftyp +
//     moov (+ sidx), MediaSegment = optional styp, sidx boxes, fragments.
//
// Hence, for files whose delimiters are exact and mutually consistent:
//
//	a styp always opens a segment; without styp the first applicable of
//	  "sidx": a top-level sidx (before the first fragment): segment i starts at anchor + sum(size[0..i-1]),
//	  "tfra": DecISMFlag and an mfra at the end: segment i starts at the moof of tfra entry i,
//	  "moof": DecStartOnMoof: every fragment (its emsg boxes, moof, mdat) is a segment,
//	  "none": the whole media is one segment.
//
// Boxes in front of a moof that belong to the fragment (emsg, prft) stay with that fragment, in order; a
// segment-level sidx after a styp belongs to that segment; other top-level boxes (free, skip, uuid,
// unknown) are not part of init or media segments and are dropped by the default encode mode.
//
// # What exactly is compared
//
//	(1) per library fragment, in file order: Moof.StartPos/Size, Mdat.StartPos/Size, mfhd sequence number
//	    against the writer's truth; number of segments and fragments per segment against the rule; the type
//	    and size of every Fragment.Children entry against [emsg/prft boxes of the fragment, moof, mdat];
//	    Fragment.StartPos and MediaSegment.StartPos against the first byte of the fragment / segment (styp,
//	    or the first box of the first fragment); Styp / segment-level Sidxs per segment; File.Sidxs, File.Mfra.
//	(2) Encode and EncodeSW output == concatenation of the kept top-level boxes of the input (ftyp, moov,
//	    top-level sidx, per segment styp, sidx boxes, per fragment emsg/prft, moof, mdat; mfra) — which IS the
//	    input when it has no free/skip/uuid/unknown top-level box. Two fields may follow a moved moof
//	    (compareOut): tfhd.base_data_offset and tfra.moof_offset.
//	(3) with positions taken from the output bytes (own box walker and sidx parser, fragbuild.Read for
//	    samples/mfra): init boxes unchanged, exactly one sidx directly after them, then the media boxes of (2);
//	    reference_count == number of segments, reference i starts at the first byte of segment i (anchor =
//	    end of the sidx + first_offset), the last one ends where the media ends (at the mfra, if any),
//	    subsegment_duration == summed sample durations of the reference track in the segment (model),
//	    timescale and reference_ID of the reference track (first video, else first audio, else first track:
//	    findReferenceTrak; UpdateSidx has no documentation of its own), earliest_presentation_time == 0 or,
//	    with nonZeroEPT, decode time + composition offset of the first sample of the reference track in the
//	    first segment; all samples of all tracks read back from the output equal the model; segment-level
//	    sidx boxes still end at a segment end; tfra entries lead to their moofs.
//
// Limitations: the lazy-mdat decoder is judged on (1) only (its encoders write no payload, as documented);
// EPT is compared with the FIRST sample of the reference track, not with the minimum presentation time;
// one or two sidx boxes per segment, one top-level sidx, no hierarchical sidx; several trafs per track, legacy
// base offsets with several trafs and truns without data_offset are left to fragbuild's own list.
package c12

import (
	"bytes"
	"encoding/binary"
	"encoding/json"
	"fmt"
	"os"
	"path/filepath"
	"sort"
	"strings"
	"sync"
	"testing"

	"github.com/Eyevinn/mp4ff/bits"
	"github.com/Eyevinn/mp4ff/mp4"
	"pgregory.net/rapid"

	"verif/internal/fragbuild"
	"verif/internal/harness"
)

func TestMain(m *testing.M) { harness.Main(m) }

func init() {
	harness.RegisterReplay("segmentation", harness.Replayer(checkSeg))
	// development aid: VERIF_C12_NOAVOID=all or a comma-separated list of switch names opens the
	// known-defect input classes as well
	if v := os.Getenv("VERIF_C12_NOAVOID"); v == "all" {
		avoidKnown = map[string]bool{}
	} else if v != "" {
		for _, name := range strings.Split(v, ",") {
			delete(avoidKnown, name)
		}
	}
}

func TestReplay(t *testing.T) { harness.ReplayPath(t) }

// avoidKnown lists the confirmed library defects whose input class is left out (generator) or whose
// single relation is not judged (oracle), always counted with harness.Rec.Exclude(name), so that the
// search continues behind them. Each name has a reproducer /verif/replay/C12/kf-<name>.json carrying
// "noAvoid": true, so that replaying it shows the failure.
var avoidKnown = map[string]bool{
	// ---- known before this check (fragbuild/disagreements_test.go), partly repaired in /repo by f93f66d
	// ("the first fragment now always opens a segment"; regression inputs replay/C12/fixed-*.json):
	// top-level sidx, no styp, and the box at the start of the 2nd.. reference is neither emsg nor moof
	// (prft, free, uuid ...; 14496-12 8.16.5 puts prft exactly there): the segment is silently merged into
	// the previous one, because startSegmentIfNeeded is only consulted for emsg/moof and compares positions.
	"topsidx-non-emsg-at-reference-start": true,
	// ---- found by this check
	// DecStartOnMoof and an emsg in front of a moof: the emsg starts a segment and the moof starts
	// another one; the emsg-only fragment has no moof and File.Encode fails ("moof not set in fragment").
	"startonmoof-emsg": true,
	// DecStartOnMoof on a file with styp boxes: the flag is documented to apply only when no styp gives
	// the boundaries, but every moof still opens a segment (styp-only segments + segments without styp).
	"startonmoof-styp": true,
	// emsg in front of the 2nd.. moof of a segment is appended to the PRECEDING fragment (after its mdat).
	"emsg-mid-segment-in-previous-fragment": true,
	// DecISMFlag: the tfra entry points at the moof, so an emsg in front of the first moof of the 2nd..
	// segment ends up in the last fragment of the PRECEDING segment (the same would hold for a prft once
	// prft boxes are handed to fragments, so both are kept out of that place).
	"ism-emsg-before-segment-moof": true,
	// prft in front of a moof is never handed to the Fragment ("[prft] + moof + mdat") and is dropped by
	// the default encode mode.
	"prft-dropped": false, // repaired in /repo (fix: 17f87a4)
	// File.EncodeSW (segment mode) leaves out the mfra that File.Encode writes.
	"encodesw-drops-mfra": false, // repaired in /repo (fix: 0036575)
	// UpdateSidx writes reference_ID 1 whatever the ID of the reference track is.
	"sidx-reference-id-hardcoded": false, // repaired in /repo (fix: 3c996dd)
	// UpdateSidx takes time and composition offset of the reference track from the first trun of the first
	// fragment of the segment only: EPT 0 (or without cto) when the track starts later in the segment.
	"sidx-ept-first-fragment-only": true,
	// tfhd.base_data_offset (absolute) is emitted unchanged although the sidx inserted/enlarged by
	// UpdateSidx (or a dropped top-level box) moves the fragment: samples of the output point elsewhere.
	"base-data-offset-stale": true,
	// the mfra is emitted unchanged after UpdateSidx moved the fragments: tfra moof_offsets are stale.
	"mfra-stale-after-updatesidx": true,
	// DecodeFileSR accepts WithDecodeFlags(DecISMFlag) and silently ignores it (no mfra lookup).
	"sr-ignores-ism-flag": true,
	// MediaSegment.Size counts the first sidx of a segment only, Encode writes all of them: the sizes that
	// UpdateSidx puts into the references are short by the further sidx boxes (mp4/testdata has such a file).
	"segment-size-counts-first-sidx-only": false, // repaired in /repo (fix: 3cbd5f5)
	// UpdateSidx (findSegmentData) sums the sample durations of the reference track of a segment in a uint32:
	// a segment that lasts 2^32 ticks or more gets the sum modulo 2^32 as subsegment_duration, no error is
	// returned (the field is 32 bits wide: the segment cannot be indexed at all). Oracle side: the duration
	// of such a reference is not judged. Reproducer: replay/C12/pending/new-sidx-duration-wraps.json
	"sidx-duration-wraps": false, // repaired in /repo (fix: 94036ef)
}

type segCase struct {
	Tracks  []fragbuild.Track    `json:"tracks"`
	Layout  fragbuild.FileLayout `json:"layout"`
	Flags   string               `json:"flags"`   // "" | "ism" | "moof" | "ism+moof": DecISMFlag / DecStartOnMoof
	Decoder string               `json:"decoder"` // "file" (DecodeFile) | "lazy" (DecodeFile, DecModeLazyMdat) | "sr" (DecodeFileSR)
	// SegSidx2: every segment-level sidx is followed by a second one (the first one gets first_offset = size of
	// the second), the shape of mp4/testdata/multi_sidx_segment.m4s: one sidx per track of a multiplexed segment
	SegSidx2       bool `json:"segSidx2,omitempty"`
	AddIfNotExists bool `json:"addIfNotExists"`
	NonZeroEPT     bool `json:"nonZeroEPT"`
	// Tool: step (3) goes through the BUILT examples/add-sidx binary (its options: -nzEPT = NonZeroEPT,
	// -startSegOnMoof = Flags "moof", -removeEnc = RemoveEnc) instead of UpdateSidx + Encode in-process
	Tool      bool `json:"tool,omitempty"`
	RemoveEnc bool `json:"removeEnc,omitempty"`
	// Twice: UpdateSidx is called two times in a row before encoding (the second call finds the index the
	// first one made): same expectation
	Twice bool `json:"twice,omitempty"`
	// MediaOnly: the decoder gets the bytes behind ftyp/moov only (no mfra, no absolute base_data_offset)
	MediaOnly bool `json:"mediaOnly,omitempty"`
	// DropLast > 0: an additional history on a second decode of the same file: the last DropLast media segments
	// are taken off File.Segments (an exported field; trimming a file), then UpdateSidx + Encode: the index must
	// describe the segments that are written (reference count, tiling, durations)
	DropLast int `json:"dropLast,omitempty"`
	// ReadFirst: before UpdateSidx every fragment is read once the way a caller without the init segment at hand
	// does it (Fragment.GetFullSamples(nil), errors ignored): a read, after which the index must come out the same
	ReadFirst bool `json:"readFirst,omitempty"`
	// KeepMidEmsg: emsg boxes in front of the second and later fragments of a segment are NOT steered clear of (the
	// library attaches them to the preceding fragment: recorded finding); the attachment is then left unjudged while
	// re-encoding, grouping and the index are judged as always
	KeepMidEmsg bool `json:"keepMidEmsg,omitempty"`
	NoAvoid  bool `json:"noAvoid,omitempty"` // ignore avoidKnown (reproducers of known findings) ...
	// ... or, when names are given, only these switches (a reproducer shows its own failure even if the same
	// input also runs into another known finding earlier in the oracle)
	NoAvoidOnly []string `json:"noAvoidOnly,omitempty"`
}

func (c *segCase) ism() bool  { return strings.Contains(c.Flags, "ism") }
func (c *segCase) moof() bool { return strings.Contains(c.Flags, "moof") }
func (c *segCase) setFlags(ism, moof bool) {
	switch {
	case ism && moof:
		c.Flags = "ism+moof"
	case ism:
		c.Flags = "ism"
	case moof:
		c.Flags = "moof"
	default:
		c.Flags = ""
	}
}

func (c *segCase) avoid(name string) bool {
	if !avoidKnown[name] {
		return false
	}
	if !c.NoAvoid {
		return true
	}
	if len(c.NoAvoidOnly) == 0 {
		return false
	}
	for _, n := range c.NoAvoidOnly {
		if n == name {
			return false
		}
	}
	return true
}

type stats struct {
	skipped map[string]bool
	slow    bool // the tool exceeded its time limit next to its siblings, not when run alone
	refused bool // UpdateSidx refused a segment duration that 32 bits cannot hold
	dropped string // the drop-last-segments history ran (class label)
}

// skip reports whether the relation guarded by the named switch is left unjudged (and notes it).
func (c *segCase) skip(st *stats, name string) bool {
	if !c.avoid(name) {
		return false
	}
	if st.skipped == nil {
		st.skipped = map[string]bool{}
	}
	st.skipped[name] = true
	return true
}

func hasStyp(l *fragbuild.FileLayout) bool {
	for i := range l.Segments {
		if l.Segments[i].Styp {
			return true
		}
	}
	return false
}

// rule names the delimiter that decides the partition (see the package comment).
func (c *segCase) rule() string {
	switch {
	case hasStyp(&c.Layout):
		return "styp"
	case c.Layout.TopSidx:
		return "sidx"
	case c.ism() && c.Layout.Mfra && !c.Layout.MfraNoTfra:
		return "tfra"
	case c.moof():
		return "moof"
	}
	return "none"
}

func fragHasTrack(f *fragbuild.Frag, ti int) bool {
	for _, r := range f.Runs {
		if r.Track == ti {
			return true
		}
	}
	return false
}

// partition returns the expected segments as lists of global fragment indices (file order).
func (c *segCase) partition() [][]int {
	rule := c.rule()
	var out [][]int
	g := 0
	for si := range c.Layout.Segments {
		seg := &c.Layout.Segments[si]
		for fi := range seg.Frags {
			start := false
			switch rule {
			case "styp":
				start = fi == 0 && seg.Styp
			case "sidx":
				start = fi == 0
			case "tfra":
				// fragbuild writes one tfra entry per segment for every track that has a traf in the first
				// moof of the segment; the library reads the first tfra (track index 0)
				start = fi == 0 && fragHasTrack(&seg.Frags[0], 0)
			case "moof":
				start = true
			}
			if start || len(out) == 0 {
				out = append(out, nil)
			}
			out[len(out)-1] = append(out[len(out)-1], g)
			g++
		}
	}
	return out
}

func isEmsg(x *fragbuild.ExtraBox) bool { return x.Type == "emsg" }

// attached: box types that File.AddChild attaches to the fragment that follows (emsg, and prft since the
// repair 17f87a4); the segment-detection findings recorded for emsg apply to both.
func attached(x *fragbuild.ExtraBox) bool { return x.Type == "emsg" || x.Type == "prft" }

// keptPre tells whether a box in front of a moof belongs to the fragment.
func keptPre(typ string, keepPrft bool) bool { return typ == "emsg" || (typ == "prft" && keepPrft) }

// refTrack is the track UpdateSidx uses for times: the first video track, else the first audio track, else
// the first track (mp4/file.go findReferenceTrak; there is no other statement about it).
func refTrack(tracks []fragbuild.Track) int {
	for i := range tracks {
		if tracks[i].Handler == "vide" {
			return i
		}
	}
	for i := range tracks {
		if tracks[i].Handler == "soun" {
			return i
		}
	}
	return 0
}

// addSecondSegSidx inserts a second sidx after every segment-level sidx of the built file and moves the
// offsets of truth accordingly. The second sidx describes track index 1 when there is one and its earliest
// presentation time fits the box version (else it repeats the first one); the first sidx gets
// first_offset = size of the second, so that both still point at the first fragment of the segment.
// Not combined with anything that stores absolute offsets (mfra, tfhd base_data_offset, top-level sidx).
func addSecondSegSidx(c *segCase, file []byte, truth *fragbuild.Truth) ([]byte, map[int]fragbuild.BoxInfo, error) {
	if c.Layout.Mfra || c.Layout.TopSidx {
		return nil, nil, fmt.Errorf("segSidx2 with mfra or top-level sidx")
	}
	for si := range c.Layout.Segments {
		for fi := range c.Layout.Segments[si].Frags {
			if c.Layout.Segments[si].Frags[fi].Opts.Base == 1 {
				return nil, nil, fmt.Errorf("segSidx2 with absolute base_data_offset")
			}
		}
	}
	out := map[int]fragbuild.BoxInfo{}
	shift := func(b *fragbuild.BoxInfo, at, d uint64) {
		if b != nil && b.Offset >= at {
			b.Offset += d
		}
	}
	for si := range truth.Segments {
		sg := &truth.Segments[si]
		if sg.Sidx == nil {
			continue
		}
		first := file[sg.Sidx.Offset : sg.Sidx.Offset+sg.Sidx.Size]
		second := append([]byte(nil), first...)
		version := first[8]
		if len(c.Tracks) > 1 && len(sg.Frags) > 0 {
			t1 := &c.Tracks[1]
			lo := sg.Frags[0].Tracks[1].First
			var dur uint64
			n := 0
			for fi := range sg.Frags {
				r := sg.Frags[fi].Tracks[1]
				for k := r.First; k < r.First+r.N; k++ {
					dur += uint64(t1.Samples[k].Dur)
				}
				n += r.N
			}
			ept := int64(t1.DecodeTime(lo))
			if n > 0 {
				ept += int64(t1.Samples[lo].Cto)
			}
			if ept < 0 {
				ept = 0
			}
			if (version == 1 || ept <= 0xffffffff) && dur <= 0xffffffff {
				binary.BigEndian.PutUint32(second[12:], t1.ID)
				binary.BigEndian.PutUint32(second[16:], t1.Timescale)
				refs := 32 // version 0: 12 + 4 + 4 + 4 + 4 + 4
				if version == 1 {
					binary.BigEndian.PutUint64(second[20:], uint64(ept))
					refs = 40
				} else {
					binary.BigEndian.PutUint32(second[20:], uint32(ept))
				}
				binary.BigEndian.PutUint32(second[refs+4:], uint32(dur))
			}
		}
		// first_offset of the first sidx
		if version == 1 {
			binary.BigEndian.PutUint64(first[28:], uint64(len(second)))
		} else {
			binary.BigEndian.PutUint32(first[24:], uint32(len(second)))
		}
		at := sg.Sidx.Offset + sg.Sidx.Size
		d := uint64(len(second))
		file = append(file[:at:at], append(second, file[at:]...)...)
		// move everything behind the insertion point
		for i := range truth.Boxes {
			shift(&truth.Boxes[i], at, d)
		}
		for k := range out {
			b := out[k]
			shift(&b, at, d)
			out[k] = b
		}
		for sj := range truth.Segments {
			s2 := &truth.Segments[sj]
			if s2.Offset >= at {
				s2.Offset += d
			}
			shift(s2.Styp, at, d)
			if sj != si {
				shift(s2.Sidx, at, d)
			}
			for fi := range s2.Frags {
				ft := &s2.Frags[fi]
				if ft.Offset >= at {
					ft.Offset += d
				}
				for pi := range ft.Pre {
					shift(&ft.Pre[pi], at, d)
				}
				shift(&ft.Moof, at, d)
				shift(&ft.Mdat, at, d)
				if ft.MdatPayload >= at {
					ft.MdatPayload += d
				}
				for ri := range ft.Runs {
					if ft.Runs[ri].DataOffset >= at {
						ft.Runs[ri].DataOffset += d
					}
				}
			}
		}
		sg.Size += d
		nb := fragbuild.BoxInfo{Type: "sidx", Offset: at, Size: d}
		out[si] = nb
		// keep truth.Boxes in file order
		for i := range truth.Boxes {
			if truth.Boxes[i].Offset == at+d {
				truth.Boxes = append(truth.Boxes[:i:i], append([]fragbuild.BoxInfo{nb}, truth.Boxes[i:]...)...)
				break
			}
		}
	}
	return file, out, nil
}

// cutInit turns the truth of a built file into the truth of file[truth.InitSize:].
func cutInit(truth *fragbuild.Truth, sidx2 map[int]fragbuild.BoxInfo) {
	d := truth.InitSize
	var boxes []fragbuild.BoxInfo
	for _, b := range truth.Boxes {
		if b.Offset >= d {
			b.Offset -= d
			boxes = append(boxes, b)
		}
	}
	truth.Boxes = boxes
	mv := func(b *fragbuild.BoxInfo) {
		if b != nil {
			b.Offset -= d
		}
	}
	mv(truth.TopSidx)
	mv(truth.TopSidx2)
	mv(truth.Mfra)
	for k, b := range sidx2 {
		b.Offset -= d
		sidx2[k] = b
	}
	for si := range truth.Segments {
		sg := &truth.Segments[si]
		sg.Offset -= d
		mv(sg.Styp)
		mv(sg.Sidx)
		for fi := range sg.Frags {
			ft := &sg.Frags[fi]
			ft.Offset -= d
			for pi := range ft.Pre {
				mv(&ft.Pre[pi])
			}
			mv(&ft.Moof)
			mv(&ft.Mdat)
			ft.MdatPayload -= d
			for ri := range ft.Runs {
				ft.Runs[ri].DataOffset -= d
			}
		}
	}
	truth.InitSize = 0
}

func checkSeg(c segCase) *harness.Fail {
	var st stats
	return evalSeg(&c, &st)
}

// obox is a top-level box of the input that the default encode mode is expected to emit.
type obox struct {
	in   fragbuild.BoxInfo
	seg  int // expected segment index; -1: init, top-level sidx, mfra
	frag int // global fragment index; -1: not part of a fragment
	role string
}

func decName(c *segCase) string {
	switch c.Decoder {
	case "sr":
		return "DecodeFileSR"
	case "lazy":
		return "DecodeFile(lazy)"
	}
	return "DecodeFile"
}

func decode(c *segCase, file []byte) (*mp4.File, error) {
	var flags mp4.DecFileFlags
	if c.ism() {
		flags |= mp4.DecISMFlag
	}
	if c.moof() {
		flags |= mp4.DecStartOnMoof
	}
	opts := []mp4.Option{mp4.WithDecodeFlags(flags)}
	switch c.Decoder {
	case "sr":
		return mp4.DecodeFileSR(bits.NewFixedSliceReader(file), opts...)
	case "lazy":
		opts = append(opts, mp4.WithDecodeMode(mp4.DecModeLazyMdat))
	}
	return mp4.DecodeFile(bytes.NewReader(file), opts...)
}

func topTypes(bs []fragbuild.BoxInfo) string {
	var sb strings.Builder
	for i, b := range bs {
		if i > 0 {
			sb.WriteByte(' ')
		}
		fmt.Fprintf(&sb, "%s@%d+%d", b.Type, b.Offset, b.Size)
	}
	return sb.String()
}

// topWalk lists the top-level boxes of b (32-bit sizes and largesize); it stops at the first header that
// does not fit and reports that as ok=false.
func topWalk(b []byte) (out []fragbuild.BoxInfo, ok bool) {
	pos := uint64(0)
	for pos < uint64(len(b)) {
		if uint64(len(b))-pos < 8 {
			return out, false
		}
		size := uint64(binary.BigEndian.Uint32(b[pos:]))
		if size == 1 {
			if uint64(len(b))-pos < 16 {
				return out, false
			}
			size = binary.BigEndian.Uint64(b[pos+8:])
		}
		if size < 8 || size > uint64(len(b))-pos {
			return out, false
		}
		out = append(out, fragbuild.BoxInfo{Type: string(b[pos+4 : pos+8]), Offset: pos, Size: size})
		pos += size
	}
	return out, true
}

// sidxBox is what the check needs of a sidx, parsed from the output bytes (14496-12 8.16.3.2).
type sidxBox struct {
	Version     byte
	ReferenceID uint32
	Timescale   uint32
	EPT         uint64
	FirstOffset uint64
	Refs        []sidxRef
}

type sidxRef struct {
	Type     byte
	Size     uint32
	Duration uint32
}

func parseSidx(box []byte) (*sidxBox, error) {
	if len(box) < 12+12 {
		return nil, fmt.Errorf("sidx of %d bytes", len(box))
	}
	p := box[8:]
	s := &sidxBox{Version: p[0]}
	p = p[4:]
	s.ReferenceID = binary.BigEndian.Uint32(p)
	s.Timescale = binary.BigEndian.Uint32(p[4:])
	p = p[8:]
	switch s.Version {
	case 0:
		if len(p) < 8+4 {
			return nil, fmt.Errorf("sidx v0 truncated")
		}
		s.EPT = uint64(binary.BigEndian.Uint32(p))
		s.FirstOffset = uint64(binary.BigEndian.Uint32(p[4:]))
		p = p[8:]
	case 1:
		if len(p) < 16+4 {
			return nil, fmt.Errorf("sidx v1 truncated")
		}
		s.EPT = binary.BigEndian.Uint64(p)
		s.FirstOffset = binary.BigEndian.Uint64(p[8:])
		p = p[16:]
	default:
		return nil, fmt.Errorf("sidx version %d", s.Version)
	}
	n := int(binary.BigEndian.Uint16(p[2:]))
	p = p[4:]
	if len(p) != 12*n {
		return nil, fmt.Errorf("sidx: reference_count %d, %d bytes of references", n, len(p))
	}
	for i := 0; i < n; i++ {
		w := binary.BigEndian.Uint32(p[12*i:])
		s.Refs = append(s.Refs, sidxRef{Type: byte(w >> 31), Size: w & 0x7fffffff, Duration: binary.BigEndian.Uint32(p[12*i+4:])})
	}
	return s, nil
}

// ebox is a top-level box that an encoder output is expected to hold.
type ebox struct {
	typ   string
	data  []byte // the bytes of the box in the input; nil: any content (the sidx written by UpdateSidx)
	inOff uint64 // its offset in the input
	seg   int    // expected segment (-1: none)
	frag  int    // global fragment index (-1: none)
}

// each calls fn for every child box in b[from:to]; it reports whether the children tile the range.
func each(b []byte, from, to int, fn func(typ string, start, end int)) bool {
	for from < to {
		if to-from < 8 {
			return false
		}
		size := int(binary.BigEndian.Uint32(b[from:]))
		if size < 8 || size > to-from {
			return false
		}
		fn(string(b[from+4:from+8]), from, from+size)
		from += size
	}
	return true
}

// withBaseMoved returns a copy of a moof box in which every tfhd.base_data_offset (an absolute file offset,
// 14496-12 8.8.7) is moved by delta, and whether there was one.
func withBaseMoved(moof []byte, delta int64) ([]byte, bool) {
	out := append([]byte(nil), moof...)
	found := false
	each(out, 8, len(out), func(typ string, s, e int) {
		if typ != "traf" {
			return
		}
		each(out, s+8, e, func(typ string, s, e int) {
			if typ == "tfhd" && e-s >= 24 && out[s+11]&1 != 0 {
				v := binary.BigEndian.Uint64(out[s+16:])
				binary.BigEndian.PutUint64(out[s+16:], uint64(int64(v)+delta))
				found = true
			}
		})
	})
	return out, found
}

// withMoofOffsetsMapped returns a copy of an mfra box in which every tfra moof_offset that is a key of m is
// replaced by its value.
func withMoofOffsetsMapped(mfra []byte, m map[uint64]uint64) []byte {
	out := append([]byte(nil), mfra...)
	each(out, 8, len(out), func(typ string, s, e int) {
		if typ != "tfra" || e-s < 24 {
			return
		}
		version := out[s+8]
		l := binary.BigEndian.Uint32(out[s+16:])
		tail := int(l>>4&3) + int(l>>2&3) + int(l&3) + 3
		n := int(binary.BigEndian.Uint32(out[s+20:]))
		p := s + 24
		for i := 0; i < n; i++ {
			if version == 1 {
				if p+16+tail > e {
					return
				}
				if v, ok := m[binary.BigEndian.Uint64(out[p+8:])]; ok {
					binary.BigEndian.PutUint64(out[p+8:], v)
				}
				p += 16 + tail
			} else {
				if p+8+tail > e {
					return
				}
				if v, ok := m[uint64(binary.BigEndian.Uint32(out[p+4:]))]; ok {
					binary.BigEndian.PutUint32(out[p+4:], uint32(v))
				}
				p += 8 + tail
			}
		}
	})
	return out
}

// compareOut compares an encoder output box by box with the expected boxes and returns where each of them
// is in the output. "Byte-identical" is demanded of every box, with two exceptions that follow from what the
// fields mean: when a moof has moved, its tfhd.base_data_offset fields may have moved with it, and the
// tfra.moof_offset fields of an mfra may follow the moofs. (Whether the absolute offsets of the output are
// right is judged separately on the samples and tfra entries of the output.)
func compareOut(who string, got []byte, exp []ebox) ([]uint64, *harness.Fail) {
	gb, tiled := topWalk(got)
	expTypes := func() string {
		var sb strings.Builder
		for i, e := range exp {
			if i > 0 {
				sb.WriteByte(' ')
			}
			if e.data == nil {
				fmt.Fprintf(&sb, "%s(new)", e.typ)
			} else {
				fmt.Fprintf(&sb, "%s@%d+%d", e.typ, e.inOff, len(e.data))
			}
		}
		return sb.String()
	}
	for i := 0; i < len(gb) && i < len(exp); i++ {
		if gb[i].Type != exp[i].typ {
			return nil, harness.Failf("C12|"+who+"|top-level box sequence differs: "+exp[i].typ+" expected", "box %d: got %s, want %s\n got  %s\n want (offsets of the input) %s",
				i, gb[i].Type, exp[i].typ, topTypes(gb), expTypes())
		}
	}
	if len(gb) < len(exp) {
		t := exp[len(gb)].typ
		return nil, harness.Failf("C12|"+who+"|top-level box sequence differs: "+t+" expected", "output ends after %d boxes (%d bytes), %s expected next\n got  %s\n want (offsets of the input) %s",
			len(gb), len(got), t, topTypes(gb), expTypes())
	}
	if len(gb) > len(exp) || !tiled {
		return nil, harness.Failf("C12|"+who+"|top-level box sequence differs: end expected", "output has %d bytes in %d boxes (tiled %v), want %d boxes\n got  %s\n want (offsets of the input) %s",
			len(got), len(gb), tiled, len(exp), topTypes(gb), expTypes())
	}
	pos := make([]uint64, len(exp))
	moofMap := map[uint64]uint64{}
	for i := range exp {
		pos[i] = gb[i].Offset
		if exp[i].typ == "moof" {
			moofMap[exp[i].inOff] = gb[i].Offset
		}
	}
	for i, e := range exp {
		if e.data == nil {
			continue
		}
		g := got[gb[i].Offset : gb[i].Offset+gb[i].Size]
		if bytes.Equal(g, e.data) {
			continue
		}
		if e.typ == "moof" && gb[i].Offset != e.inOff {
			if alt, ok := withBaseMoved(e.data, int64(gb[i].Offset)-int64(e.inOff)); ok && bytes.Equal(g, alt) {
				continue
			}
		}
		if e.typ == "mfra" && bytes.Equal(g, withMoofOffsetsMapped(e.data, moofMap)) {
			continue
		}
		return nil, harness.Failf("C12|"+who+"|"+e.typ+" box not emitted byte-identically", "box %d (%s, at %d in the input, at %d in the output): got %d bytes %s, want %d bytes %s",
			i, e.typ, e.inOff, gb[i].Offset, len(g), harness.HexTrunc(g, 200), len(e.data), harness.HexTrunc(e.data, 200))
	}
	return pos, nil
}

// evalSeg is the oracle. The membership of prft boxes is the one relation that shapes the whole expectation
// (fragment children, first bytes, output bytes); while it is a known finding (switch "prft-dropped") a
// case with prft boxes passes when it holds with the prft boxes kept or, failing that, with them dropped.
func evalSeg(c *segCase, st *stats) *harness.Fail {
	hasPrft := false
	for si := range c.Layout.Segments {
		for fi := range c.Layout.Segments[si].Frags {
			for _, x := range c.Layout.Segments[si].Frags[fi].PreBoxes {
				hasPrft = hasPrft || x.Type == "prft"
			}
		}
	}
	if !hasPrft || !c.avoid("prft-dropped") {
		return evalSegWith(c, st, true)
	}
	var st1 stats
	if evalSegWith(c, &st1, true) == nil {
		for k := range st1.skipped {
			c.skip(st, k)
		}
		return nil
	}
	c.skip(st, "prft-dropped")
	return evalSegWith(c, st, false)
}

func evalSegWith(c *segCase, st *stats, keepPrft bool) *harness.Fail {
	if len(c.Tracks) == 0 || len(c.Layout.Segments) == 0 {
		return harness.Failf("harness|c12|bad-case", "no tracks or no segments")
	}
	switch c.Decoder {
	case "file", "lazy", "sr":
	default:
		return harness.Failf("harness|c12|bad-case", "decoder %q", c.Decoder)
	}
	init, segs, truth, err := fragbuild.Build(c.Tracks, c.Layout)
	if err != nil {
		return harness.Failf("harness|c12|build", "%v", err)
	}
	file := fragbuild.Concat(init, segs, truth)
	var sidx2 map[int]fragbuild.BoxInfo
	if c.SegSidx2 {
		if file, sidx2, err = addSecondSegSidx(c, file, truth); err != nil {
			return harness.Failf("harness|c12|bad-case", "%v", err)
		}
	}
	if c.MediaOnly {
		if c.Tool || c.Layout.Mfra {
			return harness.Failf("harness|c12|bad-case", "mediaOnly with tool or mfra")
		}
		for si := range c.Layout.Segments {
			for fi := range c.Layout.Segments[si].Frags {
				if c.Layout.Segments[si].Frags[fi].Opts.Base == 1 {
					return harness.Failf("harness|c12|bad-case", "mediaOnly with absolute base_data_offset")
				}
			}
		}
		file = file[truth.InitSize:]
		cutInit(truth, sidx2)
	}
	rule := c.rule()
	part := c.partition()
	dec := decName(c)
	if c.MediaOnly {
		dec += " without init segment"
	}

	// ---- the model: fragments in file order, expected segment of each, expected output boxes
	var frags []*fragbuild.FragTruth
	var fragLay []*fragbuild.Frag
	for si := range truth.Segments {
		for fi := range truth.Segments[si].Frags {
			frags = append(frags, &truth.Segments[si].Frags[fi])
			fragLay = append(fragLay, &c.Layout.Segments[si].Frags[fi])
		}
	}
	segOf := make([]int, len(frags))
	firstOfSeg := make([]bool, len(frags))
	for s, fl := range part {
		for k, g := range fl {
			segOf[g] = s
			firstOfSeg[g] = k == 0
		}
	}
	var boxes []obox
	for _, b := range truth.Boxes {
		if b.Offset < truth.InitSize { // none when the init segment was cut off (mediaOnly)
			boxes = append(boxes, obox{in: b, seg: -1, frag: -1, role: "init"})
		}
	}
	if truth.TopSidx != nil {
		boxes = append(boxes, obox{in: *truth.TopSidx, seg: -1, frag: -1, role: "topsidx"})
	}
	if truth.TopSidx2 != nil {
		boxes = append(boxes, obox{in: *truth.TopSidx2, seg: -1, frag: -1, role: "topsidx"})
	}
	g := 0
	for si := range truth.Segments {
		sgt := &truth.Segments[si]
		if len(sgt.Frags) == 0 {
			return harness.Failf("harness|c12|bad-case", "segment %d without fragments", si)
		}
		if sgt.Styp != nil {
			boxes = append(boxes, obox{in: *sgt.Styp, seg: segOf[g], frag: -1, role: "styp"})
		}
		if sgt.Sidx != nil {
			boxes = append(boxes, obox{in: *sgt.Sidx, seg: segOf[g], frag: -1, role: "segsidx"})
		}
		if b2, ok := sidx2[si]; ok {
			boxes = append(boxes, obox{in: b2, seg: segOf[g], frag: -1, role: "segsidx"})
		}
		for fi := range sgt.Frags {
			ft := &sgt.Frags[fi]
			for _, p := range ft.Pre {
				if keptPre(p.Type, keepPrft) {
					boxes = append(boxes, obox{in: p, seg: segOf[g], frag: g, role: "pre"})
				}
			}
			boxes = append(boxes, obox{in: ft.Moof, seg: segOf[g], frag: g, role: "moof"})
			boxes = append(boxes, obox{in: ft.Mdat, seg: segOf[g], frag: g, role: "mdat"})
			g++
		}
	}
	if truth.Mfra != nil {
		boxes = append(boxes, obox{in: *truth.Mfra, seg: -1, frag: -1, role: "mfra"})
	}
	// per fragment: kept boxes (pre + moof + mdat) and first byte
	fragBoxes := make([][]fragbuild.BoxInfo, len(frags))
	for _, b := range boxes {
		if b.frag >= 0 {
			fragBoxes[b.frag] = append(fragBoxes[b.frag], b.in)
		}
	}

	// ---- decode
	f, err := decode(c, file)
	if err != nil {
		return harness.Failf("C12|"+dec+"|error on consistent fragmented file", "rule %s, flags %q: %v", rule, c.Flags, err)
	}
	if c.MediaOnly {
		if !f.IsFragmented() || f.Init != nil {
			return harness.Failf("C12|"+dec+"|media segments not recognised as a fragmented file", "IsFragmented %v Init %v", f.IsFragmented(), f.Init != nil)
		}
	} else if !f.IsFragmented() || f.Init == nil || f.Init.Ftyp == nil || f.Init.Moov == nil {
		return harness.Failf("C12|"+dec+"|init segment missing", "IsFragmented %v Init %v", f.IsFragmented(), f.Init != nil)
	}

	// ---- (1) partition
	type lfrag struct {
		seg int
		fr  *mp4.Fragment
	}
	var lf []lfrag
	var lcounts []int
	for si, s := range f.Segments {
		lcounts = append(lcounts, len(s.Fragments))
		for _, fr := range s.Fragments {
			lf = append(lf, lfrag{si, fr})
		}
	}
	var wcounts []int
	for _, fl := range part {
		wcounts = append(wcounts, len(fl))
	}
	describe := func() string {
		return fmt.Sprintf("rule %s, flags %q; library fragments per segment %v, expected %v; input boxes: %s", rule, c.Flags, lcounts, wcounts, topTypes(truth.Boxes))
	}
	for i, x := range lf {
		if x.fr.Moof == nil || x.fr.Mdat == nil {
			return harness.Failf("C12|"+dec+"|fragment without moof or mdat|rule="+rule, "fragment %d (segment %d): moof %v mdat %v; %s", i, x.seg, x.fr.Moof != nil, x.fr.Mdat != nil, describe())
		}
	}
	if len(lf) != len(frags) {
		return harness.Failf("C12|"+dec+"|number of fragments differs|rule="+rule, "library %d, file has %d moof/mdat pairs; %s", len(lf), len(frags), describe())
	}
	for i, x := range lf {
		ft := frags[i]
		if x.fr.Moof.StartPos != ft.Moof.Offset || x.fr.Moof.Size() != ft.Moof.Size || x.fr.Mdat.StartPos != ft.Mdat.Offset || x.fr.Mdat.Size() != ft.Mdat.Size {
			return harness.Failf("C12|"+dec+"|moof/mdat pair differs from the file", "fragment %d: library moof %d+%d mdat %d+%d, file moof %+v mdat %+v", i,
				x.fr.Moof.StartPos, x.fr.Moof.Size(), x.fr.Mdat.StartPos, x.fr.Mdat.Size(), ft.Moof, ft.Mdat)
		}
		if x.fr.Moof.Mfhd == nil || x.fr.Moof.Mfhd.SequenceNumber != ft.Seq {
			return harness.Failf("C12|"+dec+"|fragments out of order", "fragment %d: sequence number differs from %d", i, ft.Seq)
		}
	}
	if len(f.Segments) != len(part) {
		return harness.Failf("C12|"+dec+"|number of segments differs|rule="+rule, "library %d segments, expected %d; %s", len(f.Segments), len(part), describe())
	}
	for i := range lcounts {
		if lcounts[i] != wcounts[i] {
			return harness.Failf("C12|"+dec+"|segment boundaries differ|rule="+rule, "%s", describe())
		}
	}
	// what hangs on the segments and fragments
	firstByte := func(g int) uint64 { return fragBoxes[g][0].Offset }
	for i, x := range lf {
		want := fragBoxes[i]
		ok := len(x.fr.Children) == len(want)
		for k := 0; ok && k < len(want); k++ {
			ok = x.fr.Children[k].Type() == want[k].Type && x.fr.Children[k].Size() == want[k].Size
		}
		if !ok {
			var got []string
			for _, ch := range x.fr.Children {
				got = append(got, fmt.Sprintf("%s+%d", ch.Type(), ch.Size()))
			}
			key := "C12|" + dec + "|fragment children differ from the boxes of the fragment"
			// name the two documented memberships separately
			nEmsgGot, nEmsgWant, nPrftGot, nPrftWant := 0, 0, 0, 0
			for _, ch := range x.fr.Children {
				switch ch.Type() {
				case "emsg":
					nEmsgGot++
				case "prft":
					nPrftGot++
				}
			}
			for _, w := range want {
				switch w.Type {
				case "emsg":
					nEmsgWant++
				case "prft":
					nPrftWant++
				}
			}
			switch {
			case nPrftGot != nPrftWant:
				key = "C12|" + dec + "|prft in front of a moof not kept with its fragment"
			case nEmsgGot != nEmsgWant:
				// whose emsg boxes are they? surplus ones belong to the next fragment
				owner := i
				if nEmsgGot > nEmsgWant && i+1 < len(lf) {
					owner = i + 1
				}
				key = "C12|" + dec + "|emsg in front of a moof not kept with its fragment|inside a segment"
				if firstOfSeg[owner] {
					key = "C12|" + dec + "|emsg in front of a moof not kept with its fragment|at a segment start, rule=" + rule
				}
			}
			// with KeepMidEmsg: the same children apart from where the emsg boxes ended up?
			sameButEmsg := func() bool {
				var a, b []string
				for _, ch := range x.fr.Children {
					if ch.Type() != "emsg" {
						a = append(a, fmt.Sprintf("%s+%d", ch.Type(), ch.Size()))
					}
				}
				for _, w := range want {
					if w.Type != "emsg" {
						b = append(b, fmt.Sprintf("%s+%d", w.Type, w.Size))
					}
				}
				return strings.Join(a, " ") == strings.Join(b, " ")
			}
			midNext := i+1 < len(lf) && !firstOfSeg[i+1] // the next fragment's emsg boxes land here
			if c.KeepMidEmsg && (!firstOfSeg[i] || (midNext && nEmsgGot > nEmsgWant)) && sameButEmsg() && c.skip(st, "emsg-mid-segment-in-previous-fragment") {
				// the recorded finding (the emsg is attached to the preceding fragment, behind its mdat): the attachment is
				// not judged, everything else is: in particular the bytes must stay where they are on re-encoding
				continue
			}
			return harness.Failf(key, "fragment %d (segment %d): Children %v, boxes of the fragment in the file %s; %s", i, x.seg, got, topTypes(want), describe())
		}
		if x.fr.StartPos != firstByte(i) {
			return harness.Failf("C12|"+dec+"|Fragment.StartPos is not the first byte of the fragment", "fragment %d: StartPos %d, expected %d; %s", i, x.fr.StartPos, firstByte(i), describe())
		}
	}
	for s, fl := range part {
		ls := f.Segments[s]
		// layout segment that opens this expected segment
		var sgt *fragbuild.SegTruth
		for si := range truth.Segments {
			if &truth.Segments[si].Frags[0] == frags[fl[0]] {
				sgt = &truth.Segments[si]
			}
		}
		wantStyp := sgt != nil && sgt.Styp != nil
		if (ls.Styp != nil) != wantStyp {
			return harness.Failf("C12|"+dec+"|styp not attached to its segment", "segment %d: Styp %v, file %v; %s", s, ls.Styp != nil, wantStyp, describe())
		}
		wantSidx := 0
		if sgt != nil && sgt.Sidx != nil {
			wantSidx = 1
			if _, ok := sidx2[sgt.Index]; ok {
				wantSidx = 2
			}
		}
		if len(ls.Sidxs) != wantSidx || (ls.Sidx != nil) != (wantSidx >= 1) {
			return harness.Failf("C12|"+dec+"|segment-level sidx not attached to its segment", "segment %d: %d sidx, file %d; %s", s, len(ls.Sidxs), wantSidx, describe())
		}
		wantStart := firstByte(fl[0])
		if wantStyp {
			wantStart = sgt.Styp.Offset
		}
		if ls.StartPos != wantStart {
			return harness.Failf("C12|"+dec+"|MediaSegment.StartPos is not the first byte of the segment|rule="+rule, "segment %d: StartPos %d, expected %d; %s", s, ls.StartPos, wantStart, describe())
		}
	}
	wantTop := 0
	if truth.TopSidx != nil {
		wantTop = 1
	}
	if truth.TopSidx2 != nil {
		wantTop = 2
	}
	if len(f.Sidxs) != wantTop || (f.Sidx != nil) != (wantTop >= 1) {
		return harness.Failf("C12|"+dec+"|top-level sidx not kept on the file", "File.Sidxs %d, file has %d; %s", len(f.Sidxs), wantTop, describe())
	}
	if (f.Mfra != nil) != (truth.Mfra != nil) {
		return harness.Failf("C12|"+dec+"|mfra not kept on the file", "File.Mfra %v, file %v", f.Mfra != nil, truth.Mfra != nil)
	}
	if c.Decoder == "lazy" {
		// the mdat payload is not in memory: encoders write headers only (documented), nothing to compare
		return nil
	}

	// ---- (2) default segment-mode encode == the kept boxes of the input, in order
	var exp []ebox
	for _, b := range boxes {
		exp = append(exp, ebox{typ: b.in.Type, data: file[b.in.Offset : b.in.Offset+b.in.Size], inOff: b.in.Offset, seg: b.seg, frag: b.frag})
	}
	var out bytes.Buffer
	if err := f.Encode(&out); err != nil {
		return harness.Failf("C12|File.Encode|error on decoded file|rule="+rule, "%v; %s", err, describe())
	}
	if _, fail := compareOut("File.Encode", out.Bytes(), exp); fail != nil {
		return fail
	}
	sw := bits.NewFixedSliceWriter(int(f.Size()) + 64)
	if err := f.EncodeSW(sw); err != nil {
		return harness.Failf("C12|File.EncodeSW|error on decoded file|rule="+rule, "%v; %s", err, describe())
	}
	if _, fail := compareOut("File.EncodeSW", sw.Bytes(), exp); fail != nil {
		// not judged under the switch: the same output without the mfra
		lenient := false
		if truth.Mfra != nil && c.skip(st, "encodesw-drops-mfra") {
			_, fail2 := compareOut("File.EncodeSW", sw.Bytes(), exp[:len(exp)-1])
			lenient = fail2 == nil
		}
		if !lenient {
			if !bytes.Equal(sw.Bytes(), out.Bytes()) && strings.Contains(fail.Key, "mfra expected") {
				fail.Key = "C12|File.EncodeSW|mfra written by Encode is missing"
			}
			return fail
		}
	}

	if truth.TopSidx2 != nil {
		// an index split over two chained sidx boxes: grouping (1) and re-encoding (2) are judged; which of the two
		// boxes UpdateSidx is to maintain is not defined by the statement
		return nil
	}
	// ---- (3) UpdateSidx + Encode
	// a segment in which the reference track lasts 2^32 ticks or more cannot be indexed
	segDurBeyond32 := func() bool {
		ri := refTrack(c.Tracks)
		for i := range part {
			var dur uint64
			for _, g := range part[i] {
				tr := frags[g].Tracks[ri]
				for k := tr.First; k < tr.First+tr.N; k++ {
					dur += uint64(c.Tracks[ri].Samples[k].Dur)
				}
			}
			if dur > 0xffffffff {
				return true
			}
		}
		return false
	}
	existed := truth.TopSidx != nil
	var o []byte
	if c.MediaOnly {
		// no init segment: nothing names the reference track; an error is the only sensible answer
		if err := f.UpdateSidx(c.AddIfNotExists, c.NonZeroEPT); err == nil {
			return harness.Failf("C12|File.UpdateSidx|no error without init segment", "UpdateSidx(%v, %v) returned nil; %s", c.AddIfNotExists, c.NonZeroEPT, describe())
		}
		return nil
	}
	if c.Tool {
		var fail *harness.Fail
		if o, fail = runAddSidx(c, file, st); fail != nil {
			if fail.Key == "C12|add-sidx|error on valid input" && segDurBeyond32() {
				st.refused = true
				return nil
			}
			return fail
		}
	} else {
		if c.ReadFirst {
			for _, sg := range f.Segments {
				for _, fr := range sg.Fragments {
					func() {
						defer func() { _ = recover() }()
						_, _ = fr.GetFullSamples(nil)
					}()
				}
			}
		}
		if err := f.UpdateSidx(c.AddIfNotExists, c.NonZeroEPT); err != nil {
			if segDurBeyond32() {
				// subsegment_duration has 32 bits: an error is the correct answer
				st.refused = true
				return nil
			}
			return harness.Failf("C12|File.UpdateSidx|error on decoded file", "%v; %s", err, describe())
		}
		if c.Twice {
			if err := f.UpdateSidx(c.AddIfNotExists, c.NonZeroEPT); err != nil {
				return harness.Failf("C12|File.UpdateSidx|error on the second call", "%v; %s", err, describe())
			}
		}
		out.Reset()
		if err := f.Encode(&out); err != nil {
			return harness.Failf("C12|File.Encode|error after UpdateSidx", "%v; %s", err, describe())
		}
		o = out.Bytes()
	}
	who3 := "UpdateSidx+Encode"
	if c.Twice && !c.Tool {
		who3 = "UpdateSidx twice+Encode"
	}
	// the SliceWriter encoder after UpdateSidx: File.Size ("total size of what Encode writes") bytes must do,
	// and hold what Encode wrote
	swAfter := func(exp []ebox) *harness.Fail {
		if c.Tool {
			return nil
		}
		sw := bits.NewFixedSliceWriter(int(f.Size()))
		if err := f.EncodeSW(sw); err != nil {
			return harness.Failf("C12|File.EncodeSW|error after UpdateSidx in a buffer of File.Size bytes", "Size() %d, Encode wrote %d bytes: %v; %s", f.Size(), len(o), err, describe())
		}
		if _, fail := compareOut("UpdateSidx+EncodeSW", sw.Bytes(), exp); fail != nil {
			return fail
		}
		if !bytes.Equal(sw.Bytes(), o) {
			return harness.Failf("C12|UpdateSidx+EncodeSW|output differs from that of Encode", "EncodeSW %d bytes, Encode %d bytes; %s", len(sw.Bytes()), len(o), describe())
		}
		return nil
	}
	if !existed && !c.AddIfNotExists {
		// nothing to update, nothing to add: same output as before
		if _, fail := compareOut("UpdateSidx(false,_)+Encode", o, exp); fail != nil {
			return fail
		}
		return swAfter(exp)
	}
	// expected: init boxes, one sidx, then the media boxes unchanged (a previous top-level sidx replaced)
	var exp3 []ebox
	sidxAt := -1
	dropped := len(boxes) != len(truth.Boxes)
	for i, b := range boxes {
		if b.role == "topsidx" {
			continue
		}
		if b.role != "init" && sidxAt < 0 {
			sidxAt = len(exp3)
			exp3 = append(exp3, ebox{typ: "sidx", seg: -1, frag: -1})
		}
		e := exp[i]
		if c.Tool && c.RemoveEnc && e.typ == "moof" {
			e.data = nil // encryption boxes are taken out of the traf boxes: judged through the samples below
		}
		exp3 = append(exp3, e)
	}
	pos, fail := compareOut(who3, o, exp3)
	if fail != nil {
		if strings.HasSuffix(fail.Key, "sequence differs: sidx expected") {
			fail.Key = "C12|" + who3 + "|no top-level sidx directly after the init boxes"
		}
		return fail
	}
	if fail := swAfter(exp3); fail != nil {
		return fail
	}
	// tile judges the index of an output: exp3 is the expected box sequence, pos the positions compareOut found
	// for it, sidxAt the place of the sidx in exp3, nSeg the number of segments written
	ri := refTrack(c.Tracks)
	rt := &c.Tracks[ri]
	tile := func(o []byte, exp3 []ebox, pos []uint64, sidxAt int, nSeg int) (*sidxBox, []uint64, []uint64, uint64, uint64, *harness.Fail) {
		sidxEnd := pos[sidxAt+1]
		segStart := make([]uint64, nSeg) // first byte of each segment in the output
		moofPos := make([]uint64, len(frags))
		mediaEnd := uint64(len(o))
		seen := map[int]bool{}
		for i, e := range exp3 {
			if e.seg >= 0 && !seen[e.seg] {
				seen[e.seg] = true
				segStart[e.seg] = pos[i]
			}
			if e.typ == "moof" {
				moofPos[e.frag] = pos[i]
			}
			if e.typ == "mfra" {
				mediaEnd = pos[i]
			}
		}
		sx, err := parseSidx(o[pos[sidxAt]:sidxEnd])
		if err != nil {
			return nil, nil, nil, 0, 0, harness.Failf("C12|UpdateSidx+Encode|sidx box malformed", "%v: %x", err, o[pos[sidxAt]:sidxEnd])
		}
		// the references tile the media (14496-12 8.16.3.3: the first referenced item starts at the anchor = first
		// byte after the sidx + first_offset; every further one directly after the preceding one)
		if len(sx.Refs) != nSeg {
			return nil, nil, nil, 0, 0, harness.Failf("C12|UpdateSidx|reference_count differs from the number of segments|rule="+rule, "%d references, %d segments; %s", len(sx.Refs), nSeg, describe())
		}
		at := sidxEnd + sx.FirstOffset
		for i, r := range sx.Refs {
			if at != segStart[i] {
				key := "C12|UpdateSidx|reference does not start at the first byte of its segment|rule=" + rule
				if i == 0 {
					key = "C12|UpdateSidx|first reference does not start at the first byte of the first segment"
				}
				return nil, nil, nil, 0, 0, harness.Failf(key, "reference %d starts at %d, segment %d at %d (end of sidx %d, first_offset %d); references %+v; %s", i, at, i, segStart[i], sidxEnd, sx.FirstOffset, sx.Refs, describe())
			}
			at += uint64(r.Size)
			var dur uint64
			for _, g := range part[i] {
				tr := frags[g].Tracks[ri]
				for k := tr.First; k < tr.First+tr.N; k++ {
					dur += uint64(rt.Samples[k].Dur)
				}
			}
			if r.Type != 0 {
				return nil, nil, nil, 0, 0, harness.Failf("C12|UpdateSidx|reference_type not media", "reference %d: %+v", i, r)
			}
			if dur > 0xffffffff && c.skip(st, "sidx-duration-wraps") {
				continue
			}
			if uint64(r.Duration) != dur {
				if dur > 0xffffffff {
					return nil, nil, nil, 0, 0, harness.Failf("C12|UpdateSidx|no error for a segment whose duration does not fit subsegment_duration", "reference %d: duration %d, track index %d (ID %d) has %d (%#x) in segment %d: 32 bits cannot hold it, UpdateSidx returned nil; %s", i, r.Duration, ri, rt.ID, dur, dur, i, describe())
				}
				return nil, nil, nil, 0, 0, harness.Failf("C12|UpdateSidx|subsegment_duration differs from the summed sample durations of the reference track", "reference %d: duration %d, track index %d (ID %d) has %d in segment %d; %s", i, r.Duration, ri, rt.ID, dur, i, describe())
			}
		}
		if at != mediaEnd {
			return nil, nil, nil, 0, 0, harness.Failf("C12|UpdateSidx|references do not end at the end of the media|rule="+rule, "last reference ends at %d, media ends at %d (file %d); %+v; %s", at, mediaEnd, len(o), sx.Refs, describe())
		}
		return sx, segStart, moofPos, sidxEnd, mediaEnd, nil
	}
	sx, segStart, moofPos, sidxEnd, mediaEnd, fail := tile(o, exp3, pos, sidxAt, len(part))
	if fail != nil {
		return fail
	}
	// ---- (3b) the same after the last segments were taken off File.Segments (second decode of the input)
	if c.DropLast > 0 && !c.Tool && truth.Mfra == nil && len(part) > 1 {
		k := len(part) - c.DropLast
		if k < 1 {
			k = 1
		}
		f2, err := decode(c, file)
		if err != nil || len(f2.Segments) != len(part) {
			return harness.Failf("C12|"+dec+"|second decode of the same input differs", "%v, %d segments; %s", err, len(f2.Segments), describe())
		}
		f2.Segments = f2.Segments[:k]
		st.dropped = fmt.Sprintf("history:drop-last-segments-then-UpdateSidx(existing index: %v)", existed)
		if err := f2.UpdateSidx(c.AddIfNotExists, c.NonZeroEPT); err != nil {
			return harness.Failf("C12|File.UpdateSidx|error on decoded file", "after dropping %d of %d segments: %v; %s", len(part)-k, len(part), err, describe())
		}
		var out2 bytes.Buffer
		if err := f2.Encode(&out2); err != nil {
			return harness.Failf("C12|File.Encode|error after UpdateSidx", "after dropping %d of %d segments: %v; %s", len(part)-k, len(part), err, describe())
		}
		var exp3d []ebox
		for _, e := range exp3 {
			if e.seg < k {
				exp3d = append(exp3d, e)
			}
		}
		pos2, fail := compareOut("drop last segments+UpdateSidx+Encode", out2.Bytes(), exp3d)
		if fail != nil {
			return fail
		}
		if _, _, _, _, _, fail := tile(out2.Bytes(), exp3d, pos2, sidxAt, k); fail != nil {
			fail.Msg = fmt.Sprintf("after dropping the last %d of %d segments: %s", len(part)-k, len(part), fail.Msg)
			return fail
		}
	}
	if sx.Timescale != rt.Timescale {
		return harness.Failf("C12|UpdateSidx|timescale differs from the reference track", "sidx %d, track ID %d has %d", sx.Timescale, rt.ID, rt.Timescale)
	}
	if sx.ReferenceID != rt.ID && !(sx.ReferenceID == 1 && c.skip(st, "sidx-reference-id-hardcoded")) {
		return harness.Failf("C12|UpdateSidx|reference_ID is not the ID of the reference track", "reference_ID %d, reference track (index %d, handler %s) has ID %d", sx.ReferenceID, ri, rt.Handler, rt.ID)
	}
	// earliest presentation time
	if !c.NonZeroEPT {
		if sx.EPT != 0 {
			return harness.Failf("C12|UpdateSidx|earliest_presentation_time not 0 without nonZeroEPT", "EPT %d", sx.EPT)
		}
	} else {
		// presentation time of the first sample of the reference track in the first segment
		first, inFirstTrun := -1, false
		for k, g := range part[0] {
			tr := frags[g].Tracks[ri]
			if tr.N > 0 && first < 0 {
				first = tr.First
				// is it the first sample of the first trun of the track in the first fragment of the segment?
				if k == 0 {
					for _, r := range frags[g].Runs {
						if r.Track == ri {
							inFirstTrun = r.N > 0
							break
						}
					}
				}
			}
		}
		if first >= 0 {
			pt := int64(rt.DecodeTime(first)) + int64(rt.Samples[first].Cto)
			switch {
			case pt < 0: // negative presentation time: nothing to demand
			case sx.EPT == uint64(pt):
			case !inFirstTrun && c.skip(st, "sidx-ept-first-fragment-only"):
			default:
				key := "C12|UpdateSidx|earliest_presentation_time differs from the first sample of the reference track"
				if !inFirstTrun {
					key += " (track starts after the first trun of the first fragment)"
				}
				return harness.Failf(key, "EPT %d, sample %d of track ID %d: decode time %d + cto %d = %d; %s", sx.EPT, first, rt.ID, rt.DecodeTime(first), rt.Samples[first].Cto, pt, describe())
			}
		}
	}

	// the output as a file: all samples are still where the moofs say
	p, rerr := fragbuild.Read(o)
	if rerr != nil {
		key := "C12|UpdateSidx+Encode|sample positions of the output are not valid"
		for _, fl := range fragLay {
			if fl.Opts.Base == 1 {
				key = "C12|UpdateSidx+Encode|sample positions of the output are not valid (tfhd base_data_offset)"
			}
		}
		ob, _ := topWalk(o)
		return harness.Failf(key, "independent reader on the output: %v; input boxes %s; output boxes %s", rerr, topTypes(truth.Boxes), topTypes(ob))
	}
	for ti := range c.Tracks {
		tr := &c.Tracks[ti]
		got := p.TrackSamples(tr.ID)
		n := truth.Consumed[ti]
		if len(got) != n {
			return harness.Failf("C12|UpdateSidx+Encode|samples read back from the output differ", "track ID %d: %d samples, model %d", tr.ID, len(got), n)
		}
		tm := tr.StartTime
		for i := 0; i < n; i++ {
			w, gs := &tr.Samples[i], &got[i]
			if gs.Dur != w.Dur || gs.Flags != w.Flags || int32(gs.Cto) != w.Cto || gs.DecodeTime != tm || !bytes.Equal(gs.Data, w.Data) {
				key := "C12|UpdateSidx+Encode|samples read back from the output differ"
				for _, fl := range fragLay {
					if fl.Opts.Base == 1 {
						key = "C12|UpdateSidx+Encode|sample positions of the output are not valid (tfhd base_data_offset)"
					}
				}
				return harness.Failf(key, "track ID %d sample %d: got dur %d flags %#x cto %d time %d data %x (at %d); model dur %d flags %#x cto %d time %d data %x",
					tr.ID, i, gs.Dur, gs.Flags, gs.Cto, gs.DecodeTime, gs.Data, gs.Offset, w.Dur, w.Flags, w.Cto, tm, w.Data)
			}
			tm += uint64(w.Dur)
		}
	}
	// segment-level sidx boxes still end at the end of their segment (they are emitted unchanged, so this can
	// only be demanded when no top-level box inside the segments was dropped)
	if !dropped {
		for k := range p.Sidxs {
			s := &p.Sidxs[k]
			if s.Box.Offset < sidxEnd {
				continue
			}
			if c.Tool && c.RemoveEnc {
				// -removeEnc shrinks the moof boxes; the tool (like UpdateSidx) maintains the top-level index only,
				// which is what the property speaks about: no claim on the segment-level ones here
				continue
			}
			end := s.Anchor
			for _, r := range s.Refs {
				end += uint64(r.Size)
			}
			ok := end == mediaEnd
			for _, st := range segStart {
				if end == st {
					ok = true
				}
			}
			if !ok {
				return harness.Failf("C12|UpdateSidx+Encode|segment-level sidx no longer ends at a segment end", "sidx at %d ends at %d", s.Box.Offset, end)
			}
		}
	}
	// tfra entries still lead to their moofs
	if p.Mfra != nil && !c.skip(st, "mfra-stale-after-updatesidx") {
		ntf := len(c.Tracks)
		if c.Layout.MfraFirstTrackOnly {
			ntf = 1
		}
		if len(p.Mfra.Tfras) != ntf {
			return harness.Failf("C12|UpdateSidx+Encode|mfra changed", "%d tfra, input %d", len(p.Mfra.Tfras), ntf)
		}
		for ti := 0; ti < ntf; ti++ {
			var wantOff []uint64
			g := 0
			for si := range c.Layout.Segments {
				if fragHasTrack(&c.Layout.Segments[si].Frags[0], ti) {
					wantOff = append(wantOff, moofPos[g])
				}
				g += len(c.Layout.Segments[si].Frags)
			}
			es := p.Mfra.Tfras[ti].Entries
			if len(es) != len(wantOff) {
				return harness.Failf("C12|UpdateSidx+Encode|mfra changed", "tfra %d: %d entries, input %d", ti, len(es), len(wantOff))
			}
			for k := range es {
				if es[k].MoofOffset != wantOff[k] {
					return harness.Failf("C12|UpdateSidx+Encode|tfra moof_offset does not lead to its moof in the output", "tfra %d entry %d: moof_offset %d, the moof is at %d in the output", ti, k, es[k].MoofOffset, wantOff[k])
				}
			}
		}
	}
	return nil
}

// ---------------------------------------------------------------------------------------------
// generator

var (
	stsdOnce             sync.Once
	videoStsd, audioStsd []byte
)

func harvested() ([]byte, []byte) {
	stsdOnce.Do(func() {
		v, a, err := fragbuild.HarvestStsd(harness.E.RepoDir)
		if err == nil {
			videoStsd, audioStsd = v, a
		}
	})
	return videoStsd, audioStsd
}

func be32(v uint32) []byte { return []byte{byte(v >> 24), byte(v >> 16), byte(v >> 8), byte(v)} }
func be64(v uint64) []byte { return append(be32(uint32(v>>32)), be32(uint32(v))...) }
func cat(parts ...[]byte) []byte {
	var out []byte
	for _, p := range parts {
		out = append(out, p...)
	}
	return out
}

func mkExtra(kind string, data []byte, refTrack uint32) fragbuild.ExtraBox {
	switch kind {
	case "emsg0":
		return fragbuild.ExtraBox{Type: "emsg", Payload: cat(be32(0), []byte("urn:c12\x00"), []byte("v\x00"), be32(1000), be32(5), be32(7), be32(42), data)}
	case "emsg1":
		return fragbuild.ExtraBox{Type: "emsg", Payload: cat(be32(1<<24), be32(1000), be64(1<<33), be32(7), be32(43), []byte("urn:c12\x00"), []byte("\x00"), data)}
	case "prft0":
		return fragbuild.ExtraBox{Type: "prft", Payload: cat(be32(0), be32(refTrack), be64(0xe000000000000000), be32(1234))}
	case "prft1":
		return fragbuild.ExtraBox{Type: "prft", Payload: cat(be32(1<<24), be32(refTrack), be64(0xe000000000000000), be64(1<<33))}
	case "uuid":
		u := make([]byte, 16)
		for i := range u {
			u[i] = byte(0xf0 + i)
		}
		return fragbuild.ExtraBox{Type: "uuid", UUID: u, Payload: data}
	}
	return fragbuild.ExtraBox{Type: kind, Payload: data}
}

var preKinds = []string{"emsg0", "emsg1", "emsg0", "emsg1", "prft0", "prft1", "free", "skip", "uuid", "zzzz"}
var innerKinds = []string{"free", "uuid", "abcd", "skip"}

func genExtras(t *rapid.T, label string, counts []int, kinds []string, refTrack uint32) []fragbuild.ExtraBox {
	n := rapid.SampledFrom(counts).Draw(t, label)
	var out []fragbuild.ExtraBox
	for i := 0; i < n; i++ {
		k := rapid.SampledFrom(kinds).Draw(t, "extraKind")
		data := rapid.SliceOfN(rapid.Byte(), 0, 6).Draw(t, "extraData")
		out = append(out, mkExtra(k, data, refTrack))
	}
	return out
}

// pieces cuts n into k parts; positive: every part >= 1 (needs n >= k).
func pieces(t *rapid.T, n, k int, positive bool) []int {
	base := 0
	if positive {
		base = 1
		n -= k
	}
	out := make([]int, k)
	if k == 1 {
		out[0] = n + base
		return out
	}
	var cuts []int
	if n > 0 && rapid.IntRange(0, 2).Draw(t, "evenSplit") == 0 {
		for f := 1; f < k; f++ {
			cuts = append(cuts, f*n/k)
		}
	} else {
		cuts = rapid.SliceOfN(rapid.IntRange(0, n), k-1, k-1).Draw(t, "cuts")
		sort.Ints(cuts)
	}
	prev := 0
	for i := 0; i < k-1; i++ {
		out[i] = cuts[i] - prev + base
		prev = cuts[i]
	}
	out[k-1] = n - prev + base
	return out
}

const (
	modeNone        = "none"
	modeMoof        = "moof"
	modeStyp        = "styp"
	modeStypSegSidx = "styp+segsidx"
	modeStypTopSidx = "styp+topsidx"
	modeTopSidx     = "topsidx"
	modeIsm         = "ism"
)

var modes = []string{modeNone, modeMoof, modeStyp, modeStypSegSidx, modeStypTopSidx, modeTopSidx, modeTopSidx, modeIsm, modeIsm}

func genCase(t *rapid.T) (segCase, string) {
	v, a := harvested()
	tracks := fragbuild.GenTracks(t, fragbuild.GenOpt{MaxTracks: 3, MaxSamples: harness.Pick(24, 32), VideoStsd: v, AudioStsd: a})
	c := segCase{Tracks: tracks}
	mode := rapid.SampledFrom(modes).Draw(t, "mode")
	ri := refTrack(tracks)
	// one case in twelve (modes without sidx boxes in the input: a reference cannot hold such a duration):
	// 2..3 samples of the reference track last 2^31 .. 2^32-1 ticks, so that a segment can last more than 2^32
	if mode != modeStypSegSidx && mode != modeStypTopSidx && mode != modeTopSidx && len(tracks[ri].Samples) >= 2 &&
		rapid.IntRange(0, 11).Draw(t, "hugeDurs") == 0 {
		rt := &tracks[ri]
		k := rapid.IntRange(2, min(3, len(rt.Samples))).Draw(t, "hugeDurCount")
		first := rapid.IntRange(0, len(rt.Samples)-k).Draw(t, "hugeDurFirst")
		for i := first; i < first+k; i++ {
			rt.Samples[i].Dur = rapid.SampledFrom([]uint32{0x7fffffff, 0x80000000, 0xffffffff}).Draw(t, "hugeDur")
		}
	}
	lay := &c.Layout

	// which tracks get a tfra
	lay.Mfra = mode == modeIsm || rapid.IntRange(0, 3).Draw(t, "mfra") == 0
	if lay.Mfra && rapid.IntRange(0, 2).Draw(t, "mfraLenSizes") == 0 {
		// traf / trun / sample numbers of the tfra entries in 1-4 bytes each
		lay.MfraLenSizes = rapid.IntRange(1, 63).Draw(t, "mfraLenSizesValue")
	}
	if lay.Mfra {
		lay.MfraFirstTrackOnly = rapid.Bool().Draw(t, "mfraFirstOnly")
	}
	if lay.Mfra && mode != modeIsm && rapid.IntRange(0, 3).Draw(t, "mfraNoTfra") == 0 {
		lay.MfraNoTfra = true // an mfra that holds its mfro only: no random access table to segment by
	}
	needed := make([]bool, len(tracks)) // ism: tracks that must have samples in every fragment
	if mode == modeIsm {
		for ti := range tracks {
			needed[ti] = ti == 0 || !lay.MfraFirstTrackOnly
		}
	}

	// segments x fragments
	segCounts := []int{1, 1, 2, 2, 3, 4, 5, 6}
	fragCounts := []int{1, 1, 2, 2, 3, 4}
	var nFrags []int
	switch mode {
	case modeNone:
		nFrags = []int{rapid.SampledFrom(fragCounts).Draw(t, "nfrag")}
	case modeMoof:
		nFrags = []int{rapid.IntRange(1, 6).Draw(t, "nfrag")}
	case modeIsm:
		// every tfra track has samples in every fragment, so that all tfra boxes list the same moofs
		budget := 12
		for ti := range tracks {
			if needed[ti] && len(tracks[ti].Samples) < budget {
				budget = len(tracks[ti].Samples)
			}
		}
		if budget == 0 {
			// a tfra track without samples: one fragment, no flag from the mode
			mode = modeNone
			nFrags = []int{1}
			for ti := range needed {
				needed[ti] = false
			}
		} else {
			maxSeg := 6
			if budget < maxSeg {
				maxSeg = budget
			}
			n := rapid.IntRange(1, maxSeg).Draw(t, "nseg")
			multi := rapid.IntRange(0, 2).Draw(t, "ismMultiFrag") == 0 // ISM files proper have one fragment per segment
			left := budget - n
			for i := 0; i < n; i++ {
				nf := 1
				if multi && left > 0 {
					extra := rapid.IntRange(0, min(3, left)).Draw(t, "nfragExtra")
					nf += extra
					left -= extra
				}
				nFrags = append(nFrags, nf)
			}
		}
	default:
		n := rapid.SampledFrom(segCounts).Draw(t, "nseg")
		for i := 0; i < n; i++ {
			nFrags = append(nFrags, rapid.SampledFrom(fragCounts).Draw(t, "nfrag"))
		}
	}
	total := 0
	for _, n := range nFrags {
		total += n
	}
	counts := make([][]int, len(tracks))
	// one case in three: the reference track (the one the index takes its durations and times from) has a
	// sample in every segment (in every fragment when each fragment is to be a segment), if it has enough
	refEvery := rapid.IntRange(0, 2).Draw(t, "refInEverySegment") == 0
	for ti := range tracks {
		n := len(tracks[ti].Samples)
		switch {
		case ti == ri && refEvery && !needed[ti] && mode == modeMoof && n >= total:
			counts[ti] = pieces(t, n, total, true)
		case ti == ri && refEvery && !needed[ti] && mode != modeMoof && len(nFrags) > 1 && n >= len(nFrags):
			perSeg := pieces(t, n, len(nFrags), true)
			for si, nf := range nFrags {
				counts[ti] = append(counts[ti], pieces(t, perSeg[si], nf, false)...)
			}
		default:
			counts[ti] = pieces(t, n, total, needed[ti])
		}
	}

	styp := mode == modeStyp || mode == modeStypSegSidx || mode == modeStypTopSidx
	lay.TopSidx = mode == modeTopSidx || mode == modeStypTopSidx
	if lay.TopSidx && rapid.IntRange(0, 3).Draw(t, "topSidxGap") == 0 {
		// a free box between the index and the indexed material, announced in first_offset
		lay.TopSidxGap = rapid.SampledFrom([]int{8, 9, 16, 24, 100}).Draw(t, "topSidxGapSize")
		lay.TopSidxGapLarge = lay.TopSidxGap >= 16 && rapid.IntRange(0, 2).Draw(t, "topSidxGapLarge") == 0
	}
	if lay.TopSidx && len(nFrags) >= 2 && rapid.IntRange(0, 4).Draw(t, "topSidxSplit") == 0 {
		// the index as two chained sidx boxes (the second skips the segments of the first in first_offset)
		lay.TopSidxSplit = rapid.IntRange(1, len(nFrags)-1).Draw(t, "topSidxSplitAt")
	}
	lay.SeqStart = rapid.SampledFrom([]uint32{0, 1, 1, 100, 0xfffffffe}).Draw(t, "seqStart")
	f := 0
	for _, nf := range nFrags {
		seg := fragbuild.Segment{Styp: styp, Sidx: mode == modeStypSegSidx}
		for j := 0; j < nf; j++ {
			var fr fragbuild.Frag
			for ti := range tracks {
				n := counts[ti][f]
				if n == 0 {
					if rapid.IntRange(0, 11).Draw(t, "emptyRun") == 0 {
						fr.Runs = append(fr.Runs, fragbuild.Run{Track: ti, N: 0})
					}
					continue
				}
				if n >= 2 && rapid.IntRange(0, 2).Draw(t, "twoRuns") == 0 {
					k := rapid.IntRange(0, n).Draw(t, "runCut") // 0 and n give an empty trun
					fr.Runs = append(fr.Runs, fragbuild.Run{Track: ti, N: k}, fragbuild.Run{Track: ti, N: n - k})
				} else {
					fr.Runs = append(fr.Runs, fragbuild.Run{Track: ti, N: n})
				}
			}
			if len(fr.Runs) > 1 && rapid.IntRange(0, 2).Draw(t, "shuffle") != 0 {
				fr.Runs = rapid.Permutation(fr.Runs).Draw(t, "runOrder")
			}
			seen := map[int]bool{}
			for _, r := range fr.Runs {
				seen[r.Track] = true
			}
			o := &fr.Opts
			o.TfhdDefaults = rapid.Bool().Draw(t, "tfhdDefaults")
			o.UseTrex = rapid.Bool().Draw(t, "useTrex")
			o.FirstSampleFlags = rapid.Bool().Draw(t, "firstSampleFlags")
			// several trafs with neither base flag (legacy addressing), several trafs of one track and truns
			// without data_offset are sample-addressing disagreements of the library that belong to fragbuild's
			// own list (libSkipLegacyMultiTraf, libSkipSplitTrafs, libSkipOmitDataOffset): not generated here
			o.Base = rapid.IntRange(0, 2).Draw(t, "base")
			if o.Base == 2 && len(seen) > 1 {
				o.Base = rapid.IntRange(0, 1).Draw(t, "base01")
			}
			// every run in a traf of its own (several trafs of one track in a moof, legal and unusual): grouping,
			// re-encoding and the reference track's duration per segment do not depend on how the library's sample
			// accessors address such trafs; never combined with legacy addressing
			if len(fr.Runs) > 1 && o.Base != 2 && rapid.IntRange(0, 4).Draw(t, "splitTrafs") == 0 {
				fr.SplitTrafs = true
			}
			o.TrunVersion = rapid.IntRange(0, 1).Draw(t, "trunVersion")
			o.TfdtVersion = rapid.IntRange(0, 1).Draw(t, "tfdtVersion")
			o.ForceAllPerSample = rapid.IntRange(0, 5).Draw(t, "forceAll") == 0
			o.TfhdDescIdx = rapid.IntRange(0, 3).Draw(t, "tfhdDescIdx") == 0
			fr.MdatLarge = rapid.IntRange(0, 3).Draw(t, "mdatLarge") == 0
			fr.PreBoxes = genExtras(t, "npre", []int{0, 0, 1, 1, 2, 3}, preKinds, tracks[0].ID)
			fr.InMoofBoxes = genExtras(t, "ninmoof", []int{0, 0, 0, 0, 1}, innerKinds, tracks[0].ID)
			fr.InTrafBoxes = genExtras(t, "nintraf", []int{0, 0, 0, 0, 1}, innerKinds, tracks[0].ID)
			seg.Frags = append(seg.Frags, fr)
			f++
		}
		lay.Segments = append(lay.Segments, seg)
	}

	if mode == modeStypSegSidx && rapid.Bool().Draw(t, "segSidx2") {
		// two sidx boxes per segment; the byte surgery of addSecondSegSidx does not touch absolute offsets
		c.SegSidx2 = true
		lay.Mfra, lay.MfraFirstTrackOnly = false, false
		for si := range lay.Segments {
			for fi := range lay.Segments[si].Frags {
				if o := &lay.Segments[si].Frags[fi].Opts; o.Base == 1 {
					o.Base = 0
				}
			}
		}
	}
	// decode flags: the one the mode is about, plus the other one now and then
	ism := mode == modeIsm || rapid.IntRange(0, 4).Draw(t, "ismFlag") == 0
	moof := mode == modeMoof || rapid.IntRange(0, 3).Draw(t, "moofFlag") == 0
	c.setFlags(ism, moof)
	c.Decoder = rapid.SampledFrom([]string{"file", "file", "sr", "sr", "lazy"}).Draw(t, "decoder")
	c.AddIfNotExists = rapid.IntRange(0, 3).Draw(t, "addIfNotExists") != 0
	c.NonZeroEPT = rapid.Bool().Draw(t, "nonZeroEPT")
	c.Twice = rapid.Bool().Draw(t, "twice")
	c.ReadFirst = rapid.IntRange(0, 2).Draw(t, "readFirst") == 0
	c.KeepMidEmsg = rapid.IntRange(0, 3).Draw(t, "keepMidEmsg") == 0
	if rapid.IntRange(0, 2).Draw(t, "dropLastSome") == 0 {
		c.DropLast = rapid.IntRange(1, 3).Draw(t, "dropLast")
	}
	if rapid.IntRange(0, 5).Draw(t, "mediaOnly") == 0 {
		// the media segments alone: nothing that stores absolute file offsets (mfra, explicit base_data_offset)
		c.MediaOnly = true
		lay.Mfra, lay.MfraFirstTrackOnly = false, false
		for si := range lay.Segments {
			for fi := range lay.Segments[si].Frags {
				if o := &lay.Segments[si].Frags[fi].Opts; o.Base == 1 {
					o.Base = 0
				}
			}
		}
	}
	return c, mode
}

// tfraEqual: all tfra boxes list the same moofs (findAndReadMfra refuses, with an error that says "not
// supported", tfra boxes of different length or with different moof offsets).
func tfraEqual(c *segCase) bool {
	l := &c.Layout
	if l.MfraFirstTrackOnly {
		return true
	}
	for si := range l.Segments {
		for ti := range c.Tracks {
			if fragHasTrack(&l.Segments[si].Frags[0], ti) != fragHasTrack(&l.Segments[si].Frags[0], 0) {
				return false
			}
		}
	}
	return true
}

func dropPre(fr *fragbuild.Frag, drop func(i int, x *fragbuild.ExtraBox) bool) bool {
	var keep []fragbuild.ExtraBox
	changed := false
	for i := range fr.PreBoxes {
		if drop(i, &fr.PreBoxes[i]) {
			changed = true
			continue
		}
		keep = append(keep, fr.PreBoxes[i])
	}
	fr.PreBoxes = keep
	return changed
}

// steerClear rewrites a drawn case so that it stays out of the input classes of the known findings that
// are avoided by construction; it returns the names of the switches that changed the case.
func steerClear(c *segCase) []string {
	var used []string
	note := func(name string) {
		for _, u := range used {
			if u == name {
				return
			}
		}
		used = append(used, name)
	}
	l := &c.Layout
	eachFrag := func(fn func(si, fi int, fr *fragbuild.Frag)) {
		for si := range l.Segments {
			for fi := range l.Segments[si].Frags {
				fn(si, fi, &l.Segments[si].Frags[fi])
			}
		}
	}
	// -- decode flags
	if c.ism() && l.Mfra && !c.NoAvoid && !tfraEqual(c) {
		// documented as not supported (error from DecodeFile), not a finding
		c.setFlags(false, c.moof())
		note("unsupported:tfra-boxes-differ")
	}
	if c.rule() == "tfra" && c.Decoder == "sr" && c.avoid("sr-ignores-ism-flag") {
		c.Decoder = "file"
		note("sr-ignores-ism-flag")
	}
	if c.moof() && hasStyp(l) && !l.TopSidx && c.avoid("startonmoof-styp") {
		c.setFlags(c.ism(), false)
		note("startonmoof-styp")
	}
	if c.SegSidx2 && c.AddIfNotExists && c.avoid("segment-size-counts-first-sidx-only") {
		c.SegSidx2 = false
		note("segment-size-counts-first-sidx-only")
	}
	// -- boxes in front of the moofs
	rule := c.rule()
	if rule == "sidx" && c.avoid("topsidx-non-emsg-at-reference-start") {
		for si := 1; si < len(l.Segments); si++ {
			fr := &l.Segments[si].Frags[0]
			seenEmsg := false
			if dropPre(fr, func(i int, x *fragbuild.ExtraBox) bool {
				if attached(x) {
					seenEmsg = true
				}
				return !seenEmsg
			}) {
				note("topsidx-non-emsg-at-reference-start")
			}
		}
	}
	if rule == "tfra" && c.avoid("ism-emsg-before-segment-moof") {
		part := c.partition()
		first := map[int]bool{}
		for k, fl := range part {
			if k > 0 {
				first[fl[0]] = true
			}
		}
		g := 0
		eachFrag(func(si, fi int, fr *fragbuild.Frag) {
			if first[g] && dropPre(fr, func(i int, x *fragbuild.ExtraBox) bool { return isEmsg(x) || x.Type == "prft" }) {
				note("ism-emsg-before-segment-moof")
			}
			g++
		})
	}
	if rule == "moof" && c.avoid("startonmoof-emsg") {
		eachFrag(func(si, fi int, fr *fragbuild.Frag) {
			if dropPre(fr, func(i int, x *fragbuild.ExtraBox) bool { return attached(x) }) {
				note("startonmoof-emsg")
			}
		})
	}
	if c.avoid("emsg-mid-segment-in-previous-fragment") {
		part := c.partition()
		first := map[int]bool{}
		for _, fl := range part {
			first[fl[0]] = true
		}
		g := 0
		eachFrag(func(si, fi int, fr *fragbuild.Frag) {
			// with KeepMidEmsg the emsg boxes stay (their attachment is left unjudged by the oracle); prft boxes go
			if !first[g] && dropPre(fr, func(i int, x *fragbuild.ExtraBox) bool { return attached(x) && !(c.KeepMidEmsg && isEmsg(x)) }) {
				note("emsg-mid-segment-in-previous-fragment")
			}
			g++
		})
	}
	// -- absolute base_data_offset when the output moves the fragments
	if c.avoid("base-data-offset-stale") {
		moves := l.TopSidx || c.AddIfNotExists
		keepPrft := !c.avoid("prft-dropped")
		eachFrag(func(si, fi int, fr *fragbuild.Frag) {
			for _, x := range fr.PreBoxes {
				if !keptPre(x.Type, keepPrft) {
					moves = true
				}
			}
		})
		if moves && c.Decoder != "lazy" {
			eachFrag(func(si, fi int, fr *fragbuild.Frag) {
				if fr.Opts.Base == 1 {
					fr.Opts.Base = 0
					note("base-data-offset-stale")
				}
			})
		}
	}
	return used
}

func classify(c *segCase, mode string) (bool, []string) {
	part := c.partition()
	multi := false
	for _, fl := range part {
		if len(fl) >= 2 {
			multi = true
		}
	}
	nontrivial := len(part) >= 2 && multi
	classes := []string{"mode-" + mode, "rule-" + c.rule(), "decoder-" + c.Decoder, "flags-" + c.Flags,
		fmt.Sprintf("tracks-%d", len(c.Tracks)), fmt.Sprintf("segments-%d", len(part))}
	add := func(cond bool, yes, no string) {
		if cond && yes != "" {
			classes = append(classes, yes)
		}
		if !cond && no != "" {
			classes = append(classes, no)
		}
	}
	add(c.ism(), "flag-DecISMFlag", "")
	add(c.moof(), "flag-DecStartOnMoof", "")
	add(c.Layout.TopSidx, "sidx-existing", "sidx-absent")
	add(c.Layout.TopSidxGap > 0, "sidx-existing-with-first-offset", "")
	add(c.Layout.TopSidxGapLarge, "free-box-with-64-bit-size-behind-the-index", "")
	add(c.Layout.TopSidxSplit > 0, "top-level-index-split-over-two-sidx", "")
	add(c.Layout.MfraLenSizes > 0, "tfra-wide-number-fields", "")
	add(c.AddIfNotExists, "addIfNotExists", "addIfNotExists-false")
	add(c.NonZeroEPT, "nonZeroEPT", "zeroEPT")
	add(c.Layout.TopSidx || c.AddIfNotExists, "sidx-in-output", "sidx-not-in-output")
	rt := &c.Tracks[refTrack(c.Tracks)]
	add(rt.StartTime > 0 || (len(rt.Samples) > 0 && rt.Samples[0].Cto > 0), "first-presentation-time-nonzero", "first-presentation-time-zero")
	add(rt.Handler == "vide", "ref-video", "")
	add(rt.Handler == "soun", "ref-audio", "")
	add(rt.Handler != "vide" && rt.Handler != "soun", "ref-first-track", "")
	add(refTrack(c.Tracks) != 0, "ref-track-not-first", "")
	add(rt.ID != 1, "ref-track-id-not-1", "")
	nEmsg, nPrft, nOther := 0, 0, 0
	maxFr := 0
	for _, fl := range part {
		if len(fl) > maxFr {
			maxFr = len(fl)
		}
	}
	classes = append(classes, fmt.Sprintf("max-fragments-per-segment-%d", maxFr))
	for si := range c.Layout.Segments {
		for fi := range c.Layout.Segments[si].Frags {
			for _, x := range c.Layout.Segments[si].Frags[fi].PreBoxes {
				switch x.Type {
				case "emsg":
					nEmsg++
				case "prft":
					nPrft++
				default:
					nOther++
				}
			}
		}
	}
	add(nEmsg > 0, "pre-emsg", "")
	add(nPrft > 0, "pre-prft", "")
	add(nOther > 0, "pre-dropped-kinds", "")
	add(c.SegSidx2, "segsidx-two-per-segment", "")
	add(c.Twice && !c.Tool && !c.MediaOnly && c.Decoder != "lazy", "updatesidx-twice", "")
	add(c.MediaOnly, "media-only", "")
	add(c.MediaOnly && c.Layout.TopSidx, "media-only-starts-with-sidx", "")
	{
		// the reference track in the expected segments (layout order = sample order)
		every, any64 := true, false
		g := 0
		segOf := map[int]int{}
		for s, fl := range part {
			for _, gi := range fl {
				segOf[gi] = s
			}
		}
		has := make([]bool, len(part))
		durs := make([]uint64, len(part))
		pos := 0
		for si := range c.Layout.Segments {
			for fi := range c.Layout.Segments[si].Frags {
				for _, r := range c.Layout.Segments[si].Frags[fi].Runs {
					if r.Track != refTrack(c.Tracks) {
						continue
					}
					for k := 0; k < r.N && pos < len(rt.Samples); k++ {
						has[segOf[g]] = true
						durs[segOf[g]] += uint64(rt.Samples[pos].Dur)
						pos++
					}
				}
				g++
			}
		}
		for s := range part {
			every = every && has[s]
			any64 = any64 || durs[s] > 0xffffffff
		}
		add(every, "ref-track-in-every-segment", "ref-track-absent-from-a-segment")
		add(every && len(part) >= 2, "ref-track-in-every-segment-of-several", "")
		add(any64, "segment-duration-beyond-32-bits", "")
	}
	add(c.Layout.Mfra && !c.ism(), "mfra-without-flag", "")
	add(!c.Layout.Mfra && c.ism(), "ism-flag-without-mfra", "")
	classes = append(classes, fragbuild.Classes(c.Tracks, c.Layout)...)
	return nontrivial, classes
}

// runAddSidx runs the built examples/add-sidx tool on the input and returns its output file.
func runAddSidx(c *segCase, file []byte, st *stats) ([]byte, *harness.Fail) {
	if f := missingBin("add-sidx"); f != nil {
		return nil, f
	}
	if !c.AddIfNotExists || c.Decoder != "file" || c.ism() {
		return nil, harness.Failf("harness|c12|bad-case", "tool case needs addIfNotExists, decoder file and no ISM flag")
	}
	dir, err := caseDir()
	if err != nil {
		return nil, harness.Failf("harness|c12|scratch directory", "%v", err)
	}
	defer os.RemoveAll(dir)
	if err := os.WriteFile(filepath.Join(dir, "in.mp4"), file, 0o644); err != nil {
		return nil, harness.Failf("harness|c12|scratch directory", "%v", err)
	}
	var args []string
	if c.NonZeroEPT {
		args = append(args, "-nzEPT")
	}
	if c.moof() {
		args = append(args, "-startSegOnMoof")
	}
	if c.RemoveEnc {
		args = append(args, "-removeEnc")
	}
	r := runTool(dir, binPath("add-sidx"), append(args, "in.mp4", "out.mp4")...)
	st.slow = st.slow || r.SlowUnderLoad
	if r.TimedOut {
		return nil, timeLimitFail("add-sidx", "add-sidx "+strings.Join(args, " "), r)
	}
	if crashed, class := r.crashed(); crashed {
		return nil, harness.Failf("C12|add-sidx|panic ("+class+")", "%s", tail(r.Stderr, 1500))
	}
	if r.Exit != 0 {
		return nil, harness.Failf("C12|add-sidx|error on valid input", "exit %d: %s", r.Exit, tail(r.Stderr+r.Stdout, 600))
	}
	o, err := os.ReadFile(filepath.Join(dir, "out.mp4"))
	if err != nil {
		return nil, harness.Failf("C12|add-sidx|no output file", "%v", err)
	}
	return o, nil
}

// leftoverEncBoxes are auxiliary-information boxes left in the traf of a clear track (as in
// mp4/testdata/clear_with_enc_boxes.mp4): add-sidx -removeEnc takes them out.
func leftoverEncBoxes() []fragbuild.ExtraBox {
	return []fragbuild.ExtraBox{
		{Type: "saiz", Payload: cat(be32(0), []byte{8}, be32(0))},
		{Type: "saio", Payload: cat(be32(0), be32(1), be32(0))},
		{Type: "senc", Payload: cat(be32(0), be32(0))},
	}
}

const toolBatch = 12

// TestAddSidxTool: the same generated layouts, step (3) through the add-sidx binary.
func TestAddSidxTool(t *testing.T) {
	needBin(t, "add-sidx")
	defer cleanupTmp()
	harness.RunRapid(t, "addsidx", func(rt *rapid.T) {
		cases := make([]segCase, toolBatch)
		modes := make([]string, toolBatch)
		for i := range cases {
			c, mode := genCase(rt)
			c.Tool, c.AddIfNotExists, c.Decoder = true, true, "file"
			c.Twice, c.MediaOnly = false, false
			c.setFlags(false, c.moof())
			c.Layout.Mfra = false // ISM-style files are outside the tool's options
			if rapid.Bool().Draw(rt, "encLeftovers") {
				for si := range c.Layout.Segments {
					for fi := range c.Layout.Segments[si].Frags {
						fr := &c.Layout.Segments[si].Frags[fi]
						fr.InTrafBoxes = append(fr.InTrafBoxes, leftoverEncBoxes()...)
					}
				}
				c.RemoveEnc = rapid.Bool().Draw(rt, "removeEnc")
			}
			for _, name := range steerClear(&c) {
				harness.Rec.Exclude(name)
			}
			cases[i], modes[i] = c, mode
		}
		fails := make([]*harness.Fail, len(cases))
		sts := make([]stats, len(cases))
		parallel(len(cases), func(i int) {
			fails[i] = harness.Guarded(func() *harness.Fail { return evalSeg(&cases[i], &sts[i]) })
		})
		for i := range cases {
			raw, _ := json.Marshal(cases[i])
			nt, classes := classify(&cases[i], modes[i])
			classes = append(classes, "tool-add-sidx")
			if cases[i].RemoveEnc {
				classes = append(classes, "tool-removeEnc")
			}
			if sts[i].slow {
				classes = append(classes, "tool-slow-under-load")
			}
			if sts[i].refused {
				classes = append(classes, "updatesidx-refuses-segment-duration-beyond-32-bits")
			}
			harness.Rec.Case(nt, raw, classes...)
			if harness.Rec.WantSample() && nt {
				harness.Rec.Sample(map[string]interface{}{"kind": "segmentation", "case": cases[i]})
			}
			names := make([]string, 0, len(sts[i].skipped))
			for name := range sts[i].skipped {
				names = append(names, name)
			}
			sort.Strings(names)
			for _, name := range names {
				harness.Rec.Exclude(name)
			}
		}
		for i := range cases {
			if fails[i] != nil {
				harness.Report(rt, "segmentation", cases[i], fails[i])
			}
		}
	})
}

func TestSegmentation(t *testing.T) {
	harness.RunRapid(t, "segmentation", func(rt *rapid.T) {
		c, mode := genCase(rt)
		for _, name := range steerClear(&c) {
			harness.Rec.Exclude(name)
		}
		raw, _ := json.Marshal(c)
		nt, classes := classify(&c, mode)
		harness.Rec.Case(nt, raw, classes...)
		if harness.Rec.WantSample() && nt {
			harness.Rec.Sample(map[string]interface{}{"kind": "segmentation", "case": c})
		}
		var st stats
		f := harness.Guarded(func() *harness.Fail { return evalSeg(&c, &st) })
		names := make([]string, 0, len(st.skipped))
		for name := range st.skipped {
			names = append(names, name)
		}
		sort.Strings(names)
		for _, name := range names {
			harness.Rec.Exclude(name)
		}
		if st.refused {
			harness.Rec.Class("updatesidx-refuses-segment-duration-beyond-32-bits")
		}
		if st.dropped != "" {
			harness.Rec.Class(st.dropped)
		}
		harness.Report(rt, "segmentation", c, f)
	})
}

// TestCaseJSON: the case survives JSON (replay = unmarshal + oracle) and builds the same bytes.
func TestCaseJSON(t *testing.T) {
	rapid.Check(t, func(rt *rapid.T) {
		c, _ := genCase(rt)
		raw, err := json.Marshal(c)
		if err != nil {
			rt.Fatalf("marshal: %v", err)
		}
		var d segCase
		if err := json.Unmarshal(raw, &d); err != nil {
			rt.Fatalf("unmarshal: %v", err)
		}
		raw2, _ := json.Marshal(d)
		if !bytes.Equal(raw, raw2) {
			rt.Fatalf("JSON not stable")
		}
		i1, s1, t1, err1 := fragbuild.Build(c.Tracks, c.Layout)
		i2, s2, t2, err2 := fragbuild.Build(d.Tracks, d.Layout)
		if err1 != nil || err2 != nil {
			rt.Fatalf("Build: %v / %v", err1, err2)
		}
		if !bytes.Equal(fragbuild.Concat(i1, s1, t1), fragbuild.Concat(i2, s2, t2)) {
			rt.Fatalf("the unmarshalled case builds another file")
		}
	})
}

// TestAdjusters anchors withBaseMoved / withMoofOffsetsMapped on the independent writer: the same model is
// written twice, the second time with a free box in front of the first moof; the moofs and the mfra of the
// second file must be what the helpers make of those of the first one.
func TestAdjusters(t *testing.T) {
	rapid.Check(t, func(rt *rapid.T) {
		c, _ := genCase(rt)
		if c.SegSidx2 {
			return
		}
		for si := range c.Layout.Segments {
			for fi := range c.Layout.Segments[si].Frags {
				c.Layout.Segments[si].Frags[fi].Opts.Base = 1
			}
		}
		c.Layout.Mfra = true
		c.Layout.TopSidx = false
		i1, s1, t1, err := fragbuild.Build(c.Tracks, c.Layout)
		if err != nil {
			rt.Fatalf("Build: %v", err)
		}
		f1 := fragbuild.Concat(i1, s1, t1)
		raw, _ := json.Marshal(c)
		var d segCase
		_ = json.Unmarshal(raw, &d)
		fr := &d.Layout.Segments[0].Frags[0]
		fr.PreBoxes = append([]fragbuild.ExtraBox{mkExtra("free", []byte{1, 2, 3}, 1)}, fr.PreBoxes...)
		i2, s2, t2, err := fragbuild.Build(d.Tracks, d.Layout)
		if err != nil {
			rt.Fatalf("Build: %v", err)
		}
		f2 := fragbuild.Concat(i2, s2, t2)
		m := map[uint64]uint64{}
		n := 0
		for si := range t1.Segments {
			for fi := range t1.Segments[si].Frags {
				a, b := t1.Segments[si].Frags[fi].Moof, t2.Segments[si].Frags[fi].Moof
				m[a.Offset] = b.Offset
				alt, found := withBaseMoved(f1[a.Offset:a.Offset+a.Size], int64(b.Offset)-int64(a.Offset))
				if found != (len(c.Layout.Segments[si].Frags[fi].Runs) > 0) {
					rt.Fatalf("withBaseMoved: found %v", found)
				}
				if !bytes.Equal(alt, f2[b.Offset:b.Offset+b.Size]) {
					rt.Fatalf("withBaseMoved: moof differs")
				}
				n++
			}
		}
		a, b := t1.Mfra, t2.Mfra
		if !bytes.Equal(withMoofOffsetsMapped(f1[a.Offset:a.Offset+a.Size], m), f2[b.Offset:b.Offset+b.Size]) {
			rt.Fatalf("withMoofOffsetsMapped: mfra differs")
		}
	})
}

// ---------------------------------------------------------------------------------------------
// reproducers of the known findings
// (regenerate with VERIF_C12_WRITE_KF=1 go test -tags verif ./props/c12 -run TestWriteKnownFindingRepros)

func tinyTrack(id uint32, handler string, datas ...string) fragbuild.Track {
	t := fragbuild.Track{ID: id, Timescale: 1000, Handler: handler, StsdRaw: fragbuild.WvttStsd(), Trex: fragbuild.TrexDefaults{DescIdx: 1}}
	for _, d := range datas {
		t.Samples = append(t.Samples, fragbuild.Sample{Data: []byte(d), Dur: 10, Flags: fragbuild.FlagsSync})
	}
	return t
}

func oneRun(n int) []fragbuild.Run { return []fragbuild.Run{{Track: 0, N: n}} }

func knownFindingCases() map[string]segCase {
	emsg := mkExtra("emsg0", nil, 1)
	prft := mkExtra("prft0", nil, 1)
	free := mkExtra("free", nil, 1)
	one := []fragbuild.Track{tinyTrack(1, "text", "AAAA", "BBB")}
	return map[string]segCase{
		"topsidx-non-emsg-at-reference-start": {Tracks: one, Decoder: "file", NoAvoid: true,
			Layout: fragbuild.FileLayout{SeqStart: 1, TopSidx: true, Segments: []fragbuild.Segment{
				{Frags: []fragbuild.Frag{{Runs: oneRun(1)}}},
				{Frags: []fragbuild.Frag{{Runs: oneRun(1), PreBoxes: []fragbuild.ExtraBox{free}}}}}}},
		"ism-emsg-before-segment-moof": {Tracks: one, Decoder: "file", Flags: "ism", NoAvoid: true,
			Layout: fragbuild.FileLayout{SeqStart: 1, Mfra: true, Segments: []fragbuild.Segment{
				{Frags: []fragbuild.Frag{{Runs: oneRun(1)}}},
				{Frags: []fragbuild.Frag{{Runs: oneRun(1), PreBoxes: []fragbuild.ExtraBox{emsg}}}}}}},
		"startonmoof-emsg": {Tracks: one, Decoder: "file", Flags: "moof", NoAvoid: true,
			Layout: fragbuild.FileLayout{SeqStart: 1, Segments: []fragbuild.Segment{
				{Frags: []fragbuild.Frag{{Runs: oneRun(2), PreBoxes: []fragbuild.ExtraBox{emsg}}}}}}},
		"startonmoof-styp": {Tracks: one, Decoder: "file", Flags: "moof", NoAvoid: true,
			Layout: fragbuild.FileLayout{SeqStart: 1, Segments: []fragbuild.Segment{
				{Styp: true, Frags: []fragbuild.Frag{{Runs: oneRun(2)}}}}}},
		"emsg-mid-segment-in-previous-fragment": {Tracks: one, Decoder: "file", NoAvoid: true,
			Layout: fragbuild.FileLayout{SeqStart: 1, Segments: []fragbuild.Segment{
				{Frags: []fragbuild.Frag{{Runs: oneRun(1)}, {Runs: oneRun(1), PreBoxes: []fragbuild.ExtraBox{emsg}}}}}}},
		"prft-dropped": {Tracks: one, Decoder: "file", NoAvoid: true,
			Layout: fragbuild.FileLayout{SeqStart: 1, Segments: []fragbuild.Segment{
				{Frags: []fragbuild.Frag{{Runs: oneRun(2), PreBoxes: []fragbuild.ExtraBox{prft}}}}}}},
		"encodesw-drops-mfra": {Tracks: one, Decoder: "file", NoAvoid: true,
			Layout: fragbuild.FileLayout{SeqStart: 1, Mfra: true, Segments: []fragbuild.Segment{
				{Frags: []fragbuild.Frag{{Runs: oneRun(2)}}}}}},
		"sidx-reference-id-hardcoded": {Tracks: []fragbuild.Track{tinyTrack(2, "text", "AAAA", "BBB")}, Decoder: "file", AddIfNotExists: true, NoAvoid: true,
			Layout: fragbuild.FileLayout{SeqStart: 1, Segments: []fragbuild.Segment{
				{Frags: []fragbuild.Frag{{Runs: oneRun(2)}}}}}},
		"sidx-ept-first-fragment-only": {Tracks: []fragbuild.Track{func() fragbuild.Track {
			t := tinyTrack(1, "text", "AAAA", "BBB")
			t.StartTime = 1000
			return t
		}()}, Decoder: "file", AddIfNotExists: true, NonZeroEPT: true, NoAvoid: true,
			Layout: fragbuild.FileLayout{SeqStart: 1, Segments: []fragbuild.Segment{
				{Frags: []fragbuild.Frag{{}, {Runs: oneRun(2)}}}}}},
		"base-data-offset-stale": {Tracks: one, Decoder: "file", AddIfNotExists: true, NoAvoid: true,
			Layout: fragbuild.FileLayout{SeqStart: 1, Segments: []fragbuild.Segment{
				{Frags: []fragbuild.Frag{{Runs: oneRun(2), Opts: fragbuild.FragOpts{Base: 1}}}}}}},
		"mfra-stale-after-updatesidx": {Tracks: one, Decoder: "file", AddIfNotExists: true, NoAvoid: true,
			Layout: fragbuild.FileLayout{SeqStart: 1, Mfra: true, Segments: []fragbuild.Segment{
				{Frags: []fragbuild.Frag{{Runs: oneRun(2)}}}}}},
		"segment-size-counts-first-sidx-only": {Tracks: one, Decoder: "file", SegSidx2: true, AddIfNotExists: true, NoAvoid: true,
			Layout: fragbuild.FileLayout{SeqStart: 1, Segments: []fragbuild.Segment{
				{Styp: true, Sidx: true, Frags: []fragbuild.Frag{{Runs: oneRun(2)}}}}}},
		// two samples of 2^31 ticks in one segment: 2^32 ticks, subsegment_duration 0 (pending triage:
		// replay/C12/pending/new-sidx-duration-wraps.json is the case the search found)
		"sidx-duration-wraps": {Tracks: []fragbuild.Track{func() fragbuild.Track {
			t := tinyTrack(1, "text", "AAAA", "BBB")
			t.Samples[0].Dur, t.Samples[1].Dur = 0x80000000, 0x80000000
			return t
		}()}, Decoder: "file", AddIfNotExists: true, NoAvoid: true,
			Layout: fragbuild.FileLayout{SeqStart: 1, Segments: []fragbuild.Segment{
				{Frags: []fragbuild.Frag{{Runs: oneRun(2)}}}}}},
		"sr-ignores-ism-flag": {Tracks: one, Decoder: "sr", Flags: "ism", NoAvoid: true,
			Layout: fragbuild.FileLayout{SeqStart: 1, Mfra: true, Segments: []fragbuild.Segment{
				{Frags: []fragbuild.Frag{{Runs: oneRun(1)}}}, {Frags: []fragbuild.Frag{{Runs: oneRun(1)}}}}}},
	}
}

// fixedCases are the inputs of defects that were repaired in /repo (regression inputs: they must pass).
func fixedCases() map[string]segCase {
	emsg := mkExtra("emsg0", nil, 1)
	prft := mkExtra("prft0", nil, 1)
	one := []fragbuild.Track{tinyTrack(1, "text", "AAAA", "BBB")}
	return map[string]segCase{
		// f93f66d: the four files of fragbuild/disagreements_test.go on which DecodeFile panicked
		"topsidx-then-prft-at-anchor": {Tracks: one, Decoder: "file", AddIfNotExists: true,
			Layout: fragbuild.FileLayout{SeqStart: 1, TopSidx: true, Segments: []fragbuild.Segment{
				{Frags: []fragbuild.Frag{{Runs: oneRun(2), PreBoxes: []fragbuild.ExtraBox{prft}}}}}}},
		"ism-tfra-fewer-entries-than-moofs": {Tracks: one, Decoder: "file", Flags: "ism", AddIfNotExists: true,
			Layout: fragbuild.FileLayout{SeqStart: 1, Mfra: true, Segments: []fragbuild.Segment{
				{Frags: []fragbuild.Frag{{Runs: oneRun(1)}, {Runs: oneRun(1)}}}}}},
		"ism-styp-and-mfra": {Tracks: one, Decoder: "file", Flags: "ism", AddIfNotExists: true,
			Layout: fragbuild.FileLayout{SeqStart: 1, Mfra: true, Segments: []fragbuild.Segment{
				{Styp: true, Frags: []fragbuild.Frag{{Runs: oneRun(2)}}}}}},
		"ism-emsg-before-first-moof": {Tracks: one, Decoder: "file", Flags: "ism", AddIfNotExists: true,
			Layout: fragbuild.FileLayout{SeqStart: 1, Mfra: true, Segments: []fragbuild.Segment{
				{Frags: []fragbuild.Frag{{Runs: oneRun(2), PreBoxes: []fragbuild.ExtraBox{emsg}}}}}}},
	}
}

func TestWriteKnownFindingRepros(t *testing.T) {
	if os.Getenv("VERIF_C12_WRITE_KF") == "" {
		t.Skip("VERIF_C12_WRITE_KF not set")
	}
	dir := harness.E.VerifDir + "/replay/C12"
	if err := os.MkdirAll(dir, 0o755); err != nil {
		t.Fatal(err)
	}
	cases := knownFindingCases()
	for name := range avoidKnown {
		if _, ok := cases[name]; !ok {
			t.Errorf("%s: no reproducer", name)
		}
	}
	for name, c := range cases {
		c := c
		c.NoAvoid, c.NoAvoidOnly = true, []string{name}
		f := harness.Guarded(func() *harness.Fail { return checkSeg(c) })
		if f == nil {
			t.Errorf("%s: the case does not fail (defect repaired?)", name)
			continue
		}
		raw, _ := json.Marshal(c)
		msg := f.Msg
		if i := strings.Index(msg, "\n"); i > 0 {
			msg = msg[:i]
		}
		b, _ := json.MarshalIndent(harness.ReplayFile{Property: "C12", Kind: "segmentation", Key: f.Key, Msg: msg, Case: raw}, "", " ")
		if err := os.WriteFile(dir+"/kf-"+name+".json", append(b, '\n'), 0o644); err != nil {
			t.Fatal(err)
		}
		t.Logf("%s: %s", name, f.Key)
	}
	for name, c := range fixedCases() {
		c := c
		if f := harness.Guarded(func() *harness.Fail { return checkSeg(c) }); f != nil {
			t.Errorf("fixed-%s: fails: %v", name, f)
			continue
		}
		raw, _ := json.Marshal(c)
		b, _ := json.MarshalIndent(harness.ReplayFile{Property: "C12", Kind: "segmentation", Key: "fixed|" + name, Case: raw}, "", " ")
		if err := os.WriteFile(dir+"/fixed-"+name+".json", append(b, '\n'), 0o644); err != nil {
			t.Fatal(err)
		}
	}
}

// TestFixedCases: the regression inputs pass.
func TestFixedCases(t *testing.T) {
	for name, c := range fixedCases() {
		c := c
		if f := harness.Guarded(func() *harness.Fail { return checkSeg(c) }); f != nil {
			t.Errorf("fixed-%s: %v", name, f)
		}
	}
}
