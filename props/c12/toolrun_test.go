package c12

// Running the command-line tools under test as subprocesses: binary lookup, per-case scratch
// directories under /verif/out/<ID>/tmp, address-space limit, time limit, crash classification and a
// small worker pool. (props/c11 holds a copy of this file: property packages are _test.go only.)

import (
	"bytes"
	"context"
	"fmt"
	"os"
	"os/exec"
	"path/filepath"
	"regexp"
	"runtime"
	"strconv"
	"strings"
	"sync"
	"testing"
	"time"

	"verif/internal/harness"
)

const propertyID = "C12"

// binDir is where the driver puts the tool binaries: <out>/bin, <out> being two levels above the
// run directory it passes in VERIF_OUT (/verif/out/<ID>/run, or /verif/out/alt-xxxx/<ID>/run for the
// mutation self-tests). Development runs (no VERIF_OUT) use /verif/out/bin. VERIF_BIN overrides.
func binDir() string {
	if d := os.Getenv("VERIF_BIN"); d != "" {
		return d
	}
	if os.Getenv("VERIF_OUT") != "" {
		return filepath.Join(filepath.Dir(filepath.Dir(harness.E.OutDir)), "bin")
	}
	return filepath.Join(harness.E.VerifDir, "out", "bin")
}

func binPath(name string) string { return filepath.Join(binDir(), name) }

// needBin fails the test (never skips) when a tool binary is missing.
func needBin(t *testing.T, names ...string) {
	t.Helper()
	for _, n := range names {
		st, err := os.Stat(binPath(n))
		if err != nil || st.IsDir() || st.Mode()&0o111 == 0 {
			t.Fatalf("tool binary %s is missing or not executable (%v): the driver builds it from checks.json \"tools\"; for a development run: "+
				"cd /verif && go build -tags verif -o out/bin/%s github.com/Eyevinn/mp4ff/<cmd|examples>/%s", binPath(n), err, n, n)
		}
	}
}

// missingBin is the oracle-side twin of needBin (replay has no *testing.T at hand).
func missingBin(names ...string) *harness.Fail {
	for _, n := range names {
		if st, err := os.Stat(binPath(n)); err != nil || st.IsDir() {
			return harness.Failf("harness|"+strings.ToLower(propertyID)+"|tool binary missing", "%s: %v", binPath(n), err)
		}
	}
	return nil
}

var (
	tmpOnce sync.Once
	tmpBase string
	tmpErr  error
)

// tmpRoot returns the scratch root of this process: /verif/out/<ID>/tmp/<leg>.<shard>.<pid>.
func tmpRoot() (string, error) {
	tmpOnce.Do(func() {
		root := filepath.Join(harness.E.VerifDir, "out", propertyID, "tmp")
		if os.Getenv("VERIF_OUT") != "" {
			root = filepath.Join(filepath.Dir(harness.E.OutDir), "tmp")
		}
		tmpBase = filepath.Join(root, fmt.Sprintf("%s.%d.%d", harness.E.Leg, harness.E.Shard, os.Getpid()))
		_ = os.RemoveAll(tmpBase)
		tmpErr = os.MkdirAll(tmpBase, 0o755)
	})
	return tmpBase, tmpErr
}

// caseDir makes a fresh directory for one case; the caller removes it.
func caseDir() (string, error) {
	root, err := tmpRoot()
	if err != nil {
		return "", err
	}
	if err := os.MkdirAll(root, 0o755); err != nil { // a finished test of this process may have removed it
		return "", err
	}
	return os.MkdirTemp(root, "case-")
}

// cleanupTmp removes the scratch root of this process (deferred by every test that runs tools).
func cleanupTmp() {
	if tmpBase != "" {
		_ = os.RemoveAll(tmpBase)
	}
}

type toolResult struct {
	Exit     int // exit status; -1 = killed (time limit) or could not start
	Stdout   string
	Stderr   string
	TimedOut bool // the time limit was exceeded twice: in the pool and again when run alone
	// SlowUnderLoad: the first run (next to its pool siblings) exceeded the time limit, the second one,
	// alone, did not: the result is that of the second run (evidence class "tool-slow-under-load")
	SlowUnderLoad bool
	StartErr      error
}

// toolVLimitKB is the address-space limit of a tool process (a runaway allocation must not take the
// machine down; Go programs of this size need well under 1 GB).
const toolVLimitKB = 4 << 20

// toolTimeout is the time limit of one tool run (VERIF_TOOL_TIMEOUT, a Go duration, overrides it for
// development runs and for the tests of the retry logic).
var toolTimeout = func() time.Duration {
	if d, err := time.ParseDuration(os.Getenv("VERIF_TOOL_TIMEOUT")); err == nil && d > 0 {
		return d
	}
	return 30 * time.Second
}()

// toolGate: pool runs hold it shared; the re-run of a timed-out case holds it exclusively, so that no
// sibling of this test process runs next to it.
var toolGate sync.RWMutex

// runTool runs bin with args in dir. A run that exceeds the time limit says little on a loaded machine
// (other shards, other checks): the case is run a second time with the pool of this process drained,
// after removing what the first run left in dir; only a second timeout is reported (TimedOut).
func runTool(dir, bin string, args ...string) toolResult {
	before := map[string]bool{}
	if ents, err := os.ReadDir(dir); err == nil {
		for _, e := range ents {
			before[e.Name()] = true
		}
	}
	toolGate.RLock()
	res := runToolOnce(dir, bin, args...)
	toolGate.RUnlock()
	if !res.TimedOut {
		return res
	}
	toolGate.Lock()
	defer toolGate.Unlock()
	if ents, err := os.ReadDir(dir); err == nil {
		for _, e := range ents {
			if !before[e.Name()] {
				_ = os.RemoveAll(filepath.Join(dir, e.Name()))
			}
		}
	}
	res = runToolOnce(dir, bin, args...)
	if !res.TimedOut {
		res.SlowUnderLoad = true
	}
	return res
}

func runToolOnce(dir, bin string, args ...string) toolResult {
	ctx, cancel := context.WithTimeout(context.Background(), toolTimeout)
	defer cancel()
	script := "ulimit -v " + strconv.Itoa(toolVLimitKB) + "; exec \"$0\" \"$@\""
	cmd := exec.CommandContext(ctx, "/bin/sh", append([]string{"-c", script, bin}, args...)...)
	cmd.Dir = dir
	cmd.Env = []string{"PATH=/usr/bin:/bin", "HOME=" + dir, "GOTRACEBACK=single", "GOMAXPROCS=2"}
	var so, se bytes.Buffer
	cmd.Stdout, cmd.Stderr = &so, &se
	err := cmd.Run()
	res := toolResult{Stdout: so.String(), Stderr: se.String()}
	if ctx.Err() == context.DeadlineExceeded {
		res.TimedOut, res.Exit = true, -1
		return res
	}
	if err != nil {
		if ee, ok := err.(*exec.ExitError); ok {
			res.Exit = ee.ExitCode()
		} else {
			res.Exit, res.StartErr = -1, err
		}
	}
	return res
}

// timeLimitFail is the failure of a tool that exceeded the time limit twice (see runTool).
func timeLimitFail(tool, cmdline string, r toolResult) *harness.Fail {
	return harness.Failf(propertyID+"|"+tool+"|time limit exceeded", "%s: no result within %v, neither next to the other cases of the batch nor when run alone\n%s", cmdline, toolTimeout, tail(r.Stderr, 600))
}

var (
	panicLineRe = regexp.MustCompile(`(?m)^(panic: .*|fatal error: .*)$`)
	frameLineRe = regexp.MustCompile(`(?m)^(github\.com/Eyevinn/mp4ff/[^\s(]+(?:\([^)]*\))?[^\s(]*|main\.[A-Za-z0-9_.()*]+)\(`)
	numRe       = regexp.MustCompile(`[-+]?0x[0-9a-fA-F]+|[-+]?[0-9]+`)
)

// crashed reports whether the process died from a Go panic / runtime fatal error (exit status 2 with
// a trace on stderr) or a signal, and returns a short stable class: "<message class> in <top frame>".
// A time limit exceeded twice (TimedOut) is not a crash: callers test it first (timeLimitFail).
func (r toolResult) crashed() (bool, string) {
	if r.TimedOut {
		return false, ""
	}
	m := panicLineRe.FindString(r.Stderr)
	if m == "" {
		if r.Exit == -1 || r.Exit > 128 {
			return true, "killed"
		}
		return false, ""
	}
	msg := m
	switch {
	case strings.Contains(msg, "index out of range"):
		msg = "index out of range"
	case strings.Contains(msg, "slice bounds out of range"):
		msg = "slice bounds out of range"
	case strings.Contains(msg, "nil pointer dereference"):
		msg = "nil pointer dereference"
	case strings.Contains(msg, "out of memory"), strings.Contains(msg, "cannot allocate"):
		msg = "out of memory"
	case strings.Contains(msg, "makeslice"):
		msg = "makeslice out of range"
	default:
		msg = strings.TrimPrefix(strings.TrimPrefix(msg, "panic: "), "fatal error: ")
		msg = numRe.ReplaceAllString(msg, "N")
		if len(msg) > 70 {
			msg = msg[:70]
		}
	}
	frame := ""
	if i := strings.Index(r.Stderr, "goroutine "); i >= 0 {
		for _, fm := range frameLineRe.FindAllStringSubmatch(r.Stderr[i:], -1) {
			f := strings.TrimPrefix(fm[1], "github.com/Eyevinn/mp4ff/")
			if strings.HasPrefix(f, "main.main") || strings.HasPrefix(f, "main.run") {
				continue
			}
			frame = f
			break
		}
	}
	if frame != "" {
		msg += " in " + frame
	}
	return true, msg
}

func tail(s string, n int) string {
	s = strings.TrimSpace(s)
	if len(s) > n {
		return "..." + s[len(s)-n:]
	}
	return s
}

// poolSize is the number of tool processes run concurrently by one test process.
func poolSize() int {
	n := 14
	if v, err := strconv.Atoi(os.Getenv("VERIF_POOL")); err == nil && v > 0 {
		n = v
	}
	if p := runtime.GOMAXPROCS(0); n > p {
		n = p
	}
	if n < 1 {
		n = 1
	}
	return n
}

// parallel runs fn(0..n-1) on the worker pool. Results must be stored by index: the outcome does not
// depend on the scheduling.
func parallel(n int, fn func(i int)) {
	var wg sync.WaitGroup
	sem := make(chan struct{}, poolSize())
	for i := 0; i < n; i++ {
		wg.Add(1)
		sem <- struct{}{}
		go func(i int) {
			defer wg.Done()
			defer func() { <-sem }()
			fn(i)
		}(i)
	}
	wg.Wait()
}

// TestRunToolRetry anchors the time-limit handling of runTool on a stand-in tool (a shell script): slow
// on its first run only -> the result of the second run, marked SlowUnderLoad, in a directory cleared of
// what the first run left; slow both times -> TimedOut.
func TestRunToolRetry(t *testing.T) {
	defer cleanupTmp()
	old := toolTimeout
	toolTimeout = 400 * time.Millisecond
	defer func() { toolTimeout = old }()
	dir, err := caseDir()
	if err != nil {
		t.Fatal(err)
	}
	defer os.RemoveAll(dir)
	root, _ := tmpRoot()
	marker := filepath.Join(root, "retry-marker")
	_ = os.Remove(marker)
	defer os.Remove(marker)
	script := filepath.Join(dir, "tool.sh")
	body := "#!/bin/sh\nif [ \"$1\" = always ]; then exec sleep 20; fi\nif [ -e \"$1\" ]; then if [ -e junk ]; then exit 7; fi; echo second; exit 3; fi\n: > \"$1\"\n: > junk\nexec sleep 20\n"
	if err := os.WriteFile(script, []byte(body), 0o755); err != nil {
		t.Fatal(err)
	}
	if err := os.WriteFile(filepath.Join(dir, "in.mp4"), []byte("x"), 0o644); err != nil {
		t.Fatal(err)
	}
	r := runTool(dir, script, marker)
	if r.TimedOut || !r.SlowUnderLoad || r.Exit != 3 || strings.TrimSpace(r.Stdout) != "second" {
		t.Fatalf("slow first run: %+v", r)
	}
	if _, err := os.Stat(filepath.Join(dir, "in.mp4")); err != nil {
		t.Fatalf("the input was removed before the second run: %v", err)
	}
	r = runTool(dir, script, marker)
	if r.TimedOut || r.SlowUnderLoad || r.Exit != 3 { // the marker exists, junk was cleared
		t.Fatalf("fast run: %+v", r)
	}
	r = runTool(dir, script, "always")
	if !r.TimedOut || r.SlowUnderLoad {
		t.Fatalf("slow twice: %+v", r)
	}
	if crashed, _ := r.crashed(); crashed {
		t.Fatalf("a time limit is not a crash")
	}
	if f := timeLimitFail("tool", "tool.sh always", r); f == nil || f.Key != propertyID+"|tool|time limit exceeded" {
		t.Fatalf("key: %+v", f)
	}
}
