package c12

// Leg "hugeseg": the index of segments that cannot be held in memory. referenced_size of a sidx reference has 31
// bits and subsegment_duration 32: a segment of 2 GiB or more cannot be indexed at all. Segments are built from
// metadata-only samples (nothing is materialised), encoded (moof + mdat header), laid out as a virtual file
// (init, then per segment the encoded bytes followed by filler of the payload size) and decoded lazily. Then
// UpdateSidx(true, nonZeroEPT): when every segment fits, the references must give the true sizes (and so tile the
// virtual file) and durations; when one does not fit, UpdateSidx must return an error: any index it could write
// would mis-state where the segments are.

import (
	"bytes"
	"encoding/json"
	"fmt"
	"io"
	"testing"

	"github.com/Eyevinn/mp4ff/mp4"
	"pgregory.net/rapid"

	"verif/internal/harness"
)

type hugeSegCase struct {
	Payloads   []uint64 `json:"payloads"` // per segment: bytes of media data (one fragment, two samples)
	Durs       []uint32 `json:"durs"`     // per segment: duration of each of its two samples
	Styp       bool     `json:"styp"`
	NonZeroEPT bool     `json:"nonZeroEPT"`
	Start      uint64   `json:"start"`
}

func init() { harness.RegisterReplay("hugeseg", harness.Replayer(checkHugeSeg)) }

type part struct {
	data   []byte
	filler uint64
}

// partsFile serves data0, filler0, data1, filler1, ...
type partsFile struct {
	parts  []part
	pos    int64
	served int64
}

func (p *partsFile) size() int64 {
	var n int64
	for _, x := range p.parts {
		n += int64(len(x.data)) + int64(x.filler)
	}
	return n
}

func (p *partsFile) at(off int64) byte {
	for _, x := range p.parts {
		if off < int64(len(x.data)) {
			return x.data[off]
		}
		off -= int64(len(x.data))
		if off < int64(x.filler) {
			return byte(off*37 + 11)
		}
		off -= int64(x.filler)
	}
	return 0
}

func (p *partsFile) Read(b []byte) (int, error) {
	if p.pos >= p.size() {
		return 0, io.EOF
	}
	k := len(b)
	if rem := p.size() - p.pos; int64(k) > rem {
		k = int(rem)
	}
	if p.served+int64(k) > 64<<20 {
		return 0, fmt.Errorf("virtual file: the media data is being read through")
	}
	for i := 0; i < k; i++ {
		b[i] = p.at(p.pos + int64(i))
	}
	p.pos += int64(k)
	p.served += int64(k)
	return k, nil
}

func (p *partsFile) Seek(off int64, whence int) (int64, error) {
	switch whence {
	case io.SeekCurrent:
		off += p.pos
	case io.SeekEnd:
		off += p.size()
	}
	if off < 0 {
		return 0, fmt.Errorf("virtual file: negative position")
	}
	p.pos = off
	return off, nil
}

func checkHugeSeg(c hugeSegCase) *harness.Fail {
	n := len(c.Payloads)
	if n == 0 || n > 8 || len(c.Durs) != n {
		return harness.Failf("harness|c12|bad-case", "hugeseg with %d segments", n)
	}
	init := mp4.CreateEmptyInit()
	init.AddEmptyTrack(90000, "video", "und")
	var ib bytes.Buffer
	if err := init.Encode(&ib); err != nil {
		return harness.Failf("harness|c12|init", "%v", err)
	}
	vf := &partsFile{parts: []part{{data: ib.Bytes()}}}
	segSize := make([]uint64, n) // true size of each segment in the virtual file
	t := c.Start
	for i := 0; i < n; i++ {
		if c.Payloads[i] > 2*0xffffffff {
			return harness.Failf("harness|c12|bad-case", "payload %d", c.Payloads[i])
		}
		frag, err := mp4.CreateFragment(uint32(i+1), 1)
		if err != nil {
			return harness.Failf("harness|c12|CreateFragment", "%v", err)
		}
		a := c.Payloads[i] / 2
		if a > 0xffffffff {
			a = 0xffffffff
		}
		b := c.Payloads[i] - a
		frag.AddSample(mp4.Sample{Flags: 0x02000000, Dur: c.Durs[i], Size: uint32(a)}, t)
		frag.AddSample(mp4.Sample{Flags: 0x01010000, Dur: c.Durs[i], Size: uint32(b)}, t+uint64(c.Durs[i]))
		t += 2 * uint64(c.Durs[i])
		seg := mp4.NewMediaSegmentWithoutStyp()
		if c.Styp {
			seg = mp4.NewMediaSegment()
		}
		seg.AddFragment(frag)
		var w bytes.Buffer
		if err := seg.Encode(&w); err != nil {
			return harness.Failf("harness|c12|MediaSegment.Encode", "%v", err)
		}
		vf.parts = append(vf.parts, part{data: append([]byte(nil), w.Bytes()...), filler: c.Payloads[i]})
		segSize[i] = uint64(w.Len()) + c.Payloads[i]
	}
	desc := func() string {
		return fmt.Sprintf("%d segments of %v bytes (styp %v), file of %d bytes", n, segSize, c.Styp, vf.size())
	}
	var opts []mp4.Option
	opts = append(opts, mp4.WithDecodeMode(mp4.DecModeLazyMdat))
	if !c.Styp {
		opts = append(opts, mp4.WithDecodeFlags(mp4.DecStartOnMoof))
	}
	f, err := mp4.DecodeFile(vf, opts...)
	if err != nil {
		return harness.Failf("C12|DecodeFile(lazy)|error on a well-formed file with large segments", "%v; %s", err, desc())
	}
	if len(f.Segments) != n {
		return harness.Failf("C12|DecodeFile(lazy)|number of segments differs", "%d, file has %d; %s", len(f.Segments), n, desc())
	}
	fits := true
	for _, s := range segSize {
		fits = fits && s <= 0x7fffffff
	}
	err = f.UpdateSidx(true, c.NonZeroEPT)
	if !fits {
		if err == nil {
			return harness.Failf("C12|UpdateSidx|no error for a segment whose size does not fit referenced_size", "referenced_size has 31 bits; UpdateSidx returned nil and wrote %+v; %s", sidxRefsOf(f), desc())
		}
		return nil
	}
	if err != nil {
		return harness.Failf("C12|File.UpdateSidx|error on decoded file", "%v; %s", err, desc())
	}
	if f.Sidx == nil {
		return harness.Failf("C12|UpdateSidx+Encode|no top-level sidx directly after the init boxes", "File.Sidx nil; %s", desc())
	}
	var sb bytes.Buffer
	if err := f.Sidx.Encode(&sb); err != nil {
		return harness.Failf("C12|UpdateSidx+Encode|sidx box malformed", "%v", err)
	}
	sx, perr := parseSidx(sb.Bytes())
	if perr != nil {
		return harness.Failf("C12|UpdateSidx+Encode|sidx box malformed", "%v: %x", perr, sb.Bytes())
	}
	if len(sx.Refs) != n {
		return harness.Failf("C12|UpdateSidx|reference_count differs from the number of segments|rule=huge", "%d references, %d segments; %s", len(sx.Refs), n, desc())
	}
	if sx.FirstOffset != 0 {
		return harness.Failf("C12|UpdateSidx|first reference does not start at the first byte of the first segment", "first_offset %d for an index directly in front of the first segment; %s", sx.FirstOffset, desc())
	}
	for i, r := range sx.Refs {
		if r.Type != 0 {
			return harness.Failf("C12|UpdateSidx|reference_type not media", "reference %d: %+v; %s", i, r, desc())
		}
		if uint64(r.Size) != segSize[i] {
			return harness.Failf("C12|UpdateSidx|reference does not start at the first byte of its segment|rule=huge", "reference %d has size %d, segment %d has %d bytes: the following references are misplaced; %s", i, r.Size, i, segSize[i], desc())
		}
		if uint64(r.Duration) != 2*uint64(c.Durs[i]) {
			return harness.Failf("C12|UpdateSidx|subsegment_duration differs from the summed sample durations of the reference track", "reference %d: %d, samples last %d; %s", i, r.Duration, 2*uint64(c.Durs[i]), desc())
		}
	}
	// the written index read back: the same virtual file with the sidx box behind the init segment, decoded without
	// flags: the references alone (and the styp boxes, when present) must lead to the same segments
	vf2 := &partsFile{parts: []part{{data: append(append([]byte(nil), ib.Bytes()...), sb.Bytes()...)}}}
	vf2.parts = append(vf2.parts, vf.parts[1:]...)
	f2, err := mp4.DecodeFile(vf2, mp4.WithDecodeMode(mp4.DecModeLazyMdat))
	if err != nil {
		return harness.Failf("C12|DecodeFile(lazy)|error on a well-formed file with large segments", "with the index written by UpdateSidx: %v; %s", err, desc())
	}
	if len(f2.Segments) != n {
		return harness.Failf("C12|DecodeFile|number of segments differs|rule=sidx", "%d segments, the index written by UpdateSidx (references %+v) describes %d; %s", len(f2.Segments), sx.Refs, n, desc())
	}
	at := uint64(ib.Len() + sb.Len())
	for i, sg := range f2.Segments {
		if sg.StartPos != at {
			return harness.Failf("C12|DecodeFile|MediaSegment.StartPos is not the first byte of the segment|rule=sidx", "segment %d: StartPos %d, expected %d; %s", i, sg.StartPos, at, desc())
		}
		at += segSize[i]
	}
	if f2.Sidx == nil || len(f2.Sidx.SidxRefs) != n {
		return harness.Failf("C12|DecodeFile|top-level sidx not kept on the file", "%s", desc())
	}
	for i, r := range f2.Sidx.SidxRefs {
		if uint64(r.ReferencedSize) != segSize[i] || r.SubSegmentDuration != 2*c.Durs[i] {
			return harness.Failf("C12|DecodeFile|sidx reference read back differs from the one written", "reference %d: %+v, written size %d duration %d; %s", i, r, segSize[i], 2*c.Durs[i], desc())
		}
	}
	wantEPT := uint64(0)
	if c.NonZeroEPT {
		wantEPT = c.Start
	}
	if sx.EPT != wantEPT {
		return harness.Failf("C12|UpdateSidx|earliest_presentation_time differs from the first sample of the reference track", "EPT %d, expected %d; %s", sx.EPT, wantEPT, desc())
	}
	return nil
}

func sidxRefsOf(f *mp4.File) string {
	if f.Sidx == nil {
		return "no sidx"
	}
	return fmt.Sprintf("%+v", f.Sidx.SidxRefs)
}

func genHugeSeg(t *rapid.T) hugeSegCase {
	var c hugeSegCase
	n := rapid.IntRange(1, 3).Draw(t, "nSeg")
	for i := 0; i < n; i++ {
		d := uint64(rapid.IntRange(0, 400).Draw(t, "delta"))
		var p uint64
		switch rapid.IntRange(0, 5).Draw(t, "sizeKind") {
		case 0:
			p = (1 << 31) - 400 + d // around the 31-bit limit of referenced_size (the moof and headers take ~130 bytes)
		case 1:
			p = (1 << 31) - 1 - 200 + d
		case 2:
			p = (1 << 32) - 300 + d
		case 3:
			p = uint64(rapid.Uint32().Draw(t, "any"))
		case 4:
			p = (1 << 32) + uint64(rapid.Uint32().Draw(t, "beyond"))
		default:
			p = uint64(rapid.IntRange(0, 100000).Draw(t, "small"))
		}
		if p > 2*0xffffffff {
			p = 2 * 0xffffffff // two samples of at most 2^32-1 bytes
		}
		c.Payloads = append(c.Payloads, p)
		c.Durs = append(c.Durs, rapid.SampledFrom([]uint32{1, 3000, 90000, 0x7fffffff}).Draw(t, "dur"))
	}
	c.Styp = rapid.Bool().Draw(t, "styp")
	c.NonZeroEPT = rapid.Bool().Draw(t, "nonZeroEPT")
	c.Start = rapid.SampledFrom([]uint64{0, 90000, 1 << 33}).Draw(t, "start")
	return c
}

func TestHugeSegments(t *testing.T) {
	harness.RunRapid(t, "hugeseg", func(rt *rapid.T) {
		c := genHugeSeg(rt)
		raw, _ := json.Marshal(c)
		big, fits := false, true
		for _, p := range c.Payloads {
			big = big || p >= 1<<30
			fits = fits && p+4096 <= 0x7fffffff
		}
		cl := []string{"hugeseg"}
		if fits {
			cl = append(cl, "hugeseg:every-segment-fits-referenced_size")
		} else {
			cl = append(cl, "hugeseg:some-segment-at-or-beyond-2^31")
		}
		harness.Rec.Case(big, raw, cl...)
		if harness.Rec.WantSample() {
			harness.Rec.Sample(map[string]interface{}{"kind": "hugeseg", "case": c})
		}
		f := harness.Guarded(func() *harness.Fail { return checkHugeSeg(c) })
		harness.Report(rt, "hugeseg", c, f)
	})
}
